#!/usr/bin/env python3
"""check.py <PROPERTY> [--tier quick|thorough] [--replay FILE] — single entry point of all checks."""
import sys, os, argparse, importlib, json
sys.path.insert(0, os.path.dirname(os.path.abspath(__file__)))
import lib

def main():
    ap = argparse.ArgumentParser()
    ap.add_argument("prop")
    ap.add_argument("--tier", default=os.environ.get("VERIF_TIER", "quick"), choices=["quick", "thorough"])
    ap.add_argument("--replay")
    a = ap.parse_args()
    mod = importlib.import_module(f"props.{a.prop}")
    ctx = lib.Ctx(a.prop, a.tier, lib.env_seed())
    if a.replay:
        ctx.replay = json.load(open(a.replay))
        rc = mod.replay(ctx) if hasattr(mod, "replay") else lib.generic_replay(ctx)
    else:
        ctx.replay = None
        rc = mod.run(ctx)
    sys.exit(rc)

if __name__ == "__main__":
    main()
