#!/usr/bin/env python3
"""seedtest.py [<seed-id> …] [--props C01,C02] [--tier quick] — apply each seeded breaking change
(/verif/seeded/<id>/patch.diff) to /repo, run the check of the property it breaks (and any extra
properties given), record the verdicts in /verif/seeded/<id>/result.json, and undo the change
(git -C /repo checkout -- . ; regenerate Gen).  Never leaves /repo modified."""
import json, os, subprocess, sys, time
V = os.path.dirname(os.path.dirname(os.path.abspath(__file__)))
R = "/repo"

def sh(cmd, **kw):
    return subprocess.run(cmd, shell=True, capture_output=True, text=True, **kw)

def main():
    args = [a for a in sys.argv[1:] if not a.startswith("--")]
    extra = []
    tier = "quick"
    for a in sys.argv[1:]:
        if a.startswith("--props="): extra = a.split("=", 1)[1].split(",")
        if a.startswith("--tier="): tier = a.split("=", 1)[1]
    ids = args or sorted(os.listdir(os.path.join(V, "seeded")))
    assert sh(f"git -C {R} status --porcelain --untracked-files=no").stdout.strip() == "", "/repo has local modifications"
    for sid in ids:
        d = os.path.join(V, "seeded", sid)
        if not os.path.isfile(os.path.join(d, "patch.diff")):
            continue
        meta = json.load(open(os.path.join(d, "meta.json")))
        props = [meta["property"]] + [p for p in extra if p != meta["property"]]
        r = sh(f"git -C {R} apply {d}/patch.diff")
        if r.returncode != 0:
            print(f"{sid}: patch does not apply: {r.stderr.strip()}"); continue
        res = {"seed": sid, "property": meta["property"], "tier": tier, "verdicts": {}}
        try:
            for p in props:
                t0 = time.time()
                c = sh(f"python3 checks/check.py {p} --tier {tier}", cwd=V)
                lines = [l for l in c.stdout.splitlines() if l.startswith("VIOLATION") or l.startswith("KNOWN-FINDING")]
                res["verdicts"][p] = {"exit": c.returncode, "lines": lines, "wall_s": round(time.time() - t0, 1),
                                      "detected": c.returncode == 1 and any(l.startswith("VIOLATION") for l in lines),
                                      "with_failing_input": any(l.startswith("VIOLATION") and "no-failing-input-found" not in l for l in lines)}
                print(f"{sid}: {p}: exit {c.returncode} {lines[:2]}", flush=True)
        finally:
            sh(f"git -C {R} checkout -- .")
            sh(f"python3 translator/rs2lean.py {R} lean/BumpProof/Gen", cwd=V)
        json.dump(res, open(os.path.join(d, "result.json"), "w"), indent=1)
    assert sh(f"git -C {R} status --porcelain --untracked-files=no").stdout.strip() == ""

if __name__ == "__main__":
    main()
