#!/usr/bin/env python3
"""seedtest.py [<seed-id> …] [--props=C01,C02] [--tier=quick] [--all-props] [--committed]

Runs the checks against each seeded breaking change (/verif/seeded/<id>/patch.diff) WITHOUT touching
/repo or /verif: a sandbox copy of /verif (build caches included) and a scratch git worktree of /repo
are created under /tmp/sv, the patch is applied to the worktree, the copy's `harness/repo` symlink and
VERIF_REPO point at it, and `checks/check.py` of the copy is run.  Verdicts are written to
/verif/seeded/<id>/result.json.  (Applying a patch to /repo itself —
`git -C /repo apply seeded/<id>/patch.diff; python3 checks/check.py <prop>; git -C /repo checkout -- .` — gives
the same verdicts; the sandbox only keeps concurrent work on /repo undisturbed.)"""
import json, os, subprocess, sys, time, shutil
V = os.path.dirname(os.path.dirname(os.path.abspath(__file__)))
SV = os.environ.get("SEEDTEST_DIR", "/tmp/sv")

def sh(cmd, **kw):
    return subprocess.run(cmd, shell=True, capture_output=True, text=True, **kw)

def main():
    ids = [a for a in sys.argv[1:] if not a.startswith("--")]
    extra, tier, allp = [], "quick", False
    for a in sys.argv[1:]:
        if a.startswith("--props="): extra = a.split("=", 1)[1].split(",")
        if a.startswith("--tier="): tier = a.split("=", 1)[1]
        if a == "--all-props": allp = True
    ids = ids or sorted(d for d in os.listdir(os.path.join(V, "seeded")) if os.path.isfile(os.path.join(V, "seeded", d, "patch.diff")))
    os.makedirs(SV, exist_ok=True)
    import fcntl
    lock = open(SV + ".lock", "w")
    fcntl.flock(lock, fcntl.LOCK_EX)      # one sandbox: concurrent invocations take turns
    if "--committed" in sys.argv:
        # the COMMITTED state of /verif (engineers may be editing the working tree): export HEAD, keep the sandbox's own build caches
        sh(f"rm -rf {SV}/export && mkdir -p {SV}/export {SV}/verif && git -C {V} archive HEAD | tar -x -C {SV}/export")
        r = sh(f"rsync -rlpgoD --checksum --delete --exclude lean/.lake --exclude harness/target --exclude harness/repo --exclude work --exclude replays --exclude 'evidence/*' {SV}/export/ {SV}/verif/")
        assert r.returncode == 0, r.stderr
    else:
        r = sh(f"rsync -a --delete --exclude .git --exclude harness/target --exclude work --exclude replays --exclude 'evidence/*' {V}/ {SV}/verif/")
        assert r.returncode in (0, 24), r.stderr   # 24: files vanished (concurrent builds)
    sh(f"git -C /repo worktree remove --force {SV}/repo")
    r = sh(f"git -C /repo worktree add -q --detach {SV}/repo HEAD"); assert r.returncode == 0, r.stderr
    sh(f"ln -sfn {SV}/repo {SV}/verif/harness/repo")
    env = dict(os.environ, VERIF_REPO=f"{SV}/repo", CARGO_TARGET_DIR=f"{SV}/target")
    claimed = [c["property_id"] for c in json.load(open(os.path.join(V, "MANIFEST.json")))["checks"]]
    try:
        for sid in ids:
            d = os.path.join(V, "seeded", sid)
            meta = json.load(open(os.path.join(d, "meta.json")))
            props = [meta["property"]] + [p for p in (claimed if allp else extra) if p != meta["property"]]
            sh(f"git -C {SV}/repo checkout -q -- . && git -C {SV}/repo clean -fdq")
            r = sh(f"git -C {SV}/repo apply {d}/patch.diff")
            if r.returncode != 0:
                print(f"{sid}: patch does not apply: {r.stderr.strip()}"); continue
            res = {"seed": sid, "property": meta["property"], "tier": tier, "verdicts": {}}
            for p in props:
                t0 = time.time()
                c = sh(f"python3 checks/check.py {p} --tier {tier}", cwd=f"{SV}/verif", env=env)
                lines = [l for l in c.stdout.splitlines() if l.startswith("VIOLATION") or l.startswith("KNOWN-FINDING")]
                detail = ""
                for l in lines:
                    if l.startswith("VIOLATION") and "replay=" in l:
                        rp = l.split("replay=")[1].split()[0]
                        try:
                            j = json.load(open(rp))
                            f = (j.get("failures") or [{}])[0]
                            detail = (f.get("message") or f.get("what") or json.dumps(j.get("obligations_not_discharged", [])[:2]))[:400]
                        except Exception as e:
                            detail = f"(replay unreadable: {e})"
                res["verdicts"][p] = {"exit": c.returncode, "lines": [l.replace(SV + "/verif", "/verif") for l in lines], "wall_s": round(time.time() - t0, 1),
                                      "detected": c.returncode == 1 and any(l.startswith("VIOLATION") for l in lines),
                                      "with_failing_input": any(l.startswith("VIOLATION") and "no-failing-input-found" not in l for l in lines),
                                      "first_failure": detail, "tail": c.stdout.strip().splitlines()[-1:] }
                print(f"{sid}: {p}: exit {c.returncode} {[l[:110] for l in lines[:2]]} :: {detail[:160]}", flush=True)
            json.dump(res, open(os.path.join(d, "result.json"), "w"), indent=1)
    finally:
        sh(f"git -C /repo worktree remove --force {SV}/repo")

if __name__ == "__main__":
    main()
