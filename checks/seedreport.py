#!/usr/bin/env python3
"""prints the markdown table 'which checks catch which seeded changes' from /verif/seeded/*/{meta,result}.json"""
import json, os, glob
V = os.path.dirname(os.path.dirname(os.path.abspath(__file__)))
rows = []
for d in sorted(glob.glob(os.path.join(V, "seeded", "*"))):
    if not os.path.isfile(os.path.join(d, "meta.json")): continue
    m = json.load(open(os.path.join(d, "meta.json")))
    r = json.load(open(os.path.join(d, "result.json"))) if os.path.isfile(os.path.join(d, "result.json")) else None
    sid = os.path.basename(d)
    summ = " ".join(str(m.get("summary", "")).split())[:170]
    needs = " ".join(str(m.get("needs", "")).split())[:150]
    if r:
        cells = []
        for p, v in r["verdicts"].items():
            how = "failing input" if v.get("with_failing_input") else ("proof/correspondence only" if v.get("detected") else "MISSED")
            cells.append(f"{p}: {how}" + (f" — {v.get('first_failure','')[:110]}" if v.get("with_failing_input") else ""))
        verdict = "; ".join(cells)
    else:
        verdict = "(not run yet)"
    rows.append(f"| {sid} | {m.get('property')} | {summ} | {needs} | {verdict} |")
print("| seed | breaks | change | needs | verdict of `checks/check.py <prop> --tier quick` |")
print("|---|---|---|---|---|")
print("\n".join(rows))
