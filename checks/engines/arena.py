"""
engine `arena` — correspondence between the hand-written arena model (lean/BumpProof/Arena, run by
the Lean driver) and the real crate (harness/src/bin/arena.rs), plus the direct oracles the harness
evaluates on the implementation.

Each `op` line of the harness carries the base-allocator responses observed during the operation
(inputs of the model) and the implementation's observables; the driver prints the model's
observables in the same format.  Fields are separated by " | ":
    0 outcome | 1 reqs | 2 cur/pos/ma | 3 stats | 4 any | 5 chunks | 6 live+sum
A property compares the projection of fields it depends on (`fields`).
"""
import os, subprocess, collections, re
from lib import *

ALL_FIELDS = (0, 1, 2, 3, 4, 5, 6)
FIELD_NAMES = ["outcome", "base-allocator requests", "current chunk / position / min align", "stats", "any_stats", "chunk list", "live blocks + contents checksum"]

def known_finding(known, prop, msg):
    for f in known.get("findings", []):
        if f["property"] == prop and re.search(f["match"], msg):
            return f["what"]
    return None

def run_arena(ctx, traces, ops, profile, fields=ALL_FIELDS, oracle_props=None, seed_offset=0, label=None):
    """returns True if the engine ran"""
    oracle_props = oracle_props or [ctx.prop]
    traces = min(traces * ctx.scale(), max(traces, 5000))      # change-directed deepening (quick tier, changed sources)
    ok, log = cargo_build(ctx, ["arena"])
    if not any(o["name"] == "build:harness-arena" for o in ctx.obligations):
        ctx.add_ob("build:harness-arena", "build", ok, "" if ok else log[-3000:])
    if not ok:
        return False
    if not any(o["name"] == "build:driver" for o in ctx.obligations):
        if not build_driver(ctx, "arena"):
            return False
    exe = bin_path("arena")
    env = dict(os.environ, VERIF_SEED=str(ctx.seed + seed_offset))
    p = run_harness([exe, str(traces), str(ops), profile], env, ctx)
    label = label or profile
    if p.returncode != 0:
        ctx.add_ob(f"run:arena-{label}", "build", False, f"rc={p.returncode}\n{p.stderr[-2000:]}\n{p.stdout[-1500:]}")
        died_oracles = [l for l in p.stdout.splitlines() if l.startswith("oracle ") and l.split()[1] in oracle_props][-3:]
        ctx.oracle_failures.append({"engine": "arena", "profile": profile, "what": "the harness process died (abort / crash inside the real crate)"
                                    + ("; direct oracle lines printed before it died: " + " || ".join(died_oracles) if died_oracles else ""),
                                    "last_lines": p.stdout.splitlines()[-6:], "stderr": p.stderr[-800:],
                                    "replay": f"VERIF_SEED={ctx.seed + seed_offset} {exe} {traces} {ops} {profile}"})
        return True
    known = load_known()
    lines = p.stdout.splitlines()
    queries, expected, meta = [], [], []     # driver input, implementation output, (trace no, op text)
    trace_no, trace_seed = -1, None
    oracle_lines = []
    summary = {}
    trace_ops = collections.defaultdict(list)
    for l in lines:
        if l.startswith("# trace "):
            trace_no += 1; trace_seed = l.split()[-1]; continue
        if l.startswith("# summary"):
            summary["summary"] = l[2:]; continue
        if l.startswith("# ops"):
            summary["ops"] = l[6:]; continue
        if l.startswith("# branches"):
            summary["branches"] = l[11:]; continue
        if l.startswith("#"):
            continue
        if l.startswith("cfg "):
            queries.append(l); expected.append("cfg-ok"); meta.append((trace_no, l)); trace_ops[trace_no].append(l); continue
        if l.startswith("oracle "):
            _, prop, msg = l.split(" ", 2)
            oracle_lines.append((trace_no, trace_seed, prop, msg, len(trace_ops[trace_no]))); continue
        if l.startswith("op "):
            q, _, r = l.partition(" => ")
            queries.append(q); expected.append(r); meta.append((trace_no, q)); trace_ops[trace_no].append(l)
    rc, dout, derr = run_driver("arena", "\n".join(queries) + "\n")
    answers = dout.splitlines()
    if rc != 0 or len(answers) != len(queries):
        ctx.add_ob(f"run:driver-arena-{label}", "build", False, f"driver rc={rc}: {len(answers)} answers for {len(queries)} queries\n{derr[-1500:]}")
        return False
    # ---- correspondence (projected)
    bad_traces = set()
    n_ops = 0
    for (tn, q), exp, ans in zip(meta, expected, answers):
        if tn in bad_traces:
            continue
        if q.startswith("cfg "):
            continue
        n_ops += 1
        ef, af = exp.split(" | "), ans.split(" | ")
        diff = None
        if len(af) != len(ef):
            diff = ["model: " + ans[:300]]
        else:
            d = [i for i in fields if i < len(ef) and ef[i] != af[i]]
            if d:
                diff = [f"{FIELD_NAMES[i]}: implementation `{ef[i][:200]}` model `{af[i][:200]}`" for i in d]
        if diff:
            bad_traces.add(tn)
            idx = len([1 for (t2, _) in meta[:meta.index((tn, q)) + 1] if t2 == tn])
            ctx.disagreements.append({"engine": "arena", "profile": profile, "trace": tn, "op": q, "differences": diff,
                                      "trace_prefix": trace_ops[tn][:idx][-25:],
                                      "what": "arena model and implementation disagree (model defect, harmless rewrite, or a real change of behaviour)"})
    # ---- direct oracles
    counted = collections.Counter()
    for tn, tseed, prop, msg, upto in oracle_lines:
        counted[prop] += 1
        if prop not in oracle_props:
            continue
        k = known_finding(known, prop, msg)
        rec = {"engine": "arena", "profile": profile, "trace": tn, "trace_seed": tseed, "property": prop, "message": msg,
               "history": trace_ops[tn][:upto][-30:],
               "replay": f"VERIF_SEED={ctx.seed + seed_offset} {exe} {traces} {ops} {profile}   # trace {tn}"}
        if k:
            if not any(f.get("known") == k for f in ctx.oracle_failures):
                rec["known"] = k
                ctx.oracle_failures.append(rec)
        elif len([f for f in ctx.oracle_failures if not f.get("known")]) < 20:
            ctx.oracle_failures.append(rec)
    ctx.evaluations += n_ops
    for (tn, q) in meta:
        if q.startswith("op "):
            ctx.distinct.add(q.split(" | ")[0])
    st = ctx.corr.setdefault("arena", {})
    st[label] = {"traces": trace_no + 1, "ops": n_ops, "fields_compared": [FIELD_NAMES[i] for i in fields],
                 "disagreeing_traces": len(bad_traces), "oracle_lines_by_property": dict(counted), **summary}
    if len(ctx.samples) < 6:
        t0 = trace_ops.get(0, [])
        ctx.samples.append({"engine": "arena", "profile": profile, "first_ops_of_trace_0": [x[:220] for x in t0[:6]]})
    return True

def finish_arena_obligation(ctx):
    ctx.add_ob("correspondence:arena(model vs implementation)", "correspondence",
               not [d for d in ctx.disagreements if d.get("engine") == "arena"],
               json.dumps(ctx.disagreements[:3], indent=1)[:3000])


def run_fit_search(ctx):
    """C12 at arena level: real arenas with header-changing / over-granting base allocators; the oracle
    flags a request that needed two chunks or a with_capacity that produced less capacity than asked"""
    n = 120 if ctx.quick() else 4000
    run_arena(ctx, n, 100, "ledger", fields=(0, 1, 5), oracle_props=["C12"], seed_offset=500, label="fit-ledger")
    finish_arena_obligation(ctx)
