"""shared body of the arena-model properties (C01 C02 C03 C05 C07 C10 C13 C14 C15 C18)"""
from lib import *
from engines.arena import run_arena, finish_arena_obligation, ALL_FIELDS

def run_arena_property(ctx, modules, runs_quick, runs_thorough, fields, note, extra_oracles=()):
    """runs_*: list of (profile, traces, ops).  `fields`: projection of the observation compared with the model."""
    ctx.extra["rule"] = ("state-aware random traces of contract-respecting operations on the real Bump/BumpScope over 10 settings combinations "
                         "x 5 minimum alignments x 3 base-allocator value layouts (header 32/48/128 bytes) x 4 over-granting modes, with injected "
                         "base-allocator failures; evaluations = operations executed on the implementation and replayed on the model; "
                         "distinct_nontrivial = distinct operation texts (op + arguments)")
    regen(ctx)
    proved = prove(ctx, modules)
    runs = runs_quick if ctx.quick() else runs_thorough
    oracle_props = [ctx.prop] + list(extra_oracles)
    for k, (profile, traces, ops) in enumerate(runs):
        run_arena(ctx, traces, ops, profile, fields=fields, oracle_props=oracle_props, seed_offset=1000 * k, label=f"{profile}-{k}")
    broken = (not proved) or any(d.get("engine") == "arena" for d in ctx.disagreements)
    if broken and not [f for f in ctx.oracle_failures if not f.get("known")] and ctx.quick():
        ctx.notes.append("proof/correspondence broken: running the deeper search for a failing input on the implementation")
        for k, (profile, traces, ops) in enumerate(runs_thorough[:2]):
            run_arena(ctx, min(traces, 1500), ops, profile, fields=fields, oracle_props=oracle_props, seed_offset=7777 + k, label=f"search-{profile}-{k}")
            if [f for f in ctx.oracle_failures if not f.get("known")]:
                break
    finish_arena_obligation(ctx)
    return finish(ctx, note)
