"""
engine `coll` — correspondence between the slot-level collection model (lean/BumpProof/Coll, run by
`driver coll`) and the real collection types of the crate (harness/src/bin/coll.rs), plus the direct
oracles the harness evaluates on the implementation (C06 exactly-once drop accounting incl. a panic at
every callback index and panicking `Drop`s, C08 agreement with std::vec::Vec + capacity promises,
C16 exact partition by split/merge; profile `failing`: C07 collection clause — every growing operation on a vector whose
reservation is refused (refusing base allocator / full FixedBumpVec / capacity overflow, incl. BumpVec::splice with a lying
size_hint) leaves it as it was: `run_coll(ctx, rounds, 1, "failing", oracle_props=["C07"])`).

Harness lines:   `new …` / `op … => <observed>` / `drop … => <observed>` are sent to the driver
(the part before ` => `) and its answer is compared VERBATIM with the observed part;
`oracle <PROP> <msg>` are implementation-vs-property failures; `zop …` (zero-sized elements, checked by
counting oracles only), `xop …` (operations that are not modelled yet: std / accounting oracles only, followed by a
`new` line that re-synchronises the model) and `# …` lines are not sent.
"""
import os, subprocess, collections, re
from lib import *

def known_finding(known, prop, msg):
    for f in known.get("findings", []):
        if f["property"] == prop and re.search(f["match"], msg):
            return f["what"]
    return None

def run_coll(ctx, traces, ops, profile, oracle_props=None, seed_offset=0, label=None, ops_filter=None):
    """runs `coll <traces> <ops> <profile>`; ops_filter: correspondence is judged only on these op names"""
    oracle_props = oracle_props or [ctx.prop]
    traces = traces * ctx.scale() if traces <= 8 else min(traces * ctx.scale(), max(traces, 60000))   # change-directed deepening
    ok, log = cargo_build(ctx, ["coll"])
    if not any(o["name"] == "build:harness-coll" for o in ctx.obligations):
        ctx.add_ob("build:harness-coll", "build", ok, "" if ok else log[-3000:])
    if not ok:
        return False
    if not any(o["name"] == "build:driver" for o in ctx.obligations):
        if not build_driver(ctx, "coll"):
            return False
    exe = bin_path("coll")
    env = dict(os.environ, VERIF_SEED=str(ctx.seed + seed_offset))
    label = label or profile
    replay_cmd = f"VERIF_SEED={ctx.seed + seed_offset} {exe} {traces} {ops} {profile}"
    p = run_harness([exe, str(traces), str(ops), profile], env, ctx)
    if p.returncode != 0:
        ctx.add_ob(f"run:coll-{label}", "build", False, f"rc={p.returncode}\n{p.stderr[-2000:]}\n{p.stdout[-1500:]}")
        ctx.oracle_failures.append({"engine": "coll", "profile": profile, "property": ctx.prop,
                                    "message": "the harness process died (abort / crash inside the real crate)",
                                    "history": p.stdout.splitlines()[-8:], "stderr": p.stderr[-800:], "replay": replay_cmd})
        return True
    known = load_known()
    queries, expected, meta = [], [], []
    trace_lines = collections.defaultdict(list)
    trace_hdr = {}
    oracle_lines = []
    summary = {}
    tn = -1
    zops = 0
    xops = 0
    xby = collections.Counter()
    for l in p.stdout.splitlines():
        if l.startswith("# trace "):
            tn += 1; trace_hdr[tn] = l[2:]; continue
        if l.startswith("# "):
            for key in ("ops", "exits", "kinds", "branches", "summary", "splits"):
                if l.startswith(f"# {key} "):
                    summary[key] = l[len(key) + 3:]
            continue
        if l.startswith("oracle "):
            _, prop, msg = l.split(" ", 2)
            oracle_lines.append((tn, prop, msg, len(trace_lines[tn]))); continue
        if l.startswith("zop "):
            zops += 1; trace_lines[tn].append(l); continue
        if l.startswith("xop "):
            xops += 1; xby[l.split()[1]] += 1; trace_lines[tn].append(l); continue
        if l.startswith(("new ", "op ", "drop ")):
            q, sep, r = l.partition(" => ")
            queries.append(q); expected.append(r if sep else "ok"); meta.append(tn); trace_lines[tn].append(l)
    # every trace starts from an empty driver state
    dq, marks = [], []
    last = None
    for q, t in zip(queries, meta):
        if t != last:
            dq.append("reset"); marks.append(False); last = t
        dq.append(q); marks.append(True)
    rc, dout, derr = run_driver("coll", "\n".join(dq) + "\n")
    answers_all = dout.splitlines()
    if rc != 0 or len(answers_all) != len(dq):
        ctx.add_ob(f"run:driver-coll-{label}", "build", False, f"driver rc={rc}: {len(answers_all)} answers for {len(dq)} queries\n{derr[-1500:]}")
        return False
    answers = [a for a, m in zip(answers_all, marks) if m]
    bad_traces = set()
    n_ops = 0
    by_op = collections.Counter()
    for i, (q, exp, ans, t) in enumerate(zip(queries, expected, answers, meta)):
        if t in bad_traces:
            continue
        toks = q.split()
        if toks[0] == "op":
            n_ops += 1
            by_op[toks[1]] += 1
            ctx.distinct.add(q)
            if ops_filter and toks[1] not in ops_filter:
                # not part of this property's correspondence, but keep the driver state in sync
                if ans != exp:
                    bad_traces.add(t)
                continue
        if ans != exp:
            bad_traces.add(t)
            k = len([1 for j in range(i + 1) if meta[j] == t])
            ctx.disagreements.append({"engine": "coll", "profile": profile, "trace": trace_hdr.get(t, t), "line": q,
                                      "implementation": exp, "model": ans,
                                      "trace_prefix": trace_lines[t][:k + 2][-12:], "replay": replay_cmd,
                                      "what": "collection model and implementation disagree (model defect, harmless rewrite, or a real change of behaviour)"})
    counted = collections.Counter()
    for t, prop, msg, upto in oracle_lines:
        counted[prop] += 1
        if prop not in oracle_props:
            continue
        k = known_finding(known, prop, msg)
        rec = {"engine": "coll", "profile": profile, "trace": trace_hdr.get(t, t), "property": prop, "message": msg,
               "history": trace_lines[t][:upto][-12:], "replay": replay_cmd + f"   # {trace_hdr.get(t, t)}"}
        if k:
            if not any(f.get("known") == k for f in ctx.oracle_failures):
                rec["known"] = k
                ctx.oracle_failures.append(rec)
        elif len([f for f in ctx.oracle_failures if not f.get("known")]) < 20:
            ctx.oracle_failures.append(rec)
    ctx.evaluations += n_ops + zops + xops
    st = ctx.corr.setdefault("coll", {})
    st[label] = {"traces": tn + 1, "ops_compared_with_model": n_ops, "zero_sized_ops_oracle_only": zops, "sized_ops_oracle_only": xops,
                 "by_op": dict(by_op), "oracle_only_by_op": dict(xby),
                 "disagreeing_traces": len(bad_traces), "oracle_lines_by_property": dict(counted), **summary}
    if len(ctx.samples) < 6:
        for t in sorted(trace_lines):
            ls = [x for x in trace_lines[t] if x.startswith("op ")]
            if ls:
                ctx.samples.append({"engine": "coll", "profile": profile, "trace": trace_hdr.get(t), "lines": [x[:240] for x in trace_lines[t][:5]]})
                break
    return True

def finish_coll_obligation(ctx):
    ctx.add_ob("correspondence:coll(model vs implementation)", "correspondence",
               not [d for d in ctx.disagreements if d.get("engine") == "coll"],
               json.dumps(ctx.disagreements[:3], indent=1)[:3000])
