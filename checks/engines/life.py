"""
engine `life` — correspondence between the region calculus of lean/BumpProof/Life (its executable type
checker, run by `lake env lean --run BumpProof/Life/Main.lean`) and **rustc** on a generated corpus of small
safe Rust programs against the real crate, plus the direct oracle of property C04:

  for every allocation-producing call of the extracted signature table (alloc*, alloc_iter*, alloc_fmt*,
  alloc_cstr*, alloc_slice_*, alloc_try_with*, stats, allocator, collection into_*) in every context that
  yields a handle (the Bump itself, a scope of a guard, the parameter of a scoped / scoped_aligned / aligned
  closure, a claim guard, a pool guard, as_scope / as_mut_scope / by_value views, a `&Bump` through the
  scope traits) x every escape route of the property text (return from the closure, store in an outer
  variable, hold across guard drop / guard reset / second scope() / reset / reset_to_start / drop of the
  Bump / exclusive reborrow + reset / scoped(..) / pool reset / pool drop, move to a thread with a base allocator
  that is not Send) ONE PROGRAM THAT MUST NOT COMPILE and a minimally different control that must; the same for
  `&mut Bump` used as a scope-trait value and as the allocator of the collections (`MutBumpVec::new_in(&mut bump)`,
  `BumpVec::new_in(&mut bump)`, … `into_slice()` / `into_boxed_slice()` / `into_str()`); plus every settings
  conversion with single-field (and a few combined) changes.

  DERIVED corpus (`gen_derived`): for EVERY method of the table that hands something out (alloc family, stats, allocator,
  scope_guard, guard.scope(), as_scope, as_mut_scope, by_value, borrow(_mut)_with_settings, claim, deref(_mut), pool.get*,
  collection into_*) in every setup that yields a receiver for it, the canonical misuse programs: hold the result / a value
  allocated through it across every epoch-ending event of every handle of its derivation chain (the ORIGINAL included),
  allocate through it inside a scope the original opens and read after the scope closed, return it from / store it outside a
  closure, store it in an outer variable, move it to / share it with another thread — plus the use-before twins.  No
  expectation is attached: a program MUST NOT COMPILE iff the calculus' dynamic semantics (which looks at no signature) faults
  on it; `ESCAPE-COMPILES` reports such a program together with the faulting statement.  Variables the program does not drop
  are dropped implicitly by Rust: the checker's answer lists the invalidated variables at every scope end and the engine counts
  one whose Rust type has drop glue as a rejection.  `run_life(focus=…)` runs the full derived corpus of the given methods
  (the search after a table row changed).

  If the signature extraction fails (`TRANSLATE-ERROR`), the corpus is generated from — and the calculus' checker
  uses — the last good `Gen/Sigs.lean`, so that a changed signature still shows up as a program that compiles.

  verdicts compared:   calculus' checker  ==  rustc        (else: ctx.disagreements)
  direct oracle:       a program that must be rejected (an escape by construction / a weakening conversion)
                       but is accepted by rustc            (ctx.oracle_failures, replay = the program text)

The generator builds each program once as a list of calculus statements and prints it twice: as a line of the
checker's protocol and as Rust text (every drop explicit, so that implicit drops at the end of a block never
decide the verdict).
"""
import os, sys, re, json, subprocess, collections, hashlib, random, shutil, concurrent.futures
from lib import *

sys.path.insert(0, os.path.join(VERIF, "translator"))
import sigs2lean

CASES = os.path.join(VERIF, "lifecases")

BORROWCK = {"E0499", "E0502", "E0505", "E0506", "E0597", "E0716", "E0713", "E0503", "E0521", "E0515", "E0373", "E0596", "E0507",
            "E0594", "lifetime"}
CLASS_CODES = {"dead": BORROWCK, "escape": BORROWCK, "access": BORROWCK, "notSend": {"E0277"}, "const-assert": {"E0080"},
               "notApplicable": {"E0599", "E0277", "E0308"}}

def known_finding(known, prop, msg):
    for f in known.get("findings", []):
        if f["property"] == prop and re.search(f["match"], msg):
            return f["what"]
    return None

# ------------------------------------------------------------------------------------------------
# program builder

ARGS = {
    "alloc": "1u32", "alloc_with": "|| 1u32", "alloc_default": "<u32>", "alloc_slice_move": "[1u32, 2]",
    "alloc_slice_copy": "&[1u32, 2]", "alloc_slice_clone": "&[1u32, 2]", "alloc_slice_fill": "2, 1u32",
    "alloc_slice_fill_with": "2, || 1u32", "alloc_str": '"s"', "alloc_fmt": 'format_args!("{}", 1)',
    "alloc_fmt_mut": 'format_args!("{}", 1)', "alloc_cstr": 'c"x"', "alloc_cstr_from_str": '"x"',
    "alloc_cstr_fmt": 'format_args!("{}", 1)', "alloc_cstr_fmt_mut": 'format_args!("{}", 1)', "alloc_iter": "[1u32, 2]",
    "alloc_iter_exact": "[1u32, 2]", "alloc_iter_mut": "[1u32, 2]", "alloc_iter_mut_rev": "[1u32, 2]",
    "alloc_uninit": "<u32>", "alloc_uninit_slice": "<u32>2", "alloc_uninit_slice_for": "&[1u32, 2]",
    "alloc_try_with": "|| Ok::<u32, ()>(1)", "alloc_try_with_mut": "|| Ok::<u32, ()>(1)", "stats": "", "allocator": "",
    "get_with_size": "512", "get_with_capacity": "core::alloc::Layout::new::<u64>()",
}

# result type annotations for the methods whose result type has a free settings parameter
ANN = {("Bump", "borrow_with_settings"): "&Bump<A>", ("Bump", "borrow_mut_with_settings"): "&mut Bump<A>", ("Bump", "with_settings"): "Bump<A>",
       ("BumpScope", "borrow_with_settings"): "&BumpScope<A>", ("BumpScope", "borrow_mut_with_settings"): "&mut BumpScope<A>",
       ("BumpScope", "with_settings"): "BumpScope<A>"}

ALLOC_NAMES = {(1, 1): "Global", (0, 0): "NoSend", (1, 0): "SendNoSync"}
DEFAULT_S = "BumpSettings"

class Prog:
    def __init__(self, table, flags=(1, 1)):
        self.t = table; self.flags = flags
        self.stmts = []          # calculus statements (tuples)
        self.rust = []           # rust lines
        self.n = 0
        self.info = {}           # var -> dict(kind=…, isref=bool, ret=…)
        self.indent = 1
        self.open = []           # stack of (result var placeholder index in self.rust, s, g)
        self.methods = set()     # table methods the program calls

    def fresh(self):
        v = self.n; self.n += 1; return v
    def emit(self, line):
        self.rust.append("    " * self.indent + line)
    def sig(self, owner, name):
        s = self.t.get((owner, name))
        if s is None: raise KeyError(f"no signature {owner}::{name}")
        return s

    def new_bump(self, settings=None):
        b = self.fresh(); self.stmts.append(("newBump", b)); self.info[b] = {"kind": "bump", "isref": False}
        self.emit(f"let mut v{b}: Bump<A{', ' + settings if settings else ''}> = Bump::new();"); return b
    def new_pool(self):
        p = self.fresh(); self.stmts.append(("newPool", p)); self.info[p] = {"kind": "pool", "isref": False}
        self.emit(f"let mut v{p}: BumpPool<A> = BumpPool::new();"); return p

    def call(self, h, owner, name, ann=None):
        s = self.sig(owner, name)
        self.methods.add((owner, name))
        ann = ann or ANN.get((owner, name[4:] if name.startswith("try_") else name))
        op = sigs2lean.effect_class(owner, name)
        x = self.fresh()
        self.stmts.append(("call", x, h, op, owner, name))
        base = name[4:] if name.startswith("try_") else name
        trait = owner in ("BumpAllocator", "BumpAllocatorCore", "BumpAllocatorScope", "BumpAllocatorTypedScope", "MutBumpAllocatorTypedScope")
        recv = f"v{h}"
        if name == "deref": expr = f"&*{recv}"
        elif name == "deref_mut": expr = f"&mut *{recv}"
        else:
            a = ARGS.get(base, "")
            turbofish = ""
            m = re.match(r"^<([a-z0-9]+)>(.*)$", a)
            if m: turbofish, a = f"::<{m.group(1)}>", m.group(2)
            if trait:
                r = ("&mut " if s.recv == "refMut" else "&") + recv
                if owner in ("BumpAllocator", "BumpAllocatorCore", "BumpAllocatorScope") and self.info.get(h, {}).get("isref"):
                    r = ("&mut *" if s.recv == "refMut" else "&*") + recv      # Self = the referent, which implements these traits
                expr = f"{owner}::{name}{turbofish}({r}{', ' + a if a else ''})"
            elif owner == "Bump" and s.recv == "ref" and self.info.get(h, {}).get("isref"):
                # method syntax on a `&mut Bump` would pick the scope TRAIT's method of the same name (`&&mut Bump` is tried
                # before the auto-deref to `Bump`) when the trait is in scope; the calculus statement means the inherent one
                expr = f"Bump::{name}{turbofish}(&*{recv}{', ' + a if a else ''})"
            else:
                expr = f"{recv}.{name}{turbofish}({a})"
            if name.startswith("try_"): expr += ".unwrap()"
            if base in ("alloc_try_with", "alloc_try_with_mut"): expr += ".unwrap()"
        kind = {"box": "val", "ref": "val", "stats": "val", "guard": "guard", "claimGuard": "claim", "poolGuard": "poolGuard",
                "scopeRef": "scope", "scopeMut": "scope", "scopeVal": "scope", "bumpRef": "bump", "bumpMut": "bump", "bumpVal": "bump",
                "unit": None}[s.ret]
        if kind is None:
            self.emit(f"{expr};")
        else:
            self.info[x] = {"kind": kind, "isref": s.ret in ("scopeRef", "scopeMut", "bumpRef", "bumpMut"), "ret": s.ret}
            if s.ret == "stats": self.info[x]["ty"] = "AnyStats" if base == "any_stats" else "Stats"
            if s.ret == "box" and base in ("alloc_slice_copy", "alloc_slice_clone", "alloc_slice_move", "alloc_slice_fill"): self.info[x]["ty"] = "BumpBox"
            self.emit(f"let mut v{x}{': ' + ann if ann else ''} = {expr};")
        return x

    def wrap(self, h, mode, wrappers):
        """`WithoutShrink(&h)` / `WithoutDealloc(WithoutShrink(&mut *h))` …: the wrappers forward the scope traits of what they
        hold, so in the calculus the wrapper IS the (re)borrow it holds (`borrow(_mut)_with_settings` of the handle)"""
        owner = "Bump" if self.info[h]["kind"] == "bump" else "BumpScope"
        name = "borrow_with_settings" if mode == "shr" else "borrow_mut_with_settings"
        self.methods.add((owner, name))
        x = self.fresh(); self.stmts.append(("call", x, h, "viewSame", owner, name))
        isref = self.info[h]["isref"]
        inner = (("&*" if isref else "&") if mode == "shr" else ("&mut *" if isref else "&mut ")) + f"v{h}"
        for w in reversed(wrappers): inner = f"{w}({inner})"
        self.info[x] = {"kind": self.info[h]["kind"], "isref": False, "wrapper": tuple(wrappers), "ret": "scopeRef"}
        self.emit(f"let mut v{x} = {inner};"); return x

    def helper_alloc(self, h):
        """`alloc_through(w)`: the generic `fn f<'a>(a: impl BumpAllocatorTypedScope<'a>) -> BumpBox<'a, str>` of the program header,
        called with the wrapper by value (= the trait's `alloc_str` in the calculus)"""
        self.methods.add(("BumpAllocatorTypedScope", "alloc_str"))
        x = self.fresh(); self.stmts.append(("call", x, h, "alloc", "BumpAllocatorTypedScope", "alloc_str"))
        self.info[x] = {"kind": "val", "isref": False, "ret": "box"}
        self.emit(f"let mut v{x} = alloc_through(v{h});"); return x

    def vconv(self, v, row):
        """a conversion between lifetime-carrying values (a row of the table's valueConvs)"""
        form, inp, name, out = row[0], row[1], row[2], row[3]
        self.methods.add((inp, name))
        x = self.fresh(); self.stmts.append(("vconv", x, v, inp, name))
        opt = out.startswith("Option<") or form == "item"
        head = out[7:-1] if out.startswith("Option<") else out
        if form == "from_": expr = f"{name}(v{v})" if "::" in name else f"{out}::from(v{v})"
        else: expr = f"v{v}.{name}()"
        if opt: expr += ".unwrap()"
        glue = head in ("BumpBox", "FixedBumpVec", "FixedBumpString")
        self.info[x] = {"kind": "val", "isref": False, "ret": "box" if glue else "stats", "ty": head}
        if glue: self.info[v]["moved"] = True
        self.emit(f"let mut v{x} = {expr};"); return x

    def from_parts(self, f, h, ty, into, row):
        """`let v = Ty::from_parts(f, &h); let x = v.into_*();` — in the calculus: a collection over `h`, its `into_*`, and the
        `join` with the region of `f` (as far as the signature of `from_parts` ties the two lifetimes)"""
        self.methods.add((row[1], row[2]))
        v = self.fresh(); self.stmts.append(("coll", v, h, "shr"))
        isref = self.info[h]["isref"]
        self.info[v] = {"kind": "coll", "isref": False, "ty": ty}
        self.emit(f"let mut v{v} = {row[2]}(v{f}, {'&*' if isref else '&'}v{h});")
        self.info[f]["moved"] = True
        x = self.call(v, ty, into)
        self.info[v]["moved"] = True
        self.stmts.append(("join", x, f, row[1], row[2]))
        return x

    def coll(self, h, mode, ty=None):
        v = self.fresh(); self.stmts.append(("coll", v, h, mode))
        ty = ty or ("BumpVec" if mode == "shr" else "MutBumpVec")
        isref = self.info[h]["isref"]
        arg = (("&*" if isref else "&") if mode == "shr" else ("&mut *" if isref else "&mut ")) + f"v{h}"
        self.info[v] = {"kind": "coll", "isref": False, "ty": ty}
        if ty in ("BumpString", "MutBumpString"):
            self.emit(f"let mut v{v} = {ty}::new_in({arg}); v{v}.push('x');")
        else:
            self.emit(f"let mut v{v} = {ty}::<u32, _>::new_in({arg}); v{v}.push(1);")
        return v

    def enter(self, h, owner, name):
        self.methods.add((owner, name))
        s, g = self.fresh(), self.fresh()
        op = sigs2lean.effect_class(owner, name)
        self.stmts.append(("enter", s, g, h, op, owner, name))
        self.info[s] = {"kind": "scope", "isref": True}
        tf = "::<8, _>" if name in ("scoped_aligned", "aligned") else ""
        self.open.append((len(self.rust), s, g, f"v{h}.{name}{tf}(|mut v{s}| {{"))
        self.rust.append(None)   # placeholder: the `let x = h.scoped(|s| {` line, known at exit
        self.indent += 1
        return s

    def exit(self, ret=None):
        at, s, g, head = self.open.pop()
        self.stmts.append(("exit", ret))
        if ret is not None:
            self.emit(f"v{ret}")
        self.indent -= 1
        self.rust[at] = "    " * self.indent + (f"let mut v{ret} = " if ret is not None else "") + head
        self.emit("});")
        return ret

    def use(self, x):
        self.stmts.append(("use", x)); self.emit(f"touch(&v{x});")
    def drop(self, x):
        self.stmts.append(("drop", x)); self.emit(f"drop(v{x});")
    def slot(self):
        o = self.fresh(); self.stmts.append(("slot", o)); self.info[o] = {"kind": "val", "isref": False}
        self.emit(f"let mut v{o} = None;"); return o
    def store(self, o, x):
        self.info[o]["ret"] = self.info[x].get("ret")
        self.stmts.append(("store", o, x)); self.emit(f"v{o} = Some(v{x});")
    def glue(self, v):
        """does the Rust type of the variable have drop glue (an implicit drop at the end of its block is a use)?"""
        i = self.info.get(v, {})
        k = i.get("kind")
        if i.get("moved") or i.get("wrapper"): return False
        if k in ("guard", "claim", "poolGuard", "coll", "pool"): return True
        if k == "bump": return not i.get("isref")
        if k == "val": return i.get("ret") == "box"
        return False
    def send(self, x):
        self.stmts.append(("send", x))
        self.emit(f"std::thread::scope(|sc| {{ sc.spawn(move || {{ let y = v{x}; touch(&y); drop(y); }}); }});")
    def share(self, x):
        self.stmts.append(("share", x))
        self.emit(f"std::thread::scope(|sc| {{ sc.spawn(|| {{ touch(&v{x}); }}); }});")

    # ---- output
    def line(self, pid):
        def f(st):
            return " ".join("-" if a is None else str(a) for a in st)
        return f"prog {pid} {self.flags[0]} {self.flags[1]} | " + " ; ".join(f(s) for s in self.stmts)
    def text(self, header=""):
        return RUST_HEAD.format(header=header) + f"fn main() {{\n    type A = {ALLOC_NAMES[self.flags]};\n" + "\n".join(self.rust) + "\n}\n"
    def function(self, name):
        return f"fn {name}() {{\n    type A = {ALLOC_NAMES[self.flags]};\n" + "\n".join(self.rust) + "\n}\n"

RUST_HEAD = """{header}#![forbid(unsafe_code)]
#![allow(unused, unused_must_use)]
use life_cases::*;
use bump_scope::{{Bump, BumpScope, BumpPool, BumpVec, BumpString, MutBumpVec, MutBumpVecRev, MutBumpString, BumpBox, FixedBumpVec, FixedBumpString, WithoutShrink, WithoutDealloc, settings::BumpSettings}};
use bump_scope::traits::{{BumpAllocator, BumpAllocatorCore, BumpAllocatorScope, BumpAllocatorTypedScope, MutBumpAllocatorTypedScope}};
use bump_scope::stats::{{Stats, Chunk, ChunkPrevIter, ChunkNextIter, AnyStats, AnyChunk, AnyChunkPrevIter, AnyChunkNextIter}};
fn alloc_through<'a>(a: impl BumpAllocatorTypedScope<'a>) -> BumpBox<'a, str> {{ a.alloc_str("s") }}
"""

# ------------------------------------------------------------------------------------------------
# corpus

class Case:
    def __init__(self, cid, expected, prog=None, conv=None, route="", producer="", context="", emit="metadata"):
        self.id, self.expected, self.prog, self.conv = cid, expected, prog, conv
        self.route, self.producer, self.context, self.emit = route, producer, context, emit
        self.tag = None    # known-finding tag (message prefix)
        self.ends = getattr(prog, "ends", True) if prog is not None else True
        self.methods = set(prog.methods) if prog is not None else set()
        self.focus = None  # derived corpus: the table method whose result the program misuses
        self.impls = set() # derived corpus: the scopeImpls rows (implementor classes) the program's receiver goes through

def producers_of(table, owner):
    """alloc-class methods of an owner, as (name, recv)"""
    res = []
    for (o, n), s in sorted(table.items()):
        if o == owner and sigs2lean.effect_class(o, n) == "alloc":
            base = n[4:] if n.startswith("try_") else n
            if base in ARGS: res.append((n, s.recv))
    return res

# a context sets up a handle `h` on which producers are called.  `enders` are events that end the memory epoch of what
# `h` allocates (must-not-compile when a value is used afterwards), `keepers` are events that look similar but legitimately
# keep the value alive (must compile).  An event is (name, run, pre, consumed): `run()` performs it and returns the new
# variables with drop glue it created; `pre` are the variables a CONTROL program has to drop before the event (the event would
# invalidate them and their implicit drop at the end of `main` would then be an error of its own); `consumed` are the
# variables the event itself moves or drops.  `objs` are the context's variables with drop glue, in declaration order.

def ev(name, run, pre=(), consumed=(), tag=None, ends=True):
    """`tag`: message prefix of a recorded finding the escape belongs to if the compiler accepts it; `ends`: does the event
    really end the value's memory epoch (else it only has to be rejected because the borrow rules say so)"""
    def wrapped():
        r = run()
        return list(r) if isinstance(r, (list, tuple)) else []
    return dict(name=name, run=wrapped, pre=list(pre), consumed=list(consumed), tag=tag, ends=ends)

def ctx_bump(P):
    b = P.new_bump()
    def reborrow_reset():
        bm = P.call(b, "Bump", "borrow_mut_with_settings", ann="&mut Bump<A>"); P.call(bm, "Bump", "reset")
    return dict(h=b, owner="Bump", mut=True, objs=[b], enders=[
        ev("reset", lambda: P.call(b, "Bump", "reset")), ev("reset_to_start", lambda: P.call(b, "Bump", "reset_to_start")),
        ev("drop-bump", lambda: P.drop(b), consumed=[b]), ev("reborrow-mut+reset", reborrow_reset),
        ev("scope_guard", lambda: [P.call(b, "Bump", "scope_guard")]),
        ev("scoped(..)", lambda: (P.enter(b, "Bump", "scoped"), P.exit(None)) and None, ends=False),
        ev("with_settings(self)", lambda: [P.call(b, "Bump", "with_settings", ann="Bump<A>")], consumed=[b])],
        keepers=[ev("stats", lambda: P.use(P.call(b, "Bump", "stats"))), ev("as_scope", lambda: P.call(b, "Bump", "as_scope"))])

def ctx_guard(P, via="scope"):
    b = P.new_bump()
    g = P.call(b, "Bump", "scope_guard")
    s = P.call(g, "BumpScopeGuard", "scope")
    h = s
    if via == "by_value":
        h = P.call(s, "BumpScope", "by_value")
    elif via == "borrow":
        h = P.call(s, "BumpScope", "borrow_with_settings", ann="&BumpScope<A>")
    elif via == "borrow_mut":
        h = P.call(s, "BumpScope", "borrow_mut_with_settings", ann="&mut BumpScope<A>")
    keepers = []
    if via == "scope":
        keepers = [ev("inner-scope_guard", lambda: P.drop(P.call(s, "BumpScope", "scope_guard"))),
                   ev("inner-scoped", lambda: (P.enter(s, "BumpScope", "scoped"), P.exit(None)) and None)]
    return dict(h=h, owner="BumpScope", mut=(via != "borrow"), objs=[b, g], enders=[
        ev("guard-drop", lambda: P.drop(g), consumed=[g]), ev("guard-reset", lambda: P.call(g, "BumpScopeGuard", "reset")),
        ev("second-scope()", lambda: P.call(g, "BumpScopeGuard", "scope")), ev("reset", lambda: P.call(b, "Bump", "reset"), pre=[g]),
        ev("drop-bump", lambda: P.drop(b), pre=[g], consumed=[b])], keepers=keepers)

def ctx_view(P, name):
    b = P.new_bump()
    h = P.call(b, "Bump", name)
    return dict(h=h, owner="BumpScope", mut=(name == "as_mut_scope"), objs=[b], enders=[
        ev("reset", lambda: P.call(b, "Bump", "reset")), ev("drop-bump", lambda: P.drop(b), consumed=[b]),
        ev("as_mut_scope", lambda: P.call(b, "Bump", "as_mut_scope"))], keepers=[])

def ctx_claim(P, inner=False):
    b = P.new_bump()
    # dropping the claim guard ends nothing: the memory lives as long as the claimed scope does
    if inner:
        g = P.call(b, "Bump", "scope_guard"); s = P.call(g, "BumpScopeGuard", "scope")
        cg = P.call(s, "BumpScope", "claim")
        return dict(h=cg, owner="BumpScope", mut=True, objs=[b, g, cg], owned_handle=cg, enders=[
            ev("claim-drop+guard-drop", lambda: (P.drop(cg), P.drop(g)) and None, consumed=[cg, g]),
            ev("claim-drop+guard-reset", lambda: (P.drop(cg), P.call(g, "BumpScopeGuard", "reset")) and None, consumed=[cg])],
            keepers=[ev("claim-drop", lambda: P.drop(cg), consumed=[cg])])
    cg = P.call(b, "Bump", "claim")
    return dict(h=cg, owner="BumpScope", mut=True, objs=[b, cg], owned_handle=cg, enders=[
        ev("claim-drop+reset", lambda: (P.drop(cg), P.call(b, "Bump", "reset")) and None, consumed=[cg]),
        ev("claim-drop+drop-bump", lambda: (P.drop(cg), P.drop(b)) and None, consumed=[cg, b])],
        keepers=[ev("claim-drop", lambda: P.drop(cg), consumed=[cg])])

def ctx_pool(P):
    p = P.new_pool()
    pg = P.call(p, "BumpPool", "get")
    return dict(h=pg, owner="BumpScope", mut=True, objs=[p, pg], owned_handle=pg, enders=[
        ev("guard-drop+pool-reset", lambda: (P.drop(pg), P.call(p, "BumpPool", "reset")) and None, consumed=[pg]),
        ev("guard-drop+pool-reset_to_start", lambda: (P.drop(pg), P.call(p, "BumpPool", "reset_to_start")) and None, consumed=[pg]),
        ev("guard-drop+pool-drop", lambda: (P.drop(pg), P.drop(p)) and None, consumed=[pg, p])],
        keepers=[ev("pool-guard-drop", lambda: P.drop(pg), consumed=[pg])])

def ctx_trait_ref(P):
    b = P.new_bump()
    r = P.call(b, "Bump", "borrow_with_settings", ann="&Bump<A>")
    return dict(h=r, owner="BumpAllocatorTypedScope", mut=False, objs=[b], enders=[
        ev("reset", lambda: P.call(b, "Bump", "reset")), ev("drop-bump", lambda: P.drop(b), consumed=[b])], keepers=[])

REFMUT_TAG = "REFMUT-BUMP-CORESCOPE"

def ctx_refmut(P):
    """a `&mut Bump` used as a scope-trait value / as the allocator of a collection.  Events through the reference itself are
    where the recorded finding C04-a lives (the trait-level `alloc*(&self) -> BumpBox<'a, _>` is not tied to the `&self` borrow)"""
    b = P.new_bump()
    bm = P.call(b, "Bump", "borrow_mut_with_settings", ann="&mut Bump<A>")
    return dict(h=bm, owner="BumpAllocatorTypedScope", mut=True, objs=[b], enders=[
        ev("reset(through the &mut)", lambda: P.call(bm, "Bump", "reset"), tag=REFMUT_TAG),
        ev("reset_to_start(through the &mut)", lambda: P.call(bm, "Bump", "reset_to_start"), tag=REFMUT_TAG),
        ev("scoped(..)(through the &mut)", lambda: (P.enter(bm, "Bump", "scoped"), P.exit(None)) and None, tag=REFMUT_TAG, ends=False),
        ev("reset", lambda: P.call(b, "Bump", "reset")), ev("reset_to_start", lambda: P.call(b, "Bump", "reset_to_start")),
        ev("scoped(..)", lambda: (P.enter(b, "Bump", "scoped"), P.exit(None)) and None, ends=False),
        ev("drop-bump", lambda: P.drop(b), consumed=[b])], keepers=[])

LINEAR_CONTEXTS = [
    ("bump", ctx_bump), ("guard", ctx_guard), ("guard.by_value", lambda P: ctx_guard(P, "by_value")),
    ("guard.borrow_with_settings", lambda P: ctx_guard(P, "borrow")), ("guard.borrow_mut_with_settings", lambda P: ctx_guard(P, "borrow_mut")),
    ("as_scope", lambda P: ctx_view(P, "as_scope")), ("as_mut_scope", lambda P: ctx_view(P, "as_mut_scope")),
    ("claim", ctx_claim), ("guard.claim", lambda P: ctx_claim(P, True)), ("pool", ctx_pool), ("&Bump(trait)", ctx_trait_ref),
]

def escape_and_control_ev(table, mk, i, produce, which="enders"):
    """(event, escape program, control program) for event number i of a context; `produce(P, c)` makes the value"""
    P = Prog(table); c = mk(P); x = produce(P, c); e = c[which][i]; e["run"](); P.use(x)
    Q = Prog(table); c = mk(Q); x = produce(Q, c); e = c[which][i]; Q.use(x); Q.drop(x)
    for v in reversed(c["objs"]):
        if v in e["pre"]: Q.drop(v)
    new = e["run"]()
    rest = [v for v in c["objs"] if v not in e["pre"] and v not in e["consumed"]] + new
    for v in reversed(rest): Q.drop(v)
    return e, P, Q

def escape_and_control(table, mk, i, produce, which="enders"):
    e, P, Q = escape_and_control_ev(table, mk, i, produce, which)
    P.ends = Q.ends = e["ends"]
    return e["name"], P, Q

def keeper(table, mk, i, produce):
    Q = Prog(table); c = mk(Q); x = produce(Q, c); e = c["keepers"][i]; new = e["run"](); Q.use(x); Q.drop(x)
    rest = [v for v in c["objs"] if v not in e["consumed"]] + new
    for v in reversed(rest): Q.drop(v)
    return e["name"], Q

def gen_linear(table, cases):
    for cname, mk in LINEAR_CONTEXTS:
        probe = mk(Prog(table))
        prods = producers_of(table, probe["owner"])
        n_end, n_keep = len(probe["enders"]), len(probe["keepers"])
        for (m, recv) in prods:
            if recv == "refMut" and not probe["mut"]:
                # `&mut self` producer through a shared handle: must be rejected (E0596)
                P = Prog(table); c = mk(P); x = P.call(c["h"], c["owner"], m); P.use(x)
                cases.append(Case(f"{cname}/{m}/shared-receiver", "reject", P, route="mut-through-shared", producer=m, context=cname))
                continue
            produce = lambda P, c, m=m: P.call(c["h"], c["owner"], m)
            for i in range(n_end):
                name, P, Q = escape_and_control(table, mk, i, produce)
                cases.append(Case(f"{cname}/{m}/{name}/escape", "reject", P, route=name, producer=m, context=cname))
                cases.append(Case(f"{cname}/{m}/{name}/control", "accept", Q, route=name, producer=m, context=cname))
            for i in range(n_keep):
                if recv == "refMut" and cname == "bump":
                    continue    # the value holds the exclusive borrow of the Bump itself: any other use of the Bump conflicts
                name, Q = keeper(table, mk, i, produce)
                cases.append(Case(f"{cname}/{m}/{name}/keeps", "accept", Q, route=name, producer=m, context=cname))

CLOSURE_CONTEXTS = [("Bump", "scoped"), ("Bump", "scoped_aligned"), ("Bump", "aligned"), ("BumpScope", "scoped"), ("BumpScope", "scoped_aligned")]

def gen_closures(table, cases):
    for owner, meth in CLOSURE_CONTEXTS:
        cname = f"{owner}::{meth}"
        for (m, recv) in producers_of(table, "BumpScope"):
            def setup(P):
                b = P.new_bump()
                if owner == "Bump": return b, [b], b
                g = P.call(b, "Bump", "scope_guard"); s0 = P.call(g, "BumpScopeGuard", "scope")
                return s0, [g, b], b
            # return from the closure
            P = Prog(table); h, cl, b = setup(P); s = P.enter(h, owner, meth); y = P.call(s, "BumpScope", m); x = P.exit(y); P.use(x)
            cases.append(Case(f"{cname}/{m}/return/escape", "reject", P, route="return-from-closure", producer=m, context=cname))
            P = Prog(table); h, cl, b = setup(P); s = P.enter(h, owner, meth); y = P.call(s, "BumpScope", m); P.use(y); P.drop(y); P.exit(None)
            for v in cl: P.drop(v)
            cases.append(Case(f"{cname}/{m}/return/control", "accept", P, route="return-from-closure", producer=m, context=cname))
            # store in an outer variable
            P = Prog(table); h, cl, b = setup(P); o = P.slot(); s = P.enter(h, owner, meth); y = P.call(s, "BumpScope", m); P.store(o, y); P.exit(None); P.use(o)
            cases.append(Case(f"{cname}/{m}/store/escape", "reject", P, route="store-in-outer-variable", producer=m, context=cname))
            P = Prog(table); h, cl, b = setup(P); s = P.enter(h, owner, meth); o = P.slot(); y = P.call(s, "BumpScope", m); P.store(o, y); P.use(o); P.drop(o); P.exit(None)
            for v in cl: P.drop(v)
            cases.append(Case(f"{cname}/{m}/store/control", "accept", P, route="store-in-outer-variable", producer=m, context=cname))
            # use of the receiver inside its own closure
            if owner == "Bump" and recv == "ref":
                P = Prog(table); h, cl, b = setup(P); s = P.enter(h, owner, meth); y = P.call(b, "Bump", m if ("Bump", m) in table else "alloc"); P.use(y); P.exit(None)
                cases.append(Case(f"{cname}/{m}/receiver-inside/escape", "reject", P, route="receiver-used-inside-its-closure", producer=m, context=cname))
    # `aligned` on a scope hands out the scope's real lifetime: values may leave the closure, but die with the guard
    for (m, recv) in producers_of(table, "BumpScope"):
        cname = "BumpScope::aligned"
        P = Prog(table); b = P.new_bump(); g = P.call(b, "Bump", "scope_guard"); s0 = P.call(g, "BumpScopeGuard", "scope")
        s = P.enter(s0, "BumpScope", "aligned"); y = P.call(s, "BumpScope", m); x = P.exit(y); P.use(x); P.drop(x); P.drop(g); P.drop(b)
        cases.append(Case(f"{cname}/{m}/return/keeps", "accept", P, route="return-from-aligned-closure", producer=m, context=cname))
        P = Prog(table); b = P.new_bump(); g = P.call(b, "Bump", "scope_guard"); s0 = P.call(g, "BumpScopeGuard", "scope")
        s = P.enter(s0, "BumpScope", "aligned"); y = P.call(s, "BumpScope", m); x = P.exit(y); P.drop(g); P.use(x)
        cases.append(Case(f"{cname}/{m}/return+guard-drop/escape", "reject", P, route="guard-drop", producer=m, context=cname))
    # nested closures: the inner value may not reach the outer closure body
    for (m, recv) in producers_of(table, "BumpScope")[:12]:
        cname = "nested-scoped"
        P = Prog(table); b = P.new_bump(); s1 = P.enter(b, "Bump", "scoped"); s2 = P.enter(s1, "BumpScope", "scoped")
        y = P.call(s2, "BumpScope", m); x = P.exit(y); P.use(x); P.exit(None)
        cases.append(Case(f"{cname}/{m}/return-to-outer-closure/escape", "reject", P, route="return-from-closure", producer=m, context=cname))
        P = Prog(table); b = P.new_bump(); s1 = P.enter(b, "Bump", "scoped"); y0 = P.call(s1, "BumpScope", m)
        s2 = P.enter(s1, "BumpScope", "scoped"); y = P.call(s2, "BumpScope", m); P.use(y); P.drop(y); P.exit(None)
        P.use(y0); P.drop(y0); P.exit(None); P.drop(b)
        cases.append(Case(f"{cname}/{m}/outer-value-survives-inner-scope/keeps", "accept", P, route="inner-scope", producer=m, context=cname))

def gen_collections(table, cases):
    colls = [("BumpVec", "shr"), ("BumpString", "shr"), ("MutBumpVec", "mut"), ("MutBumpVecRev", "mut"), ("MutBumpString", "mut"),
             ("BumpVec", "mut"), ("BumpString", "mut")]       # the last two: `BumpVec::new_in(&mut bump)`
    for ty, mode in colls:
        mtag = "(&mut)" if (mode == "mut" and not ty.startswith("Mut")) else ""
        for (o, n), s in sorted(table.items()):
            if o != ty: continue
            produce = lambda P, c, ty=ty, mode=mode, n=n: P.call(P.coll(c["h"], mode, ty), ty, n)
            for cname, mk in (("bump" + mtag, ctx_bump), ("guard" + mtag, ctx_guard), ("&mut Bump" + mtag, ctx_refmut)):
                probe = mk(Prog(table))
                for i in range(len(probe["enders"])):
                    name, P, Q = escape_and_control(table, mk, i, produce)
                    cases.append(Case(f"{ty}.{n}@{cname}/{name}/escape", "reject", P, route=name, producer=f"{ty}::{n}", context=cname + "+collection"))
                    cases.append(Case(f"{ty}.{n}@{cname}/{name}/control", "accept", Q, route=name, producer=f"{ty}::{n}", context=cname + "+collection"))
            # out of a scoped closure
            P = Prog(table); b = P.new_bump(); s = P.enter(b, "Bump", "scoped"); v = P.coll(s, mode, ty); y = P.call(v, ty, n); x = P.exit(y); P.use(x)
            cases.append(Case(f"{ty}{mtag}.{n}@scoped/return/escape", "reject", P, route="return-from-closure", producer=f"{ty}::{n}", context="Bump::scoped+collection"))
            P = Prog(table); b = P.new_bump(); s = P.enter(b, "Bump", "scoped"); v = P.coll(s, mode, ty); y = P.call(v, ty, n); P.use(y); P.drop(y); P.exit(None); P.drop(b)
            cases.append(Case(f"{ty}{mtag}.{n}@scoped/return/control", "accept", P, route="return-from-closure", producer=f"{ty}::{n}", context="Bump::scoped+collection"))

def gen_handles(table, cases):
    """the handles themselves must not outlive what they borrow"""
    def add(cid, exp, P, route): cases.append(Case("handle/" + cid, exp, P, route=route, producer="(handle)", context="handles"))
    # a scope of a guard used after the guard is gone / reset / re-scoped
    for name in ("guard-drop", "guard-reset", "second-scope()"):
        P = Prog(table); b = P.new_bump(); g = P.call(b, "Bump", "scope_guard"); s = P.call(g, "BumpScopeGuard", "scope")
        if name == "guard-drop": P.drop(g)
        elif name == "guard-reset": P.call(g, "BumpScopeGuard", "reset")
        else: P.call(g, "BumpScopeGuard", "scope")
        P.use(P.call(s, "BumpScope", "alloc"))
        add(f"scope-after-{name}", "reject", P, name)
    P = Prog(table); b = P.new_bump(); g = P.call(b, "Bump", "scope_guard"); s = P.call(g, "BumpScopeGuard", "scope")
    x = P.call(s, "BumpScope", "alloc"); P.use(x); P.drop(x); s2 = P.call(g, "BumpScopeGuard", "scope"); x2 = P.call(s2, "BumpScope", "alloc"); P.use(x2); P.drop(x2); P.drop(g); P.drop(b)
    add("two-scopes-in-sequence", "accept", P, "second-scope()")
    # the Bump is locked while a guard exists
    P = Prog(table); b = P.new_bump(); g = P.call(b, "Bump", "scope_guard"); x = P.call(b, "Bump", "alloc"); P.use(x); P.drop(x); P.drop(g)
    add("bump-used-while-guard-alive", "reject", P, "guard")
    P = Prog(table); b = P.new_bump(); g = P.call(b, "Bump", "scope_guard"); P.drop(g); x = P.call(b, "Bump", "alloc"); P.use(x); P.drop(x); P.drop(b)
    add("bump-used-after-guard-dropped", "accept", P, "guard")
    # scope handle obtained through a claim guard / pool guard dies with the guard
    for ctxn, mk in (("claim", ctx_claim), ("pool", ctx_pool)):
        for d in ("deref", "deref_mut"):
            P = Prog(table); c = mk(P); owner = "BumpClaimGuard" if ctxn == "claim" else "BumpPoolGuard"
            sv = P.call(c["owned_handle"], owner, d); P.drop(c["owned_handle"]); P.use(P.call(sv, "BumpScope", "alloc"))
            add(f"{ctxn}-{d}-after-guard-drop", "reject", P, ctxn + "-guard-drop")
            P = Prog(table); c = mk(P)
            sv = P.call(c["owned_handle"], owner, d); x = P.call(sv, "BumpScope", "alloc"); P.use(x); P.drop(x)
            for v in reversed(c["objs"]): P.drop(v)
            add(f"{ctxn}-{d}-control", "accept", P, ctxn + "-guard-drop")
    # guards of guards
    P = Prog(table); b = P.new_bump(); g = P.call(b, "Bump", "scope_guard"); s = P.call(g, "BumpScopeGuard", "scope")
    g2 = P.call(s, "BumpScope", "scope_guard"); s2 = P.call(g2, "BumpScopeGuard", "scope"); x = P.call(s2, "BumpScope", "alloc"); P.drop(g); P.use(x)
    add("inner-value-after-outer-guard-drop", "reject", P, "guard-drop")
    P = Prog(table); b = P.new_bump(); g = P.call(b, "Bump", "scope_guard"); s = P.call(g, "BumpScopeGuard", "scope")
    g2 = P.call(s, "BumpScope", "scope_guard"); s2 = P.call(g2, "BumpScopeGuard", "scope"); x = P.call(s2, "BumpScope", "alloc"); P.use(x); P.drop(x); P.drop(g2); P.drop(g); P.drop(b)
    add("nested-guards-control", "accept", P, "guard-drop")
    P = Prog(table); b = P.new_bump(); g = P.call(b, "Bump", "scope_guard"); s = P.call(g, "BumpScopeGuard", "scope")
    x0 = P.call(s, "BumpScope", "alloc"); g2 = P.call(s, "BumpScope", "scope_guard"); P.drop(g2); P.use(x0); P.drop(x0); P.drop(g); P.drop(b)
    add("outer-value-survives-inner-guard", "accept", P, "inner-guard")
    # shared handles cannot open scopes
    P = Prog(table); b = P.new_bump(); s = P.call(b, "Bump", "as_scope"); P.call(s, "BumpScope", "scope_guard")
    add("scope_guard-through-shared-scope", "reject", P, "mut-through-shared")
    # with_settings(self) on a reference
    P = Prog(table); b = P.new_bump(); s = P.call(b, "Bump", "as_mut_scope"); P.call(s, "BumpScope", "with_settings", ann="BumpScope<A>")
    add("with_settings-on-reference", "reject", P, "move-out-of-reference")
    P = Prog(table); b = P.new_bump(); g = P.call(b, "Bump", "scope_guard"); s = P.call(g, "BumpScopeGuard", "scope"); v = P.call(s, "BumpScope", "by_value")
    w = P.call(v, "BumpScope", "with_settings", ann="BumpScope<A>"); x = P.call(w, "BumpScope", "alloc"); P.use(x); P.drop(x); P.drop(g); P.drop(b)
    add("by_value-with_settings-control", "accept", P, "with_settings")
    P = Prog(table); b = P.new_bump(); g = P.call(b, "Bump", "scope_guard"); s = P.call(g, "BumpScopeGuard", "scope"); v = P.call(s, "BumpScope", "by_value")
    w = P.call(v, "BumpScope", "with_settings", ann="BumpScope<A>"); x = P.call(w, "BumpScope", "alloc"); P.drop(g); P.use(x)
    add("by_value-with_settings-guard-drop", "reject", P, "guard-drop")

def gen_threads(table, cases):
    def add(cid, exp, P, route): cases.append(Case("thread/" + cid, exp, P, route=route, producer="(thread)", context="threads"))
    for fl in ((1, 1), (1, 0), (0, 0)):
        tag = ALLOC_NAMES[fl]
        P = Prog(table, fl); b = P.new_bump(); P.send(b); add(f"send-bump/{tag}", "accept" if fl[0] else "reject", P, "send-bump")
        P = Prog(table, fl); b = P.new_bump(); x = P.call(b, "Bump", "alloc"); P.use(x); P.drop(x); P.send(b)
        add(f"send-bump-after-use/{tag}", "accept" if fl[0] else "reject", P, "send-bump")
        P = Prog(table, fl); b = P.new_bump(); x = P.call(b, "Bump", "alloc"); P.send(b); P.use(x)
        add(f"send-bump-while-borrowed/{tag}", "reject", P, "send-bump")
        P = Prog(table, fl); p = P.new_pool(); P.send(p); add(f"send-pool/{tag}", "accept" if fl[0] else "reject", P, "send-pool")
        P = Prog(table, fl); p = P.new_pool(); P.share(p); P.drop(p); add(f"share-pool/{tag}", "accept" if fl == (1, 1) else "reject", P, "share-pool")
        P = Prog(table, fl); p = P.new_pool(); pg = P.call(p, "BumpPool", "get"); P.send(pg); P.drop(p)
        add(f"send-pool-guard/{tag}", "accept" if fl == (1, 1) else "reject", P, "send-pool-guard")
        P = Prog(table, fl); b = P.new_bump(); P.share(b); add(f"share-bump/{tag}", "reject", P, "share-bump")
        P = Prog(table, fl); b = P.new_bump(); s = P.call(b, "Bump", "as_scope"); P.share(s); add(f"share-scope-ref/{tag}", "reject", P, "share-scope")
        P = Prog(table, fl); b = P.new_bump(); g = P.call(b, "Bump", "scope_guard"); P.send(g); add(f"send-guard/{tag}", "reject", P, "send-guard")
        P = Prog(table, fl); b = P.new_bump(); g = P.call(b, "Bump", "scope_guard"); s = P.call(g, "BumpScopeGuard", "scope"); v = P.call(s, "BumpScope", "by_value"); P.send(v)
        add(f"send-scope/{tag}", "reject", P, "send-scope")
        P = Prog(table, fl); b = P.new_bump(); c = P.call(b, "Bump", "claim"); P.send(c); add(f"send-claim-guard/{tag}", "reject", P, "send-claim-guard")
        for m in ("alloc", "alloc_str", "alloc_iter", "alloc_slice_copy"):
            P = Prog(table, fl); b = P.new_bump(); x = P.call(b, "Bump", m); P.send(x); P.drop(b)
            add(f"send-value-{m}/{tag}", "accept", P, "send-value")
            P = Prog(table, fl); b = P.new_bump(); x = P.call(b, "Bump", m); P.share(x); P.drop(x); P.drop(b)
            add(f"share-value-{m}/{tag}", "accept", P, "share-value")
            P = Prog(table, fl); b = P.new_bump(); x = P.call(b, "Bump", m); P.call(b, "Bump", "reset"); P.send(x)
            add(f"send-value-{m}-after-reset/{tag}", "reject", P, "reset")

def gen_known(table, cases):
    """trait-level `alloc*` on a `&mut Bump` (the `&'a mut Bump` implementor of BumpAllocatorCoreScope) held across every event.
    The escapes through the reference itself are the recorded finding C04-a (lifecases/findings/c04a_refmut_bump.rs); every other
    accepted escape of this family is a violation of its own."""
    ctxn = "&mut Bump(trait)"
    prods = [("BumpAllocatorTypedScope", m) for m, _ in producers_of(table, "BumpAllocatorTypedScope")] + \
            [("MutBumpAllocatorTypedScope", m) for m, _ in producers_of(table, "MutBumpAllocatorTypedScope")]
    n_end = len(ctx_refmut(Prog(table))["enders"])
    for owner, m in prods:
        produce = lambda P, c, owner=owner, m=m: P.call(c["h"], owner, m)
        for i in range(n_end):
            e, P, Q = escape_and_control_ev(table, ctx_refmut, i, produce)
            c = Case(f"{ctxn}/{m}/{e['name']}/escape", "reject", P, route=e["name"], producer=m, context=ctxn)
            c.tag, c.ends = e["tag"], e["ends"]
            cases.append(c)
            cases.append(Case(f"{ctxn}/{m}/{e['name']}/control", "accept", Q, route=e["name"], producer=m, context=ctxn))

# ---- settings conversions

def settings_ty(s):
    up, ma, ga, cl = s
    return f"BumpSettings<{ma}, {str(bool(up)).lower()}, {str(bool(ga)).lower()}, {str(bool(cl)).lower()}>"

def conv_body(owner, meth, old, new):
    S0, S1 = settings_ty(old), settings_ty(new)
    body = ["    type A = Global;"]
    if owner == "Bump":
        body.append(f"    let mut b: Bump<A, {S0}> = Bump::new();")
        if meth == "with_settings": body.append(f"    let c: Bump<A, {S1}> = b.with_settings(); touch(&c);")
        elif meth == "borrow_with_settings": body.append(f"    let r: &Bump<A, {S1}> = b.borrow_with_settings(); touch(&r);")
        else: body.append(f"    let r: &mut Bump<A, {S1}> = b.borrow_mut_with_settings(); touch(&r);")
    else:
        body.append(f"    let mut b: Bump<A, {S0}> = Bump::new();")
        body.append(f"    b.scoped(|s| {{")
        if meth == "with_settings": body.append(f"        let c: BumpScope<A, {S1}> = s.by_value().with_settings(); touch(&c);")
        elif meth == "borrow_with_settings": body.append(f"        let r: &BumpScope<A, {S1}> = s.borrow_with_settings(); touch(&r);")
        else: body.append(f"        let r: &mut BumpScope<A, {S1}> = s.borrow_mut_with_settings(); touch(&r);")
        body.append("    });")
    return "\n".join(body)

def conv_program(owner, meth, old, new, header=""):
    return RUST_HEAD.format(header=header) + "fn main() {\n" + conv_body(owner, meth, old, new) + "\n}\n"

def weakening(owner, meth, old, new):
    """does the conversion weaken a guarantee in the sense of the property text?"""
    (u0, m0, g0, c0), (u1, m1, g1, c1) = old, new
    if u0 != u1: return "flips the bump direction"
    if meth == "borrow_with_settings" and m1 < m0: return "lowers the minimum alignment on a shared borrow"
    if meth == "borrow_mut_with_settings" and m1 < m0: return "lowers the minimum alignment on an exclusive borrow"
    if meth != "with_settings" and g1 > g0: return "upgrades guaranteed-allocated on a borrow"
    if owner == "BumpScope" and meth == "with_settings" and m1 < m0: return "lowers the minimum alignment of a scope"
    return None

def gen_conversions(cases, thorough):
    base_list = [(1, 1, 1, 1), (1, 4, 1, 1), (0, 2, 0, 1), (1, 8, 0, 0), (0, 16, 1, 0)]
    if not thorough: base_list = base_list[:3]
    for owner in ("Bump", "BumpScope"):
        for meth in ("with_settings", "borrow_with_settings", "borrow_mut_with_settings"):
            seen = set()
            for old in base_list:
                news = [old]
                u, m, g, c = old
                news.append((1 - u, m, g, c))
                for m2 in (1, 2, 4, 8, 16):
                    if m2 != m and (thorough or m2 in (m // 2 or 1, m * 2 if m < 16 else 8)): news.append((u, m2, g, c))
                news.append((u, m, 1 - g, c)); news.append((u, m, g, 1 - c))
                if thorough:
                    news += [(u, max(1, m // 2), 1 - g, c), (u, min(16, m * 2), g, 1 - c), (1 - u, min(16, m * 2), g, c)]
                for new in news:
                    if (old, new) in seen: continue
                    seen.add((old, new))
                    w = weakening(owner, meth, old, new)
                    cid = f"conv/{owner}::{meth}/{'.'.join(map(str, old))}->{'.'.join(map(str, new))}"
                    c = Case(cid, "reject" if w else None, conv=(owner, meth, old, new), route=w or "conversion", producer=f"{owner}::{meth}",
                             context="settings", emit="obj")
                    cases.append(c)


# ------------------------------------------------------------------------------------------------
# the DERIVED corpus: canonical misuse programs for every method of the signature table that hands out something
# (a value, a guard, a scope, a reference, a claim / pool guard, a collection's `into_*`), in every setup that yields a
# receiver for it.  No expectation is attached by the generator: a program must not compile iff the calculus' DYNAMIC
# semantics faults on it (use after the epoch ended / dead arena / cross-thread) — that oracle does not depend on any
# signature — and the type checker's verdict is compared with rustc's as for the rest of the corpus.

def El(var, kind, acc): return dict(var=var, kind=kind, acc=acc)

def su_bump(P):
    b = P.new_bump(); return dict(chain=[El(b, "bump", "own")])
def su_bump_mutref(P):
    b = P.new_bump(); bm = P.call(b, "Bump", "borrow_mut_with_settings"); return dict(chain=[El(b, "bump", "own"), El(bm, "bump", "mut")])
def su_bump_ref(P):
    b = P.new_bump(); br = P.call(b, "Bump", "borrow_with_settings"); return dict(chain=[El(b, "bump", "own"), El(br, "bump", "shr")])
def su_scope(P):
    b = P.new_bump(); g = P.call(b, "Bump", "scope_guard"); s = P.call(g, "BumpScopeGuard", "scope")
    return dict(chain=[El(b, "bump", "own"), El(g, "guard", "own"), El(s, "scope", "mut")])
def su_scope_shared(P):
    b = P.new_bump(); s = P.call(b, "Bump", "as_scope"); return dict(chain=[El(b, "bump", "own"), El(s, "scope", "shr")])
def su_scope_asmut(P):
    b = P.new_bump(); s = P.call(b, "Bump", "as_mut_scope"); return dict(chain=[El(b, "bump", "own"), El(s, "scope", "mut")])
def su_scope_owned(P):
    c = su_scope(P); v = P.call(c["chain"][-1]["var"], "BumpScope", "by_value"); c["chain"].append(El(v, "scope", "own")); return c
def su_scope_closure(P, outer_slot=False):
    b = P.new_bump()
    o_ = P.slot() if outer_slot else None      # declared after the Bump: it is dropped before it
    s = P.enter(b, "Bump", "scoped"); return dict(chain=[El(b, "bump", "own"), El(s, "scope", "mut")], closure=True, slot=o_)
def su_guard(P):
    b = P.new_bump(); g = P.call(b, "Bump", "scope_guard"); return dict(chain=[El(b, "bump", "own"), El(g, "guard", "own")])
def su_claim(P):
    b = P.new_bump(); cg = P.call(b, "Bump", "claim"); return dict(chain=[El(b, "bump", "own"), El(cg, "claim", "own")])
def su_claim_scope(P):
    c = su_scope(P); cg = P.call(c["chain"][-1]["var"], "BumpScope", "claim"); c["chain"].append(El(cg, "claim", "own")); return c
def su_pool(P):
    p = P.new_pool(); return dict(chain=[El(p, "pool", "own")])
def su_poolguard(P):
    p = P.new_pool(); pg = P.call(p, "BumpPool", "get"); return dict(chain=[El(p, "pool", "own"), El(pg, "poolGuard", "own")])

SETUPS = [("bump", su_bump), ("&mut Bump", su_bump_mutref), ("&Bump", su_bump_ref), ("guard.scope()", su_scope), ("as_scope", su_scope_shared),
          ("as_mut_scope", su_scope_asmut), ("by_value", su_scope_owned), ("scoped-closure", su_scope_closure), ("guard", su_guard),
          ("claim", su_claim), ("scope.claim", su_claim_scope), ("pool", su_pool), ("pool.get", su_poolguard)]
# receivers that are wrappers (`WithoutShrink`, `WithoutDealloc`, nested) around a shared / exclusive reborrow of a handle
WRAPPERS = [("WithoutShrink",), ("WithoutDealloc",), ("WithoutDealloc", "WithoutShrink")]
def wrapped_setup(base, mode, wrappers):
    def su(P, **kw):
        st = base(P, **kw); h = st["chain"][-1]
        w = P.wrap(h["var"], mode, wrappers)
        e = El(w, h["kind"], mode); e["wrapper"] = tuple(wrappers)
        st["chain"].append(e); return st
    return su
for _ws in WRAPPERS:
    _n = "(".join(_ws) + "({})" + ")" * (len(_ws) - 1)
    SETUPS += [(_n.format("&bump"), wrapped_setup(su_bump, "shr", _ws)), (_n.format("&*scope"), wrapped_setup(su_scope, "shr", _ws)),
               (_n.format("&mut *scope"), wrapped_setup(su_scope, "mut", _ws)),
               ("scoped-closure/" + _n.format("&*s"), wrapped_setup(su_scope_closure, "shr", _ws)),
               ("scoped-closure/" + _n.format("s"), wrapped_setup(su_scope_closure, "mut", _ws))]
# setups in which the whole alloc family is instantiated (the other setups get the plain `alloc` / `alloc_str` only)
FULL_ALLOC_SETUPS = {"bump", "guard.scope()", "by_value", "scoped-closure"}

OWNER_KINDS = {"BumpAllocatorCore": ["bump", "scope"], "Bump": ["bump"], "BumpScope": ["scope", "claim", "poolGuard"], "BumpScopeGuard": ["guard"], "BumpClaimGuard": ["claim"],
               "BumpPool": ["pool"], "BumpPoolGuard": ["poolGuard"], "BumpAllocator": ["bump", "scope"], "BumpAllocatorScope": ["scope"],
               "BumpAllocatorTypedScope": ["scope", "bumpref"], "MutBumpAllocatorTypedScope": ["scope", "bumpref"]}
TRAITS = ("BumpAllocator", "BumpAllocatorCore", "BumpAllocatorScope", "BumpAllocatorTypedScope", "MutBumpAllocatorTypedScope")
DERIVING_OPS = ("alloc", "mkGuard", "guardScope", "viewScope", "viewSame", "claim", "poolGet")

def receives(sig, owner, o):
    if o.get("wrapper"):
        # only the scope traits reach through a wrapper
        return owner in ("BumpAllocatorTypedScope", "MutBumpAllocatorTypedScope") and sig.recv != "value" and not (sig.recv == "refMut" and o["acc"] == "shr")
    kinds = OWNER_KINDS.get(owner, [])
    k = o["kind"]
    if k == "bump" and "bumpref" in kinds and o["acc"] != "own": pass
    elif k not in kinds: return False
    if owner in TRAITS and k in ("claim", "poolGuard"): return False        # UFCS does not auto-deref
    if owner == "BumpAllocator" and k == "bump" and o["acc"] != "own": return False
    if sig.recv == "refMut" and o["acc"] == "shr": return False
    if sig.recv == "value": return False
    # the calculus types `claim(&self)` as an exclusive borrow (Life/Calculus.lean, header): not through a shared handle
    if sig.ret == "claimGuard" and o["acc"] == "shr": return False
    return True

def owner_of(a): return "Bump" if a["kind"] == "bump" else "BumpScope"

def alloc_via(P, r):
    """a value allocated through the handle `r` (None if `r` does not allocate)"""
    k = P.info[r]["kind"]
    if k in ("scope", "claim", "poolGuard"): return P.call(r, "BumpScope", "alloc_str")
    if k == "bump": return P.call(r, "Bump", "alloc_str")
    if k == "guard": return P.call(P.call(r, "BumpScopeGuard", "scope"), "BumpScope", "alloc_str")
    return None

def use_result(P, r):
    if P.info[r]["kind"] == "val": P.use(r)
    else: P.use(alloc_via(P, r))

def simple_events(a):
    v, k, acc = a["var"], a["kind"], a["acc"]
    if a.get("wrapper"): return []
    if k == "bump" and acc != "shr":
        ev_ = [("reset", lambda P: P.call(v, "Bump", "reset")), ("reset_to_start", lambda P: P.call(v, "Bump", "reset_to_start"))]
        if acc == "own": ev_.append(("drop", lambda P: P.drop(v)))
        return ev_
    if k == "guard":
        return [("drop", lambda P: P.drop(v)), ("reset", lambda P: P.call(v, "BumpScopeGuard", "reset")), ("scope()", lambda P: P.call(v, "BumpScopeGuard", "scope"))]
    if k == "pool":
        return [("reset", lambda P: P.call(v, "BumpPool", "reset")), ("reset_to_start", lambda P: P.call(v, "BumpPool", "reset_to_start")), ("drop", lambda P: P.drop(v))]
    if k in ("claim", "poolGuard") and acc == "own":
        return [("drop", lambda P: P.drop(v))]
    return []

def wrap_events(a):
    """events that open a scope on `a`, run `inner` inside it and close it; they return what `inner` carried out"""
    v, k, acc = a["var"], a["kind"], a["acc"]
    if a.get("wrapper"): return []
    if acc == "shr" or k not in ("bump", "scope", "claim", "poolGuard"): return []
    def guard_wrap(P, inner):
        g2 = P.call(v, owner_of(a), "scope_guard"); y = inner(P); P.drop(g2); return y
    def scoped_wrap(P, inner):
        P.enter(v, owner_of(a), "scoped"); y = inner(P); P.exit(y); return y
    return [("scope_guard..drop", guard_wrap), ("scoped(..)", scoped_wrap)]

def derivations(table):
    """(focus (owner, name), make(P, o) -> result var) for every table method that hands something out, plus the collections"""
    res = []
    for (owner, name), sig in sorted(table.items()):
        if sigs2lean.effect_class(owner, name) not in DERIVING_OPS: continue
        if sig.ret == "unit" or owner in sigs2lean.OWNER_CLASS and sigs2lean.OWNER_CLASS[owner] == "coll": continue
        base = name[4:] if name.startswith("try_") else name
        if sigs2lean.effect_class(owner, name) == "alloc" and base not in ARGS: continue
        res.append(((owner, name), sig, (lambda P, o, owner=owner, name=name: P.call(o["var"], owner, name))))
    for ty, mode in (("BumpVec", "shr"), ("BumpString", "shr"), ("MutBumpVec", "mut"), ("MutBumpVecRev", "mut"), ("MutBumpString", "mut"),
                     ("BumpVec", "mut"), ("BumpString", "mut")):
        for (o_, n), sig in sorted(table.items()):
            if o_ == ty:
                res.append(((ty, n), ("coll", mode), (lambda P, o, ty=ty, mode=mode, n=n: P.call(P.coll(o["var"], mode, ty), ty, n))))
    return res

def impl_classes(chain):
    """the BumpAllocatorCoreScope implementors (scopeImpls rows) the scope traits go through for this receiver"""
    o = chain[-1]
    res = set()
    if o.get("wrapper"):
        res |= {"wrapper:" + w for w in o["wrapper"]}
    k, acc = o["kind"], o["acc"]
    if k == "bump": res.add({"shr": "refBump", "mut": "refMutBump"}.get(acc, "-"))
    if k in ("scope", "claim", "poolGuard"):
        res.add("scope")
        if k == "scope" and acc == "shr": res.add("refB")
        if k == "scope" and acc == "mut": res.add("refMutB")
    res.discard("-")
    return res

class HelperD:
    """`alloc_through(wrapper)`: the wrapper goes by value into a generic function over `impl BumpAllocatorTypedScope<'a>`"""
    ret = "box"

class ConvD:
    """a derivation that continues a table method's result (a Stats / AnyStats / BumpBox<[T]> value) through a chain of value
    conversions; the focus is the LAST row of the chain"""
    def __init__(self, base_focus, base_sig, chain, parts=None):
        self.base_focus, self.base_sig, self.chain, self.parts = base_focus, base_sig, chain, parts
        self.ret = "stats"
    def make(self, P, o):
        r = P.call(o["var"], *self.base_focus)
        for row in self.chain: r = P.vconv(r, row)
        if self.parts:
            ty, into, row = self.parts
            long_bump = P.new_bump()
            r = P.from_parts(r, long_bump, ty, into, row)
        return r

CONV_FULL_SETUPS = {"bump", "guard.scope()"}

def conv_derivations(table, full):
    """for every conversion row reachable from a `stats()` / `any_stats()` / `alloc_slice_copy()` result: the shortest chain
    that ends with it (`full`), or only the `From` impls"""
    convs = getattr(table, "convs", [])
    res = []
    bases = [((o, n), s) for (o, n), s in sorted(table.items())
             if n in ("stats", "any_stats", "alloc_slice_copy") and sigs2lean.OWNER_CLASS.get(o) != "coll"]
    def head(out):
        h = out[7:-1] if out.startswith("Option<") else out
        return h
    for bf, bs in bases:
        start = "AnyStats" if bf[1] == "any_stats" else "Stats" if bf[1] == "stats" else "BumpBox"
        # breadth first over types
        paths = {start: []}
        todo = [start]
        while todo:
            ty = todo.pop(0)
            for row in convs:
                if row[1] != ty or row[0] in ("refView", "ctor"): continue
                if row[1] in ("BumpBox", "FixedBumpVec", "FixedBumpString") and row[2] != "FixedBumpVec::from_init": continue
                chain = paths[ty] + [row]
                if len(chain) <= 3 and (full or row[0] == "from_" or len(chain) == 1):
                    res.append(((row[1], row[2]), ConvD(bf, bs, chain)))
                h = head(row[3])
                if h not in paths and len(chain) < 3 and not h.startswith("&"):
                    paths[h] = chain; todo.append(h)
        if start == "BumpBox":
            for row in convs:
                if row[0] == "ctor" and row[1] == "FixedBumpVec":
                    ty = row[2].split("::")[0]
                    for (o_, n), sg in sorted(table.items()):
                        if o_ == ty and n.startswith("into_"):
                            res.append(((row[1], row[2]), ConvD(bf, bs, paths.get("FixedBumpVec", []), parts=(ty, n, row))))
    return res

def gen_derived(table, cases):
    for setup_name, su in SETUPS:
        probe = su(Prog(table)); o0 = probe["chain"][-1]; closure = probe.get("closure", False)
        convd = [(f_, d_, d_.make) for f_, d_ in conv_derivations(table, setup_name in CONV_FULL_SETUPS)]
        wrapped = bool(o0.get("wrapper"))
        helperd = [(("BumpAllocatorTypedScope", "alloc_str"), HelperD(), lambda P, o: P.helper_alloc(o["var"]))] if wrapped else []
        for focus, sig, make in derivations(table) + convd + helperd:
            owner, name = focus
            if isinstance(sig, HelperD):
                is_alloc = True; name = name + "(generic-helper)"
            elif isinstance(sig, ConvD):
                if wrapped: continue
                if not receives(sig.base_sig, sig.base_focus[0], o0): continue
                if sig.parts and setup_name not in CONV_FULL_SETUPS | {"scoped-closure", "by_value", "pool.get"}: continue
                is_alloc = True
                name = name + ("." + sig.parts[1] if sig.parts else "") + "<-" + "::".join(sig.base_focus) + ("" if len(sig.chain) < 2 else "~" + "~".join(r[2] for r in sig.chain[:-1]))
            elif isinstance(sig, tuple):      # a collection over the handle
                if wrapped or o0["kind"] not in ("bump", "scope") or (sig[1] == "mut" and o0["acc"] == "shr"): continue
                is_alloc = True
            else:
                if not receives(sig, owner, o0): continue
                is_alloc = sigs2lean.effect_class(owner, name) == "alloc"
            base = name[4:] if name.startswith("try_") else name
            if is_alloc and not isinstance(sig, (tuple, ConvD, HelperD)) and setup_name not in FULL_ALLOC_SETUPS and name not in ("alloc", "alloc_str", "alloc_iter_mut", "stats", "any_stats", "allocator"):
                continue
            tagged = setup_name == "&mut Bump" and (sig.base_focus[0] if isinstance(sig, ConvD) else owner) in ("BumpAllocatorTypedScope", "MutBumpAllocatorTypedScope")
            def add(form, build, through_o=False):
                P = Prog(table)
                try:
                    build(P)
                except KeyError:
                    return
                lab = "(&mut)" if (isinstance(sig, tuple) and sig[1] == "mut" and not owner.startswith("Mut")) else ""
                c = Case(f"derived/{setup_name}/{owner}{lab}::{name}/{form}", None, P, route=form.split("@")[0], producer=f"{owner}::{name}",
                         context="derived:" + setup_name)
                c.focus = focus
                c.impls = impl_classes(probe["chain"]) if (focus[0] in ("BumpAllocatorTypedScope", "MutBumpAllocatorTypedScope") or isinstance(sig, tuple) or (isinstance(sig, ConvD) and sig.parts)) else set()
                if tagged and through_o: c.tag = REFMUT_TAG
                cases.append(c)
            def prefix(P):
                st = su(P); r = make(P, st["chain"][-1]); return st, r
            if closure:
                # the value (or a value allocated through the handle) leaves the closure: returned / stored outside
                def ret(P):
                    st, r = prefix(P); y = r if P.info[r]["kind"] == "val" else alloc_via(P, r)
                    P.exit(y); P.use(y)
                def sto(P):
                    st = su(P, outer_slot=True); r = make(P, st["chain"][-1]); y = r if P.info[r]["kind"] == "val" else alloc_via(P, r)
                    P.store(st["slot"], y); P.exit(None); P.use(st["slot"])
                def inside(P):
                    st, r = prefix(P); use_result(P, r); P.exit(None)
                add("return-from-closure", ret); add("store-outside-closure", sto); add("used-inside-closure", inside)
                continue
            n_chain = len(probe["chain"])
            for ai in range(n_chain):
                a0 = probe["chain"][ai]
                for en, _ in simple_events(a0):
                    idx = [n for n, _ in simple_events(a0)].index(en)
                    tag_here = ai == n_chain - 1
                    # hold the result across the event
                    def f1(P, ai=ai, idx=idx):
                        st, r = prefix(P); simple_events(st["chain"][ai])[idx][1](P); use_result(P, r)
                    # last use before the event
                    def f1c(P, ai=ai, idx=idx):
                        st, r = prefix(P); use_result(P, r); simple_events(st["chain"][ai])[idx][1](P)
                    add(f"hold-across@{ai}.{a0['kind']}.{en}", f1, tag_here); add(f"use-before@{ai}.{a0['kind']}.{en}", f1c, tag_here)
                    if is_alloc:
                        def f7(P, ai=ai, idx=idx):
                            st, r = prefix(P); o_ = P.slot(); P.store(o_, r); simple_events(st["chain"][ai])[idx][1](P); P.use(o_)
                        def f6(P, ai=ai, idx=idx):
                            st, r = prefix(P); simple_events(st["chain"][ai])[idx][1](P); P.send(r)
                        if P_is_box(table, focus, sig):
                            add(f"store-outer@{ai}.{a0['kind']}.{en}", f7, tag_here); add(f"send-after@{ai}.{a0['kind']}.{en}", f6, tag_here)
                    else:
                        # a value allocated through the derived handle BEFORE the event is read after it
                        def f2(P, ai=ai, idx=idx):
                            st, r = prefix(P); y = alloc_via(P, r); simple_events(st["chain"][ai])[idx][1](P); P.use(y)
                        add(f"alloc-through,then@{ai}.{a0['kind']}.{en}", f2, tag_here)
                for wn, _ in wrap_events(a0):
                    widx = [n for n, _ in wrap_events(a0)].index(wn)
                    tag_here = ai == n_chain - 1
                    if is_alloc:
                        def f4(P, ai=ai, widx=widx):
                            st, r = prefix(P); wrap_events(st["chain"][ai])[widx][1](P, lambda P: None); P.use(r)
                        add(f"hold-across@{ai}.{a0['kind']}.{wn}", f4, tag_here)
                    else:
                        # the ORIGINAL opens a scope while the derived handle is alive; what is allocated through the derived
                        # handle inside is read after the scope is closed
                        def f3(P, ai=ai, widx=widx):
                            st, r = prefix(P); y = wrap_events(st["chain"][ai])[widx][1](P, lambda P: alloc_via(P, r)); P.use(y)
                        def f3b(P, ai=ai, widx=widx):
                            st, r = prefix(P); wrap_events(st["chain"][ai])[widx][1](P, lambda P: None); use_result(P, r)
                        add(f"alloc-through-inside@{ai}.{a0['kind']}.{wn}", f3, tag_here); add(f"hold-across@{ai}.{a0['kind']}.{wn}", f3b, tag_here)
            # the result itself goes to another thread
            def sendr(P):
                st, r = prefix(P); P.send(r)
            def sharer(P):
                st, r = prefix(P); P.share(r)
            movable = (is_alloc and P_is_box(table, focus, sig)) or (not is_alloc and sig.ret in ("guard", "claimGuard", "poolGuard", "scopeVal"))
            if movable: add("send", sendr)
            if not is_alloc or P_is_box(table, focus, sig): add("share", sharer)

def P_is_box(table, focus, sig):
    if isinstance(sig, ConvD): return False
    if isinstance(sig, HelperD): return True
    if isinstance(sig, tuple): return table[focus].ret == "box"
    return sig.ret == "box"

def build_corpus(table, thorough):
    cases = []
    gen_linear(table, cases); gen_closures(table, cases); gen_collections(table, cases); gen_handles(table, cases)
    gen_threads(table, cases); gen_known(table, cases); gen_conversions(cases, thorough); gen_derived(table, cases)
    ids = set()
    for c in cases:
        if c.id in ids: raise RuntimeError("duplicate case id " + c.id)
        ids.add(c.id)
    return cases

def select(cases, quick, seed, budget=700):
    """quick tier: all handle / known-finding cases, a capped sample of thread and settings cases, and a stratified
    sample (round robin over (context, route) strata, escape + control kept together) of the producer x route product"""
    if not quick: return cases
    rng = random.Random(seed)
    fixed = [c for c in cases if c.context == "handles"]
    def capped(ctx_name, cap, key):
        cs = [c for c in cases if c.context == ctx_name]
        groups = collections.defaultdict(list)
        for c in cs: groups[key(c)].append(c)
        for g in groups.values(): rng.shuffle(g)
        out, ks, i = [], sorted(groups), 0
        while len(out) < cap and any(groups.values()):
            k = ks[i % len(ks)]; i += 1
            if groups[k]: out.append(groups[k].pop())
        return out
    fixed += capped("threads", 40, lambda c: c.route)
    fixed += capped("settings", 44, lambda c: (c.producer, c.route))
    # the `&mut Bump` family: every route, escape and control together, a few producers each
    fam = collections.defaultdict(list)
    for c in cases:
        if c.context == "&mut Bump(trait)": fam[(c.route, c.id.rsplit("/", 1)[0])].append(c)
    by_route = collections.defaultdict(list)
    for (route, _), g in sorted(fam.items()): by_route[route].append(g)
    for route in sorted(by_route):
        for g in rng.sample(by_route[route], min(4, len(by_route[route]))): fixed += g
    # the derived corpus: every handle-producing method in every setup and form once (they are few), a sample of the alloc family
    derived = [c for c in cases if c.context.startswith("derived:")]
    def is_conv(c): return c.focus is not None and c.focus in getattr(select, "conv_keys", set())
    conv_cs = [c for c in derived if is_conv(c)]
    derived = [c for c in derived if not is_conv(c)]
    # conversions between lifetime-carrying values: every row once as the thing held across an event, once as a control
    cv = collections.defaultdict(list)
    for c in conv_cs: cv[(c.focus, c.route.startswith("hold-across"), c.route == "return-from-closure")].append(c)
    for k in sorted(cv, key=str):
        if k[1] or k[2] or rng.random() < 0.5: fixed.append(rng.choice(cv[k]))
    handle_foc = [c for c in derived if c.focus and sigs2lean.effect_class(*c.focus) != "alloc" and c.focus[0] not in ("BumpVec", "BumpString", "MutBumpVec", "MutBumpVecRev", "MutBumpString")]
    hs = collections.defaultdict(list)
    for c in handle_foc: hs[(c.focus, c.route)].append(c)
    for k in sorted(hs): fixed.append(rng.choice(hs[k]))
    others = [c for c in derived if c not in set(handle_foc)]
    os_ = collections.defaultdict(list)
    for c in others: os_[(c.context, c.route)].append(c)
    for k in sorted(os_): fixed += rng.sample(os_[k], min(2, len(os_[k])))
    rest = [c for c in cases if c.context not in ("handles", "&mut Bump(trait)", "threads", "settings") and not c.context.startswith("derived:")]
    groups = collections.defaultdict(list)
    for c in rest: groups[c.id.rsplit("/", 1)[0]].append(c)
    by_stratum = collections.defaultdict(list)
    for k, g in groups.items(): by_stratum[(g[0].context, g[0].route)].append(g)
    strata = sorted(by_stratum)
    rng.shuffle(strata)
    room = max(0, budget - len(fixed))
    picked = []
    i = 0
    order = {s: rng.sample(by_stratum[s], len(by_stratum[s])) for s in strata}
    while room > 0 and any(order.values()):
        s = strata[i % len(strata)]; i += 1
        if order[s]:
            g = order[s].pop(); picked += g; room -= len(g)
    return fixed + picked

# ------------------------------------------------------------------------------------------------
# rustc

def skeleton_dir():
    """the crate skeleton, copied to work/ when the crate under verification is not /repo"""
    if os.path.abspath(REPO) == "/repo":
        return CASES
    d = os.path.join(WORK, "lifecases-" + hashlib.sha1(REPO.encode()).hexdigest()[:10])
    os.makedirs(os.path.join(d, "src"), exist_ok=True)
    toml = open(os.path.join(CASES, "Cargo.toml")).read().replace('path = "/repo"', f'path = "{os.path.abspath(REPO)}"')
    open(os.path.join(d, "Cargo.toml"), "w").write(toml)
    shutil.copy(os.path.join(CASES, "src", "lib.rs"), os.path.join(d, "src", "lib.rs"))
    return d

def build_skeleton(ctx):
    d = skeleton_dir()
    lock = os.path.join(d, "Cargo.lock")
    if not os.path.exists(lock):
        shutil.copy(os.path.join(REPO, "Cargo.lock"), lock)
    rc, out, err, dt = run(["cargo", "build", "--offline", "--lib", "--message-format=json"], cwd=d, timeout=3600)
    ctx.extra.setdefault("cargo", []).append({"crate": "lifecases (bump-scope rlib + prelude)", "rc": rc, "wall_s": round(dt, 1)})
    libs = {}
    for l in out.splitlines():
        try: m = json.loads(l)
        except ValueError: continue
        if m.get("reason") == "compiler-artifact":
            for f in m.get("filenames", []):
                if f.endswith(".rlib"): libs[m["target"]["name"]] = f
    ok = rc == 0 and "bump_scope" in libs and "life_cases" in libs
    msgs = []
    if not ok:
        for l in out.splitlines():
            try: m = json.loads(l)
            except ValueError: continue
            if m.get("reason") == "compiler-message": msgs.append(m["message"].get("rendered", "")[:600])
    ctx.add_ob("build:lifecases (bump-scope rlib)", "build", ok, "" if ok else ("\n".join(msgs) + err)[-3000:])
    return (d, libs) if ok else (None, None)

def rustc_one(args):
    path, out, emit, libs, deps = args
    cmd = ["rustc", "--edition", "2024", "--crate-type", "bin", f"--emit={emit}", "-C", "debuginfo=0", "--error-format=json",
           "--extern", f"bump_scope={libs['bump_scope']}", "--extern", f"life_cases={libs['life_cases']}",
           "-L", f"dependency={deps}", "-o", out, path]
    p = subprocess.run(cmd, capture_output=True, text=True, timeout=900)
    errs = []       # (code, primary line in `path` or None, rendered)
    for l in p.stderr.splitlines():
        try: d = json.loads(l)
        except ValueError: continue
        if d.get("level") != "error": continue
        code = (d.get("code") or {}).get("code")
        msg = d.get("message", "")
        if msg.startswith("aborting due to"): continue
        if code is None and "lifetime may not live long enough" in msg: code = "lifetime"
        line = None
        for sp in d.get("spans", []):
            if sp.get("is_primary") and os.path.basename(sp.get("file_name", "")) == os.path.basename(path):
                line = sp.get("line_start"); break
        errs.append((code or "no-code:" + msg[:60], line, (d.get("rendered") or msg)[:900]))
    return p.returncode, errs

BATCH = 24

def compile_all(ctx, cases, d, libs):
    """rustc verdict for every case.  Cases the checker accepts, and cases it rejects for a borrow/lifetime reason, are compiled
    in batches (one function per case in one file; every borrow-check error is attributed to its function by line); whatever
    cannot be attributed that way, and everything else, is compiled on its own."""
    gen = os.path.join(d, "gen"); outd = os.path.join(d, "target", "cases")
    shutil.rmtree(gen, ignore_errors=True); os.makedirs(gen); os.makedirs(outd, exist_ok=True)
    deps = os.path.dirname(libs["bump_scope"])
    for i, c in enumerate(cases):
        exp = c.expected or ("as the const assertions decide" if c.conv else "must not compile iff the calculus' dynamic semantics faults on it")
        header = f"// {c.id}   expected: {exp}\n"
        c.text = c.prog.text(header) if c.prog else conv_program(*c.conv, header=header)
        c.rustc, c.codes, c.first_error, c.idx = None, [], "", i
    groups = collections.defaultdict(list)
    single = []
    for c in cases:
        cls = c.model_detail.split()[0] if (c.model == "reject" and c.model_detail) else ""
        if c.prog and c.model == "accept": groups["acc"].append(c)
        elif c.prog and cls in ("dead", "escape", "access"): groups["bck"].append(c)
        elif c.prog and cls == "notSend": groups["snd"].append(c)
        elif c.conv and c.model == "accept": groups["convacc"].append(c)
        else: single.append(c)
    batches = []
    for key, cs in groups.items():
        for k in range(0, len(cs), BATCH):
            batches.append((key, cs[k:k + BATCH]))
    def job_single(c):
        path = os.path.join(gen, f"c{c.idx:05d}.rs"); open(path, "w").write(c.text); c.file = path
        return (path, os.path.join(outd, f"c{c.idx:05d}" + (".o" if c.emit == "obj" else ".rmeta")), c.emit, libs, deps)
    def job_batch(n, key, cs):
        path = os.path.join(gen, f"batch{n:04d}_{key}.rs")
        text = RUST_HEAD.format(header=f"// batch of {len(cs)} cases ({key})\n"); ranges = []
        line = text.count("\n") + 1
        for c in cs:
            f = (c.prog.function(f"case_{c.idx}") if c.prog else f"fn case_{c.idx}() {{\n" + conv_body(*c.conv) + "\n}\n")
            f = f"// {c.id}\n" + f
            n_lines = f.count("\n")
            ranges.append((line, line + n_lines - 1, c)); line += n_lines
            text += f
        text += "fn main() {\n" + "".join(f"    case_{c.idx}();\n" for c in cs) + "}\n"
        open(path, "w").write(text)
        emit = "obj" if key == "convacc" else "metadata"
        return (path, os.path.join(outd, f"batch{n:04d}" + (".o" if emit == "obj" else ".rmeta")), emit, libs, deps), ranges
    t0 = time.time()
    n_invocations = 0
    with concurrent.futures.ThreadPoolExecutor(max_workers=min(16, os.cpu_count() or 4)) as ex:
        bjobs = [job_batch(n, key, cs) for n, (key, cs) in enumerate(batches)]
        futs_b = [ex.submit(rustc_one, j) for j, _ in bjobs]
        futs_s = [(c, ex.submit(rustc_one, job_single(c))) for c in single]
        n_invocations += len(bjobs) + len(single)
        redo = []
        for (key, cs), (j, ranges), fu in zip(batches, bjobs, futs_b):
            rc, errs = fu.result()
            if rc == 0:
                for c in cs: c.rustc = "accept"
                continue
            family = BORROWCK if key == "bck" else {"E0277"}
            attributable = all(line is not None for _, line, _ in errs) and all(code in family for code, _, _ in errs)
            if key not in ("bck", "snd") or not attributable:
                redo += cs; continue
            for c in cs: c.codes = []
            for code, line, rendered in errs:
                for lo, hi, c in ranges:
                    if lo <= line <= hi:
                        c.codes.append(code)
                        if not c.first_error: c.first_error = rendered
            for c in cs:
                if c.codes: c.rustc = "reject"
                else: redo.append(c)        # no error in this function: confirm on its own that it compiles
        futs_s += [(c, ex.submit(rustc_one, job_single(c))) for c in redo]
        n_invocations += len(redo)
        for c, fu in futs_s:
            rc, errs = fu.result()
            c.rustc = "accept" if rc == 0 else "reject"
            c.codes = [e[0] for e in errs]; c.first_error = errs[0][2] if errs else ""
    ctx.extra["rustc_invocations"] = {"batches": len(batches), "single": len(single), "recompiled_individually": len(redo), "total": n_invocations}
    return time.time() - t0

def compile_findings(ctx, d, libs, known):
    """the standalone programs in lifecases/findings/ that say `MUST NOT compile` (repaired findings kept as regression
    programs): one that compiles is an escape"""
    fdir = os.path.join(CASES, "findings")
    outd = os.path.join(d, "target", "cases"); os.makedirs(outd, exist_ok=True)
    deps = os.path.dirname(libs["bump_scope"])
    n = 0
    for f in sorted(os.listdir(fdir)) if os.path.isdir(fdir) else []:
        path = os.path.join(fdir, f)
        text = open(path).read()
        if not f.endswith(".rs") or "MUST NOT compile" not in text: continue
        rc, errs = rustc_one((path, os.path.join(outd, "finding_" + f[:-3] + ".rmeta"), "metadata", libs, deps))
        n += 1; ctx.evaluations += 1
        if rc != 0:
            ctx.distinct.add("findings/" + f); continue
        msg = f"ESCAPE-COMPILES findings/{f}: a program that must not compile is accepted by rustc (route: regression program of a repaired finding)"
        rec = {"engine": "life", "case": "findings/" + f, "expected": "reject", "rustc": "accept", "message": msg, "replay": text, "program": text}
        if not known_finding(known, ctx.prop, msg): ctx.oracle_failures.append(rec)
    return n

# "move X to another thread" for the types that own or borrow an arena but are no objects of the calculus (collections over an
# owned `Bump` / a `&mut Bump`, their by-value iterators, guards): with a base allocator that is not `Send` the move must not
# compile; with `Global` it must, where the type is `Send` at all (control).  (name, setup lines, expression, Send with Global?)
THREAD_MOVES = [
    ("Bump", [], "bump", True),
    ("&mut Bump", [], "&mut bump", True),
    ("&Bump", [], "&bump", False),
    ("BumpScopeGuard", [], "bump.scope_guard()", False),
    ("BumpScope(by_value)", ["let mut g = bump.scope_guard();", "let mut s = g.scope();"], "s.by_value()", False),
    ("&mut BumpScope", ["let mut g = bump.scope_guard();", "let mut s = g.scope();"], "&mut s", False),
    ("BumpClaimGuard", [], "bump.claim()", False),
    ("BumpPool", ["let mut pool: BumpPool<A> = BumpPool::new();"], "pool", True),
    ("BumpPoolGuard", ["let mut pool: BumpPool<A> = BumpPool::new();"], "pool.get()", True),
    ("MutBumpVec<u32, Bump>", [], "{ let mut v = MutBumpVec::<u32, _>::new_in(bump); v.push(1); v }", True),
    ("MutBumpVec<u32, &mut Bump>", [], "{ let mut v = MutBumpVec::<u32, _>::new_in(&mut bump); v.push(1); v }", True),
    ("mut_bump_vec::IntoIter<u32, Bump>", [], "{ let mut v = MutBumpVec::<u32, _>::new_in(bump); v.push(1); v.into_iter() }", True),
    ("mut_bump_vec::IntoIter<u32, &mut Bump>", [], "{ let mut v = MutBumpVec::<u32, _>::new_in(&mut bump); v.push(1); v.into_iter() }", True),
    ("MutBumpVecRev<u32, &mut Bump>", [], "{ let mut v = MutBumpVecRev::<u32, _>::new_in(&mut bump); v.push(1); v }", False),     # holds a NonNull<T>, no Send impl
    ("MutBumpString<&mut Bump>", [], "{ let mut v = MutBumpString::new_in(&mut bump); v.push('x'); v }", True),
    ("MutBumpString<Bump>", [], "{ let mut v = MutBumpString::new_in(bump); v.push('x'); v }", True),
    ("BumpVec<u32, &Bump>", [], "{ let mut v = BumpVec::<u32, _>::new_in(&bump); v.push(1); v }", False),
    ("BumpVec<u32, &mut Bump>", [], "{ let mut v = BumpVec::<u32, _>::new_in(&mut bump); v.push(1); v }", True),
    ("BumpString<&Bump>", [], "{ let mut v = BumpString::new_in(&bump); v.push('x'); v }", False),
    ("WithoutShrink<&mut Bump>", [], "WithoutShrink(&mut bump)", True),
]

def thread_move_program(name, setup, expr, alloc):
    body = "\n".join("    " + l for l in ["type A = %s;" % alloc, "let mut bump: Bump<A> = Bump::new();"] + list(setup) + [
        f"let x = {expr};", "std::thread::scope(|sc| { sc.spawn(move || { let y = x; touch(&y); drop(y); }); });"])
    return RUST_HEAD.format(header=f"// thread-move/{name}/{alloc}\n") + "fn main() {\n" + body + "\n}\n"

def compile_thread_moves(ctx, d, libs, known):
    gen = os.path.join(d, "gen"); outd = os.path.join(d, "target", "cases"); os.makedirs(gen, exist_ok=True); os.makedirs(outd, exist_ok=True)
    deps = os.path.dirname(libs["bump_scope"])
    jobs = []
    for i, (name, setup, expr, sendable) in enumerate(THREAD_MOVES):
        for alloc in ("NoSend", "Global"):
            text = thread_move_program(name, setup, expr, alloc)
            path = os.path.join(gen, f"tm{i:02d}_{alloc}.rs"); open(path, "w").write(text)
            jobs.append((name, alloc, sendable, text, (path, os.path.join(outd, f"tm{i:02d}_{alloc}.rmeta"), "metadata", libs, deps)))
    with concurrent.futures.ThreadPoolExecutor(max_workers=min(16, os.cpu_count() or 4)) as ex:
        results = list(ex.map(lambda j: rustc_one(j[4]), jobs))
    for (name, alloc, sendable, text, _), (rc, errs) in zip(jobs, results):
        ctx.evaluations += 1
        cid = f"thread-move/{name}/{alloc}"
        codes = [e[0] for e in errs]
        rec = {"engine": "life", "case": cid, "rustc": "accept" if rc == 0 else "reject", "rustc_codes": codes, "program": text,
               "first_rustc_error": errs[0][2] if errs else "", "model": "(by construction)", "calculus_program": None}
        must_reject = alloc == "NoSend" or not sendable
        if must_reject and rc == 0:
            msg = (f"ESCAPE-COMPILES {cid}: a program that must not compile is accepted by rustc (route: cross-thread; a value that owns or borrows "
                   f"an arena over a base allocator that is not Send" + ("" if alloc == "NoSend" else " — or is never thread-safe —") + " is moved to another thread)")
            rec.update({"expected": "reject", "message": msg, "replay": text})
            if not known_finding(known, ctx.prop, msg): ctx.oracle_failures.append(rec)
        elif must_reject and set(codes) != {"E0277"}:
            rec["what"] = f"generator: the thread move is rejected, but not (only) with E0277: {codes}"; ctx.disagreements.append(rec)
        elif not must_reject and rc != 0:
            rec["what"] = "generator: a control program (Send base allocator) does not compile"; ctx.disagreements.append(rec)
        elif rc != 0: ctx.distinct.add(cid)
    return len(jobs)

def run_checker(ctx, cases):
    lines = []
    for i, c in enumerate(cases):
        if c.prog: lines.append(c.prog.line(f"c{i}"))
        else:
            owner, meth, old, new = c.conv
            lines.append(f"conv c{i} {owner} {meth} " + " ".join(map(str, old)) + " " + " ".join(map(str, new)))
    ok, log = lake_build(ctx, ["BumpProof.Life.Calculus", "BumpProof.Life.Settings", "BumpProof.Gen.Sigs"])
    if not ok:
        ctx.add_ob("build:life-checker", "build", False, log[-3000:]); return False
    p = subprocess.run(["lake", "env", "lean", "--run", "BumpProof/Life/Main.lean"], cwd=LEAN, input="\n".join(lines) + "\n",
                       capture_output=True, text=True, timeout=3600)
    ans = {}
    for l in p.stdout.splitlines():
        w = l.split()
        if len(w) >= 2 and w[0].startswith("c"): ans[w[0]] = w[1:]
    good = p.returncode == 0 and len(ans) == len(cases) and not any(a[0] == "parse-error" for a in ans.values())
    ctx.add_ob("run:life-checker", "build", good, "" if good else f"rc={p.returncode}, {len(ans)} answers for {len(cases)} programs\n{p.stderr[-1500:]}\n{p.stdout[-500:]}")
    if not good: return False
    for i, c in enumerate(cases):
        a = ans[f"c{i}"]
        c.model, c.run, c.implicit = a[0], "", []
        if not c.prog:
            c.model_detail = " ".join(a[1:]); continue
        kv = dict(w.split("=", 1) for w in a[1:] if "=" in w)
        c.run = kv.get("run", "")
        if c.model == "accept":
            inv = [int(v) for v in kv.get("inv", "").split(",") if v]
            # Rust drops what the program does not drop: an invalidated variable whose type has drop glue is a use
            c.implicit = [v for v in inv if c.prog.glue(v)]
            if c.implicit:
                c.model, c.model_detail = "reject", f"dead implicit-drop-of-v{c.implicit[0]}"
            else:
                c.model_detail = c.run
        else:
            c.model_detail = " ".join(w for w in a[1:] if "=" not in w)
    return True

MEMORY_FAULTS = ("fault:uaf", "fault:deadArena", "fault:crossThread")

def fault_trace(c):
    """the calculus statements of the program with the faulting one marked"""
    m = re.match(r"fault:(\w+)@(\d+)", c.run or "")
    if not m: return []
    k = int(m.group(2))
    out = []
    for i, st in enumerate(c.prog.stmts):
        txt = " ".join("-" if a is None else str(a) for a in st)
        out.append(f"{i:2d}  {txt}" + (f"      <== {m.group(1)}: " + {"uaf": "the value is used after its memory epoch ended",
                   "deadArena": "the handle is used after its arena was dropped",
                   "crossThread": "crosses a thread boundary although its type / base allocator is not thread-safe"}.get(m.group(1), "") if i == k else ""))
    return out

# ------------------------------------------------------------------------------------------------

SIG_LINE = re.compile(r'^\s*⟨"([^"]+)", "([^"]+)", \.(\w+), \.(\w+), \.(\w+), \.(\w+), \[([^\]]*)\], \[([^\]]*)\], "([^"]*)"⟩,?\s*$')

class TableDict(dict):
    """(owner, method) -> signature; `.convs`: the rows of the table's valueConvs"""
    convs = ()

CONV_LINE = re.compile(r'^\s*⟨\.(\w+), "([^"]+)", "([^"]+)", "([^"]+)", \[([^\]]*)\], "([^"]*)"⟩,?\s*$')

def conv_rows(text):
    res = []
    for l in text.splitlines():
        m = CONV_LINE.match(l)
        if m:
            rels = [w.strip().lstrip("(.").split()[0].rstrip(")") for w in m.group(5).split(",") if w.strip()]
            res.append((m.group(1), m.group(2), m.group(3), m.group(4), rels, m.group(6)))
    return res

def table_from_generated():
    """the signature table of the LAST GOOD extraction, read back from lean/BumpProof/Gen/Sigs.lean"""
    path = os.path.join(LEAN, "BumpProof", "Gen", "Sigs.lean")
    table = TableDict()
    table.convs = conv_rows(open(path).read())
    def lts(txt):
        return [w.strip().lstrip("(.").split()[0].rstrip(")").replace("static_", "static") for w in txt.split(",") if w.strip()]
    for l in open(path):
        m = SIG_LINE.match(l)
        if m:
            owner, name, _ok, _op, recv, ret, a, b, src = m.groups()
            table[(owner, name)] = sigs2lean.Sig(owner, name, recv, ret, lts(a), lts(b), src, 0)
    if len(table) < 100: raise RuntimeError(f"{path}: only {len(table)} signatures could be read back")
    return table

def load_table(ctx=None):
    try:
        sigs, impls, asserts, convs, structs, autos, drops, vconvs, hands = sigs2lean.extract(REPO)
        t = TableDict({(s.owner, s.name): s for s in sigs})
        t.convs = [tuple(r) for r in vconvs]
        return t
    except sigs2lean.TErr as e:
        # the sources left the shapes the extractor knows: keep deciding programs with the last good table
        if ctx is not None:
            ctx.notes.append(f"signature extraction failed (TRANSLATE-ERROR {e}); the corpus is generated from the last good Gen/Sigs.lean "
                             "and the calculus' checker uses that table")
        return table_from_generated()

IMPL_LINE = re.compile(r'^\s*⟨\.(\w+), \.(\w+), "([^"]+)", \d+⟩,?\s*$')

def sig_entries(text):
    """(owner, method) -> the table row, from the text of a Gen/Sigs.lean"""
    res = {}
    for l in text.splitlines():
        m = SIG_LINE.match(l)
        if m: res[(m.group(1), m.group(2))] = m.groups()[2:8]
    for r in conv_rows(text): res[(r[1], r[2])] = (r[0], r[3], tuple(r[4]))
    # BumpAllocatorCoreScope implementors: keyed by implementor class (the wrappers by name), see `impl_classes`
    for l in text.splitlines():
        m = IMPL_LINE.match(l)
        if m:
            ty, lt, target = m.groups()
            key = "wrapper:" + target.split("<")[0].strip() if ty == "wrapper" else ty
            res[("impl", key)] = (ty, lt, target)
    return res

def changed_methods(old_text, new_text):
    """methods whose table row differs between two generated tables (added / removed / changed), and whether anything else differs"""
    a, b = sig_entries(old_text or ""), sig_entries(new_text or "")
    changed = {k for k in set(a) | set(b) if a.get(k) != b.get(k)}
    strip = lambda t: "\n".join(l for l in (t or "").splitlines() if not SIG_LINE.match(l) and not CONV_LINE.match(l) and not IMPL_LINE.match(l))
    return changed, strip(old_text) != strip(new_text)

def run_life(ctx, budget=None, focus=None, label="life", classic_full=False):
    """generate, compile, check, compare.  Returns True if the engine ran.
    `focus`: a set of (owner, method) — run the FULL derived corpus restricted to programs about these methods (the search after
    a table entry changed) instead of the tier's selection"""
    try:
        table = load_table(ctx)
    except Exception as e:
        ctx.add_ob("run:life-corpus", "build", False, f"no signature table: {e}"); return False
    thorough = not ctx.quick()
    corpus = build_corpus(table, thorough or classic_full)
    select.conv_keys = {(r[1], r[2]) for r in getattr(table, "convs", []) if (r[1], r[2]) not in table}
    if classic_full:
        cases = [c for c in corpus if not c.context.startswith("derived:")]
    elif focus is not None:
        impl_focus = {k for (a, k) in focus if a == "impl"}     # changed implementor rows: every program whose receiver goes through one
        primary = [c for c in corpus if c.focus in focus or (c.impls & impl_focus)]
        rng = random.Random(ctx.seed)
        secondary = [c for c in corpus if c.focus not in focus and (c.methods & focus)]
        rng.shuffle(secondary)
        cases = primary[:3000] + secondary[:400]
        if not cases: return True
    else:
        cases = select(corpus, ctx.quick(), ctx.seed, budget or 700)
    d, libs = build_skeleton(ctx)
    if not d: return False
    if not run_checker(ctx, cases): return False
    wall = compile_all(ctx, cases, d, libs)
    known = load_known()
    n_findings = compile_findings(ctx, d, libs, known) if focus is None and not classic_full else 0
    n_moves = compile_thread_moves(ctx, d, libs, known) if focus is None and not classic_full else 0
    stats = collections.Counter(); by_route = collections.Counter(); by_ctx = collections.Counter(); codes = collections.Counter()
    producers = set()
    for c in cases:
        ctx.evaluations += 1
        stats[f"rustc-{c.rustc}"] += 1; by_route[c.route] += 1; by_ctx[c.context] += 1; producers.add(c.producer)
        for k in set(c.codes): codes[k] += 1
        if c.rustc == "reject": ctx.distinct.add(c.id)
        rec = {"engine": "life", "case": c.id, "expected": c.expected, "rustc": c.rustc, "rustc_codes": c.codes, "model": c.model + " " + c.model_detail,
               "calculus_program": c.prog.line("p") if c.prog else None, "program": c.text, "first_rustc_error": c.first_error}
        # direct oracle: a program that must not compile is accepted by the compiler.  "Must not compile": an escape by construction,
        # a weakening conversion, or ANY program on which the calculus' dynamic semantics (which looks at no signature) faults
        dyn = c.prog is not None and (c.run or "").startswith(MEMORY_FAULTS)
        if dyn: stats["programs-that-fault-dynamically"] += 1
        if (c.expected == "reject" or dyn) and c.rustc == "accept":
            why = f"route: {c.route}" + (f"; the calculus' run: {c.run}" if dyn else "")
            msg = (c.tag + " " if c.tag else "ESCAPE-COMPILES ") + f"{c.id}: a program that must not compile is accepted by rustc ({why})"
            rec.update({"message": msg, "history": c.prog.rust if c.prog else [], "replay": c.text, "dynamic_trace": fault_trace(c) if dyn else []})
            k = known_finding(known, ctx.prop, msg)
            if k:
                if not any(f.get("known") == k for f in ctx.oracle_failures):
                    rec["known"] = k; ctx.oracle_failures.append(rec)
                stats["known-finding-programs"] += 1
            elif len([f for f in ctx.oracle_failures if not f.get("known")]) < 20:
                ctx.oracle_failures.append(rec)
            # the checker follows the table as it is, so it accepts too; then its run must exhibit the fault
            if c.model == "accept" and c.prog and c.ends and c.expected == "reject" and "fault" not in (c.run or ""):
                rec2 = dict(rec); rec2["what"] = "rustc and the checker accept an escape, but the calculus run shows no fault (model too weak)"
                ctx.disagreements.append(rec2)
            continue
        if c.expected == "accept" and c.rustc == "reject":
            rec["what"] = "generator: a control program does not compile"
            ctx.disagreements.append(rec); continue
        if c.model != c.rustc:
            rec["what"] = "the calculus' type checker and rustc give different verdicts"
            ctx.disagreements.append(rec); continue
        if c.rustc == "reject":
            cls = c.model_detail.split()[0] if c.model_detail else ""
            allowed = CLASS_CODES.get(cls)
            if allowed is None or not c.codes or not all(k in allowed for k in c.codes):
                rec["what"] = f"both reject, but rustc's error codes {c.codes} are not of the class `{cls}` the checker reports"
                ctx.disagreements.append(rec); continue
            stats["reject-class-agrees"] += 1
        else:
            if c.prog and c.model_detail != "ok":
                rec["what"] = f"accepted program faults in the calculus' dynamic semantics: {c.model_detail}"
                ctx.disagreements.append(rec); continue
            stats["accept-and-runs-ok"] += 1
    ctx.corr[label] = {"programs": len(cases), "regression_programs(findings/)": n_findings, "thread_move_programs": n_moves, "rustc_wall_s": round(wall, 1), "rustc_invocations": ctx.extra.get("rustc_invocations"), **dict(stats), "contexts": dict(by_ctx), "routes": dict(by_route),
                        "rustc_error_codes": dict(codes), "distinct_producers": len(producers)}
    ctx.add_ob(f"correspondence:{label}(calculus checker vs rustc)", "correspondence", not [x for x in ctx.disagreements if x.get("engine") == "life"],
               json.dumps([{k: v for k, v in x.items() if k != "program"} for x in ctx.disagreements[:3]], indent=1)[:3000])
    for c in cases:
        if len(ctx.samples) >= 6: break
        if c.prog and c.expected == "reject" and c.route in ("return-from-closure", "guard-drop", "reset") and not any(s.get("route") == c.route for s in ctx.samples if isinstance(s, dict)):
            ctx.samples.append({"engine": "life", "case": c.id, "route": c.route, "rustc": c.rustc, "codes": c.codes, "model": c.model + " " + c.model_detail, "program": c.text})
    return True
