"""
engine `strs` — correspondence between the hand-written string model (lean/BumpProof/Str, run by the
Lean driver) and the real string types of the crate (harness/src/bin/strs.rs: BumpBox<str>,
FixedBumpString, BumpString, MutBumpString), plus the direct oracles the harness evaluates on the
implementation (std::string::String as reference, core::str::from_utf8 on the raw bytes after every
operation, C-string shape).

Line protocol (see lean/Driver/StrsD.lean):  `new <kind> <cap> <hex>`  /  `op <name> <args…> => <observed>`
with observed = `<outcome> | <contents hex> | <len> | <cap or ->`; the driver answers every line with the
model's observation in the same format and the two are compared verbatim.
"""
import os, subprocess, collections, re
from lib import *


def known_finding(known, prop, msg):
    for f in known.get("findings", []):
        if f.get("property") == prop and re.search(f["match"], msg):
            return f["what"]
    return None


def run_strs(ctx, sequences, ops, sweeps, decodes, seed_offset=0, label="general", oracle_props=None):
    """returns True if the engine ran"""
    oracle_props = oracle_props or [ctx.prop]
    sequences, decodes = sequences * ctx.scale(), decodes * ctx.scale()     # change-directed deepening
    ok, log = cargo_build(ctx, ["strs"])
    if not any(o["name"] == "build:harness-strs" for o in ctx.obligations):
        ctx.add_ob("build:harness-strs", "build", ok, "" if ok else log[-3000:])
    if not ok:
        return False
    if not any(o["name"] == "build:driver" for o in ctx.obligations):
        if not build_driver(ctx, "strs"):
            return False
    exe = bin_path("strs")
    env = dict(os.environ, VERIF_SEED=str(ctx.seed + seed_offset))
    cmdline = f"VERIF_SEED={ctx.seed + seed_offset} {exe} {sequences} {ops} {sweeps} {decodes}"
    p = run_harness([exe, str(sequences), str(ops), str(sweeps), str(decodes)], env, ctx)
    died = p.returncode != 0
    out_lines = p.stdout.splitlines()
    if died:
        # the oracle lines printed before the crash are evaluated below; the crash itself is reported after them
        ctx.add_ob(f"run:strs-{label}", "build", False, f"rc={p.returncode}\n{p.stderr[-2000:]}\n{p.stdout[-1500:]}")
        if out_lines and not p.stdout.endswith("\n"):
            out_lines = out_lines[:-1]
    known = load_known()
    queries, expected, meta = [], [], []          # driver input, implementation output, (trace no, line index within trace)
    trace_no, trace_seed, trace_hdr = -1, None, ""
    trace_lines = collections.defaultdict(list)   # trace -> protocol lines (new / op / oracle) in order
    oracle_lines = []
    summary = {}
    for l in out_lines:
        if l.startswith("# trace "):
            trace_no += 1; trace_seed = l.split()[-1]; trace_hdr = l[2:]; continue
        if l.startswith("# summary"):
            summary["summary"] = l[10:]; continue
        if l.startswith("# ops"):
            summary["ops"] = l[6:]; continue
        if l.startswith("# branches"):
            summary["branches"] = l[11:]; continue
        if l.startswith("# decode"):
            summary["decode_and_formatting(std-only)"] = l[9:]; continue
        if l.startswith("#"):
            continue
        if l.startswith("new "):
            q, _, r = l.partition(" => ")
            queries.append(q); expected.append(r or None); meta.append((trace_no, len(trace_lines[trace_no]))); trace_lines[trace_no].append(l); continue
        if l.startswith("oracle "):
            _, prop, msg = l.split(" ", 2)
            oracle_lines.append((trace_no, trace_seed, trace_hdr, prop, msg, len(trace_lines[trace_no]))); continue
        if l.startswith("op "):
            q, _, r = l.partition(" => ")
            queries.append(q); expected.append(r); meta.append((trace_no, len(trace_lines[trace_no]))); trace_lines[trace_no].append(l)
    rc, dout, derr = run_driver("strs", "\n".join(queries) + "\n")
    answers = dout.splitlines()
    if rc != 0 or len(answers) != len(queries):
        ctx.add_ob(f"run:driver-strs-{label}", "build", False, f"driver rc={rc}: {len(answers)} answers for {len(queries)} queries\n{derr[-1500:]}")
        return False
    # ---- correspondence: the model's observation must equal the implementation's, verbatim
    n_ops, n_dis = 0, 0
    bad_traces = set()
    for (tn, idx), q, exp, ans in zip(meta, queries, expected, answers):
        if exp is None:
            if not ans.startswith("ok"):
                ctx.disagreements.append({"engine": "strs", "trace": tn, "op": q, "differences": [f"driver rejected the line: {ans}"]})
            continue
        n_ops += 1
        if exp != ans:
            n_dis += 1
            if tn in bad_traces and len(ctx.disagreements) >= 10:
                continue
            bad_traces.add(tn)
            # the last `new` line before this op and everything after it: a self-contained reproduction
            pre = trace_lines[tn][:idx + 1]
            start = max([i for i, x in enumerate(pre) if x.startswith("new ")] or [0])
            if len(ctx.disagreements) < 40:
                ctx.disagreements.append({"engine": "strs", "trace": tn, "op": q, "implementation": exp, "model": ans,
                                          "history": pre[start:][-25:],
                                          "what": "string model and implementation disagree (model defect, harmless rewrite, or a real change of behaviour)",
                                          "replay": cmdline + f"   # trace {tn}"})
    # ---- direct oracles
    counted = collections.Counter()
    for tn, tseed, thdr, prop, msg, upto in oracle_lines:
        counted[prop + " " + msg.split(" ", 1)[0]] += 1
        if prop not in oracle_props:
            continue
        k = known_finding(known, prop, msg)
        pre = trace_lines[tn][:upto]
        start = max([i for i, x in enumerate(pre) if x.startswith("new ")] or [0])
        rec = {"engine": "strs", "trace": tn, "trace_header": thdr, "trace_seed": tseed, "property": prop, "message": msg,
               "history": pre[start:][-30:], "replay": cmdline + f"   # trace {tn}"}
        if k:
            if not any(f.get("known") == k for f in ctx.oracle_failures):
                rec["known"] = k
                ctx.oracle_failures.append(rec)
        elif len([f for f in ctx.oracle_failures if not f.get("known")]) < 20:
            ctx.oracle_failures.append(rec)
    if died:
        ctx.oracle_failures.append({"engine": "strs", "what": "the harness process died (abort / crash inside the real crate)",
                                    "message": "harness process died (see `history`: the last protocol lines before the crash)",
                                    "last_lines": out_lines[-6:], "stderr": p.stderr[-800:],
                                    "history": out_lines[-12:], "replay": cmdline})
    ctx.evaluations += n_ops
    for q in queries:
        if q.startswith("op "):
            ctx.distinct.add(q)
    st = ctx.corr.setdefault("strs", {})
    st[label] = {"traces": trace_no + 1, "ops_compared_with_model": n_ops, "disagreeing_ops": n_dis,
                 "fields_compared": ["outcome (ok[:value] / err / panic)", "contents (hex)", "len",
                                     "capacity (FixedBumpString, BumpString exactly; MutBumpString with the arena's grant as model input)"],
                 "oracle_lines": dict(counted), **summary}
    if len(ctx.samples) < 6:
        ctx.samples.append({"engine": "strs", "first_lines_of_trace_0": [x[:200] for x in trace_lines.get(0, [])[:6]]})
        seqs = [t for t in trace_lines if len(trace_lines[t]) > 3 and trace_lines[t][1].startswith("op ") and not trace_lines[t][1].startswith("op split_off")]
        if seqs:
            ctx.samples.append({"engine": "strs", "a_random_sequence": [x[:200] for x in trace_lines[seqs[-1]][:8]]})
    return True


def finish_strs_obligation(ctx):
    ctx.add_ob("correspondence:strs(model vs implementation)", "correspondence",
               not [d for d in ctx.disagreements if d.get("engine") == "strs"],
               json.dumps(ctx.disagreements[:3], indent=1)[:3000])
