"""
engine `pool` — correspondence between the hand-written pool model (lean/BumpProof/Pool/Model.lean, run
by the Lean driver, handler Driver/PoolD.lean) and the real `BumpPool` (harness/src/bin/pool.rs), plus
the direct oracles the harness evaluates on the implementation (property C19).

The harness runs the real pool from 1–16 threads, orders what happened by the lock tickets taken inside
the pool's critical section and prints that linearisation:
    pool-new …                     start of a case
    op get|put|forget|alloc|reset|reset_to_start|drop … => <what the implementation did>
        (`op get <g> <1|0|p>`: should a construction be needed it succeeds / is refused / PANICS inside the
         critical section — `get_with_size(huge)` under catch_unwind — which poisons the pool mutex)
    q idle|contents|live|poisoned => <state of the implementation at the end of a round>
    oracle C19 <message>           the IMPLEMENTATION violated the property (no model involved)
The driver replays the `op`/`q` lines on the model; its answers must equal the text after `=>` verbatim
(identity of the arena behind every guard in creation order, new/reused, idle arenas seen under the
lock, idle stack order, which blocks lie in which arena).
"""
import os, subprocess, collections, hashlib
from lib import *

CHUNK = 2500        # cases per harness process (bounds memory: ~330 lines per threaded case)


def _one(ctx, cases, mode, seed, label, st, oracle_props):
    exe = bin_path("pool")
    env = dict(os.environ, VERIF_SEED=str(seed))
    replay_cmd = f"VERIF_SEED={seed} {exe} {cases} {mode}"
    p = run_harness([exe, str(cases), mode], env, ctx)
    if p.returncode != 0:
        ctx.add_ob(f"run:pool-{label}", "build", False, f"rc={p.returncode}\n{p.stderr[-2000:]}\n{p.stdout[-1500:]}")
        ctx.oracle_failures.append({"engine": "pool", "mode": mode, "property": ctx.prop,
                                    "message": "the harness process died (abort / crash inside the real crate)",
                                    "history": p.stdout.splitlines()[-30:], "stderr": p.stderr[-800:], "replay": replay_cmd})
        # what was printed before the crash is still evaluated (oracle lines, correspondence of complete lines)
    queries, expected, meta = [], [], []      # driver input, implementation output, case number
    case_lines = collections.defaultdict(list)
    case_hdr = {}
    oracle_lines = []
    case_no = -1
    n_probes = 0
    for l in p.stdout.splitlines():
        if l.startswith("# case "):
            case_no += 1; case_hdr[case_no] = l[2:]; continue
        if l.startswith("# "):
            k = l[2:].split(" ", 1)
            if k[0] in ("ops", "get-variants", "overflow", "branches", "summary", "probes") and len(k) == 2:
                st.setdefault("harness_counters", {}).setdefault(k[0], []).append(k[1])
            continue
        if l.startswith("pool-new"):
            queries.append(l); expected.append("ok"); meta.append(case_no); case_lines[case_no].append(l); continue
        if l.startswith("oracle "):
            _, prop, msg = l.split(" ", 2)
            oracle_lines.append((case_no, prop, msg, len(case_lines[case_no]))); continue
        if l.startswith("probe "):
            # deterministic probe of the pop-or-create critical section (implementation only, nothing to replay)
            case_lines[case_no].append(l); n_probes += 1
            st.setdefault("probe_verdicts", collections.Counter())[l.rpartition(" => ")[2]] += 1
            continue
        if (l.startswith("op ") or l.startswith("q ")) and " => " in l:
            q, _, r = l.partition(" => ")
            queries.append(q); expected.append(r); meta.append(case_no); case_lines[case_no].append(l)
    if queries:
        rc, dout, derr = run_driver("pool", "\n".join(queries) + "\n")
    else:
        rc, dout, derr = 0, "", ""
    answers = dout.splitlines()
    if rc != 0 or len(answers) != len(queries):
        ctx.add_ob(f"run:driver-pool-{label}", "build", False, f"driver rc={rc}: {len(answers)} answers for {len(queries)} queries\n{derr[-1500:]}")
        return
    bad = set()
    pos = collections.Counter()
    n_ops = 0
    for cn, q, exp, ans in zip(meta, queries, expected, answers):
        pos[cn] += 1
        if cn in bad:
            continue
        if not q.startswith("pool-new"):
            n_ops += 1
        if exp != ans:
            bad.add(cn)
            ctx.disagreements.append({"engine": "pool", "mode": mode, "case": case_hdr.get(cn, "?"), "line": q,
                                      "implementation": exp, "model": ans,
                                      "history": case_lines[cn][:pos[cn]][-40:],
                                      "replay": replay_cmd + f"   # case {cn}" + ("" if mode == "single" else " (thread schedule is not reproducible; the history above is the observed linearisation)"),
                                      "what": "pool model and implementation disagree (model defect, harmless rewrite, or a real change of behaviour)"})
    for cn, prop, msg, upto in oracle_lines:
        st["oracle_lines"] = st.get("oracle_lines", 0) + 1
        if prop not in oracle_props:
            continue
        if len([f for f in ctx.oracle_failures if not f.get("known")]) < 20:
            ctx.oracle_failures.append({"engine": "pool", "mode": mode, "case": case_hdr.get(cn, "?"), "property": prop, "message": msg,
                                        "history": case_lines[cn][:max(upto, 1)][-60:],
                                        "replay": replay_cmd + f"   # case {cn}" + ("" if mode == "single" else " (thread schedule is not reproducible; the history is the observed linearisation)")})
    ctx.evaluations += n_ops + n_probes
    if n_probes:
        st["probes"] = st.get("probes", 0) + n_probes
    for cn, ls in case_lines.items():
        body = "\n".join(x for x in ls[1:])
        if len(ls) > 3:
            ctx.distinct.add(hashlib.sha1(body.encode()).hexdigest()[:16])
    st["cases"] = st.get("cases", 0) + case_no + 1
    st["lines_compared"] = st.get("lines_compared", 0) + n_ops
    st["disagreeing_cases"] = st.get("disagreeing_cases", 0) + len(bad)
    if len(ctx.samples) < 6 and case_lines.get(0):
        ctx.samples.append({"engine": "pool", "mode": mode, "first_lines_of_case_0": [x[:160] for x in case_lines[0][:8]]})


def run_pool(ctx, cases, mode, seed_offset=0, label=None, oracle_props=None):
    """mode: single (one thread holding many guards, reproducible) | threads (2–16 threads) | mixed |
    probe (`cases` deterministic probes of the pop-or-create critical section PER get variant).  Returns True if it ran."""
    oracle_props = oracle_props or [ctx.prop]
    label = label or mode
    cases = cases * min(ctx.scale(), 4)     # change-directed deepening
    ok, log = cargo_build(ctx, ["pool"])
    if not any(o["name"] == "build:harness-pool" for o in ctx.obligations):
        ctx.add_ob("build:harness-pool", "build", ok, "" if ok else log[-3000:])
    if not ok:
        return False
    if not any(o["name"] == "build:driver" for o in ctx.obligations):
        if not build_driver(ctx, "pool"):
            return False
    st = ctx.corr.setdefault("pool", {}).setdefault(label, {"mode": mode})
    done, k = 0, 0
    while done < cases:
        n = min(CHUNK, cases - done)
        _one(ctx, n, mode, ctx.seed + seed_offset + 7919 * k, label, st, oracle_props)
        done += n; k += 1
        if len([f for f in ctx.oracle_failures if not f.get("known")]) >= 20:
            break
    # keep only the last chunk's counters readable
    if "probe_verdicts" in st:
        st["probe_verdicts"] = dict(st["probe_verdicts"])
    hc = st.get("harness_counters")
    if hc:
        st["harness_counters"] = {key: (v if len(v) <= 2 else [v[0], f"... {len(v) - 2} more chunks ...", v[-1]]) for key, v in hc.items()}
    return True


def finish_pool_obligation(ctx):
    ds = [d for d in ctx.disagreements if d.get("engine") == "pool"]
    ctx.add_ob("correspondence:pool(model vs implementation)", "correspondence", not ds, json.dumps(ds[:3], indent=1)[:3000])
