"""
engine `purefn` — translator validation + direct oracle for the translated pure arithmetic.

The Rust binary `harness/src/bin/purefn.rs` includes the real source files by path and prints
`query => result` lines; the Lean driver answers the same queries from the GENERATED
definitions (`Gen.*`) and from the wide-integer specs (`Spec.*`).

 * non-`spec_` queries: implementation vs generated definition   -> correspondence (tie no. 1)
   (dev profile: must agree exactly, `panic` included; release profile: must agree whenever the
    generated definition returns `ok`, i.e. wrapping arithmetic computes the same value)
 * `spec_` queries    : implementation vs wide-integer spec      -> direct oracle for the property
"""
import os, subprocess, collections
from lib import *

def run_purefn(ctx, sections, n, oracle_prefixes, profiles=("dev", "release")):
    stats = collections.OrderedDict()
    n = n * ctx.scale()      # change-directed deepening
    ok, log = cargo_build(ctx, ["purefn"], release=False)
    ok2, log2 = (True, "")
    if "release" in profiles:
        ok2, log2 = cargo_build(ctx, ["purefn"], release=True)
    ctx.add_ob("build:harness-purefn", "build", ok and ok2, "" if ok and ok2 else (log + log2)[-3000:])
    if not (ok and ok2) or not build_driver(ctx, "pure"):
        return False
    for profile in profiles:
        for section in sections:
            exe = bin_path("purefn", release=(profile == "release"))
            p = subprocess.run([exe, section], capture_output=True, text=True,
                               env=dict(os.environ, VERIF_SEED=str(ctx.seed), VERIF_N=str(n)), timeout=3600)
            if p.returncode != 0 or "HARNESS BUG" in p.stderr:
                ctx.add_ob(f"run:purefn-{profile}-{section}", "build", False, p.stderr[-2000:])
                continue
            lines = [l for l in p.stdout.splitlines() if l and not l.startswith("#")]
            queries, results = [], []
            for l in lines:
                q, _, r = l.partition(" => ")
                queries.append(q); results.append(r)
            rc, dout, derr = run_driver("pure", "\n".join(queries) + "\n")
            answers = dout.splitlines()
            if rc != 0 or len(answers) != len(queries):
                ctx.add_ob(f"run:driver-{profile}-{section}", "build", False, f"driver rc={rc}, {len(answers)} answers for {len(queries)} queries\n{derr[-1000:]}")
                continue
            kinds = collections.Counter()
            outcomes = collections.Counter()
            for q, r, a in zip(queries, results, answers):
                fn = q.split(" ", 1)[0]
                kinds[fn] += 1
                ctx.evaluations += 1
                outcome = "some" if "some" in r else ("none" if "none" in r else ("panic" if "panic" in r.lower() else "value"))
                outcomes[outcome] += 1
                if outcome in ("some", "value"):
                    ctx.distinct.add(q)
                if fn.startswith("spec_"):
                    if a != r:
                        rec = {"engine": "purefn", "profile": profile, "query": q, "implementation": r, "spec": a,
                               "what": "real function disagrees with the wide-integer specification on a valid input"}
                        if any(fn.startswith(pfx) for pfx in oracle_prefixes):
                            ctx.oracle_failures.append(rec)
                        else:
                            ctx.notes.append(f"off-property oracle failure: {rec}")
                else:
                    if a == "bad-op":
                        ctx.disagreements.append({"engine": "purefn", "query": q, "what": "driver rejected the query"}); continue
                    if profile == "dev":
                        agree = (a == r)
                    else:
                        agree = (a == r) or a == "panic"
                    if not agree:
                        ctx.disagreements.append({"engine": "purefn", "profile": profile, "query": q, "implementation": r,
                                                  "generated_definition": a,
                                                  "what": "generated Lean definition disagrees with the real function (translator / Rs.lean defect, or source outside the translated subset)"})
            stats[f"{profile}:{section}"] = {"queries": len(queries), "by_function": dict(kinds), "outcomes": dict(outcomes)}
            if len(ctx.samples) < 8 and lines:
                step = max(1, len(lines) // 4)
                ctx.samples += [f"[{profile}] {l}" for l in lines[::step][:4]]
    ctx.corr["purefn"] = stats
    ctx.add_ob("correspondence:purefn(generated definitions vs real functions)", "correspondence",
               not [d for d in ctx.disagreements if d.get("engine") == "purefn"],
               json.dumps(ctx.disagreements[:5], indent=1))
    return True
