"""C18 — arena-model property (see DESIGN.md §7 C18); theorems in lean/BumpProof/Props/C18.lean"""
from engines.arena_prop import run_arena_property

def run(ctx):
    return run_arena_property(ctx, ["BumpProof.Props.C18", "BumpProof.Props.Hist2@C18"],
        runs_quick=[('aligned', 700, 100)],
        runs_thorough=[('aligned', 8000, 200), ('scopes', 2000, 200)],
        fields=(0, 2, 5), extra_oracles=(),
        note='alignment theorems (align_to, align guard, reset_to) on the model + correspondence + position % N oracle on the implementation')
