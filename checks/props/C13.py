"""C13 — arena-model property (see DESIGN.md §7 C13); theorems in lean/BumpProof/Props/C13.lean"""
from engines.arena_prop import run_arena_property

def run(ctx):
    return run_arena_property(ctx, ["BumpProof.Props.C13", "BumpProof.Props.Hist2@C13", "BumpProof.Props.Targets@C13"],
        runs_quick=[('realloc', 700, 100)],
        runs_thorough=[('realloc', 8000, 200), ('general', 2000, 200)],
        fields=(0, 2, 3), extra_oracles=(),
        note='reclaim / opt-out theorems on the model + correspondence + same-address / allocated-monotonicity oracles on the implementation')
