"""C04 — references into a scope cannot outlive it in safe code; weakening settings conversions are rejected at
compile time (partial: signature-table proof + region calculus soundness in Lean; rustc trusted and compared)."""
from lib import *
import lib as _lib
from engines.life import run_life, changed_methods

MODULES = ["BumpProof.Props.C04"]

def regen_sigs(ctx):
    rc, out, err, dt = _lib.run([sys.executable, os.path.join(VERIF, "translator", "sigs2lean.py"), REPO, os.path.join(LEAN, "BumpProof", "Gen")])
    ctx.add_ob("translate:Sigs.lean", "translation", rc == 0, out + err)
    ctx.extra["translator"] = (out + err).strip().splitlines()
    return rc == 0

SIGS = os.path.join(LEAN, "BumpProof", "Gen", "Sigs.lean")

def reference_sigs_text():
    """the table the theorems were last checked against: the committed Gen/Sigs.lean if this is a git checkout, else the file as
    it is before this run regenerates it"""
    try:
        rc, out, err, dt = _lib.run(["git", "-C", VERIF, "show", "HEAD:lean/BumpProof/Gen/Sigs.lean"])
        if rc == 0 and "def sigs" in out: return out
    except Exception:
        pass
    return open(SIGS).read() if os.path.exists(SIGS) else ""

def run(ctx):
    return check(ctx)

def check(ctx):
    ctx.extra["rule"] = ("one program per (allocation-producing method of the extracted signature table) x (context that yields a handle) x "
                         "(escape route of the property text), each with a minimally different control program, plus thread moves/shares for "
                         "Send+Sync / Send-only / neither base allocators and single-field settings conversions; every program is decided by "
                         "rustc (batched; error codes attributed per program) and by the calculus' executable type checker; plus the derived "
                         "misuse corpus of every method that hands something out (must not compile iff the calculus' dynamic semantics faults); "
                         "distinct_nontrivial counts distinct programs rustc rejects")
    ref_text = reference_sigs_text()
    translated = regen_sigs(ctx)
    changed, other_changed = changed_methods(ref_text, open(SIGS).read() if os.path.exists(SIGS) else "")
    if changed or other_changed:
        ctx.notes.append("Gen/Sigs.lean differs from the reference table: " + (", ".join(sorted(f"{o}::{n}" for o, n in changed)[:30]) or "(no method row)") +
                         ("; implementors / assertions / structs / auto-trait impls differ" if other_changed else ""))
    # when the extraction fails Gen/Sigs.lean keeps its last good content: the theorems then speak about THAT table (the
    # undischarged `translate:Sigs.lean` obligation is what breaks the proof), and the rustc correspondence still runs, with the
    # corpus generated from the same last good table — a changed signature/implementor shows up as a program that compiles
    proved = prove(ctx, MODULES) and translated
    ran = run_life(ctx)
    new_oracle = lambda: [f for f in ctx.oracle_failures if not f.get("known")]
    if (not proved or ctx.disagreements or not ran) and not new_oracle() and ctx.quick():
        # a proof obligation (e.g. `decide` on the regenerated table) or the correspondence broke: search for a program that must
        # not compile but does.  First the derived misuse corpus of exactly the methods whose table row changed …
        keep = list(ctx.disagreements)
        if changed:
            ctx.notes.append(f"proof/correspondence broken: running the full derived misuse corpus of the {len(changed)} method(s) whose signature changed")
            ctx.disagreements.clear()
            run_life(ctx, focus=changed, label="life-search(changed signatures)")
            keep += ctx.disagreements
        # … then the complete classic corpus (every producer x context x route)
        if not new_oracle():
            ctx.notes.append("running the complete classic corpus to find an escape that compiles")
            ctx.disagreements.clear()
            run_life(ctx, classic_full=True, label="life-search(full classic corpus)")
            keep += ctx.disagreements
        ctx.disagreements[:] = keep
    ctx.partial += [
        "TRUSTED: soundness of rustc's borrow checker, variance and auto-trait inference — the calculus' type checker is only COMPARED with rustc "
        "(same accept/reject verdict and compatible error class on every generated program)",
        "COVERAGE of the calculus: straight-line programs over call chains of the methods of the signature table, nested scoped/aligned closures, "
        "guards, drops, outer-variable stores, thread moves/shares.  Not covered: control flow, user-defined types and functions, trait objects, "
        "interior mutability, mem::swap/replace/take of handles (DESIGN.md §10: swapping two &mut BumpScope<'a> of different arenas compiles and is "
        "outside every alphabet), mem::forget, unwinding",
        "conversions between lifetime-carrying values (Gen/Sigs.lean `valueConvs`): `From` impls, the by-value accessors of Stats / Chunk / AnyStats / "
        "AnyChunk, iterator items, `FixedBumpVec::from_init` and `BumpVec::from_parts` are statements of the calculus (`vconv`, `join`) and part of "
        "the derived corpus; the `AsRef`/`Borrow`/`Deref` rows and `BumpString::from_parts` are only checked at table level (C04.convs_tied); "
        "conversions of other types (`into_parts`, `into_fixed_vec`, owned_slice …) are not extracted",
        "the wrappers WithoutShrink / WithoutDealloc are not entries of the calculus: a wrapper around a (re)borrow of a handle is typed as that "
        "(re)borrow (their forwarding `BumpAllocatorCoreScope<'a>` impls are checked at table level by sigOK.implAdequate: the header must say "
        "`B: BumpAllocatorCoreScope<'a>`) and the derived corpus uses them as receivers of the scope-trait methods and of a generic helper",
        "Send/Sync of the types that are not objects of the calculus (collections over an owned Bump / a &mut Bump, mut_bump_vec::IntoIter, the boxes, "
        "owned_slice / owned_str iterators): every hand-written `unsafe impl Send/Sync` of the crate is extracted (Gen/Sigs.lean `handImpls`) and must bound "
        "every type parameter the struct stores outside PhantomData (C04.hand_impls_ok, table level only; parameters bounded by BumpAllocatorSettings are "
        "exempt), and a fixed family of `move X to another thread` programs with a non-Send base allocator is compiled (expectation by construction, "
        "Global twins as controls); whether the bounds are SUFFICIENT beyond that rule (e.g. raw pointers into shared chunks) is not examined",
        "claim(&self) is typed as an exclusive borrow of its receiver (stricter than the real signature); the shared form is sound only because a "
        "claimed allocator is inert at run time (property C14), which the calculus does not model",
        "BumpPool::get always hands out a fresh arena in the calculus (reuse of returned arenas is not modelled)",
        "the effect class of each method (what it does at run time: allocate / open a scope / end epochs / view / …) is assigned by NAME in "
        "translator/sigs2lean.py and given meaning by the hand-written dynamic semantics of Life/Calculus.lean; the arena engine, not this one, "
        "ties that to the implementation",
        "target C04.sound_target (soundness of the calculus for the signature table exactly as extracted) is FALSE and its negation is proved "
        "(C04.sound_target_fails, witness C04.c04a_witness = known finding C04-a); proved instead: C04.sound (every table satisfying sigOK) and "
        "C04.sound_partial (the extracted table without the `&'a mut Bump` implementor of BumpAllocatorCoreScope)",
    ]
    return finish(ctx, "Gen/Sigs.lean (regenerated from the sources: signatures with receiver mode and result lifetimes, BumpAllocatorCoreScope "
                       "implementors, const-assert blocks, conversions between lifetime-carrying values with the relation of their output lifetimes to the "
                       "input's, struct fields and Send/Sync impls) satisfies the decidable adequacy predicate sigOK "
                       "(by `decide`) apart from the recorded deviation C04-a; sigOK implies soundness of the region calculus (every accepted "
                       "program runs without use-after-epoch-end / dead-arena / cross-thread fault; proved by induction over programs) and that "
                       "compiling settings conversions do not weaken a guarantee (for all settings); the calculus' executable type checker "
                       "agrees with rustc (verdict and error class) on every program of the generated corpus")

def replay(ctx):
    fails = ctx.replay.get("failures", [])
    for f in fails[:5]:
        print("---- replay:", f.get("case"), "|", f.get("message", f.get("what", "")))
        print(f.get("replay") or f.get("program") or "")
    return check(ctx)
