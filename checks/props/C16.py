"""C16 — splitting and merging owned slices partitions them exactly (model proof + exhaustive split
enumeration with follow-up operations on the parts, correspondence on contents, capacities and addresses)."""
from lib import *
from engines.coll import run_coll, finish_coll_obligation
from engines.arena import run_arena, finish_arena_obligation

MODULES = ["BumpProof.Props.C16"]

def run(ctx):
    q = ctx.quick()
    ctx.extra["rule"] = ("exhaustive (len<=9, cap<=12, start<=end<=len) + invalid ranges, split_off on FixedBumpVec / BumpVec / BumpBox<[T]> "
                         "(sized: two arena configurations exhaustively, the others sampled; zero-sized by counts), then fill-to-capacity and random "
                         "operations on either part with the sibling re-read, shrink_to_fit, drops in both orders; split_at / merge (both orders) / "
                         "split_first / split_last round trips; contents, capacities and byte addresses of all parts are compared with the model; "
                         "distinct_nontrivial counts distinct op lines replayed on the model")
    ctx.partial += [
        "proved: split_off (BumpBox<[T]>, FixedBumpVec, BumpVec via FixedBumpVec), split_at, split_first/last, split_at_spare, merge (inverse / "
        "rejects wrong order), partition (exact as multisets, for every predicate incl. panics); buffers of the parts disjoint + tile the original",
        "into_flattened (all five owners; count, order, claimed capacity = exactly the buffer, no destructor; zero-sized: checked_mul / usize::MAX) "
        "modelled + proved (into_flattened_partitions, rev_into_flattened_partitions, zst_into_flattened) + replayed",
        "oracle only: zero-sized parts (by counts; model: zst_split_off_partitions), independence of the parts after follow-up operations "
        "(sibling re-read; the model-level argument is C01/C02 of the arena engine)",
        "BumpString / FixedBumpString::split_off belong to the `strs` engine (C09)",
    ]
    proved = prove(ctx, MODULES)
    run_coll(ctx, 1 if q else 2, 1, "split", oracle_props=["C16"])
    if not q:
        for off in (1, 2, 3):
            run_coll(ctx, 2, 1, "split", oracle_props=["C16"], seed_offset=off, label=f"split+{off}")
    if (not proved or ctx.disagreements) and not ctx.oracle_failures and q:
        ctx.notes.append("proof/correspondence broken: running the thorough-tier search for a failing input")
        for off in (1, 2, 3):
            run_coll(ctx, 2, 1, "split", oracle_props=["C16"], seed_offset=off, label=f"deep-search+{off}")
    # "each part is afterwards independent": at arena level a split is two live blocks; deallocating / growing / shrinking one of
    # them (also the FRONT part of a split while the block is the newest allocation, downwards, MIN_ALIGN > 1) must not let a later
    # allocation overlap the other, nor change its bytes (oracles of the arena harness, tagged C01 / C02 there)
    run_arena(ctx, 300 if q else 4000, 100, "general", fields=(0,), oracle_props=["C16", "C01", "C02"], seed_offset=160, label="parts-of-a-split-block(arena)")
    run_arena(ctx, 200 if q else 3000, 100, "realloc", fields=(0,), oracle_props=["C16", "C01", "C02"], seed_offset=161, label="parts-of-a-split-block(realloc)")
    finish_arena_obligation(ctx)
    finish_coll_obligation(ctx)
    return finish(ctx, "split_off / split_at / split_first / split_last / merge proved to partition exactly (contents, order, capacities, "
                       "disjoint adjacent buffers; merge = inverse, rejects non-adjacent order); model tied to the real types by the exhaustive "
                       "split enumeration; independence of the parts afterwards = arena properties C01/C02 + sibling re-read oracle")

def replay(ctx):
    print(json.dumps(ctx.replay, indent=1)[:4000])
    return run(ctx)
