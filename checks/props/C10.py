"""C10 — arena-model property (see DESIGN.md §7 C10); theorems in lean/BumpProof/Props/C10.lean"""
from engines.arena_prop import run_arena_property

def run(ctx):
    return run_arena_property(ctx, ["BumpProof.Props.C10", "BumpProof.Props.Hist@C10", "BumpProof.Props.Hist2@C10", "BumpProof.Props.Targets@C10"],
        runs_quick=[('general', 500, 100), ('aligned', 150, 100), ('ledger', 150, 100)],
        runs_thorough=[('general', 6000, 200), ('aligned', 2000, 200), ('ledger', 2000, 200)],
        fields=(2, 3, 4, 5), extra_oracles=(),
        note='geometry invariant + statistics identities proved on the model + correspondence of stats/any_stats/chunk list + identity oracles on the implementation')
