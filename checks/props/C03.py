"""C03 — arena-model property (see DESIGN.md §7 C03); theorems in lean/BumpProof/Props/C03.lean"""
from engines.arena_prop import run_arena_property

def run(ctx):
    return run_arena_property(ctx, ["BumpProof.Props.C03", "BumpProof.Props.Hist2@C03"],
        runs_quick=[('scopes', 500, 120), ('aligned', 200, 100)],
        runs_thorough=[('scopes', 6000, 250), ('aligned', 2000, 200), ('claims', 2000, 200)],
        fields=(0, 1, 2, 3), extra_oracles=(),
        note='scope/checkpoint restore theorems on the model + correspondence + restore oracle (position, allocated, no release) on the implementation')
