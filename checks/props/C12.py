"""C12 — a fresh chunk always fits the request that caused it; sizes never wrap (translator + full proof)."""
from lib import *
from engines.purefn import run_purefn

MODULES = ["BumpProof.Props.C12"]

def run(ctx):
    n = 60000 if ctx.quick() else 500000
    ctx.extra["rule"] = ("size_config functions on 14 header layouts (base-allocator values of size 0..256 / align 1..256), both directions, "
                         "hints next to 0, powers of two, page multiples, isize::MAX and usize::MAX; layouts with alignments up to 2^62; "
                         "distinct_nontrivial counts distinct queries whose result is a successful computation (not none/panic)")
    regen(ctx, needed=("SizeConfig.lean",))
    proved = prove(ctx, MODULES)
    run_purefn(ctx, ["size", "rs"], n, oracle_prefixes=("spec_calc_size", "spec_hint_from_capacity"))
    if (not proved or ctx.disagreements) and not ctx.oracle_failures and ctx.quick():
        ctx.notes.append("proof/correspondence broken: running the thorough-tier search for a failing input")
        run_purefn(ctx, ["size"], 400000, oracle_prefixes=("spec_calc_size", "spec_hint_from_capacity"), profiles=("dev",))
    try:
        from engines.arena import run_fit_search
        run_fit_search(ctx)
    except ImportError:
        ctx.partial.append("arena-level fit oracle (real arenas with matching base allocators) not yet wired")
    return finish(ctx, "Gen.SizeConfig.* (regenerated from src/chunk/size_config.rs) proved equal to the wide-integer spec; fit / growth / "
                       "no-wrap theorems proved for every header layout, direction, hint and grant")
