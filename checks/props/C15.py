"""C15 — arena-model property (see DESIGN.md §7 C15); theorems in lean/BumpProof/Props/C15.lean"""
from engines.arena_prop import run_arena_property

def run(ctx):
    return run_arena_property(ctx, ["BumpProof.Props.C15", "BumpProof.Props.Hist2@C15"],
        runs_quick=[('prepared', 700, 100)],
        runs_thorough=[('prepared', 8000, 200)],
        fields=(0, 2, 5, 6), extra_oracles=(),
        note='prepare leaves positions untouched / commit advance theorems on the model + correspondence + position-snapshot oracle on the implementation')
