"""C15 — arena-model property (see DESIGN.md §7 C15); theorems in lean/BumpProof/Props/C15.lean"""
from engines.arena_prop import run_arena_property
from engines.coll import run_coll, finish_coll_obligation

def run(ctx):
    # an exclusive-borrow collection (MutBumpVec / MutBumpVecRev) yields exactly the elements that were pushed, also when
    # filling had to continue in a bigger chunk: growth-heavy traces next to std::vec::Vec, replayed on the collection model
    run_coll(ctx, 300 if ctx.quick() else 8000, 10, "mutgrow", oracle_props=["C15", "C08", "C06"], label="mutgrow(MutBumpVec / MutBumpVecRev across chunks)")
    finish_coll_obligation(ctx)
    return run_arena_property(ctx, ["BumpProof.Props.C15", "BumpProof.Props.Hist2@C15"],
        runs_quick=[('prepared', 700, 100)],
        runs_thorough=[('prepared', 8000, 200)],
        fields=(0, 2, 5, 6), extra_oracles=(),
        note='prepare leaves positions untouched / commit advance theorems on the model + correspondence + position-snapshot oracle on the implementation')
