"""C05 — arena-model property (see DESIGN.md §7 C05); theorems in lean/BumpProof/Props/C05.lean"""
from engines.arena_prop import run_arena_property

def run(ctx):
    return run_arena_property(ctx, ["BumpProof.Props.C05", "BumpProof.Props.Hist@C05", "BumpProof.Props.Targets@C05"],
        runs_quick=[('ledger', 500, 100), ('faults', 250, 100)],
        runs_thorough=[('ledger', 6000, 200), ('faults', 3000, 200), ('general', 2000, 200)],
        fields=(0, 1, 5), extra_oracles=(),
        note='ledger theorems (each chunk released exactly once, memory fitting) on the model + request-sequence correspondence + base-allocator ledger/guard-byte oracle')
