"""C19 — a BumpPool hands every arena to one user at a time (pool model: interleaving proof + linearised correspondence; partial: atomicity trusted)."""
from lib import *
from engines.pool import run_pool, finish_pool_obligation

MODULES = ["BumpProof.Props.C19"]

PARTIAL = [
    "trusted, not provable in the model: the critical sections of BumpPool really are atomic (std::sync::Mutex; the MutexGuard temporary of "
    "`match self.lock().pop() {..}` lives to the end of the statement, so pop-or-create is one critical section) — the theorems are about every "
    "LINEARISATION of get/drop/forget/alloc/reset steps by any number of guards and threads",
    "trusted: an arena pushed by one thread and popped by another is seen consistently (unsafe impl Send for Bump + happens-before of the mutex); "
    "the harness re-reads every patterned block after hand-over on real threads, which samples schedules but proves nothing about the memory model",
    "the arena itself is abstracted to the list of block tags + counters of single-arena operations; what Bump::reset / reset_to_start / Drop / an "
    "allocation do to ONE arena is the arena engine (C01-C05); the harness checks chunk count / allocated() / base-allocator ledger after pool.reset(), "
    "reset_to_start() and drop directly on the implementation",
    "the linearisation fed to the model comes from lock tickets of the verification hook (cfg bump_scope_verif), 2-16 raw threads; thread schedules are sampled, not enumerated",
]


def run(ctx):
    ctx.extra["rule"] = ("real BumpPool<A,S> (Global and a counting Send+Sync allocator with failure injection; up / down / min-align 8,16 / min chunk 128,4096) driven by "
                         "1 thread holding up to 12 guards (reproducible) and by 2-16 raw threads with up to 4 guards each: get / try_get / (try_)get_with_size / "
                         "(try_)get_with_capacity (1/5 of the fallible ones with an armed construction failure; in half of the rounds 1/9 of the gets ask for a size/layout whose chunk size "
                         "overflows: the try_ variants return Err, the panicking variants — under catch_unwind — panic INSIDE the critical section iff no idle arena exists and poison the "
                         "pool mutex, after which everything continues on the poisoned pool), patterned allocations of 0..6000 bytes (also after a nested "
                         "scope through DerefMut), guard drops in random order, guards moved to other threads, mem::forget of a guard, yields/sleeps/spins, 1-3 rounds per case "
                         "separated by reset / reset_to_start / nothing, then drop of the pool; the history is ordered by lock tickets and replayed on the model; "
                         "plus deterministic probes of the pop-or-create critical section for each of the six get variants (the base allocator, called while the pool creates the "
                         "fallback arena, asks a partner thread to drop the only live guard and watches for 50 ms whether that drop can complete: it must block on the pool mutex) and of "
                         "the reuse of an idle arena that is in the claimed state (leaked claim guard; idle stacks [claimed] and [usable, claimed]: no base-allocator traffic during the gets); "
                         "distinct_nontrivial counts distinct linearised histories (hash of the case text)")
    proved = prove(ctx, MODULES)
    n_single, n_threads, n_probe = (80, 240, 2) if ctx.quick() else (4000, 20000, 40)     # run_pool deepens them itself (ctx.scale())
    run_pool(ctx, n_single, "single")
    run_pool(ctx, n_threads, "threads")
    # pop-or-create must be ONE critical section: steered deterministically, n_probe probes for each of the six get variants (50 ms each)
    run_pool(ctx, n_probe, "probe")
    if (not proved or ctx.disagreements) and not ctx.oracle_failures and ctx.quick():
        # a proof obligation or the correspondence broke: search harder for a concrete failing input
        ctx.notes.append("proof/correspondence broken: running a deeper search for a failing input (direct oracles on the implementation)")
        run_pool(ctx, 1500, "single", seed_offset=1000, label="search-single")
        run_pool(ctx, 5000, "threads", seed_offset=2000, label="search-threads")
        run_pool(ctx, 20, "probe", seed_offset=3000, label="search-probe")
    finish_pool_obligation(ctx)
    for p in PARTIAL:
        ctx.partial.append(p)
    return finish(ctx, "pool model (get = pop-or-create, guard drop = push, forget, alloc through the owning guard, reset/reset_to_start/drop only without live guards): "
                       "for every finite step sequence — exclusivity, reuse before create (created <= peak of simultaneously live guards, none lost), contents only grow "
                       "and only through the current owner (survive hand-over), reset/reset_to_start/drop apply the single-arena operation to every arena exactly once; a refused or "
                       "panicking get changes nothing, a guard drop returns its arena and nothing depends on the poison flag of the mutex; "
                       "tied to the code by replaying ticket-ordered histories of real multi-threaded runs; level: partial (atomicity and memory consistency are std Mutex + Send)")


def replay(ctx):
    fails = ctx.replay.get("failures", []) or ctx.replay.get("correspondence_disagreements", [])
    print(json.dumps(fails[:3], indent=1))
    return run(ctx)
