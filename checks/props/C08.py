"""C08 — vector types behave like std::vec::Vec on every operation sequence (refinement proof to `List`
functions + correspondence + three-way differential against std::vec::Vec on the real types)."""
from lib import *
from engines.coll import run_coll, finish_coll_obligation

MODULES = ["BumpProof.Props.C08"]

def run(ctx):
    q = ctx.quick()
    ctx.extra["rule"] = ("op sequences on BumpBox<[T]>, FixedBumpVec, BumpVec, MutBumpVec, MutBumpVecRev (sized and zero-sized elements, 4 arena "
                         "configurations: both directions, minimum alignments 1/8/16) next to std::vec::Vec / VecDeque; boundary and out-of-range "
                         "arguments; capacity promises; distinct_nontrivial counts distinct op lines replayed on the model")
    ctx.partial += [
        "refinement to List functions proved for: retain, dedup_by, dedup_by_key, truncate, clear, pop, pop_if, remove, swap_remove, push, insert, "
        "extend_from_slice_clone, extend_from_within_clone, resize, resize_with, append, drain(+keep_rest), extract_if, into_iter, map_in_place, "
        "BumpVec::splice, reservation policy (fits => same buffer, promise kept, FixedBumpVec refuses exactly when full, BumpVec never refuses, "
        "reserve_exact, shrink_to_fit); MutBumpVecRev (mirrored): push, pop, pop_if, truncate, insert, remove, swap_remove, "
        "extend_from_slice_clone, resize_with, append; history level: every finite sequence of the 18 single-vector operations refines the "
        "list-level run (history_refines)",
        "BumpVec::map (contents, order, documented capacity cap*size_of<T>/size_of<U> in place resp. len on the fallback path: vec_map_refines) "
        "and into_flattened (Props/C16) are modelled, proved and replayed in the split profile",
        "shrink_to (model shrinkTo + shrink_to_keeps), Extend::extend with honest / under- / over-reporting / overflowing size_hint "
        "(extendIter + extend_refines), push_with (push_with_refines) modelled + proved + replayed; the try_ twins and push_mut / insert_mut / "
        "dedup() run through the same model operations (the reference returned by *_mut is checked to point at the new slot); after shrinking "
        "operations and now and then otherwise ANOTHER block is allocated from the vector's arena and the contents are re-read",
        "std-differential / accounting oracle only (profile split, coll_inc/misc.rs): into_boxed_slice, into_fixed_vec, into_slice, "
        "from_elem_in, from_iter_in, from_iter_exact_in, from_owned_slice_in, extend_from_slice_copy, extend_from_within_copy; "
        "MutBumpVecRev::resize (proved for C06 only)",
        "capacity of MutBumpVec / MutBumpVecRev after growth is an observed input of the model (the arena decides); `cap >= promised` for them is an oracle check",
        "zero-sized element types (capacity usize::MAX, lengths) by oracle only",
    ]
    proved = prove(ctx, MODULES)
    run_coll(ctx, 8000 if q else 300000, 14, "std", oracle_props=["C08"])
    run_coll(ctx, 600 if q else 40000, 12, "general", oracle_props=["C08"], label="general(with faults)")
    # split_off (range form, in place) is one of the operations C08 is about: its contents / order / capacity
    # oracles live in the `split` profile of the harness (tagged C16 there)
    run_coll(ctx, 0, 10, "split", oracle_props=["C08", "C16"], label="split")
    if (not proved or ctx.disagreements) and not ctx.oracle_failures and q:
        ctx.notes.append("proof/correspondence broken: running the thorough-tier search for a failing input")
        run_coll(ctx, 4000, 16, "std", oracle_props=["C08"], seed_offset=1000, label="deep-search")
    finish_coll_obligation(ctx)
    return finish(ctx, "slot-level model refines the plain List functions of std::vec::Vec (contents, returned values, panics on exactly the "
                       "out-of-range arguments, capacity promises); model tied to the real types by replaying every logged operation")

def replay(ctx):
    print(json.dumps(ctx.replay, indent=1)[:4000])
    return run(ctx)
