"""C07 — arena-model property (see DESIGN.md §7 C07); theorems in lean/BumpProof/Props/C07.lean"""
from engines.arena_prop import run_arena_property
from engines.purefn import run_purefn
from engines.coll import run_coll, finish_coll_obligation

def run(ctx):
    # size computations that would overflow must be reported as "does not fit", never panic or wrap:
    # the shared align helpers of src/lib.rs against their wide-integer meaning
    run_purefn(ctx, ["lib"], 20000 if ctx.quick() else 400000, oracle_prefixes=("spec_lib",))
    # collection clause: a failed push/insert/reserve/extend/append/resize (refusing base allocator, full FixedBumpVec,
    # "capacity overflow" incl. the one in the middle of BumpVec::splice with a lying size_hint) leaves the vector as it was
    run_coll(ctx, 1 if ctx.quick() else 3, 1, "failing", oracle_props=["C07", "C06", "C08"], label="failing(collections)")
    finish_coll_obligation(ctx)
    return run_arena_property(ctx, ["BumpProof.Props.C07", "BumpProof.Props.Hist2@C07", "BumpProof.Props.Targets@C07", "BumpProof.Props.C07Coll"],
        runs_quick=[('faults', 700, 100)],
        runs_thorough=[('faults', 8000, 200), ('ledger', 2000, 200)],
        fields=(0, 1, 6), extra_oracles=('C01','C02','C05','C10'),
        note='failure theorems on the model (error value, state intact) + correspondence under injected base-allocator failures + content/invariant oracles after failures')
