"""C14 — arena-model property (see DESIGN.md §7 C14); theorems in lean/BumpProof/Props/C14.lean"""
from engines.arena_prop import run_arena_property

def run(ctx):
    return run_arena_property(ctx, ["BumpProof.Props.C14", "BumpProof.Props.Hist2@C14"],
        runs_quick=[('claims', 700, 100)],
        runs_thorough=[('claims', 8000, 200)],
        fields=(0, 2, 3), extra_oracles=(),
        note='claimed-handle-is-inert theorems (via C11 on the dummy range) + correspondence + claimed-handle oracles on the implementation')
