"""C09 — string types behave like std String and always hold valid UTF-8; C-string constructors
(proof on the byte-level string model + correspondence with the real types + std String as direct oracle)."""
from lib import *
from engines.strs import run_strs, finish_strs_obligation

MODULES = ["BumpProof.Props.C09"]

PARTIAL = [
    "from_utf8_lossy and formatting (alloc_fmt, write!, Display/Debug) are NOT modelled: they are core's utf8_chunks / fmt plus the modelled "
    "push/push_str; they are compared with std on generated (also malformed) inputs only (section `decode_and_formatting(std-only)`). "
    "from_utf8 is modelled as accept-iff-validUtf8 (the Utf8Error position is std-compared only); from_utf16(_lossy) is modelled "
    "(decode_utf16 + push loop) and proved to hold the characters for well-formed input and to be valid UTF-8 for every input",
    "growable strings are assumed to get their memory (allocation failure / capacity overflow is C07's subject); the capacity of BumpString "
    "is modelled exactly (generic_grow_amortized / generic_grow_exact), that of MutBumpString up to the arena's grant (an input of the model, "
    "taken from the observation); shrink_to / shrink_to_fit are modelled with the arena's answer (shrunk or not) as an input taken from the observation",
    "stale-pointer / clobbering oracles (re-reading the string after a FURTHER allocation from the same arena, after shrink_to(_fit), split_off, "
    "every consuming conversion and at random; probe allocations and kept split-off strings must stay intact) are direct oracles on the "
    "implementation only: the byte model has no addresses",
    "extend_zeroed, write_str/write_char, Extend<char|&char|&str>, +=, shrink_to(_fit) and the consuming conversions (into_str, into_boxed_str, "
    "into_fixed_string, into_bytes, FixedBumpString::into_string) are modelled and have per-operation theorems, but are not constructors of the "
    "history type `Str.Op` (run_valid / run_refines quantify over the other 15 operations); the PanicsOnAlloc wrapper is not exercised",
    "char::encode_utf8 / str::chars / is_char_boundary are core primitives: the model uses Lean core's String.utf8EncodeChar and a hand-written "
    "decoder proved inverse to it; the tie to rustc's primitives is the correspondence run (every op line carries the resulting bytes)",
    "finding C09-a (split_off with an empty range inside a character returns \"\" instead of panicking) is carved out of the `panics iff` theorem "
    "(C09.splitOff_panics_iff_partial) and exhibited by C09.splitOff_c09a_witness; the repaired order (model switch Str.c09aFixed) has the full theorem",
]


def run(ctx):
    q = ctx.quick()
    ctx.extra["rule"] = ("operation sequences (push, push_str, insert, insert_str, remove, pop, truncate, clear, retain with a panicking/"
                         "dropping predicate, drain, replace_range, extend_from_within, split_off, reserve, reserve_exact, extend_zeroed, write_str, write_char, Extend<char>/<&char>/<&str>, +=, shrink_to, shrink_to_fit, into_cstr / into_str / into_boxed_str / into_fixed_string / into_bytes / into_string, try_ and panicking twins, each followed by further allocations from the same arena; constructors from_str_in / with_capacity_in+push_str, from_utf8, from_utf16(_lossy)) on BumpBox<str>, FixedBumpString, "
                         "BumpString and MutBumpString (arenas: up/MIN_ALIGN 1, down/1, down/8, up/16) next to std::string::String; texts mix 1-4 byte characters incl. NUL, "
                         "U+0080/U+07FF/U+0800/U+D7FF/U+E000/U+FFFF/U+10000/U+10FFFF; indices: boundaries, inside characters, len, len+1.., "
                         "usize::MAX; all bound forms; sweeps: EVERY byte index / index pair of a text on a fresh string of every kind; "
                         "distinct_nontrivial counts distinct op lines")
    proved = prove(ctx, MODULES, extra_token_dirs=("Driver/StrsD.lean",))
    if q:
        run_strs(ctx, 5000, 30, 40, 500)
    else:
        # 20 chunks (independent seeds) of 10 000 sequences x 40 ops + 75 sweeps + 1000 decode/format cases
        for i in range(20):
            run_strs(ctx, 10000, 40, 75, 1000, seed_offset=1009 * i, label=f"chunk-{i}")
            if [f for f in ctx.oracle_failures if not f.get("known")] or ctx.disagreements:
                break
    new_oracle = [f for f in ctx.oracle_failures if not f.get("known")]
    if (not proved or ctx.disagreements) and not new_oracle and q:
        # a proof obligation or the correspondence broke: search harder for a concrete failing input
        ctx.notes.append("proof/correspondence broken: running a deeper (time-boxed) search for a failing input")
        run_strs(ctx, 20000, 40, 200, 3000, seed_offset=7919, label="deep-search")
    finish_strs_obligation(ctx)
    ctx.partial += PARTIAL
    return finish(ctx, "byte-level model of the four string types (Str/Model.lean mirrors bump_box.rs (str part), fixed_bump_string.rs, "
                       "bump_string.rs, mut_bump_string.rs, owned_str/drain.rs, alloc_cstr*); for ALL strings, indices, characters, "
                       "replacement texts and predicate oracles: every operation keeps the contents valid UTF-8 (also when it panics), "
                       "refines the List Char specification, panics exactly when an index is out of range or not on a character boundary "
                       "(C09-a carved out), never reaches an out-of-bounds copy; C strings are text-up-to-first-NUL + one NUL. "
                       "Model tied to the code by the correspondence run; std::string::String is the direct oracle on the implementation")


def replay(ctx):
    fails = ctx.replay.get("failures", [])
    for f in fails[:5]:
        print(json.dumps({k: f.get(k) for k in ("message", "history", "replay")}, indent=1))
    return run(ctx)
