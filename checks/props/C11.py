"""C11 — bump-pointer arithmetic is correct, tight and hint-independent (translator + full proof)."""
from lib import *
from engines.purefn import run_purefn

MODULES = ["BumpProof.Props.C11"]

def run(ctx):
    n = 60000 if ctx.quick() else 600000
    ctx.extra["rule"] = ("boundary-biased random BumpProps (addresses next to 0x10, 2^31, 2^32, 2^47, 2^63, 2^64-16; sizes next to powers of two "
                         "and isize::MAX; alignments 2^0..2^62; all 5 minimum alignments; all hint combinations; dummy ranges) plus a sub-sampled "
                         "exhaustive window start,end in [16,96), size<=24, align<=64; distinct_nontrivial counts distinct queries whose result is a "
                         "successful computation (not none/panic)")
    regen(ctx, needed=("Bumping.lean", "LibArith.lean"))
    proved = prove(ctx, MODULES)
    run_purefn(ctx, ["bump", "lib", "rs"], n, oracle_prefixes=("spec_bump", "spec_prepare"))
    if (not proved or ctx.disagreements) and not ctx.oracle_failures and ctx.quick():
        # a proof obligation or the correspondence broke: search harder for a concrete failing input
        ctx.notes.append("proof/correspondence broken: running the thorough-tier search for a failing input")
        run_purefn(ctx, ["bump"], 400000, oracle_prefixes=("spec_bump", "spec_prepare"), profiles=("dev",))
    return finish(ctx, "Gen.Bumping.* (regenerated from src/bumping.rs) proved equal to the wide-integer spec for all valid inputs; "
                       "spec proved sound/tight/optimal; purefn validates the translator and compares the real functions with the spec")

def replay(ctx):
    fails = ctx.replay.get("failures", [])
    from engines.purefn import run_purefn
    print(json.dumps(fails[:5], indent=1))
    return run(ctx)
