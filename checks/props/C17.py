"""C17 — all allocation entry points are interchangeable.

Every entry point (Bump / BumpScope / & / && / dyn BumpAllocatorCore, WithoutDealloc / WithoutShrink,
try_ and panicking twins, typed fast paths vs generic layout path) is mapped to ONE model operation;
the model is proved hint-independent (Props/C17.lean, via C11), so agreement of every entry point with
the model (correspondence) is agreement between the entry points.  Known finding C17-a (trait-object
`reserve`) is modelled as it is and reported as KNOWN-FINDING."""
from engines.arena_prop import run_arena_property

def run(ctx):
    return run_arena_property(ctx, ["BumpProof.Props.C17", "BumpProof.Props.C17Family"],
        runs_quick=[("entry", 700, 100)],
        runs_thorough=[("entry", 8000, 200), ("general", 2000, 200)],
        fields=(0, 2, 3),
        note="hint-independence / wrapper-forwarding theorems on the model + lock-step-by-model correspondence over all entry points + typed-vs-dyn reserve oracle")
