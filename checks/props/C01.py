"""C01 — arena-model property (see DESIGN.md §7 C01); theorems in lean/BumpProof/Props/C01.lean"""
from engines.arena_prop import run_arena_property

def run(ctx):
    return run_arena_property(ctx, ["BumpProof.Props.C01", "BumpProof.Props.Hist@C01"],
        runs_quick=[('general', 120, 100), ('prepared', 40, 100), ('scopes', 40, 100)],
        runs_thorough=[('general', 6000, 200), ('prepared', 2000, 200), ('scopes', 2000, 200), ('faults', 2000, 200)],
        fields=(0, 2, 5), extra_oracles=(),
        note='live blocks valid/aligned/disjoint: step theorems on the arena model + address-exact correspondence + interval oracle on the implementation')
