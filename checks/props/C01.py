"""C01 — arena-model property (see DESIGN.md §7 C01); theorems in lean/BumpProof/Props/C01.lean"""
from engines.arena_prop import run_arena_property

def run(ctx):
    # "split-off parts of a block count as separate live blocks" and "a collection buffer": the buffers of the
    # parts produced by split_off / split_at on the real vector types must be disjoint and inside the original
    # buffer (oracles of the coll harness, `split` profile; tagged C16 there)
    try:
        from engines.coll import run_coll, finish_coll_obligation
        run_coll(ctx, 0, 10, "split", oracle_props=["C01", "C16"], label="split-buffers")
    except ImportError:
        pass
    return run_arena_property(ctx, ["BumpProof.Props.C01", "BumpProof.Props.Hist@C01", "BumpProof.Props.Targets@C01"],
        runs_quick=[('general', 500, 100), ('prepared', 150, 100), ('scopes', 150, 100)],
        runs_thorough=[('general', 6000, 200), ('prepared', 2000, 200), ('scopes', 2000, 200), ('faults', 2000, 200)],
        fields=(0, 2, 5), extra_oracles=(),
        note='live blocks valid/aligned/disjoint: step theorems on the arena model + address-exact correspondence + interval oracle on the implementation')
