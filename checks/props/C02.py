"""C02 — arena-model property (see DESIGN.md §7 C02); theorems in lean/BumpProof/Props/C02.lean"""
from engines.arena_prop import run_arena_property

def run(ctx):
    # a collection writes only into the buffer it owns: after every shrinking / converting / splitting operation on the real vector
    # types another block is allocated from the same arena, filled, and both the vector and that block are re-read later
    # (stale-pointer / clobbering oracles of the coll harness, tagged C08 there; a write outside the owned buffer is C02's subject)
    try:
        from engines.coll import run_coll, finish_coll_obligation
        run_coll(ctx, 1500 if ctx.quick() else 60000, 14, "std", oracle_props=["C02", "C08"], label="collections(poke and re-read)")
        finish_coll_obligation(ctx)
    except ImportError:
        pass
    return run_arena_property(ctx, ["BumpProof.Props.C02", "BumpProof.Props.Hist@C02", "BumpProof.Props.Targets@C02"],
        runs_quick=[('realloc', 500, 100), ('general', 300, 100)],
        runs_thorough=[('realloc', 6000, 200), ('general', 3000, 200), ('prepared', 2000, 200)],
        fields=(0, 6), extra_oracles=(),
        note='frame theorems for the memory operations of the model + checksum correspondence + shadow-copy oracle on the implementation')
