"""C02 — arena-model property (see DESIGN.md §7 C02); theorems in lean/BumpProof/Props/C02.lean"""
from engines.arena_prop import run_arena_property

def run(ctx):
    return run_arena_property(ctx, ["BumpProof.Props.C02", "BumpProof.Props.Hist@C02", "BumpProof.Props.Targets@C02"],
        runs_quick=[('realloc', 500, 100), ('general', 300, 100)],
        runs_thorough=[('realloc', 6000, 200), ('general', 3000, 200), ('prepared', 2000, 200)],
        fields=(0, 6), extra_oracles=(),
        note='frame theorems for the memory operations of the model + checksum correspondence + shadow-copy oracle on the implementation')
