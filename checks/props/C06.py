"""C06 — every value stored in a bump collection is dropped exactly once, also under panicking callbacks
(slot-level model proof + correspondence + exactly-once accounting on the real types)."""
from lib import *
from engines.coll import run_coll, finish_coll_obligation

MODULES = ["BumpProof.Props.C06"]

def run(ctx):
    q = ctx.quick()
    ctx.extra["rule"] = ("op sequences on BumpBox<[T]>, FixedBumpVec, BumpVec, MutBumpVec (sized id-carrying and zero-sized elements, "
                         "4 arena configurations); every callback-bearing op is re-run from the same state with a panic at each callback index "
                         "and with each dropped value panicking in Drop; distinct_nontrivial counts distinct op lines replayed on the model")
    proved = prove(ctx, MODULES)
    run_coll(ctx, 700 if q else 20000, 12, "drops", oracle_props=["C06"])
    if (not proved or ctx.disagreements) and not ctx.oracle_failures and q:
        ctx.notes.append("proof/correspondence broken: running the thorough-tier search for a failing input")
        run_coll(ctx, 3000, 14, "deep", oracle_props=["C06"], seed_offset=1000, label="deep-search")
    finish_coll_obligation(ctx)
    return finish(ctx, "slot-level model of the slice/vector algorithms proved drop-exactly-once for every vector, argument, oracle and "
                       "set of panicking drops; model tied to the real types by replaying every logged operation")

def replay(ctx):
    print(json.dumps(ctx.replay.get("failures", ctx.replay)[:5] if isinstance(ctx.replay.get("failures"), list) else ctx.replay, indent=1)[:4000])
    return run(ctx)
