"""C06 — every value stored in a bump collection is dropped exactly once, also under panicking callbacks
(slot-level model proof + correspondence + exactly-once accounting on the real types)."""
from lib import *
from engines.coll import run_coll, finish_coll_obligation
from engines.arena import run_arena, finish_arena_obligation

MODULES = ["BumpProof.Props.C06"]

def run(ctx):
    q = ctx.quick()
    ctx.extra["rule"] = ("op sequences on BumpBox<[T]>, FixedBumpVec, BumpVec, MutBumpVec (sized id-carrying and zero-sized elements, "
                         "4 arena configurations); every callback-bearing op is re-run from the same state with a panic at each callback index "
                         "and with each dropped value panicking in Drop; distinct_nontrivial counts distinct op lines replayed on the model")
    ctx.partial += [
        "modelled + proved (every vector, argument, oracle, set of panicking Drops): retain, dedup_by, dedup_by_key, truncate, clear, pop, pop_if, "
        "remove, swap_remove, push, insert, extend_from_slice_clone, extend_from_within_clone, resize, resize_with, append, drain(+keep_rest), "
        "extract_if, into_iter, map_in_place, BumpVec::splice (any size_hint of the source incl. a LYING one whose reservation panics with capacity "
        "overflow in the middle of Splice::drop, a panicking Drop inside Splice::drop), drop of the owner; "
        "MutBumpVecRev: push, pop, pop_if, clear, truncate, insert, remove, swap_remove, extend_from_slice_clone, resize, resize_with, append, "
        "into_iter, drop; partition (in Props/C16); history level: every finite sequence of the 18 single-vector operations "
        "(history_drops_once, history_never_drops_twice)",
        "zero-sized element types: counting model (Coll/Zst.lean) of Drain (as repaired) / IntoIter / truncate / split_off / merge / "
        "extend_from_within_clone (panicking clone at call k) proved exactly-once by counts; on the implementation EVERY zero-sized branch of "
        "the collection code is driven with a counting ZST whose Clone / closures / Drop panic at every call index (variant traces, all "
        "owners incl. MutBumpVecRev::extend_from_within_clone; reserve(usize::MAX) -> capacity overflow; into_boxed_slice): oracle by counts, "
        "not replayed by the driver",
        "BumpVec::map (generic_map: in-place path with its DropGuard for same / smaller layouts incl. the byte-overlap check of every write, "
        "from_iter_exact fallback for bigger / stricter-aligned / zero-sized layouts) and into_flattened: modelled + proved + replayed (profile split); "
        "zero-sized input/output of map run the fallback: covered by the id-level theorem abstractly and by counting oracles on the implementation",
        "splice / map / into_flattened are not part of the history-level Op type (they exist on BumpVec only / change the element type)",
        "BumpBox<T> single-value routes (into_inner, leak, into_ref/into_mut) are not modelled",
        "typed alloc_* family (alloc, alloc_with, alloc_slice_clone/fill/fill_with/move, alloc_iter(_exact), alloc_iter_mut(_rev)): exactly-once "
        "accounting with injected callback panics by direct oracle in the arena harness (their placement is modelled: Props/C17Family); "
        "the slice-initializer guard itself is not modelled at slot level",
    ]
    proved = prove(ctx, MODULES)
    run_coll(ctx, 3000 if q else 100000, 12, "drops", oracle_props=["C06"])
    # the exclusive-borrow collections filled across chunk boundaries (values read back after a move must be the ones pushed)
    run_coll(ctx, 150 if q else 5000, 10, "mutgrow", oracle_props=["C06"], seed_offset=5, label="mutgrow(MutBumpVec / MutBumpVecRev across chunks)")
    if q:
        # split / merge / partition / map / into_flattened / conversions, sized and zero-sized (by counts)
        run_coll(ctx, 1, 1, "split", oracle_props=["C06", "C16"], seed_offset=3, label="split(parts dropped in both orders)")
    if not q:
        run_coll(ctx, 6000, 14, "deep", oracle_props=["C06"], seed_offset=7, label="deep(every panic index, every dropped value as bomb)")
        run_coll(ctx, 2, 1, "split", oracle_props=["C06"], seed_offset=3, label="split(parts dropped in both orders)")
    if (not proved or ctx.disagreements) and not ctx.oracle_failures and q:
        ctx.notes.append("proof/correspondence broken: running the thorough-tier search for a failing input")
        run_coll(ctx, 3000, 14, "deep", oracle_props=["C06"], seed_offset=1000, label="deep-search")
    # the typed alloc_* family (alloc_with, alloc_slice_clone/fill/fill_with/move, alloc_iter*, alloc_iter_mut*) lives in the
    # arena harness: instrumented element types, a panic injected at a random callback, exactly-once accounting afterwards
    run_arena(ctx, 250 if q else 3000, 100, "general", fields=(0,), oracle_props=["C06"], seed_offset=40, label="family(general)")
    if not q:
        run_arena(ctx, 1500, 150, "scopes", fields=(0,), oracle_props=["C06"], seed_offset=41, label="family(scopes)")
    finish_arena_obligation(ctx)
    finish_coll_obligation(ctx)
    return finish(ctx, "slot-level model of the slice/vector algorithms proved drop-exactly-once for every vector, argument, oracle and "
                       "set of panicking drops; model tied to the real types by replaying every logged operation")

def replay(ctx):
    print(json.dumps(ctx.replay.get("failures", ctx.replay)[:5] if isinstance(ctx.replay.get("failures"), list) else ctx.replay, indent=1)[:4000])
    return run(ctx)
