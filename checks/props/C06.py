"""C06 — every value stored in a bump collection is dropped exactly once, also under panicking callbacks
(slot-level model proof + correspondence + exactly-once accounting on the real types)."""
from lib import *
from engines.coll import run_coll, finish_coll_obligation

MODULES = ["BumpProof.Props.C06"]

def run(ctx):
    q = ctx.quick()
    ctx.extra["rule"] = ("op sequences on BumpBox<[T]>, FixedBumpVec, BumpVec, MutBumpVec (sized id-carrying and zero-sized elements, "
                         "4 arena configurations); every callback-bearing op is re-run from the same state with a panic at each callback index "
                         "and with each dropped value panicking in Drop; distinct_nontrivial counts distinct op lines replayed on the model")
    ctx.partial += [
        "modelled + proved (every vector, argument, oracle, set of panicking Drops): retain, dedup_by, truncate, clear, pop, pop_if, remove, "
        "swap_remove, push, insert, extend_from_slice_clone, resize, resize_with, append, drain(+keep_rest), extract_if, into_iter, map_in_place, "
        "drop of the owner; MutBumpVecRev: push, pop, clear, truncate, insert, remove, swap_remove, extend_from_slice_clone, resize, append, into_iter, drop; "
        "partition (in Props/C16)",
        "NOT modelled (checked on the real types by the exactly-once accounting oracle only, incl. a panic at every callback index): splice, "
        "dedup_by_key, extend_from_within_clone, BumpVec::map, into_flattened, reserve/reserve_exact/shrink_to_fit; MutBumpVecRev::{pop_if, resize_with}",
        "zero-sized element types: counting oracle on the implementation only (the slot model identifies values by id)",
        "BumpBox<T> single-value routes (into_inner, leak, into_ref/into_mut) are not modelled",
    ]
    proved = prove(ctx, MODULES)
    run_coll(ctx, 700 if q else 100000, 12, "drops", oracle_props=["C06"])
    if not q:
        run_coll(ctx, 6000, 14, "deep", oracle_props=["C06"], seed_offset=7, label="deep(every panic index, every dropped value as bomb)")
        run_coll(ctx, 2, 1, "split", oracle_props=["C06"], seed_offset=3, label="split(parts dropped in both orders)")
    if (not proved or ctx.disagreements) and not ctx.oracle_failures and q:
        ctx.notes.append("proof/correspondence broken: running the thorough-tier search for a failing input")
        run_coll(ctx, 3000, 14, "deep", oracle_props=["C06"], seed_offset=1000, label="deep-search")
    finish_coll_obligation(ctx)
    return finish(ctx, "slot-level model of the slice/vector algorithms proved drop-exactly-once for every vector, argument, oracle and "
                       "set of panicking drops; model tied to the real types by replaying every logged operation")

def replay(ctx):
    print(json.dumps(ctx.replay.get("failures", ctx.replay)[:5] if isinstance(ctx.replay.get("failures"), list) else ctx.replay, indent=1)[:4000])
    return run(ctx)
