#!/bin/sh
# MANIFEST.setup_cmd — build the framework from files on disk only (offline).
cd "$(dirname "$0")/.."
export CARGO_NET_OFFLINE=true
python3 translator/rs2lean.py /repo lean/BumpProof/Gen || echo "setup: translator failed (checks will report it)"
[ -f translator/sigs2lean.py ] && (python3 translator/sigs2lean.py /repo lean/BumpProof/Gen || echo "setup: sigs2lean failed")
(cd lean && lake build driver-pure driver-arena driver-coll driver-strs driver-pool) || echo "setup: driver build failed (checks will report it)"
# property modules: each is rebuilt (no-op when cached) by its own check; warm the cache here
for f in lean/BumpProof/Props/C*.lean; do
  m=$(basename "$f" .lean)
  (cd lean && lake build "BumpProof.Props.$m" >/dev/null 2>&1) || echo "setup: BumpProof.Props.$m does not build yet"
done
[ -f harness/Cargo.lock ] || cp /repo/Cargo.lock harness/Cargo.lock
for f in harness/src/bin/*.rs; do
  b=$(basename "$f" .rs)
  (cd harness && RUSTFLAGS="--cfg bump_scope_verif" cargo build --offline --quiet --bin "$b") || echo "setup: harness bin $b does not build yet"
done
(cd harness && RUSTFLAGS="--cfg bump_scope_verif" cargo build --offline --quiet --release --bin purefn --bin findings) || echo "setup: release bins failed"
echo "setup done"
exit 0
