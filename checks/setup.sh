#!/bin/sh
# MANIFEST.setup_cmd — build the framework from files on disk only (offline).
set -e
cd "$(dirname "$0")/.."
export CARGO_NET_OFFLINE=true
python3 translator/rs2lean.py /repo lean/BumpProof/Gen
(cd lean && lake build BumpProof Driver driver)
[ -f harness/Cargo.lock ] || cp /repo/Cargo.lock harness/Cargo.lock
(cd harness && RUSTFLAGS="--cfg bump_scope_verif" cargo build --offline --quiet --bins && RUSTFLAGS="--cfg bump_scope_verif" cargo build --offline --quiet --release --bin purefn)
echo "setup ok"
