#!/usr/bin/env python3
"""Regenerates /verif/MANIFEST.json from the table below (single source of truth for the claims)."""
import json, os
V = os.path.dirname(os.path.dirname(os.path.abspath(__file__)))

NOTE_COMMON = ("Trusted: Lean 4.33 kernel; axioms ⊆ {propext, Classical.choice, Quot.sound} (audited per theorem by #print axioms on every run); "
               "lean/BumpProof/Rs.lean (Rust integer semantics, differential-tested vs rustc each run); ")
NOTE_TRANSLATED = NOTE_COMMON + ("translator/rs2lean.py (validated each run: generated definitions vs the real functions on ~10^5..10^7 inputs, dev and release profiles). "
                                 "Theorems are about the definitions regenerated from /repo's current source.")
NOTE_MODEL = NOTE_COMMON + ("the hand-written executable model (lean/BumpProof/Arena, Coll, Str, Pool) is tied to the code by the correspondence harness "
                            "(differential testing; address-exact, base-allocator responses are inputs) — its reach is bounded by the generators; "
                            "not verified: pointer provenance/aliasing, Cell, transmutes, core primitives, the borrow checker.")

CLAIMS = {
 "C11": dict(engine="purefn", technique="Lean 4 proof over a model regenerated from src/bumping.rs by a translator (Gen = wide-integer Spec; Spec sound/tight/optimal) + translator validation + impl-vs-spec differential oracle",
             text="Machine-checked proof (Lean 4, unbounded: all 64-bit addresses, all Layouts, all hint combinations) that the translated bump_up/bump_down/bump_prepare_* return exactly the wide-integer specification, never overflow or fail a debug assertion, and that the specification is sound, tight (fails iff no block exists), nearest and hint-independent. The tie to the source is the translator, re-run and validated on every check.",
             ref="§7 C11", note=NOTE_TRANSLATED),
 "C12": dict(engine="purefn", technique="Lean 4 proof over a model regenerated from src/chunk/size_config.rs (Gen = wide-integer Spec; fit, growth, no-wrap theorems) + translator validation + impl-vs-spec differential oracle",
             text="Machine-checked proof (all header layouts with align 2^4..2^16, both directions, all hints, all grants ≥ request, all block addresses) that chunk-size computations equal the wide-integer spec (overflow ⇒ None, never wraps/panics), sizes are multiples of 16 / the header alignment, growth ≥ 2·prev−16, and the layout that caused a chunk fits the fresh chunk (bump and prepare variants).",
             ref="§7 C12", note=NOTE_TRANSLATED),
}

PENDING = set()   # machinery exists, proofs still in progress: not claimed yet
ARENA_TECH = ("Lean 4 proofs over a hand-written executable arena model whose pointer arithmetic is the translated (generated) code; "
              "tie = address-exact correspondence harness (real crate vs model on generated traces, base-allocator responses as inputs) + direct oracle on the implementation")
def arena_claim(text, ref):
    return dict(engine="arena", technique=ARENA_TECH, text=text, ref=ref, note=NOTE_MODEL)

CLAIMS.update({
 "C03": arena_claim("Proved on the arena model for all states (step level): reset_to(checkpoint) restores current chunk, position and allocated() exactly, releases nothing and makes no base-allocator request; scope enter/exit are exactly this pair and kill exactly the blocks created inside; allocation only appends chunks; replaying a workload (also in a new scope) needs no new memory; a reset() round that acquires nothing stays stable. Partial: finiteness of the reset loop (growth argument) and scoped_aligned/alloc_try_with at stepCore level rely on the same resetTo lemmas. Tie: correspondence + restore/replay oracles on the real crate.", "§7 C03"),
 "C05": arena_claim("Proved on the arena model: drop releases every chunk exactly once (permutation of the owned list), reset releases all but the last (= largest) chunk, reset_to_start / reset_to / deallocate / fast-path allocation make no request, a new chunk's size lies between requested and granted with the request's alignment, failed/invalid requests own nothing, an unallocated arena stays silent. History level (Props/Hist.lean): along every finite history grants minus releases equal the chunks owned, every release matches an earlier grant (same pointer and alignment, size between requested and granted), only drop and reset release anything, and after drop nothing is outstanding (C05.history_ledger / history_releases_match / history_drop_releases_all). Tie: request-sequence correspondence + ledger/guard-byte/poison oracle of the test base allocators.", "§7 C05"),
 "C07": arena_claim("Proved on the arena model: whenever alloc/allocGeneric/inAnotherChunk/reserve/grow/shrink return an error value the state is intact (same live blocks, same bytes, same geometry, positions up to the current chunk unchanged) and at most one request was made; a refusing base allocator yields an error value, not a fault; size overflow yields capacity-overflow with no request; claimed arenas yield `claimed`. Partial: no-fault of grow/shrink's in-place arithmetic before the allocation attempt is a target. Tie: correspondence under injected failures (each index, subsets, fail-all) + all content/ledger/invariant oracles after failures.", "§7 C07"),
 "C13": arena_claim("Proved on the arena model: deallocating the newest block and requesting the same layout again returns the same address (up and down); growing the newest block upwards with room stays in place; deallocate/shrink of any other block is the identity; DEALLOCATES=false / WithoutDealloc make deallocate the identity, SHRINKS=false / WithoutShrink (fitting alignment) make shrink the identity. Partial: allocated() monotonicity for the alignment-raising shrink under opt-out is a target (covered by the oracle). Tie: correspondence + same-address / allocated-monotonicity oracles.", "§7 C13"),
 "C14": arena_claim("Proved on the arena model (using C11 on the dummy range): on a claimed handle every memory request returns the `claimed` error with the state unchanged, deallocate and fitting shrink are the identity, statistics are all zero, a second claim panics; claim followed by claim-end is the identity and everything done through the guard is kept. Tie: correspondence with interleaved operations on original and claimant + claimed-handle oracles.", "§7 C14"),
 "C15": arena_claim("Proved on the arena model: prepare (typed and untyped, fast and slow path, including failures) leaves every chunk up to the old current one identical (only later chunks are reset and `cur` may advance), filling only writes bytes, abandoning changes nothing, finalising moves the position to the far end of the contents with bytes ≤ Δ < bytes + minAlign and the block holds exactly the bytes written (all four direction combinations). Tie: correspondence + position-snapshot and advance oracles.", "§7 C15"),
 "C17": arena_claim("Proved on the arena model: truthful hints never change a result (typed fast paths = generic layout path, via C11), the WithoutDealloc/WithoutShrink wrappers forward allocate/grow unchanged, typed and trait-object reserve agree whenever the request fits the current chunk; the deviation C17-a (trait-object reserve switches chunks otherwise) is proved by witness and reported as KNOWN-FINDING. All real entry points (Bump/BumpScope/&/&&/dyn, try_ and panicking twins) are tied to the single model operation by the correspondence.", "§7 C17"),
})

CLAIMS.update({
 "C01": arena_claim("Proved on the arena model: a block carved by the fast path is aligned, inside the old free range of the current chunk, disjoint from everything on the allocated side and inside the content range (via C11); prepare/range results likewise; the ghost invariant LiveOK (every live block inside a chunk at or before the current one, on the allocated side, aligned, pairwise byte-disjoint) is preserved by allocate (fast path, next chunk, new chunk, refused), allocLayout, deallocate (all wrappers) and scope exit. History level (Props/Hist.lean): one invariant Inv (geometry, disjoint chunks, LiveOK, frame/checkpoint/prepared well-formedness) is proved preserved by ALL 34 operation constructors and lifted by induction: in every state reachable by any finite history with a correct base allocator every live block is inside owned content memory, aligned and pairwise byte-disjoint (C01.reachable_liveOK / reachable_live_blocks). Tie: address-exact correspondence + interval/containment/alignment oracle on every live block after every operation.", "§7 C01"),
 "C02": arena_claim("Proved on the arena model: write/copy/zero frame laws (only the addressed bytes change, memmove semantics, overlapping copy_nonoverlapping faults); allocation, deallocation, reserve, reset-family, reset_to and alignment changes never write a byte; grow, shrink, WithoutShrink::shrink, shrink_slice and both prepared commits carry over the first min(old,new) bytes and change no byte outside the new block, in every branch; zeroed allocation and the tail of zeroed grow read 0; allocate/deallocate/scope-exit keep the bytes of all live blocks. History level (Props/Hist.lean): across any step of any operation and along whole histories the bytes of every block that stays live and is not the write target are unchanged (C02.reachable_live_bytes / history_live_bytes). Tie: checksum correspondence + shadow-copy oracle (every live block re-read after every operation).", "§7 C02"),
 "C10": arena_claim("Proved on the arena model: statistics identities (allocated + remaining = capacity ≤ size, count = number of chunks, size = capacity + count·header, zeros when claimed/unallocated), position inside the content range and header inside the block; the geometry invariant GeomInv (16 | size, header fits, position in range and minAlign-aligned, …) is preserved by every model function (tryCur, slow path, chunk creation, deallocate, grow, shrink, reserve, reset-family, reset_to, align_to, prepared commits), each with a no-fault theorem — in particular the slow path's unreachable_unchecked is unreachable (via C12) and copy_nonoverlapping never overlaps; chunk sizes strictly increase. History level (Props/Hist.lean): GeomInv, the statistics identities, position alignment and strictly increasing chunk sizes hold in every reachable state of every finite history (C10.reachable_*); no operation faults from a reachable state except three claimed-handle cases left as `reachable_noFault_partial`. any_stats is tied by correspondence/oracle only. Tie: stats/any_stats/chunk-list correspondence + identity oracles after every operation.", "§7 C10"),
 "C18": arena_claim("Proved on the arena model: after align_to::<N> the position is a multiple of N (and of the old minimum alignment), inside the content range, moved by < N towards the free side; the align guard restores a multiple of the outer alignment; reset_to yields a multiple of the alignment in force and the exact checkpoint address when that is aligned (scoped_aligned exit restores the entry position exactly); the position is aligned after every allocation including chunk switches; with_settings panics iff (¬claimable ∧ claimed) ∨ (guaranteed-allocated ∧ unallocated). Tie: correspondence + position % N oracles at entry, after every operation and after exit, including unwinding.", "§7 C18"),
})
CLAIMS["C09"] = dict(engine="strs", technique="Lean 4 proofs over a hand-written byte-level string model (own UTF-8 decoder proved inverse to Lean core's encoder and equivalent to core's validity predicate); tie = correspondence harness against the real string types + std::string::String as direct oracle",
    text="Proved for all strings, indices, characters and predicate oracles: every modelled operation (push, push_str, insert, insert_str, remove, pop, truncate, clear, retain incl. panicking predicate, drain, replace_range, extend_from_within, split_off, into_cstr/alloc_cstr*) keeps the contents valid UTF-8 whatever the outcome (ok/err/panic) and never faults; refines the List Char specification; panics iff the index is out of range or not on a character boundary (is_char_boundary as implemented proved equivalent to 'prefix is a whole number of characters'); C-string results are the text up to the first NUL plus exactly one NUL; validity lifts to all finite histories. Partial: from_utf8/utf16(_lossy) and formatting delegate to core and are compared with std only; growth policy of growable strings not modelled.",
    ref="§7 C09", note=NOTE_MODEL)
CLAIMS["C19"] = dict(engine="pool", technique="Lean 4 proofs (induction over all finite step sequences) over a hand-written pool state machine; tie = linearised replay of real multi-threaded runs (ticket hook inside the pool mutex) + direct oracles",
    text="Proved for every finite sequence of get/put/forget/alloc/reset/drop steps by any number of guards: owned arenas are pairwise distinct and disjoint from the idle stack (exclusivity); an arena is created only on an empty idle stack, so created ≤ peak live guards and no arena is lost; arena contents change only through the current owner and only grow between resets (survive hand-over); reset/reset_to_start/drop hit every arena exactly once. Partial (stated in the evidence): atomicity of the Mutex critical sections and cross-thread visibility are runtime properties (trusted); schedules of real threads are sampled; the arena is abstracted to a tag list.",
    ref="§7 C19", note=NOTE_MODEL + " Hook: --cfg bump_scope_verif adds a ticket counter inside BumpPool::lock (add-only).")

COLL_TECH = ("Lean 4 proofs over a hand-written slot-level model of the slice/vector algorithms (same read/write cursors and drop guards as the Rust code, "
             "user callbacks as oracle lists quantified universally); tie = correspondence harness (real BumpBox<[T]>/FixedBumpVec/BumpVec/MutBumpVec(Rev) vs model) "
             "+ std::vec::Vec and an exactly-once drop ledger as direct oracles")
def coll_claim(text, ref):
    return dict(engine="coll", technique=COLL_TECH, text=text, ref=ref, note=NOTE_MODEL)
CLAIMS.update({
 "C06": coll_claim("Proved for every well-formed vector, every argument and every callback oracle (so a panic at every possible invocation, incl. panicking Drop as a 'bomb' set): retain, dedup_by, truncate, clear, pop, remove, swap_remove, push, insert, extend_from_slice_clone, resize, drain (any pull script, any way of finishing), into_iter, extract_if, map_in_place and append drop no value twice, read no moved-out slot, and — unless the panic came from a Drop — account for every value exactly once (remaining ⊎ dropped ⊎ escaped = initial ⊎ inserted) leaving a well-formed vector; dropping the owner drops each remaining value once. Partial: splice, partition, into_flattened, BumpVec::map and the MutBumpVecRev mirrors are covered by the harness oracles only; zero-sized elements by the counting oracle only. Tie: exact drop-order correspondence + exactly-once ledger on the real types with a panic injected at every callback index.", "§7 C06"),
 "C08": coll_claim("Proved refinement to the List specification (abs = the first len slots): retain, dedup_by, truncate, clear, pop, remove, swap_remove, push, insert, extend_from_slice_clone, resize, drain, into_iter, extract_if, map_in_place, append return the same values and leave the same elements in the same order as the corresponding List function, reject exactly the out-of-range arguments; reserve keeps len ≤ cap, honours its promise, is the identity while the promise suffices, fixed vectors never grow and fail when full. Partial: remaining operations (splice, into_flattened, map, shrink*, conversions, Rev mirrors) are compared with std::vec::Vec / VecDeque by the harness only. Tie: three-way differential (implementation vs model vs std) on all five vector types, sized and zero-sized elements, both directions.", "§7 C08"),
 "C16": coll_claim("Proved for every length, capacity and range: split_off's parts hold exactly the original elements in the documented order, their capacities add up and their buffers are disjoint and tile the original buffer; split_at / split_first / split_last partition likewise; merge of adjacent parts is the inverse of split_at, is defined iff the parts are adjacent in order, and rejects swapped parts; out-of-range arguments are rejected. Partial: partition, split_at_spare, into_flattened and string split_off (see C09) are oracle-only here; independence of the parts afterwards is C01/C02 on the arena model plus the fill-to-capacity sibling re-read oracle. Tie: exhaustive (len ≤ 9, cap ≤ 12, start ≤ end ≤ len) enumeration each run against the real types with address/capacity-exact correspondence.", "§7 C16"),
})

CLAIMS["C04"] = dict(engine="life", technique="Lean 4 proof (soundness of a region calculus whose typing rules are a signature table regenerated from the public API on every run; SigOK of the extracted table decided by the kernel) + rustc as correspondence oracle on a generated corpus of escape programs",
    text="Partial by nature: proved that for every signature table satisfying the decidable adequacy predicate SigOK, every program of the calculus (call chains of the extracted methods, nested closures, guards, drops, thread sends) accepted by the calculus' checker runs without use-after-end, dead-arena or cross-thread fault; SigOK holds (by decide) for the table extracted from the current source minus the recorded deviation C04-a, whose negation is proved by witness; the extracted settings const-assertions imply that no conversion weakens a guarantee. Tie: the table is re-extracted each run (translator/sigs2lean.py, fails hard on unknown shapes) and the checker's verdict is compared with rustc's on 421 (quick) / 6228 (thorough) generated programs, each rejected escape with an accepted twin. Trusted: rustc's borrow checker, variance and auto-trait inference; the calculus covers straight-line call chains only (mem::swap of scopes, interior mutability, trait objects, unwinding are outside).",
    ref="§7 C04", note=NOTE_COMMON + "rustc's borrow checker/variance/auto-trait inference; the effect class of each method (what ends an epoch) is assigned by name in the extractor; coverage of the calculus as stated.")

NOT_YET = "check under construction in this round; will be claimed as soon as its theorem + correspondence + oracle run end-to-end (DESIGN.md §13)"

def main():
    checks = []
    for pid in sorted(CLAIMS):
        if pid in PENDING:
            continue
        c = CLAIMS[pid]
        checks.append({
            "property_id": pid,
            "quick_cmd": f"python3 checks/check.py {pid} --tier quick",
            "thorough_cmd": f"python3 checks/check.py {pid} --tier thorough",
            "evidence_file": f"/verif/evidence/{pid}.json",
            "replay_cmd_template": f"python3 checks/check.py {pid} --replay {{path}}",
            "engine": c["engine"],
            "level_claimed": {"category": "proof", "text": c["text"], "design_ref": c["ref"]},
            "level_note": c["note"],
            "technique": c["technique"],
        })
    na = [{"property_id": f"C{i:02d}", "reason": NOT_YET} for i in range(1, 20) if f"C{i:02d}" not in CLAIMS or f"C{i:02d}" in PENDING]
    m = {
        "version": 1,
        "setup_cmd": "sh checks/setup.sh",
        "hooks": {"guard": "bump_scope_verif",
                  "enable": "RUSTFLAGS='--cfg bump_scope_verif' (set by checks/lib.py when it builds /verif/harness, which depends on /repo by path)",
                  "baseline_off_cmd": "cd /repo && cargo test --workspace --no-fail-fast --offline",
                  "source_commits": ["88ec1f5"], "add_only": True},
        "engines": [
            {"name": "arena", "path": "harness/src/bin/arena.rs (+ src/arena_inc, src/scope_ops.rs, src/base.rs) + lean/BumpProof/Arena + lean/Driver/ArenaD.lean + checks/engines/arena.py",
             "serves_properties": ["C01", "C02", "C03", "C05", "C07", "C10", "C13", "C14", "C15", "C17", "C18"],
             "kind_free_text": "hand-written executable Lean model + Lean theorems + correspondence harness against the real crate + direct oracles"},
            {"name": "strs", "path": "harness/src/bin/strs.rs + lean/BumpProof/Str + lean/Driver/StrsD.lean + checks/engines/strs.py", "serves_properties": ["C09"],
             "kind_free_text": "hand-written byte-level string model + theorems + correspondence harness + std::String oracle"},
            {"name": "pool", "path": "harness/src/bin/pool.rs + lean/BumpProof/Pool + lean/Driver/PoolD.lean + checks/engines/pool.py", "serves_properties": ["C19"],
             "kind_free_text": "pool state machine + theorems + ticket-linearised replay of real threads + oracles"},
            {"name": "coll", "path": "harness/src/bin/coll.rs (+ src/coll_inc) + lean/BumpProof/Coll + lean/Driver/CollD.lean + checks/engines/coll.py", "serves_properties": ["C06", "C08", "C16"],
             "kind_free_text": "slot-level model of the vector algorithms with callback oracles + theorems + correspondence harness + std::Vec / drop-ledger oracles"},
            {"name": "life", "path": "translator/sigs2lean.py + lean/BumpProof/Life + lifecases/ + checks/engines/life.py", "serves_properties": ["C04"],
             "kind_free_text": "signature-table extractor + region calculus with soundness proof + rustc verdict correspondence"},
            {"name": "purefn", "path": "harness/src/bin/purefn.rs + lean/Driver/Pure.lean + translator/rs2lean.py", "serves_properties": ["C11", "C12"],
             "kind_free_text": "translator (Rust subset → Lean) + translation validation + differential oracle against wide-integer specs"},
        ],
        "checks": checks,
        "notes": "All checks: python3 checks/check.py <id> --tier quick|thorough. Theorems live in lean/BumpProof/Props/<id>.lean; see DESIGN.md.",
        "not_applicable": na,
    }
    json.dump(m, open(os.path.join(V, "MANIFEST.json"), "w"), indent=1, ensure_ascii=False)

if __name__ == "__main__":
    main()
