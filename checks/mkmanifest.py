#!/usr/bin/env python3
"""Regenerates /verif/MANIFEST.json from the table below (single source of truth for the claims)."""
import json, os
V = os.path.dirname(os.path.dirname(os.path.abspath(__file__)))

NOTE_COMMON = ("Trusted: Lean 4.33 kernel; axioms ⊆ {propext, Classical.choice, Quot.sound} (audited per theorem by #print axioms on every run); "
               "lean/BumpProof/Rs.lean (Rust integer semantics, differential-tested vs rustc each run); ")
NOTE_TRANSLATED = NOTE_COMMON + ("translator/rs2lean.py (validated each run: generated definitions vs the real functions on ~10^5..10^7 inputs, dev and release profiles). "
                                 "Theorems are about the definitions regenerated from /repo's current source.")
NOTE_MODEL = NOTE_COMMON + ("the hand-written executable model (lean/BumpProof/Arena, Coll, Str, Pool) is tied to the code by the correspondence harness "
                            "(differential testing; address-exact, base-allocator responses are inputs) — its reach is bounded by the generators; "
                            "not verified: pointer provenance/aliasing, Cell, transmutes, core primitives, the borrow checker.")

CLAIMS = {
 "C11": dict(engine="purefn", technique="Lean 4 proof over a model regenerated from src/bumping.rs by a translator (Gen = wide-integer Spec; Spec sound/tight/optimal) + translator validation + impl-vs-spec differential oracle",
             text="Machine-checked proof (Lean 4, unbounded: all 64-bit addresses, all Layouts, all hint combinations) that the translated bump_up/bump_down/bump_prepare_* return exactly the wide-integer specification, never overflow or fail a debug assertion, and that the specification is sound, tight (fails iff no block exists), nearest and hint-independent. The tie to the source is the translator, re-run and validated on every check.",
             ref="§7 C11", note=NOTE_TRANSLATED),
 "C12": dict(engine="purefn", technique="Lean 4 proof over a model regenerated from src/chunk/size_config.rs (Gen = wide-integer Spec; fit, growth, no-wrap theorems) + translator validation + impl-vs-spec differential oracle",
             text="Machine-checked proof (all header layouts with align 2^4..2^16, both directions, all hints, all grants ≥ request, all block addresses) that chunk-size computations equal the wide-integer spec (overflow ⇒ None, never wraps/panics), sizes are multiples of 16 / the header alignment, growth ≥ 2·prev−16, and the layout that caused a chunk fits the fresh chunk (bump and prepare variants).",
             ref="§7 C12", note=NOTE_TRANSLATED),
}

PENDING = set()   # machinery exists, proofs still in progress: not claimed yet
NOT_YET = "check under construction in this round; will be claimed as soon as its theorem + correspondence + oracle run end-to-end (DESIGN.md §13)"

def main():
    checks = []
    for pid in sorted(CLAIMS):
        if pid in PENDING:
            continue
        c = CLAIMS[pid]
        checks.append({
            "property_id": pid,
            "quick_cmd": f"python3 checks/check.py {pid} --tier quick",
            "thorough_cmd": f"python3 checks/check.py {pid} --tier thorough",
            "evidence_file": f"/verif/evidence/{pid}.json",
            "replay_cmd_template": f"python3 checks/check.py {pid} --replay {{path}}",
            "engine": c["engine"],
            "level_claimed": {"category": "proof", "text": c["text"], "design_ref": c["ref"]},
            "level_note": c["note"],
            "technique": c["technique"],
        })
    na = [{"property_id": f"C{i:02d}", "reason": NOT_YET} for i in range(1, 20) if f"C{i:02d}" not in CLAIMS or f"C{i:02d}" in PENDING]
    m = {
        "version": 1,
        "setup_cmd": "sh checks/setup.sh",
        "hooks": {"guard": "bump_scope_verif",
                  "enable": "RUSTFLAGS='--cfg bump_scope_verif' (set by checks/lib.py when it builds /verif/harness, which depends on /repo by path)",
                  "baseline_off_cmd": "cd /repo && cargo test --workspace --no-fail-fast --offline",
                  "source_commits": [], "add_only": True},
        "engines": [
            {"name": "purefn", "path": "harness/src/bin/purefn.rs + lean/Driver/Pure.lean + translator/rs2lean.py", "serves_properties": ["C11", "C12"],
             "kind_free_text": "translator (Rust subset → Lean) + translation validation + differential oracle against wide-integer specs"},
        ],
        "checks": checks,
        "notes": "All checks: python3 checks/check.py <id> --tier quick|thorough. Theorems live in lean/BumpProof/Props/<id>.lean; see DESIGN.md.",
        "not_applicable": na,
    }
    json.dump(m, open(os.path.join(V, "MANIFEST.json"), "w"), indent=1, ensure_ascii=False)

if __name__ == "__main__":
    main()
