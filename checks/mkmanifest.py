#!/usr/bin/env python3
"""Regenerates /verif/MANIFEST.json from the table below (single source of truth for the claims)."""
import json, os
V = os.path.dirname(os.path.dirname(os.path.abspath(__file__)))

NOTE_COMMON = ("Trusted: Lean 4.33 kernel; axioms ⊆ {propext, Classical.choice, Quot.sound} (audited per theorem by #print axioms on every run); "
               "lean/BumpProof/Rs.lean (Rust integer semantics, differential-tested vs rustc each run); ")
NOTE_TRANSLATED = NOTE_COMMON + ("translator/rs2lean.py (validated each run: generated definitions vs the real functions on ~10^5..10^7 inputs, dev and release profiles). "
                                 "Theorems are about the definitions regenerated from /repo's current source.")
NOTE_MODEL = NOTE_COMMON + ("the hand-written executable model (lean/BumpProof/Arena, Coll, Str, Pool) is tied to the code by the correspondence harness "
                            "(differential testing; address-exact, base-allocator responses are inputs) — its reach is bounded by the generators; "
                            "not verified: pointer provenance/aliasing, Cell, transmutes, core primitives, the borrow checker.")

CLAIMS = {
 "C11": dict(engine="purefn", technique="Lean 4 proof over a model regenerated from src/bumping.rs by a translator (Gen = wide-integer Spec; Spec sound/tight/optimal) + translator validation + impl-vs-spec differential oracle",
             text="Machine-checked proof (Lean 4, unbounded: all 64-bit addresses, all Layouts, all hint combinations) that the translated bump_up/bump_down/bump_prepare_* return exactly the wide-integer specification, never overflow or fail a debug assertion, and that the specification is sound, tight (fails iff no block exists), nearest and hint-independent. The tie to the source is the translator, re-run and validated on every check.",
             ref="§7 C11", note=NOTE_TRANSLATED),
 "C12": dict(engine="purefn", technique="Lean 4 proof over a model regenerated from src/chunk/size_config.rs (Gen = wide-integer Spec; fit, growth, no-wrap theorems) + translator validation + impl-vs-spec differential oracle",
             text="Machine-checked proof (all header layouts with align 2^4..2^16, both directions, all hints, all grants ≥ request, all block addresses) that chunk-size computations equal the wide-integer spec (overflow ⇒ None, never wraps/panics), sizes are multiples of 16 / the header alignment, growth ≥ 2·prev−16, and the layout that caused a chunk fits the fresh chunk (bump and prepare variants).",
             ref="§7 C12", note=NOTE_TRANSLATED),
}

PENDING = set()   # machinery exists, proofs still in progress: not claimed yet
ARENA_TECH = ("Lean 4 proofs over a hand-written executable arena model whose pointer arithmetic is the translated (generated) code; "
              "tie = address-exact correspondence harness (real crate vs model on generated traces, base-allocator responses as inputs) + direct oracle on the implementation")
def arena_claim(text, ref):
    return dict(engine="arena", technique=ARENA_TECH, text=text, ref=ref, note=NOTE_MODEL)

CLAIMS.update({
 "C03": arena_claim("Proved on the arena model for all states (step level): reset_to(checkpoint) restores current chunk, position and allocated() exactly, releases nothing and makes no base-allocator request; scope enter/exit are exactly this pair and kill exactly the blocks created inside; allocation only appends chunks; replaying a workload (also in a new scope) needs no new memory; a reset() round that acquires nothing stays stable. Partial: finiteness of the reset loop (growth argument) and scoped_aligned/alloc_try_with at stepCore level rely on the same resetTo lemmas. Tie: correspondence + restore/replay oracles on the real crate.", "§7 C03"),
 "C05": arena_claim("Proved on the arena model: drop releases every chunk exactly once (permutation of the owned list), reset releases all but the last (= largest) chunk, reset_to_start / reset_to / deallocate / fast-path allocation make no request, a new chunk's size lies between requested and granted with the request's alignment, failed/invalid requests own nothing, an unallocated arena stays silent. Partial: the exactly-once ledger as one induction over all operations is stated as target. Tie: request-sequence correspondence + ledger/guard-byte/poison oracle of the test base allocators.", "§7 C05"),
 "C07": arena_claim("Proved on the arena model: whenever alloc/allocGeneric/inAnotherChunk/reserve/grow/shrink return an error value the state is intact (same live blocks, same bytes, same geometry, positions up to the current chunk unchanged) and at most one request was made; a refusing base allocator yields an error value, not a fault; size overflow yields capacity-overflow with no request; claimed arenas yield `claimed`. Partial: no-fault of grow/shrink's in-place arithmetic before the allocation attempt is a target. Tie: correspondence under injected failures (each index, subsets, fail-all) + all content/ledger/invariant oracles after failures.", "§7 C07"),
 "C13": arena_claim("Proved on the arena model: deallocating the newest block and requesting the same layout again returns the same address (up and down); growing the newest block upwards with room stays in place; deallocate/shrink of any other block is the identity; DEALLOCATES=false / WithoutDealloc make deallocate the identity, SHRINKS=false / WithoutShrink (fitting alignment) make shrink the identity. Partial: allocated() monotonicity for the alignment-raising shrink under opt-out is a target (covered by the oracle). Tie: correspondence + same-address / allocated-monotonicity oracles.", "§7 C13"),
 "C14": arena_claim("Proved on the arena model (using C11 on the dummy range): on a claimed handle every memory request returns the `claimed` error with the state unchanged, deallocate and fitting shrink are the identity, statistics are all zero, a second claim panics; claim followed by claim-end is the identity and everything done through the guard is kept. Tie: correspondence with interleaved operations on original and claimant + claimed-handle oracles.", "§7 C14"),
 "C15": arena_claim("Proved on the arena model: prepare (typed and untyped, fast and slow path, including failures) leaves every chunk up to the old current one identical (only later chunks are reset and `cur` may advance), filling only writes bytes, abandoning changes nothing, finalising moves the position to the far end of the contents with bytes ≤ Δ < bytes + minAlign and the block holds exactly the bytes written (all four direction combinations). Tie: correspondence + position-snapshot and advance oracles.", "§7 C15"),
 "C17": arena_claim("Proved on the arena model: truthful hints never change a result (typed fast paths = generic layout path, via C11), the WithoutDealloc/WithoutShrink wrappers forward allocate/grow unchanged, typed and trait-object reserve agree whenever the request fits the current chunk; the deviation C17-a (trait-object reserve switches chunks otherwise) is proved by witness and reported as KNOWN-FINDING. All real entry points (Bump/BumpScope/&/&&/dyn, try_ and panicking twins) are tied to the single model operation by the correspondence.", "§7 C17"),
})

NOT_YET = "check under construction in this round; will be claimed as soon as its theorem + correspondence + oracle run end-to-end (DESIGN.md §13)"

def main():
    checks = []
    for pid in sorted(CLAIMS):
        if pid in PENDING:
            continue
        c = CLAIMS[pid]
        checks.append({
            "property_id": pid,
            "quick_cmd": f"python3 checks/check.py {pid} --tier quick",
            "thorough_cmd": f"python3 checks/check.py {pid} --tier thorough",
            "evidence_file": f"/verif/evidence/{pid}.json",
            "replay_cmd_template": f"python3 checks/check.py {pid} --replay {{path}}",
            "engine": c["engine"],
            "level_claimed": {"category": "proof", "text": c["text"], "design_ref": c["ref"]},
            "level_note": c["note"],
            "technique": c["technique"],
        })
    na = [{"property_id": f"C{i:02d}", "reason": NOT_YET} for i in range(1, 20) if f"C{i:02d}" not in CLAIMS or f"C{i:02d}" in PENDING]
    m = {
        "version": 1,
        "setup_cmd": "sh checks/setup.sh",
        "hooks": {"guard": "bump_scope_verif",
                  "enable": "RUSTFLAGS='--cfg bump_scope_verif' (set by checks/lib.py when it builds /verif/harness, which depends on /repo by path)",
                  "baseline_off_cmd": "cd /repo && cargo test --workspace --no-fail-fast --offline",
                  "source_commits": [], "add_only": True},
        "engines": [
            {"name": "arena", "path": "harness/src/bin/arena.rs (+ src/arena_inc, src/scope_ops.rs, src/base.rs) + lean/BumpProof/Arena + lean/Driver/ArenaD.lean + checks/engines/arena.py",
             "serves_properties": ["C01", "C02", "C03", "C05", "C07", "C10", "C13", "C14", "C15", "C17", "C18"],
             "kind_free_text": "hand-written executable Lean model + Lean theorems + correspondence harness against the real crate + direct oracles"},
            {"name": "purefn", "path": "harness/src/bin/purefn.rs + lean/Driver/Pure.lean + translator/rs2lean.py", "serves_properties": ["C11", "C12"],
             "kind_free_text": "translator (Rust subset → Lean) + translation validation + differential oracle against wide-integer specs"},
        ],
        "checks": checks,
        "notes": "All checks: python3 checks/check.py <id> --tier quick|thorough. Theorems live in lean/BumpProof/Props/<id>.lean; see DESIGN.md.",
        "not_applicable": na,
    }
    json.dump(m, open(os.path.join(V, "MANIFEST.json"), "w"), indent=1, ensure_ascii=False)

if __name__ == "__main__":
    main()
