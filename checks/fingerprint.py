#!/usr/bin/env python3
"""fingerprint.py [--update] — fingerprints (comments/blank space stripped) of /repo/src/**/*.rs.
`--update` records them in checks/fingerprints.json together with the /repo commit: done whenever the machinery has been
brought up to date with a /repo commit (a `fix:` or hook commit).  Without arguments: lists the files that differ."""
import json, subprocess, sys, os
sys.path.insert(0, os.path.dirname(os.path.abspath(__file__)))
import lib
if "--update" in sys.argv:
    head = subprocess.run(["git", "-C", lib.REPO, "rev-parse", "--short", "HEAD"], capture_output=True, text=True).stdout.strip()
    json.dump({"repo_commit": head, "files": lib.source_fingerprints()}, open(lib.FINGERPRINTS, "w"), indent=0, sort_keys=True)
    print("recorded", len(lib.source_fingerprints()), "files at", head)
else:
    print("\n".join(lib.changed_sources()) or "no source file differs from the recorded fingerprints")
