"""
checks/lib.py — shared machinery of the property checks (see DESIGN.md §2, §8, §9).

A check run for property Cxx:
  1. regenerate Gen/*.lean from /repo's working tree          (translator = tie no. 1)
  2. lake build the property module(s) + driver               (kernel re-checks the theorems)
  3. audit: forbidden tokens, `#print axioms` per theorem
  4. rebuild the harness against /repo's working tree, run the correspondence (model vs
     implementation) and the direct oracle (implementation vs property) for the engines used
  5. decide, write evidence/Cxx.json, print VIOLATION / KNOWN-FINDING lines
"""
import json, os, re, subprocess, sys, time, hashlib, shutil

VERIF = os.path.dirname(os.path.dirname(os.path.abspath(__file__)))
REPO = os.environ.get("VERIF_REPO", "/repo")
LEAN = os.path.join(VERIF, "lean")
HARNESS = os.path.join(VERIF, "harness")
EVID = os.path.join(VERIF, "evidence")
REPLAYS = os.path.join(VERIF, "replays")
WORK = os.path.join(VERIF, "work")
GUARD = "bump_scope_verif"
ALLOWED_AXIOMS = {"propext", "Classical.choice", "Quot.sound"}
FORBIDDEN = re.compile(r"\b(sorry|admit|native_decide|bv_decide|implemented_by|unsafe)\b|^\s*axiom\s|maxHeartbeats\s+0\b", re.M)

TRUSTED_BASE = [
    "Lean 4.33 kernel (thorough tier: re-checked by leanchecker); axioms allowed: propext, Classical.choice, Quot.sound",
    "lean/BumpProof/Rs.lean: meaning of Rust usize/isize primitives on a 64-bit target (differential-tested against rustc on every run, engine purefn section rs)",
    "translator/rs2lean.py for the translated files (validated on every run: generated definitions vs the real functions, dev and release profiles)",
    "hand-written models are tied to the code by the correspondence harness only (differential testing; reach bounded by the generators)",
    "not verified: pointer provenance/aliasing, Cell, transmutes, core's ptr::copy*/rotate/str primitives, rustc's borrow checker and codegen",
]


def env_seed():
    try:
        return int(os.environ.get("VERIF_SEED", "1"))
    except ValueError:
        return 1


def run(cmd, cwd=None, env=None, timeout=None, input_=None):
    e = os.environ.copy()
    e["CARGO_NET_OFFLINE"] = "true"
    if env:
        e.update(env)
    t0 = time.time()
    p = subprocess.run(cmd, cwd=cwd, env=e, input=input_, capture_output=True, text=True, timeout=timeout)
    return p.returncode, p.stdout, p.stderr, time.time() - t0


class Ctx:
    def __init__(self, prop, tier, seed):
        self.prop, self.tier, self.seed = prop, tier, seed
        self.t0 = time.time()
        self.obligations = []        # list of dict(name, kind, ok, detail)
        self.corr = {}               # engine -> stats
        self.disagreements = []      # model vs implementation (correspondence)
        self.oracle_failures = []    # implementation vs property (direct oracle)
        self.known_hits = []
        self.notes = []
        self.samples = []
        self.evaluations = 0
        self.distinct = set()
        self.partial = []
        self.extra = {}
        os.makedirs(EVID, exist_ok=True)
        os.makedirs(REPLAYS, exist_ok=True)
        os.makedirs(WORK, exist_ok=True)

    def quick(self):
        return self.tier == "quick"

    def scale(self):
        """change-directed deepening: when a source file of the crate differs from the fingerprints recorded for the tree the
        machinery was built against (checks/fingerprints.json), the quick tier explores several times more inputs.
        This only decides HOW MUCH is explored — a changed file is never by itself a reason to report anything."""
        if not self.quick():
            return 1
        if not hasattr(self, "_scale"):
            changed = changed_sources() or (['(forced by VERIF_DEEPEN_FORCE)'] if os.environ.get('VERIF_DEEPEN_FORCE') else [])
            self._scale = DEEPEN if changed else 1
            if changed:
                self.extra["changed_sources"] = changed[:40]
                self.notes.append(f"{len(changed)} source file(s) differ from the recorded fingerprints ({', '.join(changed[:6])}…): "
                                  f"quick tier explores {DEEPEN}x the usual volume")
        return self._scale

    def add_ob(self, name, kind, ok, detail=""):
        self.obligations.append({"name": name, "kind": kind, "ok": bool(ok), "detail": detail[-2000:]})

    def failed_obs(self):
        return [o for o in self.obligations if not o["ok"]]


# ---------------------------------------------------------------------------------------------
# fingerprints of the crate's sources (comments and blank space stripped)

DEEPEN = 6
FINGERPRINTS = os.path.join(VERIF, "checks", "fingerprints.json")

def _strip_rust(text):
    text = re.sub(r"/\*.*?\*/", " ", text, flags=re.S)
    out = []
    for line in text.splitlines():
        line = re.sub(r"//.*$", "", line) if '"' not in line else re.sub(r"^\s*//.*$", "", line)
        line = "".join(line.split())
        if line:
            out.append(line)
    return "\n".join(out)

def source_fingerprints():
    import hashlib
    fp = {}
    src = os.path.join(REPO, "src")
    for root, _, files in os.walk(src):
        for f in files:
            if f.endswith(".rs"):
                path = os.path.join(root, f)
                rel = os.path.relpath(path, REPO)
                try:
                    fp[rel] = hashlib.sha256(_strip_rust(open(path, encoding="utf-8", errors="replace").read()).encode()).hexdigest()[:16]
                except OSError:
                    pass
    return fp

def changed_sources():
    try:
        base = json.load(open(FINGERPRINTS))["files"]
    except (OSError, ValueError, KeyError):
        return []
    cur = source_fingerprints()
    return sorted(k for k in set(base) | set(cur) if base.get(k) != cur.get(k))


# ---------------------------------------------------------------------------------------------
# step 1: translator

def regen(ctx, needed=("Bumping.lean", "SizeConfig.lean", "LibArith.lean")):
    rc, out, err, dt = run([sys.executable, os.path.join(VERIF, "translator", "rs2lean.py"), REPO,
                            os.path.join(LEAN, "BumpProof", "Gen")])
    ok = rc == 0
    for n in needed:
        ctx.add_ob(f"translate:{n}", "translation", ok, out + err)
    ctx.extra["translator"] = (out + err).strip().splitlines()
    return ok


# ---------------------------------------------------------------------------------------------
# step 2: lake build

def lake_build(ctx, targets, record=True):
    rc, out, err, dt = run(["lake", "build"] + list(targets), cwd=LEAN, timeout=3600)
    log = out + err
    ctx.extra.setdefault("lake", []).append({"targets": list(targets), "rc": rc, "wall_s": round(dt, 1)})
    if rc != 0:
        with open(os.path.join(WORK, f"lake-{ctx.prop}.log"), "w") as f:
            f.write(log)
    return rc == 0, log


def theorems_of(module):
    """(namespace-qualified) names of the `theorem`s stated in a Props module"""
    path = os.path.join(LEAN, *module.split(".")) + ".lean"
    src = open(path).read()
    src_nc = strip_comments(src)
    ns = []
    names = []
    for line in src_nc.splitlines():
        m = re.match(r"\s*namespace\s+(\S+)", line)
        if m:
            ns.append(m.group(1)); continue
        m = re.match(r"\s*end\s+(\S+)", line)
        if m and ns and ns[-1] == m.group(1):
            ns.pop(); continue
        m = re.match(r"\s*(?:private\s+|protected\s+)?theorem\s+(\S+)", line)
        if m:
            names.append(".".join(ns + [m.group(1)]))
    return names


def strip_comments(src):
    # block comments (nested) and line comments
    out = []; i = 0; depth = 0
    while i < len(src):
        if src.startswith("/-", i):
            depth += 1; i += 2; continue
        if src.startswith("-/", i) and depth:
            depth -= 1; i += 2; continue
        if depth:
            if src[i] == "\n": out.append("\n")
            i += 1; continue
        if src.startswith("--", i):
            j = src.find("\n", i)
            i = len(src) if j < 0 else j
            continue
        out.append(src[i]); i += 1
    return "".join(out)


def lean_files_under(*rel):
    res = []
    for r in rel:
        p = os.path.join(LEAN, r)
        if os.path.isfile(p):
            res.append(p)
        else:
            for d, _, fs in os.walk(p):
                for f in fs:
                    if f.endswith(".lean"):
                        res.append(os.path.join(d, f))
    return sorted(res)


def import_closure(modules):
    """source files of the project-local modules the given modules (transitively) import"""
    seen, todo, files = set(), list(modules), []
    while todo:
        m = todo.pop()
        if m in seen:
            continue
        seen.add(m)
        path = os.path.join(LEAN, *m.split(".")) + ".lean"
        if not os.path.exists(path):
            continue
        files.append(path)
        for im in re.findall(r"^\s*import\s+(\S+)", strip_comments(open(path).read()), re.M):
            if im.startswith("BumpProof") or im.startswith("Driver"):
                todo.append(im)
    return files


def audit_tokens(ctx, files):
    bad = []
    for f in files:
        src = strip_comments(open(f).read())
        for m in FORBIDDEN.finditer(src):
            line = src.count("\n", 0, m.start()) + 1
            bad.append(f"{os.path.relpath(f, LEAN)}:{line}: {m.group(0).strip()}")
    ctx.add_ob("audit:forbidden-tokens", "audit", not bad, "\n".join(bad))
    return not bad


def audit_axioms(ctx, modules, theorems):
    """#print axioms for every property theorem; each theorem is one obligation"""
    if not theorems:
        return True
    path = os.path.join(WORK, f"Audit_{ctx.prop}.lean")
    with open(path, "w") as f:
        for m in modules:
            f.write(f"import {m}\n")
        for t in theorems:
            f.write(f"#print axioms {t}\n")
    rc, out, err, dt = run(["lake", "env", "lean", path], cwd=LEAN, timeout=1800)
    text = out + err
    # parse: "'C11.bump_up_eq' depends on axioms: [propext, ...]" or "does not depend on any axioms"
    res = {}
    for m in re.finditer(r"'([^']+)' depends on axioms: \[([^\]]*)\]", text, re.S):
        res[m.group(1)] = {a.strip() for a in m.group(2).replace("\n", " ").split(",") if a.strip()}
    for m in re.finditer(r"'([^']+)' does not depend on any axioms", text):
        res[m.group(1)] = set()
    allok = True
    for t in theorems:
        if t not in res:
            ctx.add_ob(f"theorem:{t}", "theorem", False, "not found by #print axioms:\n" + text[-1500:]); allok = False
            continue
        extra = res[t] - ALLOWED_AXIOMS
        ok = not extra
        allok &= ok
        ctx.add_ob(f"theorem:{t}", "theorem", ok, "axioms: " + ", ".join(sorted(res[t])) if res[t] else "no axioms")
    ctx.extra["axioms"] = {t: sorted(res.get(t, ["?"])) for t in theorems[:400]}
    return allok


def leanchecker(ctx, modules):
    ok_all = True
    for m in modules:
        rc, out, err, dt = run(["lake", "env", "leanchecker", m], cwd=LEAN, timeout=3600)
        ok = rc == 0
        ok_all &= ok
        ctx.add_ob(f"leanchecker:{m}", "recheck", ok, out + err)
    return ok_all


def prove(ctx, prop_modules, extra_token_dirs=()):
    """steps 2+3 for a list of Props modules; returns True iff every theorem checks"""
    theorems = []
    ok_all = True
    pending_targets, pending_partials, all_ths = [], [], set()
    specs = list(prop_modules)
    prop_modules = [m.split("@")[0] for m in specs]
    prefix_of = {m.split("@")[0]: (m.split("@")[1] + "." if "@" in m else None) for m in specs}
    for m in prop_modules:
        try:
            ths = theorems_of(m)
            if prefix_of.get(m):
                # a module shared by several properties: only the theorems in this property's namespace
                ths = [t for t in ths if t.startswith(prefix_of[m])]
        except FileNotFoundError:
            ctx.add_ob(f"module:{m}", "theorem", False, "module file missing"); ok_all = False; continue
        # statements kept as `def …_target : Prop` are the parts of the property NOT yet proved — unless a theorem
        # `<stem>_holds : <stem>_target` exists, or the target is refuted (`<stem>_target_fails`) and replaced by a proved
        # `<stem>_corrected` (both looked up among the theorems of ALL modules of this property, see below)
        try:
            src_nc = strip_comments(open(os.path.join(LEAN, *m.split(".")) + ".lean").read())
            stack = []
            for line in src_nc.splitlines():
                mm = re.match(r"^\s*namespace\s+(\S+)", line)
                if mm: stack.append(mm.group(1)); continue
                mm = re.match(r"^\s*end\s+(\S+)", line)
                if mm and stack and stack[-1] == mm.group(1): stack.pop(); continue
                mm = re.match(r"^\s*def\s+(\S*_target)\b", line)
                if mm and (not prefix_of.get(m) or prefix_of[m].rstrip(".") in ".".join(stack).split(".")):
                    pending_targets.append((m, mm.group(1)))
            for t in ths:
                if t.endswith("_partial"):
                    pending_partials.append((m, t))
            all_ths.update(ths)
        except OSError:
            pass
        ok, log = lake_build(ctx, [m])
        if not ok:
            # the module (or a dependency) does not check: every theorem in it is undischarged
            errs = "\n".join(l for l in log.splitlines() if "error" in l.lower())[:3000]
            for t in ths:
                ctx.add_ob(f"theorem:{t}", "theorem", False, "lake build failed:\n" + errs)
            ctx.extra.setdefault("lean_errors", []).append({"module": m, "errors": errs, "log_tail": log[-3000:]})
            ok_all = False
        else:
            theorems += ths
    short = {t.split(".")[-1] for t in all_ths}
    for m, t in pending_targets:
        stem = t[:-len("_target")]
        if stem + "_holds" in short or t + "_holds" in short:
            continue                                   # proved as stated
        if t + "_fails" in short and stem + "_corrected" in short:
            ctx.notes.append(f"{m}: the early target `{t}` is false as stated (refuted by `{t}_fails`: it quantifies over configurations/"
                             f"states/arguments no Rust caller can produce); the corrected full-strength statement `{stem}_corrected` is proved")
            continue
        extra = f" (proved instead: `{stem}_corrected`)" if stem + "_corrected" in short else ""
        ctx.partial.append(f"{m}: target statement `{t}` is stated but not proved{extra}")
    for m, t in pending_partials:
        full = t.split(".")[-1][:-len("_partial")]
        if full in short or full + "_holds" in short or full + "_corrected" in short:
            continue                                   # the full statement has since been proved next to it
        ctx.partial.append(f"{m}: theorem `{t}` proves only part of its target")
    files = import_closure(prop_modules) + lean_files_under(*extra_token_dirs)
    ok_all &= audit_tokens(ctx, sorted(set(files)))
    built = [m for m in prop_modules if not any(e["module"] == m for e in ctx.extra.get("lean_errors", []))]
    if theorems:
        ok_all &= audit_axioms(ctx, built, theorems)
    if ctx.tier == "thorough" and built:
        ok_all &= leanchecker(ctx, built)
    return ok_all


# ---------------------------------------------------------------------------------------------
# step 4: harness + driver

_built = set()

def cargo_build(ctx, bins, release=False):
    key = (tuple(bins), release)
    lock = os.path.join(HARNESS, "Cargo.lock")
    if not os.path.exists(lock):
        shutil.copy(os.path.join(REPO, "Cargo.lock"), lock)
    cmd = ["cargo", "build", "--offline", "--quiet"] + (["--release"] if release else [])
    for b in bins:
        cmd += ["--bin", b]
    rc, out, err, dt = run(cmd, cwd=HARNESS, env={"RUSTFLAGS": f"--cfg {GUARD}", "VERIF_REPO": REPO}, timeout=3600)
    ctx.extra.setdefault("cargo", []).append({"bins": list(bins), "release": release, "rc": rc, "wall_s": round(dt, 1)})
    if rc != 0:
        with open(os.path.join(WORK, f"cargo-{ctx.prop}.log"), "w") as f:
            f.write(out + err)
    return rc == 0, out + err


def bin_path(name, release=False):
    target = os.environ.get("CARGO_TARGET_DIR", os.path.join(HARNESS, "target"))
    return os.path.join(target, "release" if release else "debug", name)


def driver_path(engine=None):
    return os.path.join(LEAN, ".lake", "build", "bin", "driver" if engine is None else f"driver-{engine}")


def build_driver(ctx, engine=None):
    """one executable per engine (`driver-pure|arena|coll|strs|pool`): an engine does not depend on the others' handlers"""
    target = "driver" if engine is None else f"driver-{engine}"
    ok, log = lake_build(ctx, [target])
    ctx.add_ob("build:driver", "build", ok, "" if ok else log[-2000:])
    return ok


def run_harness(argv, env, ctx):
    """runs a harness binary; a run that does not terminate (quick: 15 min, thorough: 2 h) is reported like a crash
    (return code -999, the output so far is kept) — a hang inside the real crate is a finding, not a reason to wait"""
    limit = 900 if ctx.quick() else 7200
    try:
        return subprocess.run(argv, capture_output=True, text=True, env=env, timeout=limit)
    except subprocess.TimeoutExpired as e:
        def txt(b):
            return b.decode("utf-8", "replace") if isinstance(b, bytes) else (b or "")
        return subprocess.CompletedProcess(argv, -999, txt(e.stdout), txt(e.stderr) + f"\nTIMEOUT: the harness did not terminate within {limit} s (hang)")

def run_driver(engine, text, timeout=3600):
    exe = driver_path("pure" if engine == "pure" else engine)
    if not os.path.exists(exe):
        return 127, "", f"driver executable missing (lake build driver-{engine} failed)"
    p = subprocess.run([exe], input=text, capture_output=True, text=True, timeout=timeout)
    return p.returncode, p.stdout, p.stderr


# ---------------------------------------------------------------------------------------------
# step 5: verdict + evidence

def load_known():
    p = os.path.join(VERIF, "known_findings.json")
    if os.path.exists(p):
        return json.load(open(p))
    return {"findings": [], "fixed": []}


def write_replay(ctx, kind, payload):
    name = f"{ctx.prop}-{kind}-{ctx.seed}.json"
    path = os.path.join(REPLAYS, name)
    with open(path, "w") as f:
        json.dump(payload, f, indent=1, default=str)
    return path


def finish(ctx, level_note=""):
    """Decide the verdict (DESIGN.md §8), write evidence, print lines, return exit code."""
    failed = ctx.failed_obs()
    violations = []
    # direct-oracle failures: concrete failing inputs on the implementation
    new_oracle = [f for f in ctx.oracle_failures if not f.get("known")]
    for f in ctx.oracle_failures:
        if f.get("known"):
            print(f"KNOWN-FINDING: property={ctx.prop} {f['known']}")
    if new_oracle:
        path = write_replay(ctx, "oracle", {"property": ctx.prop, "kind": "implementation violates the property (direct oracle)",
                                            "failures": new_oracle[:20], "seed": ctx.seed, "tier": ctx.tier,
                                            "how_to_replay": f"python3 checks/check.py {ctx.prop} --replay <this file>"})
        violations.append((path, ""))
    elif failed or ctx.disagreements:
        # a proof obligation or the correspondence broke, and the search found no failing input
        payload = {"property": ctx.prop, "seed": ctx.seed, "tier": ctx.tier,
                   "kind": "proof obligation / correspondence no longer checks; search found no failing input",
                   "obligations_not_discharged": failed[:50],
                   "correspondence_disagreements": ctx.disagreements[:20],
                   "lean_errors": ctx.extra.get("lean_errors", [])}
        path = write_replay(ctx, "unproved", payload)
        violations.append((path, " no-failing-input-found"))
    wall = time.time() - ctx.t0
    ob_total = len(ctx.obligations)
    ob_ok = ob_total - len(failed)
    cov = {
        "obligations": ob_total,
        "discharged": ob_ok,
        "checker_cmd": f"cd /verif/lean && lake build <Props modules> && lake env lean work/Audit_{ctx.prop}.lean  (python3 checks/check.py {ctx.prop} --tier {ctx.tier})",
        "trusted_base": TRUSTED_BASE,
        "evaluations": ctx.evaluations,
        "distinct_nontrivial": len(ctx.distinct),
        "rule": ctx.extra.get("rule", "see correspondence section"),
        "samples": ctx.samples[:12] if ctx.samples else ["(no samples recorded)"],
        "obligation_list": [{"name": o["name"], "kind": o["kind"], "ok": o["ok"]} for o in ctx.obligations],
        "correspondence": ctx.corr,
        "correspondence_disagreements": len(ctx.disagreements),
        "oracle_failures": len(new_oracle),
        "known_findings_hit": [f["known"] for f in ctx.oracle_failures if f.get("known")],
        "partial": ctx.partial,
        "notes": ctx.notes,
        "explanation": level_note,
    }
    for k in ("translator", "lake", "cargo", "axioms"):
        if k in ctx.extra:
            cov[k] = ctx.extra[k]
    ev = {
        "property_id": ctx.prop, "tier": ctx.tier, "seed": ctx.seed, "level": "proof",
        "coverage": cov,
        "assumptions": TRUSTED_BASE,
        "wall_s": round(wall, 2),
        "violations": len(violations),
    }
    with open(os.path.join(EVID, f"{ctx.prop}.json"), "w") as f:
        json.dump(ev, f, indent=1, default=str)
    for path, suffix in violations:
        print(f"VIOLATION property={ctx.prop} replay={path}{suffix}")
    print(f"[{ctx.prop}] tier={ctx.tier} seed={ctx.seed} obligations={ob_ok}/{ob_total} evaluations={ctx.evaluations} "
          f"disagreements={len(ctx.disagreements)} oracle_failures={len(new_oracle)} wall={wall:.1f}s")
    return 1 if violations else 0


def generic_replay(ctx):
    """Re-runs the failing case(s) recorded in a replay file against the real code and prints what the
    oracle reports.  Exit 1 if the failure reproduces, 0 otherwise."""
    rep = ctx.replay or {}
    fails = rep.get("failures") or []
    if not fails:
        print(json.dumps(rep, indent=1)[:4000])
        print("this replay names proof obligations / correspondence traces, not a failing input; re-run the check itself")
        return 0
    reproduced = 0
    for f in fails[:5]:
        print("---- recorded failure:", (f.get("message") or f.get("what") or "")[:400])
        for h in (f.get("history") or [])[-8:]:
            print("     ", h[:200])
        cmd = f.get("replay")
        if not cmd:
            print("     input:", json.dumps({k: v for k, v in f.items() if k in ("query", "implementation", "spec", "program")})[:600])
            continue
        cmd = cmd.split("#")[0].strip()
        print("     re-running:", cmd)
        p = subprocess.run(cmd, shell=True, capture_output=True, text=True, cwd=VERIF, timeout=3600)
        lines = [l for l in p.stdout.splitlines() if l.startswith("oracle ")]
        for l in lines[:5]:
            print("     ", l[:300])
        if lines or p.returncode != 0:
            reproduced += 1
    print(f"reproduced {reproduced} of {min(len(fails), 5)} recorded failure(s)")
    return 1 if reproduced else 0
