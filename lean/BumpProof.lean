import BumpProof.Rs
import BumpProof.Gen.Bumping
import BumpProof.Gen.SizeConfig
import BumpProof.Gen.LibArith
