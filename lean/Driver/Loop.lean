/-
  Driver/Loop.lean — the read-a-line / answer-a-line loop shared by the per-engine drivers.
-/
namespace Driver

def splitLine (line : String) : List String :=
  (line.trimAscii.toString.splitOn " ").filter (· ≠ "")

partial def loopGen {σ : Type} (step : σ → List String → σ × String) (h : IO.FS.Stream) (out : IO.FS.Stream) (d : σ) : IO Unit := do
  let line ← h.getLine
  if line.isEmpty then return ()
  let (d', r) := step d (splitLine line)
  out.putStrLn r
  loopGen step h out d'

end Driver
