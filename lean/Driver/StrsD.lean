/-
  Driver/StrsD.lean — line protocol of the `strs` engine (string model, property C09).

    new <kind> <cap> <hex>            kind ::= box | fixed | bump | mut ; contents <hex> ("-" = empty)
    op <name> <args…>

  ops (bounds: `i<n>` included, `x<n>` excluded, `u` unbounded; chars are code points in decimal):
    push <cp> | push_str <hex> | insert <idx> <cp> | insert_str <idx> <hex> | remove <idx> | pop |
    truncate <n> | clear | retain <oracle: string over k/d/p, "-" = empty> | drain <sb> <eb> <take> |
    replace_range <sb> <eb> <hex> | extend_from_within <sb> <eb> | split_off <sb> <eb> | into_cstr |
    cstr <hex-with-nul> | cstr_from_str <hex> | cstr_fmt lit <hex> | cstr_fmt pieces <hex>… |
    boundary <idx> | valid <hex> | chars

  answer:  <outcome> | <contents hex> | <len> | <cap or ->
    outcome ::= ok | ok:<value> | err | panic | fault | bad-line
  `cap` is printed for fixed strings only (the growth policy of growable strings belongs to the
  buffer engine); for `box` the capacity is the length.
-/
import BumpProof.Str.Model

namespace Driver.StrsD
open Str

inductive Kind where
  | box | fixed | bump | mut
  deriving Inhabited, DecidableEq

structure DState where
  kind : Kind := .bump
  s : State := { buf := [], len := 0 }
  dead : Bool := false
  deriving Inhabited

def hexDigit (c : Char) : Option Nat :=
  if '0' ≤ c ∧ c ≤ '9' then some (c.toNat - '0'.toNat)
  else if 'a' ≤ c ∧ c ≤ 'f' then some (c.toNat - 'a'.toNat + 10)
  else none

def parseHexAux : List Char → Option Bytes
  | [] => some []
  | [_] => none
  | a :: b :: r => do
    let x ← hexDigit a
    let y ← hexDigit b
    let rest ← parseHexAux r
    pure (UInt8.ofNat (x * 16 + y) :: rest)

def parseHex (t : String) : Option Bytes :=
  if t == "-" then some [] else parseHexAux t.toList

def hexChar (n : Nat) : Char :=
  if n < 10 then Char.ofNat (n + '0'.toNat) else Char.ofNat (n - 10 + 'a'.toNat)

def toHex (l : Bytes) : String :=
  if l.isEmpty then "-"
  else String.ofList (l.flatMap (fun b => [hexChar (b.toNat / 16), hexChar (b.toNat % 16)]))

def parseBound (t : String) : Option Bound :=
  if t == "u" then some .unbounded
  else match t.toList with
    | 'i' :: r => (String.ofList r).toNat?.map .incl
    | 'x' :: r => (String.ofList r).toNat?.map .excl
    | _ => none

def parseChar (t : String) : Option Char := do
  let n ← t.toNat?
  if n < 0xD800 ∨ (0xDFFF < n ∧ n < 0x110000) then some (Char.ofNat n) else none

def parseOracle (t : String) : Option (List Outcome) :=
  if t == "-" then some []
  else t.toList.mapM (fun c => if c == 'k' then some Outcome.keep else if c == 'd' then some Outcome.drop
                               else if c == 'p' then some Outcome.panic else none)

def isFixed : Kind → Bool
  | .fixed => true
  | .box => true
  | _ => false

def showState (k : Kind) (s : State) : String :=
  let cap := match k with
    | .fixed => toString s.cap
    | _ => "-"
  s!"{toHex s.bytes} | {s.len} | {cap}"

def cps (cs : List Char) : String :=
  if cs.isEmpty then "-" else ",".intercalate (cs.map (fun c => toString c.toNat))

/-- a `box` keeps exactly its contents: normalise the allocation after every step -/
def norm (k : Kind) (s : State) : State :=
  match k with
  | .box => { buf := s.bytes, len := s.len }
  | _ => s

def finish {α : Type} (d : DState) (r : Res α) (val : α → String) : DState × String :=
  match r with
  | .ok v s =>
    let s := norm d.kind s
    let vs := val v
    ({ d with s := s }, (if vs == "" then "ok" else "ok:" ++ vs) ++ " | " ++ showState d.kind s)
  | .err s => ({ d with s := s }, "err | " ++ showState d.kind s)
  | .panic s => let s := norm d.kind s; ({ d with s := s }, "panic | " ++ showState d.kind s)
  | .fault => ({ d with dead := true }, "fault")

def unit (_ : Unit) : String := ""

def handleOp (d : DState) (toks : List String) : Option (DState × String) :=
  let fx := isFixed d.kind
  let s := d.s
  match toks with
  | ["push", c] => do pure (finish d (push fx s (← parseChar c)) unit)
  | ["push_str", h] => do pure (finish d (pushStr fx s (← parseHex h)) unit)
  | ["insert", i, c] => do pure (finish d (insert fx s (← i.toNat?) (← parseChar c)) unit)
  | ["insert_str", i, h] => do pure (finish d (insertStr fx s (← i.toNat?) (← parseHex h)) unit)
  | ["remove", i] => do pure (finish d (remove s (← i.toNat?)) (fun c => toString c.toNat))
  | ["pop"] => some (finish d (pop s) (fun o => match o with | none => "none" | some c => toString c.toNat))
  | ["truncate", n] => do pure (finish d (truncate s (← n.toNat?)) unit)
  | ["clear"] => some (finish d (clear s) unit)
  | ["retain", o] => do pure (finish d (retain s (← parseOracle o)) unit)
  | ["drain", a, b, t] => do pure (finish d (drain s (← parseBound a) (← parseBound b) (← t.toNat?)) cps)
  | ["replace_range", a, b, h] => do pure (finish d (replaceRange fx s (← parseBound a) (← parseBound b) (← parseHex h)) unit)
  | ["extend_from_within", a, b] => do pure (finish d (extendFromWithin fx s (← parseBound a) (← parseBound b)) unit)
  | ["split_off", a, b] => do
    let r := splitOff c09aFixed s (← parseBound a) (← parseBound b)
    pure (finish d r (fun o =>
      let o := norm d.kind o
      toHex o.bytes ++ ":" ++ (match d.kind with | .fixed => toString o.cap | _ => "-")))
  | ["into_cstr"] => some (finish d (intoCstr fx s) toHex)
  | ["cstr", h] => do
    let b ← parseHex h
    pure (d, "ok:" ++ toHex (allocCstr b))
  | ["cstr_from_str", h] => do
    let b ← parseHex h
    pure (d, "ok:" ++ toHex (allocCstrFromStr b))
  | "cstr_fmt" :: "lit" :: [h] => do
    let b ← parseHex h
    match allocCstrFmt (some b) [] with
    | .ok v _ => pure (d, "ok:" ++ toHex v)
    | _ => pure (d, "fault")
  | "cstr_fmt" :: "pieces" :: hs => do
    let ps ← hs.mapM parseHex
    match allocCstrFmt none ps with
    | .ok v _ => pure (d, "ok:" ++ toHex v)
    | .err _ => pure (d, "err")
    | .panic _ => pure (d, "panic")
    | .fault => pure (d, "fault")
  | ["boundary", i] => do pure (d, if boundaryOk s (← i.toNat?) then "ok:1" else "ok:0")
  | ["valid", h] => do pure (d, if validUtf8 (← parseHex h) then "ok:1" else "ok:0")
  | ["chars"] =>
    match decode s.bytes with
    | some cs => some (d, "ok:" ++ cps cs)
    | none => some (d, "invalid")
  | _ => none

def parseKind : String → Option Kind
  | "box" => some .box | "fixed" => some .fixed | "bump" => some .bump | "mut" => some .mut | _ => none

def handle (d : DState) (toks : List String) : DState × String :=
  match toks with
  | ["new", k, cap, h] =>
    match parseKind k, cap.toNat?, parseHex h with
    | some k, some cap, some b =>
      let s := State.ofBytes b (match k with | .box => 0 | _ => cap)
      ({ kind := k, s := s, dead := false }, "ok | " ++ showState k s)
    | _, _, _ => (d, "bad-line")
  | "op" :: rest =>
    if d.dead then (d, "dead")
    else match handleOp d rest with
      | some r => r
      | none => (d, "bad-line")
  | _ => (d, "bad-line")

end Driver.StrsD
