/-
  Driver/StrsD.lean — line protocol of the `strs` engine (owner: the engineer of that engine).
  `handle` consumes one input line (already split into tokens) and returns the new driver state
  and one output line.
-/
namespace Driver.StrsD

structure DState where
  dummy : Nat := 0
  deriving Inhabited

def handle (d : DState) (_toks : List String) : DState × String := (d, "bad-line")

end Driver.StrsD
