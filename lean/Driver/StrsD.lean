/-
  Driver/StrsD.lean — line protocol of the `strs` engine (string model, property C09).

    new <kind> <ctor> <hex> [g<n>]    kind ::= box | fixed | bump | mut ; contents <hex> ("-" = empty);
                                      ctor ::= s (from_str_in / alloc_str) | c<n> (with_capacity_in(n) + push_str)
    op <name> <args…> [g<n>]          `g<n>` (MutBumpString only): the capacity the arena granted if the
                                      operation had to grow — an INPUT of the model (see `Str.Alloc.atLeast`)

  ops (bounds: `i<n>` included, `x<n>` excluded, `u` unbounded; chars are code points in decimal):
    push <cp> | push_str <hex> | insert <idx> <cp> | insert_str <idx> <hex> | remove <idx> | pop |
    truncate <n> | clear | retain <oracle: string over k/d/p, "-" = empty> | drain <sb> <eb> <take> |
    replace_range <sb> <eb> <hex> | extend_from_within <sb> <eb> | split_off <sb> <eb> | into_cstr |
    reserve <n> | reserve_exact <n> | extend_zeroed <n> | write_str <hex> | write_char <cp> |
    extend_chars <by_ref> <cps> | extend_strs <add_assign> <hex>… | shrink_to <n> g<cap> | shrink_to_fit g<cap> |
    clone <swap> | swap <i> | drop_parked <i> | into_str | into_boxed_str | into_fixed_string | into_bytes | into_string |   (a leading `try_` is ignored) from_utf8 <hex> | from_utf16 <hex of u16 units, big endian> | from_utf16_lossy <hex> |
    cstr <hex-with-nul> | cstr_from_str <hex> | cstr_fmt lit <hex> | cstr_fmt pieces <hex>… |
    boundary <idx> | valid <hex> | chars

  answer:  <outcome> | <contents hex> | <len> | <cap or ->
    outcome ::= ok | ok:<value> | err | panic | fault | bad-line
  `cap` is printed for fixed, bump and mut strings (`-` for `box`, whose capacity is its length).
-/
import BumpProof.Str.Model

namespace Driver.StrsD
open Str

inductive Kind where
  | box | fixed | bump | mut
  deriving Inhabited, DecidableEq

structure DState where
  kind : Kind := .bump
  s : State := { buf := [], len := 0 }
  parked : List State := []     -- the other live strings of the trace (clones / cloned originals)
  dead : Bool := false
  deriving Inhabited

def hexDigit (c : Char) : Option Nat :=
  if '0' ≤ c ∧ c ≤ '9' then some (c.toNat - '0'.toNat)
  else if 'a' ≤ c ∧ c ≤ 'f' then some (c.toNat - 'a'.toNat + 10)
  else none

def parseHexAux : List Char → Option Bytes
  | [] => some []
  | [_] => none
  | a :: b :: r => do
    let x ← hexDigit a
    let y ← hexDigit b
    let rest ← parseHexAux r
    pure (UInt8.ofNat (x * 16 + y) :: rest)

def parseHex (t : String) : Option Bytes :=
  if t == "-" then some [] else parseHexAux t.toList

def hexChar (n : Nat) : Char :=
  if n < 10 then Char.ofNat (n + '0'.toNat) else Char.ofNat (n - 10 + 'a'.toNat)

def toHex (l : Bytes) : String :=
  if l.isEmpty then "-"
  else String.ofList (l.flatMap (fun b => [hexChar (b.toNat / 16), hexChar (b.toNat % 16)]))

/-- pairs of bytes (big endian) → UTF-16 code units -/
def parseU16 : Bytes → Option (List UInt16)
  | [] => some []
  | [_] => none
  | hi :: lo :: r => do
    let rest ← parseU16 r
    pure (UInt16.ofNat (hi.toNat * 256 + lo.toNat) :: rest)

def parseBound (t : String) : Option Bound :=
  if t == "u" then some .unbounded
  else match t.toList with
    | 'i' :: r => (String.ofList r).toNat?.map .incl
    | 'x' :: r => (String.ofList r).toNat?.map .excl
    | _ => none

def parseChar (t : String) : Option Char := do
  let n ← t.toNat?
  if n < 0xD800 ∨ (0xDFFF < n ∧ n < 0x110000) then some (Char.ofNat n) else none

def parseOracle (t : String) : Option (List Outcome) :=
  if t == "-" then some []
  else t.toList.mapM (fun c => if c == 'k' then some Outcome.keep else if c == 'd' then some Outcome.drop
                               else if c == 'p' then some Outcome.panic else none)

def allocOf (k : Kind) (grant : Nat) : Alloc :=
  match k with
  | .fixed => .fixed
  | .box => .fixed
  | .bump => .exact
  | .mut => .atLeast grant

def showState (k : Kind) (s : State) : String :=
  let cap := match k with
    | .box => "-"
    | _ => toString s.cap
  s!"{toHex s.bytes} | {s.len} | {cap}"

def cps (cs : List Char) : String :=
  if cs.isEmpty then "-" else ",".intercalate (cs.map (fun c => toString c.toNat))

/-- a `box` keeps exactly its contents: normalise the allocation after every step -/
def norm (k : Kind) (s : State) : State :=
  match k with
  | .box => { buf := s.bytes, len := s.len }
  | _ => s

def finish {α : Type} (d : DState) (r : Res α) (val : α → String) : DState × String :=
  match r with
  | .ok v s =>
    let s := norm d.kind s
    let vs := val v
    ({ d with s := s }, (if vs == "" then "ok" else "ok:" ++ vs) ++ " | " ++ showState d.kind s)
  | .err s => ({ d with s := s }, "err | " ++ showState d.kind s)
  | .panic s => let s := norm d.kind s; ({ d with s := s }, "panic | " ++ showState d.kind s)
  | .fault => ({ d with dead := true }, "fault")

def unit (_ : Unit) : String := ""

/-- a trailing `g<n>` token: the grant -/
def splitGrant (toks : List String) : List String × Nat :=
  match toks.getLast? with
  | some t =>
    match t.toList with
    | 'g' :: r =>
      match (String.ofList r).toNat? with
      | some n => (toks.dropLast, n)
      | none => (toks, 0)
    | _ => (toks, 0)
  | none => (toks, 0)

/-- `try_push` and `push` are the same model function: drop the prefix -/
def stripTry (toks : List String) : List String :=
  match toks with
  | t :: r => (if t.startsWith "try_" then (t.drop 4).toString else t) :: r
  | [] => []

/-- did the arena shrink the allocation? (`g` = the observed capacity afterwards) -/
def shrunk (s : State) (target grant : Nat) : Bool := grant == target && target < s.cap

def handleOp (d : DState) (toks0 : List String) : Option (DState × String) :=
  let (toks1, grant) := splitGrant toks0
  let toks := stripTry toks1
  let fx := allocOf d.kind grant
  let s := d.s
  let conv : Option (DState × String) :=
    let v := intoBytes s true
    some (d, "ok:" ++ toHex v ++ " | " ++ toHex v ++ " | " ++ toString v.length ++ " | -")
  match toks with
  | ["clone", sw] => do
    let sw ← sw.toNat?
    let c := cloneStr s
    let v := toHex c.bytes ++ ":" ++ toString c.cap
    let d' : DState := if sw != 0 then { d with s := c, parked := d.parked ++ [s] } else { d with parked := d.parked ++ [c] }
    pure (d', "ok:" ++ v ++ " | " ++ showState d.kind d'.s)
  | ["swap", i] => do
    let i ← i.toNat?
    let o ← d.parked[i]?
    let d' : DState := { d with s := o, parked := d.parked.set i s }
    pure (d', "ok | " ++ showState d.kind o)
  | ["drop_parked", i] => do
    let i ← i.toNat?
    pure ({ d with parked := d.parked.eraseIdx i }, "ok | " ++ showState d.kind s)
  | ["into_str"] => conv
  | ["into_boxed_str"] => conv
  | ["into_fixed_string"] => conv
  | ["into_bytes"] => conv
  | ["into_string"] => conv
  | ["extend_zeroed", n] => do pure (finish d (extendZeroed fx s (← n.toNat?)) unit)
  | ["write_str", h] => do pure (finish d (writeStr fx s (← parseHex h)) unit)
  | ["write_char", c] => do pure (finish d (writeChar fx s (← parseChar c)) unit)
  | ["extend_chars", _, cs] => do
    let l ← if cs == "-" then some [] else (cs.splitOn ",").mapM parseChar
    pure (finish d (extendChars fx s l) unit)
  | "extend_strs" :: _ :: hs => do
    let ps ← hs.mapM parseHex
    pure (finish d (extendStrs fx s ps) unit)
  | ["shrink_to", n] => do
    let n ← n.toNat?
    pure (finish d (shrinkTo s n (shrunk s (max s.len n) grant)) unit)
  | ["shrink_to_fit"] => some (finish d (shrinkToFit s (shrunk s s.len grant)) unit)
  | ["reserve", n] => do pure (finish d (reserveOp fx s (← n.toNat?)) unit)
  | ["reserve_exact", n] => do pure (finish d (reserveExactOp fx s (← n.toNat?)) unit)
  | ["push", c] => do pure (finish d (push fx s (← parseChar c)) unit)
  | ["push_str", h] => do pure (finish d (pushStr fx s (← parseHex h)) unit)
  | ["insert", i, c] => do pure (finish d (insert fx s (← i.toNat?) (← parseChar c)) unit)
  | ["insert_str", i, h] => do pure (finish d (insertStr fx s (← i.toNat?) (← parseHex h)) unit)
  | ["remove", i] => do pure (finish d (remove s (← i.toNat?)) (fun c => toString c.toNat))
  | ["pop"] => some (finish d (pop s) (fun o => match o with | none => "none" | some c => toString c.toNat))
  | ["truncate", n] => do pure (finish d (truncate s (← n.toNat?)) unit)
  | ["clear"] => some (finish d (clear s) unit)
  | ["retain", o] => do pure (finish d (retain s (← parseOracle o)) unit)
  | ["drain", a, b, t] => do pure (finish d (drain s (← parseBound a) (← parseBound b) (← t.toNat?)) cps)
  | ["replace_range", a, b, h] => do pure (finish d (replaceRange fx s (← parseBound a) (← parseBound b) (← parseHex h)) unit)
  | ["extend_from_within", a, b] => do pure (finish d (extendFromWithin fx s (← parseBound a) (← parseBound b)) unit)
  | ["split_off", a, b] => do
    let r := splitOff c09aFixed s (← parseBound a) (← parseBound b)
    pure (finish d r (fun o =>
      let o := norm d.kind o
      toHex o.bytes ++ ":" ++ (match d.kind with | .box => "-" | _ => toString o.cap)))
  | ["into_cstr"] =>
    -- the string is consumed: the observation is the C string itself (no capacity)
    match intoCstr fx s with
    | .ok v _ => some (d, "ok:" ++ toHex v ++ " | " ++ toHex v ++ " | " ++ toString v.length ++ " | -")
    | .err _ => some (d, "err")
    | .panic _ => some (d, "panic")
    | .fault => some ({ d with dead := true }, "fault")
  | ["cstr", h] => do
    let b ← parseHex h
    pure (d, "ok:" ++ toHex (allocCstr b))
  | ["cstr_from_str", h] => do
    let b ← parseHex h
    pure (d, "ok:" ++ toHex (allocCstrFromStr b))
  | "cstr_fmt" :: "lit" :: [h] => do
    let b ← parseHex h
    match allocCstrFmt (some b) [] with
    | .ok v _ => pure (d, "ok:" ++ toHex v)
    | _ => pure (d, "fault")
  | "cstr_fmt" :: "pieces" :: hs => do
    let ps ← hs.mapM parseHex
    match allocCstrFmt none ps with
    | .ok v _ => pure (d, "ok:" ++ toHex v)
    | .err _ => pure (d, "err")
    | .panic _ => pure (d, "panic")
    | .fault => pure (d, "fault")
  | ["from_utf8", h] => do
    let b ← parseHex h
    match fromUtf8 (State.ofBytes b) with
    | some v => pure (d, "ok:" ++ toHex v.bytes)
    | none => pure (d, "err")
  | ["from_utf16", h] => do
    let us ← parseU16 (← parseHex h)
    match fromUtf16 .exact us with
    | some (.ok () v) => pure (d, "ok:" ++ toHex v.bytes ++ ":" ++ toString v.cap)
    | none => pure (d, "err")
    | _ => pure (d, "fault")
  | ["from_utf16_lossy", h] => do
    let us ← parseU16 (← parseHex h)
    match fromUtf16Lossy .exact us with
    | some (.ok () v) => pure (d, "ok:" ++ toHex v.bytes ++ ":" ++ toString v.cap)
    | _ => pure (d, "fault")
  | ["boundary", i] => do pure (d, if boundaryOk s (← i.toNat?) then "ok:1" else "ok:0")
  | ["valid", h] => do pure (d, if validUtf8 (← parseHex h) then "ok:1" else "ok:0")
  | ["chars"] =>
    match decode s.bytes with
    | some cs => some (d, "ok:" ++ cps cs)
    | none => some (d, "invalid")
  | _ => none

def parseKind : String → Option Kind
  | "box" => some .box | "fixed" => some .fixed | "bump" => some .bump | "mut" => some .mut | _ => none

/-- constructor: `s` = `from_str_in` (`alloc_str` for a box); `c<n>` = `with_capacity_in(n)` then `push_str` -/
def construct (k : Kind) (ctor : String) (b : Bytes) (grant : Nat) : Option (Res Unit) :=
  let al := allocOf k grant
  let ctor := if ctor.startsWith "t" then (ctor.drop 1).toString else ctor
  match ctor.toList with
  | ['s'] =>
    match k with
    | .box => some (.ok () { buf := b, len := b.length })
    | _ => some (.ok () (fromStr al b))
  | 'c' :: r => do
    let n ← (String.ofList r).toNat?
    pure (pushStr al (withCapacity al n) b)
  | _ => none

def handle (d : DState) (toks0 : List String) : DState × String :=
  match toks0 with
  | "new" :: rest =>
    let (toks, grant) := splitGrant rest
    match toks with
    | [k, ctor, h] =>
      match parseKind k, parseHex h with
      | some k, some b =>
        match construct k ctor b grant with
        | some (.ok () s) => ({ kind := k, s := s, parked := [], dead := false }, "ok | " ++ showState k s)
        | some (.err s) => ({ kind := k, s := s, parked := [], dead := false }, "err | " ++ showState k s)
        | _ => (d, "bad-line")
      | _, _ => (d, "bad-line")
    | _ => (d, "bad-line")
  | "op" :: rest =>
    if d.dead then (d, "dead")
    else match handleOp d rest with
      | some r => r
      | none => (d, "bad-line")
  | _ => (d, "bad-line")

end Driver.StrsD
