/-
  Driver/MainColl.lean — the `coll` engine's line-protocol driver as an executable of its own
  (`driver-coll`): a build failure in another engine's handler does not take this one down.
-/
import Driver.Loop
import Driver.CollD

def main : IO UInt32 := do
  Driver.loopGen Driver.CollD.handle (← IO.getStdin) (← IO.getStdout) default
  return 0
