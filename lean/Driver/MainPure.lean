/-
  Driver/MainPure.lean — the `pure` engine's line-protocol driver as an executable of its own
  (`driver-pure`): a build failure in another engine's handler does not take this one down.
-/
import Driver.Loop
import Driver.Pure

def main : IO UInt32 := do
  Driver.loopGen (fun (_ : Unit) toks => ((), (Driver.Pure.handle toks).getD "bad-op")) (← IO.getStdin) (← IO.getStdout) ()
  return 0
