/-
  Driver/MainPool.lean — the `pool` engine's line-protocol driver as an executable of its own
  (`driver-pool`): a build failure in another engine's handler does not take this one down.
-/
import Driver.Loop
import Driver.PoolD

def main : IO UInt32 := do
  Driver.loopGen Driver.PoolD.handle (← IO.getStdin) (← IO.getStdout) default
  return 0
