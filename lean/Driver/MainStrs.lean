/-
  Driver/MainStrs.lean — the `strs` engine's line-protocol driver as an executable of its own
  (`driver-strs`): a build failure in another engine's handler does not take this one down.
-/
import Driver.Loop
import Driver.StrsD

def main : IO UInt32 := do
  Driver.loopGen Driver.StrsD.handle (← IO.getStdin) (← IO.getStdout) default
  return 0
