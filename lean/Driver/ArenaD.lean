/-
  Driver/ArenaD.lean — line protocol of the arena engine.

    cfg up=<0|1> minalign=<n> ga=<0|1> claimable=<0|1> dealloc=<0|1> shrink=<0|1> minchunk=<n> hsize=<n> halign=<n>
    op <name> <args…> [| <resp> …]          resp ::= G <ptr> <size> | F

  For every `op` line the driver prints one line with the model's outcome, the base-allocator
  requests the model issued and the observable state afterwards; `checks/engines/arena.py`
  compares it verbatim with what the harness observed on the real crate.
-/
import BumpProof.Arena.Step

namespace Driver.ArenaD
open Arena Rs

structure DState where
  cfg : Cfg
  g : GState
  dead : Bool            -- a fault happened: every later op of this trace answers `dead`
  deriving Inhabited

def kv (tok : String) : Option (String × Nat) :=
  match tok.splitOn "=" with
  | [k, v] => v.toNat?.map (fun n => (k, n))
  | _ => none

def parseCfg (toks : List String) : Option Cfg := do
  let kvs ← toks.mapM kv
  let get (k : String) : Option Nat := (kvs.find? (·.1 == k)).map (·.2)
  pure { up := (← get "up") != 0, minAlign0 := ← get "minalign", ga := (← get "ga") != 0,
         claimable := (← get "claimable") != 0, deallocates := (← get "dealloc") != 0,
         shrinks := (← get "shrink") != 0, minChunk := ← get "minchunk",
         hdr := { size := ← get "hsize", align := ← get "halign" } }

def parseVia : String → Option Via
  | "p" => some .plain | "d" => some .withoutDealloc | "s" => some .withoutShrink | _ => none

def b (n : Nat) : Bool := n != 0

partial def parseOp (toks : List String) : Option Op :=
  match toks with
  | ["new_size", n] => do pure (.newWithSize (← n.toNat?))
  | ["new_cap", s, a] => do pure (.newWithCapacity { size := ← s.toNat?, align := ← a.toNat? })
  | ["new_unalloc"] => some .newUnallocated
  | ["drop"] => some .drop
  | ["allocate", s, a, z, v] => do pure (.allocate { size := ← s.toNat?, align := ← a.toNat? } (b (← z.toNat?)) (← parseVia v))
  | ["dealloc", blk, v] => do pure (.deallocate (← blk.toNat?) (← parseVia v))
  | ["grow", blk, s, a, z, v] => do pure (.grow (← blk.toNat?) { size := ← s.toNat?, align := ← a.toNat? } (b (← z.toNat?)) (← parseVia v))
  | ["shrink", blk, s, a, v] => do pure (.shrink (← blk.toNat?) { size := ← s.toNat?, align := ← a.toNat? } (← parseVia v))
  | ["alloc_layout", s, a, x, y, z] => do
    pure (.allocLayout { size := ← s.toNat?, align := ← a.toNat? } ⟨b (← x.toNat?), b (← y.toNat?), b (← z.toNat?)⟩)
  | ["shrink_slice", blk, ns] => do pure (.shrinkSlice (← blk.toNat?) (← ns.toNat?))
  | ["prepare", s, a] => do pure (.prepare { size := ← s.toNat?, align := ← a.toNat? })
  | ["commit", s, r] => do pure (.commit (← s.toNat?) (b (← r.toNat?)))
  | ["prepare_slice", es, ea, mc, r] => do pure (.prepareSlice (← es.toNat?) (← ea.toNat?) (← mc.toNat?) (b (← r.toNat?)))
  | ["fill", len, seed] => do pure (.fillPrepared (← len.toNat?) (← seed.toNat?))
  | ["commit_slice", len] => do pure (.commitSlice (← len.toNat?))
  | ["abandon"] => some .abandonPrepared
  | ["reserve", n, d] => do pure (.reserve (← n.toNat?) (b (← d.toNat?)))
  | ["scope_enter"] => some .scopeEnter
  | ["scope_exit"] => some .scopeExit
  | ["checkpoint", k] => do pure (.checkpoint (← k.toNat?))
  | ["reset_to", k] => do pure (.resetTo (← k.toNat?))
  | ["reset"] => some .reset
  | ["reset_to_start"] => some .resetToStart
  | ["claim"] => some .claim
  | ["claim_end"] => some .claimEnd
  | "on_claimed" :: rest => (parseOp rest).map .onClaimed
  | ["aligned_enter", n] => do pure (.alignedEnter (← n.toNat?))
  | ["aligned_exit"] => some .alignedExit
  | ["scoped_aligned_enter", n] => do pure (.scopedAlignedEnter (← n.toNat?))
  | ["scoped_aligned_exit"] => some .scopedAlignedExit
  | ["with_settings", n, ga, cl] => do pure (.withSettings (← n.toNat?) (b (← ga.toNat?)) (b (← cl.toNat?)))
  | ["try_with", s, a, off, vs, ok, "0", m] => do
    pure (.allocTryWith { size := ← s.toNat?, align := ← a.toNat? } (← off.toNat?) (← vs.toNat?) (b (← ok.toNat?)) none (b (← m.toNat?)))
  | ["try_with", s, a, off, vs, ok, "1", is_, ia, m] => do
    pure (.allocTryWith { size := ← s.toNat?, align := ← a.toNat? } (← off.toNat?) (← vs.toNat?) (b (← ok.toNat?))
            (some { size := ← is_.toNat?, align := ← ia.toNat? }) (b (← m.toNat?)))
  | ["write", blk, seed] => do pure (.write (← blk.toNat?) (← seed.toNat?))
  | ["split", blk, at_] => do pure (.split (← blk.toNat?) (← at_.toNat?))
  | _ => none

def parseResps : List String → Option (List BaseResp)
  | [] => some []
  | "F" :: rest => (parseResps rest).map (BaseResp.fail :: ·)
  | "G" :: p :: s :: rest => do
    let r ← parseResps rest
    pure (BaseResp.granted (← p.toNat?) (← s.toNat?) :: r)
  | _ => none

def showOut : Out → String
  | .block id addr size => s!"ok {id} {addr} {size}"
  | .unit => "unit"
  | .err _ => "err"
  | .panic _ => "panic"
  | .none_ => "none"

def showReq : BaseReq → String
  | .alloc s a => s!"A {s} {a}"
  | .dealloc p s a => s!"D {p} {s} {a}"

def showCur : Cur → String
  | .unallocated => "U" | .claimed => "C" | .chunk i => toString i

/-- FNV-1a over the defined prefix of every live block, in id order -/
def checksum (s : State) : UInt64 := Id.run do
  let mut h : UInt64 := 0xcbf29ce484222325
  for blk in s.live do
    match s.chunks.find? (fun c => c.base ≤ blk.addr ∧ blk.addr + blk.init ≤ c.base + c.size) with
    | none => h := (h ^^^ 0xFF) * 0x100000001b3
    | some c =>
      let off := blk.addr - c.base
      for k in [0:blk.init] do
        h := (h ^^^ (c.data.getD (off + k) 0).toUInt64) * 0x100000001b3
  return h

/-- `AnyStats` (`src/stats/any.rs`): the same traversal over the same chunk geometry as the typed
    statistics (since the fix of finding C10-a `AnyChunk` carries the real header size) -/
def anyStats (cfg : Cfg) (s : State) : StatsOut := stats cfg s

def showStats (t : StatsOut) : String := s!"{t.count} {t.size} {t.capacity} {t.allocated} {t.remaining}"

def dump (cfg : Cfg) (g : GState) : String :=
  let s := g.s
  let chunks := " ".intercalate (s.chunks.map fun c => s!"({c.base},{c.size},{c.pos})")
  s!"cur {showCur s.cur} pos {curPos cfg s} ma {s.minAlign} | stats {showStats (stats cfg s)} | any {showStats (anyStats cfg s)} | chunks {chunks} | live {s.live.length} sum {checksum s}"

def handleOp (d : DState) (body : List String) : DState × String :=
  if d.dead then (d, "dead") else
  -- split at "|"
  let (opToks, rest) := body.span (· != "|")
  let respToks := rest.drop 1
  match parseOp opToks, parseResps respToks with
  | some op, some resps =>
    match step d.cfg d.g op resps with
    | .ok (g', out, reqs) =>
      ({ d with g := g' }, s!"{showOut out} | reqs {", ".intercalate (reqs.map showReq)} | {dump d.cfg g'}")
    | .error (.contract w) => (d, s!"bad-op {w}")
    | .error (.rs e) => ({ d with dead := true }, s!"fault rs {repr e}")
    | .error (.ub w) => ({ d with dead := true }, s!"fault ub {w}")
    | .error .noResp => ({ d with dead := true }, "fault no-base-response")
  | _, _ => (d, "bad-op unparsable")

def handle (d : DState) (toks : List String) : DState × String :=
  match toks with
  | "cfg" :: rest =>
    match parseCfg rest with
    | some cfg => ({ cfg := cfg, g := { s := initState cfg, marks := [] }, dead := false }, "cfg-ok")
    | none => (d, "bad-cfg")
  | "op" :: body => handleOp d body
  | _ => (d, "bad-line")

end Driver.ArenaD
