/-
  Driver/PoolD.lean — line protocol of the `pool` engine (model: BumpProof/Pool/Model.lean).

    pool-new …                      start of a case: the model state becomes `Pool.init`          → `ok`
    op get <g> <create 1|0|p>       `BumpPool::get*` / `try_get*` (linearised by lock ticket); IF an arena has to be constructed:
                                    1 = it succeeds, 0 = refused (`Err`), p = the constructor panics (capacity overflow,
                                    the mutex gets poisoned)                                      → `arena <id> new|reused idle=<n>` | `err idle=<n>` | `panic idle=<n>`
    op put <g>                      drop of guard g                                               → `done idle=<n>`
    op forget <g>                   `mem::forget` of guard g                                      → `done`
    op alloc <g> <tag>              an allocation through guard g                                 → `arena <id>`
    op reset | reset_to_start | drop                                                            → `done arenas=<n>`
    q idle                          the idle stack, bottom → top (`pool.bumps()` order)           → `idle <id> <id> …`
    q contents                      tags of the blocks of every idle arena, in `bumps()` order    → `contents <id>:[t,t,…] …`
    q counters                      per idle arena: resets/rewinds/drops applied                  → `counters <id>:r/w/d …`
    q live                          number of live guards + forgotten guards, arenas created     → `live <n> created <m>`
    q poisoned                      did a `get*` panic inside the critical section                → `poisoned 0|1`

  `idle=<n>` is the number of idle arenas at the moment the lock was taken (before the operation),
  the implementation reports the same number from inside its critical section.
  A step the model rejects (contract violation) answers `bad-op <reason>`; the state is unchanged.
-/
import BumpProof.Pool.Model

namespace Driver.PoolD
open Pool

structure DState where
  s : Pool.State := Pool.init
  deriving Inhabited

def errName : Err → String
  | .guardInUse => "guard-in-use"
  | .noGuard => "no-guard"
  | .guardsLive => "guards-live"
  | .poolDropped => "pool-dropped"

def parseStep (toks : List String) : Option Step :=
  match toks with
  | ["get", g, c] => do
    let c ← match c with
      | "1" => some Create.ok | "0" => some Create.fail | "p" => some Create.panic | _ => none
    pure (.get (← g.toNat?) c)
  | ["put", g] => do pure (.put (← g.toNat?))
  | ["forget", g] => do pure (.forget (← g.toNat?))
  | ["alloc", g, t] => do pure (.alloc (← g.toNat?) (← t.toNat?))
  | ["reset"] => some .reset
  | ["reset_to_start"] => some .resetToStart
  | ["drop"] => some .drop
  | _ => none

def joinNats (l : List Nat) (sep : String) : String := sep.intercalate (l.map toString)

def render (before : Pool.State) (st : Step) (o : Out) : String :=
  match st, o with
  | .get _ _, .got a fresh => s!"arena {a} {if fresh then "new" else "reused"} idle={before.idle.length}"
  | .get _ _, .panicked => s!"panic idle={before.idle.length}"
  | .get _ _, _ => s!"err idle={before.idle.length}"
  | .put _, _ => s!"done idle={before.idle.length}"
  | .forget _, _ => "done"
  | .alloc g _, _ =>
    match arenaOf g before.owned with
    | some a => s!"arena {a}"
    | none => "bad-op"
  | _, _ => s!"done arenas={before.idle.length}"

def handle (d : DState) (toks : List String) : DState × String :=
  match toks with
  | "pool-new" :: _ => ({ s := Pool.init }, "ok")
  | "op" :: rest =>
    match parseStep rest with
    | none => (d, "bad-line")
    | some st =>
      match step d.s st with
      | .ok (s', o) => ({ s := s' }, render d.s st o)
      | .error e => (d, s!"bad-op {errName e}")
  | ["q", "idle"] => (d, "idle " ++ joinNats d.s.idle.reverse " ")
  | ["q", "contents"] =>
    (d, "contents " ++ " ".intercalate (d.s.idle.reverse.map fun a => s!"{a}:[{joinNats (d.s.arenas a).tags ","}]"))
  | ["q", "counters"] =>
    (d, "counters " ++ " ".intercalate (d.s.idle.reverse.map fun a =>
      let x := d.s.arenas a; s!"{a}:{x.resets}/{x.rewinds}/{x.drops}"))
  | ["q", "poisoned"] => (d, s!"poisoned {if d.s.poisoned then 1 else 0}")
  | ["q", "live"] => (d, s!"live {d.s.owned.length + d.s.leaked.length} created {d.s.created}")
  | _ => (d, "bad-line")

end Driver.PoolD
