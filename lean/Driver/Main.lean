/-
  Driver/Main.lean — line-protocol driver.  `driver <engine>` reads queries from
  stdin (one per line) and writes one answer per line.  Imports model files only
  (no Mathlib), so it links as a native executable.
-/
import Driver.Pure

def splitLine (line : String) : List String :=
  (line.trimAscii.toString.splitOn " ").filter (· ≠ "")

partial def loopPure (h : IO.FS.Stream) (out : IO.FS.Stream) : IO Unit := do
  let line ← h.getLine
  if line.isEmpty then return ()
  match Driver.Pure.handle (splitLine line) with
  | some r => out.putStrLn r
  | none => out.putStrLn "bad-op"
  loopPure h out

def main (args : List String) : IO UInt32 := do
  let stdin ← IO.getStdin
  let stdout ← IO.getStdout
  match args with
  | ["pure"] => loopPure stdin stdout; return 0
  | _ => IO.eprintln "usage: driver pure|arena|coll|strs|pool"; return 2
