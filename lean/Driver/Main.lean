/-
  Driver/Main.lean — line-protocol driver.  `driver <engine>` reads queries from
  stdin (one per line) and writes one answer per line.  Imports model files only
  (no Mathlib), so it links as a native executable.
-/
import Driver.Pure
import Driver.ArenaD
import Driver.CollD
import Driver.StrsD
import Driver.PoolD

def splitLine (line : String) : List String :=
  (line.trimAscii.toString.splitOn " ").filter (· ≠ "")

partial def loopPure (h : IO.FS.Stream) (out : IO.FS.Stream) : IO Unit := do
  let line ← h.getLine
  if line.isEmpty then return ()
  match Driver.Pure.handle (splitLine line) with
  | some r => out.putStrLn r
  | none => out.putStrLn "bad-op"
  loopPure h out

partial def loopArena (h : IO.FS.Stream) (out : IO.FS.Stream) (d : Driver.ArenaD.DState) : IO Unit := do
  let line ← h.getLine
  if line.isEmpty then return ()
  let (d', r) := Driver.ArenaD.handle d (splitLine line)
  out.putStrLn r
  loopArena h out d'

partial def loopGen {σ : Type} (step : σ → List String → σ × String) (h : IO.FS.Stream) (out : IO.FS.Stream) (d : σ) : IO Unit := do
  let line ← h.getLine
  if line.isEmpty then return ()
  let (d', r) := step d (splitLine line)
  out.putStrLn r
  loopGen step h out d'

def main (args : List String) : IO UInt32 := do
  let stdin ← IO.getStdin
  let stdout ← IO.getStdout
  match args with
  | ["pure"] => loopPure stdin stdout; return 0
  | ["arena"] => loopArena stdin stdout default; return 0
  | ["coll"] => loopGen Driver.CollD.handle stdin stdout default; return 0
  | ["strs"] => loopGen Driver.StrsD.handle stdin stdout default; return 0
  | ["pool"] => loopGen Driver.PoolD.handle stdin stdout default; return 0
  | _ => IO.eprintln "usage: driver pure|arena|coll|strs|pool"; return 2
