/-
  Driver/CollD.lean — line protocol of the `coll` engine.

    new <h> <kind> cap=<c> ids=<csv|->                     create vector `h` (kind: box fixed bump mut rev)
    op <name> <h> [<h2>] <nat args…> [o=<outcomes>] [bombs=<csv>] [capin=<n>] [into=<h3>]
    drop <h> [bombs=<csv>]                                  the owner is dropped
    outcomes ::= csv of `r<nat>` (returned value / id produced) and `p` (panic); `-` = empty

  Answers (compared verbatim with what the harness observed on the real types):
    new  → `ok`
    op   → `ids=<csv> len=<n> cap=<c> drops=<csv> esc=<csv> exit=<ret[:v]|panic|panic:drop> used=<k>`
           (+ ` | <h2>: ids=… len=… cap=…` for operations with a second vector)
    drop → `drops=<csv> exit=<…>`
  A model fault (a hole was read, a live value overwritten, …) answers `fault <what>`; an unknown
  handle / operation `bad-op`.
-/
import BumpProof.Coll.Vecs

namespace Driver.CollD
open Coll

structure Entry where
  name : String
  kind : Kind
  vec : Vec
  deriving Inhabited

structure DState where
  vecs : List Entry := []
  deriving Inhabited

def csv (l : List Nat) : String := if l.isEmpty then "-" else ",".intercalate (l.map toString)

def parseCsv (s : String) : Option (List Nat) :=
  if s == "-" || s == "" then some [] else (s.splitOn ",").mapM (·.toNat?)

def parseOutcomes (s : String) : Option (List Outcome) :=
  if s == "-" || s == "" then some []
  else (s.splitOn ",").mapM fun t =>
    if t == "p" then some Outcome.panic
    else if t.startsWith "r" then (t.drop 1).toString.toNat?.map Outcome.ret
    else none

def parseKind : String → Option Kind
  | "box" => some .box | "fixed" => some .fixed | "bump" => some .bump | "mut" => some .mut | "rev" => some .rev
  | _ => none

def kvOf (toks : List String) (k : String) : Option String :=
  toks.findSome? fun t => if t.startsWith (k ++ "=") then some (t.drop (k.length + 1)).toString else none

def find (d : DState) (h : String) : Option Entry := d.vecs.find? (·.name == h)

def put (d : DState) (e : Entry) : DState :=
  { vecs := e :: d.vecs.filter (·.name != e.name) }

def del (d : DState) (h : String) : DState := { vecs := d.vecs.filter (·.name != h) }

def showFault : Fault → String
  | .readHole i => s!"fault read-hole {i}"
  | .overwrite i => s!"fault overwrite {i}"
  | .outOfBounds i => s!"fault out-of-bounds {i}"
  | .overlap => "fault overlap"
  | .assertion w => s!"fault assertion {w}"

def showExit {α} (f : α → String) : Exit α → String
  | .ret a => let s := f a; if s.isEmpty then "ret" else "ret:" ++ s
  | .panic true => "panic:drop"
  | .panic false => "panic"

def showUnit (_ : Unit) : String := ""
def showId (i : Id) : String := toString i
def showOptId : Option Id → String
  | none => "none" | some i => s!"some:{i}"

/-- a `BumpBox<[T]>` has no capacity: the slots past `len` are not part of it any more -/
def normalise (k : Kind) (v : Vec) : Vec :=
  match k with
  | .box => { v with slots := v.slots.take v.len }
  | _ => v

def showVec (v : Vec) : String := s!"ids={csv (idsOf (v.slots.take v.len))} len={v.len} cap={v.cap}"

/-- observable part of a result; logs are reported as deltas and then cleared -/
def report (v : Vec) (exit : String) (used : Nat) : String :=
  s!"{showVec v} drops={csv v.dropLog} esc={csv v.escaped} exit={exit} used={used}"

def clearLogs (v : Vec) : Vec := { v with dropLog := [], escaped := [] }

/-- (new vector, exit text, oracle left) of a single-vector operation -/
abbrev OpRes := M (Vec × String × List Outcome)

def pack {α} (f : α → String) (r : M (Out α)) : OpRes :=
  r.map fun o => (o.vec, showExit f o.exit, o.rest)

def runOp (env : Env) (v : Vec) (name : String) (args : List Nat) (o : List Outcome) : Option OpRes :=
  match name, args with
  | "retain", [] => some (pack showUnit (retain env.bombs v o))
  | "dedup_by", [] => some (pack showUnit (dedupBy env.bombs v o))
  | "truncate", [n] => some ((pack showUnit (truncate env.bombs v n)).map fun (a, b, _) => (a, b, o))
  | "clear", [] => some ((pack showUnit (clear env.bombs v)).map fun (a, b, _) => (a, b, o))
  | "pop", [] => some ((pack showOptId (pop v)).map fun (a, b, _) => (a, b, o))
  | "remove", [i] => some ((pack showId (remove v i)).map fun (a, b, _) => (a, b, o))
  | "swap_remove", [i] => some ((pack showId (swapRemove v i)).map fun (a, b, _) => (a, b, o))
  | "push", [id] => some ((pack showUnit (push env v id)).map fun (a, b, _) => (a, b, o))
  | "insert", [i, id] => some ((pack showUnit (insert env v i id)).map fun (a, b, _) => (a, b, o))
  | "extend_clone", [n] => some (pack showUnit (extendFromSliceClone env v n o))
  | "resize", [n, id] => some (pack showUnit (resize env v n id o))
  | _, _ => none

def handleOp (d : DState) (toks : List String) : DState × String :=
  match toks with
  | name :: h :: rest =>
    match find d h with
    | none => (d, "bad-op unknown-handle")
    | some e =>
      let pos := rest.filter (fun t => !(t.contains '='))
      match pos.mapM (·.toNat?), parseOutcomes ((kvOf rest "o").getD "-"), parseCsv ((kvOf rest "bombs").getD "-") with
      | some args, some o, some bombs =>
        let capIn := ((kvOf rest "capin").bind (·.toNat?)).getD 0
        let env : Env := { bombs := bombs, kind := e.kind, capIn := capIn }
        match runOp env (clearLogs e.vec) name args o with
        | none => (d, "bad-op unknown-op")
        | some (.error f) => (d, showFault f)
        | some (.ok (v, exit, restO)) =>
          let v := normalise e.kind v
          (put d { e with vec := clearLogs v }, report v exit (o.length - restO.length))
      | _, _, _ => (d, "bad-op unparsable")
  | _ => (d, "bad-op")

def handle (d : DState) (toks : List String) : DState × String :=
  match toks with
  | "new" :: h :: kind :: rest =>
    match parseKind kind, (kvOf rest "cap").bind (·.toNat?), (kvOf rest "ids").bind parseCsv with
    | some k, some cap, some ids =>
      if ids.length ≤ cap then
        (put d { name := h, kind := k, vec := { slots := I ids ++ H (cap - ids.length), len := ids.length } }, "ok")
      else (d, "bad-op cap<len")
    | _, _, _ => (d, "bad-op unparsable")
  | "op" :: rest => handleOp d rest
  | "drop" :: h :: rest =>
    match find d h, parseCsv ((kvOf rest "bombs").getD "-") with
    | some e, some bombs =>
      match dropVec bombs false (clearLogs e.vec) with
      | .error f => (d, showFault f)
      | .ok r => (del d h, s!"drops={csv r.vec.dropLog} exit={showExit showUnit r.exit}")
    | _, _ => (d, "bad-op")
  | "reset" :: _ => ({}, "ok")
  | _ => (d, "bad-line")

end Driver.CollD
