/-
  Driver/CollD.lean — line protocol of the `coll` engine.

    new <h> <kind> cap=<c> ids=<csv|-> [addr=<bytes> esize=<n> align=<n>]   create vector `h` (kind: box fixed bump mut rev)
    peek <h>                                                the vector is re-read (sibling check)
    op split_off <h> <start> <end> into=<h2> | op split_at <h> <at> into=<l>,<r> | op merge <a> <b> into=<m>
       | op split_first <h> into=<f>,<r> | op split_last <h> into=<l>,<r> | op partition <h> o=<outcomes> into=<l>,<r>
       answer `<h>:ids=…;len=…;cap=…;addr=<bytes|*> … exit=<ret|panic>` (the parts that exist afterwards)
    op <name> <h> <nat args…> [o=<outcomes>] [bombs=<csv>] [capin=<n>] [s=<f|b…>] [fin=<d|k>] [src=<csv>]
        (s: script of `next` / `next_back` calls on an iterator, fin: drop / keep_rest, src: ids of the appended slice)
    drop <h> [bombs=<csv>]                                  the owner is dropped
    outcomes ::= csv of `r<nat>` (returned value / id produced) and `p` (panic); `-` = empty

  Vectors of kind `rev` (`MutBumpVecRev`) are run on `Coll/Rev.lean`; `ids=` is what `as_slice()` shows.

  Answers (compared verbatim with what the harness observed on the real types):
    new  → `ok`
    op   → `ids=<csv> len=<n> cap=<c> drops=<csv> esc=<csv> exit=<ret[:v]|panic|panic:drop> used=<k>`
           operations that consume the vector answer `gone drops=… esc=… exit=… used=…`
    drop → `drops=<csv> exit=<…>`
  A model fault (a hole was read, a live value overwritten, …) answers `fault <what>`; an unknown
  handle / operation `bad-op`.
-/
import BumpProof.Coll.Vecs
import BumpProof.Coll.Iter
import BumpProof.Coll.Split
import BumpProof.Coll.Rev
import BumpProof.Coll.Splice
import BumpProof.Coll.MapVec
import BumpProof.Coll.Flatten

namespace Driver.CollD
open Coll

structure Entry where
  name : String
  kind : Kind
  vec : Vec
  addr : Nat := 0
  deriving Inhabited

structure DState where
  vecs : List Entry := []
  lay : Lay := { esize := 16, align := 8 }
  deriving Inhabited

def csv (l : List Nat) : String := if l.isEmpty then "-" else ",".intercalate (l.map toString)

def parseCsv (s : String) : Option (List Nat) :=
  if s == "-" || s == "" then some [] else (s.splitOn ",").mapM (·.toNat?)

def parseOutcomes (s : String) : Option (List Outcome) :=
  if s == "-" || s == "" then some []
  else (s.splitOn ",").mapM fun t =>
    if t == "p" then some Outcome.panic
    else if t.startsWith "r" then (t.drop 1).toString.toNat?.map Outcome.ret
    else none

def parseKind : String → Option Kind
  | "box" => some .box | "fixed" => some .fixed | "bump" => some .bump | "mut" => some .mut | "rev" => some .rev
  | _ => none

def kvOf (toks : List String) (k : String) : Option String :=
  toks.findSome? fun t => if t.startsWith (k ++ "=") then some (t.drop (k.length + 1)).toString else none

def find (d : DState) (h : String) : Option Entry := d.vecs.find? (·.name == h)

def put (d : DState) (e : Entry) : DState :=
  { vecs := e :: d.vecs.filter (·.name != e.name) }

def del (d : DState) (h : String) : DState := { vecs := d.vecs.filter (·.name != h) }

def showFault : Fault → String
  | .readHole i => s!"fault read-hole {i}"
  | .overwrite i => s!"fault overwrite {i}"
  | .outOfBounds i => s!"fault out-of-bounds {i}"
  | .overlap => "fault overlap"
  | .assertion w => s!"fault assertion {w}"

def showExit {α} (f : α → String) : Exit α → String
  | .ret a => let s := f a; if s.isEmpty then "ret" else "ret:" ++ s
  | .panic true => "panic:drop"
  | .panic false => "panic"

def showUnit (_ : Unit) : String := ""
def showId (i : Id) : String := toString i
def showOptId : Option Id → String
  | none => "none" | some i => s!"some:{i}"

/-- a `BumpBox<[T]>` has no capacity: the slots past `len` are not part of it any more -/
def normalise (k : Kind) (v : Vec) : Vec :=
  match k with
  | .box => { v with slots := v.slots.take v.len }
  | _ => v

def showVec (v : Vec) : String := s!"ids={csv (idsOf (v.slots.take v.len))} len={v.len} cap={v.cap}"
def showRVec (v : Vec) : String := s!"ids={csv v.rabs} len={v.len} cap={v.cap}"

/-- observable part of a result; logs are reported as deltas and then cleared -/
def report (k : Kind) (v : Vec) (exit : String) (used : Nat) : String :=
  s!"{if k == .rev then showRVec v else showVec v} drops={csv v.dropLog} esc={csv v.escaped} exit={exit} used={used}"

def clearLogs (v : Vec) : Vec := { v with dropLog := [], escaped := [] }

/-- (new vector, exit text, oracle left) of a single-vector operation -/
abbrev OpRes := M (Vec × String × List Outcome)

def pack {α} (f : α → String) (r : M (Out α)) : OpRes :=
  r.map fun o => (o.vec, showExit f o.exit, o.rest)

def runOp (env : Env) (v : Vec) (name : String) (args : List Nat) (o : List Outcome) : Option OpRes :=
  match name, args with
  | "retain", [] => some (pack showUnit (retain env.bombs v o))
  | "dedup_by", [] => some (pack showUnit (dedupBy env.bombs v o))
  | "truncate", [n] => some ((pack showUnit (truncate env.bombs v n)).map fun (a, b, _) => (a, b, o))
  | "clear", [] => some ((pack showUnit (clear env.bombs v)).map fun (a, b, _) => (a, b, o))
  | "pop", [] => some ((pack showOptId (pop v)).map fun (a, b, _) => (a, b, o))
  | "remove", [i] => some ((pack showId (remove v i)).map fun (a, b, _) => (a, b, o))
  | "swap_remove", [i] => some ((pack showId (swapRemove v i)).map fun (a, b, _) => (a, b, o))
  | "push", [id] => some ((pack showUnit (push env v id)).map fun (a, b, _) => (a, b, o))
  | "push_with", [id] => some ((pack showUnit (pushWith env v id)).map fun (a, b, _) => (a, b, o))
  | "insert", [i, id] => some ((pack showUnit (insert env v i id)).map fun (a, b, _) => (a, b, o))
  | "extend_clone", [n] => some (pack showUnit (extendFromSliceClone env v n o))
  | "resize", [n, id] => some (pack showUnit (resize env v n id o))
  | "resize_with", [n] => some (pack showUnit (resizeWith env v n o))
  | "pop_if", [] => some (pack showOptId (popIf v o))
  | "dedup_by_key", [] => some (pack showUnit (dedupByKey env.bombs v o))
  | "extend_from_within_clone", [a, b] => some (pack showUnit (extendFromWithinClone env v a b o))
  | "reserve", [n] =>
    some (.ok (match reserve env v n with | some v' => (v', "ret", o) | none => (v, "panic", o)))
  | "reserve_exact", [n] =>
    some (.ok (match reserveExact env v n with | some v' => (v', "ret", o) | none => (v, "panic", o)))
  | "shrink_to_fit", [] => some (.ok (shrinkToFit env v, "ret", o))
  | "shrink_to", [n] => some (.ok (shrinkTo env v n, "ret", o))
  | _, _ => none

def showYields (l : List (Option Id)) : String :=
  if l.isEmpty then "-" else "/".intercalate (l.map fun | none => "none" | some i => toString i)

def parseScript (s : String) : Option (List Pull) :=
  if s == "-" || s == "" then some []
  else s.toList.mapM fun c => if c == 'f' then some Pull.front else if c == 'b' then some Pull.back else none

/-- `into_flattened` of a vector of arrays announced as its buffer of `T`-sized slots -/
def runFlatten (v : Vec) (o : List Outcome) (rest : List String) : Option OpRes := do
  let n ← (kvOf rest "n").bind String.toNat?
  let arrLen ← (kvOf rest "arrlen").bind String.toNat?
  let arrCap ← (kvOf rest "arrcap").bind String.toNat?
  let (w, claimed) := intoFlattened { n := n, arrLen := arrLen, arrCap := arrCap, flat := v.slots, dropLog := v.dropLog }
  -- the capacity the result CLAIMS must be the buffer; anything else shows up as a different `cap=`
  let w := if claimed == w.cap then w else { w with slots := H claimed }
  some (.ok ({ w with escaped := v.escaped }, "ret", o))

/-- operations with an iterator script / a second operand / that consume the vector:
    `some (result, consumed?)` -/
def runSpecial (env : Env) (v : Vec) (name : String) (args : List Nat) (o : List Outcome) (rest : List String) :
    Option (OpRes × Bool) :=
  match name, args with
  | "drain", [s, e] => do
    let script ← parseScript ((kvOf rest "s").getD "-")
    let fin ← match (kvOf rest "fin").getD "d" with | "d" => some Fin.drop | "k" => some Fin.keepRest | _ => none
    pure ((pack showYields (drain env.bombs v s e script fin)).map (fun (a, b, _) => (a, b, o)), false)
  | "splice", [a, b] => do
    let src ← (kvOf rest "src").bind parseCsv
    -- `pulls=fbbf…`: `next()` / `next_back()` on the `Splice` (a number `k` is read as `k` front pulls)
    let ptxt := (kvOf rest "pulls").getD "-"
    let script ← match ptxt.toNat? with
      | some k => some (List.replicate k Pull.front)
      | none => parseScript ptxt
    let hint := ((kvOf rest "hint").bind String.toNat?).getD 1000000
    -- `lie=<n>`: the source reports `size_hint().0 = n` whatever it has left; `maxcap=`: `isize::MAX / size_of::<T>()`
    let lie := (kvOf rest "lie").bind String.toNat?
    let maxCap := ((kvOf rest "maxcap").bind String.toNat?).getD (2 ^ 59)
    pure ((pack showYields (splice env v a b src hint lie maxCap script)).map (fun (a, b, _) => (a, b, o)), false)
  | "into_flattened", [] => (runFlatten v o rest).map (·, false)
  | "extend_iter", [] => do
    let src ← (kvOf rest "src").bind parseCsv
    let hint := ((kvOf rest "hint").bind String.toNat?).getD 1000000
    let lie := (kvOf rest "lie").bind String.toNat?
    let maxCap := ((kvOf rest "maxcap").bind String.toNat?).getD (2 ^ 59)
    pure ((pack showUnit (extendIter env v src hint lie maxCap)).map (fun (a, b, _) => (a, b, o)), false)
  | "map_vec", [] => do
    let st ← (kvOf rest "st").bind String.toNat?
    let su ← (kvOf rest "su").bind String.toNat?
    let al := (kvOf rest "al").getD "1" == "1"
    let r := vecMap env.bombs { st := st, su := su, alignOk := al } v o
    let consumed := match r with | .ok out => (match out.exit with | .panic _ => true | _ => false) | _ => false
    some (pack showUnit r, consumed)
  | "drain_forget", [s, e] => do
    let script ← parseScript ((kvOf rest "s").getD "-")
    -- the leaked `Drain` never runs its `Drop`; for what follows, the slots beyond the length are just spare
    -- capacity again (their values are leaked, not owned by anybody)
    let r := (drainForget v s e script).map fun out =>
      { out with vec := { out.vec with slots := out.vec.slots.take out.vec.len ++ H (out.vec.cap - out.vec.len) } }
    pure ((pack showYields r).map (fun (a, b, _) => (a, b, o)), false)
  | "extract_if", [calls] => some (pack csv (extractIf v calls o), false)
  | "into_iter", [] => do
    let script ← parseScript ((kvOf rest "s").getD "-")
    pure ((pack showYields (intoIter env.bombs v script)).map (fun (a, b, _) => (a, b, o)), true)
  | "map_in_place", [] =>
    let r := mapInPlace env.bombs v o
    let consumed := match r with | .ok out => (match out.exit with | .panic _ => true | _ => false) | _ => false
    some (pack showUnit r, consumed)
  | "append", [] => do
    let src ← (kvOf rest "src").bind parseCsv
    let other : Vec := { slots := I src, len := src.length }
    let r : OpRes := match append env v other with
      | .error f => .error f
      | .ok (out, other') =>
        -- the owned slice that was passed in is gone after the call: what it dropped is part of the delta
        .ok ({ out.vec with dropLog := out.vec.dropLog ++ other'.dropLog }, showExit showUnit out.exit, o)
    pure (r, false)
  | _, _ => none

/-- `MutBumpVecRev` -/
def runRevOp (env : Env) (v : Vec) (name : String) (args : List Nat) (o : List Outcome) (rest : List String) :
    Option (OpRes × Bool) :=
  let keep (r : OpRes) : OpRes := r.map fun (a, b, _) => (a, b, o)
  match name, args with
  | "into_flattened", [] => (runFlatten v o rest).map (·, false)
  | "push", [id] => some (keep (pack showUnit (rpush env v id)), false)
  | "push_with", [id] =>
    some (keep (match rreserve env v 1 with | none => .ok (v, "panic", o) | some _ => pack showUnit (rpush env v id)), false)
  | "pop", [] => some (keep (pack showOptId (rpop v)), false)
  | "clear", [] => some (keep (pack showUnit (rclear env.bombs v)), false)
  | "truncate", [n] => some (keep (pack showUnit (rtruncate env.bombs v n)), false)
  | "insert", [i, id] => some (keep (pack showUnit (rinsert env v i id)), false)
  | "remove", [i] => some (keep (pack showId (rremove v i)), false)
  | "swap_remove", [i] => some (keep (pack showId (rswapRemove v i)), false)
  | "extend_clone", [n] => some (pack showUnit (rextendFromSliceClone env v n o), false)
  | "resize", [n, id] => some (pack showUnit (rresize env v n id o), false)
  | "resize_with", [n] => some (pack showUnit (rresizeWith env v n o), false)
  | "pop_if", [] => some (pack showOptId (rpopIf v o), false)
  | "reserve", [n] =>
    some (.ok (match rreserve env v n with | some v' => (v', "ret", o) | none => (v, "panic", o)), false)
  | "reserve_exact", [n] =>
    some (.ok (match rreserve env v n with | some v' => (v', "ret", o) | none => (v, "panic", o)), false)
  | "into_iter", [] => do
    let script ← parseScript ((kvOf rest "s").getD "-")
    pure (keep (pack showYields (rintoIter env.bombs v script)), true)
  | "append", [] => do
    let src ← (kvOf rest "src").bind parseCsv
    let other : Vec := { slots := I src, len := src.length }
    let r : OpRes := match rappend env v other with
      | .error f => .error f
      | .ok (out, other') => .ok ({ out.vec with dropLog := out.vec.dropLog ++ other'.dropLog }, showExit showUnit out.exit, o)
    pure (r, false)
  | _, _ => none

def showPart (name : String) (p : Part) : String :=
  let a := if p.vec.cap == 0 then "*" else toString p.addr
  s!"{name}:ids={csv (idsOf (p.vec.slots.take p.vec.len))};len={p.vec.len};cap={p.vec.cap};addr={a}"

def partOf (e : Entry) : Part := { vec := e.vec, addr := e.addr }

def putPart (d : DState) (name : String) (k : Kind) (p : Part) : DState :=
  put d { name := name, kind := k, vec := clearLogs p.vec, addr := p.addr }

/-- splitting / merging operations (C16) -/
def handleSplit (d : DState) (name h : String) (rest : List String) : Option (DState × String) :=
  let pos := (rest.filter (fun t => !(t.contains '='))).mapM (·.toNat?)
  let into := ((kvOf rest "into").getD "").splitOn ","
  match name, find d h, pos, into with
  | "split_off", some e, some [s, en], [b] =>
    match splitOff d.lay (partOf e) s en with
    | none => some (d, s!"{showPart h (partOf e)} exit=panic")
    | some (self', other) =>
      some (putPart (putPart d h e.kind self') b e.kind other, s!"{showPart h self'} {showPart b other} exit=ret")
  | "split_at", some e, some [at_], [l, r] =>
    match splitAt d.lay (partOf e) at_ with
    | none => some (d, s!"{showPart h (partOf e)} exit=panic")
    | some (pl, pr) => some (putPart (putPart (del d h) l e.kind pl) r e.kind pr, s!"{showPart l pl} {showPart r pr} exit=ret")
  | "split_first", some e, some [], [f, r] =>
    match splitFirst d.lay (partOf e) with
    | none => some (del d h, "exit=ret:none")
    | some (pf, pr) => some (putPart (putPart (del d h) f e.kind pf) r e.kind pr, s!"{showPart f pf} {showPart r pr} exit=ret")
  | "split_last", some e, some [], [l, r] =>
    match splitLast d.lay (partOf e) with
    | none => some (del d h, "exit=ret:none")
    | some (pl, pr) => some (putPart (putPart (del d h) l e.kind pl) r e.kind pr, s!"{showPart l pl} {showPart r pr} exit=ret")
  | "partition", some e, some [], [l, r] =>
    match parseOutcomes ((kvOf rest "o").getD "-") with
    | none => none
    | some o =>
      match partition d.lay [] (partOf { e with vec := clearLogs e.vec }) o with
      | .error f => some (d, showFault f)
      | .ok (some (pl, pr), _, o') =>
        some (putPart (putPart (del d h) l e.kind pl) r e.kind pr, s!"{showPart l pl} {showPart r pr} exit=ret used={o.length - o'.length}")
      | .ok (none, v', o') => some (del d h, s!"drops={csv v'.dropLog} exit=panic used={o.length - o'.length}")
  | "merge", some e, _, [m] =>
    match rest.filter (fun t => !(t.contains '=')) with
    | [h2] =>
      match find d h2 with
      | none => none
      | some e2 =>
        match merge d.lay (partOf e) (partOf e2) with
        -- a rejected merge unwinds: both boxes are dropped by the unwind (parameters in reverse order: `other`, then `self`)
        | none => some (del (del d h) h2, s!"drops={csv (idsOf (e2.vec.slots.take e2.vec.len) ++ idsOf (e.vec.slots.take e.vec.len))} exit=panic")
        | some pm => some (putPart (del (del d h) h2) m e.kind pm, s!"{showPart m pm} exit=ret")
    | _ => none
  | _, _, _, _ => none

/-- `via=try`: the operation went through its `try_*` twin.  Same model operation; only when the reservation
    is refused does it differ: `Err(_)` is returned and the by-value arguments are dropped outside an unwind
    (`tryRefusedExit`) -/
def tryExit (env : Env) (k : Kind) (v : Vec) (name : String) (args : List Nat) (rest : List String) (exit : String) : String :=
  if kvOf rest "via" != some "try" then exit
  else
    let res (n : Nat) : Bool := if k == .rev then (rreserve env v n).isNone else (reserve env v n).isNone
    let resOne : Bool := if k == .rev then (rreserve env v 1).isNone else (reserveOne env v).isNone
    let refusedArgs : Option (List Id) :=
      match name, args with
      | "push", [id] => if resOne then some [id] else none
      | "insert", [i, id] => if i ≤ v.len ∧ resOne then some [id] else none
      | "resize", [n, id] => if n > v.len ∧ res (n - v.len) then some [id] else none
      | "append", [] =>
        match (kvOf rest "src").bind parseCsv with
        | some src => if res src.length then some src else none
        | none => none
      | _, _ => none
    match refusedArgs with
    | some a => showExit showUnit (tryRefusedExit env.bombs a)
    | none => exit

def handleOp (d : DState) (toks : List String) : DState × String :=
  match toks with
  | name :: h :: rest =>
    if name == "split_off" || name == "split_at" || name == "merge" || name == "split_first" || name == "split_last" || name == "partition" then
      match handleSplit d name h rest with
      | some r => r
      | none => (d, "bad-op split")
    else
    match find d h with
    | none => (d, "bad-op unknown-handle")
    | some e =>
      let pos := rest.filter (fun t => !(t.contains '='))
      match pos.mapM (·.toNat?), parseOutcomes ((kvOf rest "o").getD "-"), parseCsv ((kvOf rest "bombs").getD "-") with
      | some args, some o, some bombs =>
        let capIn := ((kvOf rest "capin").bind (·.toNat?)).getD 0
        -- `maxcap=`: `isize::MAX / size_of::<T>()` (absent: unbounded)
        let env : Env := { bombs := bombs, kind := e.kind, capIn := capIn, maxCap := (kvOf rest "maxcap").bind (·.toNat?) }
        match (if e.kind == .rev then (match runRevOp env (clearLogs e.vec) name args o rest with | some r => some r | none => some (.error (.assertion "op not available on MutBumpVecRev"), false))
               else runSpecial env (clearLogs e.vec) name args o rest) with
        | some (.error f, _) => (d, showFault f)
        | some (.ok (v, exit, restO), true) =>
          (del d h, s!"gone drops={csv v.dropLog} esc={csv v.escaped} exit={exit} used={o.length - restO.length}")
        | some (.ok (v, exit, restO), false) =>
          let v := normalise e.kind v
          let exit := tryExit env e.kind (clearLogs e.vec) name args rest exit
          (put d { e with vec := clearLogs v }, report e.kind v exit (o.length - restO.length))
        | none =>
        match runOp env (clearLogs e.vec) name args o with
        | none => (d, "bad-op unknown-op")
        | some (.error f) => (d, showFault f)
        | some (.ok (v, exit, restO)) =>
          let v := normalise e.kind v
          let exit := tryExit env e.kind (clearLogs e.vec) name args rest exit
          -- `dedup_by`: the pairs the callback is handed (ghost trace `dedupCalls`)
          let calls := if name == "dedup_by" then
              let cs := dedupCalls env.bombs (clearLogs e.vec) o
              " args=" ++ (if cs.isEmpty then "-" else ",".intercalate (cs.map fun (a, b) => s!"{a}:{b}"))
            else ""
          (put d { e with vec := clearLogs v }, report e.kind v exit (o.length - restO.length) ++ calls)
      | _, _, _ => (d, "bad-op unparsable")
  | _ => (d, "bad-op")

def handle (d : DState) (toks : List String) : DState × String :=
  match toks with
  | "new" :: h :: kind :: rest =>
    match parseKind kind, (kvOf rest "cap").bind (·.toNat?), (kvOf rest "ids").bind parseCsv with
    | some k, some cap, some ids =>
      if ids.length ≤ cap then
        let addr := ((kvOf rest "addr").bind (·.toNat?)).getD 0
        let lay : Lay := { esize := ((kvOf rest "esize").bind (·.toNat?)).getD d.lay.esize,
                           align := ((kvOf rest "align").bind (·.toNat?)).getD d.lay.align }
        let slots := if k == .rev then H (cap - ids.length) ++ I ids else I ids ++ H (cap - ids.length)
        (put { d with lay := lay } { name := h, kind := k, addr := addr, vec := { slots := slots, len := ids.length } }, "ok")
      else (d, "bad-op cap<len")
    | _, _, _ => (d, "bad-op unparsable")
  | "op" :: rest => handleOp d rest
  | "drop" :: h :: rest =>
    match find d h, parseCsv ((kvOf rest "bombs").getD "-") with
    | some e, some bombs =>
      match (if e.kind == .rev then rdropVec bombs false (clearLogs e.vec) else dropVec bombs false (clearLogs e.vec)) with
      | .error f => (d, showFault f)
      | .ok r => (del d h, s!"drops={csv r.vec.dropLog} exit={showExit showUnit r.exit}")
    | _, _ => (d, "bad-op")
  | ["peek", h] =>
    match find d h with
    | some e => (d, if e.kind == .rev then showRVec e.vec else showVec e.vec)
    | none => (d, "bad-op unknown-handle")
  | "reset" :: _ => ({}, "ok")
  | _ => (d, "bad-line")

end Driver.CollD
