/-
  Driver/MainArena.lean — the `arena` engine's line-protocol driver as an executable of its own
  (`driver-arena`): a build failure in another engine's handler does not take this one down.
-/
import Driver.Loop
import Driver.ArenaD

def main : IO UInt32 := do
  Driver.loopGen Driver.ArenaD.handle (← IO.getStdin) (← IO.getStdout) default
  return 0
