/-
  Driver/Pure.lean — line-protocol handlers for the translated pure functions
  (engine `purefn`).  One query per line, one answer per line.
-/
import BumpProof.Rs
import BumpProof.Gen.Bumping
import BumpProof.Gen.SizeConfig
import BumpProof.Gen.LibArith
import BumpProof.Spec.Bump
import BumpProof.Spec.Size

namespace Driver.Pure
open Rs

def nat? (s : String) : Option Nat := s.toNat?
def bool? (s : String) : Option Bool := if s == "1" then some true else if s == "0" then some false else none

def showM {α} (f : α → String) : M α → String
  | .ok v => "ok " ++ f v
  | .error _ => "panic"

def showOpt {α} (f : α → String) : Option α → String
  | some v => "some " ++ f v
  | none => "none"

def showPair (p : Nat × Nat) : String := s!"{p.1} {p.2}"

def mkProps (a : List Nat) (h : List Bool) : Option Gen.Bumping.BumpProps :=
  match a, h with
  | [st, en, ma, sz, al], [aic, sic, sma] =>
    some { start := st, «end» := en, min_align := ma, layout := { size := sz, align := al },
           align_is_const := aic, size_is_const := sic, size_is_multiple_of_align := sma }
  | _, _ => none

def mkCfg (a : List Nat) : Option (Gen.SizeConfig.ChunkSizeConfig × List Nat) :=
  match a with
  | up :: osz :: oal :: hsz :: hal :: rest =>
    some ({ up := up != 0, assumed_malloc_overhead_layout := { size := osz, align := oal },
            chunk_header_layout := { size := hsz, align := hal } }, rest)
  | _ => none

/-- answer one query; `none` = malformed query -/
def handle (toks : List String) : Option String := do
  match toks with
  | fn :: args =>
    let nums ← args.mapM nat?
    match fn, nums with
    -- src/bumping.rs (generated)
    | "bump_up", [st, en, ma, sz, al, a, b, c] =>
      let p ← mkProps [st, en, ma, sz, al] [a != 0, b != 0, c != 0]
      pure (showM (showOpt fun (r : Gen.Bumping.BumpUp) => s!"{r.ptr} {r.new_pos}") (Gen.Bumping.bump_up p))
    | "bump_down", [st, en, ma, sz, al, a, b, c] =>
      let p ← mkProps [st, en, ma, sz, al] [a != 0, b != 0, c != 0]
      pure (showM (showOpt toString) (Gen.Bumping.bump_down p))
    | "bump_prepare_up", [st, en, ma, sz, al, a, b, c] =>
      let p ← mkProps [st, en, ma, sz, al] [a != 0, b != 0, c != 0]
      pure (showM (showOpt showPair) (Gen.Bumping.bump_prepare_up p))
    | "bump_prepare_down", [st, en, ma, sz, al, a, b, c] =>
      let p ← mkProps [st, en, ma, sz, al] [a != 0, b != 0, c != 0]
      pure (showM (showOpt showPair) (Gen.Bumping.bump_prepare_down p))
    | "valid", [up, st, en, ma, sz, al, a, b, c] =>
      let p ← mkProps [st, en, ma, sz, al] [a != 0, b != 0, c != 0]
      pure (showM (fun _ => "unit") (Gen.Bumping.debug_assert_valid p (up != 0)))
    -- wide-integer specs
    | "spec_bump_up", [st, en, ma, sz, al] => pure (showOpt showPair (Spec.bumpUp st en sz al ma))
    | "spec_bump_down", [st, en, ma, sz, al] => pure (showOpt toString (Spec.bumpDown st en sz al ma))
    | "spec_prepare_up", [st, en, _, sz, al] => pure (showOpt showPair (Spec.prepareUp st en sz al))
    | "spec_prepare_down", [st, en, _, sz, al] => pure (showOpt showPair (Spec.prepareDown st en sz al))
    -- src/chunk/size_config.rs (generated)
    | "align_size", _ =>
      let (cfg, rest) ← mkCfg nums
      match rest with
      | [g] => pure (showM toString (Gen.SizeConfig.align_size cfg g))
      | _ => none
    | "calc_size_from_hint", _ =>
      let (cfg, rest) ← mkCfg nums
      match rest with
      | [h] => pure (showM (showOpt toString) (Gen.SizeConfig.calc_size_from_hint cfg h))
      | _ => none
    | "calc_hint_from_capacity", _ =>
      let (cfg, rest) ← mkCfg nums
      match rest with
      | [sz, al] => pure (showM (showOpt toString) (Gen.SizeConfig.calc_hint_from_capacity cfg { size := sz, align := al }))
      | _ => none
    | "calc_hint_from_capacity_bytes", _ =>
      let (cfg, rest) ← mkCfg nums
      match rest with
      | [b] => pure (showM (showOpt toString) (Gen.SizeConfig.calc_hint_from_capacity_bytes cfg b))
      | _ => none
    | "spec_calc_size", [up, hsz, hal, h] => pure (showOpt toString (Spec.calcSize (up != 0) { size := hsz, align := hal } h))
    | "spec_hint_from_capacity", [up, hsz, hal, sz, al] =>
      pure (toString (Spec.hintFromCapacity (up != 0) { size := hsz, align := hal } { size := sz, align := al }))
    -- src/lib.rs helpers (generated)
    | "up_align_usize_unchecked", [a, b] => pure (showM toString (Gen.LibArith.up_align_usize_unchecked a b))
    | "down_align_usize", [a, b] => pure (showM toString (Gen.LibArith.down_align_usize a b))
    | "lib_bump_down", [a, b, c] => pure (showM toString (Gen.LibArith.bump_down a b c))
    | "spec_lib_bump_down", [a, b, c] => pure (toString (Spec.downAlign (a - b) c))
    | "min_non_zero_cap", [a] => pure (showM toString (Gen.LibArith.min_non_zero_cap a))
    | "align_pos", [u, a, b] => pure (showM toString (Gen.LibArith.align_pos (u != 0) a b))
    -- Rs.lean primitives (trusted layer, differential-tested)
    | "rs_add", [a, b] => pure (showM toString (Rs.add a b))
    | "rs_sub", [a, b] => pure (showM toString (Rs.sub a b))
    | "rs_mul", [a, b] => pure (showM toString (Rs.mul a b))
    | "rs_rem", [a, b] => pure (showM toString (Rs.rem a b))
    | "rs_band", [a, b] => pure (toString (Rs.band a b))
    | "rs_bnot", [a] => pure (toString (Rs.bnot a))
    | "rs_wrapping_sub", [a, b] => pure (toString (Rs.wrapping_sub a b))
    | "rs_saturating_add", [a, b] => pure (toString (Rs.saturating_add a b))
    | "rs_saturating_sub", [a, b] => pure (toString (Rs.saturating_sub a b))
    | "rs_checked_add", [a, b] => pure (showOpt toString (Rs.checked_add a b))
    | "rs_checked_sub", [a, b] => pure (showOpt toString (Rs.checked_sub a b))
    | "rs_checked_mul", [a, b] => pure (showOpt toString (Rs.checked_mul a b))
    | "rs_npot", [a] => pure (showOpt toString (Rs.checked_next_power_of_two a))
    | "rs_is_pow2", [a] => pure (toString (Rs.is_power_of_two a))
    | "rs_as_isize", [a] => pure (toString (Rs.as_isize a))
    | "rs_max", [a, b] => pure (toString (Rs.max a b))
    | "rs_nonzero", [a] => pure (showOpt toString (Rs.nonZero a))
    | _, _ => none
  | [] => none

end Driver.Pure
