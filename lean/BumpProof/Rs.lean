/-
  Rs.lean — meaning of the Rust integer primitives used by the translated
  (generated) code, on a 64-bit target.  HAND-WRITTEN AND TRUSTED; every
  definition is differential-tested against rustc by `harness/purefn` on
  every run (engine `purefn`, section `rs`).

  `usize` values are `Nat`s; the range invariant `≤ MAX` is carried by the
  preconditions of the theorems.  The *checked* operators (`add`, `sub`, `mul`,
  `rem`) throw on overflow, mirroring a debug build (overflow checks on); a
  theorem `f x = .ok y` therefore also shows that the release build (wrapping)
  computes the same `y`.
-/
namespace Rs

/-- `usize::MAX` on a 64-bit target. -/
def MAX : Nat := 2^64 - 1
/-- `isize::MAX` on a 64-bit target. -/
def IMAX : Nat := 2^63 - 1

inductive Err where
  | overflow      -- arithmetic overflow (debug build panics, release wraps)
  | assertion     -- a `debug_assert!` failed
  | unreachable   -- `unreachable!` / `unreachable_unchecked`
  deriving DecidableEq, Repr, Inhabited

abbrev M := Except Err

/-- `a + b` -/
def add (a b : Nat) : M Nat := if a + b ≤ MAX then pure (a + b) else throw .overflow
/-- `a - b` -/
def sub (a b : Nat) : M Nat := if b ≤ a then pure (a - b) else throw .overflow
/-- `a * b` -/
def mul (a b : Nat) : M Nat := if a * b ≤ MAX then pure (a * b) else throw .overflow
/-- `a % b` -/
def rem (a b : Nat) : M Nat := if b = 0 then throw .overflow else pure (a % b)
/-- `a & b` -/
def band (a b : Nat) : Nat := a &&& b
/-- `!a` (64-bit complement) -/
def bnot (a : Nat) : Nat := MAX - a
def wrapping_sub (a b : Nat) : Nat := (a + 2^64 - b) % 2^64
def wrapping_add (a b : Nat) : Nat := (a + b) % 2^64
def saturating_add (a b : Nat) : Nat := if a + b ≤ MAX then a + b else MAX
def saturating_sub (a b : Nat) : Nat := a - b
def checked_add (a b : Nat) : Option Nat := if a + b ≤ MAX then some (a + b) else none
def checked_sub (a b : Nat) : Option Nat := if b ≤ a then some (a - b) else none
def checked_mul (a b : Nat) : Option Nat := if a * b ≤ MAX then some (a * b) else none

/-- least power of two `≥ a` (`1` for `a = 0`), searched from `2^k`; `fuel` bounds the search. -/
def npotFrom (a : Nat) : Nat → Nat → Nat
  | 0, p => p
  | fuel+1, p => if a ≤ p then p else npotFrom a fuel (2*p)

/-- `usize::checked_next_power_of_two` -/
def checked_next_power_of_two (a : Nat) : Option Nat :=
  let p := npotFrom a 64 1
  if p ≤ MAX then some p else none

/-- `usize::is_power_of_two` -/
def is_power_of_two (a : Nat) : Bool := a != 0 && (a &&& (a - 1)) == 0

/-- `a as isize` -/
def as_isize (a : Nat) : Int := if a < 2^63 then (a : Int) else (a : Int) - 2^64

/-- `debug_assert!(b)` -/
def assert (b : Bool) : M Unit := if b then pure () else throw .assertion

/-- `core::alloc::Layout` -/
structure Layout where
  size : Nat
  align : Nat
  deriving DecidableEq, Repr, Inhabited

/-- what `Layout::from_size_align` accepts -/
def Layout.Valid (l : Layout) : Prop :=
  (∃ k, k < 64 ∧ l.align = 2^k) ∧ l.size + (l.align - 1) ≤ IMAX

/-- `NonZeroUsize::new` -/
def nonZero (a : Nat) : Option Nat := if a = 0 then none else some a

/-- `usize::max` / `Ord::max` -/
def max (a b : Nat) : Nat := if a ≥ b then a else b

end Rs
