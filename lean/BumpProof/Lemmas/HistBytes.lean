/-
  Lemmas/HistBytes.lean — property C02 at the step level, for the invariant `Arena.Hist.Inv`:
  a step of the arena model leaves every byte of every block that stays live (same ghost block) and
  is not the target of a `.write` unchanged (`BytesKept`).

  This file: the two general principles (`bytesKept_of_memExt` for operations that never write,
  `bytesKept_of_frame` for operations that write only inside a block they register) and all
  operations that never write.  `HistBytes2.lean`: the writing operations and the step theorem.
-/
import BumpProof.Lemmas.HistOpsD
import BumpProof.Lemmas.HistOpsGrow
import BumpProof.Lemmas.HistOpsShrink
import BumpProof.Lemmas.HistStep
import BumpProof.Props.C02
set_option linter.unusedSimpArgs false
set_option linter.unusedVariables false
namespace Arena.Hist
open Rs
variable {cfg : Cfg}

/-- the bytes of every block that is live before AND after the step (same ghost block: same id, address, size)
    and is not the target of a `.write` are unchanged -/
def BytesKept (g g' : GState) (op : Op) : Prop :=
  ∀ b ∈ g.s.live, b ∈ g'.s.live → (∀ seed, op ≠ .write b.id seed) →
    ∀ k, k < b.size → readByte g'.s (b.addr + k) = readByte g.s (b.addr + k)

/-! ## General principles -/

/-- every byte of a live block is a byte of a chunk -/
theorem live_inChunks {g : GState} (h : Inv cfg g) {b : Block} (hb : b ∈ g.s.live) {k : Nat} (hk : k < b.size) :
    Mem.InChunks g.s (b.addr + k) :=
  (C01.liveOK_block_in_chunk h.live hb (by omega)).inChunks (by omega) (by omega)

/-- an operation that never writes (chunks kept with identical bytes, new chunks appended) -/
theorem bytesKept_of_memExt {g g' : GState} {op : Op} (h : Inv cfg g) (hm : Mem.MemExt g.s g'.s) :
    BytesKept g g' op :=
  fun b hb _ _ k hk => hm.readByte (live_inChunks h hb hk)

/-- an operation after which nothing is live -/
theorem bytesKept_of_nil {g g' : GState} {op : Op} (hl : g'.s.live = []) : BytesKept g g' op := by
  intro b _ hb'
  rw [hl] at hb'
  cases hb'

/-- an operation that writes only inside `[np, np+total)` and registers exactly this range as a block with a
    fresh id: the live blocks of the final state are pairwise disjoint, so no surviving block was touched -/
theorem bytesKept_of_frame {g g' : GState} {op : Op} (h : Inv cfg g) (hl' : Mem.LiveOK cfg g'.s) {np total : Nat}
    (hfr : ∀ a, (a < np ∨ np + total ≤ a) → Mem.InChunks g.s a → readByte g'.s a = readByte g.s a)
    (hnew : ∃ nb ∈ g'.s.live, nb.id = g.s.nextId ∧ nb.addr = np ∧ nb.size = total) : BytesKept g g' op := by
  intro b hb hb' _ k hk
  obtain ⟨nb, hnb, e1, e2, e3⟩ := hnew
  have hne : b ≠ nb := by
    intro e
    have := h.ids b hb
    rw [e, e1] at this
    omega
  have hd := Mem.pairwise_of_mem_ne (fun _ _ => Mem.BlocksDisjoint.symm) hl'.disjoint hb' hnb hne
  unfold Mem.BlocksDisjoint at hd
  rw [e2, e3] at hd
  exact hfr _ (by omega) (live_inChunks h hb hk)

/-- the block registered by `addBlock` -/
theorem addBlock_new (s : State) (a sz al init : Nat) :
    ∃ nb ∈ (Arena.addBlock s a sz al init).1.live, nb.id = s.nextId ∧ nb.addr = a ∧ nb.size = sz :=
  ⟨_, List.mem_append_right _ (List.mem_singleton.mpr rfl), rfl, rfl, rfl⟩

/-! ## Operations that never write -/

/-- ghost updates after a non-writing model function -/
theorem memExt_chunks {s s' t : State} (h : Mem.MemExt s s') (e : t.chunks = s'.chunks) : Mem.MemExt s t :=
  h.trans (Mem.MemExt.of_chunks_eq e)

/-- closing tactic for the leaves of a non-writing operation -/
syntax "memext_leaf" : tactic
macro_rules
  | `(tactic| memext_leaf) =>
    `(tactic| first
      | exact Mem.MemExt.of_chunks_eq rfl
      | (have hm := Mem.newChunk_memExt (by assumption); exact memExt_chunks hm rfl)
      | (have hm := Mem.newChunkForCapacity_memExt (by assumption); exact memExt_chunks hm rfl)
      | (have hm := Mem.alloc_memExt (by assumption); exact memExt_chunks hm rfl)
      | (have hm := Mem.allocGeneric_memExt (by assumption); exact memExt_chunks hm rfl)
      | (have hm := Mem.reserve_memExt (by assumption); exact memExt_chunks hm rfl)
      | (have hm := Mem.reserveDyn_memExt (by assumption); exact memExt_chunks hm rfl)
      | (have hm := Mem.deallocate_memOf (by assumption); exact memExt_chunks (Mem.MemExt.of_eq hm) rfl)
      | (have hm := Mem.resetTo_memOf (by assumption); exact memExt_chunks (Mem.MemExt.of_eq hm) rfl)
      | (have hm := Mem.alignTo_memOf (by assumption); exact memExt_chunks (Mem.MemExt.of_eq hm) rfl)
      | (have hm := Mem.alignGuardDrop_memOf (by assumption); exact memExt_chunks (Mem.MemExt.of_eq hm) rfl)
      | (have hm1 := Mem.alignGuardDrop_memOf (by assumption); have hm2 := Mem.alignChunkAt_memOf (by assumption)
         exact memExt_chunks (Mem.MemExt.of_eq (hm2.trans hm1)) rfl))

/-- split a `stepCore` equation completely and close every leaf with `memext_leaf` -/
syntax "memext_op " ident : tactic
macro_rules
  | `(tactic| memext_op $hs) =>
    `(tactic| (unfold stepCore at $hs:ident
               simp only [bind, Except.bind, pure, Except.pure, throw, throwThe, MonadExceptOf.throw] at $hs:ident
               (repeat' split at $hs:ident) <;> (first | (cases $hs:ident; done) | (cases $hs:ident; memext_leaf))))

theorem memExt_newWithSize {g g' : GState} {out : Out} {n : Nat}
    (hs : stepCore cfg g (.newWithSize n) = .ok (g', out)) : Mem.MemExt g.s g'.s := by
  memext_op hs

theorem memExt_newWithCapacity {g g' : GState} {out : Out} {L : Layout}
    (hs : stepCore cfg g (.newWithCapacity L) = .ok (g', out)) : Mem.MemExt g.s g'.s := by
  memext_op hs

theorem memExt_newUnallocated {g g' : GState} {out : Out}
    (hs : stepCore cfg g .newUnallocated = .ok (g', out)) : Mem.MemExt g.s g'.s := by
  memext_op hs

theorem memExt_deallocate {g g' : GState} {out : Out} {b : Nat} {via : Via}
    (hs : stepCore cfg g (.deallocate b via) = .ok (g', out)) : Mem.MemExt g.s g'.s := by
  memext_op hs

theorem memExt_prepare {g g' : GState} {out : Out} {L : Layout}
    (hs : stepCore cfg g (.prepare L) = .ok (g', out)) : Mem.MemExt g.s g'.s := by
  memext_op hs

theorem memExt_prepareSlice {g g' : GState} {out : Out} {esize ealign minCap : Nat} {rev : Bool}
    (hs : stepCore cfg g (.prepareSlice esize ealign minCap rev) = .ok (g', out)) : Mem.MemExt g.s g'.s := by
  memext_op hs

theorem memExt_abandonPrepared {g g' : GState} {out : Out}
    (hs : stepCore cfg g .abandonPrepared = .ok (g', out)) : Mem.MemExt g.s g'.s := by
  memext_op hs

theorem memExt_reserve {g g' : GState} {out : Out} {n : Nat} {dyn : Bool}
    (hs : stepCore cfg g (.reserve n dyn) = .ok (g', out)) : Mem.MemExt g.s g'.s := by
  cases dyn <;> memext_op hs

theorem memExt_scopeEnter {g g' : GState} {out : Out}
    (hs : stepCore cfg g .scopeEnter = .ok (g', out)) : Mem.MemExt g.s g'.s := by
  memext_op hs

theorem memExt_scopeExit {g g' : GState} {out : Out}
    (hs : stepCore cfg g .scopeExit = .ok (g', out)) : Mem.MemExt g.s g'.s := by
  memext_op hs

theorem memExt_checkpoint {g g' : GState} {out : Out} {k : Nat}
    (hs : stepCore cfg g (.checkpoint k) = .ok (g', out)) : Mem.MemExt g.s g'.s := by
  memext_op hs

theorem memExt_resetTo {g g' : GState} {out : Out} {k : Nat}
    (hs : stepCore cfg g (.resetTo k) = .ok (g', out)) : Mem.MemExt g.s g'.s := by
  memext_op hs

theorem memExt_claim {g g' : GState} {out : Out}
    (hs : stepCore cfg g .claim = .ok (g', out)) : Mem.MemExt g.s g'.s := by
  memext_op hs

theorem memExt_claimEnd {g g' : GState} {out : Out}
    (hs : stepCore cfg g .claimEnd = .ok (g', out)) : Mem.MemExt g.s g'.s := by
  memext_op hs

theorem memExt_alignedEnter {g g' : GState} {out : Out} {n : Nat}
    (hs : stepCore cfg g (.alignedEnter n) = .ok (g', out)) : Mem.MemExt g.s g'.s := by
  memext_op hs

theorem memExt_alignedExit {g g' : GState} {out : Out}
    (hs : stepCore cfg g .alignedExit = .ok (g', out)) : Mem.MemExt g.s g'.s := by
  memext_op hs

theorem memExt_scopedAlignedEnter {g g' : GState} {out : Out} {n : Nat}
    (hs : stepCore cfg g (.scopedAlignedEnter n) = .ok (g', out)) : Mem.MemExt g.s g'.s := by
  memext_op hs

theorem memExt_scopedAlignedExit {g g' : GState} {out : Out}
    (hs : stepCore cfg g .scopedAlignedExit = .ok (g', out)) : Mem.MemExt g.s g'.s := by
  memext_op hs

theorem memExt_withSettings {g g' : GState} {out : Out} {n : Nat} {ga cl : Bool}
    (hs : stepCore cfg g (.withSettings n ga cl) = .ok (g', out)) : Mem.MemExt g.s g'.s := by
  memext_op hs

theorem memExt_split {g g' : GState} {out : Out} {b at_ : Nat}
    (hs : stepCore cfg g (.split b at_) = .ok (g', out)) : Mem.MemExt g.s g'.s := by
  memext_op hs

theorem memExt_allocLayout {g g' : GState} {out : Out} {L : Layout} {hh : Hints}
    (hs : stepCore cfg g (.allocLayout L hh) = .ok (g', out)) : Mem.MemExt g.s g'.s := by
  memext_op hs

/-! ### operations addressed to the claimed handle -/

theorem memExt_onClaimed {g g' : GState} {out : Out} {op : Op}
    (hs : stepCore cfg g (.onClaimed op) = .ok (g', out)) : Mem.MemExt g.s g'.s := by
  unfold stepCore at hs
  simp only [bind, Except.bind, pure, Except.pure] at hs
  split at hs
  · cases hs
  · cases op
    all_goals simp only [] at hs
    all_goals first | (cases hs; done) | skip
    case claim => cases hs; exact Mem.MemExt.refl _
    case allocate => (repeat' split at hs) <;> first | (cases hs; done) | (cases hs; exact Mem.MemExt.refl _)
    case allocLayout => (repeat' split at hs) <;> first | (cases hs; done) | (cases hs; exact Mem.MemExt.refl _)
    case reserve => (repeat' split at hs) <;> first | (cases hs; done) | (cases hs; exact Mem.MemExt.refl _)
    case grow => (repeat' split at hs) <;> first | (cases hs; done) | (cases hs; exact Mem.MemExt.refl _)
    case deallocate b via =>
      split at hs
      · cases hs
      · rename_i blk hb
        split at hs
        · cases hs
        · rename_i s' hd
          have e := deallocate_claimed_eq rfl hd
          subst e
          cases hs
          exact Mem.MemExt.of_chunks_eq rfl
    case shrink b L via =>
      split at hs
      · cases hs
      · split at hs
        · cases hs
        · rename_i blk hb
          split at hs
          · split at hs
            · cases hs
            · rename_i heq; cases heq
          · split at hs
            · split at hs
              · cases hs
              · rename_i heq; cases heq
            · rename_i hnfit
              have hfit : alignFits blk.addr L.align = true := by
                cases hq : alignFits blk.addr L.align
                · rw [hq] at hnfit; exact absurd rfl hnfit
                · rfl
              split at hs
              · cases hs
              · rename_i v hv
                obtain ⟨s', r⟩ := v
                obtain ⟨e1, e2⟩ := shrink_claimed_eq rfl hfit hv
                subst e1 e2
                simp only at hs
                cases hs
                exact Mem.MemExt.of_chunks_eq rfl

/-! ### `alloc_try_with(_mut)`: allocations, position moves and a reset, no write -/

theorem tryInner_memExt {s1 s2 : State} {inner : Option Layout} {io : Option (Nat × Layout)} {mut_ : Bool}
    (h : tryInner cfg s1 inner mut_ = .ok (s2, io)) : Mem.MemExt s1 s2 := by
  unfold tryInner at h
  simp only [bind, Except.bind, pure, Except.pure, throw, throwThe, MonadExceptOf.throw] at h
  (repeat' split at h) <;> (first | (cases h; done) | (cases h; memext_leaf))

theorem withInner_chunks (s2 : State) (io : Option (Nat × Layout)) : (withInner s2 io).chunks = s2.chunks := by
  unfold withInner
  split <;> rfl

theorem tryTail_memExt {g g' : GState} {s2 : State} {ptr off vsize : Nat} {ok cs : Bool} {out : Out}
    (h : tryTail cfg g s2 ptr off vsize ok cs = .ok (g', out)) : Mem.MemExt s2 g'.s := by
  unfold tryTail at h
  cases cs
  all_goals simp only [bind, Except.bind, pure, Except.pure, throw, throwThe, MonadExceptOf.throw,
    Bool.false_eq_true, ↓reduceIte] at h
  all_goals (repeat' split at h) <;> (first
    | (cases h; done)
    | (cases h; memext_leaf)
    | (cases h; exact memExt_chunks (Mem.MemExt.of_eq (Mem.memOf_setCurPos _ _)) rfl))

theorem memExt_allocTryWith {g g' : GState} {out : Out} {L : Layout} {off vsize : Nat} {ok : Bool}
    {inner : Option Layout} {mut_ : Bool}
    (hs : stepCore cfg g (.allocTryWith L off vsize ok inner mut_) = .ok (g', out)) : Mem.MemExt g.s g'.s := by
  obtain ⟨_, _, _, s1, r1, h1, hrest⟩ := tryWith_inv hs
  have m1 := Mem.allocGeneric_memExt h1
  cases r1 with
  | error e =>
    simp only at hrest
    subst hrest
    exact m1
  | ok v =>
    obtain ⟨ptr, x⟩ := v
    simp only at hrest
    obtain ⟨s2, io, h2, h3⟩ := hrest
    exact (m1.trans (tryInner_memExt h2)).trans
      ((Mem.MemExt.of_chunks_eq (withInner_chunks s2 io)).trans (tryTail_memExt h3))

end Arena.Hist
