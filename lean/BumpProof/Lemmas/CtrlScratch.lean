import BumpProof.Lemmas.CtrlState
open Arena Rs Ctrl Lemmas

theorem xx {cfg : Cfg} {s s' : State} {size : Nat} {r : Except AErr Nat}
    (h : newChunk cfg s size = .ok (s', r)) : s'.cur = s.cur := by
  unfold newChunk at h
  simp only at h
  trace_state
  sorry
