import BumpProof.Lemmas.CtrlPrep
import BumpProof.Lemmas.CtrlCommit
open Arena Rs Ctrl Lemmas

theorem step_prepareSlice_effect (cfg : Cfg) (g g' : GState) (esize ealign minCap : Nat) (rev : Bool) (o : Out)
    (i : Nat) (c : Chunk) (hcur : g.s.cur = .chunk i) (hget : g.s.chunks[i]? = some c)
    (hr : stepCore cfg g (.prepareSlice esize ealign minCap rev) = .ok (g', o)) :
    g'.marks = g.marks := by
  rw [stepCore] at hr
  split at hr
  · cases hr
  · simp only [R_pure_bind] at hr
    split at hr
    · sorry
    · split at hr
      · sorry
      · trace_state
        sorry

theorem step_fillPrepared_shape (cfg : Cfg) (g g' : GState) (len seed : Nat) (o : Out)
    (hr : stepCore cfg g (.fillPrepared len seed) = .ok (g', o)) :
    SameShape g.s g'.s ∧ g'.marks = g.marks := by
  rw [stepCore] at hr
  split at hr
  · rename_i p hp
    trace_state
    sorry
  · cases hr
