import BumpProof.Lemmas.GeomNew
namespace Arena
open Rs Lemmas

def freshTry (cfg : Cfg) (k : Kind) (L : Layout) (hints : Hints) (r : State × Except AErr Nat) :
    R (State × Except AErr (Nat × Nat)) :=
  match r with
  | (s', .error e) => pure (s', .error e)
  | (s', .ok i) => do
    let s' := { s' with cur := .chunk i }
    match ← tryCur cfg k s' L hints with
    | some (v, s'') => pure (s'', .ok v)
    | none => throw (.ub "unreachable_unchecked: the layout does not fit the chunk that was created for it")

theorem inAnotherChunk_eq (cfg : Cfg) (k : Kind) (s : State) (L : Layout) (hints : Hints) :
    inAnotherChunk cfg k s L hints =
      match s.cur with
      | .claimed => pure (s, .error .claimed)
      | .unallocated => newChunkForCapacity cfg s L >>= freshTry cfg k L hints
      | .chunk i =>
        walkNext cfg k L hints (s.chunks.length - (i+1)) i s >>= fun x =>
          match x with
          | (some (v, s'), _) => pure (s', .ok v)
          | (none, s') => appendFor cfg s' L >>= freshTry cfg k L hints := by
  unfold inAnotherChunk
  rfl
example (cfg : Cfg) (k : Kind) (s : State) (L : Layout) (h : Hints) (fuel i : Nat): walkNext cfg k L h (fuel+1) i s = .ok (none, s) := by
  unfold walkNext
  trace_state
  sorry
end Arena
