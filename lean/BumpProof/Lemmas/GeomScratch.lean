import BumpProof.Lemmas.GeomCopy
namespace Arena
open Rs Lemmas
example (cfg : Cfg) (s : State) (ptr oldSize : Nat) (newL : Layout) : grow cfg s ptr oldSize newL = .ok (s, .ok 0) := by
  unfold grow
  trace_state
  sorry
end Arena
