/-
  Lemmas/HistRun.lean — from steps to runs: chunk sizes keep increasing, the base-allocator ledger stays
  balanced, and `step` never ends in a bug fault.
-/
import BumpProof.Lemmas.HistStep
import BumpProof.Lemmas.HistSizes
import BumpProof.Lemmas.HistLedger
import BumpProof.Lemmas.HistBalance
import BumpProof.Lemmas.HistBytes2
import BumpProof.Lemmas.HistNoFault3

set_option linter.unusedSimpArgs false
set_option linter.unusedVariables false

namespace Arena.Hist
open Rs

variable {cfg : Cfg}

/-! ## chunk sizes -/

theorem sizes_runOps : ∀ (ops : List (Op × List BaseResp)) (g g' : GState), Inv cfg g → SizesIncreasing g.s →
    AllCovered ops → RunEnvOK cfg g ops → runOps cfg g ops = .ok g' → SizesIncreasing g'.s := by
  intro ops
  induction ops with
  | nil =>
    intro g g' _ hsz _ _ hr
    unfold runOps at hr
    cases hr
    exact hsz
  | cons x rest ih =>
    intro g g' h hsz hc he hr
    obtain ⟨op, resps⟩ := x
    obtain ⟨g1, out, reqs, hs, hrest⟩ := runOps_cons hr
    obtain ⟨he1, he2⟩ := he
    have hcov := hc (op, resps) List.mem_cons_self
    exact ih g1 g' (inv_step hcov h he1 hs) (sizes_step hcov h he1 hsz hs)
      (fun y hy => hc y (List.mem_cons_of_mem _ hy)) (he2 g1 out reqs hs) hrest

theorem sizes_init (cfg : Cfg) : SizesIncreasing (initG cfg).s := by
  intro i a b ha _
  simp [initG, initState] at ha

/-! ## the ledger -/

theorem ledger_runLog : ∀ (ops : List (Op × List BaseResp)) (g g' : GState) (log : List LogEntry)
    (G : List Grant) (R : List BaseReq), Inv cfg g → Balanced cfg G R g.s →
    AllCovered ops → RunEnvOK cfg g ops → runLog cfg g ops = .ok (g', log) →
    Balanced cfg (G ++ logGrants log) (R ++ logReleases log) g'.s := by
  intro ops
  induction ops with
  | nil =>
    intro g g' log G R _ hb _ _ hr
    unfold runLog at hr
    cases hr
    simpa [logGrants, logReleases] using hb
  | cons x rest ih =>
    intro g g' log G R h hb hc he hr
    obtain ⟨op, resps⟩ := x
    obtain ⟨g1, out, reqs, log', hs, hrest, rfl⟩ := runLog_cons hr
    obtain ⟨he1, he2⟩ := he
    have hcov := hc (op, resps) List.mem_cons_self
    obtain ⟨acq, hm, hp⟩ := ledger_step h hs
    have hb1 := hb.step hm hp
    have := ih g1 g' log' _ _ (inv_step hcov h he1 hs) hb1
      (fun y hy => hc y (List.mem_cons_of_mem _ hy)) (he2 g1 out reqs hs) hrest
    simpa [logGrants, logReleases, List.append_assoc] using this

/-- the log of a run that ends with `drop`: nothing is owned afterwards -/
theorem runLog_append_drop {g' : GState} {resps : List BaseResp} :
    ∀ (ops : List (Op × List BaseResp)) (g : GState) (log : List LogEntry), Inv cfg g → AllCovered ops →
      RunEnvOK cfg g (ops ++ [(.drop, resps)]) → runLog cfg g (ops ++ [(.drop, resps)]) = .ok (g', log) →
      owned cfg g'.s = [] := by
  intro ops
  induction ops with
  | nil =>
    intro g log h _ _ hr
    obtain ⟨g1, out, reqs, log', hs, hrest, _⟩ := runLog_cons (by simpa using hr)
    unfold runLog at hrest
    cases hrest
    exact drop_owned_nil h hs
  | cons x rest ih =>
    intro g log h hc he hr
    obtain ⟨op, rs⟩ := x
    obtain ⟨g1, out, reqs, log', hs, hrest, _⟩ := runLog_cons (by simpa using hr)
    obtain ⟨he1, he2⟩ := he
    have hcov := hc (op, rs) List.mem_cons_self
    exact ih g1 log' (inv_step hcov h he1 hs) (fun y hy => hc y (List.mem_cons_of_mem _ hy))
      (he2 g1 out reqs hs) hrest

/-! ## no bug fault at the level of `step` -/

theorem noFault_step {g : GState} {op : Op} {resps : List BaseResp} (hcov : op.noFaultCovered = true)
    (h : Inv cfg g) (henv : EnvOK cfg g resps) (hans : Answered cfg (install g resps).s op) :
    ∀ f, step cfg g op resps = .error f → ¬ Fault.isBug f := by
  intro f hf
  unfold step at hf
  simp only [bind, Except.bind, pure, Except.pure] at hf
  split at hf
  · rename_i e he
    cases hf
    exact noFault_stepCore_partial hcov (h.install resps) henv.1 henv.2 hans f he
  · rename_i x hx
    obtain ⟨g1, o1⟩ := x
    simp only at hf
    split at hf
    · cases hf
      intro hb; exact hb
    · cases hf

/-! ## adjacent-increasing is pairwise-increasing -/

theorem pairwise_of_sizesIncreasing {s : State} (h : SizesIncreasing s) :
    s.chunks.Pairwise (fun a b => a.size < b.size) := by
  rw [List.pairwise_iff_getElem]
  intro i j hi hj hij
  obtain ⟨d, rfl⟩ : ∃ d, j = i + 1 + d := ⟨j - (i + 1), by omega⟩
  induction d with
  | zero =>
    exact h i _ _ (List.getElem?_eq_getElem hi) (List.getElem?_eq_getElem hj)
  | succ n ih =>
    have hj' : i + 1 + n < s.chunks.length := by omega
    have h1 := ih hj' (by omega)
    have h2 := h (i + 1 + n) _ _ (List.getElem?_eq_getElem hj') (List.getElem?_eq_getElem (by omega : i + 1 + n + 1 < s.chunks.length))
    have e : s.chunks[i + 1 + (n + 1)] = s.chunks[i + 1 + n + 1] := by congr 1
    rw [e]
    omega

/-! ## `reset` -/

/-- `Bump::reset` from a state with a current chunk: exactly the last chunk is kept (its position reset),
    every other chunk is released exactly once, nothing is requested -/
theorem reset_step {g g' : GState} {resps : List BaseResp} {out : Out} {reqs : List BaseReq} (h : Inv cfg g) {i : Nat}
    (hcur : g.s.cur = .chunk i) (hs : step cfg g .reset resps = .ok (g', out, reqs)) :
    ∃ last, g.s.chunks.getLast? = some last ∧ g'.s.chunks = [last.resetPos cfg] ∧ g'.s.cur = .chunk 0 ∧
      reqs.Perm (g.s.chunks.dropLast.map (deallocReq cfg)) ∧ g'.s.live = [] := by
  obtain ⟨h1, _, h3⟩ := step_ok hs
  unfold stepCore at h1
  simp only [bind, Except.bind, pure, Except.pure] at h1
  split at h1
  · cases h1
  · split at h1
    · cases h1
    · cases h1
      obtain ⟨l, last, e1, e2, e3, e4, e5, _⟩ := C05.reset_releases cfg (install g resps).s (i := i) hcur (h.geom.lt_length hcur)
      refine ⟨last, e1, e4, e5, ?_, rfl⟩
      rw [h3]
      show (reset cfg (install g resps).s).reqs.Perm _
      rw [e2]
      exact e3

end Arena.Hist
