/-
  Lemmas/CollBasic.lean — refinement lemmas for the loop-free operations: `truncate`, `clear`, `pop`,
  `remove`, `swap_remove` (`Coll/Slice.lean`) and the reservation policy, `push`, `insert`
  (`Coll/Vecs.lean`): on a well-formed vector each computes its list-level description of `Coll/Spec.lean`.
-/
import BumpProof.Coll.Spec
import BumpProof.Lemmas.CollPrim
import BumpProof.Lemmas.CollWF

namespace Coll

theorem Vec.eq_of {a b : Vec} (h1 : a.slots = b.slots) (h2 : a.len = b.len) (h3 : a.dropLog = b.dropLog)
    (h4 : a.escaped = b.escaped) : a = b := by
  cases a; cases b; simp_all

theorem seg_len_le_cap {v : Vec} {xs : List Id} (hs : v.slots = I xs ++ H (v.cap - v.len)) (hl : xs.length = v.len) :
    v.len ≤ v.cap := by
  have := congrArg List.length hs
  simp [Vec.cap] at this ⊢
  omega

theorem I_split_at (xs : List Id) (i : Nat) (h : i < xs.length) :
    I xs = I (xs.take i) ++ Slot.init xs[i] :: I (xs.drop (i + 1)) := by
  rw [← I_cons, ← I_append]
  congr 1
  simp

theorem I_split_last (xs : List Id) (h : xs ≠ []) :
    I xs = I xs.dropLast ++ [Slot.init (xs.getLast h)] := by
  have : I xs.dropLast ++ [Slot.init (xs.getLast h)] = I (xs.dropLast ++ [xs.getLast h]) := by simp
  rw [this, List.dropLast_concat_getLast]

/-- an operation that changes nothing -/
theorem after_noop {α} {v : Vec} {xs : List Id} (hs : v.slots = I xs ++ H (v.cap - v.len)) (hl : xs.length = v.len)
    (e : Exit α) (o : List Outcome) : v.after { final := xs, exit := e, rest := o } = v := by
  apply Vec.eq_of <;> simp [Vec.after, hs, hl]

/-! ## truncate / clear -/

theorem truncate_eq (bombs : List Id) (v : Vec) (xs : List Id) (n : Nat)
    (hs : v.slots = I xs ++ H (v.cap - v.len)) (hl : xs.length = v.len) :
    truncate bombs v n = .ok ⟨v.after (truncateSpec bombs xs n), (truncateSpec bombs xs n).exit, []⟩ := by
  have hcap := seg_len_le_cap hs hl
  unfold truncate truncateSpec
  by_cases h : n ≥ v.len
  · simp only [h, hl, ↓reduceIte, after_noop hs hl]
  · have h' : ¬ n ≥ xs.length := by omega
    simp only [h, h', ↓reduceIte]
    have hsplit : v.slots = I (xs.take n) ++ I (xs.drop n) ++ H (v.cap - v.len) := by
      rw [← I_append, List.take_append_drop]; exact hs
    have hdl : (xs.drop n).length = v.len - n := by simp [hl]
    have := dropRange_seg bombs (xs.drop n) false (setLen v n) (I (xs.take n)) (H (v.cap - v.len)) n
      (by simpa [setLen] using hsplit) (by simp; omega)
    rw [hdl] at this
    rw [this]
    simp only [Bool.not_false, Bool.true_and, dropExit]
    congr 2
    apply Vec.eq_of <;> simp [Vec.after, setLen]
    · rw [← H_add]; congr 1; omega
    · omega

theorem clear_eq (bombs : List Id) (v : Vec) (xs : List Id)
    (hs : v.slots = I xs ++ H (v.cap - v.len)) (hl : xs.length = v.len) :
    clear bombs v = .ok ⟨v.after (clearSpec bombs xs), (clearSpec bombs xs).exit, []⟩ := by
  have hcap := seg_len_le_cap hs hl
  unfold clear clearSpec
  have := dropRange_seg bombs xs false (setLen v 0) [] (H (v.cap - v.len)) 0 (by simpa [setLen] using hs) rfl
  rw [← hl, this]
  simp only [Bool.not_false, Bool.true_and, dropExit]
  congr 2
  apply Vec.eq_of <;> simp [Vec.after, setLen]
  rw [← H_add]; congr 1; omega

/-! ## pop / remove / swap_remove -/

theorem pop_eq (v : Vec) (xs : List Id)
    (hs : v.slots = I xs ++ H (v.cap - v.len)) (hl : xs.length = v.len) :
    pop v = .ok ⟨v.after (popSpec xs), (popSpec xs).exit, []⟩ := by
  have hcap := seg_len_le_cap hs hl
  unfold pop popSpec
  by_cases h0 : v.len = 0
  · have : xs = [] := List.eq_nil_of_length_eq_zero (by omega)
    subst this
    simp only [h0, ↓reduceIte, List.getLast?_nil, after_noop hs hl]
  · have hne : xs ≠ [] := by intro h; subst h; simp at hl; omega
    simp only [h0, ↓reduceIte, List.getLast?_eq_some_getLast hne]
    have hs1 : (setLen v (v.len - 1)).slots = I xs.dropLast ++ Slot.init (xs.getLast hne) :: H (v.cap - v.len) := by
      simp only [setLen]; rw [hs, I_split_last xs hne]
      simp
    rw [readOut_mid hs1 (by simp [setLen]; omega)]
    simp only
    congr 2
    apply Vec.eq_of <;> simp [Vec.after, setLen]
    · have : v.cap - (xs.length - 1) = (v.cap - v.len) + 1 := by omega
      rw [this]; simp
    · omega

theorem remove_eq (v : Vec) (xs : List Id) (i : Nat)
    (hs : v.slots = I xs ++ H (v.cap - v.len)) (hl : xs.length = v.len) :
    remove v i = .ok ⟨v.after (removeSpec xs i), (removeSpec xs i).exit, []⟩ := by
  have hcap := seg_len_le_cap hs hl
  unfold remove removeSpec
  by_cases h : i ≥ v.len
  · have : xs[i]? = none := by simp; omega
    simp only [h, ↓reduceIte, this, after_noop hs hl]
  · have hi : i < xs.length := by omega
    simp only [h, ↓reduceIte, List.getElem?_eq_getElem hi]
    -- xs = take i ++ xs[i] :: drop (i+1)
    have hs1 : v.slots = I (xs.take i) ++ Slot.init xs[i] :: (I (xs.drop (i + 1)) ++ H (v.cap - v.len)) := by
      rw [hs, I_split_at xs i hi]
      simp
    rw [readOut_mid hs1 (by simp; omega)]
    simp only
    have hs2 : I (xs.take i) ++ Slot.hole :: (I (xs.drop (i + 1)) ++ H (v.cap - v.len))
        = I (xs.take i) ++ H 1 ++ I (xs.drop (i + 1)) ++ H (v.cap - v.len) := by simp
    rw [copy_back (v := { v with slots := _, escaped := _ }) hs2 (by simp; omega) (by simp; omega) (by simp; omega)]
    simp only
    congr 2
    apply Vec.eq_of <;> simp [Vec.after, setLen, List.eraseIdx_eq_take_drop_succ]
    · exact H_eq_cons (by omega)
    · omega

theorem swapRemove_eq (v : Vec) (xs : List Id) (i : Nat)
    (hs : v.slots = I xs ++ H (v.cap - v.len)) (hl : xs.length = v.len) :
    swapRemove v i = .ok ⟨v.after (swapRemoveSpec xs i), (swapRemoveSpec xs i).exit, []⟩ := by
  have hcap := seg_len_le_cap hs hl
  unfold swapRemove swapRemoveSpec
  by_cases h : i ≥ v.len
  · have : xs[i]? = none := by simp; omega
    simp only [h, ↓reduceIte, this, after_noop hs hl]
  · have hi : i < xs.length := by omega
    have hne : xs ≠ [] := by intro h; subst h; simp at hi
    simp only [h, ↓reduceIte, List.getElem?_eq_getElem hi, List.getLast?_eq_some_getLast hne]
    have hs1 : v.slots = I (xs.take i) ++ Slot.init xs[i] :: (I (xs.drop (i + 1)) ++ H (v.cap - v.len)) := by
      rw [hs, I_split_at xs i hi]
      simp
    rw [readOut_mid hs1 (by simp; omega)]
    simp only [setLen]
    by_cases hlast : i + 1 = xs.length
    · -- the removed element is the last one: the copy moves a hole onto itself
      have hd : xs.drop (i + 1) = [] := by simp; omega
      have hs2 : I (xs.take i) ++ Slot.hole :: (I (xs.drop (i + 1)) ++ H (v.cap - v.len))
          = I (xs.take i) ++ H 0 ++ [Slot.hole] ++ H (v.cap - v.len) := by simp [hd]
      rw [copy_back (v := { v with slots := _, escaped := _, len := _ }) hs2 (by simp; omega) (by simp; omega) (by simp)]
      simp only
      congr 2
      apply Vec.eq_of <;> simp [Vec.after]
      · have e1 : (xs.set i (xs.getLast hne)).dropLast = xs.take i := by
          rw [List.dropLast_eq_take, List.length_set, List.take_set]
          have : xs.length - 1 = i := by omega
          rw [this, List.set_eq_of_length_le (by simp; omega)]
        rw [e1]
        congr 1
        exact H_eq_cons (by omega)
      · omega
    · -- the last element fills the gap
      have hlt : i + 1 < xs.length := by omega
      -- drop (i+1) = mid ++ [last]
      have hdne : xs.drop (i + 1) ≠ [] := by simp; omega
      have hd : xs.drop (i + 1) = (xs.drop (i + 1)).dropLast ++ [xs.getLast hne] := by
        have := (List.dropLast_concat_getLast hdne).symm
        rwa [List.getLast_drop hdne] at this
      have hs2 : I (xs.take i) ++ Slot.hole :: (I (xs.drop (i + 1)) ++ H (v.cap - v.len))
          = I (xs.take i) ++ [Slot.hole] ++ I (xs.drop (i + 1)).dropLast ++ [Slot.init (xs.getLast hne)] ++ H (v.cap - v.len) := by
        have : I (xs.drop (i + 1)) = I (xs.drop (i + 1)).dropLast ++ [Slot.init (xs.getLast hne)] := by
          conv => lhs; rw [hd]
          simp
        rw [this]; simp
      rw [copy_one_back (v := { v with slots := _, escaped := _, len := _ }) hs2 (by simp; omega) (by simp; omega)]
      simp only
      congr 2
      have e1 : (xs.set i (xs.getLast hne)).dropLast = xs.take i ++ xs.getLast hne :: (xs.drop (i + 1)).dropLast := by
        have hset : xs.set i (xs.getLast hne) = xs.take i ++ xs.getLast hne :: xs.drop (i + 1) := by
          rw [List.set_eq_take_append_cons_drop, if_pos hi]
        rw [hset, List.dropLast_append_of_ne_nil (by simp), List.dropLast_cons_of_ne_nil hdne]
      apply Vec.eq_of <;> simp [Vec.after, e1]
      · exact H_eq_cons (by omega)
      · omega

end Coll
