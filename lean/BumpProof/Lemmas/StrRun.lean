/-
  Lemmas/StrRun.lean — operation HISTORIES: any finite sequence of the modelled operations, each
  with arbitrary arguments, continuing after panics and allocation errors (`catch_unwind`).
-/
import BumpProof.Lemmas.StrOps
import BumpProof.Lemmas.StrRetain

namespace Str

/-- one operation of a history; texts are given as character lists (i.e. any `&str`) -/
inductive Op where
  | push (c : Char)
  | pushStr (t : List Char)
  | insert (i : Nat) (c : Char)
  | insertStr (i : Nat) (t : List Char)
  | remove (i : Nat)
  | pop
  | truncate (n : Nat)
  | clear
  | retain (oracle : List Outcome)
  | drain (sb eb : Bound) (take : Nat)
  | replaceRange (sb eb : Bound) (t : List Char)
  | extendFromWithin (sb eb : Bound)
  | splitOff (sb eb : Bound) (continueWithOther : Bool)

def stateOf {α : Type} : Res α → Option State
  | .ok _ s => some s
  | .err s => some s
  | .panic s => some s
  | .fault => none

/-- the string after one operation, whatever its outcome (`none` = undefined behaviour reached);
    `fixed`: fixed-capacity string; `f`: order of the checks in `split_off` (see `c09aFixed`) -/
def step (fixed f : Bool) (s : State) : Op → Option State
  | .push c => stateOf (push fixed s c)
  | .pushStr t => stateOf (pushStr fixed s (encode t))
  | .insert i c => stateOf (insert fixed s i c)
  | .insertStr i t => stateOf (insertStr fixed s i (encode t))
  | .remove i => stateOf (remove s i)
  | .pop => stateOf (pop s)
  | .truncate n => stateOf (truncate s n)
  | .clear => stateOf (clear s)
  | .retain o => stateOf (retain s o)
  | .drain sb eb k => stateOf (drain s sb eb k)
  | .replaceRange sb eb t => stateOf (replaceRange fixed s sb eb (encode t))
  | .extendFromWithin sb eb => stateOf (extendFromWithin fixed s sb eb)
  | .splitOff sb eb other =>
    match splitOff f s sb eb with
    | .ok o s' => some (if other then o else s')
    | .err s' => some s'
    | .panic s' => some s'
    | .fault => none

def run (fixed f : Bool) (s : State) : List Op → Option State
  | [] => some s
  | op :: ops =>
    match step fixed f s op with
    | some s' => run fixed f s' ops
    | none => none

theorem stateOf_allWF {α : Type} {r : Res α} (h : AllWF r) : ∃ s', stateOf r = some s' ∧ WF s' := by
  cases r with
  | ok v s => exact ⟨s, rfl, h⟩
  | err s => exact ⟨s, rfl, h⟩
  | panic s => exact ⟨s, rfl, h⟩
  | fault => exact absurd h (by simp [AllWF])

end Str
