/-
  Lemmas/StrRun.lean — operation HISTORIES: any finite sequence of the modelled operations, each
  with arbitrary arguments, continuing after panics and allocation errors (`catch_unwind`);
  the `List Char` SPECIFICATION of every operation (what `std::string::String` does, with the
  documented range form of `split_off`) and the refinement relation between the two.
-/
import BumpProof.Lemmas.StrOps
import BumpProof.Lemmas.StrRetain

namespace Str

/-- one operation of a history; texts are given as character lists (i.e. any `&str`) -/
inductive Op where
  | push (c : Char)
  | pushStr (t : List Char)
  | insert (i : Nat) (c : Char)
  | insertStr (i : Nat) (t : List Char)
  | remove (i : Nat)
  | pop
  | truncate (n : Nat)
  | clear
  | retain (oracle : List Outcome)
  | drain (sb eb : Bound) (take : Nat)
  | replaceRange (sb eb : Bound) (t : List Char)
  | extendFromWithin (sb eb : Bound)
  | splitOff (sb eb : Bound) (continueWithOther : Bool)
  | reserve (n : Nat)
  | reserveExact (n : Nat)

/-- what an operation returns (`σ` = the representation of a string) -/
inductive Ret (σ : Type) where
  | unit
  | char (c : Char)
  | optChar (o : Option Char)
  | chars (l : List Char)
  | other (o : σ)          -- `split_off`: the string that is NOT continued with
  deriving DecidableEq

/-- outcome of one operation: the string afterwards and the returned value -/
inductive Out (σ : Type) where
  | ok (s : σ) (r : Ret σ)
  | err (s : σ)
  | panic (s : σ)
  | fault
  deriving DecidableEq

def Out.next {σ : Type} : Out σ → Option σ
  | .ok s _ => some s
  | .err s => some s
  | .panic s => some s
  | .fault => none

def ofRes {α : Type} (f : α → Ret State) : Res α → Out State
  | .ok v s => .ok s (f v)
  | .err s => .err s
  | .panic s => .panic s
  | .fault => .fault

/-- one operation on the byte model (`al`: where the memory comes from; `f`: order of the checks in
    `split_off`, see `c09aFixed`) -/
def stepOut (al : Alloc) (f : Bool) (s : State) : Op → Out State
  | .push c => ofRes (fun _ => .unit) (push al s c)
  | .pushStr t => ofRes (fun _ => .unit) (pushStr al s (encode t))
  | .insert i c => ofRes (fun _ => .unit) (insert al s i c)
  | .insertStr i t => ofRes (fun _ => .unit) (insertStr al s i (encode t))
  | .remove i => ofRes .char (remove s i)
  | .pop => ofRes .optChar (pop s)
  | .truncate n => ofRes (fun _ => .unit) (truncate s n)
  | .clear => ofRes (fun _ => .unit) (clear s)
  | .retain o => ofRes (fun _ => .unit) (retain s o)
  | .drain sb eb k => ofRes .chars (drain s sb eb k)
  | .replaceRange sb eb t => ofRes (fun _ => .unit) (replaceRange al s sb eb (encode t))
  | .extendFromWithin sb eb => ofRes (fun _ => .unit) (extendFromWithin al s sb eb)
  | .splitOff sb eb other =>
    match splitOff f s sb eb with
    | .ok o s' => if other then .ok o (.other s') else .ok s' (.other o)
    | .err s' => .err s'
    | .panic s' => .panic s'
    | .fault => .fault
  | .reserve n => ofRes (fun _ => .unit) (reserveOp al s n)
  | .reserveExact n => ofRes (fun _ => .unit) (reserveExactOp al s n)

/-- the string after one operation, whatever its outcome (`none` = undefined behaviour reached) -/
def step (al : Alloc) (f : Bool) (s : State) (op : Op) : Option State := (stepOut al f s op).next

def run (f : Bool) (s : State) : List (Alloc × Op) → Option State
  | [] => some s
  | (al, op) :: ops =>
    match step al f s op with
    | some s' => run f s' ops
    | none => none

/-! ## the `List Char` specification -/

/-- split `cs` at byte index `i`; `none` iff `i` is out of range or inside a character -/
def splitAtByte : List Char → Nat → Option (List Char × List Char)
  | [], i => if i = 0 then some ([], []) else none
  | c :: cs, i =>
    if i = 0 then some ([], c :: cs)
    else if c.utf8Size ≤ i then (splitAtByte cs (i - c.utf8Size)).map (fun p => (c :: p.1, p.2))
    else none

/-- split `cs` by a byte range; `none` iff the range does not resolve or an end is not a character position -/
def splitRange (cs : List Char) (sb eb : Bound) : Option (List Char × List Char × List Char) :=
  match sliceRange sb eb (encode cs).length with
  | none => none
  | some (i, j) =>
    match splitAtByte cs i with
    | none => none
    | some (c1, r) =>
      match splitAtByte r (j - i) with
      | none => none
      | some (c2, c3) => some (c1, c2, c3)

/-- a growing step: a fixed string with less than `need` spare bytes fails and is unchanged -/
def specGrow (al : Alloc) (spare need : Nat) (cs out : List Char) : Out (List Char) :=
  if al.isFixed = true ∧ spare < need then .err cs else .ok out .unit

/-- the specification of one operation on the characters `cs` (byte indices as in `String`'s API;
    `spare` = capacity − length, which only a FIXED string looks at) -/
def specStep (al : Alloc) (spare : Nat) (cs : List Char) : Op → Out (List Char)
  | .push c => specGrow al spare c.utf8Size cs (cs ++ [c])
  | .pushStr t => specGrow al spare (encode t).length cs (cs ++ t)
  | .insert i c =>
    match splitAtByte cs i with
    | none => .panic cs
    | some (a, b) => specGrow al spare c.utf8Size cs (a ++ [c] ++ b)
  | .insertStr i t =>
    match splitAtByte cs i with
    | none => .panic cs
    | some (a, b) => specGrow al spare (encode t).length cs (a ++ t ++ b)
  | .remove i =>
    match splitAtByte cs i with
    | some (a, c :: b) => .ok (a ++ b) (.char c)
    | _ => .panic cs
  | .pop => .ok cs.dropLast (.optChar cs.getLast?)
  | .truncate n =>
    if n ≤ (encode cs).length then
      match splitAtByte cs n with
      | none => .panic cs
      | some (a, _) => .ok a .unit
    else .ok cs .unit
  | .clear => .ok [] .unit
  | .retain o => if (retainSpec cs o).2 then .panic (retainSpec cs o).1 else .ok (retainSpec cs o).1 .unit
  | .drain sb eb k =>
    match splitRange cs sb eb with
    | none => .panic cs
    | some (a, b, c) => .ok (a ++ c) (.chars (b.take k))
  | .replaceRange sb eb t =>
    match splitRange cs sb eb with
    | none => .panic cs
    | some (a, b, c) => specGrow al spare ((encode t).length - (encode b).length) cs (a ++ t ++ c)
  | .extendFromWithin sb eb =>
    match splitRange cs sb eb with
    | none => .panic cs
    | some (a, b, c) => specGrow al spare (encode b).length cs (a ++ b ++ c ++ b)
  | .splitOff sb eb other =>
    match splitRange cs sb eb with
    | none => .panic cs
    | some (a, b, c) => if other then .ok b (.other (a ++ c)) else .ok (a ++ c) (.other b)
  | .reserve n => specGrow al spare n cs cs
  | .reserveExact n => specGrow al spare n cs cs

/-! ## refinement relation -/

def RetRel : Ret (List Char) → Ret State → Prop
  | .unit, .unit => True
  | .char a, .char b => a = b
  | .optChar a, .optChar b => a = b
  | .chars a, .chars b => a = b
  | .other cs, .other o => Holds o cs
  | _, _ => False

/-- same kind of outcome, equal returned values, and the string holds the specified characters
    (after `ok`, after an allocation error and after a PANIC alike); never the fault -/
def OutRel : Out (List Char) → Out State → Prop
  | .ok cs r, .ok s r' => Holds s cs ∧ RetRel r r'
  | .err cs, .err s => Holds s cs
  | .panic cs, .panic s => Holds s cs
  | _, _ => False

/-- lock-step simulation of a history: at every step the outcomes are related and the run
    continues from related strings -/
def Simulates (f : Bool) : State → List Char → List (Alloc × Op) → Prop
  | _, _, [] => True
  | s, cs, (al, op) :: ops =>
    OutRel (specStep al (s.cap - s.len) cs op) (stepOut al f s op) ∧
    match (stepOut al f s op).next, (specStep al (s.cap - s.len) cs op).next with
    | some s', some cs' => Simulates f s' cs' ops
    | _, _ => False

/-! ## lemmas about the splitting functions -/

theorem splitAtByte_of (a b : List Char) : splitAtByte (a ++ b) (encode a).length = some (a, b) := by
  induction a with
  | nil => cases b <;> simp [splitAtByte]
  | cons x a ih =>
    have hp := encodeChar_length_pos x
    have hn := encodeChar_length x
    simp only [List.cons_append, encode_cons, List.length_append, splitAtByte]
    rw [if_neg (by omega), if_pos (by omega)]
    have : (encodeChar x).length + (encode a).length - x.utf8Size = (encode a).length := by omega
    rw [this, ih]; rfl

theorem splitAtByte_some {cs : List Char} {i : Nat} {a b : List Char} (h : splitAtByte cs i = some (a, b)) :
    cs = a ++ b ∧ (encode a).length = i := by
  induction cs generalizing i a b with
  | nil =>
    simp only [splitAtByte] at h
    split at h
    · simp only [Option.some.injEq, Prod.mk.injEq] at h; obtain ⟨rfl, rfl⟩ := h; simp [*]
    · simp at h
  | cons c cs ih =>
    simp only [splitAtByte] at h
    split at h
    · simp only [Option.some.injEq, Prod.mk.injEq] at h; obtain ⟨rfl, rfl⟩ := h; simp [*]
    · split at h
      · cases hr : splitAtByte cs (i - c.utf8Size) with
        | none => rw [hr] at h; simp at h
        | some p =>
          obtain ⟨a', b'⟩ := p
          rw [hr] at h
          simp only [Option.map_some, Option.some.injEq, Prod.mk.injEq] at h
          obtain ⟨rfl, rfl⟩ := h
          obtain ⟨h1, h2⟩ := ih hr
          refine ⟨by rw [h1]; rfl, ?_⟩
          simp only [encode_cons, List.length_append, encodeChar_length]; omega
      · simp at h

theorem splitAtByte_none {cs : List Char} {i : Nat} (h : splitAtByte cs i = none) : ¬ CharPos cs i := by
  rintro ⟨a, b, rfl, rfl⟩
  rw [splitAtByte_of] at h; simp at h

theorem splitRange_some {cs : List Char} {sb eb : Bound} {c1 c2 c3 : List Char}
    (h : splitRange cs sb eb = some (c1, c2, c3)) :
    ∃ i j, sliceRange sb eb (encode cs).length = some (i, j) ∧ cs = c1 ++ c2 ++ c3 ∧
      (encode c1).length = i ∧ (encode (c1 ++ c2)).length = j := by
  unfold splitRange at h
  cases hr : sliceRange sb eb (encode cs).length with
  | none => rw [hr] at h; simp at h
  | some p =>
    obtain ⟨i, j⟩ := p
    rw [hr] at h
    simp only at h
    cases h1 : splitAtByte cs i with
    | none => rw [h1] at h; simp at h
    | some q =>
      obtain ⟨a, r⟩ := q
      rw [h1] at h
      simp only at h
      cases h2 : splitAtByte r (j - i) with
      | none => rw [h2] at h; simp at h
      | some q2 =>
        obtain ⟨b, c⟩ := q2
        rw [h2] at h
        simp only [Option.some.injEq, Prod.mk.injEq] at h
        obtain ⟨rfl, rfl, rfl⟩ := h
        obtain ⟨e1, l1⟩ := splitAtByte_some h1
        obtain ⟨e2, l2⟩ := splitAtByte_some h2
        have := (sliceRange_some hr).1
        exact ⟨i, j, rfl, by rw [e1, e2, List.append_assoc], l1, by rw [encode_append, List.length_append]; omega⟩

theorem splitRange_none {cs : List Char} {sb eb : Bound} (h : splitRange cs sb eb = none) :
    RangeBad cs sb eb (encode cs).length := by
  rcases rangeBad_or_split cs sb eb (encode cs).length with hb | ⟨i, j, c1, c2, c3, hr, he, h1, h2⟩
  · exact hb
  · exfalso
    unfold splitRange at h
    rw [hr] at h
    simp only at h
    have e1 : splitAtByte cs i = some (c1, c2 ++ c3) := by
      rw [he, List.append_assoc, ← h1]; exact splitAtByte_of c1 (c2 ++ c3)
    rw [e1] at h
    simp only at h
    have hji : j - i = (encode c2).length := by
      rw [← h2, ← h1, encode_append, List.length_append]; omega
    rw [hji, splitAtByte_of] at h
    simp at h

theorem stateOf_next {α : Type} (f : α → Ret State) (r : Res α) : (ofRes f r).next = r.state? := by
  cases r <;> rfl

end Str
