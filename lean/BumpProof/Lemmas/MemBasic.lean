/-
  Lemmas/MemBasic.lean — helper lemmas about the memory functions of the arena model
  (`readByte`, `writeRange`, `copyBytes`): which byte each of them touches.

  Well-formedness predicates used by C01 / C02 are defined here:
  `ChunksDisjoint`, `DataOK`, `InChunks`, `BlockInChunks`, `MemExt`.
-/
import BumpProof.Arena.Step

set_option linter.unusedSimpArgs false

namespace Arena.Mem
open Rs

/-! ## Predicates -/

/-- the address ranges `[base, base+size)` of the chunks are pairwise disjoint -/
def ChunksDisjoint (cs : List Chunk) : Prop :=
  cs.Pairwise (fun c d => c.base + c.size ≤ d.base ∨ d.base + d.size ≤ c.base)

/-- every chunk carries exactly `size` bytes -/
def DataOK (cs : List Chunk) : Prop := ∀ c ∈ cs, c.data.size = c.size

/-- `a` is an address of some chunk of `s` -/
def InChunks (s : State) (a : Nat) : Prop := ∃ c ∈ s.chunks, c.base ≤ a ∧ a < c.base + c.size

/-- `[lo, hi)` lies inside one chunk of `s` -/
def BlockInChunks (s : State) (lo hi : Nat) : Prop := ∃ c ∈ s.chunks, c.base ≤ lo ∧ hi ≤ c.base + c.size

/-- what `readByte` depends on -/
abbrev MemCell := Nat × Nat × Array UInt8
def _root_.Arena.Chunk.memCell (c : Chunk) : MemCell := (c.base, c.size, c.data)
def memOf (s : State) : List MemCell := s.chunks.map Chunk.memCell

/-- `s'` has the chunks of `s` with identical bytes, followed by zero or more new chunks -/
def MemExt (s s' : State) : Prop := ∃ extra, memOf s' = memOf s ++ extra

/-- everything of a chunk except its bytes -/
def _root_.Arena.Chunk.memGeom (c : Chunk) : Nat × Nat × Nat × Nat × Nat := (c.base, c.size, c.pos, c.granted, c.reqSize)

/-- `s'` equals `s` except for the bytes stored in the chunks -/
def OnlyDataChanged (s s' : State) : Prop :=
  s' = { s with chunks := s'.chunks } ∧ s'.chunks.map Chunk.memGeom = s.chunks.map Chunk.memGeom

/-! ## `readByte` depends on `memOf` only -/

def cellHas (a : Nat) (m : MemCell) : Bool := decide (m.1 ≤ a ∧ a < m.1 + m.2.1)

def readMem (m : List MemCell) (a : Nat) : UInt8 :=
  match m.find? (cellHas a) with
  | some c => c.2.2.getD (a - c.1) 0
  | none => 0

theorem readByte_eq_readMem (s : State) (a : Nat) : readByte s a = readMem (memOf s) a := by
  unfold readByte readMem memOf
  rw [List.find?_map]
  have : (cellHas a ∘ Chunk.memCell) = fun c : Chunk => decide (c.base ≤ a ∧ a < c.base + c.size) := rfl
  rw [this]
  cases s.chunks.find? (fun c : Chunk => decide (c.base ≤ a ∧ a < c.base + c.size)) <;> rfl

theorem readByte_congr {s s' : State} (h : memOf s' = memOf s) (a : Nat) : readByte s' a = readByte s a := by
  rw [readByte_eq_readMem, readByte_eq_readMem, h]

theorem inChunks_iff (s : State) (a : Nat) : InChunks s a ↔ ∃ m ∈ memOf s, cellHas a m = true := by
  unfold InChunks memOf
  constructor
  · rintro ⟨c, hc, h1, h2⟩
    exact ⟨c.memCell, List.mem_map_of_mem hc, by simp [cellHas, Chunk.memCell, h1, h2]⟩
  · rintro ⟨m, hm, h⟩
    obtain ⟨c, hc, rfl⟩ := List.mem_map.mp hm
    exact ⟨c, hc, of_decide_eq_true h⟩

theorem MemExt.refl (s : State) : MemExt s s := ⟨[], by simp⟩

theorem MemExt.of_eq {s s' : State} (h : memOf s' = memOf s) : MemExt s s' := ⟨[], by simp [h]⟩

theorem MemExt.trans {s t u : State} (h1 : MemExt s t) (h2 : MemExt t u) : MemExt s u := by
  obtain ⟨e1, h1⟩ := h1
  obtain ⟨e2, h2⟩ := h2
  exact ⟨e1 ++ e2, by rw [h2, h1, List.append_assoc]⟩

theorem MemExt.inChunks {s s' : State} (h : MemExt s s') {a : Nat} (ha : InChunks s a) : InChunks s' a := by
  obtain ⟨e, h⟩ := h
  rw [inChunks_iff] at ha ⊢
  obtain ⟨m, hm, hh⟩ := ha
  exact ⟨m, by rw [h]; exact List.mem_append_left _ hm, hh⟩

/-- bytes of existing chunks are not affected by appending chunks -/
theorem MemExt.readByte {s s' : State} (h : MemExt s s') {a : Nat} (ha : InChunks s a) :
    readByte s' a = readByte s a := by
  obtain ⟨e, h⟩ := h
  rw [readByte_eq_readMem, readByte_eq_readMem, h]
  unfold readMem
  rw [List.find?_append]
  rw [inChunks_iff] at ha
  obtain ⟨m, hm, hh⟩ := ha
  cases hf : (memOf s).find? (cellHas a) with
  | some c => rfl
  | none =>
    rw [List.find?_eq_none] at hf
    exact absurd hh (hf m hm)

theorem BlockInChunks.inChunks {s : State} {lo hi a : Nat} (h : BlockInChunks s lo hi) (h1 : lo ≤ a) (h2 : a < hi) :
    InChunks s a := by
  obtain ⟨c, hc, h3, h4⟩ := h
  exact ⟨c, hc, by omega, by omega⟩

theorem MemExt.blockInChunks {s s' : State} (h : MemExt s s') {lo hi : Nat} (hb : BlockInChunks s lo hi) :
    BlockInChunks s' lo hi := by
  obtain ⟨e, h⟩ := h
  obtain ⟨c, hc, h1, h2⟩ := hb
  have : c.memCell ∈ memOf s' := by rw [h]; exact List.mem_append_left _ (List.mem_map_of_mem hc)
  obtain ⟨d, hd, hcd⟩ := List.mem_map.mp this
  have e1 : d.base = c.base := congrArg (·.1) hcd
  have e2 : d.size = c.size := congrArg (·.2.1) hcd
  exact ⟨d, hd, by omega, by omega⟩

/-! ## Unique owner of an address -/

theorem find_owner {l : List Chunk} (hd : ChunksDisjoint l) {i : Nat} {c : Chunk} (hi : l[i]? = some c)
    {a : Nat} (h1 : c.base ≤ a) (h2 : a < c.base + c.size) :
    l.find? (fun c : Chunk => decide (c.base ≤ a ∧ a < c.base + c.size)) = some c ∧
    l.findIdx? (fun c : Chunk => decide (c.base ≤ a ∧ a < c.base + c.size)) = some i := by
  obtain ⟨hlt, hget⟩ := List.getElem?_eq_some_iff.mp hi
  have hpw := List.pairwise_iff_getElem.mp hd
  have hbefore : ∀ j (hj : j < i), ¬ (l[j].base ≤ a ∧ a < l[j].base + l[j].size) := by
    intro j hj hc
    have := hpw j i (by omega) hlt hj
    rw [hget] at this
    omega
  constructor
  · rw [List.find?_eq_some_iff_getElem]
    refine ⟨by simp [h1, h2], i, hlt, hget, ?_⟩
    intro j hj
    have := hbefore j hj
    simp only [Bool.not_eq_true', decide_eq_false_iff_not]
    exact this
  · rw [List.findIdx?_eq_some_iff_getElem]
    refine ⟨hlt, by rw [hget]; simp [h1, h2], ?_⟩
    intro j hj
    have := hbefore j hj
    simpa using this

/-- `find?` after `modify` with a function that keeps the predicate -/
theorem find?_modify {α} (p : α → Bool) (f : α → α) (hp : ∀ x, p (f x) = p x) (l : List α) (i : Nat) :
    (l.modify i f).find? p = if l.findIdx? p = some i then (l.find? p).map f else l.find? p := by
  induction l generalizing i with
  | nil => simp
  | cons x xs ih =>
    rw [List.modify_cons]
    by_cases hi : i = 0
    · subst hi
      simp only [↓reduceIte, List.find?_cons, hp, List.findIdx?_cons]
      cases hx : p x <;> simp
    · simp only [hi, ↓reduceIte, List.find?_cons, List.findIdx?_cons]
      cases hx : p x
      · simp only [Bool.false_eq_true, ↓reduceIte]
        rw [ih (i - 1)]
        have : (Option.map (fun i => i + 1) (List.findIdx? p xs) = some i) ↔ (List.findIdx? p xs = some (i - 1)) := by
          cases List.findIdx? p xs with
          | none => simp
          | some k => simp; omega
        simp only [this]
      · simp only [↓reduceIte, Option.some.injEq]
        rw [if_neg (by omega)]

theorem memOf_modify_geom (s : State) (i : Nat) (f : Chunk → Chunk) (hf : ∀ c, (f c).memCell = c.memCell) :
    memOf { s with chunks := s.chunks.modify i f } = memOf s := by
  unfold memOf
  apply List.ext_getElem?
  intro j
  simp only [List.getElem?_map, List.getElem?_modify]
  cases s.chunks[j]? with
  | none => rfl
  | some c =>
    simp only [Option.map_eq_map, Option.map_some]
    split <;> simp [hf]

theorem memOf_setPos (s : State) (i p : Nat) : memOf (setPos s i p) = memOf s :=
  memOf_modify_geom s i _ (fun _ => rfl)

theorem memOf_setCurPos (s : State) (p : Nat) : memOf (setCurPos s p) = memOf s := by
  unfold setCurPos
  split
  · exact memOf_setPos s _ p
  · rfl

theorem readByte_setPos (s : State) (i p a : Nat) : readByte (setPos s i p) a = readByte s a :=
  readByte_congr (memOf_setPos s i p) a

theorem readByte_setCurPos (s : State) (p a : Nat) : readByte (setCurPos s p) a = readByte s a :=
  readByte_congr (memOf_setCurPos s p) a

end Arena.Mem
