/-
  Lemmas/Hist2SfAttr.lean — the simp set used by the frame-irrelevance lemmas of `Lemmas/Hist2Sf.lean`.
-/
import Lean

/-- rewrite rules `f cfg (sf fs s) … = (f cfg s …).map …` -/
register_simp_attr sf_simp
