/-
  Lemmas/AlignChunk.lean — the second half of `BumpAlignGuard::drop` (`Arena.alignChunkAt`): what it can do.
  Imported by the geometry (`GeomPos`), memory (`MemAlloc`) and history lemma files.
-/
import BumpProof.Arena.Step

namespace Arena
open Rs

variable {cfg : Cfg}

/-- `alignChunkAt` changes nothing, or it moves the position of the chunk `start = .chunk j` — which is not
    the current one — to `align_pos(outer, pos)` -/
theorem alignChunkAt_cases {s s' : State} {n : Nat} {st : Cur} (h : alignChunkAt cfg s n st = .ok s') :
    s' = s ∨ ∃ j c p, st = .chunk j ∧ s.cur ≠ .chunk j ∧ s.chunks[j]? = some c ∧
      liftM (Gen.LibArith.align_pos cfg.up n c.pos) = .ok p ∧ s' = setPos s j p := by
  unfold alignChunkAt at h
  simp only [bind, Except.bind, pure, Except.pure] at h
  split at h
  · rename_i j
    split at h
    · cases h; exact Or.inl rfl
    · rename_i hne
      split at h
      · cases h; exact Or.inl rfl
      · rename_i c hc
        split at h
        · cases h
        · rename_i p hp
          cases h
          exact Or.inr ⟨j, c, p, rfl, hne, hc, hp, rfl⟩
  · cases h; exact Or.inl rfl

/-- on the current chunk (and on dummy chunks) `alignChunkAt` does nothing -/
theorem alignChunkAt_cur (s : State) (n : Nat) : alignChunkAt cfg s n s.cur = .ok s := by
  unfold alignChunkAt
  cases hc : s.cur with
  | chunk j => simp only [↓reduceIte]; rfl
  | unallocated => rfl
  | claimed => rfl

theorem alignChunkAt_cur' {s s' : State} {n : Nat} (h : alignChunkAt cfg s n s.cur = .ok s') : s' = s := by
  rw [alignChunkAt_cur] at h; cases h; rfl

/-! ## `stats()` does not see the position of a chunk that is not the current one -/

theorem map_modify_inv {α β : Type} (l : List α) (k : Nat) (f : α → α) (g : α → β) (h : ∀ a, g (f a) = g a) :
    (l.modify k f).map g = l.map g := by
  apply List.ext_getElem?
  intro n
  simp only [List.getElem?_map, List.getElem?_modify]
  cases l[n]? with
  | none => rfl
  | some a => by_cases hk : k = n <;> simp [hk, h]

/-- all five statistics (`count`, `size`, `capacity`, `allocated`, `remaining`) are computed from the position of
    the CURRENT chunk and the address ranges of all chunks: moving the position of another chunk changes none -/
theorem stats_setPos_other {s : State} {j p : Nat} (hne : s.cur ≠ .chunk j) :
    stats cfg (setPos s j p) = stats cfg s := by
  unfold stats
  show (match s.cur with
    | .chunk i => _
    | _ => _) = _
  cases hcur : s.cur with
  | claimed => rfl
  | unallocated => rfl
  | chunk i =>
    have hij : j ≠ i := fun e => hne (e ▸ hcur)
    have hi : (setPos s j p).chunks[i]? = s.chunks[i]? := by
      unfold setPos
      simp only [List.getElem?_modify, if_neg hij]
      cases s.chunks[i]? <;> rfl
    simp only [hi]
    cases s.chunks[i]? with
    | none => rfl
    | some c =>
      simp only [StatsOut.mk.injEq]
      have hcap := map_modify_inv s.chunks j (fun c => { c with pos := p }) (Chunk.capacity cfg) (fun _ => rfl)
      have hsz := map_modify_inv s.chunks j (fun c => { c with pos := p }) (·.size) (fun _ => rfl)
      refine ⟨?_, ?_, ?_, ?_, ?_⟩
      · unfold setPos; simp only [List.length_modify]
      · unfold setPos; simp only [hsz]
      · unfold setPos; simp only [hcap]
      · unfold setPos; simp only [List.map_take, hcap]
      · unfold setPos; simp only [List.map_drop, hcap]

theorem stats_alignChunkAt {s s' : State} {n : Nat} {st : Cur} (h : alignChunkAt cfg s n st = .ok s') :
    stats cfg s' = stats cfg s := by
  rcases alignChunkAt_cases h with rfl | ⟨j, c, p, _, hne, _, _, rfl⟩
  · rfl
  · exact stats_setPos_other hne

theorem alignChunkAt_cur_eq {s s' : State} {n : Nat} {st : Cur} (h : alignChunkAt cfg s n st = .ok s') :
    s'.cur = s.cur := by
  rcases alignChunkAt_cases h with rfl | ⟨j, c, p, _, _, _, _, rfl⟩ <;> rfl

/-- the position of the current chunk is not touched -/
theorem curPos_alignChunkAt {s s' : State} {n : Nat} {st : Cur} (h : alignChunkAt cfg s n st = .ok s') :
    curPos cfg s' = curPos cfg s := by
  rcases alignChunkAt_cases h with rfl | ⟨j, c, p, _, hne, _, _, rfl⟩
  · rfl
  · unfold curPos
    show (match s.cur with
      | .chunk i => _
      | _ => _) = _
    cases hcur : s.cur with
    | claimed => rfl
    | unallocated => rfl
    | chunk i =>
      have hij : j ≠ i := fun e => hne (e ▸ hcur)
      have hi : (setPos s j p).chunks[i]? = s.chunks[i]? := by
        unfold setPos
        simp only [List.getElem?_modify, if_neg hij]
        cases s.chunks[i]? <;> rfl
      simp only [hi]

end Arena
