/-
  Lemmas/GeomPrepared.lean — committing prepared allocations: `allocate_prepared(_rev)`,
  `allocate_prepared_slice(_rev)`.
-/
import BumpProof.Lemmas.GeomRealloc

set_option linter.unusedSimpArgs false
set_option linter.unusedVariables false

namespace Arena
open Rs Lemmas

section
variable {cfg : Cfg}

theorem allocatePrepared_post (hc : CfgOK cfg) {s : State} (h : GeomInv cfg s) (hr : RespsOK cfg s)
    {size rstart rend : Nat} {rev : Bool} (hrange : RangeInCur cfg s rstart rend) (hsz : size ≤ rend - rstart)
    {s' : State} {a : Nat} (he : allocatePrepared cfg s size rstart rend rev = .ok (s', a)) :
    BasicPost cfg s s' := by
  obtain ⟨i, c, hcur, hi, r1, r2, r3⟩ := hrange
  have hw := h.chunks i c hi
  have hm := h.minAlign
  unfold allocatePrepared at he
  rw [hcur] at he
  simp only at he
  split at he
  · rename_i hup
    have hs1 : ∃ s1, SameGeom s s1 ∧ (liftM (Rs.add rstart size) >>= fun e =>
        liftM (Gen.LibArith.align_pos cfg.up s.minAlign e) >>= fun p =>
        (pure (setCurPos s1 p, rstart) : R (State × Nat))) = .ok (s', a) := by
      split at he
      · obtain ⟨s1, h1, he⟩ := bind_eq_ok he
        exact ⟨s1, copyBytes_geom h1, he⟩
      · exact ⟨s, SameGeom.refl _, he⟩
    obtain ⟨s1, hg, he⟩ := hs1
    obtain ⟨e, h2, he⟩ := bind_eq_ok he
    obtain ⟨p, h3, he⟩ := bind_eq_ok he
    cases he
    have h2' := liftM_eq_ok h2
    unfold Rs.add at h2'
    split at h2'
    · cases h2'
      have h3' := liftM_eq_ok h3
      rw [hw.align_pos_eq hc hm (by omega : rstart + size ≤ c.contentEnd cfg)] at h3'
      cases h3'
      have hmem := hw.alignPos_mem hc hm (by omega : c.contentStart cfg ≤ rstart + size) (by omega)
      obtain ⟨q1, q2', q3, q4, _⟩ := hg.setCurPos_inv h hcur hi hmem.1 hmem.2 (alignPos_dvd _ _ _)
      exact ⟨q1, fun x hx => hr x (by rw [q4] at hx; exact hx), q3, Trace.of_shape q2' q4⟩
    · cases h2'
  · rename_i hup
    obtain ⟨dst, h1, he⟩ := bind_eq_ok he
    have hs1 : ∃ s1, SameGeom s s1 ∧ (liftM (Gen.LibArith.align_pos cfg.up s.minAlign dst) >>= fun p =>
        (pure (setCurPos s1 p, dst) : R (State × Nat))) = .ok (s', a) := by
      split at he
      · exact ⟨s, SameGeom.refl _, he⟩
      · obtain ⟨s1, h2, he⟩ := bind_eq_ok he
        exact ⟨s1, copyBytes_geom h2, he⟩
    obtain ⟨s1, hg, he⟩ := hs1
    obtain ⟨p, h3, he⟩ := bind_eq_ok he
    cases he
    have h1' := liftM_eq_ok h1
    unfold Rs.sub at h1'
    split at h1'
    · cases h1'
      have h3' := liftM_eq_ok h3
      rw [hw.align_pos_eq hc hm (by omega : rend - size ≤ c.contentEnd cfg)] at h3'
      cases h3'
      have hmem := hw.alignPos_mem hc hm (by omega : c.contentStart cfg ≤ rend - size) (by omega)
      obtain ⟨q1, q2', q3, q4, _⟩ := hg.setCurPos_inv h hcur hi hmem.1 hmem.2 (alignPos_dvd _ _ _)
      exact ⟨q1, fun x hx => hr x (by rw [q4] at hx; exact hx), q3, Trace.of_shape q2' q4⟩
    · cases h1'

/-- `set_pos_addr_and_align_from` -/
theorem setPosAlignFrom_post (hc : CfgOK cfg) {s : State} (h : GeomInv cfg s) {i : Nat} {c : Chunk}
    (hcur : s.cur = .chunk i) (hi : s.chunks[i]? = some c) {pos posAlign : Nat} (hp2 : P2 posAlign)
    (h1 : c.contentStart cfg ≤ pos) (h2 : pos ≤ c.contentEnd cfg)
    {s' : State} (he : setPosAlignFrom cfg s pos posAlign = .ok s') :
    GeomInv cfg s' ∧ s'.minAlign = s.minAlign ∧ s'.resps = s.resps ∧ SameShape s s' := by
  have hw := h.chunks i c hi
  have hm := h.minAlign
  unfold setPosAlignFrom at he
  obtain ⟨_, ha, he⟩ := bind_eq_ok he
  simp only at he
  have hdvd : posAlign ∣ pos := by
    have := liftM_eq_ok ha
    unfold Rs.assert at this
    split at this
    · exact Nat.dvd_of_mod_eq_zero (by simpa using ‹decide (pos % posAlign = 0) = true›)
    · cases this
  split at he
  · obtain ⟨p, hp, he⟩ := bind_eq_ok he
    cases he
    refine ⟨?_, setCurPos_minAlign _ _, setCurPos_resps _ _, setCurPos_shape _ _⟩
    have hp' := liftM_eq_ok hp
    rw [hw.align_pos_eq hc hm h2] at hp'
    cases hp'
    have hmem := hw.alignPos_mem hc hm h1 h2
    exact h.setCurPos hcur hi hmem.1 hmem.2 (alignPos_dvd _ _ _)
  · rename_i hlt
    cases he
    refine ⟨?_, setCurPos_minAlign _ _, setCurPos_resps _ _, setCurPos_shape _ _⟩
    exact h.setCurPos hcur hi h1 h2 (Nat.dvd_trans (hm.p2.dvd_of_le hp2 (by omega)) hdvd)

theorem allocatePreparedSlice_post (hc : CfgOK cfg) {s : State} (h : GeomInv cfg s) (hr : RespsOK cfg s)
    {ptr len cap esize ealign : Nat} {rev : Bool} (hp2 : P2 ealign)
    (hrange : RangeInCur cfg s (if rev then ptr - cap * esize else ptr) (if rev then ptr else ptr + cap * esize))
    (hrev : rev = true → cap * esize ≤ ptr) (hlen : len ≤ cap)
    {s' : State} {a : Nat} (he : allocatePreparedSlice cfg s ptr len cap esize ealign rev = .ok (s', a)) :
    BasicPost cfg s s' := by
  obtain ⟨i, c, hcur, hi, r1, r2, r3⟩ := hrange
  have hmul : len * esize ≤ cap * esize := Nat.mul_le_mul_right esize hlen
  unfold allocatePreparedSlice at he
  rw [hcur] at he
  simp only at he
  -- a position update on a state with the same geometry
  have key : ∀ {s1 s2 : State} {pos : Nat}, SameGeom s s1 → c.contentStart cfg ≤ pos → pos ≤ c.contentEnd cfg →
      setPosAlignFrom cfg s1 pos ealign = .ok s2 → BasicPost cfg s s2 := by
    intro s1 s2 pos hg p1 p2 hs
    obtain ⟨c1, hi1, hcc⟩ := hg.getElem?' hi
    obtain ⟨q1, q2, q3, q4⟩ := setPosAlignFrom_post hc (hg.inv h) (hg.cur.trans hcur) hi1 hp2
      (by rw [geom_contentStart hcc]; exact p1) (by rw [geom_contentEnd hcc]; exact p2) hs
    exact ⟨q1, fun x hx => hr x (by rw [q3, hg.resps] at hx; exact hx), q2.trans hg.minAlign,
      Trace.of_shape (hg.shape.trans q4) (q3.trans hg.resps)⟩
  cases rev
  · simp only [Bool.false_eq_true, ↓reduceIte, Bool.not_false] at he r1 r2 r3
    split at he
    · obtain ⟨s1, h1, he⟩ := bind_eq_ok he
      cases he
      exact key (SameGeom.refl s) (by omega) (by omega) h1
    · obtain ⟨s1, h1, he⟩ := bind_eq_ok he
      obtain ⟨s2, h2, he⟩ := bind_eq_ok he
      cases he
      exact key (copyBytes_geom h1) (by omega) (by omega) h2
  · have hle := hrev rfl
    simp only [↓reduceIte, Bool.not_true, Bool.false_eq_true] at he r1 r2 r3
    split at he
    · obtain ⟨s1, h1, he⟩ := bind_eq_ok he
      obtain ⟨s2, h2, he⟩ := bind_eq_ok he
      cases he
      exact key (copyBytes_geom h1) (by omega) (by omega) h2
    · obtain ⟨s1, h1, he⟩ := bind_eq_ok he
      cases he
      exact key (SameGeom.refl s) (by omega) (by omega) h1

end
end Arena
