/-
  Lemmas/Hist2SfStep.lean — frame irrelevance of `stepCore`: the constructors that do not look at the region stack
  commute with replacing it; the others only look at (and change) its top.
-/
import BumpProof.Lemmas.Hist2Sf
import BumpProof.Lemmas.Hist2Frames

set_option linter.unusedSimpArgs false
set_option linter.unusedVariables false

namespace Arena.Hist
open Rs Ledger

variable {cfg : Cfg}

/-- replace the region stack of a ghost state -/
def gf (fs : List Frame) (g : GState) : GState := { g with s := sf fs g.s }

/-- lift over a result `(ghost state, output)` -/
def lg (fs : List Frame) (x : GState × Out) : GState × Out := (gf fs x.1, x.2)

/-- lift over the result of a pushing constructor: the new top region stays, the rest is replaced -/
def lgPush (fs : List Frame) (x : GState × Out) : GState × Out := (gf (x.1.s.frames.take 1 ++ fs) x.1, x.2)

@[simp, sf_simp] theorem gf_s (fs : List Frame) (g : GState) : (gf fs g).s = sf fs g.s := rfl
@[simp, sf_simp] theorem gf_marks (fs : List Frame) (g : GState) : (gf fs g).marks = g.marks := rfl
theorem gf_self (g : GState) : gf g.s.frames g = g := rfl
theorem gf_gf (fs fs' : List Frame) (g : GState) : gf fs (gf fs' g) = gf fs g := rfl
theorem gf_install (fs : List Frame) (g : GState) (resps : List BaseResp) : install (gf fs g) resps = gf fs (install g resps) := rfl

/-- the constructors that never look at the region stack -/
def _root_.Arena.Op.frameFree : Op → Bool
  | .newWithSize _ => true
  | .newWithCapacity _ => true
  | .newUnallocated => true
  | .allocate _ _ _ => true
  | .deallocate _ _ => true
  | .grow _ _ _ _ => true
  | .shrink _ _ _ => true
  | .allocLayout _ _ => true
  | .shrinkSlice _ _ => true
  | .prepare _ => true
  | .commit _ _ => true
  | .prepareSlice _ _ _ _ => true
  | .fillPrepared _ _ => true
  | .commitSlice _ => true
  | .abandonPrepared => true
  | .reserve _ _ => true
  | .checkpoint _ => true
  | .resetTo _ => true
  | .allocTryWith _ _ _ _ _ _ => true
  | .write _ _ => true
  | .split _ _ => true
  | _ => false

theorem sf_clearPrep (fs : List Frame) (s : State) :
    ({ sf fs s with prepared := none } : State) = sf fs { s with prepared := none } := rfl

theorem sf_setClaimed (fs : List Frame) (s : State) :
    ({ sf fs s with cur := .claimed } : State) = sf fs { s with cur := .claimed } := rfl

theorem sf_setMinAlign (fs : List Frame) (s : State) (m : Nat) :
    ({ sf fs s with minAlign := m } : State) = sf fs { s with minAlign := m } := rfl

/-- symbolic execution of one constructor on `g`, replayed on `gf fs g` -/
syntax "sf_op " ident : tactic
macro_rules
  | `(tactic| sf_op $h) =>
    `(tactic| (try simp only [gf_s, sf_clearPrep, sf_setClaimed]
               simp only [bind, Except.bind, pure, Except.pure, throw, throwThe, MonadExceptOf.throw, okOut, addBlock,
                 removeBlock, killFrom] at $h:ident ⊢
               (repeat' split at $h:ident) <;>
                 (subst $h:ident
                  simp_all only [sf_simp, l1, lg, lgPush, liftO, lW, Option.map_some, Option.map_none, ↓reduceIte, Bool.false_eq_true,
                    not_true_eq_false, not_false_eq_true, Prod.mk.injEq]
                  try rfl)))

theorem sfo_newWithSize (fs : List Frame) (g : GState) (n : Nat) :
    stepCore cfg (gf fs g) (.newWithSize n) = (stepCore cfg g (.newWithSize n)).map (lg fs) := by
  obtain ⟨x, h⟩ : ∃ x, stepCore cfg g (.newWithSize n) = x := ⟨_, rfl⟩
  rw [h]
  unfold stepCore at h ⊢
  sf_op h

theorem sfo_newWithCapacity (fs : List Frame) (g : GState) (L : Layout) :
    stepCore cfg (gf fs g) (.newWithCapacity L) = (stepCore cfg g (.newWithCapacity L)).map (lg fs) := by
  obtain ⟨x, h⟩ : ∃ x, stepCore cfg g (.newWithCapacity L) = x := ⟨_, rfl⟩
  rw [h]
  unfold stepCore at h ⊢
  sf_op h

theorem sfo_newUnallocated (fs : List Frame) (g : GState)  :
    stepCore cfg (gf fs g) .newUnallocated = (stepCore cfg g .newUnallocated).map (lg fs) := by
  obtain ⟨x, h⟩ : ∃ x, stepCore cfg g .newUnallocated = x := ⟨_, rfl⟩
  rw [h]
  unfold stepCore at h ⊢
  sf_op h

theorem sfo_allocate (fs : List Frame) (g : GState) (L : Layout) (z : Bool) (via : Via) :
    stepCore cfg (gf fs g) (.allocate L z via) = (stepCore cfg g (.allocate L z via)).map (lg fs) := by
  obtain ⟨x, h⟩ : ∃ x, stepCore cfg g (.allocate L z via) = x := ⟨_, rfl⟩
  rw [h]
  unfold stepCore at h ⊢
  sf_op h

theorem sfo_deallocate (fs : List Frame) (g : GState) (b : Nat) (via : Via) :
    stepCore cfg (gf fs g) (.deallocate b via) = (stepCore cfg g (.deallocate b via)).map (lg fs) := by
  obtain ⟨x, h⟩ : ∃ x, stepCore cfg g (.deallocate b via) = x := ⟨_, rfl⟩
  rw [h]
  unfold stepCore at h ⊢
  sf_op h

theorem sfo_grow (fs : List Frame) (g : GState) (b : Nat) (L : Layout) (z : Bool) (via : Via) :
    stepCore cfg (gf fs g) (.grow b L z via) = (stepCore cfg g (.grow b L z via)).map (lg fs) := by
  obtain ⟨x, h⟩ : ∃ x, stepCore cfg g (.grow b L z via) = x := ⟨_, rfl⟩
  rw [h]
  unfold stepCore at h ⊢
  sf_op h

theorem sfo_shrink (fs : List Frame) (g : GState) (b : Nat) (L : Layout) (via : Via) :
    stepCore cfg (gf fs g) (.shrink b L via) = (stepCore cfg g (.shrink b L via)).map (lg fs) := by
  obtain ⟨x, h⟩ : ∃ x, stepCore cfg g (.shrink b L via) = x := ⟨_, rfl⟩
  rw [h]
  unfold stepCore at h ⊢
  sf_op h

theorem sfo_allocLayout (fs : List Frame) (g : GState) (L : Layout) (hh : Hints) :
    stepCore cfg (gf fs g) (.allocLayout L hh) = (stepCore cfg g (.allocLayout L hh)).map (lg fs) := by
  obtain ⟨x, h⟩ : ∃ x, stepCore cfg g (.allocLayout L hh) = x := ⟨_, rfl⟩
  rw [h]
  unfold stepCore at h ⊢
  sf_op h

theorem sfo_shrinkSlice (fs : List Frame) (g : GState) (b n : Nat) :
    stepCore cfg (gf fs g) (.shrinkSlice b n) = (stepCore cfg g (.shrinkSlice b n)).map (lg fs) := by
  obtain ⟨x, h⟩ : ∃ x, stepCore cfg g (.shrinkSlice b n) = x := ⟨_, rfl⟩
  rw [h]
  unfold stepCore at h ⊢
  sf_op h

theorem sfo_prepare (fs : List Frame) (g : GState) (L : Layout) :
    stepCore cfg (gf fs g) (.prepare L) = (stepCore cfg g (.prepare L)).map (lg fs) := by
  obtain ⟨x, h⟩ : ∃ x, stepCore cfg g (.prepare L) = x := ⟨_, rfl⟩
  rw [h]
  unfold stepCore at h ⊢
  sf_op h

theorem sfo_commit (fs : List Frame) (g : GState) (size : Nat) (rev : Bool) :
    stepCore cfg (gf fs g) (.commit size rev) = (stepCore cfg g (.commit size rev)).map (lg fs) := by
  obtain ⟨x, h⟩ : ∃ x, stepCore cfg g (.commit size rev) = x := ⟨_, rfl⟩
  rw [h]
  unfold stepCore at h ⊢
  sf_op h

theorem sfo_prepareSlice (fs : List Frame) (g : GState) (esize ealign minCap : Nat) (rev : Bool) :
    stepCore cfg (gf fs g) (.prepareSlice esize ealign minCap rev) = (stepCore cfg g (.prepareSlice esize ealign minCap rev)).map (lg fs) := by
  obtain ⟨x, h⟩ : ∃ x, stepCore cfg g (.prepareSlice esize ealign minCap rev) = x := ⟨_, rfl⟩
  rw [h]
  unfold stepCore at h ⊢
  sf_op h

theorem sfo_fillPrepared (fs : List Frame) (g : GState) (len seed : Nat) :
    stepCore cfg (gf fs g) (.fillPrepared len seed) = (stepCore cfg g (.fillPrepared len seed)).map (lg fs) := by
  obtain ⟨x, h⟩ : ∃ x, stepCore cfg g (.fillPrepared len seed) = x := ⟨_, rfl⟩
  rw [h]
  unfold stepCore at h ⊢
  sf_op h

theorem sfo_commitSlice (fs : List Frame) (g : GState) (len : Nat) :
    stepCore cfg (gf fs g) (.commitSlice len) = (stepCore cfg g (.commitSlice len)).map (lg fs) := by
  obtain ⟨x, h⟩ : ∃ x, stepCore cfg g (.commitSlice len) = x := ⟨_, rfl⟩
  rw [h]
  unfold stepCore at h ⊢
  sf_op h

theorem sfo_abandonPrepared (fs : List Frame) (g : GState)  :
    stepCore cfg (gf fs g) .abandonPrepared = (stepCore cfg g .abandonPrepared).map (lg fs) := by
  obtain ⟨x, h⟩ : ∃ x, stepCore cfg g .abandonPrepared = x := ⟨_, rfl⟩
  rw [h]
  unfold stepCore at h ⊢
  sf_op h

theorem sfo_checkpoint (fs : List Frame) (g : GState) (k : Nat) :
    stepCore cfg (gf fs g) (.checkpoint k) = (stepCore cfg g (.checkpoint k)).map (lg fs) := by
  obtain ⟨x, h⟩ : ∃ x, stepCore cfg g (.checkpoint k) = x := ⟨_, rfl⟩
  rw [h]
  unfold stepCore at h ⊢
  sf_op h

theorem sfo_resetTo (fs : List Frame) (g : GState) (k : Nat) :
    stepCore cfg (gf fs g) (.resetTo k) = (stepCore cfg g (.resetTo k)).map (lg fs) := by
  obtain ⟨x, h⟩ : ∃ x, stepCore cfg g (.resetTo k) = x := ⟨_, rfl⟩
  rw [h]
  unfold stepCore at h ⊢
  sf_op h

theorem sfo_write (fs : List Frame) (g : GState) (b seed : Nat) :
    stepCore cfg (gf fs g) (.write b seed) = (stepCore cfg g (.write b seed)).map (lg fs) := by
  obtain ⟨x, h⟩ : ∃ x, stepCore cfg g (.write b seed) = x := ⟨_, rfl⟩
  rw [h]
  unfold stepCore at h ⊢
  sf_op h

theorem sfo_split (fs : List Frame) (g : GState) (b a : Nat) :
    stepCore cfg (gf fs g) (.split b a) = (stepCore cfg g (.split b a)).map (lg fs) := by
  obtain ⟨x, h⟩ : ∃ x, stepCore cfg g (.split b a) = x := ⟨_, rfl⟩
  rw [h]
  unfold stepCore at h ⊢
  sf_op h

theorem sfo_reserve (fs : List Frame) (g : GState) (n : Nat) (dyn : Bool) :
    stepCore cfg (gf fs g) (.reserve n dyn) = (stepCore cfg g (.reserve n dyn)).map (lg fs) := by
  obtain ⟨x, h⟩ : ∃ x, stepCore cfg g (.reserve n dyn) = x := ⟨_, rfl⟩
  rw [h]
  cases dyn <;> (unfold stepCore at h ⊢; sf_op h)

/-! ### `alloc_try_with`: through its three pieces (`Lemmas/HistOpsTry.lean`) -/

/-- `stepCore`'s `.allocTryWith` in terms of its three pieces -/
def tryWithSpec (cfg : Cfg) (g : GState) (L : Layout) (off vsize : Nat) (ok : Bool) (inner : Option Layout) (mut_ : Bool) :
    R (GState × Out) := do
  validLayout L; noPrepared g.s
  if off + vsize > L.size then throw (.contract "value outside its Result")
  let r ← allocGeneric cfg (if mut_ then .prepare else .alloc) g.s L Hints.sized Hints.custom
  match r with
  | (s', .error e) => pure ({ g with s := s' }, .err e)
  | (s1, .ok (ptr, _)) => do
    let (s2, io) ← tryInner cfg s1 inner mut_
    tryTail cfg g (withInner s2 io) ptr off vsize ok
      (mut_ || (if cfg.up then curPos cfg s1 else ptr) == curPos cfg s2)

theorem tryWith_eq (g : GState) (L : Layout) (off vsize : Nat) (ok : Bool) (inner : Option Layout) (mut_ : Bool) :
    stepCore cfg g (.allocTryWith L off vsize ok inner mut_) = tryWithSpec cfg g L off vsize ok inner mut_ := by
  obtain ⟨x, h⟩ : ∃ x, stepCore cfg g (.allocTryWith L off vsize ok inner mut_) = x := ⟨_, rfl⟩
  rw [h]
  unfold tryWithSpec tryInner tryTail withInner
  unfold stepCore at h
  cases inner <;> cases mut_ <;> cases ok <;>
  (simp only [bind, Except.bind, pure, Except.pure, throw, throwThe, MonadExceptOf.throw] at h ⊢
   (repeat' split at h) <;>
     (subst h; simp_all only [↓reduceIte, Bool.false_eq_true, not_true_eq_false, not_false_eq_true]; try rfl))

@[sf_simp] theorem sf_tryInner (fs : List Frame) (s : State) (inner : Option Layout) (m : Bool) :
    tryInner cfg (sf fs s) inner m = (tryInner cfg s inner m).map (l1 fs) := by
  obtain ⟨x, h⟩ : ∃ x, tryInner cfg s inner m = x := ⟨_, rfl⟩
  rw [h]
  unfold tryInner at h ⊢
  cases inner <;> sf_fun h

@[sf_simp] theorem sf_withInner (fs : List Frame) (s : State) (io : Option (Nat × Layout)) :
    withInner (sf fs s) io = sf fs (withInner s io) := by
  cases io <;> rfl

@[sf_simp] theorem sf_tryTail (fs : List Frame) (g : GState) (s2 : State) (ptr off vsize : Nat) (ok cs : Bool) :
    tryTail cfg (gf fs g) (sf fs s2) ptr off vsize ok cs = (tryTail cfg g s2 ptr off vsize ok cs).map (lg fs) := by
  obtain ⟨x, h⟩ : ∃ x, tryTail cfg g s2 ptr off vsize ok cs = x := ⟨_, rfl⟩
  rw [h]
  unfold tryTail at h ⊢
  cases ok <;> cases cs <;> sf_op h

theorem sfo_allocTryWith (fs : List Frame) (g : GState) (L : Layout) (off vsize : Nat) (ok : Bool)
    (inner : Option Layout) (m : Bool) :
    stepCore cfg (gf fs g) (.allocTryWith L off vsize ok inner m) =
      (stepCore cfg g (.allocTryWith L off vsize ok inner m)).map (lg fs) := by
  rw [tryWith_eq, tryWith_eq]
  obtain ⟨x, h⟩ : ∃ x, tryWithSpec cfg g L off vsize ok inner m = x := ⟨_, rfl⟩
  rw [h]
  unfold tryWithSpec at h ⊢
  sf_op h

/-! ### the constructors that push a region -/

theorem sfp_scopeEnter (fs : List Frame) (g : GState)  :
    stepCore cfg (gf fs g) .scopeEnter = (stepCore cfg g .scopeEnter).map (lgPush fs) := by
  obtain ⟨x, h⟩ : ∃ x, stepCore cfg g .scopeEnter = x := ⟨_, rfl⟩
  rw [h]
  unfold stepCore at h ⊢
  sf_op h

theorem sfp_claim (fs : List Frame) (g : GState)  :
    stepCore cfg (gf fs g) .claim = (stepCore cfg g .claim).map (lgPush fs) := by
  obtain ⟨x, h⟩ : ∃ x, stepCore cfg g .claim = x := ⟨_, rfl⟩
  rw [h]
  unfold stepCore at h ⊢
  sf_op h

theorem sfp_alignedEnter (fs : List Frame) (g : GState) (n : Nat) :
    stepCore cfg (gf fs g) (.alignedEnter n) = (stepCore cfg g (.alignedEnter n)).map (lgPush fs) := by
  obtain ⟨x, h⟩ : ∃ x, stepCore cfg g (.alignedEnter n) = x := ⟨_, rfl⟩
  rw [h]
  unfold stepCore at h ⊢
  sf_op h

theorem sfp_scopedAlignedEnter (fs : List Frame) (g : GState) (n : Nat) :
    stepCore cfg (gf fs g) (.scopedAlignedEnter n) = (stepCore cfg g (.scopedAlignedEnter n)).map (lgPush fs) := by
  obtain ⟨x, h⟩ : ∃ x, stepCore cfg g (.scopedAlignedEnter n) = x := ⟨_, rfl⟩
  rw [h]
  unfold stepCore at h ⊢
  sf_op h

/-! ### the constructors that pop a region: they only look at the top one -/

/-- as `sf_op`, with the injectivity facts needed to compare two region stacks -/
syntax "sf_pop " ident : tactic
macro_rules
  | `(tactic| sf_pop $h) =>
    `(tactic| (try simp only [gf_s, sf_clearPrep, sf_setClaimed, sf_setMinAlign]
               simp only [bind, Except.bind, pure, Except.pure, throw, throwThe, MonadExceptOf.throw, okOut, addBlock,
                 removeBlock, killFrom] at $h:ident ⊢
               (repeat' split at $h:ident) <;>
                 (subst $h:ident
                  simp_all only [sf_simp, l1, lg, lgPush, liftO, lW, Option.map_some, Option.map_none, ↓reduceIte,
                    Bool.false_eq_true, not_true_eq_false, not_false_eq_true, Prod.mk.injEq, List.cons.injEq,
                    forall_eq', forall_eq, and_imp, not_and, forall_const,
                    Frame.scope.injEq, Frame.alignedLower.injEq, Frame.alignedRaise.injEq, Frame.scopedAligned.injEq,
                    reduceCtorEq, and_true, true_and, and_false, false_and, imp_false, not_true_eq_false]
                  try rfl)))

theorem sfq_scopeExit (f0 : Frame) (T T' : List Frame) (g : GState) (hf : g.s.frames = f0 :: T) :
    stepCore cfg (gf (f0 :: T') g) .scopeExit = (stepCore cfg g .scopeExit).map (lg T') := by
  obtain ⟨x, h⟩ : ∃ x, stepCore cfg g .scopeExit = x := ⟨_, rfl⟩
  rw [h]
  cases f0 <;> cases hmk : g.marks <;> (unfold stepCore at h ⊢; sf_pop h)
  all_goals (exfalso; first
    | (rename_i hx; exact hx _ _ _ _ rfl rfl rfl rfl)
    | (rename_i hx; exact hx _ _ _ _ _ rfl rfl rfl rfl rfl)
    | (rename_i hx; exact hx _ _ rfl rfl)
    | (rename_i hx _; exact hx _ _ rfl rfl)
    | (rename_i hx; exact hx _ rfl))

theorem sfq_claimEnd (f0 : Frame) (T T' : List Frame) (g : GState) (hf : g.s.frames = f0 :: T) :
    stepCore cfg (gf (f0 :: T') g) .claimEnd = (stepCore cfg g .claimEnd).map (lg T') := by
  obtain ⟨x, h⟩ : ∃ x, stepCore cfg g .claimEnd = x := ⟨_, rfl⟩
  rw [h]
  cases f0 <;> (unfold stepCore at h ⊢; sf_pop h)
  all_goals (exfalso; first
    | (rename_i hx; exact hx _ _ _ _ rfl rfl rfl rfl)
    | (rename_i hx; exact hx _ _ _ _ _ rfl rfl rfl rfl rfl)
    | (rename_i hx; exact hx _ _ rfl rfl)
    | (rename_i hx _; exact hx _ _ rfl rfl)
    | (rename_i hx; exact hx _ rfl))

theorem sfq_alignedExit (f0 : Frame) (T T' : List Frame) (g : GState) (hf : g.s.frames = f0 :: T) :
    stepCore cfg (gf (f0 :: T') g) .alignedExit = (stepCore cfg g .alignedExit).map (lg T') := by
  obtain ⟨x, h⟩ : ∃ x, stepCore cfg g .alignedExit = x := ⟨_, rfl⟩
  rw [h]
  cases f0 <;> (unfold stepCore at h ⊢; sf_pop h)
  all_goals (exfalso; first
    | (rename_i hx; exact hx _ _ _ _ rfl rfl rfl rfl)
    | (rename_i hx; exact hx _ _ _ _ _ rfl rfl rfl rfl rfl)
    | (rename_i hx; exact hx _ _ rfl rfl)
    | (rename_i hx _; exact hx _ _ rfl rfl)
    | (rename_i hx _; exact hx _ _ _ rfl rfl rfl)
    | (rename_i hx; exact hx _ rfl))

theorem sfq_scopedAlignedExit (f0 : Frame) (T T' : List Frame) (g : GState) (hf : g.s.frames = f0 :: T) :
    stepCore cfg (gf (f0 :: T') g) .scopedAlignedExit = (stepCore cfg g .scopedAlignedExit).map (lg T') := by
  obtain ⟨x, h⟩ : ∃ x, stepCore cfg g .scopedAlignedExit = x := ⟨_, rfl⟩
  rw [h]
  cases f0 <;> cases hmk : g.marks <;> (unfold stepCore at h ⊢; sf_pop h)
  all_goals (exfalso; first
    | (rename_i hx; exact hx _ _ _ _ rfl rfl rfl rfl)
    | (rename_i hx; exact hx _ _ _ _ _ rfl rfl rfl rfl rfl)
    | (rename_i hx; exact hx _ _ rfl rfl)
    | (rename_i hx _; exact hx _ _ rfl rfl)
    | (rename_i hx; exact hx _ rfl))

end Arena.Hist
