/-
  Lemmas/StrCtor.lean — checked constructors: `from_utf8` accepts exactly the valid byte strings and
  hands out a well-formed string; `from_utf16` on well-formed UTF-16 (surrogate pairs) yields the
  encoded characters.
-/
import BumpProof.Lemmas.StrOps

namespace Str

/-! ## from_utf8 -/

theorem fromUtf8_some {v s : State} (h : fromUtf8 v = some s) : s = v ∧ Valid s.bytes := by
  unfold fromUtf8 at h
  split at h
  · rename_i hv
    simp only [Option.some.injEq] at h; subst h
    exact ⟨rfl, (validUtf8_iff _).1 hv⟩
  · simp at h

theorem fromUtf8_none_iff (v : State) : fromUtf8 v = none ↔ ¬ Valid v.bytes := by
  unfold fromUtf8
  rw [← validUtf8_iff]
  split <;> simp_all

/-! ## UTF-16 -/

/-- specification: the UTF-16 encoding of a scalar value (one unit, or a surrogate pair) -/
def encodeUtf16Char (c : Char) : List UInt16 :=
  if c.toNat < 0x10000 then [UInt16.ofNat c.toNat]
  else [UInt16.ofNat (0xD800 + (c.toNat - 0x10000) / 1024), UInt16.ofNat (0xDC00 + (c.toNat - 0x10000) % 1024)]

def encodeUtf16 : List Char → List UInt16
  | [] => []
  | c :: cs => encodeUtf16Char c ++ encodeUtf16 cs

/-- decoding well-formed UTF-16 gives back the characters, no errors -/
theorem decodeUtf16_encode (cs : List Char) : decodeUtf16 (encodeUtf16 cs) = cs.map some := by
  induction cs with
  | nil => rfl
  | cons c cs ih =>
    have hv := charRange c
    have hc : Char.ofNat c.toNat = c := Char.ofNat_toNat c
    simp only [encodeUtf16, encodeUtf16Char, List.map_cons]
    split
    · rename_i hlt
      have hu : (UInt16.ofNat c.toNat).toNat = c.toNat := by simp; omega
      cases hr : encodeUtf16 cs with
      | nil =>
        rw [hr] at ih
        simp only [List.cons_append, List.nil_append, decodeUtf16, hu]
        rw [if_pos (by omega), hc]
        cases cs with
        | nil => rfl
        | cons d ds => simp [decodeUtf16] at ih
      | cons u2 r2 =>
        rw [hr] at ih
        simp only [List.cons_append, List.nil_append, decodeUtf16, hu]
        rw [if_pos (by omega), hc, ih]
    · rename_i hge
      have h1 : (UInt16.ofNat (0xD800 + (c.toNat - 0x10000) / 1024)).toNat = 0xD800 + (c.toNat - 0x10000) / 1024 := by
        simp; omega
      have h2 : (UInt16.ofNat (0xDC00 + (c.toNat - 0x10000) % 1024)).toNat = 0xDC00 + (c.toNat - 0x10000) % 1024 := by
        simp; omega
      simp only [List.cons_append, List.nil_append, decodeUtf16, h1, h2]
      rw [if_neg (by omega), if_neg (by omega), if_neg (by omega)]
      have : (0xD800 + (c.toNat - 0x10000) / 1024) % 1024 * 1024 + (0xDC00 + (c.toNat - 0x10000) % 1024) % 1024 + 0x10000
          = c.toNat := by omega
      rw [this, hc, ih]

/-- the push loop on error-free input -/
theorem pushDecoded_ok (al : Alloc) (hal : al.isFixed = false) (cs : List Char) (s : State) (pre : List Char)
    (h : Holds s pre) :
    ∃ s', pushDecoded al s (cs.map some) = some (.ok () s') ∧ Holds s' (pre ++ cs) := by
  induction cs generalizing s pre with
  | nil => exact ⟨s, rfl, by simpa using h⟩
  | cons c cs ih =>
    obtain ⟨s1, hp, hh⟩ := (push_spec al s c pre h).growable hal
    simp only [List.map_cons, pushDecoded, hp]
    obtain ⟨s', hr, hh'⟩ := ih s1 (pre ++ [c]) hh
    exact ⟨s', hr, by simpa using hh'⟩

/-- `from_utf16` of the UTF-16 encoding of `cs` (a growable string): `Ok`, holding `cs` -/
theorem fromUtf16_encode (al : Alloc) (hal : al.isFixed = false) (cs : List Char) :
    ∃ s', fromUtf16 al (encodeUtf16 cs) = some (.ok () s') ∧ Holds s' cs := by
  unfold fromUtf16
  rw [decodeUtf16_encode]
  obtain ⟨s', hr, hh⟩ := pushDecoded_ok al hal cs _ [] (withCapacity_spec al _).1
  exact ⟨s', hr, by simpa using hh⟩

/-- on well-formed input the lossy variant replaces nothing -/
theorem fromUtf16Lossy_encode (al : Alloc) (hal : al.isFixed = false) (cs : List Char) :
    ∃ s', fromUtf16Lossy al (encodeUtf16 cs) = some (.ok () s') ∧ Holds s' cs := by
  unfold fromUtf16Lossy
  rw [decodeUtf16_encode]
  have : (cs.map some).map (fun o : Option Char => some (o.getD (Char.ofNat 0xFFFD))) = cs.map some := by
    simp [List.map_map, Function.comp_def]
  rw [this]
  obtain ⟨s', hr, hh⟩ := pushDecoded_ok al hal cs _ [] (withCapacity_spec al _).1
  exact ⟨s', hr, by simpa using hh⟩

/-- whatever the input (lone surrogates included), the lossy variant and the strict variant
    produce valid UTF-8 when they produce a string -/
theorem pushDecoded_wf (al : Alloc) (l : List (Option Char)) (s : State) (h : WF s) (r : Res Unit)
    (hr : pushDecoded al s l = some r) : AllWF r := by
  induction l generalizing s with
  | nil => simp only [pushDecoded, Option.some.injEq] at hr; subst hr; exact h
  | cons o l ih =>
    cases o with
    | none => simp [pushDecoded] at hr
    | some c =>
      obtain ⟨cs, hc⟩ := (wf_iff s).1 h
      have hp := (push_spec al s c cs hc)
      simp only [pushDecoded] at hr
      have hall := hp.allWF h
      cases hpush : push al s c with
      | ok v s1 =>
        rw [hpush] at hr hall
        exact ih s1 hall hr
      | err s1 => rw [hpush] at hr hall; simp only [Option.some.injEq] at hr; subst hr; exact hall
      | panic s1 => rw [hpush] at hr hall; simp only [Option.some.injEq] at hr; subst hr; exact hall
      | fault => rw [hpush] at hall; exact absurd hall (by simp [AllWF])

end Str
