/-
  Lemmas/Hist2Forms.lean — what the region / checkpoint constructors of `stepCore` do when they succeed, as
  equations (read off the definition).
-/
import BumpProof.Lemmas.Hist2Frames

set_option linter.unusedSimpArgs false
set_option linter.unusedVariables false

namespace Arena.Hist
open Rs Ledger

variable {cfg : Cfg}

theorem scopeEnter_form {g g' : GState} {out : Out} (hs : stepCore cfg g .scopeEnter = .ok (g', out)) :
    g' = { s := { g.s with frames := .scope (checkpoint cfg g.s) :: g.s.frames }, marks := g.s.nextId :: g.marks } := by
  fs_op hs
  rfl

theorem scopeExit_form {g g' : GState} {out : Out} (hs : stepCore cfg g .scopeExit = .ok (g', out)) :
    ∃ cp rest m ms s', g.s.frames = .scope cp :: rest ∧ g.marks = m :: ms ∧ resetTo cfg g.s cp = .ok s' ∧
      g' = { s := killFrom { s' with frames := rest } m, marks := ms } := by
  fs_op hs
  rename_i cp rest m ms hf hm _ s' hr
  exact ⟨cp, rest, m, ms, s', hf, hm, hr, rfl⟩

theorem scopedAlignedEnter_form {g g' : GState} {out : Out} {n : Nat}
    (hs : stepCore cfg g (.scopedAlignedEnter n) = .ok (g', out)) :
    MinAlignOK n ∧ ∃ s', alignTo cfg g.s n = .ok s' ∧
      g' = { s := { s' with frames := .scopedAligned (checkpoint cfg g.s) g.s.minAlign :: g.s.frames, minAlign := n },
             marks := g.s.nextId :: g.marks } := by
  fs_op hs
  rename_i hn _ v hv
  exact ⟨minAlignOK_of_not_check hn, v, hv, rfl⟩

theorem scopedAlignedExit_form {g g' : GState} {out : Out} (hs : stepCore cfg g .scopedAlignedExit = .ok (g', out)) :
    ∃ cp outer rest m ms s', g.s.frames = .scopedAligned cp outer :: rest ∧ g.marks = m :: ms ∧
      resetTo cfg { g.s with minAlign := outer } cp = .ok s' ∧
      g' = { s := killFrom { s' with frames := rest } m, marks := ms } := by
  fs_op hs
  rename_i cp outer rest m ms hf hm _ s' hr
  exact ⟨cp, outer, rest, m, ms, s', hf, hm, hr, rfl⟩

theorem checkpoint_form {g g' : GState} {out : Out} {k : Nat} (hs : stepCore cfg g (.checkpoint k) = .ok (g', out)) :
    g' = { g with s := { g.s with userCps := (k, checkpoint cfg g.s, g.s.nextId) :: g.s.userCps.filter (·.1 != k) } } := by
  fs_op hs
  rfl

theorem resetTo_form {g g' : GState} {out : Out} {k : Nat} (hs : stepCore cfg g (.resetTo k) = .ok (g', out)) :
    ∃ x cp mark s', g.s.userCps.find? (·.1 == k) = some (x, cp, mark) ∧ resetTo cfg g.s cp = .ok s' ∧
      g' = { g with s := killFrom s' mark } := by
  fs_op hs
  rename_i x cp mark hfind _ _ _ v hv
  exact ⟨x, cp, mark, v, hfind, hv, rfl⟩

theorem alignedEnter_form {g g' : GState} {out : Out} {n : Nat} (hs : stepCore cfg g (.alignedEnter n) = .ok (g', out)) :
    MinAlignOK n ∧ ∃ f, (f = Frame.alignedLower g.s.minAlign g.s.cur ∨ f = Frame.alignedRaise g.s.minAlign) ∧
      g'.s.frames = f :: g.s.frames ∧ g'.s.minAlign = n ∧ g'.marks = g.marks := by
  fs_op hs
  · rename_i hn _
    exact ⟨minAlignOK_of_not_check hn, _, Or.inl rfl, rfl, rfl, rfl⟩
  · rename_i hn _ _ _ _
    exact ⟨minAlignOK_of_not_check hn, _, Or.inr rfl, rfl, rfl, rfl⟩

theorem alignedExit_form {g g' : GState} {out : Out} (hs : stepCore cfg g .alignedExit = .ok (g', out)) :
    ∃ outer f, ((∃ start, f = Frame.alignedLower outer start) ∨ f = Frame.alignedRaise outer) ∧
      g.s.frames = f :: g'.s.frames ∧ g'.s.minAlign = outer ∧ g'.marks = g.marks := by
  fs_op hs
  · rename_i outer start rest hf _ _ _ _ _ _
    exact ⟨outer, _, Or.inl ⟨start, rfl⟩, hf, rfl, rfl⟩
  · rename_i outer rest hf
    exact ⟨outer, _, Or.inr rfl, hf, rfl, rfl⟩

/-- entering a LOWERING `aligned::<n>`: the guard records the outer minimum alignment and the current chunk -/
theorem alignedEnter_lower_form {g g' : GState} {out : Out} {n : Nat} (hlt : n < g.s.minAlign)
    (hs : stepCore cfg g (.alignedEnter n) = .ok (g', out)) :
    g' = { g with s := { g.s with frames := .alignedLower g.s.minAlign g.s.cur :: g.s.frames, minAlign := n } } := by
  fs_op hs
  rfl

/-- leaving a lowering `aligned` region: both halves of `BumpAlignGuard::drop` run -/
theorem alignedExit_lower_form {g g' : GState} {out : Out} {outer : Nat} {start : Cur} {rest : List Frame}
    (hf : g.s.frames = .alignedLower outer start :: rest) (hs : stepCore cfg g .alignedExit = .ok (g', out)) :
    ∃ s1 s', alignGuardDrop cfg g.s outer = .ok s1 ∧ alignChunkAt cfg s1 outer start = .ok s' ∧
      g' = { g with s := { s' with frames := rest, minAlign := outer } } := by
  fs_op hs
  · rename_i outer' start' rest' hf' _ v1 hv1 _ v hv
    rw [hf] at hf'
    cases hf'
    exact ⟨v1, v, hv1, hv, rfl⟩
  · rename_i outer' rest' hf'
    rw [hf] at hf'
    cases hf'

theorem claim_form {g g' : GState} {out : Out} (hs : stepCore cfg g .claim = .ok (g', out)) :
    g' = { g with s := { g.s with frames := .claim :: g.s.frames } } ∧ cfg.claimable = true := by
  fs_op hs
  rename_i hcl
  exact ⟨rfl, by simpa using hcl⟩

theorem claimEnd_form {g g' : GState} {out : Out} (hs : stepCore cfg g .claimEnd = .ok (g', out)) :
    ∃ rest, g.s.frames = .claim :: rest ∧ g' = { g with s := { g.s with frames := rest } } := by
  fs_op hs
  rename_i rest hf
  exact ⟨rest, hf, rfl⟩

end Arena.Hist
