/-
  Lemmas/CtrlPrep.lean — what the "prepare" family (`prepare_allocation`, `prepare_slice_allocation`,
  `reserve` of the trait-object interface) may do to the arena: the slow path may make a LATER chunk
  current (resetting it) or append a new one, but never touches the chunks up to the old current one.
-/
import BumpProof.Lemmas.CtrlState

set_option linter.unusedVariables false
set_option linter.unusedSimpArgs false

namespace Ctrl
open Arena Rs Lemmas

/-! ## `prepare` / `range` on the current chunk never move the position -/

theorem tryCur_keeps {cfg : Cfg} {k : Kind} {s : State} {L : Layout} {h : Hints} {v : Nat × Nat} {s' : State}
    (hk : k ≠ .alloc) (hr : tryCur cfg k s L h = .ok (some (v, s'))) : s' = s := by
  unfold tryCur at hr
  cases k with
  | alloc => exact absurd rfl hk
  | prepare =>
    simp only at hr
    split at hr
    all_goals
      generalize Arena.liftM _ = x at hr
      cases x with
      | error e => cases hr
      | ok o =>
        cases o with
        | none => simp only [R_ok_bind, R_pure_eq, Except.ok.injEq, reduceCtorEq] at hr
        | some r =>
          simp only [R_ok_bind, R_pure_eq, Except.ok.injEq, Option.some.injEq, Prod.mk.injEq] at hr
          exact hr.2.symm
  | range =>
    simp only at hr
    generalize Arena.liftM _ = x at hr
    cases x with
    | error e => cases hr
    | ok o =>
      cases o with
      | none => simp only [R_ok_bind, R_pure_eq, Except.ok.injEq, reduceCtorEq] at hr
      | some r =>
        simp only [R_ok_bind, R_pure_eq, Except.ok.injEq, Option.some.injEq, Prod.mk.injEq] at hr
        exact hr.2.symm

/-! ## Chunk creation only appends -/

/-- `s'` is `s` with at most one chunk appended (and base-allocator traffic recorded) -/
structure Appended (s s' : State) : Prop where
  chunks : s'.chunks = s.chunks ∨ ∃ c, s'.chunks = s.chunks ++ [c]
  cur : s'.cur = s.cur
  live : s'.live = s.live
  minAlign : s'.minAlign = s.minAlign
  frames : s'.frames = s.frames
  nextId : s'.nextId = s.nextId
  userCps : s'.userCps = s.userCps
  prepared : s'.prepared = s.prepared

theorem Appended.refl (s : State) : Appended s s := ⟨Or.inl rfl, rfl, rfl, rfl, rfl, rfl, rfl, rfl⟩

theorem newChunk_appended {cfg : Cfg} {s s' : State} {size : Nat} {r : Except AErr Nat}
    (h : newChunk cfg s size = .ok (s', r)) :
    Appended s s' ∧ ∀ i, r = .ok i → i = s.chunks.length ∧ i < s'.chunks.length := by
  unfold newChunk at h
  simp only at h
  split at h
  · simp only [R_pure_eq, Except.ok.injEq, Prod.mk.injEq] at h
    obtain ⟨rfl, rfl⟩ := h
    exact ⟨Appended.refl _, fun i hi => by cases hi⟩
  · split at h
    · cases h
    · simp only [R_pure_eq, Except.ok.injEq, Prod.mk.injEq] at h
      obtain ⟨rfl, rfl⟩ := h
      exact ⟨⟨Or.inl rfl, rfl, rfl, rfl, rfl, rfl, rfl, rfl⟩, fun i hi => by cases hi⟩
    · generalize Arena.liftM (Gen.SizeConfig.align_size _ _) = x at h
      cases x with
      | error e => cases h
      | ok sz =>
        simp only [R_ok_bind] at h
        generalize Arena.liftM (assert _) = y at h
        cases y with
        | error e => cases h
        | ok u =>
          simp only [R_ok_bind] at h
          generalize Arena.liftM (assert _) = z at h
          cases z with
          | error e => cases h
          | ok u =>
            simp only [R_ok_bind, R_pure_eq, Except.ok.injEq, Prod.mk.injEq] at h
            obtain ⟨rfl, rfl⟩ := h
            refine ⟨⟨Or.inr ⟨_, rfl⟩, rfl, rfl, rfl, rfl, rfl, rfl, rfl⟩, fun i hi => ?_⟩
            simp only [Except.ok.injEq] at hi
            subst hi
            simp

theorem appendFor_appended {cfg : Cfg} {s s' : State} {L : Layout} {r : Except AErr Nat}
    (h : appendFor cfg s L = .ok (s', r)) :
    Appended s s' ∧ ∀ i, r = .ok i → i = s.chunks.length ∧ i < s'.chunks.length := by
  unfold appendFor at h
  simp only at h
  split at h
  · cases h
  · generalize Arena.liftM (Gen.SizeConfig.calc_hint_from_capacity _ _) = x at h
    cases x with
    | error e => cases h
    | ok o =>
      simp only [R_ok_bind] at h
      split at h
      · simp only [R_pure_eq, Except.ok.injEq, Prod.mk.injEq] at h
        obtain ⟨rfl, rfl⟩ := h
        exact ⟨Appended.refl _, fun i hi => by cases hi⟩
      · split at h
        · simp only [R_pure_eq, Except.ok.injEq, Prod.mk.injEq] at h
          obtain ⟨rfl, rfl⟩ := h
          exact ⟨Appended.refl _, fun i hi => by cases hi⟩
        · generalize calcSize _ _ = y at h
          cases y with
          | error e => cases h
          | ok o2 =>
            simp only [R_ok_bind] at h
            split at h
            · simp only [R_pure_eq, Except.ok.injEq, Prod.mk.injEq] at h
              obtain ⟨rfl, rfl⟩ := h
              exact ⟨Appended.refl _, fun i hi => by cases hi⟩
            · exact newChunk_appended h

theorem newChunkForCapacity_appended {cfg : Cfg} {s s' : State} {L : Layout} {r : Except AErr Nat}
    (h : newChunkForCapacity cfg s L = .ok (s', r)) :
    Appended s s' ∧ ∀ i, r = .ok i → i = s.chunks.length ∧ i < s'.chunks.length := by
  unfold newChunkForCapacity at h
  generalize Arena.liftM (Gen.SizeConfig.calc_hint_from_capacity _ _) = x at h
  cases x with
  | error e => cases h
  | ok o =>
    simp only [R_ok_bind] at h
    split at h
    · simp only [R_pure_eq, Except.ok.injEq, Prod.mk.injEq] at h
      obtain ⟨rfl, rfl⟩ := h
      exact ⟨Appended.refl _, fun i hi => by cases hi⟩
    · generalize calcSize _ _ = y at h
      cases y with
      | error e => cases h
      | ok o2 =>
        simp only [R_ok_bind] at h
        split at h
        · simp only [R_pure_eq, Except.ok.injEq, Prod.mk.injEq] at h
          obtain ⟨rfl, rfl⟩ := h
          exact ⟨Appended.refl _, fun i hi => by cases hi⟩
        · exact newChunk_appended h

/-! ## The relation "only later chunks were touched" -/

theorem resetPos_resetPos (cfg : Cfg) (c : Chunk) : (c.resetPos cfg).resetPos cfg = c.resetPos cfg := rfl

/-- `s'` arises from `s` (whose current chunk is `i`) by making later chunks current: chunks `≤ i` are
    identical; every old chunk is still there, at most reset (same block, same bytes); the ghost state
    is unchanged; the current chunk is `i` or a later one. -/
structure Keeps (cfg : Cfg) (i : Nat) (s s' : State) : Prop where
  upto : ∀ j, j ≤ i → s'.chunks[j]? = s.chunks[j]?
  later : ∀ (j : Nat) (c : Chunk), s.chunks[j]? = some c → ∃ c', s'.chunks[j]? = some c' ∧ (c' = c ∨ c' = c.resetPos cfg)
  cur : ∃ j, i ≤ j ∧ s'.cur = .chunk j ∧ j < s'.chunks.length
  live : s'.live = s.live
  minAlign : s'.minAlign = s.minAlign
  frames : s'.frames = s.frames
  nextId : s'.nextId = s.nextId
  userCps : s'.userCps = s.userCps
  prepared : s'.prepared = s.prepared

theorem lt_length_of_get {l : List Chunk} {i : Nat} {c : Chunk} (h : l[i]? = some c) : i < l.length := by
  rcases Nat.lt_or_ge i l.length with h1 | h1
  · exact h1
  · rw [List.getElem?_eq_none h1] at h; cases h

theorem Keeps.refl (cfg : Cfg) {s : State} {i : Nat} {c : Chunk} (h : CurChunk s i c) : Keeps cfg i s s :=
  ⟨fun _ _ => rfl, fun j c hj => ⟨c, hj, Or.inl rfl⟩, ⟨i, Nat.le_refl i, h.cur, lt_length_of_get h.get⟩,
    rfl, rfl, rfl, rfl, rfl, rfl⟩

theorem Keeps.trans {cfg : Cfg} {i j : Nat} {s s' s'' : State} (hij : i ≤ j)
    (h1 : Keeps cfg i s s') (h2 : Keeps cfg j s' s'') : Keeps cfg i s s'' := by
  refine ⟨fun k hk => ?_, fun k c hk => ?_, ?_, h2.live.trans h1.live, h2.minAlign.trans h1.minAlign,
    h2.frames.trans h1.frames, h2.nextId.trans h1.nextId, h2.userCps.trans h1.userCps,
    h2.prepared.trans h1.prepared⟩
  · rw [h2.upto k (by omega), h1.upto k hk]
  · obtain ⟨c', hc', hcc⟩ := h1.later k c hk
    obtain ⟨c'', hc'', hcc'⟩ := h2.later k c' hc'
    refine ⟨c'', hc'', ?_⟩
    rcases hcc with rfl | rfl
    · exact hcc'
    · rcases hcc' with rfl | rfl
      · exact Or.inr rfl
      · exact Or.inr rfl
  · obtain ⟨k, hk, hc, hl⟩ := h2.cur
    exact ⟨k, by omega, hc, hl⟩

theorem Keeps.length_le {cfg : Cfg} {i : Nat} {s s' : State} (h : Keeps cfg i s s') :
    s.chunks.length ≤ s'.chunks.length := by
  rcases Nat.lt_or_ge s'.chunks.length s.chunks.length with h1 | h1
  · have hlt : s'.chunks.length < s.chunks.length := h1
    obtain ⟨c', hc', _⟩ := h.later s'.chunks.length (s.chunks[s'.chunks.length]) (List.getElem?_eq_getElem hlt)
    have := lt_length_of_get hc'
    omega
  · exact h1

theorem Keeps.appended {cfg : Cfg} {i : Nat} {s s1 s2 : State} (h : Keeps cfg i s s1) (ha : Appended s1 s2) :
    Keeps cfg i s s2 := by
  have hget : ∀ (j : Nat) (c : Chunk), s1.chunks[j]? = some c → s2.chunks[j]? = some c := by
    intro j c hj
    rcases ha.chunks with h2 | ⟨c2, h2⟩
    · rw [h2]; exact hj
    · rw [h2, List.getElem?_append_left (lt_length_of_get hj)]; exact hj
  have hlen : s1.chunks.length ≤ s2.chunks.length := by
    rcases ha.chunks with h2 | ⟨c2, h2⟩
    · rw [h2]; exact Nat.le_refl _
    · rw [h2, List.length_append]; omega
  refine ⟨fun k hk => ?_, fun k c hk => ?_, ?_, ha.live.trans h.live, ha.minAlign.trans h.minAlign,
    ha.frames.trans h.frames, ha.nextId.trans h.nextId, ha.userCps.trans h.userCps,
    ha.prepared.trans h.prepared⟩
  · obtain ⟨j, hj, hc, hl⟩ := h.cur
    have hk1 : k < s1.chunks.length := by omega
    rw [← h.upto k hk, List.getElem?_eq_getElem hk1]
    exact hget k _ (List.getElem?_eq_getElem hk1)
  · obtain ⟨c', hc', hcc⟩ := h.later k c hk
    exact ⟨c', hget k c' hc', hcc⟩
  · obtain ⟨j, hj, hc, hl⟩ := h.cur
    exact ⟨j, hj, ha.cur.trans hc, by omega⟩

theorem Keeps.setCur {cfg : Cfg} {i j : Nat} {s s1 : State} (h : Keeps cfg i s s1) (hij : i ≤ j)
    (hj : j < s1.chunks.length) : Keeps cfg i s { s1 with cur := .chunk j } :=
  ⟨h.upto, h.later, ⟨j, hij, rfl, hj⟩, h.live, h.minAlign, h.frames, h.nextId, h.userCps, h.prepared⟩

/-- one step of the walk over the successor chunks -/
theorem keeps_walk_step (cfg : Cfg) {s : State} {i : Nat} {c c1 : Chunk} (hc : CurChunk s i c)
    (h1 : s.chunks[i + 1]? = some c1) :
    Keeps cfg i s { s with chunks := s.chunks.set (i + 1) (c1.resetPos cfg), cur := .chunk (i + 1) } ∧
    CurChunk { s with chunks := s.chunks.set (i + 1) (c1.resetPos cfg), cur := .chunk (i + 1) } (i + 1)
      (c1.resetPos cfg) := by
  have hl := lt_length_of_get h1
  refine ⟨⟨fun j hj => ?_, fun j c' hj => ?_, ⟨i + 1, by omega, rfl, ?_⟩, rfl, rfl, rfl, rfl, rfl, rfl⟩, rfl, ?_⟩
  · show (s.chunks.set (i + 1) _)[j]? = _
    rw [List.getElem?_set_ne (by omega)]
  · show ∃ c'', (s.chunks.set (i + 1) _)[j]? = some c'' ∧ _
    by_cases hji : i + 1 = j
    · subst hji
      rw [h1] at hj
      cases hj
      exact ⟨_, by rw [List.getElem?_set_self hl], Or.inr rfl⟩
    · exact ⟨c', by rw [List.getElem?_set_ne hji]; exact hj, Or.inl rfl⟩
  · show i + 1 < (s.chunks.set (i + 1) _).length
    rw [List.length_set]; exact hl
  · show (s.chunks.set (i + 1) _)[i + 1]? = _
    rw [List.getElem?_set_self hl]

theorem walkNext_keeps {cfg : Cfg} {k : Kind} {L : Layout} {h : Hints} (hk : k ≠ .alloc) :
    ∀ (fuel i : Nat) (s : State) (c : Chunk) (r : Option ((Nat × Nat) × State)) (s' : State),
      CurChunk s i c → walkNext cfg k L h fuel i s = .ok (r, s') →
      Keeps cfg i s s' ∧ ∀ v s'', r = some (v, s'') → s'' = s' := by
  intro fuel
  induction fuel with
  | zero =>
    intro i s c r s' hc hw
    rw [walkNext] at hw
    simp only [R_pure_eq, Except.ok.injEq, Prod.mk.injEq] at hw
    obtain ⟨rfl, rfl⟩ := hw
    exact ⟨Keeps.refl cfg hc, fun v s'' hv => by cases hv⟩
  | succ fuel ih =>
    intro i s c r s' hc hw
    rw [walkNext] at hw
    split at hw
    · simp only [R_pure_eq, Except.ok.injEq, Prod.mk.injEq] at hw
      obtain ⟨rfl, rfl⟩ := hw
      exact ⟨Keeps.refl cfg hc, fun v s'' hv => by cases hv⟩
    · rename_i c1 h1
      obtain ⟨hk1, hc1⟩ := keeps_walk_step cfg hc h1
      simp only at hw
      generalize htc : tryCur cfg k _ L h = x at hw
      cases x with
      | error e => cases hw
      | ok o =>
        cases o with
        | none =>
          simp only [R_ok_bind] at hw
          obtain ⟨hk2, hr⟩ := ih (i + 1) _ _ r s' hc1 hw
          exact ⟨Keeps.trans (by omega) hk1 hk2, hr⟩
        | some vs =>
          obtain ⟨v, s2⟩ := vs
          have hs2 := tryCur_keeps hk htc
          simp only [R_ok_bind, R_pure_eq, Except.ok.injEq, Prod.mk.injEq] at hw
          obtain ⟨rfl, rfl⟩ := hw
          subst hs2
          exact ⟨hk1, fun v' s'' hv => by
            simp only [Option.some.injEq, Prod.mk.injEq] at hv; exact hv.2.symm⟩

/-- slow path: `Keeps`, and when the request is refused the allocator stays in the chunk it started in -/
theorem inAnotherChunk_keeps' {cfg : Cfg} {k : Kind} {L : Layout} {h : Hints} (hk : k ≠ .alloc)
    {i : Nat} {s s' : State} {c : Chunk} {r : Except AErr (Nat × Nat)} (hc : CurChunk s i c)
    (hr : inAnotherChunk cfg k s L h = .ok (s', r)) :
    Keeps cfg i s s' ∧ ∀ e, r = .error e → s'.cur = .chunk i := by
  unfold inAnotherChunk at hr
  simp only [hc.cur] at hr
  generalize hw : walkNext cfg k L h _ i s = x at hr
  cases x with
  | error e => cases hr
  | ok o =>
    obtain ⟨ro, sw⟩ := o
    obtain ⟨hkw, hro⟩ := walkNext_keeps hk _ _ _ _ _ _ hc hw
    simp only [R_ok_bind] at hr
    cases ro with
    | some vs =>
      obtain ⟨v, s2⟩ := vs
      simp only [R_pure_eq, Except.ok.injEq, Prod.mk.injEq] at hr
      obtain ⟨rfl, rfl⟩ := hr
      rw [hro v s2 rfl]
      exact ⟨hkw, fun e he => by cases he⟩
    | none =>
      simp only at hr
      generalize haf : appendFor cfg sw L = y at hr
      cases y with
      | error e => cases hr
      | ok o2 =>
        obtain ⟨sa, ra⟩ := o2
        obtain ⟨ha, hidx⟩ := appendFor_appended haf
        simp only [R_ok_bind] at hr
        cases ra with
        | error e =>
          simp only [R_pure_eq, Except.ok.injEq, Prod.mk.injEq] at hr
          obtain ⟨rfl, rfl⟩ := hr
          have hlen : i < sa.chunks.length := by
            have h1 := lt_length_of_get hc.get
            have h2 := (hkw.appended ha).length_le
            omega
          exact ⟨(hkw.appended ha).setCur (Nat.le_refl i) hlen, fun _ _ => rfl⟩
        | ok idx =>
          simp only at hr
          obtain ⟨h1, h2⟩ := hidx idx rfl
          obtain ⟨j, hj, hcj, hl⟩ := hkw.cur
          have hks : Keeps cfg i s { sa with cur := .chunk idx } := (hkw.appended ha).setCur (by omega) h2
          generalize htc : tryCur cfg k _ L h = x at hr
          cases x with
          | error e => cases hr
          | ok o =>
            cases o with
            | none => cases hr
            | some vs =>
              obtain ⟨v, s2⟩ := vs
              have hs2 := tryCur_keeps hk htc
              simp only [R_ok_bind, R_pure_eq, Except.ok.injEq, Prod.mk.injEq] at hr
              obtain ⟨rfl, rfl⟩ := hr
              subst hs2
              exact ⟨hks, fun e he => by cases he⟩

theorem inAnotherChunk_keeps {cfg : Cfg} {k : Kind} {L : Layout} {h : Hints} (hk : k ≠ .alloc)
    {i : Nat} {s s' : State} {c : Chunk} {r : Except AErr (Nat × Nat)} (hc : CurChunk s i c)
    (hr : inAnotherChunk cfg k s L h = .ok (s', r)) : Keeps cfg i s s' :=
  (inAnotherChunk_keeps' hk hc hr).1

/-- `prepare_allocation` & co. (fast path, then slow path): chunks up to the old current one keep
    their position and contents; nothing is written; the ghost state is untouched -/
theorem allocGeneric_keeps {cfg : Cfg} {k : Kind} {L : Layout} {h hs : Hints} (hk : k ≠ .alloc)
    {i : Nat} {s s' : State} {c : Chunk} {r : Except AErr (Nat × Nat)} (hc : CurChunk s i c)
    (hr : allocGeneric cfg k s L h hs = .ok (s', r)) : Keeps cfg i s s' := by
  unfold allocGeneric at hr
  generalize htc : tryCur cfg k s L h = x at hr
  cases x with
  | error e => cases hr
  | ok o =>
    cases o with
    | none =>
      simp only [R_ok_bind] at hr
      exact inAnotherChunk_keeps hk hc hr
    | some vs =>
      obtain ⟨v, s2⟩ := vs
      have hs2 := tryCur_keeps hk htc
      simp only [R_ok_bind, R_pure_eq, Except.ok.injEq, Prod.mk.injEq] at hr
      obtain ⟨rfl, rfl⟩ := hr
      subst hs2
      exact Keeps.refl cfg hc

/-- a refused prepare leaves the current chunk where it was -/
theorem allocGeneric_error_cur {cfg : Cfg} {k : Kind} {L : Layout} {h hs : Hints} (hk : k ≠ .alloc)
    {i : Nat} {s s' : State} {c : Chunk} {e : AErr} (hc : CurChunk s i c)
    (hr : allocGeneric cfg k s L h hs = .ok (s', .error e)) : s'.cur = .chunk i := by
  unfold allocGeneric at hr
  generalize htc : tryCur cfg k s L h = x at hr
  cases x with
  | error e => cases hr
  | ok o =>
    cases o with
    | none =>
      simp only [R_ok_bind] at hr
      exact (inAnotherChunk_keeps' hk hc hr).2 e rfl
    | some vs =>
      obtain ⟨v, s2⟩ := vs
      simp only [R_ok_bind, R_pure_eq, Except.ok.injEq, Prod.mk.injEq, reduceCtorEq, and_false] at hr

end Ctrl
