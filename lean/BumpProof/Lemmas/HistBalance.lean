/-
  Lemmas/HistBalance.lean — algebra of the base-allocator ledger (`Matched`, `Balanced`, `runLog`).
-/
import BumpProof.Arena.Hist

set_option linter.unusedSimpArgs false
set_option linter.unusedVariables false

namespace Arena.Hist
open Rs

variable {cfg : Cfg}

theorem Matched.app {α β : Type} {R : α → β → Prop} {as1 as2 : List α} {bs1 bs2 : List β}
    (h1 : Matched R as1 bs1) (h2 : Matched R as2 bs2) : Matched R (as1 ++ as2) (bs1 ++ bs2) := by
  induction h1 with
  | nil => exact h2
  | cons hr _ ih => exact Matched.cons hr ih

theorem Matched.length {α β : Type} {R : α → β → Prop} {as : List α} {bs : List β} (h : Matched R as bs) :
    as.length = bs.length := by
  induction h with
  | nil => rfl
  | cons _ _ ih => simp [ih]

/-- every element of the left list has a partner -/
theorem Matched.exists_right {α β : Type} {R : α → β → Prop} {as : List α} {bs : List β} (h : Matched R as bs)
    {a : α} (ha : a ∈ as) : ∃ b ∈ bs, R a b := by
  induction h with
  | nil => cases ha
  | cons hr _ ih =>
    rcases List.mem_cons.mp ha with rfl | ha
    · exact ⟨_, List.mem_cons_self, hr⟩
    · obtain ⟨b, hb, hab⟩ := ih ha
      exact ⟨b, List.mem_cons_of_mem _ hb, hab⟩

/-- nothing granted, nothing released, nothing owned: the ledger of the initial state -/
theorem balanced_init (cfg : Cfg) : Balanced cfg [] [] (initG cfg).s :=
  ⟨[], Matched.nil, by simp [owned, initG, initState]⟩

/-- one more step -/
theorem Balanced.step {G : List Grant} {R : List BaseReq} {s s' : State} (h : Balanced cfg G R s)
    {gr : List Grant} {rel : List BaseReq} {acq : List Chunk} (hm : Matched (ChunkOfGrant cfg) acq gr)
    (hp : (rel ++ owned cfg s').Perm (owned cfg s ++ acq.map (deallocReq cfg))) :
    Balanced cfg (G ++ gr) (R ++ rel) s' := by
  obtain ⟨acq0, hm0, hp0⟩ := h
  refine ⟨acq0 ++ acq, hm0.app hm, ?_⟩
  rw [List.map_append, List.append_assoc]
  have h1 : (R ++ (rel ++ owned cfg s')).Perm (R ++ (owned cfg s ++ acq.map (deallocReq cfg))) :=
    List.Perm.append_left R hp
  refine h1.trans ?_
  rw [← List.append_assoc]
  exact List.Perm.append_right _ hp0

/-- when nothing is owned any more, the releases are exactly one per chunk ever created -/
theorem Balanced.released_all {G : List Grant} {R : List BaseReq} {s : State} (h : Balanced cfg G R s)
    (ho : owned cfg s = []) :
    ∃ acq : List Chunk, Matched (ChunkOfGrant cfg) acq G ∧ R.Perm (acq.map (deallocReq cfg)) := by
  obtain ⟨acq, hm, hp⟩ := h
  rw [ho, List.append_nil] at hp
  exact ⟨acq, hm, hp⟩

/-- every release made so far matches a grant made so far: same pointer, the alignment that was requested,
    and a size between the requested and the granted one -/
theorem Balanced.release_matches {G : List Grant} {R : List BaseReq} {s : State} (h : Balanced cfg G R s)
    {q : BaseReq} (hq : q ∈ R) :
    ∃ gr ∈ G, ∃ size, q = .dealloc gr.ptr size gr.align ∧ gr.reqSize ≤ size ∧ size ≤ gr.granted := by
  obtain ⟨acq, hm, hp⟩ := h
  have hq' : q ∈ acq.map (deallocReq cfg) := hp.subset (List.mem_append_left _ hq)
  obtain ⟨c, hc, rfl⟩ := List.mem_map.mp hq'
  obtain ⟨gr, hgr, h1, h2, h3, h4⟩ := hm.exists_right hc
  exact ⟨gr, hgr, c.size, by unfold deallocReq; rw [h1, h2], h3, h4⟩

/-- the number of releases never exceeds the number of grants (no double free) -/
theorem Balanced.releases_le {G : List Grant} {R : List BaseReq} {s : State} (h : Balanced cfg G R s) :
    R.length + (owned cfg s).length = G.length := by
  obtain ⟨acq, hm, hp⟩ := h
  have := hp.length_eq
  rw [List.length_append, List.length_map] at this
  rw [this, hm.length]

/-! ## `runLog` -/

theorem runLog_cons {g g'' : GState} {op : Op} {resps : List BaseResp} {rest : List (Op × List BaseResp)}
    {log : List LogEntry} (h : runLog cfg g ((op, resps) :: rest) = .ok (g'', log)) :
    ∃ g' out reqs log', step cfg g op resps = .ok (g', out, reqs) ∧ runLog cfg g' rest = .ok (g'', log') ∧
      log = (reqs, resps) :: log' := by
  unfold runLog at h
  simp only [bind, Except.bind, pure, Except.pure] at h
  split at h
  · cases h
  · rename_i x hx
    obtain ⟨g', out, reqs⟩ := x
    simp only at h
    split at h
    · cases h
    · rename_i y hy
      obtain ⟨g2, log'⟩ := y
      simp only at h
      cases h
      exact ⟨g', out, reqs, log', hx, hy, rfl⟩

/-- `runLog` reaches the same state as `runOps` -/
theorem runLog_runOps : ∀ (ops : List (Op × List BaseResp)) (g g' : GState) (log : List LogEntry),
    runLog cfg g ops = .ok (g', log) → runOps cfg g ops = .ok g' := by
  intro ops
  induction ops with
  | nil =>
    intro g g' log h
    unfold runLog at h
    cases h
    rfl
  | cons x rest ih =>
    intro g g' log h
    obtain ⟨op, resps⟩ := x
    obtain ⟨g1, out, reqs, log', hs, hrest, _⟩ := runLog_cons h
    unfold runOps
    simp only [bind, Except.bind, hs]
    exact ih g1 g' log' hrest

end Arena.Hist
