/-
  Lemmas/MemTry.lean — what `tryCur` (the fast path `RawChunk::alloc / prepare_allocation /
  prepare_allocation_range`) returns, in terms of the wide-integer specification of C11.
-/
import BumpProof.Props.C11
import BumpProof.Lemmas.MemFresh

set_option linter.unusedSimpArgs false

namespace Arena.Mem
open Rs

theorem freeRange_chunk {cfg : Cfg} {s : State} {i : Nat} {c : Chunk}
    (hcur : s.cur = .chunk i) (hc : s.chunks[i]? = some c) :
    freeRange cfg s = if cfg.up then (c.pos, c.contentEnd cfg) else (c.contentStart cfg, c.pos) := by
  unfold freeRange
  rw [hcur]
  simp only [hc]

theorem freeRange_dummy {cfg : Cfg} {s : State}
    (h : ¬ ∃ i c, s.cur = .chunk i ∧ s.chunks[i]? = some c) : freeRange cfg s = (dummyAddr + 16, dummyAddr) := by
  unfold freeRange
  split
  · rename_i i hcur
    split
    · rename_i c hc
      exact absurd ⟨i, c, hcur, hc⟩ h
    · rfl
  · rfl

theorem setCurPos_chunk {s : State} {i : Nat} (hcur : s.cur = .chunk i) (p : Nat) : setCurPos s p = setPos s i p := by
  unfold setCurPos
  rw [hcur]

theorem liftM_ok_iff {α} {x : Rs.M α} {v : α} : liftM x = .ok v ↔ x = .ok v :=
  ⟨liftM_ok, fun h => by rw [h]; rfl⟩

/-- `tryCur .alloc` in terms of the specification -/
theorem tryCur_alloc_spec {cfg : Cfg} {s s' : State} {L : Layout} {h : Hints} {p x : Nat}
    (hv : C11.Valid cfg.up (bumpProps cfg s L h))
    (hr : tryCur cfg .alloc s L h = .ok (some ((p, x), s'))) :
    x = 0 ∧
    if cfg.up then ∃ np, Spec.bumpUp (freeRange cfg s).1 (freeRange cfg s).2 L.size L.align s.minAlign = some (p, np) ∧
        s' = setCurPos s np
    else Spec.bumpDown (freeRange cfg s).1 (freeRange cfg s).2 L.size L.align s.minAlign = some p ∧
        s' = setCurPos s p := by
  unfold tryCur at hr
  simp only [bind, Except.bind, pure, Except.pure] at hr
  cases hup : cfg.up
  · rw [hup] at hv
    simp only [hup, Bool.false_eq_true, ↓reduceIte] at hr ⊢
    rw [C11.bump_down_eq _ hv] at hr
    simp only [liftM] at hr
    split at hr
    · cases hr
    · rename_i q hq
      cases hr
      exact ⟨rfl, hq, rfl⟩
  · rw [hup] at hv
    simp only [hup, ↓reduceIte] at hr ⊢
    rw [C11.bump_up_eq _ hv] at hr
    simp only [liftM] at hr
    split at hr
    · cases hr
    · rename_i q hq
      cases hr
      refine ⟨rfl, q.new_pos, ?_, rfl⟩
      simp only [bumpProps] at hq
      cases hb : Spec.bumpUp (freeRange cfg s).1 (freeRange cfg s).2 L.size L.align s.minAlign with
      | none => rw [hb] at hq; cases hq
      | some r =>
        rw [hb] at hq
        simp only [Option.map_some, Option.some.injEq] at hq
        subst hq
        rfl

/-- the block `[p, p+size)` is carved from the free side of chunk `c`; the bump position moves from
    `c.pos` to `np` -/
def Carved (cfg : Cfg) (c : Chunk) (p size np : Nat) : Prop :=
  if cfg.up then c.pos ≤ p ∧ p + size ≤ np ∧ np ≤ c.contentEnd cfg
  else c.contentStart cfg ≤ p ∧ np = p ∧ p + size ≤ c.pos

theorem valid_min_dvd_end {up : Bool} {p : Gen.Bumping.BumpProps} (hv : C11.Valid up p) (hup : up = true) :
    p.min_align ∣ p.«end» := by
  have f := Lemmas.Valid.facts hv
  rcases f.hr with ⟨_, _, h3⟩ | ⟨_, h2, _⟩
  · rw [hup] at h3
    exact Nat.dvd_trans f.hm16d h3.2
  · exact Nat.dvd_trans f.hm16d h2

/-- fast-path allocation: aligned, inside the old free range of the current chunk, only that chunk's
    position changes -/
theorem tryCur_alloc_carved {cfg : Cfg} {s s' : State} {L : Layout} {h : Hints} {p x : Nat}
    (hv : C11.Valid cfg.up (bumpProps cfg s L h))
    (hr : tryCur cfg .alloc s L h = .ok (some ((p, x), s'))) :
    ∃ i c np, s.cur = .chunk i ∧ s.chunks[i]? = some c ∧ L.align ∣ p ∧ s.minAlign ∣ np ∧
      Carved cfg c p L.size np ∧ s' = setPos s i np := by
  have f := Lemmas.Valid.facts hv
  have hal : 0 < L.align := f.hap
  have hma : 0 < s.minAlign := f.hmp
  obtain ⟨_, hspec⟩ := tryCur_alloc_spec hv hr
  by_cases hex : ∃ i c, s.cur = .chunk i ∧ s.chunks[i]? = some c
  · obtain ⟨i, c, hcur, hc⟩ := hex
    rw [freeRange_chunk hcur hc] at hspec
    cases hup : cfg.up
    · simp only [hup, Bool.false_eq_true, ↓reduceIte] at hspec
      obtain ⟨hb, rfl⟩ := hspec
      have := C11.bumpDown_some hal hma (Lemmas.P2.dvd_or_dvd f.ha f.hm) hb
      refine ⟨i, c, p, hcur, hc, this.1, this.2.1, ?_, setCurPos_chunk hcur p⟩
      simp only [Carved, hup, Bool.false_eq_true, ↓reduceIte]
      exact ⟨this.2.2.1, trivial, this.2.2.2.1⟩
    · simp only [hup, ↓reduceIte] at hspec
      obtain ⟨np, hb, rfl⟩ := hspec
      have hme : s.minAlign ∣ c.contentEnd cfg := by
        have := valid_min_dvd_end hv hup
        simp only [bumpProps, freeRange_chunk hcur hc, hup, ↓reduceIte] at this
        exact this
      have := C11.bumpUp_some hal hma hme hb
      refine ⟨i, c, np, hcur, hc, this.1, this.2.2.2.2.1, ?_, setCurPos_chunk hcur np⟩
      simp only [Carved, hup, ↓reduceIte]
      exact ⟨this.2.1, this.2.2.1, this.2.2.2.1⟩
  · rw [freeRange_dummy hex] at hspec
    exfalso
    cases hup : cfg.up
    · simp only [hup, Bool.false_eq_true, ↓reduceIte] at hspec
      have := C11.bumpDown_some hal hma (Lemmas.P2.dvd_or_dvd f.ha f.hm) hspec.1
      omega
    · simp only [hup, ↓reduceIte] at hspec
      obtain ⟨np, hb, _⟩ := hspec
      have hme : s.minAlign ∣ dummyAddr := by
        have := valid_min_dvd_end hv hup
        simp only [bumpProps, freeRange_dummy hex] at this
        exact this
      have := C11.bumpUp_some hal hma hme hb
      omega

/-- `tryCur .prepare` computes the same block as `.alloc` but leaves the state alone -/
theorem tryCur_prepare_eq {cfg : Cfg} {s s' : State} {L : Layout} {h : Hints} {v : Nat × Nat}
    (hr : tryCur cfg .prepare s L h = .ok (some (v, s'))) :
    s' = s ∧ ∃ s'', tryCur cfg .alloc s L h = .ok (some (v, s'')) := by
  unfold tryCur at hr ⊢
  simp only [bind, Except.bind, pure, Except.pure] at hr ⊢
  cases hup : cfg.up
  all_goals simp only [hup, Bool.false_eq_true, ↓reduceIte] at hr ⊢
  all_goals split at hr
  all_goals first | (cases hr; done) | skip
  all_goals split at hr
  all_goals first | (cases hr; done) | (cases hr)
  all_goals exact ⟨rfl, _, rfl⟩

theorem tryCur_prepare_carved {cfg : Cfg} {s s' : State} {L : Layout} {h : Hints} {p x : Nat}
    (hv : C11.Valid cfg.up (bumpProps cfg s L h))
    (hr : tryCur cfg .prepare s L h = .ok (some ((p, x), s'))) :
    s' = s ∧ ∃ i c np, s.cur = .chunk i ∧ s.chunks[i]? = some c ∧ L.align ∣ p ∧ s.minAlign ∣ np ∧
      Carved cfg c p L.size np := by
  obtain ⟨h1, s'', h2⟩ := tryCur_prepare_eq hr
  obtain ⟨i, c, np, a1, a2, a3, a4, a5, _⟩ := tryCur_alloc_carved hv h2
  exact ⟨h1, i, c, np, a1, a2, a3, a4, a5⟩

/-- `tryCur .range` (prepare_allocation_range): a range with aligned ends inside the free range of the
    current chunk, at least `L.size` long; the state is unchanged -/
theorem tryCur_range_inside {cfg : Cfg} {s s' : State} {L : Layout} {h : Hints} {a b : Nat}
    (hv : C11.Valid cfg.up (bumpProps cfg s L h)) (hsz : L.align ∣ L.size)
    (hr : tryCur cfg .range s L h = .ok (some ((a, b), s'))) :
    s' = s ∧ ∃ i c, s.cur = .chunk i ∧ s.chunks[i]? = some c ∧ L.align ∣ a ∧ L.align ∣ b ∧ a + L.size ≤ b ∧
      (if cfg.up then c.pos ≤ a ∧ b ≤ c.contentEnd cfg else c.contentStart cfg ≤ a ∧ b ≤ c.pos) := by
  have f := Lemmas.Valid.facts hv
  have hal : 0 < L.align := f.hap
  unfold tryCur at hr
  simp only [bind, Except.bind, pure, Except.pure] at hr
  have key : ∃ fs fe, freeRange cfg s = (fs, fe) ∧ L.align ∣ a ∧ L.align ∣ b ∧ fs ≤ a ∧ b ≤ fe ∧ a + L.size ≤ b ∧ s' = s := by
    cases hup : cfg.up
    · rw [hup] at hv
      simp only [hup, Bool.false_eq_true, ↓reduceIte] at hr
      rw [C11.bump_prepare_down_eq _ hv] at hr
      simp only [liftM] at hr
      split at hr
      · cases hr
      · rename_i q hq
        cases hr
        have := C11.prepareDown_some hal hsz hq
        exact ⟨_, _, rfl, this.1, this.2.1, this.2.2.1, this.2.2.2.1, this.2.2.2.2.1, rfl⟩
    · rw [hup] at hv
      simp only [hup, ↓reduceIte] at hr
      rw [C11.bump_prepare_up_eq _ hv] at hr
      simp only [liftM] at hr
      split at hr
      · cases hr
      · rename_i q hq
        cases hr
        have := C11.prepareUp_some hal hsz hq
        exact ⟨_, _, rfl, this.1, this.2.1, this.2.2.1, this.2.2.2.1, this.2.2.2.2.1, rfl⟩
  obtain ⟨fs, fe, hfr, k1, k2, k3, k4, k5, k6⟩ := key
  refine ⟨k6, ?_⟩
  by_cases hex : ∃ i c, s.cur = .chunk i ∧ s.chunks[i]? = some c
  · obtain ⟨i, c, hcur, hc⟩ := hex
    rw [freeRange_chunk hcur hc] at hfr
    refine ⟨i, c, hcur, hc, k1, k2, k5, ?_⟩
    cases hup : cfg.up
    all_goals simp only [hup, Bool.false_eq_true, ↓reduceIte, Prod.mk.injEq] at hfr ⊢
    all_goals omega
  · rw [freeRange_dummy hex] at hfr
    simp only [Prod.mk.injEq] at hfr
    omega
