/-
  Lemmas/TargetsZst6.lean — along every history whose grants end at or below `2^62` (`ReachableLow`), EVERY live
  block, also an EMPTY one, ends at or below `2^62`; hence none passes the `is_last` test of the static dummy
  chunk of a claimed handle (`DummyApart`), and `grow / deallocate / shrink` through the claimed handle never
  end in a bug fault — for zero-sized blocks too.
-/
import BumpProof.Lemmas.TargetsZst5

set_option linter.unusedSimpArgs false
set_option linter.unusedVariables false

namespace Arena
/-- the ONE contract the model checks for the active handle only: a typed allocation addressed to the CLAIMED handle
    carries a truthful layout hint (`size_is_multiple_of_align` only if the size is a multiple of the alignment —
    in the crate the hint is derived from the type, `SizedLayout` / `ArrayLayout`, and is always truthful) -/
def Op.hintsTruthful : Op → Bool
  | .onClaimed (.allocLayout L h) => !h.sma || L.size % L.align == 0
  | _ => true
end Arena

namespace Arena.Hist
open Rs Ledger Lemmas

variable {cfg : Cfg} {g g' : GState}

theorem lowGrants_append {a b : List (Op × List BaseResp)} (ha : LowGrants a) (hb : LowGrants b) : LowGrants (a ++ b) := by
  intro x hx
  rcases List.mem_append.mp hx with h | h
  · exact ha x h
  · exact hb x h

theorem reachableLow_init (cfg : Cfg) : ReachableLow cfg (initG cfg) :=
  ⟨[], (fun _ h => by cases h), trivial, (fun _ h => by cases h), rfl⟩

/-- low reachability is closed under any further covered history with a correct environment and low grants -/
theorem ReachableLow.append (h : ReachableLow cfg g) {w : List (Op × List BaseResp)}
    (hcov : AllCovered w) (henv : RunEnvOK cfg g w) (hlow : LowGrants w) (hr : runOps cfg g w = .ok g') :
    ReachableLow cfg g' := by
  obtain ⟨ops, h1, h2, h3, h4⟩ := h
  refine ⟨ops ++ w, allCovered_append h1 hcov, runEnvOK_append ops w _ h2 (fun g1 hg1 => ?_),
    lowGrants_append h3 hlow, ?_⟩
  · rw [h4] at hg1; cases hg1; exact henv
  · exact (runOps_append ops w _ _).2 ⟨g, h4, hr⟩

/-- … in particular under one more covered step -/
theorem ReachableLow.snoc (h : ReachableLow cfg g) {op : Op} {resps : List BaseResp} {out : Out}
    {reqs : List BaseReq} (hcov : op.Covered) (henv : EnvOK cfg g resps)
    (hlow : ∀ p k, BaseResp.granted p k ∈ resps → p + k ≤ 2 ^ 62)
    (hs : Arena.step cfg g op resps = .ok (g', out, reqs)) : ReachableLow cfg g' := by
  refine h.append (w := [(op, resps)]) ?_ ⟨henv, fun _ _ _ _ => trivial⟩ ?_ ?_
  · intro x hx
    simp only [List.mem_singleton] at hx
    subst hx; exact hcov
  · intro x hx
    simp only [List.mem_singleton] at hx
    subst hx; exact hlow
  · rw [runOps_cons_eq [] hs]; rfl

/-- the induction: from a low-reachable state whose blocks are low, along a covered history with low grants -/
theorem blocksLow_run (hc : CfgOK cfg) : ∀ (ops : List (Op × List BaseResp)) (g0 g : GState), ReachableLow cfg g0 →
    BlocksBelow (2 ^ 62) g0.s → AllCovered ops → RunEnvOK cfg g0 ops → LowGrants ops →
    runOps cfg g0 ops = .ok g → BlocksBelow (2 ^ 62) g.s := by
  intro ops
  induction ops with
  | nil =>
    intro g0 g _ hbb _ _ _ hr
    cases hr
    exact hbb
  | cons x rest ih =>
    intro g0 g hreach hbb hcov henv hlow hr
    obtain ⟨op, resps⟩ := x
    obtain ⟨g1, out, reqs, hs, hrest⟩ := runOps_cons hr
    obtain ⟨he1, he2⟩ := henv
    obtain ⟨hc1, hc2⟩ := allCovered_cons hcov
    have hl1 : ∀ p k, BaseResp.granted p k ∈ resps → p + k ≤ 2 ^ 62 := hlow (op, resps) List.mem_cons_self
    have hreach1 : ReachableLow cfg g1 := hreach.snoc hc1 he1 hl1 hs
    have hB0 : ChunksBelow (2 ^ 62) g0.s := hreach.chunksLow hc
    have hB1 : ChunksBelow (2 ^ 62) g1.s := hreach1.chunksLow hc
    have hbb1 : BlocksBelow (2 ^ 62) g1.s := bb_step hc1 (hreach.reachable.inv hc) he1 hbb hB0 hB1 hs
    exact ih g1 g hreach1 hbb1 hc2 (he2 g1 out reqs hs) (fun y hy => hlow y (List.mem_cons_of_mem _ hy)) hrest

/-- EVERY live block of a state reached with low grants — also an empty one — ends at or below `2^62` -/
theorem ReachableLow.blocksLow (hc : CfgOK cfg) (h : ReachableLow cfg g) : BlocksBelow (2 ^ 62) g.s := by
  obtain ⟨ops, h1, h2, h3, h4⟩ := h
  exact blocksLow_run hc ops (initG cfg) g (reachableLow_init cfg) (fun b hb => by cases hb) h1 h2 h3 h4

/-- hence NO live block passes the `is_last` test of the claimed handle's dummy chunk: `DummyApart`, the hypothesis
    of `noFault_onClaimed_block`, holds in every state reached with low grants -/
theorem ReachableLow.dummyApart (hc : CfgOK cfg) (h : ReachableLow cfg g) : DummyApart cfg g.s := by
  intro blk hb
  have hlow := h.blocksLow hc blk hb
  refine C14.isLast_claimed_false cfg _ blk.addr blk.size rfl ?_
  have hd : dummyAddr = 2 ^ 62 + 80 := by decide
  omega

/-- a covered operation with truthful hints is covered by the no-fault theorem, or it is `grow / deallocate / shrink`
    of a block through the claimed handle -/
theorem noFaultCovered_or_claimedBlock {op : Op} (hcov : op.Covered) (htr : op.hintsTruthful = true) :
    op.noFaultCovered = true ∨
    ∃ b op', op = .onClaimed op' ∧
      ((∃ L z via, op' = .grow b L z via) ∨ (∃ via, op' = .deallocate b via) ∨ (∃ L via, op' = .shrink b L via)) := by
  cases op with
  | onClaimed op' =>
    cases op' with
    | grow b L z via => exact .inr ⟨b, _, rfl, .inl ⟨L, z, via, rfl⟩⟩
    | deallocate b via => exact .inr ⟨b, _, rfl, .inr (.inl ⟨via, rfl⟩)⟩
    | shrink b L via => exact .inr ⟨b, _, rfl, .inr (.inr ⟨L, via, rfl⟩)⟩
    | allocLayout L h => exact .inl htr
    | _ => exact .inl rfl
  | newWithSize n => exact .inl hcov
  | prepareSlice a b c d => exact .inl hcov
  | allocTryWith L a b c d e => exact .inl hcov
  | _ => exact .inl rfl

end Arena.Hist
