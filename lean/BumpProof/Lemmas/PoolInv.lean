/-
  Lemmas/PoolInv.lean — the invariant of the pool model and its preservation (helper lemmas of C19).

  `Inv s`: the idle stack, the arenas inside live guards and the leaked arenas are together a
  PERMUTATION of `0 … created-1`, and live guards have distinct ids.  Exclusivity, "none lost",
  the accounting `idle + live = created` are all corollaries of the permutation.
-/
import BumpProof.Pool.Model

namespace Pool

/-- every arena the pool knows about, by where it currently is -/
def State.all (s : State) : List ArenaId := s.idle ++ (s.owned.map (·.2) ++ s.leaked)

/-- number of guards that were handed out and not dropped -/
def State.live (s : State) : Nat := s.owned.length + s.leaked.length

structure Inv (s : State) : Prop where
  perm : s.all.Perm (List.range s.created)
  keys : (s.owned.map (·.1)).Nodup

theorem inv_init : Inv init := ⟨by simp [State.all, init], by simp [init]⟩

/-! ### `arenaOf`, `takeOut` -/

theorem arenaOf_mem {g a} : ∀ {l : List (GuardId × ArenaId)}, arenaOf g l = some a → (g, a) ∈ l
  | [], h => by simp [arenaOf] at h
  | (g', b) :: rest, h => by
    unfold arenaOf at h
    split at h
    · rename_i hg; cases h; subst hg; simp
    · exact List.mem_cons_of_mem _ (arenaOf_mem h)

theorem arenaOf_none {g} : ∀ {l : List (GuardId × ArenaId)}, arenaOf g l = none → g ∉ l.map (·.1)
  | [], _ => by simp
  | (g', b) :: rest, h => by
    unfold arenaOf at h
    split at h
    · cases h
    · rename_i hg
      have := arenaOf_none h
      simp only [List.map_cons, List.mem_cons, not_or]
      exact ⟨fun e => hg e.symm, this⟩

theorem arenaOf_of_mem {g a} : ∀ {l : List (GuardId × ArenaId)}, (l.map (·.1)).Nodup → (g, a) ∈ l → arenaOf g l = some a
  | [], _, h => by cases h
  | (g', b) :: rest, hn, h => by
    simp only [List.map_cons, List.nodup_cons] at hn
    unfold arenaOf
    rcases List.mem_cons.mp h with h | h
    · cases h; simp
    · have hne : g' ≠ g := by
        intro e; subst e
        exact hn.1 (List.mem_map.mpr ⟨(g', a), h, rfl⟩)
      simp only [hne, ↓reduceIte]
      exact arenaOf_of_mem hn.2 h

theorem takeOut_some {g a} : ∀ {l l' : List (GuardId × ArenaId)}, takeOut g l = some (a, l') →
    (l.map (·.2)).Perm (a :: l'.map (·.2)) ∧ (l.map (·.1)).Perm (g :: l'.map (·.1)) ∧
    l.length = l'.length + 1 ∧ arenaOf g l = some a
  | [], _, h => by simp [takeOut] at h
  | (g', b) :: rest, l', h => by
    unfold takeOut at h
    split at h
    · rename_i hg
      cases h; subst hg
      exact ⟨List.Perm.refl _, List.Perm.refl _, rfl, by simp [arenaOf]⟩
    · rename_i hg
      split at h
      · cases h
      · rename_i b' rest' hrec
        cases h
        have ih := takeOut_some hrec
        refine ⟨?_, ?_, ?_, ?_⟩
        · exact (List.Perm.cons b ih.1).trans (List.Perm.swap _ _ _)
        · exact (List.Perm.cons g' ih.2.1).trans (List.Perm.swap _ _ _)
        · simp [ih.2.2.1]
        · simp [arenaOf, hg, ih.2.2.2]

theorem takeOut_none {g} : ∀ {l : List (GuardId × ArenaId)}, takeOut g l = none → arenaOf g l = none
  | [], _ => rfl
  | (g', b) :: rest, h => by
    unfold takeOut at h
    split at h
    · cases h
    · rename_i hg
      split at h
      · rename_i hrec; simp [arenaOf, hg, takeOut_none hrec]
      · cases h

theorem takeOut_mem {g a} : ∀ {l l' : List (GuardId × ArenaId)}, takeOut g l = some (a, l') →
    ∀ p, p ∈ l' → p ∈ l
  | [], _, h => by simp [takeOut] at h
  | (g', b) :: rest, l', h => by
    unfold takeOut at h
    split at h
    · cases h; intro p hp; exact List.mem_cons_of_mem _ hp
    · split at h
      · cases h
      · rename_i b' rest' hrec
        cases h
        intro p hp
        rcases List.mem_cons.mp hp with hp | hp
        · subst hp; simp
        · exact List.mem_cons_of_mem _ (takeOut_mem hrec p hp)

/-! ### `mapOver` -/

theorem update_same (f : ArenaId → Arena) (a v) : update f a v a = v := by simp [update]
theorem update_other (f : ArenaId → Arena) {a x} (v) (h : x ≠ a) : update f a v x = f x := by simp [update, h]

theorem mapOver_not_mem (op : Arena → Arena) : ∀ (l : List ArenaId) (f : ArenaId → Arena) (x : ArenaId),
    x ∉ l → mapOver op l f x = f x
  | [], _, _, _ => rfl
  | a :: rest, f, x, h => by
    simp only [List.mem_cons, not_or] at h
    unfold mapOver
    rw [mapOver_not_mem op rest _ x h.2, update_other _ _ h.1]

/-- on a duplicate-free list the loop applies `op` exactly once to every listed arena -/
theorem mapOver_mem (op : Arena → Arena) : ∀ (l : List ArenaId) (f : ArenaId → Arena) (x : ArenaId),
    l.Nodup → x ∈ l → mapOver op l f x = op (f x)
  | [], _, _, _, h => by cases h
  | a :: rest, f, x, hn, h => by
    simp only [List.nodup_cons] at hn
    unfold mapOver
    rcases List.mem_cons.mp h with h | h
    · subst h
      rw [mapOver_not_mem op rest _ x hn.1, update_same]
    · have hne : x ≠ a := fun e => hn.1 (e ▸ h)
      rw [mapOver_mem op rest _ x hn.2 h, update_other _ _ hne]

/-! ### corollaries of the permutation -/

theorem Inv.nodup {s} (h : Inv s) : s.all.Nodup := h.perm.nodup_iff.mpr List.nodup_range

theorem Inv.mem_iff {s} (h : Inv s) (a : ArenaId) : a ∈ s.all ↔ a < s.created :=
  (h.perm.mem_iff).trans List.mem_range

theorem Inv.length {s} (h : Inv s) : s.idle.length + s.live = s.created := by
  have := h.perm.length_eq
  simp only [State.all, List.length_append, List.length_map, List.length_range] at this
  simp only [State.live]; omega

theorem Inv.created_not_mem {s} (h : Inv s) : s.created ∉ s.all := by
  intro hm; exact Nat.lt_irrefl _ ((h.mem_iff _).mp hm)

/-! ### preservation -/

theorem inv_get {s s' g c o} (h : Inv s) (e : get s g c = .ok (s', o)) : Inv s' := by
  unfold get at e
  split at e
  · cases e
  split at e
  · cases e
  rename_i _ hfree
  have hfree' : arenaOf g s.owned = none := by
    cases hh : arenaOf g s.owned with
    | none => rfl
    | some a => simp [hh] at hfree
  have hk : g ∉ s.owned.map (·.1) := arenaOf_none hfree'
  split at e
  · rename_i a rest hidle
    cases e
    constructor
    · have hp := h.perm
      simp only [State.all, hidle] at hp ⊢
      simp only [List.map_cons, List.cons_append] at hp ⊢
      exact (List.perm_middle).trans hp
    · simp only [List.map_cons, List.nodup_cons]
      exact ⟨hk, h.keys⟩
  · rename_i hidle
    split at e
    · cases e
      constructor
      · have hp := h.perm
        simp only [State.all, hidle, List.nil_append] at hp ⊢
        simp only [List.map_cons, List.cons_append]
        rw [List.range_succ]
        exact ((List.perm_append_singleton _ _).trans (List.Perm.cons _ hp.symm)).symm
      · simp only [List.map_cons, List.nodup_cons]
        exact ⟨hk, h.keys⟩
    · cases e; exact h
    · cases e; exact ⟨h.perm, h.keys⟩

theorem inv_put {s s' g o} (h : Inv s) (e : put s g = .ok (s', o)) : Inv s' := by
  unfold put at e
  split at e
  · cases e
  split at e
  · cases e
  rename_i a owned' ht
  cases e
  have t := takeOut_some ht
  constructor
  · have hp := h.perm
    simp only [State.all] at hp ⊢
    simp only [List.cons_append]
    refine List.Perm.trans ?_ hp
    refine List.Perm.trans ?_ (List.Perm.append_left s.idle (List.Perm.append_right s.leaked t.1.symm))
    simp only [List.cons_append]
    exact List.perm_middle.symm
  · have := (t.2.1.nodup_iff).mp h.keys
    exact (List.nodup_cons.mp this).2

theorem inv_forget {s s' g o} (h : Inv s) (e : forget s g = .ok (s', o)) : Inv s' := by
  unfold forget at e
  split at e
  · cases e
  split at e
  · cases e
  rename_i a owned' ht
  cases e
  have t := takeOut_some ht
  constructor
  · have hp := h.perm
    simp only [State.all] at hp ⊢
    refine List.Perm.trans ?_ hp
    refine List.Perm.append_left s.idle ?_
    refine List.Perm.trans ?_ (List.Perm.append_right s.leaked t.1.symm)
    simp only [List.cons_append]
    exact List.perm_middle
  · have := (t.2.1.nodup_iff).mp h.keys
    exact (List.nodup_cons.mp this).2

theorem inv_alloc {s s' g t o} (h : Inv s) (e : alloc s g t = .ok (s', o)) : Inv s' := by
  unfold alloc at e
  split at e
  · cases e
  split at e
  · cases e
  cases e
  exact ⟨h.perm, h.keys⟩

theorem inv_forAll {s s' op o} (h : Inv s) (e : forAll s op = .ok (s', o)) : Inv s' := by
  unfold forAll at e
  split at e
  · cases e
  split at e
  · cases e
  cases e
  exact ⟨h.perm, h.keys⟩

theorem inv_dropPool {s s' o} (h : Inv s) (e : dropPool s = .ok (s', o)) : Inv s' := by
  unfold dropPool at e
  split at e
  · rename_i s1 o1 h1
    cases e
    have := inv_forAll h h1
    exact ⟨this.perm, this.keys⟩
  · cases e

theorem inv_step {s s' st o} (h : Inv s) (e : step s st = .ok (s', o)) : Inv s' := by
  cases st with
  | get g c => exact inv_get h e
  | put g => exact inv_put h e
  | forget g => exact inv_forget h e
  | alloc g t => exact inv_alloc h e
  | reset => exact inv_forAll h e
  | resetToStart => exact inv_forAll h e
  | drop => exact inv_dropPool h e

theorem inv_run : ∀ {h : List Step} {s s'}, Inv s → run s h = .ok s' → Inv s'
  | [], s, s', hi, e => by simp [run] at e; exact e ▸ hi
  | st :: rest, s, s', hi, e => by
    unfold run at e
    split at e
    · rename_i s1 o1 h1
      exact inv_run (inv_step hi h1) e
    · cases e

theorem run_append : ∀ {h1 h2 : List Step} {s s'}, run s (h1 ++ h2) = .ok s' →
    ∃ m, run s h1 = .ok m ∧ run m h2 = .ok s'
  | [], _, s, s', e => ⟨s, rfl, e⟩
  | st :: rest, h2, s, s', e => by
    simp only [List.cons_append] at e
    unfold run at e
    split at e
    · rename_i s1 o1 hs
      obtain ⟨m, hm1, hm2⟩ := run_append e
      exact ⟨m, by simp only [run, hs]; exact hm1, hm2⟩
    · cases e

theorem run_of_runLog : ∀ {h : List Step} {s s' log}, runLog s h = .ok (s', log) → run s h = .ok s'
  | [], s, s', log, e => by simp [runLog] at e; simp [run, e.1]
  | st :: rest, s, s', log, e => by
    unfold runLog at e
    split at e
    · rename_i s1 o1 hs
      simp only [run, hs]
      split at e
      · rename_i s2 l2 h2
        cases e
        exact run_of_runLog h2
      · cases e
    · cases e

theorem runLog_of_run : ∀ {h : List Step} {s s'}, run s h = .ok s' → ∃ log, runLog s h = .ok (s', log)
  | [], s, s', e => by simp [run] at e; exact ⟨[], by simp [runLog, e]⟩
  | st :: rest, s, s', e => by
    unfold run at e
    unfold runLog
    split at e
    · rename_i s1 o1 h1
      obtain ⟨l, hl⟩ := runLog_of_run e
      exact ⟨(st, o1) :: l, by simp [hl]⟩
    · cases e

end Pool
