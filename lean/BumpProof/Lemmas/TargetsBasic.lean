/-
  Lemmas/TargetsBasic.lean — helper lemmas and concrete witnesses for `Props/Targets.lean`
  (resolution of the early `…_target` statements of C05, C07, C13).
-/
import BumpProof.Props.Hist2
import BumpProof.Props.C05
import BumpProof.Props.C07
import BumpProof.Props.C10
import BumpProof.Props.C13

set_option linter.unusedSimpArgs false
set_option linter.unusedVariables false

namespace Arena.Targets
open Arena Arena.Hist Rs Ledger

variable {cfg : Cfg}

/-! ## C05: counting grants -/

/-- there are at most as many grants as `alloc` requests -/
theorem grantsOf_length_le : ∀ (rq : List BaseReq) (used : List BaseResp),
    (grantsOf rq used).length ≤ (allocsOf rq).length := by
  intro rq
  induction rq with
  | nil => intro used; simp [grantsOf, allocsOf]
  | cons q qs ih =>
    intro used
    cases q with
    | dealloc a b c =>
      have := ih used
      simpa [grantsOf, allocsOf, isDealloc] using this
    | alloc sz al =>
      cases used with
      | nil =>
        have := ih []
        simp only [grantsOf, allocsOf, isDealloc, List.filter_cons, Bool.not_false, ↓reduceIte, List.length_cons] at this ⊢
        omega
      | cons r rs =>
        have := ih rs
        cases r <;>
          simp only [grantsOf, allocsOf, isDealloc, List.filter_cons, Bool.not_false, ↓reduceIte, List.length_cons] at this ⊢ <;>
          omega

/-! ## C07: a refusing base allocator, `grow` -/

/-- a refusal at the head of the pending responses answers every request -/
theorem baseOK_of_fail {s : State} {rest : List BaseResp} (h : s.resps = .fail :: rest) (L : Layout) : BaseOK cfg s L :=
  fun _ _ => ⟨.fail, rest, h, trivial⟩

/-- an ill-formed state (two OVERLAPPING chunks, downwards): chunk 0 is `[0xFE20, 0x10010)`, its header the last 32
    bytes `[0xFFF0, 0x10010)`; chunk 1 — the current one — is `[0x10000, 0x101F0)` with 8 free bytes below the
    position `0x10008`.  No reachable state looks like this (`C10.reachable_chunks_wellformed`: chunks are disjoint). -/
def c07Chunk0 : Chunk := { base := 0xFE20, size := 496, pos := 0xFE20, granted := 496, reqSize := 496, data := #[] }
def c07Chunk1 : Chunk := { base := 0x10000, size := 496, pos := 0x10008, granted := 496, reqSize := 496, data := #[] }
def c07State : State :=
  { chunks := [c07Chunk0, c07Chunk1], cur := .chunk 1, minAlign := 8, frames := [], live := [], nextId := 0,
    userCps := [], prepared := none, resps := [.fail], reqs := [], dropped := false }
def c07L : Layout := { size := 24, align := 8 }

theorem c07_fast : tryCur exCfgDown .alloc c07State c07L Hints.custom = .ok none := rfl

/-- growing the newest block `[0x10008, 0x10018)` of chunk 1 in place moves it to `0x10000`; the model looks the
    destination up in the chunk list, finds the overlapping chunk 0 first, and the destination lies in ITS header:
    undefined behaviour -/
theorem c07_grow_faults : (grow exCfgDown c07State 0x10008 16 c07L).toBool = false := rfl

/-! ## C13: an ill-formed state on which `WithoutShrink::shrink` lowers `allocated` -/

/-- chunk 0 (current) has its position 16 bytes PAST its end — the shape of a dummy chunk, impossible for a chunk
    of a reachable state (`C10.reachable_pos_aligned`: the position lies in the content range) -/
def c13Chunk0 : Chunk := { base := 0x10000, size := 496, pos := 0x10000 + 512, granted := 496, reqSize := 496, data := #[] }
def c13Chunk1 : Chunk := { base := 0x20000, size := 976, pos := 0x20000 + 32, granted := 976, reqSize := 976, data := #[] }
def c13State : State :=
  { chunks := [c13Chunk0, c13Chunk1], cur := .chunk 0, minAlign := 8, frames := [], live := [], nextId := 0,
    userCps := [], prepared := none, resps := [], reqs := [], dropped := false }

/-- `allocated` is 480 before (more than the 464 bytes of capacity of chunk 0) and 464 after the call, which
    moves to chunk 1 -/
theorem c13_witness : ∃ s' r, shrinkWithoutShrink exCfg c13State 1 0 { size := 0, align := 2 } = .ok (s', r) ∧
    (stats exCfg s').allocated < (stats exCfg c13State).allocated := ⟨_, _, rfl, by decide⟩

/-! ## C01 / C02: `RespsSane` (the early environment predicate) and `EnvOK` -/

/-- `EnvOK` is `RespsSane` with the bound `2^63` (user half of the address space) instead of `2^64` -/
theorem envOK_of_sane {g : GState} {resps : List BaseResp} (h : Mem.RespsSane cfg g.s resps)
    (hlow : ∀ p k, BaseResp.granted p k ∈ resps → p + k < 2 ^ 63) : EnvOK cfg g resps := by
  obtain ⟨h1, h2⟩ := h
  refine ⟨?_, ?_, ?_⟩
  · intro r hr
    cases r with
    | fail => trivial
    | granted p k =>
      have hr' : BaseResp.granted p k ∈ resps := hr
      obtain ⟨a1, _, a3, _, _⟩ := h1 p k hr'
      exact ⟨a3, a1, hlow p k hr'⟩
  · show resps.Pairwise _
    refine h2.imp ?_
    intro a b hab
    cases a <;> cases b <;> first | trivial | exact hab
  · intro p k hm i c hc
    have hm' : BaseResp.granted p k ∈ resps := hm
    have hc' : g.s.chunks[i]? = some c := hc
    exact (h1 p k hm').2.2.2.2 c (List.mem_of_getElem? hc')

/-! ## C10: a history after which a (non-empty) live block passes the `is_last` test of the CLAIMED dummy chunk -/

/-- the base allocator grants the first chunk at `2^62` — inside the user half of the address space, so `EnvOK`
    holds, but covering the address `dummyAddr = 2^62 + 80` the model uses for the static dummy chunk header; a
    64-byte allocation then ends exactly at `dummyAddr + 16`, the bump position of the upwards dummy chunk;
    the arena is claimed -/
def dummyOps : List (Op × List BaseResp) :=
  [(.newWithSize 512, [.granted (2 ^ 62) 496]), (.allocate { size := 64, align := 1 } false .plain, []), (.claim, [])]

theorem dummyOps_covered : AllCovered dummyOps := coveredCheck_sound (by decide)

set_option maxRecDepth 1000000 in
theorem dummyOps_env : RunEnvOK exCfg (initG exCfg) dummyOps := runEnvCheck_sound _ _ (by rfl)

set_option maxRecDepth 1000000 in
/-- … and `deallocate` of that block through the claimed (original) handle runs into `as_non_dummy_unchecked` on the
    dummy chunk -/
theorem dummyOps_fault : ∃ g, runOps exCfg (initG exCfg) dummyOps = .ok g ∧
    step exCfg g (.onClaimed (.deallocate 0 .plain)) [] = .error (.ub "as_non_dummy_unchecked on a dummy chunk") :=
  ⟨_, rfl, rfl⟩

set_option maxRecDepth 1000000 in
/-- a second, independent way to fault on the claimed handle: an UNTRUTHFUL layout hint (`SizedLayout` for a size
    that is not a multiple of the alignment) — the model checks this contract only for the active handle -/
theorem dummyOps_fault_hint : ∃ g, runOps exCfg (initG exCfg) dummyOps = .ok g ∧
    step exCfg g (.onClaimed (.allocLayout { size := 1, align := 2 } Hints.sized)) [] = .error (.rs .assertion) :=
  ⟨_, rfl, rfl⟩

/-- non-vacuity for the zero-sized case: a chunk at `0x10000`, a ZERO-SIZED allocation, the arena is claimed; the
    empty block is then deallocated through the claimed handle (no fault) -/
def zstOps : List (Op × List BaseResp) :=
  [(.newWithSize 512, [.granted 0x10000 496]), (.allocate { size := 0, align := 1 } false .plain, []), (.claim, [])]

set_option maxRecDepth 1000000 in
theorem zstOps_low : ∃ g, ReachableLow exCfg g ∧ (∃ blk, findBlock g.s 0 = .ok blk ∧ blk.size = 0) ∧
    ∃ g' out reqs, step exCfg g (.onClaimed (.deallocate 0 .plain)) [] = .ok (g', out, reqs) :=
  ⟨_, ⟨zstOps, coveredCheck_sound (by decide), runEnvCheck_sound _ _ (by rfl), lowCheck_sound (by decide), rfl⟩,
    ⟨_, rfl, rfl⟩, _, _, _, rfl⟩

end Arena.Targets
