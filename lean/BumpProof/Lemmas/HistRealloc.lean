/-
  Lemmas/HistRealloc.lean — generic successor-state lemmas for `Arena.Hist.Inv` used by the
  reallocating operations (grow, shrink, shrink_slice, commit, alloc_try_with, split, …):
  a model function ran (`Stable` ghost state), then one live block is dropped and / or a new one is
  registered.
-/
import BumpProof.Lemmas.HistOpsC

set_option linter.unusedSimpArgs false
set_option linter.unusedVariables false

namespace Arena.Hist
open Rs

variable {cfg : Cfg}

/-- The state `s'` reached from `g.s` by model functions that leave the ghost state alone, with the live
    blocks selected by `keep` surviving.  Everything about `s'` that is not ghost is a hypothesis; use the
    function-level theorems of C10 (`…_inv`, `…_trace` + `C10.trace_disjoint`) to supply them. -/
theorem inv_of_stable_filter {g : GState} (h : Inv cfg g) {s' : State} (keep : Block → Bool)
    (hprep : g.s.prepared = none)
    (hg : GeomInv cfg s') (hd : ChunksDisjoint s') (hma : s'.minAlign = g.s.minAlign) (hst : Stable g.s s')
    (hun : s'.cur = .unallocated → g.s.cur = .unallocated ∧ SameShape g.s s')
    (hck : s'.cur = g.s.cur ∨ ∃ j, s'.cur = .chunk j)
    (hl : Mem.LiveOK cfg { s' with live := s'.live.filter keep }) :
    Inv cfg ⟨{ s' with live := s'.live.filter keep }, g.marks⟩ := by
  have hsub : LiveSub g.s { s' with live := s'.live.filter keep } :=
    fun b hb => Or.inl (hst.live ▸ mem_filter_sub hb)
  have hn : g.s.nextId ≤ ({ s' with live := s'.live.filter keep } : State).nextId := Nat.le_of_eq hst.nextId.symm
  refine h.step_to (geom_congr (s := s') rfl rfl rfl hg) (disj_congr (s := s') rfl hd) hl ?_ ?_ ?_
    hst.cov hsub hn ?_ ?_ (fun x hx => Nat.le_trans (h.marks x hx) hn) (fun x hx => Or.inl (hst.userCps ▸ hx)) ?_
  · intro hu
    obtain ⟨h1, h2⟩ := hun hu
    have h3 := h2.length
    rw [h.unalloc h1] at h3
    exact List.eq_nil_of_length_eq_zero h3
  · rcases hck with hc | ⟨j, hj⟩
    · show s'.cur ≠ _; rw [hc]; exact h.notClaimed
    · show s'.cur ≠ _; rw [hj]; simp
  · intro hu
    have := h.liveCur (hun hu).1
    show s'.live.filter keep = []
    rw [hst.live, this]; rfl
  · intro b hb
    have := h.ids b (hst.live ▸ mem_filter_sub hb)
    exact Nat.lt_of_lt_of_le this hn
  · show FramesOK cfg _ s'.minAlign s'.frames g.marks
    rw [hma, hst.frames]; exact h.frames.mono' hst.cov hsub hn
  · intro q hq
    rw [show ({ s' with live := s'.live.filter keep } : State).prepared = s'.prepared from rfl, hst.prepared, hprep] at hq
    cases hq

/-- the same when block `id` is dropped (`removeBlock`) -/
theorem inv_of_stable_drop {g : GState} (h : Inv cfg g) {s' : State} (id : Nat)
    (hprep : g.s.prepared = none)
    (hg : GeomInv cfg s') (hd : ChunksDisjoint s') (hma : s'.minAlign = g.s.minAlign) (hst : Stable g.s s')
    (hun : s'.cur = .unallocated → g.s.cur = .unallocated ∧ SameShape g.s s')
    (hck : s'.cur = g.s.cur ∨ ∃ j, s'.cur = .chunk j)
    (hl : Mem.LiveOK cfg (removeBlock s' id)) : Inv cfg ⟨removeBlock s' id, g.marks⟩ :=
  inv_of_stable_filter h (fun x => x.id != id) hprep hg hd hma hst hun hck hl

/-- the same when every live block survives -/
theorem inv_of_stable {g : GState} (h : Inv cfg g) {s' : State}
    (hprep : g.s.prepared = none)
    (hg : GeomInv cfg s') (hd : ChunksDisjoint s') (hma : s'.minAlign = g.s.minAlign) (hst : Stable g.s s')
    (hun : s'.cur = .unallocated → g.s.cur = .unallocated ∧ SameShape g.s s')
    (hck : s'.cur = g.s.cur ∨ ∃ j, s'.cur = .chunk j)
    (hl : Mem.LiveOK cfg s') : Inv cfg ⟨s', g.marks⟩ := by
  have e : ({ s' with live := s'.live.filter (fun _ => true) } : State) = s' := by rw [filter_true_eq]
  have := inv_of_stable_filter h (fun _ => true) hprep hg hd hma hst hun hck (by rw [e]; exact hl)
  rw [e] at this
  exact this

/-- dropping a live block from the ghost list (the arena itself untouched) -/
theorem Inv.dropBlock {g : GState} (h : Inv cfg g) (id : Nat) : Inv cfg ⟨removeBlock g.s id, g.marks⟩ := by
  have hsub : LiveSub g.s (removeBlock g.s id) := fun b hb => Or.inl (mem_filter_sub hb)
  refine h.step_to (geom_congr (s := g.s) rfl rfl rfl h.geom) (disj_congr (s := g.s) rfl h.disj)
    (h.live.removeBlock id) h.unalloc h.notClaimed ?_ (ChunksCov.of_eq rfl) hsub (Nat.le_refl _) ?_
    (h.frames.mono' (ChunksCov.of_eq rfl) hsub (Nat.le_refl _)) h.marks (fun x hx => Or.inl hx) ?_
  · intro hu
    show g.s.live.filter _ = []
    rw [h.liveCur hu]; rfl
  · intro b hb; exact h.ids b (mem_filter_sub hb)
  · intro q hq
    exact (h.prep q hq).congr rfl (fun i c _ hc => ⟨c, hc, rfl, rfl, rfl⟩)

/-- a block is replaced by another one (reallocation in the ghost state) -/
theorem Inv.replaceBlock {g : GState} (h : Inv cfg g) (id : Nat) {p size align init : Nat}
    (hl : Mem.LiveOK cfg (Arena.addBlock (removeBlock g.s id) p size align init).1)
    (hcur : ∃ j, g.s.cur = .chunk j) (hal : ∃ k, k < 64 ∧ align = 2 ^ k) :
    Inv cfg ⟨(Arena.addBlock (removeBlock g.s id) p size align init).1, g.marks⟩ :=
  (h.dropBlock id).withBlock hl hcur hal

/-- what is needed to register `[p, p+size)` as a new live block of `s` -/
theorem liveOK_addBlock_of {s : State} (hl : Mem.LiveOK cfg s) {p size align : Nat} (init : Nat) (hal : align ∣ p)
    (hpl : 0 < size → Mem.Placed cfg s p size) (hdj : ∀ b ∈ s.live, Mem.RangesDisjoint b.addr b.size p size) :
    Mem.LiveOK cfg (Arena.addBlock s p size align init).1 :=
  hl.addBlock init hal hpl hdj

/-- `Placed` only looks at chunks and `cur` -/
theorem placed_congr {s s' : State} (hch : s'.chunks = s.chunks) (hcur : s'.cur = s.cur) {a sz : Nat}
    (h : Mem.Placed cfg s a sz) : Mem.Placed cfg s' a sz :=
  h.of_geom (by rw [hch]) hcur

/-- a sub-range of a placed range is placed -/
theorem placed_sub {s : State} {a sz a' sz' : Nat} (h : Mem.Placed cfg s a sz) (h1 : a ≤ a') (h2 : a' + sz' ≤ a + sz) :
    Mem.Placed cfg s a' sz' := by
  obtain ⟨i, j, c, e1, e2, e3, e4, e5⟩ := h
  refine ⟨i, j, c, e1, e2, e3, ⟨by have := e4.1; omega, by have := e4.2; omega⟩, fun hji => ?_⟩
  have := e5 hji
  unfold Mem.OnAllocatedSide at this ⊢
  cases hup : cfg.up
  · simp only [hup, Bool.false_eq_true, ↓reduceIte] at this ⊢; omega
  · simp only [hup, ↓reduceIte] at this ⊢; omega

end Arena.Hist
