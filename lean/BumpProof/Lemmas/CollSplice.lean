/-
  Lemmas/CollSplice.lean — the parts of `Splice::drop` (`Coll/Splice.lean`) on segmented buffers.
-/
import BumpProof.Coll.Splice
import BumpProof.Lemmas.CollPrim
import BumpProof.Lemmas.CollBasic
import BumpProof.Lemmas.CollGrow
import BumpProof.Lemmas.CollDrain

namespace Coll

/-- `Drain::fill` on `I head ++ H g ++ R`: the gap takes as many new values as it can hold -/
theorem spliceFill_seg (g : Nat) : ∀ (v : Vec) (head src : List Id) (R : List Slot),
    v.slots = I head ++ H g ++ R → v.len = head.length →
    spliceFill g v src =
      .ok ({ v with slots := I (head ++ src.take g) ++ H (g - src.length) ++ R, len := head.length + min g src.length },
           src.drop g, decide (g ≤ src.length)) := by
  induction g with
  | zero =>
    intro v head src R hs hl
    simp only [spliceFill, List.take_zero, List.append_nil, Nat.zero_sub, H_zero, Nat.zero_min, Nat.add_zero,
      List.drop_zero, Nat.zero_le, decide_true]
    congr 2
    exact Vec.eq_of (by simpa using hs) hl rfl rfl
  | succ g ih =>
    intro v head src R hs hl
    cases src with
    | nil =>
      simp only [spliceFill, List.take_nil, List.append_nil, List.length_nil, Nat.sub_zero, Nat.min_zero, Nat.add_zero,
        List.drop_nil]
      congr 2
      exact Vec.eq_of (by simpa using hs) hl rfl rfl
    | cons id src =>
      have hs1 : v.slots = I head ++ Slot.hole :: (H g ++ R) := by simp [hs]
      simp only [spliceFill]
      rw [write_mid hs1 (by simp [hl])]
      simp only [setLen]
      rw [ih _ (head ++ [id]) src R (by simp) (by simp [hl])]
      congr 2
      · apply Vec.eq_of <;> simp <;> omega
      · simp

/-- `Drain::move_tail(a)` once the gap is closed (`I head ++ I tail ++ H spare`): the tail moves `a` slots up,
    after a reallocation when the spare capacity does not suffice -/
theorem spliceMoveTail_seg (env : Env) {v : Vec} {d : DrainSt} {head tail : List Id} {spare : Nat} (a : Nat)
    (hs : v.slots = I head ++ I tail ++ H spare) (hts : d.tailStart = head.length) (htl : d.tailLen = tail.length) :
    ∃ spare', spliceMoveTail env v d a =
        .ok ({ v with slots := I head ++ H a ++ I tail ++ H spare' }, { d with tailStart := head.length + a }) ∧
      spare ≤ a + spare' := by
  have hcap : v.cap = head.length + tail.length + spare := by simp [Vec.cap, hs]; omega
  unfold spliceMoveTail
  simp only [hts, htl]
  by_cases hg : a > v.cap - (head.length + tail.length)
  · simp only [hg, ↓reduceIte]
    generalize hn : max (max (v.cap * 2) (head.length + tail.length + a)) env.minCap = newCap
    have hnc : newCap ≥ head.length + tail.length + a := by omega
    refine ⟨spare + (newCap - v.cap) - a, ?_, by omega⟩
    have hs' : (growTo v newCap).slots = I head ++ I tail ++ H a ++ H (spare + (newCap - v.cap) - a) := by
      simp only [growTo, hs, List.append_assoc]
      rw [← H_add, ← H_add]
      congr 3
      omega
    rw [copy_fwd hs' (by simp) (by simp) (by simp)]
    rfl
  · simp only [hg, ↓reduceIte]
    refine ⟨spare - a, ?_, by omega⟩
    have hs' : v.slots = I head ++ I tail ++ H a ++ H (spare - a) := by
      rw [hs, List.append_assoc (I head ++ I tail), ← H_add]; congr 2; omega
    rw [copy_fwd hs' (by simp) (by simp) (by simp)]

/-- `impl Drop for Drain` (`bump_vec/drain.rs`) on a segmented buffer, also while unwinding -/
theorem spliceDrainDrop_seg (bombs : List Id) (unw : Bool) {v : Vec} {d : DrainSt} {head u tail : List Id} {a b : Nat} {T : List Slot}
    (hs : v.slots = I head ++ H a ++ I u ++ H b ++ (I tail ++ T)) (hlen : v.len = head.length)
    (hp : d.ptr = head.length + a) (he : d.end_ = head.length + a + u.length)
    (hts : d.tailStart = head.length + a + u.length + b) (htl : d.tailLen = tail.length) :
    spliceDrainDrop bombs unw v d =
      .ok ({ v with slots := I (head ++ tail) ++ H (a + u.length + b) ++ T, len := head.length + tail.length,
                    dropLog := v.dropLog ++ u }, !unw && u.any bombs.contains) := by
  unfold spliceDrainDrop
  have hcnt : d.end_ - d.ptr = u.length := by omega
  have hs1 : v.slots = (I head ++ H a) ++ I u ++ (H b ++ (I tail ++ T)) := by simp [hs]
  rw [hcnt, dropRange_seg bombs u unw v (I head ++ H a) (H b ++ (I tail ++ T)) d.ptr hs1 (by simp [hp])]
  simp only [drainGuard]
  have hgap : (I head ++ H a) ++ H u.length ++ (H b ++ (I tail ++ T)) = I head ++ H (a + u.length + b) ++ I tail ++ T := by
    simp only [List.append_assoc]
    rw [← List.append_assoc (H a), ← H_add, ← List.append_assoc (H _), ← H_add]
  by_cases ht : d.tailLen > 0
  · simp only [ht, ↓reduceIte]
    rw [copy_back_or_skip (v := { v with slots := _, dropLog := _ }) (src := d.tailStart) (dst := v.len) (n := d.tailLen)
      hgap (by simp; omega) (by simp [hlen]) (by simp [htl])]
    simp only [setLen]
    congr 2
    apply Vec.eq_of <;> simp [htl, hlen]
  · simp only [ht, ↓reduceIte]
    have : tail = [] := List.eq_nil_of_length_eq_zero (by omega)
    subst this
    congr 2
    apply Vec.eq_of <;> simp [hlen]
    rw [← List.append_assoc (H a), ← H_add, ← List.append_assoc (H _), ← H_add]

/-- `for_each(drop)` on `A ++ I u ++ B`: the values up to and including the first one whose `Drop` panics are gone -/
theorem spliceDropRest_seg (bombs : List Id) (u : List Id) : ∀ (v : Vec) (d : DrainSt) (A B : List Slot),
    v.slots = A ++ I u ++ B → d.ptr = A.length → d.end_ = A.length + u.length →
    ∃ pre post, u = pre ++ post ∧
      spliceDropRest bombs u.length v d =
        .ok ({ v with slots := A ++ H pre.length ++ I post ++ B, dropLog := v.dropLog ++ pre },
             { d with ptr := A.length + pre.length }, u.any bombs.contains) ∧
      (u.any bombs.contains = false → post = []) := by
  induction u with
  | nil =>
    intro v d A B hs hp he
    refine ⟨[], [], rfl, ?_, fun _ => rfl⟩
    simp only [List.length_nil, spliceDropRest, List.any_nil, H_zero, List.append_nil, I_nil, Nat.add_zero]
    congr 2
    · exact Vec.eq_of (by simpa using hs) rfl (by simp) rfl
    · cases d; simp_all
  | cons x u ih =>
    intro v d A B hs hp he
    have hs1 : v.slots = A ++ Slot.init x :: (I u ++ B) := by simp [hs]
    have hne : d.ptr ≠ d.end_ := by simp at he; omega
    simp only [List.length_cons, spliceDropRest, hne, ↓reduceIte]
    rw [dropAt_mid hs1 hp]
    simp only [Bool.not_false, Bool.true_and]
    by_cases hb : bombs.contains x = true
    · refine ⟨[x], u, rfl, ?_, by intro h; simp only [List.any_cons, hb, Bool.true_or] at h; exact absurd h (by decide)⟩
      simp only [hb, ↓reduceIte, List.any_cons, Bool.true_or, List.length_cons, List.length_nil, Nat.zero_add]
      congr 2
      · apply Vec.eq_of <;> simp
      · simp [hp]
    · have hb' : bombs.contains x = false := by simpa using hb
      simp only [hb', Bool.false_eq_true, ↓reduceIte, List.any_cons, Bool.false_or]
      obtain ⟨pre, post, hu, heq, hnil⟩ := ih { v with slots := A ++ Slot.hole :: (I u ++ B), dropLog := v.dropLog ++ [x] }
        { d with ptr := d.ptr + 1 } (A ++ [Slot.hole]) B (by simp) (by simp [hp]) (by simp [he]; omega)
      refine ⟨x :: pre, post, by simp [hu], ?_, hnil⟩
      rw [heq]
      congr 2
      · apply Vec.eq_of <;> simp
      · simp; omega

/-- `v` holds exactly `xs` in the standard shape, with the given logs -/
structure Holds (v : Vec) (xs dl esc : List Id) : Prop where
  slots : v.slots = I xs ++ H (v.cap - v.len)
  len : xs.length = v.len
  dropLog : v.dropLog = dl
  escaped : v.escaped = esc

theorem roomOne_bump (env : Env) (v : Vec) (hk : env.kind = .bump) (hm : env.maxCap = none) : ∃ v', reserveOne env v = some v' := by
  unfold reserveOne growAmortized
  simp only [hk]
  split <;> simp [Env.fits, hm]

theorem reserve_bump' (env : Env) (v : Vec) (n : Nat) (hk : env.kind = .bump) (hm : env.maxCap = none) : ∃ v', reserve env v n = some v' := by
  unfold reserve growAmortized
  split <;> simp [hk, Env.fits, hm]

/-- `vec.extend(replace_with)` on a `BumpVec`: every value is pushed -/
theorem spliceExtendLoop_bump (env : Env) (hk : env.kind = .bump) (hm : env.maxCap = none) (src : List Id) :
    ∀ (v : Vec) (xs dl esc : List Id), Holds v xs dl esc →
      ∃ v', spliceExtendLoop env v src = .ok (v', [], false) ∧ Holds v' (xs ++ src) dl esc ∧ v.cap ≤ v'.cap := by
  induction src with
  | nil => intro v xs dl esc h; exact ⟨v, rfl, by simpa using h, Nat.le_refl _⟩
  | cons id src ih =>
    intro v xs dl esc h
    obtain ⟨v1, hr⟩ := roomOne_bump env v hk hm
    have ⟨g, hc⟩ := reserveOne_some h.slots h.len hr
    have hpush := push_eq env v xs id h.slots h.len
    have hroom : roomOne env v = true := by simp [roomOne, hr]
    have hgrown : grownOne env v = v1 := by simp [grownOne, hr]
    rw [hroom, hgrown] at hpush
    simp only [pushSpec, ↓reduceIte] at hpush
    simp only [spliceExtendLoop, hpush]
    have hlen : (xs ++ [id]).length ≤ v1.cap := by simp; have := h.len; omega
    have hcap := after_cap v1 ({ final := xs ++ [id], exit := .ret (), rest := [] } : SpecOut Unit) hlen
    obtain ⟨v', h1, h2, h3⟩ := ih (v1.after ({ final := xs ++ [id], exit := .ret (), rest := [] } : SpecOut Unit)) (xs ++ [id]) dl esc
      ⟨by rw [hcap]; simp [Vec.after], by simp [Vec.after], by simp [Vec.after, g.dropLog, h.dropLog],
       by simp [Vec.after, g.escaped, h.escaped]⟩
    refine ⟨v', h1, by simpa using h2, ?_⟩
    have := g.cap; omega

/-- the state of `Splice::drop` with the gap closed: `head` then the tail, `spare` unused slots -/
structure Closed (v : Vec) (d : DrainSt) (h tail dl esc : List Id) : Prop where
  slots : ∃ spare, v.slots = I h ++ I tail ++ H spare
  len : v.len = h.length
  tailStart : d.tailStart = h.length
  tailLen : d.tailLen = tail.length
  dropLog : v.dropLog = dl
  escaped : v.escaped = esc

/-- `move_tail(a); fill(..)` with at least `a` values left: the gap is closed again, `a` more values are in -/
theorem spliceMoveFill (env : Env) {v : Vec} {d : DrainSt} {h tail dl esc : List Id} (s : List Id) (a : Nat)
    (hc : Closed v d h tail dl esc) (ha : a ≤ s.length) :
    ∃ v1 d1 v', spliceMoveTail env v d a = .ok (v1, d1) ∧
      spliceFill (d1.tailStart - v1.len) v1 s = .ok (v', s.drop a, true) ∧
      Closed v' d1 (h ++ s.take a) tail dl esc ∧ v.cap ≤ v'.cap ∧ d1.ptr = d.ptr ∧ d1.end_ = d.end_ := by
  obtain ⟨spare, hs⟩ := hc.slots
  obtain ⟨spare', hmt, hsp⟩ := spliceMoveTail_seg env a hs hc.tailStart hc.tailLen
  refine ⟨_, _, { v with slots := I (h ++ s.take a) ++ I tail ++ H spare', len := h.length + a }, hmt, ?_, ?_⟩
  · simp only [hc.len, Nat.add_sub_cancel_left]
    rw [spliceFill_seg a { v with slots := I h ++ H a ++ I tail ++ H spare', len := h.length } h s (I tail ++ H spare') (by simp) rfl]
    have h0 : a - s.length = 0 := by omega
    congr 2
    · apply Vec.eq_of <;> simp [h0]
      omega
    · simp; omega
  · refine ⟨⟨⟨spare', rfl⟩, ?_, ?_, hc.tailLen, hc.dropLog, hc.escaped⟩, ?_, rfl, rfl⟩
    · simp; omega
    · simp; omega
    · simp [Vec.cap, hs]; omega

/-- the guard of `Drain::drop` when the iterator is empty -/
theorem spliceDrainDrop_empty (bombs : List Id) (unw : Bool) {v : Vec} {d : DrainSt} {head tail : List Id} {k : Nat} {T : List Slot}
    (hs : v.slots = I head ++ H k ++ I tail ++ T) (hlen : v.len = head.length) (hpe : d.ptr = d.end_)
    (hts : d.tailLen > 0 → d.tailStart = head.length + k) (htl : d.tailLen = tail.length) :
    spliceDrainDrop bombs unw v d =
      .ok ({ v with slots := I (head ++ tail) ++ H k ++ T, len := head.length + tail.length }, false) := by
  unfold spliceDrainDrop
  have hcnt : d.end_ - d.ptr = 0 := by omega
  simp only [hcnt, dropRange, drainGuard]
  by_cases ht : d.tailLen > 0
  · simp only [ht, ↓reduceIte]
    rw [copy_back_or_skip (src := d.tailStart) (dst := v.len) (n := d.tailLen) hs (by rw [hts ht]; simp) (by simp [hlen]) (by simp [htl])]
    simp only [setLen]
    congr 2
    apply Vec.eq_of <;> simp [htl, hlen]
  · simp only [ht, ↓reduceIte]
    have : tail = [] := List.eq_nil_of_length_eq_zero (by omega)
    subst this
    congr 2
    apply Vec.eq_of <;> simp [hlen, hs]

/-- `move_tail(a); fill(..)` with FEWER than `a` values left (an over-reporting source): everything is written,
    a gap of `a - s.length` holes stays in front of the moved tail -/
theorem spliceMoveFillShort (env : Env) {v : Vec} {d : DrainSt} {h tail dl esc : List Id} (s : List Id) (a : Nat)
    (hc : Closed v d h tail dl esc) (ha : a > s.length) :
    ∃ v1 d1 v' sp, spliceMoveTail env v d a = .ok (v1, d1) ∧
      spliceFill (d1.tailStart - v1.len) v1 s = .ok (v', [], false) ∧
      v'.slots = I (h ++ s) ++ H (a - s.length) ++ I tail ++ H sp ∧ v'.len = (h ++ s).length ∧
      d1.tailStart = (h ++ s).length + (a - s.length) ∧ d1.tailLen = tail.length ∧
      v'.dropLog = dl ∧ v'.escaped = esc ∧ v.cap ≤ v'.cap ∧ d1.ptr = d.ptr ∧ d1.end_ = d.end_ := by
  obtain ⟨spare, hs⟩ := hc.slots
  obtain ⟨spare', hmt, hsp⟩ := spliceMoveTail_seg env a hs hc.tailStart hc.tailLen
  refine ⟨_, _, { v with slots := I (h ++ s) ++ H (a - s.length) ++ I tail ++ H spare', len := h.length + s.length }, spare', hmt, ?_, rfl, ?_, ?_, hc.tailLen, hc.dropLog, hc.escaped, ?_, rfl, rfl⟩
  · simp only [hc.len, Nat.add_sub_cancel_left]
    rw [spliceFill_seg a { v with slots := I h ++ H a ++ I tail ++ H spare', len := h.length } h s (I tail ++ H spare') (by simp) rfl]
    have h1 : s.take a = s := List.take_of_length_le (by omega)
    have h2 : s.drop a = [] := List.drop_eq_nil_of_le (by omega)
    have h3 : ¬ a ≤ s.length := by omega
    congr 2
    · apply Vec.eq_of <;> simp [h1]
      omega
    · simp [h2, h3]
  · simp
  · simp; omega
  · simp [Vec.cap, hs]; omega

/-- the optional `move_tail(lower_bound); fill` step: a "capacity overflow" changes nothing; otherwise the gap
    is closed again, or (over-reporting source) everything is written and a gap remains -/
theorem spliceSecond_cases (env : Env) (maxCap : Nat) {v : Vec} {d : DrainSt} {h tail dl esc : List Id} (s : List Id) (lower : Nat)
    (hc : Closed v d h tail dl esc) :
    (lower > 0 ∧ capOverflow env maxCap v (d.tailStart + d.tailLen) lower = true ∧
        spliceSecond env maxCap v d s lower = .ok (v, d, s, .unwind)) ∨
    (¬ (lower > 0 ∧ capOverflow env maxCap v (d.tailStart + d.tailLen) lower = true) ∧ lower ≤ s.length ∧
        ∃ v' d', spliceSecond env maxCap v d s lower = .ok (v', d', s.drop lower, .goOn) ∧
          Closed v' d' (h ++ s.take lower) tail dl esc ∧ v.cap ≤ v'.cap ∧ d'.ptr = d.ptr ∧ d'.end_ = d.end_) ∨
    (¬ (lower > 0 ∧ capOverflow env maxCap v (d.tailStart + d.tailLen) lower = true) ∧ lower > s.length ∧
        ∃ v' d' sp, spliceSecond env maxCap v d s lower = .ok (v', d', [], .done) ∧
          v'.slots = I (h ++ s) ++ H (lower - s.length) ++ I tail ++ H sp ∧ v'.len = (h ++ s).length ∧
          d'.tailStart = (h ++ s).length + (lower - s.length) ∧ d'.tailLen = tail.length ∧
          v'.dropLog = dl ∧ v'.escaped = esc ∧ v.cap ≤ v'.cap ∧ d'.ptr = d.ptr ∧ d'.end_ = d.end_) := by
  unfold spliceSecond
  by_cases h0 : lower > 0
  · by_cases hov : capOverflow env maxCap v (d.tailStart + d.tailLen) lower = true
    · left; exact ⟨h0, hov, by simp [h0, hov]⟩
    · have hn : ¬ (lower > 0 ∧ capOverflow env maxCap v (d.tailStart + d.tailLen) lower = true) := fun h => hov h.2
      by_cases hl : lower ≤ s.length
      · right; left
        obtain ⟨v1, d1, v', h1, h2, h3, h4, h5, h6⟩ := spliceMoveFill env s lower hc hl
        exact ⟨hn, hl, v', d1, by simp only [h0, ↓reduceIte, hov, Bool.false_eq_true, h1, h2], h3, h4, h5, h6⟩
      · right; right
        obtain ⟨v1, d1, v', sp, h1, h2, h3, h4, h5, h6, h7, h8, h9, h10, h11⟩ := spliceMoveFillShort env s lower hc (by omega)
        exact ⟨hn, by omega, v', d1, sp, by simp only [h0, ↓reduceIte, hov, Bool.false_eq_true, h1, h2], h3, h4, h5, h6, h7, h8, h9, h10, h11⟩
  · have h00 : lower = 0 := by omega
    subst h00
    right; left
    exact ⟨fun h => h0 h.1, Nat.zero_le _, v, d, by simp, by simpa using hc, Nat.le_refl _, rfl, rfl⟩

theorem dropArgs_cap (w : Vec) (l : List Id) : (dropArgs w l).cap = w.cap := rfl

theorem dropArgs_nil (v : Vec) : dropArgs v [] = v := by cases v; simp [dropArgs]

theorem holds_of_slots {v : Vec} {xs : List Id} {k : Nat} (hs : v.slots = I xs ++ H k) (hl : v.len = xs.length) :
    Holds v xs v.dropLog v.escaped := by
  refine ⟨?_, hl.symm, rfl, rfl⟩
  have : v.cap - v.len = k := by simp [Vec.cap, hs, hl]
  rw [this, hs]

/-- `Extend::extend` on a `BumpVec`: either the up-front reservation for the CLAIMED length overflows (nothing
    changes, the source is dropped), or every value is pushed -/
theorem extendIter_bump (env : Env) (hk : env.kind = .bump) (hm : env.maxCap = none) (v : Vec) (xs src : List Id) (hint : Nat) (lie : Option Nat)
    (maxCap : Nat) (hs : v.slots = I xs ++ H (v.cap - v.len)) (hl : xs.length = v.len) :
    if capOverflow env maxCap v v.len (spliceLower hint lie src.length) then
      extendIter env v src hint lie maxCap = .ok ⟨dropArgs v src, .panic false, []⟩
    else
      ∃ v', extendIter env v src hint lie maxCap = .ok ⟨v', .ret (), []⟩ ∧
        Holds v' (xs ++ src) v.dropLog v.escaped ∧ v.cap ≤ v'.cap := by
  unfold extendIter
  by_cases hov : capOverflow env maxCap v v.len (spliceLower hint lie src.length) = true
  · simp [hov]
  · simp only [hov, Bool.false_eq_true, ↓reduceIte]
    obtain ⟨v1, hr⟩ := reserve_bump' env v (spliceLower hint lie src.length) hk hm
    have ⟨gr, _⟩ := reserve_some hs hl hr
    obtain ⟨v2, h1, h2, h3⟩ := spliceExtendLoop_bump env hk hm src v1 xs v.dropLog v.escaped
      ⟨gr.slots, by rw [gr.len]; exact hl, gr.dropLog, gr.escaped⟩
    simp only [hr, h1, dropArgs_nil, Bool.false_eq_true, ↓reduceIte]
    exact ⟨v2, rfl, h2, by have := gr.cap; omega⟩

/-- `spliceFill_seg` without the record -/
theorem spliceFill_ex (g : Nat) (v : Vec) (head src : List Id) (R : List Slot)
    (hs : v.slots = I head ++ H g ++ R) (hl : v.len = head.length) :
    ∃ v', spliceFill g v src = .ok (v', src.drop g, decide (g ≤ src.length)) ∧
      v'.slots = I (head ++ src.take g) ++ H (g - src.length) ++ R ∧ v'.len = head.length + min g src.length ∧
      v'.dropLog = v.dropLog ∧ v'.escaped = v.escaped ∧ v'.cap = v.cap :=
  ⟨_, spliceFill_seg g v head src R hs hl, rfl, rfl, rfl, rfl, by simp [Vec.cap, hs]; omega⟩

/-- `spliceDrainDrop_empty` without the record -/
theorem spliceDrainDrop_ex (bombs : List Id) (unw : Bool) {v : Vec} {d : DrainSt} {head tail : List Id} {k : Nat} {T : List Slot}
    (hs : v.slots = I head ++ H k ++ I tail ++ T) (hlen : v.len = head.length) (hpe : d.ptr = d.end_)
    (hts : d.tailLen > 0 → d.tailStart = head.length + k) (htl : d.tailLen = tail.length) :
    ∃ v', spliceDrainDrop bombs unw v d = .ok (v', false) ∧ v'.slots = I (head ++ tail) ++ H k ++ T ∧
      v'.len = (head ++ tail).length ∧ v'.dropLog = v.dropLog ∧ v'.escaped = v.escaped ∧ v'.cap = v.cap :=
  ⟨_, spliceDrainDrop_empty bombs unw hs hlen hpe hts htl, rfl, by simp, rfl, rfl, by simp [Vec.cap, hs]; omega⟩

/-- what the list level is told about the vector and the source -/
def capsOf (env : Env) (v : Vec) (hintCap : Nat) (lie : Option Nat) (maxCap : Nat) : SpliceCaps :=
  { cap := v.cap, minCap := env.minCap, maxCap := maxCap, hintCap := hintCap, lie := lie }

theorem overflows_eq (env : Env) (v w : Vec) (hintCap : Nat) (lie : Option Nat) (maxCap len add : Nat) (hc : w.cap = v.cap) :
    capOverflow env maxCap w len add = (capsOf env v hintCap lie maxCap).overflows len add := by
  simp [capOverflow, SpliceCaps.overflows, capsOf, hc]

theorem take_append_drop_len (k : Nat) (l : List Id) : l.take k ++ l.drop (l.take k).length = l := by
  by_cases h : k ≤ l.length
  · rw [List.length_take, Nat.min_eq_left h, List.take_append_drop]
  · rw [List.take_of_length_le (by omega)]; simp

/-- **the splicing part**: with the drained range empty (`g` holes between `head` and the tail), a `BumpVec`
    ends up holding `head ++ written ++ tail` where `written` is all of `src` — or, when a reservation for the
    number of items the source CLAIMS overflows, the prefix written before that panic; the rest of `src` is
    dropped with `replace_with`.  For every size hint, honest or lying. -/
theorem spliceFinish_bump (env : Env) (hk : env.kind = .bump) (hm : env.maxCap = none) {v : Vec} {d : DrainSt} {head tail dl esc : List Id} {g spare : Nat}
    (src : List Id) (hint : Nat) (lie : Option Nat) (maxCap : Nat)
    (hs : v.slots = I head ++ H g ++ I tail ++ H spare) (hlen : v.len = head.length) (hpe : d.ptr = d.end_)
    (hts : d.tailStart = head.length + g) (htl : d.tailLen = tail.length) (hdl : v.dropLog = dl) (hesc : v.escaped = esc) :
    ∃ v', spliceFinish env v d src hint lie maxCap =
        .ok (v', (spliceWritten (capsOf env v hint lie maxCap) head.length (head.length + g) (head.length + g + tail.length) src).2, false) ∧
      Holds v' (head ++ (spliceWritten (capsOf env v hint lie maxCap) head.length (head.length + g) (head.length + g + tail.length) src).1 ++ tail)
        (dl ++ src.drop (spliceWritten (capsOf env v hint lie maxCap) head.length (head.length + g) (head.length + g + tail.length) src).1.length) esc ∧
      v.cap ≤ v'.cap := by
  have hcap : v.cap = head.length + g + tail.length + spare := by simp [Vec.cap, hs]; omega
  have hcH : (capsOf env v hint lie maxCap).hintCap = hint := rfl
  have hcL : (capsOf env v hint lie maxCap).lie = lie := rfl
  have hcM : (capsOf env v hint lie maxCap).maxCap = maxCap := rfl
  unfold spliceFinish spliceBody spliceWritten
  simp only [hcH, hcL, hcM]
  by_cases ht : d.tailLen = 0
  · -- nothing behind the range: `extend`
    have htail : tail = [] := List.eq_nil_of_length_eq_zero (by omega)
    subst htail
    simp only [ht, ↓reduceIte, List.length_nil, Nat.add_zero]
    rw [hlen, overflows_eq env v v hint lie maxCap _ _ rfl]
    by_cases hov : (capsOf env v hint lie maxCap).overflows head.length (spliceLower hint lie src.length) = true
    · -- "capacity overflow" in `reserve(size_hint().0)`: nothing written, `replace_with` dropped
      simp only [hov, ↓reduceIte]
      have hs2 : v.slots = I head ++ H g ++ I [] ++ H spare := by simpa using hs
      obtain ⟨v3, e3, s3, l3, dl3, es3, c3⟩ := spliceDrainDrop_ex env.bombs true hs2 hlen hpe (by omega) (by simpa using ht)
      rw [e3]
      refine ⟨dropArgs v3 src, by simp, ?_, by rw [dropArgs_cap]; omega⟩
      have := holds_of_slots (v := v3) (xs := head) (k := g + spare) (by rw [s3]; simp [H_add]) (by simpa using l3)
      refine ⟨by simpa [dropArgs, Vec.cap] using this.slots, by simpa [dropArgs] using this.len, ?_, ?_⟩
      · simp only [dropArgs, List.length_nil, List.drop_zero]; rw [dl3, hdl]
      · simp only [dropArgs]; rw [es3, hesc]
    · have hov' : (capsOf env v hint lie maxCap).overflows head.length (spliceLower hint lie src.length) = false := by simpa using hov
      simp only [hov', Bool.false_eq_true, ↓reduceIte]
      have hshape : v.slots = I head ++ H (v.cap - v.len) := by
        rw [hs, hcap, hlen]; simp only [I_nil, List.append_nil, List.append_assoc]; rw [← H_add]; congr 2; simp; omega
      obtain ⟨v1, hr⟩ := reserve_bump' env v (spliceLower hint lie src.length) hk hm
      have ⟨gr, _⟩ := reserve_some hshape hlen.symm hr
      obtain ⟨v2, h1, h2, h3⟩ := spliceExtendLoop_bump env hk hm src v1 head dl esc
        ⟨gr.slots, by rw [gr.len]; exact hlen.symm, by rw [gr.dropLog, hdl], by rw [gr.escaped, hesc]⟩
      simp only [hr, h1]
      have hs2 : v2.slots = I (head ++ src) ++ H (v2.cap - v2.len) ++ I [] ++ [] := by simpa using h2.slots
      obtain ⟨v3, e3, s3, l3, dl3, es3, c3⟩ := spliceDrainDrop_ex env.bombs false hs2 h2.len.symm hpe (by omega) (by simpa using ht)
      rw [e3]
      simp only [dropArgs_nil, Bool.or_false, List.drop_length, List.append_nil]
      refine ⟨v3, rfl, ?_, ?_⟩
      · have := holds_of_slots (v := v3) (xs := head ++ src) (k := v2.cap - v2.len) (by simpa using s3) (by simpa using l3)
        rw [dl3, es3, h2.dropLog, h2.escaped] at this
        simpa using this
      · have := gr.cap; omega
  · have htne : ¬ (head.length + g = head.length + g + tail.length) := by omega
    simp only [ht, htne, ↓reduceIte]
    have hs1 : v.slots = I head ++ H g ++ (I tail ++ H spare) := by simp [hs]
    obtain ⟨v1, e1, s1, l1, dl1, es1, c1⟩ := spliceFill_ex g v head src _ hs1 hlen
    rw [hts, hlen, Nat.add_sub_cancel_left, e1]
    have hgg : head.length + g - head.length = g := by omega
    try simp only [hgg]
    by_cases hn : g ≤ src.length
    · -- the range is filled; the rest goes in behind it
      have hn' : ¬ src.length < g := by omega
      simp only [hn, decide_true, hn', ↓reduceIte]
      have hc1 : Closed v1 d (head ++ src.take g) tail dl esc := by
        refine ⟨⟨spare, ?_⟩, ?_, ?_, htl, by rw [dl1, hdl], by rw [es1, hesc]⟩
        · have : g - src.length = 0 := by omega
          rw [s1, this]; simp
        · rw [l1]; simp <;> omega
        · rw [hts]; simp <;> omega
      have hlenx : d.tailStart + d.tailLen = head.length + g + tail.length := by omega
      generalize hrest : src.drop g = rest at *
      generalize hlow : spliceLower hint lie rest.length = lower at *
      have hh1 : (head ++ src.take g).length = head.length + g := by simp; omega
      rcases spliceSecond_cases env maxCap rest lower hc1 with ⟨h0, hov, e2⟩ | ⟨hno, hl, v2, d2, e2, c2, cap2, p2, q2⟩ | ⟨hno, hl, v2, d2, sp, e2, s2, l2, ts2, tl2, dl2, es2, cap2, p2, q2⟩
      · -- "capacity overflow" in `move_tail(lower_bound)`: the filled range stays, the tail was not touched
        rw [hlenx, overflows_eq env v v1 hint lie maxCap _ _ c1] at hov
        simp only [e2, h0, hov, and_self, ↓reduceIte]
        obtain ⟨sp, hsc⟩ := hc1.slots
        have hsc' : v1.slots = I (head ++ src.take g) ++ H 0 ++ I tail ++ H sp := by simpa using hsc
        obtain ⟨v5, e5, s5, l5, dl5, es5, c5⟩ := spliceDrainDrop_ex env.bombs true hsc' hc1.len (by omega)
          (by intro _; simpa using hc1.tailStart) hc1.tailLen
        rw [e5]
        refine ⟨dropArgs v5 rest, by simp, ?_, by rw [dropArgs_cap]; omega⟩
        have := holds_of_slots (v := v5) (xs := head ++ src.take g ++ tail) (k := sp) (by simpa using s5) (by simpa using l5)
        refine ⟨by simpa [dropArgs, Vec.cap] using this.slots, by simpa [dropArgs] using this.len, ?_, ?_⟩
        · simp only [dropArgs]; rw [dl5, hc1.dropLog, List.length_take, Nat.min_eq_left hn, hrest]
        · simp only [dropArgs]; rw [es5, hc1.escaped]
      · -- the gap is closed again; `collected`
        rw [hlenx, overflows_eq env v v1 hint lie maxCap _ _ c1] at hno
        have hno' : ¬ (lower > 0 ∧ (capsOf env v hint lie maxCap).overflows (head.length + g + tail.length) lower = true) := hno
        have hl' : ¬ lower > rest.length := by omega
        simp only [e2, hno', hl', ↓reduceIte]
        generalize hsrc2 : rest.drop lower = src2 at *
        generalize hh2 : head ++ src.take g ++ rest.take lower = h2 at *
        have hall : h2 ++ src2 = head ++ src := by
          rw [← hsrc2, ← hh2, ← hrest, List.append_assoc, List.append_assoc, List.take_append_drop, List.take_append_drop]
        have htk : h2 = head ++ src.take (g + lower) := by
          rw [← hh2, ← hrest, List.take_add, List.append_assoc]
        by_cases hov3 : spliceLower hint lie src2.length > maxCap
        · -- "capacity overflow" in `from_iter_in` → `with_capacity(size_hint().0)`
          simp only [hov3, ↓reduceIte]
          obtain ⟨sp, hsc⟩ := c2.slots
          have hsc' : v2.slots = I h2 ++ H 0 ++ I tail ++ H sp := by simpa using hsc
          obtain ⟨v5, e5, s5, l5, dl5, es5, c5⟩ := spliceDrainDrop_ex env.bombs true hsc' c2.len (by omega)
            (by intro _; simpa using c2.tailStart) c2.tailLen
          rw [e5]
          refine ⟨dropArgs v5 src2, by simp, ?_, by rw [dropArgs_cap]; omega⟩
          have := holds_of_slots (v := v5) (xs := h2 ++ tail) (k := sp) (by simpa using s5) (by simpa using l5)
          rw [htk] at this
          refine ⟨by simpa [dropArgs, Vec.cap] using this.slots, by simpa [dropArgs] using this.len, ?_, ?_⟩
          · simp only [dropArgs]; rw [dl5, c2.dropLog]
            have hle : g + lower ≤ src.length := by
              have := congrArg List.length hrest; simp at this; omega
            rw [List.length_take, Nat.min_eq_left hle, ← hsrc2, ← hrest, List.drop_drop]
          · simp only [dropArgs]; rw [es5, c2.escaped]
        · simp only [hov3, ↓reduceIte, List.drop_length, List.append_nil]
          by_cases h3 : src2.length > 0
          · obtain ⟨v3, d3, v4, e3, e4, c4, cap4, p4, q4⟩ := spliceMoveFill env src2 src2.length c2 (Nat.le_refl _)
            simp only [h3, ↓reduceIte, e3, e4]
            rw [List.take_length, hall] at c4
            obtain ⟨sp, hs4⟩ := c4.slots
            have hs4' : v4.slots = I (head ++ src) ++ H 0 ++ I tail ++ H sp := by simpa using hs4
            obtain ⟨v5, e5, s5, l5, dl5, es5, c5⟩ := spliceDrainDrop_ex env.bombs false hs4' c4.len (by omega)
              (by intro _; simpa using c4.tailStart) c4.tailLen
            rw [e5]
            simp only [List.drop_length, dropArgs_nil, Bool.or_false]
            refine ⟨v5, rfl, ?_, by omega⟩
            have := holds_of_slots (v := v5) (xs := head ++ src ++ tail) (k := sp) (by simpa using s5) (by simpa using l5)
            rw [dl5, es5, c4.dropLog, c4.escaped] at this
            exact this
          · have hnil : src2 = [] := List.eq_nil_of_length_eq_zero (by omega)
            simp only [h3, ↓reduceIte]
            rw [hnil, List.append_nil] at hall
            rw [hall] at c2
            obtain ⟨sp, hs2⟩ := c2.slots
            have hs2' : v2.slots = I (head ++ src) ++ H 0 ++ I tail ++ H sp := by simpa using hs2
            obtain ⟨v5, e5, s5, l5, dl5, es5, c5⟩ := spliceDrainDrop_ex env.bombs false hs2' c2.len (by omega)
              (by intro _; simpa using c2.tailStart) c2.tailLen
            rw [e5, hnil]
            simp only [dropArgs_nil, Bool.or_false]
            refine ⟨v5, rfl, ?_, by omega⟩
            have := holds_of_slots (v := v5) (xs := head ++ src ++ tail) (k := sp) (by simpa using s5) (by simpa using l5)
            rw [dl5, es5, c2.dropLog, c2.escaped] at this
            exact this
      · -- the source over-reported: everything is written, the guard moves the tail back over the gap
        rw [hlenx, overflows_eq env v v1 hint lie maxCap _ _ c1] at hno
        have hno' : ¬ (lower > 0 ∧ (capsOf env v hint lie maxCap).overflows (head.length + g + tail.length) lower = true) := hno
        simp only [e2, hno', hl, ↓reduceIte, List.drop_length, List.append_nil]
        have hall : head ++ src.take g ++ rest = head ++ src := by
          rw [← hrest, List.append_assoc, List.take_append_drop]
        rw [hall] at s2 l2 ts2
        obtain ⟨v5, e5, s5, l5, dl5, es5, c5⟩ := spliceDrainDrop_ex env.bombs false s2 l2 (by omega)
          (by intro _; exact ts2) tl2
        rw [e5]
        simp only [dropArgs_nil, Bool.or_false]
        refine ⟨v5, rfl, ?_, by omega⟩
        have := holds_of_slots (v := v5) (xs := head ++ src ++ tail) (k := lower - rest.length + sp)
          (by rw [s5]; simp [H_add]) (by simpa using l5)
        rw [dl5, es5, dl2, es2] at this
        exact this
    · -- `replace_with` ran dry inside the range: the guard of `Drain::drop` moves the tail back
      have hn' : src.length < g := by omega
      have htk : src.take g = src := List.take_of_length_le (by omega)
      have hdr : src.drop g = [] := List.drop_eq_nil_of_le (by omega)
      simp only [hn, decide_false, hdr, hn', ↓reduceIte, List.drop_length, List.append_nil]
      rw [htk] at s1
      have hs3 : v1.slots = I (head ++ src) ++ H (g - src.length) ++ I tail ++ H spare := by rw [s1]; simp
      obtain ⟨v5, e5, s5, l5, dl5, es5, c5⟩ := spliceDrainDrop_ex env.bombs false hs3 (by rw [l1]; simp <;> omega) hpe
        (by intro _; rw [hts]; simp <;> omega) htl
      rw [e5]
      simp only [dropArgs_nil, Bool.or_false]
      refine ⟨v5, rfl, ?_, by omega⟩
      have := holds_of_slots (v := v5) (xs := head ++ src ++ tail) (k := g - src.length + spare)
        (by rw [s5]; simp [H_add]) (by simpa using l5)
      rw [dl5, es5, dl1, es1, hdl, hesc] at this
      exact this

/-- `drainPulls_eq` without the record -/
theorem drainPulls_ex (script : List Pull) (v : Vec) (d : DrainSt) (A B : List Slot) (a b : Nat) (u : List Id)
    (hs : v.slots = A ++ H a ++ I u ++ H b ++ B) (hp : d.ptr = A.length + a) (he : d.end_ = A.length + a + u.length) :
    ∃ a' b' vp dp, drainPulls v d script [] = .ok (vp, dp, (pullsSpec u script).1) ∧
      vp.slots = A ++ H a' ++ I (pullsSpec u script).2 ++ H b' ++ B ∧ vp.len = v.len ∧ vp.dropLog = v.dropLog ∧
      vp.escaped = v.escaped ++ yielded (pullsSpec u script).1 ∧
      dp.ptr = A.length + a' ∧ dp.end_ = A.length + a' + (pullsSpec u script).2.length ∧
      dp.tailStart = d.tailStart ∧ dp.tailLen = d.tailLen ∧
      a' + (pullsSpec u script).2.length + b' = a + u.length + b := by
  obtain ⟨a', b', h1, h2⟩ := drainPulls_eq script v d A B a b u [] hs hp he
  rw [List.nil_append] at h1
  exact ⟨a', b', _, _, h1, rfl, rfl, rfl, rfl, rfl, rfl, rfl, rfl, h2⟩

/-- `spliceDropRest_seg` without the record -/
theorem spliceDropRest_ex (bombs : List Id) (u : List Id) (v : Vec) (d : DrainSt) (A B : List Slot)
    (hs : v.slots = A ++ I u ++ B) (hp : d.ptr = A.length) (he : d.end_ = A.length + u.length) :
    ∃ pre post vr dr, u = pre ++ post ∧
      spliceDropRest bombs u.length v d = .ok (vr, dr, u.any bombs.contains) ∧
      vr.slots = A ++ H pre.length ++ I post ++ B ∧ vr.len = v.len ∧ vr.dropLog = v.dropLog ++ pre ∧ vr.escaped = v.escaped ∧
      dr.ptr = A.length + pre.length ∧ dr.end_ = d.end_ ∧ dr.tailStart = d.tailStart ∧ dr.tailLen = d.tailLen ∧
      (u.any bombs.contains = false → post = []) := by
  obtain ⟨pre, post, h1, h2, h3⟩ := spliceDropRest_seg bombs u v d A B hs hp he
  exact ⟨pre, post, _, _, h1, h2, rfl, rfl, rfl, rfl, rfl, rfl, rfl, rfl, h3⟩

/-- `spliceDrainDrop_seg` without the record -/
theorem spliceDrainDrop_seg_ex (bombs : List Id) (unw : Bool) {v : Vec} {d : DrainSt} {head u tail : List Id} {a b : Nat} {T : List Slot}
    (hs : v.slots = I head ++ H a ++ I u ++ H b ++ (I tail ++ T)) (hlen : v.len = head.length)
    (hp : d.ptr = head.length + a) (he : d.end_ = head.length + a + u.length)
    (hts : d.tailStart = head.length + a + u.length + b) (htl : d.tailLen = tail.length) :
    ∃ v', spliceDrainDrop bombs unw v d = .ok (v', !unw && u.any bombs.contains) ∧
      v'.slots = I (head ++ tail) ++ H (a + u.length + b) ++ T ∧ v'.len = (head ++ tail).length ∧
      v'.dropLog = v.dropLog ++ u ∧ v'.escaped = v.escaped ∧ v'.cap = v.cap :=
  ⟨_, spliceDrainDrop_seg bombs unw hs hlen hp he hts htl, rfl, by simp, rfl, rfl, by simp [Vec.cap, hs]; omega⟩

/-- **refinement** of `BumpVec::splice`: from the standard shape, for every range, source, size hint (honest,
    under- or OVER-reporting, up to "capacity overflow") and pull script, with any set of panicking
    destructors: no fault, and the vector afterwards holds exactly what the list-level `spliceSpec` says,
    with its drops and hand-outs -/
theorem splice_holds (env : Env) (hk : env.kind = .bump) (hm : env.maxCap = none) (v : Vec) (xs : List Id) (start end_ : Nat) (src : List Id)
    (hint : Nat) (lie : Option Nat) (maxCap : Nat) (script : List Pull)
    (hs : v.slots = I xs ++ H (v.cap - v.len)) (hl : xs.length = v.len) :
    ∃ v', splice env v start end_ src hint lie maxCap script =
        .ok ⟨v', (spliceSpec env.bombs (capsOf env v hint lie maxCap) xs start end_ src script).exit, []⟩ ∧
      Holds v' (spliceSpec env.bombs (capsOf env v hint lie maxCap) xs start end_ src script).final
        (v.dropLog ++ (spliceSpec env.bombs (capsOf env v hint lie maxCap) xs start end_ src script).dropped)
        (v.escaped ++ (spliceSpec env.bombs (capsOf env v hint lie maxCap) xs start end_ src script).escaped) ∧ v.cap ≤ v'.cap := by
  have hcap := seg_len_le_cap hs hl
  unfold splice spliceSpec
  by_cases hr : start > end_ ∨ end_ > v.len
  · have hr' : start > end_ ∨ end_ > xs.length := by omega
    simp only [hr, hr', ↓reduceIte]
    exact ⟨_, rfl, ⟨by simpa [dropArgs, Vec.cap] using hs, by simpa [dropArgs] using hl, by simp [dropArgs], by simp [dropArgs]⟩,
      by simp [dropArgs, Vec.cap]⟩
  · have hr' : ¬ (start > end_ ∨ end_ > xs.length) := by omega
    simp only [hr, hr', ↓reduceIte]
    have hse : start ≤ end_ := by omega
    have hel : end_ ≤ xs.length := by omega
    obtain ⟨head, hhead⟩ : ∃ l, l = xs.take start := ⟨_, rfl⟩
    obtain ⟨range, hrange⟩ : ∃ l, l = (xs.take end_).drop start := ⟨_, rfl⟩
    obtain ⟨tail, htail⟩ : ∃ l, l = xs.drop end_ := ⟨_, rfl⟩
    have hxs : xs = head ++ (range ++ tail) := by
      have h1 : xs.take start = (xs.take end_).take start := by rw [List.take_take]; congr 1; omega
      rw [hhead, hrange, htail, h1, ← List.append_assoc, List.take_append_drop, List.take_append_drop]
    have hhl : head.length = start := by rw [hhead]; simp; omega
    have hrl : range.length = end_ - start := by rw [hrange]; simp; omega
    have htl : tail.length = v.len - end_ := by rw [htail]; simp; omega
    rw [← hhead, ← hrange, ← htail]
    have hs0 : (setLen v start).slots = I head ++ H 0 ++ I range ++ H 0 ++ (I tail ++ H (v.cap - v.len)) := by
      simp only [setLen]; rw [hs]; conv => lhs; rw [hxs]
      simp
    obtain ⟨a', b', vp, dp, e1, sp, lp, dlp, escp, pp, ep, tsp, tlp, hab⟩ := drainPulls_ex script (setLen v start)
      { tailStart := end_, tailLen := v.len - end_, ptr := start, end_ := end_ } (I head) _ 0 0 range hs0
      (by simp; omega) (by simp; omega)
    rw [e1]
    obtain ⟨u, hu⟩ : ∃ l, l = (pullsSpec range script).2 := ⟨_, rfl⟩
    obtain ⟨rs, hrs⟩ : ∃ l, l = (pullsSpec range script).1 := ⟨_, rfl⟩
    rw [← hu] at hab sp ep
    rw [← hrs] at escp
    rw [← hu, ← hrs]
    simp only [setLen, length_I] at lp dlp escp pp ep tsp tlp
    simp only
    unfold spliceDrop
    have hcnt : dp.end_ - dp.ptr = u.length := by omega
    have sp1 : vp.slots = (I head ++ H a') ++ I u ++ (H b' ++ (I tail ++ H (v.cap - v.len))) := by rw [sp]; simp
    obtain ⟨pre, post, vr, dr, hu2, e2, sr, lr, dlr, escr, pr, er, tsr, tlr, hpost⟩ :=
      spliceDropRest_ex env.bombs u vp dp _ _ sp1 (by rw [pp]; simp) (by rw [ep]; simp)
    rw [hcnt, e2]
    have hul : u.length = pre.length + post.length := by rw [hu2]; simp
    by_cases hb : u.any env.bombs.contains = true
    · -- a destructor of the range panicked
      simp only [hb, ↓reduceIte]
      have sr1 : vr.slots = I head ++ H (a' + pre.length) ++ I post ++ H b' ++ (I tail ++ H (v.cap - v.len)) := by
        rw [sr]; simp [H_add]
      obtain ⟨v5, e5, s5, l5, dl5, es5, c5⟩ := spliceDrainDrop_seg_ex env.bombs true (u := post) sr1 (by rw [lr, lp, hhl])
        (by rw [pr]; simp <;> omega) (by rw [er, ep]; omega) (by rw [tsr, tsp]; omega) (by rw [tlr, tlp, htl])
      rw [e5]
      simp only
      refine ⟨dropArgs v5 src, rfl, ?_, ?_⟩
      · have := holds_of_slots (v := v5) (xs := head ++ tail) (k := a' + pre.length + post.length + b' + (v.cap - v.len))
          (by rw [s5]; simp [H_add]) l5
        refine ⟨by simpa [dropArgs, Vec.cap] using this.slots, by simpa [dropArgs] using this.len, ?_, ?_⟩
        · simp only [dropArgs]; rw [dl5, dlr, dlp, hu2]; simp
        · simp only [dropArgs]; rw [es5, escr, escp]
      · have hc : vr.cap = v.cap := by
          have h1 := congrArg List.length sr1
          have h2 := congrArg List.length hxs
          simp only [List.length_append, length_I, length_H] at h1 h2
          show vr.slots.length = v.cap
          omega
        have : (dropArgs v5 src).cap = v5.cap := rfl
        omega
    · have hb' : u.any env.bombs.contains = false := by simpa using hb
      have hpn := hpost hb'
      subst hpn
      simp only [hb', Bool.false_eq_true, ↓reduceIte]
      have hpre : pre = u := by simpa using hu2.symm
      have sr1 : vr.slots = I head ++ H (a' + u.length + b') ++ I tail ++ H (v.cap - v.len) := by
        rw [sr, hpre]; simp [H_add]
      have hc : vr.cap = v.cap := by
        have h1 := congrArg List.length sr1
        have h2 := congrArg List.length hxs
        simp only [List.length_append, length_I, length_H] at h1 h2
        show vr.slots.length = v.cap
        omega
      obtain ⟨v', e6, h6, c6⟩ := spliceFinish_bump env hk hm (v := vr) (d := { dr with ptr := dr.end_ }) (dl := v.dropLog ++ u)
        (esc := v.escaped ++ yielded rs) src hint lie maxCap sr1 (by rw [lr, lp, hhl]) rfl (by simp only; rw [tsr, tsp]; omega)
        (by simp only; rw [tlr, tlp, htl]) (by rw [dlr, dlp, hpre]) (by rw [escr, escp])
      have hcaps : capsOf env vr hint lie maxCap = capsOf env v hint lie maxCap := by simp [capsOf, hc]
      have hargs : spliceWritten (capsOf env v hint lie maxCap) start end_ xs.length src =
          spliceWritten (capsOf env v hint lie maxCap) head.length (head.length + (a' + u.length + b'))
            (head.length + (a' + u.length + b') + tail.length) src := by
        have h2 := congrArg List.length hxs
        simp only [List.length_append] at h2
        congr 1 <;> omega
      rw [hcaps, ← hargs] at e6 h6
      rw [e6]
      refine ⟨v', ?_, ?_, by omega⟩
      · cases (spliceWritten (capsOf env v hint lie maxCap) start end_ xs.length src).2 <;> simp
      · simpa [List.append_assoc] using h6
/-- what was written is a prefix of the source -/
theorem spliceWritten_prefix (c : SpliceCaps) (start end_ xsLen : Nat) (src : List Id) :
    (spliceWritten c start end_ xsLen src).1 ++ src.drop (spliceWritten c start end_ xsLen src).1.length = src := by
  unfold spliceWritten
  by_cases h1 : end_ = xsLen
  · simp only [h1, ↓reduceIte]
    by_cases h2 : c.overflows start (spliceLower c.hintCap c.lie src.length) = true <;> simp [h2]
  · simp only [h1, ↓reduceIte]
    by_cases h2 : src.length < end_ - start
    · simp [h2]
    · simp only [h2, ↓reduceIte]
      split
      · exact take_append_drop_len _ _
      · split
        · simp
        · split
          · exact take_append_drop_len _ _
          · simp

/-- `splice` only moves ids around: contents, drops and hand-outs together are the old contents plus `src` -/
theorem spliceSpec_perm (bombs : List Id) (c : SpliceCaps) (xs : List Id) (start end_ : Nat) (src : List Id) (script : List Pull) :
    ((spliceSpec bombs c xs start end_ src script).final ++ (spliceSpec bombs c xs start end_ src script).dropped ++
      (spliceSpec bombs c xs start end_ src script).escaped).Perm (xs ++ src) := by
  unfold spliceSpec
  split
  · simp
  · rename_i hr
    have hxs : xs = xs.take start ++ ((xs.take end_).drop start ++ xs.drop end_) := by
      have h1 : xs.take start = (xs.take end_).take start := by rw [List.take_take]; congr 1; omega
      rw [h1, ← List.append_assoc, List.take_append_drop, List.take_append_drop]
    have hp := pullsSpec_perm script ((xs.take end_).drop start)
    rw [List.perm_iff_count] at hp
    have hw : ∀ a, List.count a (spliceWritten c start end_ xs.length src).1 +
        List.count a (src.drop (spliceWritten c start end_ xs.length src).1.length) = List.count a src := by
      intro a
      have hpre := spliceWritten_prefix c start end_ xs.length src
      have := congrArg (List.count a) hpre
      simpa [List.count_append] using this
    simp only
    split
    · simp only
      rw [List.perm_iff_count]
      intro a
      have h1 := hp a
      have h2 := congrArg (List.count a) hxs
      simp only [List.count_append] at h1 h2 ⊢
      omega
    · simp only
      rw [List.perm_iff_count]
      intro a
      have h1 := hp a
      have h2 := congrArg (List.count a) hxs
      have h3 := hw a
      simp only [List.count_append] at h1 h2 h3 ⊢
      omega
