/-
  Lemmas/CollSplice.lean — the parts of `Splice::drop` (`Coll/Splice.lean`) on segmented buffers.
-/
import BumpProof.Coll.Splice
import BumpProof.Lemmas.CollPrim
import BumpProof.Lemmas.CollBasic
import BumpProof.Lemmas.CollGrow
import BumpProof.Lemmas.CollDrain

namespace Coll

/-- `Drain::fill` on `I head ++ H g ++ R`: the gap takes as many new values as it can hold -/
theorem spliceFill_seg (g : Nat) : ∀ (v : Vec) (head src : List Id) (R : List Slot),
    v.slots = I head ++ H g ++ R → v.len = head.length →
    spliceFill g v src =
      .ok ({ v with slots := I (head ++ src.take g) ++ H (g - src.length) ++ R, len := head.length + min g src.length },
           src.drop g, decide (g ≤ src.length)) := by
  induction g with
  | zero =>
    intro v head src R hs hl
    simp only [spliceFill, List.take_zero, List.append_nil, Nat.zero_sub, H_zero, Nat.zero_min, Nat.add_zero,
      List.drop_zero, Nat.zero_le, decide_true]
    congr 2
    exact Vec.eq_of (by simpa using hs) hl rfl rfl
  | succ g ih =>
    intro v head src R hs hl
    cases src with
    | nil =>
      simp only [spliceFill, List.take_nil, List.append_nil, List.length_nil, Nat.sub_zero, Nat.min_zero, Nat.add_zero,
        List.drop_nil]
      congr 2
      exact Vec.eq_of (by simpa using hs) hl rfl rfl
    | cons id src =>
      have hs1 : v.slots = I head ++ Slot.hole :: (H g ++ R) := by simp [hs]
      simp only [spliceFill]
      rw [write_mid hs1 (by simp [hl])]
      simp only [setLen]
      rw [ih _ (head ++ [id]) src R (by simp) (by simp [hl])]
      congr 2
      · apply Vec.eq_of <;> simp <;> omega
      · simp

/-- `Drain::move_tail(a)` once the gap is closed (`I head ++ I tail ++ H spare`): the tail moves `a` slots up,
    after a reallocation when the spare capacity does not suffice -/
theorem spliceMoveTail_seg (env : Env) {v : Vec} {d : DrainSt} {head tail : List Id} {spare : Nat} (a : Nat)
    (hs : v.slots = I head ++ I tail ++ H spare) (hts : d.tailStart = head.length) (htl : d.tailLen = tail.length) :
    ∃ spare', spliceMoveTail env v d a =
        .ok ({ v with slots := I head ++ H a ++ I tail ++ H spare' }, { d with tailStart := head.length + a }) ∧
      spare ≤ a + spare' := by
  have hcap : v.cap = head.length + tail.length + spare := by simp [Vec.cap, hs]; omega
  unfold spliceMoveTail
  simp only [hts, htl]
  by_cases hg : a > v.cap - (head.length + tail.length)
  · simp only [hg, ↓reduceIte]
    generalize hn : max (max (v.cap * 2) (head.length + tail.length + a)) env.minCap = newCap
    have hnc : newCap ≥ head.length + tail.length + a := by omega
    refine ⟨spare + (newCap - v.cap) - a, ?_, by omega⟩
    have hs' : (growTo v newCap).slots = I head ++ I tail ++ H a ++ H (spare + (newCap - v.cap) - a) := by
      simp only [growTo, hs, List.append_assoc]
      rw [← H_add, ← H_add]
      congr 3
      omega
    rw [copy_fwd hs' (by simp) (by simp) (by simp)]
    rfl
  · simp only [hg, ↓reduceIte]
    refine ⟨spare - a, ?_, by omega⟩
    have hs' : v.slots = I head ++ I tail ++ H a ++ H (spare - a) := by
      rw [hs, List.append_assoc (I head ++ I tail), ← H_add]; congr 2; omega
    rw [copy_fwd hs' (by simp) (by simp) (by simp)]

/-- `impl Drop for Drain` (`bump_vec/drain.rs`) on a segmented buffer, also while unwinding -/
theorem spliceDrainDrop_seg (bombs : List Id) (unw : Bool) {v : Vec} {d : DrainSt} {head u tail : List Id} {a b : Nat} {T : List Slot}
    (hs : v.slots = I head ++ H a ++ I u ++ H b ++ (I tail ++ T)) (hlen : v.len = head.length)
    (hp : d.ptr = head.length + a) (he : d.end_ = head.length + a + u.length)
    (hts : d.tailStart = head.length + a + u.length + b) (htl : d.tailLen = tail.length) :
    spliceDrainDrop bombs unw v d =
      .ok ({ v with slots := I (head ++ tail) ++ H (a + u.length + b) ++ T, len := head.length + tail.length,
                    dropLog := v.dropLog ++ u }, !unw && u.any bombs.contains) := by
  unfold spliceDrainDrop
  have hcnt : d.end_ - d.ptr = u.length := by omega
  have hs1 : v.slots = (I head ++ H a) ++ I u ++ (H b ++ (I tail ++ T)) := by simp [hs]
  rw [hcnt, dropRange_seg bombs u unw v (I head ++ H a) (H b ++ (I tail ++ T)) d.ptr hs1 (by simp [hp])]
  simp only [drainGuard]
  have hgap : (I head ++ H a) ++ H u.length ++ (H b ++ (I tail ++ T)) = I head ++ H (a + u.length + b) ++ I tail ++ T := by
    simp only [List.append_assoc]
    rw [← List.append_assoc (H a), ← H_add, ← List.append_assoc (H _), ← H_add]
  by_cases ht : d.tailLen > 0
  · simp only [ht, ↓reduceIte]
    rw [copy_back_or_skip (v := { v with slots := _, dropLog := _ }) (src := d.tailStart) (dst := v.len) (n := d.tailLen)
      hgap (by simp; omega) (by simp [hlen]) (by simp [htl])]
    simp only [setLen]
    congr 2
    apply Vec.eq_of <;> simp [htl, hlen]
  · simp only [ht, ↓reduceIte]
    have : tail = [] := List.eq_nil_of_length_eq_zero (by omega)
    subst this
    congr 2
    apply Vec.eq_of <;> simp [hlen]
    rw [← List.append_assoc (H a), ← H_add, ← List.append_assoc (H _), ← H_add]

/-- `for_each(drop)` on `A ++ I u ++ B`: the values up to and including the first one whose `Drop` panics are gone -/
theorem spliceDropRest_seg (bombs : List Id) (u : List Id) : ∀ (v : Vec) (d : DrainSt) (A B : List Slot),
    v.slots = A ++ I u ++ B → d.ptr = A.length → d.end_ = A.length + u.length →
    ∃ pre post, u = pre ++ post ∧
      spliceDropRest bombs u.length v d =
        .ok ({ v with slots := A ++ H pre.length ++ I post ++ B, dropLog := v.dropLog ++ pre },
             { d with ptr := A.length + pre.length }, u.any bombs.contains) ∧
      (u.any bombs.contains = false → post = []) := by
  induction u with
  | nil =>
    intro v d A B hs hp he
    refine ⟨[], [], rfl, ?_, fun _ => rfl⟩
    simp only [List.length_nil, spliceDropRest, List.any_nil, H_zero, List.append_nil, I_nil, Nat.add_zero]
    congr 2
    · exact Vec.eq_of (by simpa using hs) rfl (by simp) rfl
    · cases d; simp_all
  | cons x u ih =>
    intro v d A B hs hp he
    have hs1 : v.slots = A ++ Slot.init x :: (I u ++ B) := by simp [hs]
    have hne : d.ptr ≠ d.end_ := by simp at he; omega
    simp only [List.length_cons, spliceDropRest, hne, ↓reduceIte]
    rw [dropAt_mid hs1 hp]
    simp only [Bool.not_false, Bool.true_and]
    by_cases hb : bombs.contains x = true
    · refine ⟨[x], u, rfl, ?_, by intro h; simp only [List.any_cons, hb, Bool.true_or] at h; exact absurd h (by decide)⟩
      simp only [hb, ↓reduceIte, List.any_cons, Bool.true_or, List.length_cons, List.length_nil, Nat.zero_add]
      congr 2
      · apply Vec.eq_of <;> simp
      · simp [hp]
    · have hb' : bombs.contains x = false := by simpa using hb
      simp only [hb', Bool.false_eq_true, ↓reduceIte, List.any_cons, Bool.false_or]
      obtain ⟨pre, post, hu, heq, hnil⟩ := ih { v with slots := A ++ Slot.hole :: (I u ++ B), dropLog := v.dropLog ++ [x] }
        { d with ptr := d.ptr + 1 } (A ++ [Slot.hole]) B (by simp) (by simp [hp]) (by simp [he]; omega)
      refine ⟨x :: pre, post, by simp [hu], ?_, hnil⟩
      rw [heq]
      congr 2
      · apply Vec.eq_of <;> simp
      · simp; omega

/-- `v` holds exactly `xs` in the standard shape, with the given logs -/
structure Holds (v : Vec) (xs dl esc : List Id) : Prop where
  slots : v.slots = I xs ++ H (v.cap - v.len)
  len : xs.length = v.len
  dropLog : v.dropLog = dl
  escaped : v.escaped = esc

theorem roomOne_bump (env : Env) (v : Vec) (hk : env.kind = .bump) : ∃ v', reserveOne env v = some v' := by
  unfold reserveOne growAmortized
  simp only [hk]
  split <;> simp

theorem reserve_bump' (env : Env) (v : Vec) (n : Nat) (hk : env.kind = .bump) : ∃ v', reserve env v n = some v' := by
  unfold reserve growAmortized
  split <;> simp [hk]

/-- `vec.extend(replace_with)` on a `BumpVec`: every value is pushed -/
theorem spliceExtendLoop_bump (env : Env) (hk : env.kind = .bump) (src : List Id) :
    ∀ (v : Vec) (xs dl esc : List Id), Holds v xs dl esc →
      ∃ v', spliceExtendLoop env v src = .ok (v', [], false) ∧ Holds v' (xs ++ src) dl esc ∧ v.cap ≤ v'.cap := by
  induction src with
  | nil => intro v xs dl esc h; exact ⟨v, rfl, by simpa using h, Nat.le_refl _⟩
  | cons id src ih =>
    intro v xs dl esc h
    obtain ⟨v1, hr⟩ := roomOne_bump env v hk
    have ⟨g, hc⟩ := reserveOne_some h.slots h.len hr
    have hpush := push_eq env v xs id h.slots h.len
    have hroom : roomOne env v = true := by simp [roomOne, hr]
    have hgrown : grownOne env v = v1 := by simp [grownOne, hr]
    rw [hroom, hgrown] at hpush
    simp only [pushSpec, ↓reduceIte] at hpush
    simp only [spliceExtendLoop, hpush]
    have hlen : (xs ++ [id]).length ≤ v1.cap := by simp; have := h.len; omega
    have hcap := after_cap v1 ({ final := xs ++ [id], exit := .ret (), rest := [] } : SpecOut Unit) hlen
    obtain ⟨v', h1, h2, h3⟩ := ih (v1.after ({ final := xs ++ [id], exit := .ret (), rest := [] } : SpecOut Unit)) (xs ++ [id]) dl esc
      ⟨by rw [hcap]; simp [Vec.after], by simp [Vec.after], by simp [Vec.after, g.dropLog, h.dropLog],
       by simp [Vec.after, g.escaped, h.escaped]⟩
    refine ⟨v', h1, by simpa using h2, ?_⟩
    have := g.cap; omega

/-- the state of `Splice::drop` with the gap closed: `head` then the tail, `spare` unused slots -/
structure Closed (v : Vec) (d : DrainSt) (h tail dl esc : List Id) : Prop where
  slots : ∃ spare, v.slots = I h ++ I tail ++ H spare
  len : v.len = h.length
  tailStart : d.tailStart = h.length
  tailLen : d.tailLen = tail.length
  dropLog : v.dropLog = dl
  escaped : v.escaped = esc

/-- `move_tail(a); fill(..)` with at least `a` values left: the gap is closed again, `a` more values are in -/
theorem spliceMoveFill (env : Env) {v : Vec} {d : DrainSt} {h tail dl esc : List Id} (s : List Id) (a : Nat)
    (hc : Closed v d h tail dl esc) (ha : a ≤ s.length) :
    ∃ v1 d1 v', spliceMoveTail env v d a = .ok (v1, d1) ∧
      spliceFill (d1.tailStart - v1.len) v1 s = .ok (v', s.drop a, true) ∧
      Closed v' d1 (h ++ s.take a) tail dl esc ∧ v.cap ≤ v'.cap ∧ d1.ptr = d.ptr ∧ d1.end_ = d.end_ := by
  obtain ⟨spare, hs⟩ := hc.slots
  obtain ⟨spare', hmt, hsp⟩ := spliceMoveTail_seg env a hs hc.tailStart hc.tailLen
  refine ⟨_, _, { v with slots := I (h ++ s.take a) ++ I tail ++ H spare', len := h.length + a }, hmt, ?_, ?_⟩
  · simp only [hc.len, Nat.add_sub_cancel_left]
    rw [spliceFill_seg a { v with slots := I h ++ H a ++ I tail ++ H spare', len := h.length } h s (I tail ++ H spare') (by simp) rfl]
    have h0 : a - s.length = 0 := by omega
    congr 2
    · apply Vec.eq_of <;> simp [h0]
      omega
    · simp; omega
  · refine ⟨⟨⟨spare', rfl⟩, ?_, ?_, hc.tailLen, hc.dropLog, hc.escaped⟩, ?_, rfl, rfl⟩
    · simp; omega
    · simp; omega
    · simp [Vec.cap, hs]; omega

/-- the guard of `Drain::drop` when the iterator is empty -/
theorem spliceDrainDrop_empty (bombs : List Id) (unw : Bool) {v : Vec} {d : DrainSt} {head tail : List Id} {k : Nat} {T : List Slot}
    (hs : v.slots = I head ++ H k ++ I tail ++ T) (hlen : v.len = head.length) (hpe : d.ptr = d.end_)
    (hts : d.tailLen > 0 → d.tailStart = head.length + k) (htl : d.tailLen = tail.length) :
    spliceDrainDrop bombs unw v d =
      .ok ({ v with slots := I (head ++ tail) ++ H k ++ T, len := head.length + tail.length }, false) := by
  unfold spliceDrainDrop
  have hcnt : d.end_ - d.ptr = 0 := by omega
  simp only [hcnt, dropRange, drainGuard]
  by_cases ht : d.tailLen > 0
  · simp only [ht, ↓reduceIte]
    rw [copy_back_or_skip (src := d.tailStart) (dst := v.len) (n := d.tailLen) hs (by rw [hts ht]; simp) (by simp [hlen]) (by simp [htl])]
    simp only [setLen]
    congr 2
    apply Vec.eq_of <;> simp [htl, hlen]
  · simp only [ht, ↓reduceIte]
    have : tail = [] := List.eq_nil_of_length_eq_zero (by omega)
    subst this
    congr 2
    apply Vec.eq_of <;> simp [hlen, hs]

/-- the optional `move_tail(lower_bound); fill` step keeps the gap closed -/
theorem spliceSecond_closed (env : Env) {v : Vec} {d : DrainSt} {h tail dl esc : List Id} (s : List Id) (lower : Nat)
    (hc : Closed v d h tail dl esc) (hl : lower ≤ s.length) :
    ∃ v' d', spliceSecond env v d s lower = .ok (v', d', s.drop lower, true) ∧
      Closed v' d' (h ++ s.take lower) tail dl esc ∧ v.cap ≤ v'.cap ∧ d'.ptr = d.ptr ∧ d'.end_ = d.end_ := by
  unfold spliceSecond
  by_cases h0 : lower > 0
  · obtain ⟨v1, d1, v', h1, h2, h3, h4, h5, h6⟩ := spliceMoveFill env s lower hc hl
    exact ⟨v', d1, by simp only [h0, ↓reduceIte, h1, h2], h3, h4, h5, h6⟩
  · have : lower = 0 := by omega
    subst this
    exact ⟨v, d, by simp, by simpa using hc, Nat.le_refl _, rfl, rfl⟩

theorem dropArgs_nil (v : Vec) : dropArgs v [] = v := by cases v; simp [dropArgs]

theorem holds_of_slots {v : Vec} {xs : List Id} {k : Nat} (hs : v.slots = I xs ++ H k) (hl : v.len = xs.length) :
    Holds v xs v.dropLog v.escaped := by
  refine ⟨?_, hl.symm, rfl, rfl⟩
  have : v.cap - v.len = k := by simp [Vec.cap, hs, hl]
  rw [this, hs]

/-- `spliceFill_seg` without the record -/
theorem spliceFill_ex (g : Nat) (v : Vec) (head src : List Id) (R : List Slot)
    (hs : v.slots = I head ++ H g ++ R) (hl : v.len = head.length) :
    ∃ v', spliceFill g v src = .ok (v', src.drop g, decide (g ≤ src.length)) ∧
      v'.slots = I (head ++ src.take g) ++ H (g - src.length) ++ R ∧ v'.len = head.length + min g src.length ∧
      v'.dropLog = v.dropLog ∧ v'.escaped = v.escaped ∧ v'.cap = v.cap :=
  ⟨_, spliceFill_seg g v head src R hs hl, rfl, rfl, rfl, rfl, by simp [Vec.cap, hs]; omega⟩

/-- `spliceDrainDrop_empty` without the record -/
theorem spliceDrainDrop_ex (bombs : List Id) (unw : Bool) {v : Vec} {d : DrainSt} {head tail : List Id} {k : Nat} {T : List Slot}
    (hs : v.slots = I head ++ H k ++ I tail ++ T) (hlen : v.len = head.length) (hpe : d.ptr = d.end_)
    (hts : d.tailLen > 0 → d.tailStart = head.length + k) (htl : d.tailLen = tail.length) :
    ∃ v', spliceDrainDrop bombs unw v d = .ok (v', false) ∧ v'.slots = I (head ++ tail) ++ H k ++ T ∧
      v'.len = (head ++ tail).length ∧ v'.dropLog = v.dropLog ∧ v'.escaped = v.escaped ∧ v'.cap = v.cap :=
  ⟨_, spliceDrainDrop_empty bombs unw hs hlen hpe hts htl, rfl, by simp, rfl, rfl, by simp [Vec.cap, hs]; omega⟩

/-- **the splicing part**: with the drained range empty (`g` holes between `head` and the tail), a `BumpVec`
    ends up holding `head ++ src ++ tail`, whatever lower bound `replace_with` reports -/
theorem spliceFinish_bump (env : Env) (hk : env.kind = .bump) {v : Vec} {d : DrainSt} {head tail dl esc : List Id} {g spare : Nat}
    (src : List Id) (hint : Nat)
    (hs : v.slots = I head ++ H g ++ I tail ++ H spare) (hlen : v.len = head.length) (hpe : d.ptr = d.end_)
    (hts : d.tailStart = head.length + g) (htl : d.tailLen = tail.length) (hdl : v.dropLog = dl) (hesc : v.escaped = esc) :
    ∃ v', spliceFinish env v d src hint = .ok (v', false, false) ∧ Holds v' (head ++ src ++ tail) dl esc ∧ v.cap ≤ v'.cap := by
  have hcap : v.cap = head.length + g + tail.length + spare := by simp [Vec.cap, hs]; omega
  unfold spliceFinish spliceBody
  by_cases ht : d.tailLen = 0
  · -- nothing behind the range: `extend`
    have htail : tail = [] := List.eq_nil_of_length_eq_zero (by omega)
    subst htail
    have hshape : v.slots = I head ++ H (v.cap - v.len) := by
      rw [hs, hcap, hlen]; simp only [I_nil, List.append_nil, List.append_assoc]; rw [← H_add]; congr 2; simp; omega
    obtain ⟨v1, hr⟩ := reserve_bump' env v (min src.length hint) hk
    have ⟨gr, _⟩ := reserve_some hshape hlen.symm hr
    obtain ⟨v2, h1, h2, h3⟩ := spliceExtendLoop_bump env hk src v1 head dl esc
      ⟨gr.slots, by rw [gr.len]; exact hlen.symm, by rw [gr.dropLog, hdl], by rw [gr.escaped, hesc]⟩
    simp only [ht, ↓reduceIte, hr, h1]
    have hs2 : v2.slots = I (head ++ src) ++ H (v2.cap - v2.len) ++ I [] ++ [] := by simpa using h2.slots
    obtain ⟨v3, e3, s3, l3, dl3, es3, c3⟩ := spliceDrainDrop_ex env.bombs false hs2 h2.len.symm hpe (by omega) (by simpa using ht)
    rw [e3]
    simp only [dropArgs_nil, Bool.or_false]
    refine ⟨v3, rfl, ?_, ?_⟩
    · have := holds_of_slots (v := v3) (xs := head ++ src) (k := v2.cap - v2.len) (by simpa using s3) (by simpa using l3)
      rw [dl3, es3, h2.dropLog, h2.escaped] at this
      simpa using this
    · have := gr.cap; omega
  · simp only [ht, ↓reduceIte]
    have hs1 : v.slots = I head ++ H g ++ (I tail ++ H spare) := by simp [hs]
    obtain ⟨v1, e1, s1, l1, dl1, es1, c1⟩ := spliceFill_ex g v head src _ hs1 hlen
    rw [hts, hlen, Nat.add_sub_cancel_left, e1]
    by_cases hn : g ≤ src.length
    · -- the range is filled; the rest goes in behind it
      simp only [hn, decide_true]
      have hc1 : Closed v1 d (head ++ src.take g) tail dl esc := by
        refine ⟨⟨spare, ?_⟩, ?_, ?_, htl, by rw [dl1, hdl], by rw [es1, hesc]⟩
        · have : g - src.length = 0 := by omega
          rw [s1, this]; simp
        · rw [l1]; simp <;> omega
        · rw [hts]; simp <;> omega
      obtain ⟨v2, d2, e2, c2, cap2, p2, q2⟩ := spliceSecond_closed env (src.drop g) (min (src.drop g).length hint) hc1 (Nat.min_le_left _ _)
      simp only [e2]
      generalize hsrc2 : (src.drop g).drop (min (src.drop g).length hint) = src2 at *
      generalize hh2 : head ++ src.take g ++ (src.drop g).take (min (src.drop g).length hint) = h2 at *
      have hall : h2 ++ src2 = head ++ src := by
        rw [← hsrc2, ← hh2, List.append_assoc, List.append_assoc, List.take_append_drop, List.take_append_drop]
      by_cases h3 : src2.length > 0
      · obtain ⟨v3, d3, v4, e3, e4, c4, cap4, p4, q4⟩ := spliceMoveFill env src2 src2.length c2 (Nat.le_refl _)
        simp only [h3, ↓reduceIte, e3, e4]
        rw [List.take_length, hall] at c4
        obtain ⟨sp, hs4⟩ := c4.slots
        have hs4' : v4.slots = I (head ++ src) ++ H 0 ++ I tail ++ H sp := by simpa using hs4
        obtain ⟨v5, e5, s5, l5, dl5, es5, c5⟩ := spliceDrainDrop_ex env.bombs false hs4' c4.len (by omega)
          (by intro _; simpa using c4.tailStart) c4.tailLen
        rw [e5]
        simp only [List.drop_length, dropArgs_nil, Bool.or_false]
        refine ⟨v5, rfl, ?_, by omega⟩
        have := holds_of_slots (v := v5) (xs := head ++ src ++ tail) (k := sp) (by simpa using s5) (by simpa using l5)
        rw [dl5, es5, c4.dropLog, c4.escaped] at this
        exact this
      · have hnil : src2 = [] := List.eq_nil_of_length_eq_zero (by omega)
        simp only [h3, ↓reduceIte]
        rw [hnil, List.append_nil] at hall
        rw [hall] at c2
        obtain ⟨sp, hs2⟩ := c2.slots
        have hs2' : v2.slots = I (head ++ src) ++ H 0 ++ I tail ++ H sp := by simpa using hs2
        obtain ⟨v5, e5, s5, l5, dl5, es5, c5⟩ := spliceDrainDrop_ex env.bombs false hs2' c2.len (by omega)
          (by intro _; simpa using c2.tailStart) c2.tailLen
        rw [e5, hnil]
        simp only [dropArgs_nil, Bool.or_false]
        refine ⟨v5, rfl, ?_, by omega⟩
        have := holds_of_slots (v := v5) (xs := head ++ src ++ tail) (k := sp) (by simpa using s5) (by simpa using l5)
        rw [dl5, es5, c2.dropLog, c2.escaped] at this
        exact this
    · -- `replace_with` ran dry inside the range: the guard of `Drain::drop` moves the tail back
      have htk : src.take g = src := List.take_of_length_le (by omega)
      have hdr : src.drop g = [] := List.drop_eq_nil_of_le (by omega)
      simp only [hn, decide_false, hdr]
      rw [htk] at s1
      have hs3 : v1.slots = I (head ++ src) ++ H (g - src.length) ++ I tail ++ H spare := by rw [s1]; simp
      obtain ⟨v5, e5, s5, l5, dl5, es5, c5⟩ := spliceDrainDrop_ex env.bombs false hs3 (by rw [l1]; simp; omega) hpe
        (by intro _; rw [hts]; simp; omega) htl
      rw [e5]
      simp only [dropArgs_nil, Bool.or_false]
      refine ⟨v5, rfl, ?_, by omega⟩
      have := holds_of_slots (v := v5) (xs := head ++ src ++ tail) (k := g - src.length + spare)
        (by rw [s5]; simp [H_add]) (by simpa using l5)
      rw [dl5, es5, dl1, es1, hdl, hesc] at this
      exact this

/-- `drainPulls_eq` without the record -/
theorem drainPulls_ex (script : List Pull) (v : Vec) (d : DrainSt) (A B : List Slot) (a b : Nat) (u : List Id)
    (hs : v.slots = A ++ H a ++ I u ++ H b ++ B) (hp : d.ptr = A.length + a) (he : d.end_ = A.length + a + u.length) :
    ∃ a' b' vp dp, drainPulls v d script [] = .ok (vp, dp, (pullsSpec u script).1) ∧
      vp.slots = A ++ H a' ++ I (pullsSpec u script).2 ++ H b' ++ B ∧ vp.len = v.len ∧ vp.dropLog = v.dropLog ∧
      vp.escaped = v.escaped ++ yielded (pullsSpec u script).1 ∧
      dp.ptr = A.length + a' ∧ dp.end_ = A.length + a' + (pullsSpec u script).2.length ∧
      dp.tailStart = d.tailStart ∧ dp.tailLen = d.tailLen ∧
      a' + (pullsSpec u script).2.length + b' = a + u.length + b := by
  obtain ⟨a', b', h1, h2⟩ := drainPulls_eq script v d A B a b u [] hs hp he
  rw [List.nil_append] at h1
  exact ⟨a', b', _, _, h1, rfl, rfl, rfl, rfl, rfl, rfl, rfl, rfl, h2⟩

/-- `spliceDropRest_seg` without the record -/
theorem spliceDropRest_ex (bombs : List Id) (u : List Id) (v : Vec) (d : DrainSt) (A B : List Slot)
    (hs : v.slots = A ++ I u ++ B) (hp : d.ptr = A.length) (he : d.end_ = A.length + u.length) :
    ∃ pre post vr dr, u = pre ++ post ∧
      spliceDropRest bombs u.length v d = .ok (vr, dr, u.any bombs.contains) ∧
      vr.slots = A ++ H pre.length ++ I post ++ B ∧ vr.len = v.len ∧ vr.dropLog = v.dropLog ++ pre ∧ vr.escaped = v.escaped ∧
      dr.ptr = A.length + pre.length ∧ dr.end_ = d.end_ ∧ dr.tailStart = d.tailStart ∧ dr.tailLen = d.tailLen ∧
      (u.any bombs.contains = false → post = []) := by
  obtain ⟨pre, post, h1, h2, h3⟩ := spliceDropRest_seg bombs u v d A B hs hp he
  exact ⟨pre, post, _, _, h1, h2, rfl, rfl, rfl, rfl, rfl, rfl, rfl, rfl, h3⟩

/-- `spliceDrainDrop_seg` without the record -/
theorem spliceDrainDrop_seg_ex (bombs : List Id) (unw : Bool) {v : Vec} {d : DrainSt} {head u tail : List Id} {a b : Nat} {T : List Slot}
    (hs : v.slots = I head ++ H a ++ I u ++ H b ++ (I tail ++ T)) (hlen : v.len = head.length)
    (hp : d.ptr = head.length + a) (he : d.end_ = head.length + a + u.length)
    (hts : d.tailStart = head.length + a + u.length + b) (htl : d.tailLen = tail.length) :
    ∃ v', spliceDrainDrop bombs unw v d = .ok (v', !unw && u.any bombs.contains) ∧
      v'.slots = I (head ++ tail) ++ H (a + u.length + b) ++ T ∧ v'.len = (head ++ tail).length ∧
      v'.dropLog = v.dropLog ++ u ∧ v'.escaped = v.escaped ∧ v'.cap = v.cap :=
  ⟨_, spliceDrainDrop_seg bombs unw hs hlen hp he hts htl, rfl, by simp, rfl, rfl, by simp [Vec.cap, hs]; omega⟩

/-- **refinement** of `BumpVec::splice`: from the standard shape, for every range, source, size hint and
    pull script, with any set of panicking destructors: no fault, and the vector afterwards holds exactly
    what the list-level `spliceSpec` says, with its drops and hand-outs -/
theorem splice_holds (env : Env) (hk : env.kind = .bump) (v : Vec) (xs : List Id) (start end_ : Nat) (src : List Id)
    (hint : Nat) (script : List Pull)
    (hs : v.slots = I xs ++ H (v.cap - v.len)) (hl : xs.length = v.len) :
    ∃ v', splice env v start end_ src hint script = .ok ⟨v', (spliceSpec env.bombs xs start end_ src script).exit, []⟩ ∧
      Holds v' (spliceSpec env.bombs xs start end_ src script).final
        (v.dropLog ++ (spliceSpec env.bombs xs start end_ src script).dropped)
        (v.escaped ++ (spliceSpec env.bombs xs start end_ src script).escaped) ∧ v.cap ≤ v'.cap := by
  have hcap := seg_len_le_cap hs hl
  unfold splice spliceSpec
  by_cases hr : start > end_ ∨ end_ > v.len
  · have hr' : start > end_ ∨ end_ > xs.length := by omega
    simp only [hr, hr', ↓reduceIte]
    exact ⟨_, rfl, ⟨by simpa [dropArgs, Vec.cap] using hs, by simpa [dropArgs] using hl, by simp [dropArgs], by simp [dropArgs]⟩,
      by simp [dropArgs, Vec.cap]⟩
  · have hr' : ¬ (start > end_ ∨ end_ > xs.length) := by omega
    simp only [hr, hr', ↓reduceIte]
    have hse : start ≤ end_ := by omega
    have hel : end_ ≤ xs.length := by omega
    obtain ⟨head, hhead⟩ : ∃ l, l = xs.take start := ⟨_, rfl⟩
    obtain ⟨range, hrange⟩ : ∃ l, l = (xs.take end_).drop start := ⟨_, rfl⟩
    obtain ⟨tail, htail⟩ : ∃ l, l = xs.drop end_ := ⟨_, rfl⟩
    have hxs : xs = head ++ (range ++ tail) := by
      have h1 : xs.take start = (xs.take end_).take start := by rw [List.take_take]; congr 1; omega
      rw [hhead, hrange, htail, h1, ← List.append_assoc, List.take_append_drop, List.take_append_drop]
    have hhl : head.length = start := by rw [hhead]; simp; omega
    have hrl : range.length = end_ - start := by rw [hrange]; simp; omega
    have htl : tail.length = v.len - end_ := by rw [htail]; simp; omega
    rw [← hhead, ← hrange, ← htail]
    have hs0 : (setLen v start).slots = I head ++ H 0 ++ I range ++ H 0 ++ (I tail ++ H (v.cap - v.len)) := by
      simp only [setLen]; rw [hs]; conv => lhs; rw [hxs]
      simp
    obtain ⟨a', b', vp, dp, e1, sp, lp, dlp, escp, pp, ep, tsp, tlp, hab⟩ := drainPulls_ex script (setLen v start)
      { tailStart := end_, tailLen := v.len - end_, ptr := start, end_ := end_ } (I head) _ 0 0 range hs0
      (by simp; omega) (by simp; omega)
    rw [e1]
    obtain ⟨u, hu⟩ : ∃ l, l = (pullsSpec range script).2 := ⟨_, rfl⟩
    obtain ⟨rs, hrs⟩ : ∃ l, l = (pullsSpec range script).1 := ⟨_, rfl⟩
    rw [← hu] at hab sp ep
    rw [← hrs] at escp
    rw [← hu, ← hrs]
    simp only [setLen, length_I] at lp dlp escp pp ep tsp tlp
    simp only
    unfold spliceDrop
    have hcnt : dp.end_ - dp.ptr = u.length := by omega
    have sp1 : vp.slots = (I head ++ H a') ++ I u ++ (H b' ++ (I tail ++ H (v.cap - v.len))) := by rw [sp]; simp
    obtain ⟨pre, post, vr, dr, hu2, e2, sr, lr, dlr, escr, pr, er, tsr, tlr, hpost⟩ :=
      spliceDropRest_ex env.bombs u vp dp _ _ sp1 (by rw [pp]; simp) (by rw [ep]; simp)
    rw [hcnt, e2]
    have hul : u.length = pre.length + post.length := by rw [hu2]; simp
    by_cases hb : u.any env.bombs.contains = true
    · -- a destructor of the range panicked
      simp only [hb, ↓reduceIte]
      have sr1 : vr.slots = I head ++ H (a' + pre.length) ++ I post ++ H b' ++ (I tail ++ H (v.cap - v.len)) := by
        rw [sr]; simp [H_add]
      obtain ⟨v5, e5, s5, l5, dl5, es5, c5⟩ := spliceDrainDrop_seg_ex env.bombs true (u := post) sr1 (by rw [lr, lp, hhl])
        (by rw [pr]; simp <;> omega) (by rw [er, ep]; omega) (by rw [tsr, tsp]; omega) (by rw [tlr, tlp, htl])
      rw [e5]
      simp only
      refine ⟨dropArgs v5 src, rfl, ?_, ?_⟩
      · have := holds_of_slots (v := v5) (xs := head ++ tail) (k := a' + pre.length + post.length + b' + (v.cap - v.len))
          (by rw [s5]; simp [H_add]) l5
        refine ⟨by simpa [dropArgs, Vec.cap] using this.slots, by simpa [dropArgs] using this.len, ?_, ?_⟩
        · simp only [dropArgs]; rw [dl5, dlr, dlp, hu2]; simp
        · simp only [dropArgs]; rw [es5, escr, escp]
      · have hc : vr.cap = v.cap := by
          have h1 := congrArg List.length sr1
          have h2 := congrArg List.length hxs
          simp only [List.length_append, length_I, length_H] at h1 h2
          show vr.slots.length = v.cap
          omega
        have : (dropArgs v5 src).cap = v5.cap := rfl
        omega
    · have hb' : u.any env.bombs.contains = false := by simpa using hb
      have hpn := hpost hb'
      subst hpn
      simp only [hb', Bool.false_eq_true, ↓reduceIte]
      have hpre : pre = u := by simpa using hu2.symm
      have sr1 : vr.slots = I head ++ H (a' + u.length + b') ++ I tail ++ H (v.cap - v.len) := by
        rw [sr, hpre]; simp [H_add]
      obtain ⟨v', e6, h6, c6⟩ := spliceFinish_bump env hk (v := vr) (d := { dr with ptr := dr.end_ }) (dl := v.dropLog ++ u)
        (esc := v.escaped ++ yielded rs) src hint sr1 (by rw [lr, lp, hhl]) rfl (by simp only; rw [tsr, tsp]; omega)
        (by simp only; rw [tlr, tlp, htl]) (by rw [dlr, dlp, hpre]) (by rw [escr, escp])
      rw [e6]
      refine ⟨v', rfl, h6, ?_⟩
      have hc : vr.cap = v.cap := by
        have h1 := congrArg List.length sr1
        have h2 := congrArg List.length hxs
        simp only [List.length_append, length_I, length_H] at h1 h2
        show vr.slots.length = v.cap
        omega
      omega

/-- `splice` only moves ids around: contents, drops and hand-outs together are the old contents plus `src` -/
theorem spliceSpec_perm (bombs : List Id) (xs : List Id) (start end_ : Nat) (src : List Id) (script : List Pull) :
    ((spliceSpec bombs xs start end_ src script).final ++ (spliceSpec bombs xs start end_ src script).dropped ++
      (spliceSpec bombs xs start end_ src script).escaped).Perm (xs ++ src) := by
  unfold spliceSpec
  split
  · simp
  · rename_i hr
    have hxs : xs = xs.take start ++ ((xs.take end_).drop start ++ xs.drop end_) := by
      have h1 : xs.take start = (xs.take end_).take start := by rw [List.take_take]; congr 1; omega
      rw [h1, ← List.append_assoc, List.take_append_drop, List.take_append_drop]
    have hp := pullsSpec_perm script ((xs.take end_).drop start)
    rw [List.perm_iff_count] at hp
    simp only
    split <;>
    · simp only
      rw [List.perm_iff_count]
      intro a
      have h1 := hp a
      have h2 := congrArg (List.count a) hxs
      simp only [List.count_append] at h1 h2 ⊢
      omega
