/-
  Lemmas/HistEx.lean — executable checks for the hypotheses of the history theorems (`EnvOK`,
  `RunEnvOK`) with soundness lemmas, and a concrete history (non-vacuity witness): a `Bump` is
  created, two blocks are allocated, a scope is entered, a block that needs a second chunk is
  allocated, the scope is left, a block is deallocated, the arena is dropped.
-/
import BumpProof.Lemmas.HistBasic

set_option linter.unusedSimpArgs false
set_option linter.unusedVariables false

namespace Arena.Hist
open Rs

variable {cfg : Cfg}

/-! ## executable checks -/

def respCheck (cfg : Cfg) (g : GState) : BaseResp → Bool
  | .fail => true
  | .granted p gr => decide (cfg.hdr.align ∣ p) && decide (p ≠ 0) && decide (p + gr < 2 ^ 63) &&
      g.s.chunks.all (fun c => decide (p + gr ≤ c.base ∨ c.base + c.size ≤ p))

def respApart : BaseResp → BaseResp → Bool
  | .granted p1 g1, .granted p2 g2 => decide (p1 + g1 ≤ p2 ∨ p2 + g2 ≤ p1)
  | _, _ => true

def pairCheck : List BaseResp → Bool
  | [] => true
  | r :: rs => rs.all (respApart r) && pairCheck rs

/-- executable form of `EnvOK` -/
def envCheck (cfg : Cfg) (g : GState) (resps : List BaseResp) : Bool :=
  resps.all (respCheck cfg g) && pairCheck resps

theorem pairCheck_sound : ∀ (l : List BaseResp), pairCheck l = true →
    l.Pairwise (fun r1 r2 => match r1, r2 with
      | .granted p1 g1, .granted p2 g2 => p1 + g1 ≤ p2 ∨ p2 + g2 ≤ p1
      | _, _ => True) := by
  intro l
  induction l with
  | nil => intro _; exact List.Pairwise.nil
  | cons r rs ih =>
    intro h
    simp only [pairCheck, Bool.and_eq_true, List.all_eq_true] at h
    refine List.Pairwise.cons ?_ (ih h.2)
    intro r2 hr2
    have := h.1 r2 hr2
    cases r <;> cases r2 <;> simp_all [respApart]

theorem envCheck_sound {g : GState} {resps : List BaseResp} (h : envCheck cfg g resps = true) : EnvOK cfg g resps := by
  simp only [envCheck, Bool.and_eq_true, List.all_eq_true] at h
  obtain ⟨h1, h2⟩ := h
  refine ⟨?_, pairCheck_sound resps h2, ?_⟩
  · intro r hr
    have := h1 r hr
    cases r with
    | fail => trivial
    | granted p gr =>
      simp only [respCheck, Bool.and_eq_true, decide_eq_true_eq, List.all_eq_true] at this
      exact ⟨this.1.1.1, this.1.1.2, this.1.2⟩
  · intro p gr hm i c hc
    have := h1 _ hm
    simp only [respCheck, Bool.and_eq_true, decide_eq_true_eq, List.all_eq_true] at this
    exact this.2 c (List.mem_of_getElem? hc)

/-- executable form of `RunEnvOK` -/
def runEnvCheck (cfg : Cfg) : GState → List (Op × List BaseResp) → Bool
  | _, [] => true
  | g, (op, resps) :: rest =>
    envCheck cfg g resps &&
      (match step cfg g op resps with
       | .ok (g', _, _) => runEnvCheck cfg g' rest
       | .error _ => true)

theorem runEnvCheck_sound : ∀ (ops : List (Op × List BaseResp)) (g : GState),
    runEnvCheck cfg g ops = true → RunEnvOK cfg g ops := by
  intro ops
  induction ops with
  | nil => intro g _; trivial
  | cons x rest ih =>
    intro g h
    obtain ⟨op, resps⟩ := x
    simp only [runEnvCheck, Bool.and_eq_true] at h
    refine ⟨envCheck_sound h.1, ?_⟩
    intro g' out reqs hs
    have h2 := h.2
    rw [hs] at h2
    exact ih g' h2

/-- executable form of `AllCovered` -/
def coveredCheck (ops : List (Op × List BaseResp)) : Bool := ops.all (fun x => x.1.covered)

theorem coveredCheck_sound {ops : List (Op × List BaseResp)} (h : coveredCheck ops = true) : AllCovered ops := by
  intro x hx
  simp only [coveredCheck, List.all_eq_true] at h
  exact h x hx

/-! ## the example history -/

def exL1 : Layout := { size := 24, align := 8 }
def exL2 : Layout := { size := 40, align := 16 }
def exL3 : Layout := { size := 600, align := 8 }

/-- create (the base allocator grants 496 bytes at 0x10000), allocate 24 and 40 bytes, enter a scope,
    allocate 600 bytes (second chunk: 1008 bytes at 0x20000), leave the scope, deallocate the second
    block, drop -/
def exOps : List (Op × List BaseResp) :=
  [(.newWithSize 512, [.granted 0x10000 496]), (.allocate exL1 false .plain, []), (.allocate exL2 false .plain, []),
   (.scopeEnter, []), (.allocate exL3 false .plain, [.granted 0x20000 1008]), (.scopeExit, []),
   (.deallocate 1 .plain, []), (.drop, [])]

/-- the same without the final `drop` (an arena in use) -/
def exOps7 : List (Op × List BaseResp) := exOps.take 7

theorem exOps_covered : AllCovered exOps := coveredCheck_sound (by decide)
theorem exOps7_covered : AllCovered exOps7 := coveredCheck_sound (by decide)

set_option maxRecDepth 1000000 in
theorem exOps_env : RunEnvOK exCfg (initG exCfg) exOps := runEnvCheck_sound _ _ (by rfl)

set_option maxRecDepth 1000000 in
theorem exOps7_env : RunEnvOK exCfg (initG exCfg) exOps7 := runEnvCheck_sound _ _ (by rfl)

set_option maxRecDepth 1000000 in
theorem exOps_run : ∃ g, runOps exCfg (initG exCfg) exOps = .ok g := ⟨_, rfl⟩

set_option maxRecDepth 1000000 in
theorem exOps7_run : ∃ g, runOps exCfg (initG exCfg) exOps7 = .ok g := ⟨_, rfl⟩

set_option maxRecDepth 1000000 in
theorem exOps_log : ∃ g log, runLog exCfg (initG exCfg) exOps = .ok (g, log) := ⟨_, _, rfl⟩

end Arena.Hist
