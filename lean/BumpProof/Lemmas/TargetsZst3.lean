/-
  Lemmas/TargetsZst3.lean — `BlocksBelow B` (every live block, ALSO AN EMPTY ONE, ends at or below `B`) is
  preserved by every operation, provided the chunks before and after the operation end at or below `B`.
  Part 1: the operations that register no new block.
-/
import BumpProof.Lemmas.TargetsZst2

set_option linter.unusedSimpArgs false
set_option linter.unusedVariables false

namespace Arena.Hist
open Rs Ledger Lemmas

variable {cfg : Cfg} {B : Nat} {g g' : GState} {out : Out}

theorem BlocksBelow.of_live_eq {s s' : State} (he : s'.live = s.live) (h : BlocksBelow B s) : BlocksBelow B s' := by
  intro b hb; rw [he] at hb; exact h b hb

theorem BlocksBelow.of_nil {s' : State} (he : s'.live = []) : BlocksBelow B s' := by
  intro b hb; rw [he] at hb; cases hb

/-- blocks disappear -/
theorem BlocksBelow.of_filter {s s' : State} {l : List Block} {p : Block → Bool} (he : s'.live = l.filter p)
    (hl : l = s.live) (h : BlocksBelow B s) : BlocksBelow B s' := by
  intro b hb
  rw [he, hl] at hb
  exact h b (List.mem_filter.1 hb).1

/-- one more block -/
theorem BlocksBelow.of_append {s s' : State} {l : List Block} {x : Block} (he : s'.live = l ++ [x])
    (hl : BlocksBelow B { s with live := l }) (hx : x.addr + x.size ≤ B) : BlocksBelow B s' := by
  intro b hb
  rw [he] at hb
  rcases List.mem_append.1 hb with hb | hb
  · exact hl b hb
  · simp only [List.mem_singleton] at hb
    subst hb; exact hx

/-- close a goal `BlocksBelow B g'.s` when the list of live blocks did not change -/
syntax "bb_same " ident ident : tactic
macro_rules
  | `(tactic| bb_same $hbb $hs) =>
    `(tactic| (fs_op $hs) <;> (refine BlocksBelow.of_live_eq ?_ $hbb; lv_auto))

theorem bb_newWithSize {n : Nat} (hbb : BlocksBelow B g.s)
    (hs : stepCore cfg g (.newWithSize n) = .ok (g', out)) : BlocksBelow B g'.s := by bb_same hbb hs
theorem bb_newWithCapacity {L : Layout} (hbb : BlocksBelow B g.s)
    (hs : stepCore cfg g (.newWithCapacity L) = .ok (g', out)) : BlocksBelow B g'.s := by bb_same hbb hs
theorem bb_newUnallocated (hbb : BlocksBelow B g.s)
    (hs : stepCore cfg g .newUnallocated = .ok (g', out)) : BlocksBelow B g'.s := by bb_same hbb hs
theorem bb_prepare {L : Layout} (hbb : BlocksBelow B g.s)
    (hs : stepCore cfg g (.prepare L) = .ok (g', out)) : BlocksBelow B g'.s := by bb_same hbb hs
theorem bb_prepareSlice {a b c : Nat} {rev : Bool} (hbb : BlocksBelow B g.s)
    (hs : stepCore cfg g (.prepareSlice a b c rev) = .ok (g', out)) : BlocksBelow B g'.s := by bb_same hbb hs
theorem bb_fillPrepared {a b : Nat} (hbb : BlocksBelow B g.s)
    (hs : stepCore cfg g (.fillPrepared a b) = .ok (g', out)) : BlocksBelow B g'.s := by bb_same hbb hs
theorem bb_abandonPrepared (hbb : BlocksBelow B g.s)
    (hs : stepCore cfg g .abandonPrepared = .ok (g', out)) : BlocksBelow B g'.s := by bb_same hbb hs
theorem bb_reserve {n : Nat} {dyn : Bool} (hbb : BlocksBelow B g.s)
    (hs : stepCore cfg g (.reserve n dyn) = .ok (g', out)) : BlocksBelow B g'.s := by cases dyn <;> bb_same hbb hs
theorem bb_scopeEnter (hbb : BlocksBelow B g.s)
    (hs : stepCore cfg g .scopeEnter = .ok (g', out)) : BlocksBelow B g'.s := by bb_same hbb hs
theorem bb_checkpoint {k : Nat} (hbb : BlocksBelow B g.s)
    (hs : stepCore cfg g (.checkpoint k) = .ok (g', out)) : BlocksBelow B g'.s := by bb_same hbb hs
theorem bb_claim (hbb : BlocksBelow B g.s)
    (hs : stepCore cfg g .claim = .ok (g', out)) : BlocksBelow B g'.s := by bb_same hbb hs
theorem bb_claimEnd (hbb : BlocksBelow B g.s)
    (hs : stepCore cfg g .claimEnd = .ok (g', out)) : BlocksBelow B g'.s := by bb_same hbb hs
theorem bb_alignedEnter {n : Nat} (hbb : BlocksBelow B g.s)
    (hs : stepCore cfg g (.alignedEnter n) = .ok (g', out)) : BlocksBelow B g'.s := by bb_same hbb hs
theorem bb_alignedExit (hbb : BlocksBelow B g.s)
    (hs : stepCore cfg g .alignedExit = .ok (g', out)) : BlocksBelow B g'.s := by bb_same hbb hs
theorem bb_scopedAlignedEnter {n : Nat} (hbb : BlocksBelow B g.s)
    (hs : stepCore cfg g (.scopedAlignedEnter n) = .ok (g', out)) : BlocksBelow B g'.s := by bb_same hbb hs
theorem bb_withSettings {n : Nat} {a b : Bool} (hbb : BlocksBelow B g.s)
    (hs : stepCore cfg g (.withSettings n a b) = .ok (g', out)) : BlocksBelow B g'.s := by bb_same hbb hs

/-! the operations that forget every block -/

theorem bb_drop (hs : stepCore cfg g .drop = .ok (g', out)) : BlocksBelow B g'.s := by
  fs_op hs; exact BlocksBelow.of_nil rfl
theorem bb_reset (hs : stepCore cfg g .reset = .ok (g', out)) : BlocksBelow B g'.s := by
  fs_op hs; exact BlocksBelow.of_nil rfl
theorem bb_resetToStart (hs : stepCore cfg g .resetToStart = .ok (g', out)) : BlocksBelow B g'.s := by
  fs_op hs; exact BlocksBelow.of_nil rfl

/-! the operations that forget some blocks -/

syntax "bb_filter " ident ident : tactic
macro_rules
  | `(tactic| bb_filter $hbb $hs) =>
    `(tactic| (fs_op $hs) <;> (refine BlocksBelow.of_filter rfl ?_ $hbb; lv_auto))

theorem bb_deallocate {b : Nat} {via : Via} (hbb : BlocksBelow B g.s)
    (hs : stepCore cfg g (.deallocate b via) = .ok (g', out)) : BlocksBelow B g'.s := by bb_filter hbb hs
theorem bb_scopeExit (hbb : BlocksBelow B g.s)
    (hs : stepCore cfg g .scopeExit = .ok (g', out)) : BlocksBelow B g'.s := by bb_filter hbb hs
theorem bb_scopedAlignedExit (hbb : BlocksBelow B g.s)
    (hs : stepCore cfg g .scopedAlignedExit = .ok (g', out)) : BlocksBelow B g'.s := by bb_filter hbb hs
theorem bb_resetTo {k : Nat} (hbb : BlocksBelow B g.s)
    (hs : stepCore cfg g (.resetTo k) = .ok (g', out)) : BlocksBelow B g'.s := by bb_filter hbb hs

/-! `write` records that the block is initialised; address and size stay -/

theorem bb_write {b seed : Nat} (hbb : BlocksBelow B g.s)
    (hs : stepCore cfg g (.write b seed) = .ok (g', out)) : BlocksBelow B g'.s := by
  fs_op hs
  rename_i blk hblk s' hw
  intro x hx
  dsimp only at hx
  obtain ⟨y, hy, rfl⟩ := List.mem_map.1 hx
  rw [lv_writeRange hw] at hy
  have := hbb y hy
  split <;> exact this

/-! `split` replaces a block by two adjacent parts of it -/

theorem bb_split {b at_ : Nat} (hbb : BlocksBelow B g.s)
    (hs : stepCore cfg g (.split b at_) = .ok (g', out)) : BlocksBelow B g'.s := by
  fs_op hs
  rename_i blk hblk hat
  have hmem := (Mem.findBlock_ok hblk).1
  have hb := hbb blk hmem
  intro x hx
  dsimp only at hx
  simp only [List.mem_append, List.mem_singleton] at hx
  rcases hx with (hx | hx) | hx
  · exact hbb x (List.mem_filter.1 hx).1
  · subst hx; simp only; omega
  · subst hx; simp only; omega

end Arena.Hist
