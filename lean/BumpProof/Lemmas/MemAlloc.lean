/-
  Lemmas/MemAlloc.lean — the allocation paths (`tryCur`, `walkNext`, `newChunk`, `inAnotherChunk`,
  `alloc`, …) never write a byte: existing chunks keep base, size and data; new chunks are appended.
-/
import BumpProof.Lemmas.MemWrite
import BumpProof.Lemmas.AlignChunk

set_option linter.unusedSimpArgs false

namespace Arena.Mem
open Rs

theorem liftM_ok {α} {x : Rs.M α} {v : α} (h : liftM x = .ok v) : x = .ok v := by
  unfold liftM at h
  split at h
  · cases h; rfl
  · cases h

/-- inversion of `tryCur`: the state is returned unchanged or with a new position of the current chunk -/
theorem tryCur_state {cfg : Cfg} {k : Kind} {s s' : State} {L : Layout} {h : Hints} {v : Nat × Nat}
    (hr : tryCur cfg k s L h = .ok (some (v, s'))) : s' = s ∨ ∃ p, s' = setCurPos s p := by
  unfold tryCur at hr
  simp only [bind, Except.bind, pure, Except.pure] at hr
  cases k <;> simp only at hr
  · split at hr
    · split at hr
      · cases hr
      · split at hr
        · cases hr
        · cases hr; exact .inr ⟨_, rfl⟩
    · split at hr
      · cases hr
      · split at hr
        · cases hr
        · cases hr; exact .inr ⟨_, rfl⟩
  · split at hr
    · split at hr
      · cases hr
      · split at hr
        · cases hr
        · cases hr; exact .inl rfl
    · split at hr
      · cases hr
      · split at hr
        · cases hr
        · cases hr; exact .inl rfl
  · split at hr
    · cases hr
    · split at hr
      · cases hr
      · cases hr; exact .inl rfl

theorem tryCur_memOf {cfg : Cfg} {k : Kind} {s s' : State} {L : Layout} {h : Hints} {v : Nat × Nat}
    (hr : tryCur cfg k s L h = .ok (some (v, s'))) : memOf s' = memOf s := by
  rcases tryCur_state hr with rfl | ⟨p, rfl⟩
  · rfl
  · exact memOf_setCurPos s p

/-- the chunk `newChunk` builds from a response `granted p g` -/
def freshChunk (cfg : Cfg) (p g size size' : Nat) : Chunk :=
  { base := p, size := size', pos := (if cfg.up then p + cfg.hdr.size else p + size' - cfg.hdr.size),
    granted := g, reqSize := size, data := Array.replicate size' 0xAA }

/-- inversion of `newChunk` -/
theorem newChunk_ok {cfg : Cfg} {s s' : State} {size : Nat} {r : Except AErr Nat}
    (h : newChunk cfg s size = .ok (s', r)) :
    (s'.chunks = s.chunks ∧ ∃ e, r = .error e) ∨
    (∃ p g rest size', s.resps = .granted p g :: rest ∧
      Gen.SizeConfig.align_size (sizeCfg cfg) g = .ok size' ∧ size ≤ size' ∧
      r = .ok s.chunks.length ∧
      s'.chunks = s.chunks ++ [freshChunk cfg p g size size']) := by
  unfold newChunk at h
  simp only [bind, Except.bind, pure, Except.pure] at h
  split at h
  · cases h; exact .inl ⟨rfl, _, rfl⟩
  · split at h
    · cases h
    · cases h; exact .inl ⟨rfl, _, rfl⟩
    · rename_i p g rest hresp
      split at h
      · cases h
      · rename_i size' hsz
        split at h
        · cases h
        · rename_i _ hass
          split at h
          · cases h
          · cases h
            right
            refine ⟨p, g, rest, size', hresp, liftM_ok hsz, ?_, rfl, rfl⟩
            have := liftM_ok hass
            unfold Rs.assert at this
            split at this
            · rename_i hd; exact of_decide_eq_true hd
            · cases this

theorem MemExt.of_chunks_eq {s s' : State} (h : s'.chunks = s.chunks) : MemExt s s' :=
  MemExt.of_eq (by unfold memOf; rw [h])

theorem MemExt.of_chunks_append {s s' : State} {l : List Chunk} (h : s'.chunks = s.chunks ++ l) : MemExt s s' :=
  ⟨l.map Chunk.memCell, by unfold memOf; rw [h, List.map_append]⟩

theorem newChunk_memExt {cfg : Cfg} {s s' : State} {size : Nat} {r : Except AErr Nat}
    (h : newChunk cfg s size = .ok (s', r)) : MemExt s s' := by
  rcases newChunk_ok h with ⟨hc, _⟩ | ⟨p, g, rest, size', _, _, _, _, hc⟩
  · exact MemExt.of_chunks_eq hc
  · exact MemExt.of_chunks_append hc

theorem newChunkForCapacity_memExt {cfg : Cfg} {s s' : State} {L : Layout} {r : Except AErr Nat}
    (h : newChunkForCapacity cfg s L = .ok (s', r)) : MemExt s s' := by
  unfold newChunkForCapacity at h
  simp only [bind, Except.bind, pure, Except.pure] at h
  split at h
  · cases h
  · split at h
    · cases h; exact MemExt.refl _
    · split at h
      · cases h
      · split at h
        · cases h; exact MemExt.refl _
        · exact newChunk_memExt h

theorem appendFor_memExt {cfg : Cfg} {s s' : State} {L : Layout} {r : Except AErr Nat}
    (h : appendFor cfg s L = .ok (s', r)) : MemExt s s' := by
  unfold appendFor at h
  simp only [bind, Except.bind, pure, Except.pure] at h
  split at h
  · cases h
  · split at h
    · cases h
    · split at h
      · cases h; exact MemExt.refl _
      · split at h
        · cases h; exact MemExt.refl _
        · split at h
          · cases h
          · split at h
            · cases h; exact MemExt.refl _
            · exact newChunk_memExt h

theorem memOf_set_resetPos (cfg : Cfg) (s : State) (j : Nat) (c : Chunk) (hc : s.chunks[j]? = some c) (cur : Cur) :
    memOf { s with chunks := s.chunks.set j (c.resetPos cfg), cur := cur } = memOf s := by
  unfold memOf
  simp only [List.map_set]
  apply List.ext_getElem?
  intro k
  rw [List.getElem?_set]
  split
  · rename_i hjk
    subst hjk
    simp only [List.length_map, List.getElem?_map, hc, Option.map_some]
    have : j < s.chunks.length := (List.getElem?_eq_some_iff.mp hc).1
    simp [this, Chunk.resetPos, Chunk.memCell]
  · rfl

theorem walkNext_memOf {cfg : Cfg} {k : Kind} {L : Layout} {h : Hints} (fuel : Nat) :
    ∀ (i : Nat) (s : State) (r : Option ((Nat × Nat) × State)) (s2 : State),
      walkNext cfg k L h fuel i s = .ok (r, s2) →
      memOf s2 = memOf s ∧ ∀ v s', r = some (v, s') → memOf s' = memOf s := by
  induction fuel with
  | zero =>
    intro i s r s2 hw
    unfold walkNext at hw
    cases hw
    exact ⟨rfl, fun _ _ h => by cases h⟩
  | succ n ih =>
    intro i s r s2 hw
    unfold walkNext at hw
    split at hw
    · cases hw
      exact ⟨rfl, fun _ _ h => by cases h⟩
    · rename_i c hc
      simp only [bind, Except.bind, pure, Except.pure] at hw
      split at hw
      · cases hw
      · rename_i o ho
        have hm := memOf_set_resetPos cfg s (i+1) c hc (.chunk (i+1))
        split at hw
        · rename_i x
          cases hw
          obtain ⟨v, s'⟩ := x
          have := tryCur_memOf ho
          exact ⟨this.trans hm, fun v' s'' h => by cases h; exact this.trans hm⟩
        · have := ih _ _ _ _ hw
          exact ⟨this.1.trans hm, fun v s' h => (this.2 v s' h).trans hm⟩

theorem memOf_with_cur (s : State) (c : Cur) : memOf { s with cur := c } = memOf s := rfl

theorem inAnotherChunk_memExt {cfg : Cfg} {k : Kind} {s s' : State} {L : Layout} {h : Hints}
    {r : Except AErr (Nat × Nat)} (hr : inAnotherChunk cfg k s L h = .ok (s', r)) : MemExt s s' := by
  unfold inAnotherChunk at hr
  simp only [bind, Except.bind, pure, Except.pure] at hr
  split at hr
  · cases hr; exact MemExt.refl _
  · split at hr
    · cases hr
    · rename_i x hx
      have hx' : MemExt s x.1 := newChunkForCapacity_memExt (r := x.2) (by rw [hx])
      obtain ⟨x1, x2⟩ := x
      cases x2 with
      | error e => simp only at hr; cases hr; exact hx'
      | ok i =>
        simp only at hr
        split at hr
        · cases hr
        · rename_i v hv
          split at hr
          · cases hr
            have h2 : MemExt x1 { x1 with cur := .chunk i } := MemExt.of_eq (memOf_with_cur x1 _)
            have h3 : MemExt { x1 with cur := .chunk i } s' := MemExt.of_eq (tryCur_memOf hv)
            have h1 : MemExt s x1 := hx'
            exact (h1.trans h2).trans h3
          · cases hr
  · rename_i i
    split at hr
    · cases hr
    · rename_i w hw
      obtain ⟨wr, ws⟩ := w
      have hwm := walkNext_memOf _ _ _ _ _ hw
      split at hr
      · rename_i v s1 _ heq
        cases hr
        cases heq
        exact MemExt.of_eq (hwm.2 _ _ rfl)
      · rename_i s1 heq
        cases heq
        split at hr
        · cases hr
        · rename_i x hx
          have hx' : MemExt s x.1 :=
            (MemExt.of_eq hwm.1).trans (appendFor_memExt (r := x.2) (by rw [hx]))
          obtain ⟨x1, x2⟩ := x
          cases x2 with
          | error e => simp only at hr; cases hr; exact hx'
          | ok i =>
            simp only at hr
            split at hr
            · cases hr
            · rename_i v hv
              split at hr
              · cases hr
                have h2 : MemExt x1 { x1 with cur := .chunk i } := MemExt.of_eq (memOf_with_cur x1 _)
                have h3 : MemExt { x1 with cur := .chunk i } s' := MemExt.of_eq (tryCur_memOf hv)
                have h1 : MemExt s x1 := hx'
                exact (h1.trans h2).trans h3
              · cases hr

theorem allocGeneric_memExt {cfg : Cfg} {k : Kind} {s s' : State} {L : Layout} {h hSlow : Hints}
    {r : Except AErr (Nat × Nat)} (hr : allocGeneric cfg k s L h hSlow = .ok (s', r)) : MemExt s s' := by
  unfold allocGeneric at hr
  simp only [bind, Except.bind, pure, Except.pure] at hr
  split at hr
  · cases hr
  · rename_i o ho
    split at hr
    · cases hr
      exact MemExt.of_eq (tryCur_memOf ho)
    · exact inAnotherChunk_memExt hr

theorem alloc_memExt {cfg : Cfg} {s s' : State} {L : Layout} {r : Except AErr Nat}
    (hr : alloc cfg s L = .ok (s', r)) : MemExt s s' := by
  unfold alloc at hr
  simp only [bind, Except.bind, pure, Except.pure] at hr
  split at hr
  · cases hr
  · rename_i x hx
    obtain ⟨x1, x2⟩ := x
    cases hr
    exact allocGeneric_memExt hx

/-! ## operations that only move a position -/

syntax "split_ok " ident " with " tacticSeq : tactic
macro_rules
  | `(tactic| split_ok $h with $t) =>
    `(tactic| (simp only [bind, Except.bind, pure, Except.pure, throw, throwThe, MonadExceptOf.throw] at $h:ident
               (repeat' split at $h:ident) <;> (first | (cases $h:ident; done) | (cases $h:ident; ($t)))))

theorem deallocAssumeLast_memOf {cfg : Cfg} {s s' : State} {ptr size : Nat}
    (h : deallocAssumeLast cfg s ptr size = .ok s') : memOf s' = memOf s := by
  unfold deallocAssumeLast at h
  split_ok h with first | rfl | exact memOf_setCurPos _ _

theorem deallocate_memOf {cfg : Cfg} {s s' : State} {ptr size : Nat}
    (h : deallocate cfg s ptr size = .ok s') : memOf s' = memOf s := by
  unfold deallocate at h
  simp only [bind, Except.bind, pure, Except.pure] at h
  split at h
  · cases h; rfl
  · split at h
    · exact deallocAssumeLast_memOf h
    · cases h; rfl

theorem resetToStart_memOf (cfg : Cfg) (s : State) : memOf (resetToStart cfg s) = memOf s := by
  unfold resetToStart
  split
  · split
    · rfl
    · rename_i c rest hc
      unfold memOf
      simp only [hc, List.map_cons]
      rfl
  · rfl

theorem resetTo_memOf {cfg : Cfg} {s s' : State} {cp : Checkpoint}
    (h : resetTo cfg s cp = .ok s') : memOf s' = memOf s := by
  unfold resetTo at h
  split_ok h with first | exact resetToStart_memOf cfg s | exact memOf_setPos s _ _

theorem alignTo_memOf {cfg : Cfg} {s s' : State} {n : Nat}
    (h : alignTo cfg s n = .ok s') : memOf s' = memOf s := by
  unfold alignTo at h
  split_ok h with first | rfl | exact memOf_setPos s _ _

theorem alignGuardDrop_memOf {cfg : Cfg} {s s' : State} {n : Nat}
    (h : alignGuardDrop cfg s n = .ok s') : memOf s' = memOf s := by
  unfold alignGuardDrop at h
  split_ok h with first | rfl | exact memOf_setPos s _ _

theorem alignChunkAt_memOf {cfg : Cfg} {s s' : State} {n : Nat} {st : Cur}
    (h : alignChunkAt cfg s n st = .ok s') : memOf s' = memOf s := by
  rcases alignChunkAt_cases h with rfl | ⟨j, c, p, _, _, _, _, rfl⟩
  · rfl
  · exact memOf_setPos s _ _

theorem reserve_memExt {cfg : Cfg} {s s' : State} {n : Nat} {r : Except AErr Unit}
    (h : reserve cfg s n = .ok (s', r)) : MemExt s s' := by
  unfold reserve at h
  split_ok h with
    first
    | exact MemExt.refl _
    | exact newChunkForCapacity_memExt (by assumption)
    | exact (newChunkForCapacity_memExt (by assumption)).trans (MemExt.of_eq (memOf_with_cur _ _))
    | exact appendFor_memExt (by assumption)

theorem reserveDyn_memExt {cfg : Cfg} {s s' : State} {n : Nat} {r : Except AErr Unit}
    (h : reserveDyn cfg s n = .ok (s', r)) : MemExt s s' := by
  unfold reserveDyn at h
  split_ok h with
    first
    | exact MemExt.refl _
    | exact allocGeneric_memExt (by assumption)

theorem makeAllocated_memExt {cfg : Cfg} {s s' : State} {r : Except AErr Unit}
    (h : makeAllocated cfg s = .ok (s', r)) : MemExt s s' := by
  unfold makeAllocated at h
  split_ok h with
    first
    | exact MemExt.refl _
    | exact newChunk_memExt (by assumption)
    | exact (newChunk_memExt (by assumption)).trans (MemExt.of_eq (memOf_with_cur _ _))

/-- `reset` keeps the last chunk only; its bytes are untouched -/
theorem reset_readByte (cfg : Cfg) (s : State) (hd : ChunksDisjoint s.chunks) {a : Nat}
    (ha : InChunks (reset cfg s) a) : readByte (reset cfg s) a = readByte s a := by
  unfold reset at ha ⊢
  split
  · rename_i i hcur
    simp only [hcur] at ha
    split
    · rfl
    · rename_i last hlast
      simp only [hlast] at ha
      obtain ⟨c, hc, h1, h2⟩ := ha
      simp only [List.mem_singleton] at hc
      subst hc
      have hidx : s.chunks[s.chunks.length - 1]? = some last := by
        rw [List.getLast?_eq_getElem?] at hlast; exact hlast
      have hown := find_owner hd hidx (a := a) h1 h2
      unfold readByte
      rw [hown.1]
      simp only [List.find?_cons]
      have : decide ((Chunk.resetPos cfg last).base ≤ a ∧ a < (Chunk.resetPos cfg last).base + (Chunk.resetPos cfg last).size) = true :=
        decide_eq_true ⟨h1, h2⟩
      rw [this]
      rfl
  · rfl

end Arena.Mem
