/-
  Lemmas/PoolHist.lean — lemmas about histories of the pool model (helper lemmas of C19):
  live-guard accounting and the peak, creation only on an empty idle stack, the frame of every step on
  arena contents, and what `reset`/`reset_to_start`/`drop` do to every arena.
-/
import BumpProof.Lemmas.PoolInv

namespace Pool

/-! ### creation -/

/-- the number of arenas changes only in a `get` that found the idle stack empty, and then by one -/
theorem created_step {s s' st o} (e : step s st = .ok (s', o)) :
    (s'.created = s.created ∧ ∀ a, o ≠ .got a true) ∨
    (∃ g, st = .get g .ok ∧ o = .got s.created true ∧ s.idle = [] ∧ s'.created = s.created + 1) := by
  cases st with
  | get g c =>
    simp only [step] at e; unfold get at e
    split at e; · cases e
    split at e; · cases e
    split at e
    · cases e; left; exact ⟨rfl, by intro a h; cases h⟩
    · rename_i hidle
      split at e
      · cases e; right; exact ⟨g, rfl, rfl, hidle, rfl⟩
      · cases e; left; exact ⟨rfl, by intro a h; cases h⟩
      · cases e; left; exact ⟨rfl, by intro a h; cases h⟩
  | put g =>
    simp only [step] at e; unfold put at e
    split at e; · cases e
    split at e; · cases e
    cases e; left; exact ⟨rfl, by intro a h; cases h⟩
  | forget g =>
    simp only [step] at e; unfold forget at e
    split at e; · cases e
    split at e; · cases e
    cases e; left; exact ⟨rfl, by intro a h; cases h⟩
  | alloc g t =>
    simp only [step] at e; unfold alloc at e
    split at e; · cases e
    split at e; · cases e
    cases e; left; exact ⟨rfl, by intro a h; cases h⟩
  | reset =>
    simp only [step] at e; unfold forAll at e
    split at e; · cases e
    split at e; · cases e
    cases e; left; exact ⟨rfl, by intro a h; cases h⟩
  | resetToStart =>
    simp only [step] at e; unfold forAll at e
    split at e; · cases e
    split at e; · cases e
    cases e; left; exact ⟨rfl, by intro a h; cases h⟩
  | drop =>
    simp only [step] at e; unfold dropPool forAll at e
    split at e
    · rename_i s1 o1 h1
      split at h1; · cases h1
      split at h1; · cases h1
      cases h1; cases e; left; exact ⟨rfl, by intro a h; cases h⟩
    · cases e

/-! ### live guards and the peak -/

theorem live_step {s s' st o} (e : step s st = .ok (s', o)) : s'.live = liveAfter s.live (st, o) := by
  cases st with
  | get g c =>
    simp only [step] at e; unfold get at e
    split at e; · cases e
    split at e; · cases e
    split at e
    · cases e; simp only [State.live, liveAfter, List.length_cons]; omega
    · split at e
      · cases e; simp only [State.live, liveAfter, List.length_cons]; omega
      · cases e; simp only [liveAfter]
      · cases e; simp only [State.live, liveAfter]
  | put g =>
    simp only [step] at e; unfold put at e
    split at e; · cases e
    split at e; · cases e
    rename_i a owned' ht; cases e
    have t := (takeOut_some ht).2.2.1
    simp only [State.live, liveAfter]; omega
  | forget g =>
    simp only [step] at e; unfold forget at e
    split at e; · cases e
    split at e; · cases e
    rename_i a owned' ht; cases e
    have t := (takeOut_some ht).2.2.1
    simp only [State.live, liveAfter, List.length_cons]; omega
  | alloc g t =>
    simp only [step] at e; unfold alloc at e
    split at e; · cases e
    split at e; · cases e
    cases e; simp only [State.live, liveAfter]
  | reset =>
    simp only [step] at e; unfold forAll at e
    split at e; · cases e
    split at e; · cases e
    cases e; simp only [State.live, liveAfter]
  | resetToStart =>
    simp only [step] at e; unfold forAll at e
    split at e; · cases e
    split at e; · cases e
    cases e; simp only [State.live, liveAfter]
  | drop =>
    simp only [step] at e; unfold dropPool forAll at e
    split at e
    · rename_i s1 o1 h1
      split at h1; · cases h1
      split at h1; · cases h1
      cases h1; cases e; simp only [State.live, liveAfter]
    · cases e

theorem peak_ge : ∀ (log : List (Step × Out)) (c p : Nat), p ≤ peakFrom c p log
  | [], _, _ => Nat.le_refl _
  | e :: rest, c, p => by
    unfold peakFrom
    exact Nat.le_trans (Nat.le_max_left _ _) (peak_ge rest _ _)

/-- invariant of the peak computation: arenas created so far never exceed the maximum number of live
    guards seen so far -/
theorem created_le_peakFrom : ∀ {h : List Step} {s s' : State} {log : List (Step × Out)} {p : Nat},
    Inv s → runLog s h = .ok (s', log) → s.created ≤ p → s'.created ≤ peakFrom s.live p log
  | [], s, s', log, p, _, e, hp => by
    simp only [runLog, Except.ok.injEq, Prod.mk.injEq] at e
    obtain ⟨rfl, rfl⟩ := e
    exact hp
  | st :: rest, s, s', log, p, hi, e, hp => by
    unfold runLog at e
    split at e
    · rename_i s1 o1 h1
      split at e
      · rename_i s2 l2 h2
        cases e
        unfold peakFrom
        have hl := live_step h1
        rw [← hl]
        refine created_le_peakFrom (inv_step hi h1) h2 ?_
        rcases created_step h1 with ⟨hc, _⟩ | ⟨g, _, _, hidle, hc⟩
        · rw [hc]; exact Nat.le_trans hp (Nat.le_max_left _ _)
        · -- a fresh arena: the idle stack was empty, so every arena is behind a live guard
          have hlen := hi.length
          have hlen' := (inv_step hi h1).length
          rw [hidle] at hlen
          simp only [List.length_nil, Nat.zero_add] at hlen
          have : s1.live = s.live + 1 := by
            rw [hl]; subst_vars; simp only [liveAfter]
          rw [hc, ← hlen, ← this]
          exact Nat.le_max_right _ _
      · cases e
    · cases e

/-! ### the frame of a step on arena contents -/

/-- a step that is not `reset`/`reset_to_start`/`drop` leaves every arena alone, except that an
    allocation through guard `g` appends its tag to the arena inside `g` -/
theorem arena_step {s s' st o} (e : step s st = .ok (s', o)) (hc : st.isClear = false) (a : ArenaId) :
    s'.arenas a = s.arenas a ∨
    ∃ g t, st = .alloc g t ∧ arenaOf g s.owned = some a ∧ s'.arenas a = (s.arenas a).alloc t := by
  cases st with
  | get g c =>
    simp only [step] at e; unfold get at e
    split at e; · cases e
    split at e; · cases e
    split at e
    · cases e; left; rfl
    · split at e <;> (cases e; left; rfl)
  | put g =>
    simp only [step] at e; unfold put at e
    split at e; · cases e
    split at e; · cases e
    cases e; left; rfl
  | forget g =>
    simp only [step] at e; unfold forget at e
    split at e; · cases e
    split at e; · cases e
    cases e; left; rfl
  | alloc g t =>
    simp only [step] at e; unfold alloc at e
    split at e; · cases e
    split at e; · cases e
    rename_i b hb
    cases e
    by_cases hab : a = b
    · right; subst hab; exact ⟨g, t, rfl, hb, by simp [update]⟩
    · left; simp [update, hab]
  | reset => cases hc
  | resetToStart => cases hc
  | drop => cases hc

theorem tags_prefix_run : ∀ {h : List Step} {s s' : State}, run s h = .ok s' →
    (∀ st ∈ h, st.isClear = false) → ∀ a, (s.arenas a).tags <+: (s'.arenas a).tags
  | [], s, s', e, _, a => by
    simp only [run, Except.ok.injEq] at e; subst e; exact List.prefix_refl _
  | st :: rest, s, s', e, hc, a => by
    unfold run at e
    split at e
    · rename_i s1 o1 h1
      have ih := tags_prefix_run e (fun x hx => hc x (List.mem_cons_of_mem _ hx)) a
      refine List.IsPrefix.trans ?_ ih
      rcases arena_step h1 (hc st (List.mem_cons_self ..)) a with h | ⟨g, t, _, _, h⟩
      · rw [h]; exact List.prefix_refl _
      · rw [h]; simp only [Arena.alloc]; exact List.prefix_append _ _
    · cases e

/-! ### `reset`, `reset_to_start`, `drop` -/

/-- the loop over the idle vector applies the single-arena operation exactly once to every arena that
    was ever created (and not leaked by `mem::forget`), and touches nothing else -/
theorem forAll_covers {s s' op o} (hi : Inv s) (e : forAll s op = .ok (s', o)) :
    (∀ a, a < s.created → a ∉ s.leaked → s'.arenas a = op (s.arenas a)) ∧
    (∀ a, (s.created ≤ a ∨ a ∈ s.leaked) → s'.arenas a = s.arenas a) ∧
    s'.idle = s.idle ∧ s'.owned = s.owned ∧ s'.leaked = s.leaked ∧ s'.created = s.created ∧ s'.dropped = s.dropped := by
  unfold forAll at e
  split at e; · cases e
  split at e; · cases e
  rename_i _ hown
  cases e
  have hown' : s.owned = [] := by
    cases hh : s.owned with
    | nil => rfl
    | cons p r => simp [hh] at hown
  have hn := hi.nodup
  simp only [State.all, hown', List.map_nil, List.nil_append, List.nodup_append] at hn
  refine ⟨?_, ?_, rfl, rfl, rfl, rfl, rfl⟩
  · intro a ha hl
    have hm := (hi.mem_iff a).mpr ha
    simp only [State.all, hown', List.map_nil, List.nil_append, List.mem_append] at hm
    rcases hm with hm | hm
    · exact mapOver_mem op _ _ _ hn.1 hm
    · exact absurd hm hl
  · intro a ha
    apply mapOver_not_mem
    intro hm
    rcases ha with ha | ha
    · have := (hi.mem_iff a).mp (by simp only [State.all, List.mem_append]; exact Or.inl hm)
      exact absurd this (Nat.not_lt.mpr ha)
    · exact hn.2.2 a hm a ha rfl

/-- no arena is ever dropped twice; before the pool is dropped none is dropped at all -/
structure DropInv (s : State) : Prop where
  none_before : s.dropped = false → ∀ a, (s.arenas a).drops = 0
  at_most_once : ∀ a, (s.arenas a).drops ≤ 1

theorem dropInv_init : DropInv init := ⟨fun _ _ => rfl, fun _ => by simp [init]⟩

theorem step_not_dropped {s s' st o} (e : step s st = .ok (s', o)) : s.dropped = false := by
  cases hd : s.dropped with
  | false => rfl
  | true =>
    cases st <;> simp [step, get, put, forget, alloc, forAll, dropPool, hd] at e

theorem dropInv_step {s s' st o} (hi : Inv s) (hd : DropInv s) (e : step s st = .ok (s', o)) : DropInv s' := by
  have hnd := step_not_dropped e
  have h0 := hd.none_before hnd
  by_cases hc : st.isClear = false
  · -- contents may grow, drop counters stay 0, the pool stays alive
    have hdr : s'.dropped = false := by
      cases st with
      | get g c =>
        simp only [step] at e; unfold get at e
        split at e; · cases e
        split at e; · cases e
        split at e
        · cases e; exact hnd
        · split at e <;> (cases e; exact hnd)
      | put g =>
        simp only [step] at e; unfold put at e
        split at e; · cases e
        split at e; · cases e
        cases e; exact hnd
      | forget g =>
        simp only [step] at e; unfold forget at e
        split at e; · cases e
        split at e; · cases e
        cases e; exact hnd
      | alloc g t =>
        simp only [step] at e; unfold alloc at e
        split at e; · cases e
        split at e; · cases e
        cases e; exact hnd
      | reset => cases hc
      | resetToStart => cases hc
      | drop => cases hc
    have hz : ∀ a, (s'.arenas a).drops = 0 := by
      intro a
      rcases arena_step e hc a with h | ⟨g, t, _, _, h⟩
      · rw [h]; exact h0 a
      · rw [h]; simp only [Arena.alloc]; exact h0 a
    exact ⟨fun _ => hz, fun a => by rw [hz a]; omega⟩
  · cases st with
    | get g c => simp [Step.isClear] at hc
    | put g => simp [Step.isClear] at hc
    | forget g => simp [Step.isClear] at hc
    | alloc g t => simp [Step.isClear] at hc
    | reset =>
      simp only [step] at e
      have c := forAll_covers hi e
      have hz : ∀ a, (s'.arenas a).drops = 0 := by
        intro a
        by_cases ha : a < s.created ∧ a ∉ s.leaked
        · rw [c.1 a ha.1 ha.2]; simp only [Arena.reset]; exact h0 a
        · rw [c.2.1 a (by by_cases h1 : a < s.created
                          · right; exact Classical.not_not.mp (fun h2 => ha ⟨h1, h2⟩)
                          · left; exact Nat.le_of_not_lt h1)]
          exact h0 a
      exact ⟨fun _ => hz, fun a => by rw [hz a]; omega⟩
    | resetToStart =>
      simp only [step] at e
      have c := forAll_covers hi e
      have hz : ∀ a, (s'.arenas a).drops = 0 := by
        intro a
        by_cases ha : a < s.created ∧ a ∉ s.leaked
        · rw [c.1 a ha.1 ha.2]; simp only [Arena.resetToStart]; exact h0 a
        · rw [c.2.1 a (by by_cases h1 : a < s.created
                          · right; exact Classical.not_not.mp (fun h2 => ha ⟨h1, h2⟩)
                          · left; exact Nat.le_of_not_lt h1)]
          exact h0 a
      exact ⟨fun _ => hz, fun a => by rw [hz a]; omega⟩
    | drop =>
      simp only [step] at e; unfold dropPool at e
      split at e
      · rename_i s1 o1 h1
        cases e
        have c := forAll_covers hi h1
        refine ⟨fun h => (by cases h), ?_⟩
        intro a
        show (s1.arenas a).drops ≤ 1
        by_cases ha : a < s.created ∧ a ∉ s.leaked
        · rw [c.1 a ha.1 ha.2]; simp only [Arena.drop]; rw [h0 a]; omega
        · rw [c.2.1 a (by by_cases h1 : a < s.created
                          · right; exact Classical.not_not.mp (fun h2 => ha ⟨h1, h2⟩)
                          · left; exact Nat.le_of_not_lt h1)]
          rw [h0 a]; omega
      · cases e

theorem dropInv_run : ∀ {h : List Step} {s s'}, Inv s → DropInv s → run s h = .ok s' → DropInv s'
  | [], s, s', _, hd, e => by simp [run] at e; exact e ▸ hd
  | st :: rest, s, s', hi, hd, e => by
    unfold run at e
    split at e
    · rename_i s1 o1 h1
      exact dropInv_run (inv_step hi h1) (dropInv_step hi hd h1) e
    · cases e

/-! ### the poison flag of the mutex is irrelevant -/

/-- a step result with the poison flag erased -/
def erase (r : State × Out) : State × Out := (r.1.unpoison, r.2)

/-- no step looks at the poison flag: from the un-poisoned twin of a state every step gives the same
    verdict, the same output and the same successor (up to the flag) -/
theorem step_unpoison (s : State) (st : Step) : (step s.unpoison st).map erase = (step s st).map erase := by
  cases st with
  | get g c =>
    simp only [step, get, State.unpoison]
    by_cases hd : s.dropped = true
    · simp [hd]
    · by_cases hu : (arenaOf g s.owned).isSome = true
      · simp [hd, hu]
      · cases hi : s.idle with
        | nil => cases c <;> simp [hd, hu, hi, Except.map, erase, State.unpoison]
        | cons a rest => simp [hd, hu, Except.map, erase, State.unpoison]
  | put g =>
    simp only [step, put, State.unpoison]
    by_cases hd : s.dropped = true
    · simp [hd]
    · cases ht : takeOut g s.owned with
      | none => simp [hd]
      | some r => simp [hd, Except.map, erase, State.unpoison]
  | forget g =>
    simp only [step, forget, State.unpoison]
    by_cases hd : s.dropped = true
    · simp [hd]
    · cases ht : takeOut g s.owned with
      | none => simp [hd]
      | some r => simp [hd, Except.map, erase, State.unpoison]
  | alloc g t =>
    simp only [step, alloc, State.unpoison]
    by_cases hd : s.dropped = true
    · simp [hd]
    · cases ht : arenaOf g s.owned with
      | none => simp [hd]
      | some r => simp [hd, Except.map, erase, State.unpoison]
  | reset =>
    simp only [step, forAll, State.unpoison]
    by_cases hd : s.dropped = true
    · simp [hd]
    · by_cases ho : (!s.owned.isEmpty) = true
      · simp [hd, ho]
      · simp [hd, ho, Except.map, erase, State.unpoison]
  | resetToStart =>
    simp only [step, forAll, State.unpoison]
    by_cases hd : s.dropped = true
    · simp [hd]
    · by_cases ho : (!s.owned.isEmpty) = true
      · simp [hd, ho]
      · simp [hd, ho, Except.map, erase, State.unpoison]
  | drop =>
    simp only [step, dropPool, forAll, State.unpoison]
    by_cases hd : s.dropped = true
    · simp [hd]
    · by_cases ho : (!s.owned.isEmpty) = true
      · simp [hd, ho]
      · simp [hd, ho, Except.map, erase, State.unpoison]

theorem step_congr {s t : State} (h : s.unpoison = t.unpoison) (st : Step) :
    (step s st).map erase = (step t st).map erase := by
  rw [← step_unpoison s, ← step_unpoison t, h]

/-- a history result with the poison flag erased -/
def erase' (r : State × List (Step × Out)) : State × List (Step × Out) := (r.1.unpoison, r.2)

theorem runLog_congr : ∀ (h : List Step) {s t : State}, s.unpoison = t.unpoison →
    (runLog s h).map erase' = (runLog t h).map erase'
  | [], s, t, e => by simp [runLog, Except.map, erase', e]
  | st :: rest, s, t, e => by
    have hc := step_congr e st
    unfold runLog
    cases hs : step s st with
    | error x =>
      cases ht : step t st with
      | error y => rw [hs, ht] at hc; simp only [Except.map] at hc; cases hc; rfl
      | ok r => rw [hs, ht] at hc; simp only [Except.map] at hc; cases hc
    | ok r =>
      cases ht : step t st with
      | error y => rw [hs, ht] at hc; simp only [Except.map] at hc; cases hc
      | ok r' =>
        rw [hs, ht] at hc
        simp only [Except.map, erase, Except.ok.injEq, Prod.mk.injEq] at hc
        obtain ⟨s1, o1⟩ := r
        obtain ⟨t1, o2⟩ := r'
        simp only at hc
        obtain ⟨h1, h2⟩ := hc
        subst h2
        have ih := runLog_congr rest h1
        simp only
        cases h3 : runLog s1 rest with
        | error x =>
          cases h4 : runLog t1 rest with
          | error y => rw [h3, h4] at ih; simp only [Except.map] at ih; cases ih; rfl
          | ok q => rw [h3, h4] at ih; simp only [Except.map] at ih; cases ih
        | ok q =>
          cases h4 : runLog t1 rest with
          | error y => rw [h3, h4] at ih; simp only [Except.map] at ih; cases ih
          | ok q' =>
            rw [h3, h4] at ih
            simp only [Except.map, erase', Except.ok.injEq, Prod.mk.injEq] at ih
            simp only [Except.map, erase', Except.ok.injEq, Prod.mk.injEq, List.cons.injEq, true_and]
            exact ih

end Pool
