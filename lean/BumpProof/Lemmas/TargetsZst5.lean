/-
  Lemmas/TargetsZst5.lean — `BlocksBelow B` through `alloc_try_with(_mut)`, then through every operation
  (`bb_stepCore`), every step and every history; consequence: in a history whose grants all end at or below `2^62`
  (`ReachableLow`) NO live block — empty or not — passes the `is_last` test of the dummy chunk of a claimed handle
  (`DummyApart`).
-/
import BumpProof.Lemmas.TargetsZst4

set_option linter.unusedSimpArgs false
set_option linter.unusedVariables false

namespace Arena.Hist
open Rs Ledger Lemmas

variable {cfg : Cfg} {B : Nat} {g g' : GState} {out : Out}

/-- the end of `alloc_try_with`: every chunk stays, and a live block afterwards was live before or is the value -/
theorem tryTail_post {S : State} {ptr off vsize : Nat} {ok cs : Bool}
    (h : tryTail cfg g S ptr off vsize ok cs = .ok (g', out)) :
    ChunksCov S g'.s ∧ ∀ b ∈ g'.s.live, b ∈ S.live ∨ (b.addr = ptr + off ∧ b.size = vsize) := by
  unfold tryTail at h
  cases ok
  · simp only [Bool.false_eq_true, ↓reduceIte, bind, Except.bind, pure, Except.pure] at h
    cases cs
    · simp only [Bool.false_eq_true, ↓reduceIte] at h
      cases h
      exact ⟨ChunksCov.refl _, fun b hb => .inl hb⟩
    · simp only [↓reduceIte] at h
      split at h
      · cases h
      · rename_i s3 h3
        cases h
        refine ⟨(tr_resetTo h3).cov, fun b hb => .inl ?_⟩
        have hb' : b ∈ s3.live := (List.mem_filter.1 hb).1
        rw [lv_resetTo h3] at hb'
        exact hb'
  · cases cs
    · simp only [↓reduceIte, Bool.false_eq_true, bind, Except.bind, pure, Except.pure] at h
      cases h
      refine ⟨ChunksCov.refl _, fun b hb => ?_⟩
      simp only [okOut, addBlock, List.mem_append, List.mem_singleton] at hb
      rcases hb with hb | hb
      · exact .inl hb
      · subst hb; exact .inr ⟨rfl, rfl⟩
    · simp only [↓reduceIte, bind, Except.bind, pure, Except.pure, throw, throwThe, MonadExceptOf.throw] at h
      (repeat' split at h) <;> first | (cases h; done) | skip
      all_goals
        cases h
        refine ⟨ChunksCov.setCurPos _ _, fun b hb => ?_⟩
        simp only [okOut, addBlock, List.mem_append, List.mem_singleton] at hb
        rcases hb with hb | hb
        · rw [lv_setCurPos] at hb; exact .inl hb
        · subst hb; exact .inr ⟨rfl, rfl⟩

theorem bb_allocTryWith {L : Layout} {off vsize : Nat} {ok : Bool} {inner : Option Layout} {mut_ : Bool}
    (hsz : L.align ∣ L.size) (h : Inv cfg g) (hr : RespsOK cfg g.s) (hf : RespsFresh g.s)
    (hbb : BlocksBelow B g.s) (hB' : ChunksBelow B g'.s)
    (hs : stepCore cfg g (.allocTryWith L off vsize ok inner mut_) = .ok (g', out)) : BlocksBelow B g'.s := by
  obtain ⟨hL, hprep, hov, s1, r1, ha, hrest⟩ := tryWith_inv hs
  have hc := h.cfgOK
  have hsized : Hints.sized.sma = true → L.align ∣ L.size := fun _ => hsz
  cases r1 with
  | error e =>
    simp only at hrest
    subst hrest
    exact BlocksBelow.of_live_eq (lv_allocGeneric ha) hbb
  | ok v =>
    obtain ⟨ptr, x⟩ := v
    simp only at hrest
    obtain ⟨s2, io, hin, htail⟩ := hrest
    obtain ⟨hcov, hlive⟩ := tryTail_post htail
    -- the chunks of the intermediate states end below `B`
    have hBS : ChunksBelow B (withInner s2 io) := ChunksBelow.of_cov hcov hB'
    have hB2 : ChunksBelow B s2 := ChunksBelow.of_eq (withInner_chunks s2 io).symm hBS
    -- the closure
    have hclo : s2.live = s1.live ∧ ChunksCov s1 s2 ∧
        ∀ p Li, io = some (p, Li) → Li.Valid ∧ alloc cfg s1 Li = .ok (s2, .ok p) := by
      cases mut_
      · rcases tryInner_inv hin with ⟨rfl, rfl⟩ | ⟨Li, r, hLi, hal, hio⟩
        · exact ⟨rfl, ChunksCov.refl _, fun p Li hx => by cases hx⟩
        · refine ⟨lv_alloc hal, (tr_alloc hal).cov, fun p Li' hx => ?_⟩
          rcases hio with ⟨e, _, hio⟩ | ⟨p', hr', hio⟩
          · rw [hio] at hx; cases hx
          · rw [hio] at hx; cases hx
            subst hr'
            exact ⟨hLi, hal⟩
      · obtain ⟨rfl, rfl⟩ := tryInner_mut hin
        exact ⟨rfl, ChunksCov.refl _, fun p Li hx => by cases hx⟩
    obtain ⟨hl2, hcov12, hinner⟩ := hclo
    have hB1 : ChunksBelow B s1 := ChunksBelow.of_cov hcov12 hB2
    -- the `Result` block ends below `B`
    have hres : ptr + L.size ≤ B := by
      cases mut_
      · exact allocGeneric_alloc_below hc h.geom hr h.disj hf h.live hL hsized (custom_truthful L) ha hB1
      · exact allocGeneric_prepare_below hc h.geom hr h.disj hf hL hsized (custom_truthful L) ha hB1
    -- the post-condition of the first allocation (for the closure's own allocation)
    have p1 : AllocPost cfg (if mut_ then Kind.prepare else Kind.alloc) L g.s s1 (.ok (ptr, x)) :=
      allocGeneric_post hc h.geom hr h.disj hf _ hL hsized (custom_truthful L)
        (fun hk => by cases mut_ <;> simp at hk) ha
    intro b hb
    rcases hlive b hb with hb | ⟨e1, e2⟩
    · -- a block of `withInner s2 io`
      unfold withInner at hb
      split at hb
      · rename_i p Li
        simp only [addBlock, List.mem_append, List.mem_singleton] at hb
        rcases hb with hb | hb
        · rw [hl2, lv_allocGeneric ha] at hb
          exact hbb b hb
        · subst hb
          obtain ⟨hLi, hal⟩ := hinner p Li rfl
          exact alloc_below hc p1.inv p1.resps p1.disj p1.fresh (p1.live h.live) hLi hal hB2
      · rw [hl2, lv_allocGeneric ha] at hb
        exact hbb b hb
    · rw [e1, e2]; omega

/-! ## every operation -/

theorem bb_stepCore {op : Op} (hcov : op.Covered) (h : Inv cfg g) (hr : RespsOK cfg g.s) (hf : RespsFresh g.s)
    (hbb : BlocksBelow B g.s) (hB : ChunksBelow B g.s) (hB' : ChunksBelow B g'.s)
    (hs : stepCore cfg g op = .ok (g', out)) : BlocksBelow B g'.s := by
  cases op with
  | newWithSize n => exact bb_newWithSize hbb hs
  | newWithCapacity L => exact bb_newWithCapacity hbb hs
  | newUnallocated => exact bb_newUnallocated hbb hs
  | drop => exact bb_drop hs
  | allocate L z via => exact bb_allocate h hr hf hbb hB' hs
  | deallocate b via => exact bb_deallocate hbb hs
  | grow b L z via => exact bb_grow h hr hf hbb hB' hs
  | shrink b L via => exact bb_shrink h hr hf hbb hB' hs
  | allocLayout L hh => exact bb_allocLayout h hr hf hbb hB' hs
  | shrinkSlice b n => exact bb_shrinkSlice h hbb hs
  | prepare L => exact bb_prepare hbb hs
  | commit size rev => exact bb_commit h hbb hB hs
  | prepareSlice esize ealign minCap rev => exact bb_prepareSlice hbb hs
  | fillPrepared len seed => exact bb_fillPrepared hbb hs
  | commitSlice len => exact bb_commitSlice h hbb hB hs
  | abandonPrepared => exact bb_abandonPrepared hbb hs
  | reserve n dyn => exact bb_reserve hbb hs
  | scopeEnter => exact bb_scopeEnter hbb hs
  | scopeExit => exact bb_scopeExit hbb hs
  | checkpoint k => exact bb_checkpoint hbb hs
  | resetTo k => exact bb_resetTo hbb hs
  | reset => exact bb_reset hs
  | resetToStart => exact bb_resetToStart hs
  | claim => exact bb_claim hbb hs
  | claimEnd => exact bb_claimEnd hbb hs
  | onClaimed op' => exact bb_onClaimed hbb hs
  | alignedEnter n => exact bb_alignedEnter hbb hs
  | alignedExit => exact bb_alignedExit hbb hs
  | scopedAlignedEnter n => exact bb_scopedAlignedEnter hbb hs
  | scopedAlignedExit => exact bb_scopedAlignedExit hbb hs
  | withSettings n ga cl => exact bb_withSettings hbb hs
  | allocTryWith L off vsize ok inner mut_ =>
    have hsz : L.align ∣ L.size := by
      have : L.size % L.align = 0 := by simpa [Op.Covered, Op.covered] using hcov
      exact Nat.dvd_of_mod_eq_zero this
    exact bb_allocTryWith hsz h hr hf hbb hB' hs
  | write b seed => exact bb_write hbb hs
  | split b at_ => exact bb_split hbb hs

/-- one step under a correct environment -/
theorem bb_step {op : Op} {resps : List BaseResp} {reqs : List BaseReq} (hcov : op.Covered) (h : Inv cfg g)
    (henv : EnvOK cfg g resps) (hbb : BlocksBelow B g.s) (hB : ChunksBelow B g.s) (hB' : ChunksBelow B g'.s)
    (hs : step cfg g op resps = .ok (g', out, reqs)) : BlocksBelow B g'.s :=
  bb_stepCore (g := install g resps) hcov (h.install resps) henv.1 henv.2 hbb hB hB' (step_ok hs).1

end Arena.Hist
