/-
  Lemmas/LedgerScope.lean — helper lemmas for C03 (scopes): `align_pos` is the identity on aligned
  positions, evaluation of `resetTo` on a checkpoint, statistics only depend on address ranges and
  the current position.
-/
import BumpProof.Lemmas.LedgerIntact

set_option linter.unusedSimpArgs false
set_option linter.unusedVariables false

namespace Ledger
open Arena Rs

/-! ## align_pos, resetTo -/
theorem P2_of_minAlign {m : Nat} (hm : m = 1 ∨ m = 2 ∨ m = 4 ∨ m = 8 ∨ m = 16) : Lemmas.P2 m := by
  rcases hm with h | h | h | h | h <;> rw [h]
  · exact ⟨0, rfl⟩
  · exact ⟨1, rfl⟩
  · exact ⟨2, rfl⟩
  · exact ⟨3, rfl⟩
  · exact ⟨4, rfl⟩

/-- re-aligning a position that is already aligned changes nothing (and cannot overflow) -/
theorem align_pos_id {up : Bool} {m p : Nat} (hm : m = 1 ∨ m = 2 ∨ m = 4 ∨ m = 8 ∨ m = 16)
    (hd : m ∣ p) (hp : p < 2^64 - 16) : Gen.LibArith.align_pos up m p = .ok p := by
  have h2 := P2_of_minAlign hm
  have hm16 : m ≤ 16 := by rcases hm with h | h | h | h | h <;> omega
  have hpos := h2.pos
  have hm64 : m < 2^64 := by omega
  unfold Gen.LibArith.align_pos
  cases up with
  | true =>
    simp only [↓reduceIte]
    unfold Gen.LibArith.up_align_usize_unchecked
    have hx : p + (m - 1) < 2^64 := by omega
    simp only [Lemmas.assert_p2 h2, Lemmas.ok_bind, Lemmas.sub_one_ok hpos, Lemmas.add_ok' hx, Lemmas.pure_eq_ok]
    rw [h2.band_bnot hm64 hx, ← Lemmas.upAlign_eq_downAlign, Lemmas.upAlign_eq_self hpos hd]
  | false =>
    simp only [Bool.false_eq_true, ↓reduceIte]
    unfold Gen.LibArith.down_align_usize
    simp only [Lemmas.assert_p2 h2, Lemmas.ok_bind, Lemmas.sub_one_ok hpos, Lemmas.pure_eq_ok]
    rw [h2.band_bnot hm64 (by omega), Lemmas.downAlign_eq_self hd]

/-- the first `n` chunks of `s` are present in `s'` with the same address range -/
def SameGeometryPrefix (n : Nat) (s s' : State) : Prop :=
  ∀ j, j < n → ∀ c, s.chunks[j]? = some c → ∃ c', s'.chunks[j]? = some c' ∧ c'.base = c.base ∧ c'.size = c.size

theorem Ext.sameGeometryPrefix {n m : Nat} {s s' : State} (h : Ext n s s') : SameGeometryPrefix m s s' :=
  fun j _ c hc => by
    obtain ⟨c', h1, sp, _⟩ := h.chunk j c hc
    exact ⟨c', h1, sp.1, sp.2.1⟩

theorem SameGeometryPrefix.refl (n : Nat) (s : State) : SameGeometryPrefix n s s :=
  fun j _ c hc => ⟨c, hc, rfl, rfl⟩

/-- evaluation of `reset_to` on a checkpoint that points into chunk `i` at an aligned, in-range address -/
theorem resetTo_chunk {cfg : Cfg} {s' : State} {i a : Nat} {c' : Chunk}
    (hc' : s'.chunks[i]? = some c')
    (hin : c'.contentStart cfg ≤ a ∧ a ≤ c'.contentEnd cfg)
    (hm : s'.minAlign = 1 ∨ s'.minAlign = 2 ∨ s'.minAlign = 4 ∨ s'.minAlign = 8 ∨ s'.minAlign = 16)
    (hd : s'.minAlign ∣ a) (ha : a < 2^64 - 16) :
    resetTo cfg s' { cur := .chunk i, addr := a } = .ok { setPos s' i a with cur := .chunk i } := by
  unfold resetTo
  have h1 : (!cfg.ga && (Cur.chunk i == Cur.unallocated)) = false := by
    have : (Cur.chunk i == Cur.unallocated) = false := beq_false_of_ne (by intro h; cases h)
    rw [this, Bool.and_false]
  simp only [h1, Bool.false_eq_true, ↓reduceIte, hc', hin, and_self, align_pos_id hm hd ha, liftM_ok, bind_ok]
  rfl

/-! ## statistics -/
theorem capacity_congr (cfg : Cfg) {c c' : Chunk} (hb : c'.base = c.base) (hs : c'.size = c.size) :
    c'.capacity cfg = c.capacity cfg := by
  unfold Chunk.capacity Chunk.contentEnd Chunk.contentStart; rw [hb, hs]

theorem allocated_congr (cfg : Cfg) {c c' : Chunk} (hb : c'.base = c.base) (hs : c'.size = c.size)
    (hp : c'.pos = c.pos) : c'.allocated cfg = c.allocated cfg := by
  unfold Chunk.allocated Chunk.contentEnd Chunk.contentStart; rw [hb, hs, hp]

theorem take_map_capacity_congr (cfg : Cfg) {l l' : List Chunk} {i : Nat}
    (h : ∀ j, j < i → ∀ c, l[j]? = some c → ∃ c', l'[j]? = some c' ∧ c'.base = c.base ∧ c'.size = c.size)
    (hi : i ≤ l.length) :
    (l'.take i).map (Chunk.capacity cfg) = (l.take i).map (Chunk.capacity cfg) := by
  apply List.ext_getElem?
  intro j
  simp only [List.getElem?_map, List.getElem?_take]
  by_cases hj : j < i
  · simp only [hj, ↓reduceIte]
    have hjl : j < l.length := by omega
    obtain ⟨c', h1, hb, hs⟩ := h j hj _ (List.getElem?_eq_getElem hjl)
    rw [h1, List.getElem?_eq_getElem hjl]
    simp only [Option.map_some, capacity_congr cfg hb hs]
  · simp only [hj, ↓reduceIte, Option.map_none]

/-- `stats().allocated()` only depends on the address ranges of the chunks up to the current one and
    on the current position -/
theorem stats_allocated_congr {cfg : Cfg} {s s'' : State} {i : Nat} {c c'' : Chunk}
    (hcur : s.cur = .chunk i) (hcur'' : s''.cur = .chunk i)
    (hc : s.chunks[i]? = some c) (hc'' : s''.chunks[i]? = some c'')
    (hb : c''.base = c.base) (hs : c''.size = c.size) (hp : c''.pos = c.pos)
    (hpre : SameGeometryPrefix i s s'') :
    (stats cfg s'').allocated = (stats cfg s).allocated := by
  unfold stats
  simp only [hcur, hcur'', hc, hc'']
  have hi : i ≤ s.chunks.length := Nat.le_of_lt (List.getElem?_eq_some_iff.1 hc).1
  rw [take_map_capacity_congr cfg (l := s.chunks) (l' := s''.chunks) hpre hi, allocated_congr cfg hb hs hp]

end Ledger
