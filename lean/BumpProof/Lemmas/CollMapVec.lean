/-
  Lemmas/CollMapVec.lean — `BumpVec::map` (`Coll/MapVec.lean`) refines `vecMapSpec`.
-/
import BumpProof.Coll.MapVec
import BumpProof.Lemmas.CollPrim
import BumpProof.Lemmas.CollBasic
import BumpProof.Lemmas.CollStd

namespace Coll

/-- writing `U` number `k` (bytes `[k*su, (k+1)*su)`) when the first `k+1` slots of `T` have been read out:
    with `su ≤ st` no live `T` is touched -/
theorem uClobbers_none (lay : MapLay) (hle : lay.su ≤ lay.st) (k : Nat) (rest : List Id) (t : Nat) :
    uClobbers (H (k + 1) ++ I rest ++ H t) lay k = none := by
  unfold uClobbers
  rw [List.find?_eq_none]
  intro i _
  have hget : (H (k + 1) ++ I rest ++ H t)[i]? =
      if i < k + 1 then some Slot.hole else if i < k + 1 + rest.length then (I rest)[i - (k + 1)]? else (H t)[i - (k + 1) - rest.length]? := by
    have := get4 (H (k + 1)) (I rest) (H t) [] i
    simp only [List.append_nil, length_H, length_I] at this
    rw [this, getH]
    split
    · rfl
    · split
      · rfl
      · split
        · rfl
        · rw [getH]; simp; omega
  rw [hget]
  by_cases h1 : i < k + 1
  · simp [h1]
  · simp only [h1, ↓reduceIte]
    have hmul : (k + 1) * lay.su ≤ i * lay.st := by
      have : (k + 1) * lay.su ≤ (k + 1) * lay.st := Nat.mul_le_mul_left _ hle
      have : (k + 1) * lay.st ≤ i * lay.st := Nat.mul_le_mul_right _ (by omega)
      omega
    have : ¬ (i * lay.st < (k + 1) * lay.su) := by omega
    simp [this]

/-- the owner after `map`: the new vector, or nothing (everything dropped, buffer freed) after a panic -/
def mapAfter (v : Vec) (newCap len : Nat) (r : SpecOut Unit) : Vec :=
  match r.exit with
  | .ret _ => { slots := I r.final ++ H (newCap - r.final.length), len := len,
                dropLog := v.dropLog ++ r.dropped, escaped := v.escaped ++ r.escaped }
  | .panic _ => { slots := [], len := 0, dropLog := v.dropLog ++ r.dropped, escaped := v.escaped ++ r.escaped }

theorem mapAfter_escaped_cons (v : Vec) (newCap len : Nat) (r : SpecOut Unit) (x : Id) :
    mapAfter { v with escaped := v.escaped ++ [x] } newCap len r = mapAfter v newCap len { r with escaped := x :: r.escaped } := by
  unfold mapAfter
  cases r.exit <;> simp

/-- the in-place loop with `us` written and `rest` unread -/
theorem vecMapLoop_eq (bombs : List Id) (lay : MapLay) (hle : lay.su ≤ lay.st) (cap : Nat) (rest : List Id) :
    ∀ (us : List Id) (t : Nat) (v : Vec) (o : List Outcome) (end_ : Nat),
      v.slots = H us.length ++ I rest ++ H t → end_ = us.length + rest.length →
      vecMapLoop bombs lay cap end_ rest.length v us.length us o =
        .ok ⟨mapAfter v (cap * lay.st / lay.su) end_ (vecMapSpec false us rest o),
             (vecMapSpec false us rest o).exit, (vecMapSpec false us rest o).rest⟩ := by
  induction rest with
  | nil =>
    intro us t v o end_ hs he
    simp [vecMapLoop, vecMapSpec, mapAfter]
  | cons x rest ih =>
    intro us t v o end_ hs he
    simp only [List.length_cons] at he
    have hs1 : v.slots = H us.length ++ Slot.init x :: (I rest ++ H t) := by simp [hs]
    simp only [List.length_cons, vecMapLoop]
    rw [readOut_mid hs1 (by simp)]
    simp only
    have hguard : vecMapGuard bombs { v with slots := H us.length ++ Slot.hole :: (I rest ++ H t), escaped := v.escaped ++ [x] } us.length end_ us
        = .ok { slots := [], len := 0, dropLog := v.dropLog ++ (rest ++ us), escaped := v.escaped ++ [x] } := by
      unfold vecMapGuard
      have e1 : end_ - (us.length + 1) = rest.length := by omega
      have hsA : (H us.length ++ Slot.hole :: (I rest ++ H t)) = (H us.length ++ [Slot.hole]) ++ I rest ++ H t := by simp
      rw [e1, dropRange_seg bombs rest true { v with slots := _, escaped := _ } (H us.length ++ [Slot.hole]) (H t) (us.length + 1) hsA (by simp)]
      simp
    match o with
    | [] => rw [hguard]; simp [Except.map, vecMapSpec, mapAfter]
    | .panic :: o => rw [hguard]; simp [Except.map, vecMapSpec, mapAfter]
    | .ret id :: o =>
      simp only [vecMapSpec]
      have hs2 : H us.length ++ Slot.hole :: (I rest ++ H t) = H (us.length + 1) ++ I rest ++ H t := by simp
      rw [hs2, uClobbers_none lay hle us.length rest t]
      simp only
      have := ih (us ++ [id]) t { v with slots := H (us.length + 1) ++ I rest ++ H t, escaped := v.escaped ++ [x] } o end_
        (by simp) (by simp; omega)
      have e : us.length + 1 = (us ++ [id]).length := by simp
      rw [e] at this ⊢
      rw [this]
      congr 2
      exact mapAfter_escaped_cons { v with slots := _ } _ _ _ x

/-- the fallback loop with `us` pushed into the new vector and `rest` unread in the old one -/
theorem vecMapFallbackLoop_eq (bombs : List Id) (rest : List Id) :
    ∀ (us : List Id) (t : Nat) (v : Vec) (o : List Outcome) (end_ : Nat),
      v.slots = H us.length ++ I rest ++ H t → end_ = us.length + rest.length →
      vecMapFallbackLoop bombs end_ rest.length v us.length us o =
        .ok ⟨mapAfter v end_ (vecMapSpec true us rest o).final.length (vecMapSpec true us rest o),
             (vecMapSpec true us rest o).exit, (vecMapSpec true us rest o).rest⟩ := by
  induction rest with
  | nil =>
    intro us t v o end_ hs he
    simp [vecMapFallbackLoop, vecMapSpec, mapAfter]
  | cons x rest ih =>
    intro us t v o end_ hs he
    simp only [List.length_cons] at he
    have hs1 : v.slots = H us.length ++ Slot.init x :: (I rest ++ H t) := by simp [hs]
    simp only [List.length_cons, vecMapFallbackLoop]
    rw [readOut_mid hs1 (by simp)]
    simp only
    have e1 : end_ - (us.length + 1) = rest.length := by omega
    have hsA : (H us.length ++ Slot.hole :: (I rest ++ H t)) = (H us.length ++ [Slot.hole]) ++ I rest ++ H t := by simp
    have hdrop := dropRange_seg bombs rest true
      { v with slots := H us.length ++ Slot.hole :: (I rest ++ H t), dropLog := v.dropLog ++ us, escaped := v.escaped ++ [x] }
      (H us.length ++ [Slot.hole]) (H t) (us.length + 1) hsA (by simp)
    match o with
    | [] => rw [e1, hdrop]; simp [vecMapSpec, mapAfter]
    | .panic :: o => rw [e1, hdrop]; simp [vecMapSpec, mapAfter]
    | .ret id :: o =>
      simp only [vecMapSpec]
      have hs2 : H us.length ++ Slot.hole :: (I rest ++ H t) = H (us.length + 1) ++ I rest ++ H t := by simp
      rw [hs2]
      have := ih (us ++ [id]) t { v with slots := H (us.length + 1) ++ I rest ++ H t, escaped := v.escaped ++ [x] } o end_
        (by simp) (by simp; omega)
      have e : us.length + 1 = (us ++ [id]).length := by simp
      rw [e] at this ⊢
      rw [this]
      congr 2
      exact mapAfter_escaped_cons { v with slots := _ } _ _ _ x

/-- **refinement** of `BumpVec::map`: from the standard shape, for both code paths (the layout decides), every
    behaviour of the closure and every set of panicking destructors: no fault — in particular no `U` is
    ever written over a `T` that has not been read — and the outcome is the list-level `vecMapSpec` -/
theorem vecMap_eq (bombs : List Id) (lay : MapLay) (v : Vec) (xs : List Id) (o : List Outcome)
    (hs : v.slots = I xs ++ H (v.cap - v.len)) (hl : xs.length = v.len) :
    vecMap bombs lay v o =
      if lay.inPlace then
        .ok ⟨mapAfter v (v.cap * lay.st / lay.su) v.len (vecMapSpec false [] xs o),
             (vecMapSpec false [] xs o).exit, (vecMapSpec false [] xs o).rest⟩
      else
        .ok ⟨mapAfter v v.len (vecMapSpec true [] xs o).final.length (vecMapSpec true [] xs o),
             (vecMapSpec true [] xs o).exit, (vecMapSpec true [] xs o).rest⟩ := by
  unfold vecMap
  by_cases hip : lay.inPlace = true
  · simp only [hip, ↓reduceIte]
    have hle : lay.su ≤ lay.st := by
      simp only [MapLay.inPlace, Bool.and_eq_true, decide_eq_true_eq] at hip
      exact hip.2
    have := vecMapLoop_eq bombs lay hle v.cap xs [] (v.cap - v.len) (setLen v 0) o v.len (by simp [setLen, hs]) (by simp [hl])
    rw [← hl] at this ⊢
    simp only [List.length_nil] at this
    rw [this]
    rfl
  · simp only [hip, Bool.false_eq_true, ↓reduceIte]
    have := vecMapFallbackLoop_eq bombs xs [] (v.cap - v.len) (setLen v 0) o v.len (by simp [setLen, hs]) (by simp [hl])
    rw [← hl] at this ⊢
    simp only [List.length_nil] at this
    rw [this]
    rfl

/-- `map` only moves ids around: results, drops and hand-outs are the old contents plus what `f` made -/
theorem vecMapSpec_perm (usFirst : Bool) (xs : List Id) : ∀ (done : List Id) (o : List Outcome),
    ((vecMapSpec usFirst done xs o).final ++ (vecMapSpec usFirst done xs o).dropped ++ (vecMapSpec usFirst done xs o).escaped).Perm
      (xs ++ (done ++ mapIns xs o)) := by
  induction xs with
  | nil => intro done o; simp [vecMapSpec, mapIns]
  | cons x xs ih =>
    intro done o
    match o with
    | [] =>
      simp only [vecMapSpec, mapIns, List.nil_append, List.append_nil]
      rw [List.perm_iff_count]; intro a
      cases usFirst <;> simp [List.count_append, List.count_cons] <;> omega
    | .panic :: o =>
      simp only [vecMapSpec, mapIns, List.nil_append, List.append_nil]
      rw [List.perm_iff_count]; intro a
      cases usFirst <;> simp [List.count_append, List.count_cons] <;> omega
    | .ret id :: o =>
      have := ih (done ++ [id]) o
      simp only [vecMapSpec, mapIns]
      rw [List.perm_iff_count] at this ⊢
      intro a
      have := this a
      simp only [List.count_append, List.count_cons, List.count_nil] at this ⊢
      omega

/-- a returning `map` keeps the length (one result per element) -/
theorem vecMapSpec_final (usFirst : Bool) (xs : List Id) : ∀ (done : List Id) (o : List Outcome),
    (∃ a, (vecMapSpec usFirst done xs o).exit = .ret a) →
      (vecMapSpec usFirst done xs o).final.length = done.length + xs.length := by
  induction xs with
  | nil => intro done o _; simp [vecMapSpec]
  | cons x xs ih =>
    intro done o h
    match o with
    | [] => simp [vecMapSpec] at h
    | .panic :: o => simp [vecMapSpec] at h
    | .ret id :: o =>
      simp only [vecMapSpec] at h ⊢
      have := ih (done ++ [id]) o h
      simp at this ⊢; omega

/-- after a panic nothing is left in the owner -/
theorem vecMapSpec_final_panic (usFirst : Bool) (xs : List Id) : ∀ (done : List Id) (o : List Outcome) (d : Bool),
    (vecMapSpec usFirst done xs o).exit = .panic d → (vecMapSpec usFirst done xs o).final = [] := by
  induction xs with
  | nil => intro done o d h; simp [vecMapSpec] at h
  | cons x xs ih =>
    intro done o d h
    match o with
    | [] => simp [vecMapSpec]
    | .panic :: o => simp [vecMapSpec]
    | .ret id :: o =>
      simp only [vecMapSpec] at h ⊢
      exact ih (done ++ [id]) o d h

/-- a closure that never panics: one result per element, in order -/
theorem vecMapSpec_rets (usFirst : Bool) (xs : List Id) : ∀ (done ids : List Id) (o : List Outcome), ids.length = xs.length →
    vecMapSpec usFirst done xs (rets ids ++ o) = { final := done ++ ids, escaped := xs, exit := .ret (), rest := o } := by
  induction xs with
  | nil =>
    intro done ids o h
    have : ids = [] := List.eq_nil_of_length_eq_zero (by simpa using h)
    subst this
    simp [vecMapSpec, rets]
  | cons x xs ih =>
    intro done ids o h
    match ids, h with
    | id :: ids, h =>
      simp only [List.length_cons, Nat.add_right_cancel_iff] at h
      simp only [rets, List.map_cons, List.cons_append, vecMapSpec]
      have := ih (done ++ [id]) ids o h
      simp only [rets] at this
      rw [this]; simp
