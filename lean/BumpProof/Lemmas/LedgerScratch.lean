import BumpProof.Lemmas.LedgerFail
set_option linter.unusedSimpArgs false
set_option linter.unusedVariables false
namespace Ledger
open Arena Rs

/-- the slow path with a refusing base allocator, when no existing chunk has room: an error value -/
theorem inAnotherChunk_fail {cfg : Cfg} {k : Kind} {s : State} {L : Layout} {h : Hints} {rest : List BaseResp}
    (hH : Spec.HeaderOK cfg.hdr) (hmin : cfg.minChunk < 2^64) (hL : L.Valid)
    (hr : s.resps = .fail :: rest)
    (hw : ∀ i, s.cur = .chunk i → i < s.chunks.length ∧
      ∃ s1, walkNext cfg k L h (s.chunks.length - (i+1)) i s = .ok (none, s1)) :
    ∃ s' e, inAnotherChunk cfg k s L h = .ok (s', .error e) := by
  rw [inAnotherChunk_eq]
  obtain ⟨cu, hcur⟩ : ∃ cu, s.cur = cu := ⟨_, rfl⟩
  cases cu with
  | claimed => simp only [hcur]; exact ⟨_, _, rfl⟩
  | unallocated =>
    simp only [hcur]
    obtain ⟨s1, e1, h1⟩ := newChunkForCapacity_fail (s := s) (L := L) hH hmin hL hr
    rw [h1]
    exact ⟨_, _, rfl⟩
  | chunk i =>
    simp only [hcur]
    obtain ⟨hi, s1, h1⟩ := hw i hcur
    rw [h1]
    simp only [bind_ok]
    obtain ⟨w1, w2, w3, _⟩ := walkNext_frame _ _ _ h1
    have hne : s1.chunks ≠ [] := by
      intro h0
      rw [h0] at w3
      simp only [List.length_nil] at w3
      omega
    obtain ⟨s2, e2, h2⟩ := appendFor_fail (s := s1) (L := L) hH hmin hL hne (w2.trans hr)
    rw [h2]
    exact ⟨_, _, rfl⟩

theorem allocGeneric_fail {cfg : Cfg} {k : Kind} {s : State} {L : Layout} {h hs : Hints} {rest : List BaseResp}
    (hH : Spec.HeaderOK cfg.hdr) (hmin : cfg.minChunk < 2^64) (hL : L.Valid)
    (hr : s.resps = .fail :: rest)
    (hfast : tryCur cfg k s L h = .ok none)
    (hw : ∀ i, s.cur = .chunk i → i < s.chunks.length ∧
      ∃ s1, walkNext cfg k L hs (s.chunks.length - (i+1)) i s = .ok (none, s1)) :
    ∃ s' e, allocGeneric cfg k s L h hs = .ok (s', .error e) := by
  unfold allocGeneric
  rw [hfast]
  exact inAnotherChunk_fail hH hmin hL hr hw

theorem alloc_fail {cfg : Cfg} {s : State} {L : Layout} {rest : List BaseResp}
    (hH : Spec.HeaderOK cfg.hdr) (hmin : cfg.minChunk < 2^64) (hL : L.Valid)
    (hr : s.resps = .fail :: rest)
    (hfast : tryCur cfg .alloc s L Hints.custom = .ok none)
    (hw : ∀ i, s.cur = .chunk i → i < s.chunks.length ∧
      ∃ s1, walkNext cfg .alloc L Hints.custom (s.chunks.length - (i+1)) i s = .ok (none, s1)) :
    ∃ s' e, alloc cfg s L = .ok (s', .error e) := by
  unfold alloc
  obtain ⟨s', e, h1⟩ := allocGeneric_fail (hs := Hints.custom) hH hmin hL hr hfast hw
  rw [h1]
  exact ⟨_, _, rfl⟩

/-- a size of at most `isize::MAX` with alignment 1 is a valid layout -/
theorem valid_of_layoutOk {n : Nat} (h : layoutOk n 1 = true) : ({ size := n, align := 1 } : Layout).Valid := by
  unfold layoutOk at h
  exact ⟨⟨0, by decide, rfl⟩, of_decide_eq_true h⟩

/-- `reserve` with a refusing base allocator never faults; if it reports success nothing was needed
    and nothing changed -/
theorem reserve_fail {cfg : Cfg} {s : State} {add : Nat} {rest : List BaseResp}
    (hH : Spec.HeaderOK cfg.hdr) (hmin : cfg.minChunk < 2^64)
    (hr : s.resps = .fail :: rest)
    (hi : ∀ i, s.cur = .chunk i → i < s.chunks.length) :
    ∃ s' r, reserve cfg s add = .ok (s', r) ∧ (r = .ok () → s' = s) := by
  unfold reserve
  obtain ⟨cu, hcur⟩ : ∃ cu, s.cur = cu := ⟨_, rfl⟩
  cases cu with
  | claimed => simp only [hcur]; exact ⟨_, _, rfl, fun _ => rfl⟩
  | unallocated =>
    simp only [hcur]
    cases hl : layoutOk add 1 with
    | false => simp only [Bool.not_false, ↓reduceIte]; exact ⟨_, _, rfl, fun _ => rfl⟩
    | true =>
      simp only [Bool.not_true, Bool.false_eq_true, ↓reduceIte]
      obtain ⟨s1, e1, h1⟩ := newChunkForCapacity_fail (s := s) hH hmin (valid_of_layoutOk hl) hr
      rw [h1]
      exact ⟨_, _, rfl, fun h => by cases h⟩
  | chunk i =>
    simp only [hcur]
    have hlt := hi i hcur
    rw [List.getElem?_eq_getElem hlt]
    simp only
    cases Rs.checked_sub add (s.chunks[i].remaining cfg) with
    | none => exact ⟨_, _, rfl, fun _ => rfl⟩
    | some r1 =>
      simp only
      cases walkReserve cfg s.chunks (s.chunks.length - (i + 1)) i r1 with
      | none => exact ⟨_, _, rfl, fun _ => rfl⟩
      | some r2 =>
        simp only
        by_cases h0 : r2 = 0
        · simp only [h0, ↓reduceIte]; exact ⟨_, _, rfl, fun _ => rfl⟩
        · simp only [h0, ↓reduceIte]
          cases hl : layoutOk r2 1 with
          | false => simp only [Bool.not_false, ↓reduceIte]; exact ⟨_, _, rfl, fun _ => rfl⟩
          | true =>
            simp only [Bool.not_true, Bool.false_eq_true, ↓reduceIte]
            have hne : s.chunks ≠ [] := by
              intro h0; rw [h0] at hlt; simp only [List.length_nil] at hlt; omega
            obtain ⟨s1, e1, h1⟩ := appendFor_fail (s := s) hH hmin (valid_of_layoutOk hl) hne hr
            rw [h1]
            exact ⟨_, _, rfl, fun h => by cases h⟩

end Ledger
