import BumpProof.Lemmas.LedgerReplay
set_option linter.unusedSimpArgs false
set_option linter.unusedVariables false
namespace Ledger
open Arena Rs

theorem resetPos_samePlace (cfg : Cfg) {c c' : Chunk} (h : SamePlace c c') :
    SamePlace (c.resetPos cfg) (c'.resetPos cfg) ∧ (c'.resetPos cfg).pos = (c.resetPos cfg).pos := by
  refine ⟨h, ?_⟩
  show (if cfg.up then c'.contentStart cfg else c'.contentEnd cfg) = (if cfg.up then c.contentStart cfg else c.contentEnd cfg)
  rw [contentStart_congr cfg h, contentEnd_congr cfg h]

/-- entering chunk `i+1` in two states of which the second covers the first -/
theorem Sim.enter (cfg : Cfg) {s t : State} {i : Nat} {c c' : Chunk} (h : Cov s t)
    (hc : s.chunks[i+1]? = some c) (hc' : t.chunks[i+1]? = some c') (sp : SamePlace c c') :
    Sim { s with chunks := s.chunks.set (i+1) (c.resetPos cfg), cur := .chunk (i+1) }
        { t with chunks := t.chunks.set (i+1) (c'.resetPos cfg), cur := .chunk (i+1) } := by
  obtain ⟨hm, hcov⟩ := h
  have hls := (List.getElem?_eq_some_iff.1 hc).1
  have hlt := (List.getElem?_eq_some_iff.1 hc').1
  refine ⟨⟨hm, ?_⟩, rfl, ?_⟩
  · intro j x hx
    show ∃ y, (t.chunks.set (i+1) (c'.resetPos cfg))[j]? = some y ∧ _
    have hx' : (s.chunks.set (i+1) (c.resetPos cfg))[j]? = some x := hx
    rw [List.getElem?_set] at hx' ⊢
    by_cases hij : i + 1 = j
    · simp only [hij, ↓reduceIte] at hx' ⊢
      subst hij
      simp only [hls, hlt, ↓reduceIte, Option.some.injEq] at hx' ⊢
      subst hx'
      exact ⟨_, rfl, (resetPos_samePlace cfg sp).1⟩
    · simp only [hij, ↓reduceIte] at hx' ⊢
      exact hcov j x hx'
  · intro i' x hi' hx
    simp only [Cur.chunk.injEq] at hi'
    subst hi'
    have hx' : (s.chunks.set (i+1) (c.resetPos cfg))[i+1]? = some x := hx
    show ∃ y, (t.chunks.set (i+1) (c'.resetPos cfg))[i+1]? = some y ∧ _
    rw [List.getElem?_set] at hx' ⊢
    simp only [↓reduceIte, hls, hlt, Option.some.injEq] at hx' ⊢
    subst hx'
    exact ⟨_, rfl, (resetPos_samePlace cfg sp).2⟩

theorem CovC.set_reset (cfg : Cfg) {l : List Chunk} {j : Nat} {c : Chunk} (hc : l[j]? = some c) :
    CovC l (l.set j (c.resetPos cfg)) := by
  intro k x hx
  rw [List.getElem?_set]
  have hl := (List.getElem?_eq_some_iff.1 hc).1
  by_cases hjk : j = k
  · subst hjk
    rw [hc] at hx; cases hx
    simp only [↓reduceIte, hl]
    exact ⟨_, rfl, SamePlace.refl _⟩
  · simp only [hjk, ↓reduceIte]
    exact ⟨x, hx, SamePlace.refl x⟩

/-- `walkNext` in a state `t` that covers `s` takes the same decisions as in `s` for all chunks of `s`:
    (a) if it finds room in `s` it finds the same room in `t`;
    (b) if it finds none in `s`, the walk in `t` continues behind the chunks of `s`. -/
theorem walkNext_mirror {cfg : Cfg} {k : Kind} {L : Layout} {hh : Hints} :
    ∀ (n i : Nat) (s t : State) (ft : Nat), Cov s t → s.chunks.length = i + 1 + n → n ≤ ft →
    (∀ v s' s2, walkNext cfg k L hh n i s = .ok (some (v, s'), s2) →
      ∃ t', walkNext cfg k L hh ft i t = .ok (some (v, t'), t') ∧ Sim s' t' ∧ t'.reqs = t.reqs ∧
        t'.resps = t.resps ∧ CovC t.chunks t'.chunks ∧ t'.chunks.length = t.chunks.length) ∧
    (∀ s', walkNext cfg k L hh n i s = .ok (none, s') →
      ∃ t', walkNext cfg k L hh ft i t = walkNext cfg k L hh (ft - n) (i + n) t' ∧ Cov s' t' ∧ t'.reqs = t.reqs ∧
        t'.resps = t.resps ∧ CovC t.chunks t'.chunks ∧ t'.chunks.length = t.chunks.length) := by
  intro n
  induction n with
  | zero =>
    intro i s t ft hcov hlen hft
    refine ⟨fun v s' s2 e => ?_, fun s' e => ?_⟩
    · simp only [walkNext, pure_eq_ok, Except.ok.injEq, Prod.mk.injEq] at e
      cases e.1
    · simp only [walkNext, pure_eq_ok, Except.ok.injEq, Prod.mk.injEq] at e
      obtain ⟨_, rfl⟩ := e
      exact ⟨t, rfl, hcov, rfl, rfl, CovC.refl _, rfl⟩
  | succ n ih =>
    intro i s t ft hcov hlen hft
    obtain ⟨ft', rfl⟩ : ∃ ft', ft = ft' + 1 := ⟨ft - 1, by omega⟩
    have hi1 : i + 1 < s.chunks.length := by omega
    have hc : s.chunks[i+1]? = some s.chunks[i+1] := List.getElem?_eq_getElem hi1
    obtain ⟨c', hc', sp⟩ := hcov.2 (i+1) _ hc
    have hsim := Sim.enter cfg hcov hc hc' sp
    have hok : CurOK { s with chunks := s.chunks.set (i+1) ((s.chunks[i+1]).resetPos cfg), cur := Cur.chunk (i+1) } := by
      intro j hj
      simp only [Cur.chunk.injEq] at hj
      subst hj
      show i + 1 < (s.chunks.set (i+1) _).length
      rw [List.length_set]; exact hi1
    obtain ⟨m1, m2⟩ := tryCur_mirror (cfg := cfg) (k := k) (L := L) (hh := hh) hsim hok
    have hcovt : CovC t.chunks (t.chunks.set (i+1) (c'.resetPos cfg)) := CovC.set_reset cfg hc'
    have hlent : (t.chunks.set (i+1) (c'.resetPos cfg)).length = t.chunks.length := List.length_set
    refine ⟨fun v s' s2 e => ?_, fun s' e => ?_⟩
    · unfold walkNext at e ⊢
      simp only [hc, hc'] at e ⊢
      obtain ⟨o, ho, e⟩ := bind_eq_ok e
      cases o with
      | some r =>
        simp only [pure_eq_ok, Except.ok.injEq, Prod.mk.injEq, Option.some.injEq] at e
        obtain ⟨rfl, rfl⟩ := e
        obtain ⟨t', ht', g1, g2, g3, g4, g5⟩ := m2 v s' ho
        refine ⟨t', ?_, g1, g2, g3, hcovt.trans g4, g5.trans hlent⟩
        rw [ht']; rfl
      | none =>
        simp only at e
        rw [m1 ho]
        simp only [bind_ok]
        have hlen' : ({ s with chunks := s.chunks.set (i+1) ((s.chunks[i+1]).resetPos cfg), cur := Cur.chunk (i+1) } : State).chunks.length
            = (i + 1) + 1 + n := by
          show (s.chunks.set (i+1) _).length = _
          rw [List.length_set]; omega
        obtain ⟨a1, _⟩ := ih (i+1) _ _ ft' hsim.1 hlen' (by omega)
        obtain ⟨t', ht', g1, g2, g3, g4, g5⟩ := a1 v s' s2 e
        exact ⟨t', ht', g1, g2, g3, hcovt.trans g4, g5.trans hlent⟩
    · unfold walkNext at e
      simp only [hc] at e
      obtain ⟨o, ho, e⟩ := bind_eq_ok e
      cases o with
      | some r =>
        simp only [pure_eq_ok, Except.ok.injEq, Prod.mk.injEq] at e
        cases e.1
      | none =>
        simp only at e
        have hlen' : ({ s with chunks := s.chunks.set (i+1) ((s.chunks[i+1]).resetPos cfg), cur := Cur.chunk (i+1) } : State).chunks.length
            = (i + 1) + 1 + n := by
          show (s.chunks.set (i+1) _).length = _
          rw [List.length_set]; omega
        obtain ⟨_, a2⟩ := ih (i+1) _ _ ft' hsim.1 hlen' (by omega)
        obtain ⟨t', ht', g1, g2, g3, g4, g5⟩ := a2 s' e
        refine ⟨t', ?_, g1, g2, g3, hcovt.trans g4, g5.trans hlent⟩
        have e1 : ft' + 1 - (n + 1) = ft' - n := by omega
        have e2 : i + (n + 1) = i + 1 + n := by omega
        rw [e1, e2, ← ht']
        conv => lhs; unfold walkNext
        simp only [hc', m1 ho, bind_ok]

end Ledger
