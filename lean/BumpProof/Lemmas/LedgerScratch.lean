import BumpProof.Lemmas.LedgerAlloc
set_option linter.unusedSimpArgs false
set_option linter.unusedVariables false
namespace Ledger
open Arena Rs

theorem SlowFrame.map {cfg : Cfg} {s s' : State} {α β : Type} {r : Except AErr α} (f : α → β)
    (h : SlowFrame cfg s s' r) : SlowFrame cfg s s' (r.map f) :=
  ⟨h.ext, h.reqs, h.resps, fun e he => (by
    cases r with
    | error e' => simp only [Except.map, Except.error.injEq] at he; subst he; exact h.err e' rfl
    | ok v => simp only [Except.map] at he; cases he), h.claimed⟩

/-- the state was not changed at all -/
theorem SlowFrame.same (cfg : Cfg) (s : State) {α : Type} {r : Except AErr α}
    (h : ∀ e, r = .error e → e ≠ .alloc ∧ (e = .claimed ↔ s.cur = .claimed)) : SlowFrame cfg s s r :=
  ⟨fun n _ => Ext.refl n s, Or.inl rfl, Or.inl rfl,
   fun e he => ⟨rfl, CurAdv.refl s, fun _ => ⟨rfl, rfl⟩, (h e he).2⟩, fun _ => rfl⟩

/-- frame of `allocGeneric` (fast path, then slow path), for every outcome -/
theorem allocGeneric_frame {cfg : Cfg} {k : Kind} {s : State} {L : Layout} {h hs : Hints}
    {s' : State} {r : Except AErr (Nat × Nat)}
    (e : allocGeneric cfg k s L h hs = .ok (s', r)) :
    (∀ n, (∀ i, s.cur = .chunk i → n ≤ i) → Ext n s s') ∧
    (s'.reqs = s.reqs ∨ ∃ size, s'.reqs = s.reqs ++ [BaseReq.alloc size cfg.hdr.align]) ∧
    (s'.resps = s.resps ∨ ∃ x, s.resps = x :: s'.resps) ∧
    (∀ er, r = .error er → tryCur cfg k s L h = .ok none ∧ SlowFrame cfg s s' r) := by
  unfold allocGeneric at e
  obtain ⟨t, ht, e⟩ := bind_eq_ok e
  cases t with
  | some x =>
    obtain ⟨v, s2⟩ := x
    simp only [pure_eq_ok, Except.ok.injEq, Prod.mk.injEq] at e
    obtain ⟨rfl, rfl⟩ := e
    obtain ⟨f1, f2, f3, f4, f5⟩ := tryCur_frame ht
    exact ⟨f5, Or.inl f2, Or.inl f3, fun er he => by cases he⟩
  | none =>
    simp only at e
    have hf := inAnotherChunk_frame e
    exact ⟨fun n hn => hf.ext n (fun i hi => Nat.le_succ_of_le (hn i hi)), hf.reqs, hf.resps,
      fun er _ => ⟨ht, hf⟩⟩

theorem alloc_frame {cfg : Cfg} {s : State} {L : Layout} {s' : State} {r : Except AErr Nat}
    (e : alloc cfg s L = .ok (s', r)) :
    (∀ n, (∀ i, s.cur = .chunk i → n ≤ i) → Ext n s s') ∧
    (s'.reqs = s.reqs ∨ ∃ size, s'.reqs = s.reqs ++ [BaseReq.alloc size cfg.hdr.align]) ∧
    (s'.resps = s.resps ∨ ∃ x, s.resps = x :: s'.resps) ∧
    (∀ er, r = .error er → tryCur cfg .alloc s L Hints.custom = .ok none ∧ SlowFrame cfg s s' r) := by
  unfold alloc at e
  obtain ⟨⟨s1, r1⟩, h1, e⟩ := bind_eq_ok e
  simp only [pure_eq_ok, Except.ok.injEq, Prod.mk.injEq] at e
  obtain ⟨rfl, rfl⟩ := e
  obtain ⟨a1, a2, a3, a4⟩ := allocGeneric_frame h1
  refine ⟨a1, a2, a3, fun er he => ?_⟩
  cases r1 with
  | ok v => simp only [Except.map] at he; cases he
  | error e1 =>
    obtain ⟨b1, b2⟩ := a4 e1 rfl
    exact ⟨b1, b2.map _⟩

end Ledger
