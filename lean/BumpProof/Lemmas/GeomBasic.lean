/-
  Lemmas/GeomBasic.lean — basic facts for the geometry invariant: the small generated
  helpers of `Gen.LibArith`, sums, consequences of `ChunkWF`, position updates.
-/
import BumpProof.Arena.Inv
import BumpProof.Lemmas.RsOps
import BumpProof.Lemmas.SizeSpec

set_option linter.unusedSimpArgs false
set_option linter.unusedVariables false

namespace Arena
open Rs Lemmas

/-! ## `R` monad plumbing -/

theorem liftM_ok {α : Type} (v : α) : Arena.liftM (Except.ok v : Rs.M α) = .ok v := id rfl

theorem r_ok_bind {α β : Type} (a : α) (f : α → Arena.R β) : (Except.ok a >>= f) = f a := id rfl

theorem r_pure {α : Type} (a : α) : (pure a : Arena.R α) = .ok a := id rfl

theorem liftM_eq_ok {α : Type} {x : Rs.M α} {v : α} (h : Arena.liftM x = .ok v) : x = .ok v := by
  cases x with
  | ok w => simp only [Arena.liftM] at h; injection h with h; rw [h]
  | error e => simp only [Arena.liftM] at h; cases h

theorem bind_eq_ok {α β : Type} {x : Arena.R α} {f : α → Arena.R β} {b : β}
    (h : (x >>= f) = .ok b) : ∃ a, x = .ok a ∧ f a = .ok b := by
  cases x with
  | ok a => exact ⟨a, rfl, h⟩
  | error e => cases h

/-! ## Minimum alignments -/

theorem MinAlignOK.p2 {m : Nat} (h : MinAlignOK m) : P2 m := by
  rcases h with h | h | h | h | h <;> rw [h]
  · exact ⟨0, rfl⟩
  · exact ⟨1, rfl⟩
  · exact ⟨2, rfl⟩
  · exact ⟨3, rfl⟩
  · exact ⟨4, rfl⟩

theorem MinAlignOK.le {m : Nat} (h : MinAlignOK m) : m ≤ 16 := by
  rcases h with h | h | h | h | h <;> omega

theorem MinAlignOK.pos {m : Nat} (h : MinAlignOK m) : 0 < m := by
  rcases h with h | h | h | h | h <;> omega

theorem MinAlignOK.dvd16 {m : Nat} (h : MinAlignOK m) : m ∣ 16 := by
  rcases h with h | h | h | h | h <;> rw [h] <;> decide

theorem MinAlignOK.dvd_of_16 {m x : Nat} (h : MinAlignOK m) (hx : 16 ∣ x) : m ∣ x :=
  Nat.dvd_trans h.dvd16 hx

theorem MinAlignOK.lt64 {m : Nat} (h : MinAlignOK m) : m < 2 ^ 64 := by
  have := h.le; rw [two_pow_64]; omega

/-! ## The generated helpers of `src/lib.rs` -/

theorem down_align_usize_eq {x a : Nat} (ha : P2 a) (ha64 : a < 2 ^ 64) (hx : x < 2 ^ 64) :
    Gen.LibArith.down_align_usize x a = .ok (Spec.downAlign x a) := by
  unfold Gen.LibArith.down_align_usize
  rw [assert_ok ha.is_power_of_two, ok_bind, sub_one_ok ha.pos, ok_bind]
  show Except.ok _ = _
  rw [ha.band_bnot ha64 hx]

theorem up_align_usize_unchecked_eq {x a : Nat} (ha : P2 a) (ha64 : a < 2 ^ 64) (hx : x + (a - 1) < 2 ^ 64) :
    Gen.LibArith.up_align_usize_unchecked x a = .ok (Spec.upAlign x a) := by
  unfold Gen.LibArith.up_align_usize_unchecked
  have hle : x + (a - 1) ≤ Rs.MAX := by rw [MAX_eq]; rw [two_pow_64] at hx; omega
  simp only [assert_ok ha.is_power_of_two, ok_bind, sub_one_ok ha.pos, add_ok hle]
  show Except.ok _ = _
  rw [ha.band_bnot ha64 hx, upAlign_eq_downAlign]

theorem lib_bump_down_eq {x sz a : Nat} (ha : P2 a) (ha64 : a < 2 ^ 64) (hx : x < 2 ^ 64) :
    Gen.LibArith.bump_down x sz a = .ok (Spec.downAlign (x - sz) a) := by
  unfold Gen.LibArith.bump_down Rs.saturating_sub
  rw [down_align_usize_eq ha ha64 (by omega)]

/-- `align_pos` as a wide-integer function -/
def alignPos (up : Bool) (m x : Nat) : Nat := if up then Spec.upAlign x m else Spec.downAlign x m

theorem align_pos_eq {up : Bool} {m x : Nat} (hm : P2 m) (hm64 : m < 2 ^ 64)
    (hx : if up then x + (m - 1) < 2 ^ 64 else x < 2 ^ 64) :
    Gen.LibArith.align_pos up m x = .ok (alignPos up m x) := by
  unfold Gen.LibArith.align_pos alignPos
  cases up
  · simp only [Bool.false_eq_true, ↓reduceIte] at hx ⊢
    rw [down_align_usize_eq hm hm64 hx]
  · simp only [↓reduceIte] at hx ⊢
    rw [up_align_usize_unchecked_eq hm hm64 hx]

theorem alignPos_dvd (up : Bool) (m x : Nat) : m ∣ alignPos up m x := by
  unfold alignPos; split
  · exact upAlign_dvd x m
  · exact downAlign_dvd x m

theorem alignPos_eq_self {up : Bool} {m x : Nat} (hm : 0 < m) (h : m ∣ x) : alignPos up m x = x := by
  unfold alignPos; split
  · exact upAlign_eq_self hm h
  · exact downAlign_eq_self h

/-- aligning a position inside `[lo, hi]` whose bounds are both aligned stays inside -/
theorem alignPos_mem {up : Bool} {m x lo hi : Nat} (hm : 0 < m) (hlo : m ∣ lo) (hhi : m ∣ hi)
    (h1 : lo ≤ x) (h2 : x ≤ hi) : lo ≤ alignPos up m x ∧ alignPos up m x ≤ hi := by
  unfold alignPos; split
  · exact ⟨Nat.le_trans h1 (le_upAlign x hm), upAlign_le_of_dvd hm hhi h2⟩
  · exact ⟨le_downAlign_of_dvd hm hlo h1, Nat.le_trans (downAlign_le x m) h2⟩

/-- direction: aligning never moves the position to the free side's wrong direction -/
theorem alignPos_dir {up : Bool} {m x : Nat} (hm : 0 < m) :
    if up then x ≤ alignPos up m x else alignPos up m x ≤ x := by
  unfold alignPos; cases up
  · simp only [Bool.false_eq_true, ↓reduceIte]; exact downAlign_le x m
  · simp only [↓reduceIte]; exact le_upAlign x hm

/-! ## Sums as the model writes them -/

theorem foldl_add_init (l : List Nat) (a : Nat) :
    l.foldl (· + ·) a = a + l.foldl (· + ·) 0 := by
  induction l generalizing a with
  | nil => rfl
  | cons x xs ih =>
    simp only [List.foldl_cons]
    rw [ih (a + x), ih (0 + x)]
    omega

theorem foldl_add_cons (x : Nat) (l : List Nat) :
    (x :: l).foldl (· + ·) 0 = x + l.foldl (· + ·) 0 := by
  simp only [List.foldl_cons]
  rw [foldl_add_init]
  omega

theorem foldl_add_append (l1 l2 : List Nat) :
    (l1 ++ l2).foldl (· + ·) 0 = l1.foldl (· + ·) 0 + l2.foldl (· + ·) 0 := by
  rw [List.foldl_append, foldl_add_init]

/-- pointwise `≤` lifts to the sums -/
theorem foldl_add_le {α : Type} (l : List α) (f g : α → Nat) (h : ∀ x ∈ l, f x ≤ g x) :
    (l.map f).foldl (· + ·) 0 ≤ (l.map g).foldl (· + ·) 0 := by
  induction l with
  | nil => exact Nat.le_refl _
  | cons x xs ih =>
    simp only [List.map_cons]
    rw [foldl_add_cons, foldl_add_cons]
    have h1 := h x (List.mem_cons_self)
    have h2 := ih (fun y hy => h y (List.mem_cons_of_mem x hy))
    omega

/-- splitting a list at a position -/
theorem split_at {α : Type} (l : List α) (i : Nat) (c : α) (h : l[i]? = some c) :
    l = l.take i ++ c :: l.drop (i + 1) := by
  induction l generalizing i with
  | nil => simp at h
  | cons x xs ih =>
    cases i with
    | zero => simp at h; simp [h]
    | succ n =>
      simp only [List.getElem?_cons_succ] at h
      simp only [List.take_succ_cons, List.drop_succ_cons, List.cons_append]
      rw [← ih n h]

/-! ## Header facts -/

theorem hdr_p2 {cfg : Cfg} (hc : CfgOK cfg) : P2 cfg.hdr.align := by
  obtain ⟨j, _, _, hj⟩ := hc.hdr.pow; exact ⟨j, hj⟩

theorem hdr_16 {cfg : Cfg} (hc : CfgOK cfg) : 16 ∣ cfg.hdr.align := by
  obtain ⟨j, h4, _, hj⟩ := hc.hdr.pow
  rw [hj]; exact Nat.pow_dvd_pow 2 h4

theorem hdr_size_16 {cfg : Cfg} (hc : CfgOK cfg) : 16 ∣ cfg.hdr.size :=
  Nat.dvd_trans (hdr_16 hc) hc.hdr.dvd

theorem hdr_pos {cfg : Cfg} (hc : CfgOK cfg) : 0 < cfg.hdr.align := (hdr_p2 hc).pos

theorem hdr_lt64 {cfg : Cfg} (hc : CfgOK cfg) : cfg.hdr.align < 2 ^ 64 := by
  obtain ⟨j, _, h16, hj⟩ := hc.hdr.pow
  rw [hj]; exact Nat.pow_lt_pow_right (by decide) (by omega)

/-! ## Consequences of `ChunkWF` -/

section chunk
variable {cfg : Cfg} {c : Chunk}

theorem ChunkWF.base16 (hc : CfgOK cfg) (h : ChunkWF cfg c) : 16 ∣ c.base :=
  Nat.dvd_trans (hdr_16 hc) h.base_al

theorem ChunkWF.start16 (hc : CfgOK cfg) (h : ChunkWF cfg c) : 16 ∣ c.contentStart cfg := by
  unfold Chunk.contentStart
  have h1 := h.base16 hc
  have h2 := hdr_size_16 hc
  split <;> omega

theorem ChunkWF.end16 (hc : CfgOK cfg) (h : ChunkWF cfg c) : 16 ∣ c.contentEnd cfg := by
  unfold Chunk.contentEnd
  have h1 := h.base16 hc
  have h2 := hdr_size_16 hc
  have h3 := h.size16
  have h4 := h.hdr_le
  split <;> omega

theorem ChunkWF.start_le_end (h : ChunkWF cfg c) : c.contentStart cfg ≤ c.contentEnd cfg :=
  Nat.le_trans h.pos_ge h.pos_le

theorem ChunkWF.base_le_start (h : ChunkWF cfg c) : c.base ≤ c.contentStart cfg := by
  unfold Chunk.contentStart; split <;> omega

theorem ChunkWF.end_le (h : ChunkWF cfg c) : c.contentEnd cfg ≤ c.base + c.size := by
  unfold Chunk.contentEnd; split <;> omega

theorem ChunkWF.start_pos (h : ChunkWF cfg c) : 0 < c.contentStart cfg := by
  have := h.base_le_start; have := h.base_ne; omega

theorem ChunkWF.end_lt64 (h : ChunkWF cfg c) : c.contentEnd cfg < 2 ^ 64 := by
  have := h.end_le; have := h.end_lt; omega

theorem ChunkWF.cap_le (h : ChunkWF cfg c) : c.contentEnd cfg - c.contentStart cfg ≤ c.size := by
  have := h.end_le; have := h.base_le_start; omega

/-- the two ends of the content range in closed form -/
theorem ChunkWF.cap_add (h : ChunkWF cfg c) : c.capacity cfg + cfg.hdr.size = c.size := by
  unfold Chunk.capacity Chunk.contentEnd Chunk.contentStart
  have := h.hdr_le
  split <;> omega

/-- changing the position keeps a chunk well formed as long as it stays in the content range -/
theorem ChunkWF.withPos (h : ChunkWF cfg c) {p : Nat} (h1 : c.contentStart cfg ≤ p) (h2 : p ≤ c.contentEnd cfg) :
    ChunkWF cfg { c with pos := p } :=
  { h with pos_ge := h1, pos_le := h2 }

theorem ChunkWF.resetPos (h : ChunkWF cfg c) : ChunkWF cfg (c.resetPos cfg) := by
  unfold Chunk.resetPos
  apply h.withPos
  · split
    · exact Nat.le_refl _
    · exact h.start_le_end
  · split
    · exact h.start_le_end
    · exact Nat.le_refl _

theorem resetPos_pos16 (hc : CfgOK cfg) (h : ChunkWF cfg c) : 16 ∣ (c.resetPos cfg).pos := by
  unfold Chunk.resetPos
  show 16 ∣ (if cfg.up then _ else _)
  split
  · exact h.start16 hc
  · exact h.end16 hc

theorem ChunkWF.withData (h : ChunkWF cfg c) {d : Array UInt8} (hd : d.size = c.data.size) :
    ChunkWF cfg { c with data := d } :=
  { h with data := by show d.size = c.size; rw [hd]; exact h.data }

end chunk

/-! ## Position updates -/

section state
variable {cfg : Cfg} {s : State}

theorem setPos_getElem? (s : State) (i p j : Nat) :
    (setPos s i p).chunks[j]? = if i = j then (s.chunks[j]?).map (fun c => { c with pos := p }) else s.chunks[j]? := by
  unfold setPos
  simp only [List.getElem?_modify]
  split
  · cases s.chunks[j]? <;> simp [*]
  · cases s.chunks[j]? <;> simp [*]

theorem setPos_cur (s : State) (i p : Nat) : (setPos s i p).cur = s.cur := rfl
theorem setPos_minAlign (s : State) (i p : Nat) : (setPos s i p).minAlign = s.minAlign := rfl
theorem setPos_resps (s : State) (i p : Nat) : (setPos s i p).resps = s.resps := rfl
theorem setPos_length (s : State) (i p : Nat) : (setPos s i p).chunks.length = s.chunks.length := by
  unfold setPos; simp only [List.length_modify]

/-- the workhorse: moving the position of chunk `i` inside its content range to an address that is
    aligned (if the chunk is the current one) preserves the invariant -/
theorem GeomInv.setPos (h : GeomInv cfg s) {i p : Nat} {c : Chunk} (hi : s.chunks[i]? = some c)
    (h1 : c.contentStart cfg ≤ p) (h2 : p ≤ c.contentEnd cfg) (h3 : s.cur = .chunk i → s.minAlign ∣ p) :
    GeomInv cfg (Arena.setPos s i p) := by
  refine ⟨?_, h.minAlign, ?_⟩
  · intro j d hj
    rw [setPos_getElem?] at hj
    split at hj
    · subst ‹i = j›
      rw [hi] at hj
      simp only [Option.map_some, Option.some.injEq] at hj
      subst hj
      exact (h.chunks i c hi).withPos h1 h2
    · exact h.chunks j d hj
  · intro j hj
    rw [setPos_cur] at hj
    obtain ⟨d, hd, hdiv⟩ := h.cur j hj
    rw [setPos_getElem?]
    split
    · subst ‹i = j›
      rw [hi]
      exact ⟨_, rfl, h3 hj⟩
    · exact ⟨d, hd, hdiv⟩

theorem GeomInv.setCurPos (h : GeomInv cfg s) {i p : Nat} {c : Chunk} (hcur : s.cur = .chunk i)
    (hi : s.chunks[i]? = some c)
    (h1 : c.contentStart cfg ≤ p) (h2 : p ≤ c.contentEnd cfg) (h3 : s.minAlign ∣ p) :
    GeomInv cfg (Arena.setCurPos s p) := by
  unfold Arena.setCurPos
  rw [hcur]
  exact h.setPos hi h1 h2 (fun _ => h3)

theorem setCurPos_cur (s : State) (p : Nat) : (setCurPos s p).cur = s.cur := by
  unfold setCurPos; split <;> rfl

theorem setCurPos_minAlign (s : State) (p : Nat) : (setCurPos s p).minAlign = s.minAlign := by
  unfold setCurPos; split <;> rfl

theorem setCurPos_resps (s : State) (p : Nat) : (setCurPos s p).resps = s.resps := by
  unfold setCurPos; split <;> rfl

theorem setCurPos_length (s : State) (p : Nat) : (setCurPos s p).chunks.length = s.chunks.length := by
  unfold setCurPos; split
  · exact setPos_length _ _ _
  · rfl

/-- position of the current chunk after `setCurPos` -/
theorem curPos_setCurPos {i : Nat} {c : Chunk} (hcur : s.cur = .chunk i) (hi : s.chunks[i]? = some c) (p : Nat) :
    curPos cfg (Arena.setCurPos s p) = p := by
  unfold Arena.setCurPos curPos
  rw [hcur]
  simp only [setPos_cur, hcur, setPos_getElem?, hi, ↓reduceIte, Option.map_some]

/-- the current chunk of a state that satisfies the invariant -/
theorem GeomInv.curChunk (h : GeomInv cfg s) {i : Nat} (hcur : s.cur = .chunk i) :
    ∃ c, s.chunks[i]? = some c ∧ ChunkWF cfg c ∧ s.minAlign ∣ c.pos := by
  obtain ⟨c, hc, hd⟩ := h.cur i hcur
  exact ⟨c, hc, h.chunks i c hc, hd⟩

theorem GeomInv.lt_length (h : GeomInv cfg s) {i : Nat} (hcur : s.cur = .chunk i) : i < s.chunks.length := by
  obtain ⟨c, hc, _⟩ := h.cur i hcur
  exact (List.getElem?_eq_some_iff.1 hc).1

end state

/-! ## Shapes: everything of a chunk except its position and the contents of its bytes -/

def Chunk.shape (c : Chunk) : Nat × Nat × Nat × Nat × Nat := (c.base, c.size, c.granted, c.reqSize, c.data.size)

/-- `s'` has the same chunks as `s` up to positions and byte contents -/
def SameShape (s s' : State) : Prop := s'.chunks.map Chunk.shape = s.chunks.map Chunk.shape

theorem SameShape.refl (s : State) : SameShape s s := rfl

theorem SameShape.trans {a b c : State} (h1 : SameShape a b) (h2 : SameShape b c) : SameShape a c :=
  Eq.trans h2 h1

theorem SameShape.length {s s' : State} (h : SameShape s s') : s'.chunks.length = s.chunks.length := by
  have := congrArg List.length h
  simpa only [List.length_map] using this

theorem SameShape.getElem? {s s' : State} (h : SameShape s s') (j : Nat) :
    (s'.chunks[j]?).map Chunk.shape = (s.chunks[j]?).map Chunk.shape := by
  rw [← List.getElem?_map, ← List.getElem?_map, h]

theorem SameShape.getLast? {s s' : State} (h : SameShape s s') :
    (s'.chunks.getLast?).map Chunk.shape = (s.chunks.getLast?).map Chunk.shape := by
  rw [← List.getLast?_map, ← List.getLast?_map, h]

theorem map_modify_of_eq {α β : Type} (l : List α) (i : Nat) (g : α → α) (f : α → β) (hfg : ∀ a, f (g a) = f a) :
    (l.modify i g).map f = l.map f := by
  apply List.ext_getElem?
  intro j
  simp only [List.getElem?_map, List.getElem?_modify]
  cases l[j]? with
  | none => rfl
  | some a => simp only [Option.map_some]; split <;> simp [hfg]

theorem setPos_shape (s : State) (i p : Nat) : SameShape s (setPos s i p) := by
  unfold SameShape setPos
  exact map_modify_of_eq _ _ _ _ (fun _ => rfl)

theorem setCurPos_shape (s : State) (p : Nat) : SameShape s (setCurPos s p) := by
  unfold setCurPos; split
  · exact setPos_shape _ _ _
  · exact SameShape.refl _

theorem SameShape.sizesIncreasing {s s' : State} (h : SameShape s s') (hs : SizesIncreasing s) : SizesIncreasing s' := by
  intro i a b ha hb
  have h1 := h.getElem? i
  have h2 := h.getElem? (i+1)
  rw [ha] at h1; rw [hb] at h2
  cases ha' : s.chunks[i]? with
  | none => rw [ha'] at h1; simp at h1
  | some a' =>
    cases hb' : s.chunks[i+1]? with
    | none => rw [hb'] at h2; simp at h2
    | some b' =>
      rw [ha'] at h1; rw [hb'] at h2
      simp only [Option.map_some, Option.some.injEq, Chunk.shape, Prod.mk.injEq] at h1 h2
      have := hs i a' b' ha' hb'
      omega

/-! ## Statistics -/

theorem stats_chunk {cfg : Cfg} {s : State} {i : Nat} {c : Chunk} (hcur : s.cur = .chunk i) (hi : s.chunks[i]? = some c) :
    stats cfg s =
      { count := s.chunks.length,
        size := (s.chunks.map (·.size)).foldl (· + ·) 0,
        capacity := (s.chunks.map (Chunk.capacity cfg)).foldl (· + ·) 0,
        allocated := c.allocated cfg + ((s.chunks.take i).map (Chunk.capacity cfg)).foldl (· + ·) 0,
        remaining := c.remaining cfg + ((s.chunks.drop (i+1)).map (Chunk.capacity cfg)).foldl (· + ·) 0 } := by
  unfold stats
  rw [hcur]
  simp only [hi]

theorem GeomInv.mem {cfg : Cfg} {s : State} (h : GeomInv cfg s) {c : Chunk} (hc : c ∈ s.chunks) : ChunkWF cfg c := by
  obtain ⟨i, hi⟩ := List.getElem?_of_mem hc
  exact h.chunks i c hi

theorem ChunkWF.alloc_add_rem {cfg : Cfg} {c : Chunk} (h : ChunkWF cfg c) :
    c.allocated cfg + c.remaining cfg = c.capacity cfg := by
  unfold Chunk.allocated Chunk.remaining Chunk.capacity
  have := h.pos_ge; have := h.pos_le
  split <;> omega

/-! ## Layouts -/

theorem _root_.Rs.Layout.Valid.p2 {L : Layout} (h : L.Valid) : P2 L.align := by
  obtain ⟨⟨k, _, hk⟩, _⟩ := h; exact ⟨k, hk⟩

theorem _root_.Rs.Layout.Valid.pos {L : Layout} (h : L.Valid) : 0 < L.align := h.p2.pos

theorem _root_.Rs.Layout.Valid.lt64 {L : Layout} (h : L.Valid) : L.align < 2 ^ 64 := by
  obtain ⟨⟨k, hk64, hk⟩, _⟩ := h
  rw [hk]; exact Nat.pow_lt_pow_right (by decide) hk64

theorem _root_.Rs.Layout.Valid.size_lt {L : Layout} (h : L.Valid) : L.size + (L.align - 1) < 2 ^ 63 := by
  have := h.2; rw [IMAX_eq] at this; omega

/-! ## The example states satisfy the invariant -/

theorem exCfg_ok : CfgOK exCfg :=
  ⟨⟨⟨4, by decide, by decide, by decide⟩, by decide, by decide, by decide⟩, Or.inr (Or.inr (Or.inr (Or.inl rfl))), by decide⟩

theorem exCfgDown_ok : CfgOK exCfgDown :=
  ⟨⟨⟨4, by decide, by decide, by decide⟩, by decide, by decide, by decide⟩, Or.inr (Or.inr (Or.inr (Or.inl rfl))), by decide⟩

theorem exChunk_wf : ChunkWF exCfg exChunk := by
  refine ⟨by decide, by decide, by decide, by decide, by decide, by decide, by decide, by decide, ?_, by decide, by decide, by decide⟩
  simp [exChunk]

theorem exChunk2_wf : ChunkWF exCfg exChunk2 := by
  refine ⟨by decide, by decide, by decide, by decide, by decide, by decide, by decide, by decide, ?_, by decide, by decide, by decide⟩
  simp [exChunk2]

theorem exChunkDown_wf : ChunkWF exCfgDown exChunkDown := by
  refine ⟨by decide, by decide, by decide, by decide, by decide, by decide, by decide, by decide, ?_, by decide, by decide, by decide⟩
  simp [exChunkDown]

theorem exState_inv : GeomInv exCfg exState := by
  refine ⟨?_, Or.inr (Or.inr (Or.inr (Or.inl rfl))), ?_⟩
  · intro i c hi
    match i, hi with
    | 0, hi => simp [exState] at hi; subst hi; exact exChunk_wf
    | 1, hi => simp [exState] at hi; subst hi; exact exChunk2_wf
    | n+2, hi => simp [exState] at hi
  · intro i hi
    simp [exState] at hi
    subst hi
    exact ⟨exChunk, rfl, by decide⟩

theorem exStateDown_inv : GeomInv exCfgDown exStateDown := by
  refine ⟨?_, Or.inr (Or.inr (Or.inr (Or.inl rfl))), ?_⟩
  · intro i c hi
    match i, hi with
    | 0, hi => simp [exStateDown, exState] at hi; subst hi; exact exChunkDown_wf
    | n+1, hi => simp [exStateDown, exState] at hi
  · intro i hi
    simp [exStateDown, exState] at hi
    subst hi
    exact ⟨exChunkDown, rfl, by decide⟩

theorem exStateUnalloc_inv : GeomInv exCfg exStateUnalloc := by
  refine ⟨?_, Or.inr (Or.inr (Or.inr (Or.inl rfl))), ?_⟩
  · intro i c hi; simp [exStateUnalloc, exState] at hi
  · intro i hi; simp [exStateUnalloc, exState] at hi

end Arena
