/-
  Lemmas/LifeInv.lean — the invariant relating the static environment of the region calculus
  (`Life/Calculus.lean`) to its dynamic state, and the structural lemmas about it (invalidation,
  removal).  Used by `Lemmas/LifeStep.lean` and `Props/C04.lean`.
-/
import BumpProof.Life.SigOK
import BumpProof.Lemmas.LifeList

namespace Life

def Entry.isHandle (e : Entry) : Bool := e.kind != .val && e.kind != .pool

/-- `g` (with run-time object `rg`) can end epochs of arena `a`: a guard whose own epoch is open; an exclusive
    `Bump` handle of the arena (`reset`, drop); the pool the arena belongs to -/
def EnderOn (σ : DState) (g : Entry) (rg : Rt) (a : Nat) : Prop :=
  (g.kind = .guard ∧ rg.arena = a ∧ ∃ eg, rg.epoch = some eg ∧ eg ∈ σ.epochs a) ∨
  (g.kind = .bump ∧ g.acc ≠ .shrRef ∧ rg.arena = a) ∨
  (g.kind = .pool ∧ a ∈ rg.arenas)

/-- … and `ex` is one of them (a guard ends its own epoch and everything above it) -/
def Ender (σ : DState) (g : Entry) (rg : Rt) (a ex : Nat) : Prop :=
  EnderOn σ g rg a ∧ (g.kind = .guard → ∀ eg, rg.epoch = some eg → ex ∉ cutAt eg (σ.epochs a))

/-- regions are closed: the allocation region is part of the self region, and whatever a borrowed place needs,
    the borrower needs too (so invalidating a place invalidates everything derived from it at once) -/
def Closed (Γ : SEnv) (e : Entry) : Prop :=
  (∀ l ∈ e.param, l ∈ e.self) ∧
  (∀ p m, Loan.borrow p m ∈ e.self →
    ∃ ep ∈ Γ.ents, ep.var = p ∧ ep.valid = true ∧ ep.kind ≠ .val ∧ ∀ l ∈ ep.self, l ∈ e.self) ∧
  e.self.on e.var = false ∧
  (∀ p m, Loan.borrow p m ∈ e.param → ∀ ep ∈ Γ.ents, ep.var = p → ∀ l ∈ ep.self, l ∈ e.param)

def Typed (σ : DState) (e : Entry) (r : Rt) : Prop :=
  r.kind = e.kind ∧
  (e.kind = .bump → (r.own = true ↔ e.acc = .own) ∧ (e.acc = .own → e.self = [])) ∧
  (e.kind = .pool → e.self = [] ∧ ∀ a ∈ r.arenas, a < σ.arenas.length) ∧
  (e.isHandle = true → σ.epochs r.arena ≠ []) ∧
  (e.kind = .scope → e.acc = .own → ∀ l ∈ e.self, l ∈ e.param) ∧
  (∀ ex, r.epoch = some ex → ex < σ.next) ∧
  (e.kind = .guard → ∀ eg, r.epoch = some eg → (σ.epochs r.arena).head? ≠ some eg)

/-- a live value: its epoch is open, and every valid entry that could end that epoch is borrowed by it -/
def ValOK (Γ : SEnv) (σ : DState) (e : Entry) (r : Rt) : Prop :=
  ∀ ex, r.epoch = some ex → ex ∈ σ.epochs r.arena ∧
    ∀ g ∈ Γ.ents, g.valid = true → ∀ rg, σ.get g.var = some rg → Ender σ g rg r.arena ex → e.self.on g.var = true

structure Inv (Γ : SEnv) (σ : DState) : Prop where
  nodup : (Γ.ents.map (·.var)).Nodup
  used : ∀ e ∈ Γ.ents, e.var ∈ Γ.used
  storeUsed : ∀ p ∈ σ.store, p.1 ∈ Γ.used
  frames : Γ.frames = σ.frames
  epochs : ∀ a, (σ.epochs a).Nodup ∧ ∀ e ∈ σ.epochs a, e < σ.next
  typed : ∀ e ∈ Γ.ents, e.valid = true → ∃ r, σ.get e.var = some r ∧ Typed σ e r
  closed : ∀ e ∈ Γ.ents, e.valid = true → Closed Γ e
  vals : ∀ e ∈ Γ.ents, e.valid = true → e.kind = .val → ∀ r, σ.get e.var = some r → ValOK Γ σ e r
  /-- what a handle allocates is borrowed from every entry that could end it — or that entry is an exclusive
      borrower of the handle (and is invalidated by the next use of the handle) -/
  handles : ∀ h ∈ Γ.ents, h.valid = true → h.isHandle = true → ∀ rh, σ.get h.var = some rh →
    ∀ g ∈ Γ.ents, g.valid = true → g.var ≠ h.var → ∀ rg, σ.get g.var = some rg →
    EnderOn σ g rg rh.arena → h.param.on g.var = true ∨ g.self.mutOn h.var = true
  /-- exclusive handles are exclusive: any other usable handle of the same arena is an ancestor that is mutably
      borrowed by it, or derived from it -/
  uniq : ∀ h1 ∈ Γ.ents, h1.valid = true → h1.isHandle = true → h1.acc ≠ .shrRef →
    ∀ h2 ∈ Γ.ents, h2.valid = true → h2.isHandle = true → h1.var ≠ h2.var →
    ∀ r1 r2, σ.get h1.var = some r1 → σ.get h2.var = some r2 → r1.arena = r2.arena →
    h1.self.mutOn h2.var = true ∨ h2.self.on h1.var = true

/-! ### invalidation -/

theorem kill1_of_any {p : Loan → Bool} {e : Entry} (h : e.self.any p = true) : kill1 p e = { e with valid := false } := by
  unfold kill1; rw [if_pos h]

theorem kill1_of_not_any {p : Loan → Bool} {e : Entry} (h : e.self.any p = false) : kill1 p e = e := by
  unfold kill1; rw [if_neg (by rw [h]; exact Bool.false_ne_true)]

theorem kill1_cases (p : Loan → Bool) (e : Entry) :
    (e.self.any p = true ∧ kill1 p e = { e with valid := false }) ∨ (e.self.any p = false ∧ kill1 p e = e) := by
  cases h : e.self.any p
  · exact Or.inr ⟨rfl, kill1_of_not_any h⟩
  · exact Or.inl ⟨rfl, kill1_of_any h⟩

@[simp] theorem kill1_var (p : Loan → Bool) (e : Entry) : (kill1 p e).var = e.var := by
  rcases kill1_cases p e with ⟨_, h⟩ | ⟨_, h⟩ <;> rw [h]
@[simp] theorem kill1_kind (p : Loan → Bool) (e : Entry) : (kill1 p e).kind = e.kind := by
  rcases kill1_cases p e with ⟨_, h⟩ | ⟨_, h⟩ <;> rw [h]
@[simp] theorem kill1_acc (p : Loan → Bool) (e : Entry) : (kill1 p e).acc = e.acc := by
  rcases kill1_cases p e with ⟨_, h⟩ | ⟨_, h⟩ <;> rw [h]
@[simp] theorem kill1_self (p : Loan → Bool) (e : Entry) : (kill1 p e).self = e.self := by
  rcases kill1_cases p e with ⟨_, h⟩ | ⟨_, h⟩ <;> rw [h]
@[simp] theorem kill1_param (p : Loan → Bool) (e : Entry) : (kill1 p e).param = e.param := by
  rcases kill1_cases p e with ⟨_, h⟩ | ⟨_, h⟩ <;> rw [h]
@[simp] theorem kill1_depth (p : Loan → Bool) (e : Entry) : (kill1 p e).depth = e.depth := by
  rcases kill1_cases p e with ⟨_, h⟩ | ⟨_, h⟩ <;> rw [h]

/-- an entry that is still valid after an invalidation was valid before and holds no loan of the invalidated kind -/
theorem kill1_valid {p : Loan → Bool} {e : Entry} (hv : (kill1 p e).valid = true) :
    kill1 p e = e ∧ e.valid = true ∧ e.self.any p = false := by
  rcases kill1_cases p e with ⟨_, h⟩ | ⟨ha, h⟩
  · rw [h] at hv; simp at hv
  · rw [h] at hv ⊢; exact ⟨rfl, hv, ha⟩

theorem mem_killEnts {p : Loan → Bool} {es : List Entry} {e : Entry} (h : e ∈ killEnts p es) :
    ∃ e0 ∈ es, e = kill1 p e0 := by
  unfold killEnts at h
  rcases List.mem_map.1 h with ⟨e0, h0, rfl⟩
  exact ⟨e0, h0, rfl⟩

theorem valid_of_killEnts {p : Loan → Bool} {es : List Entry} {e : Entry} (h : e ∈ killEnts p es) (hv : e.valid = true) :
    e ∈ es ∧ e.self.any p = false := by
  rcases mem_killEnts h with ⟨e0, h0, rfl⟩
  rcases kill1_valid hv with ⟨h1, _, h3⟩
  rw [h1]; exact ⟨h0, h3⟩

theorem killEnts_vars (p : Loan → Bool) (es : List Entry) : (killEnts p es).map (·.var) = es.map (·.var) := by
  unfold killEnts
  rw [List.map_map]
  apply List.map_congr_left
  intro e _
  simp

/-- a still-valid entry is also in the invalidated environment -/
theorem mem_killEnts_of_survivor {p : Loan → Bool} {es : List Entry} {e : Entry} (h : e ∈ es) (hp : e.self.any p = false) :
    e ∈ killEnts p es := by
  unfold killEnts
  exact List.mem_map.2 ⟨e, h, kill1_of_not_any hp⟩

theorem closed_kill {Γ : SEnv} {p : Loan → Bool} {e : Entry} (hc : Closed Γ e) (hp : e.self.any p = false) :
    Closed { Γ with ents := killEnts p Γ.ents } e := by
  refine ⟨hc.1, ?_, hc.2.2.1, ?_⟩
  rotate_left
  · intro q m hq ep hep hvar l hl
    rcases mem_killEnts hep with ⟨ep0, hep0, rfl⟩
    exact hc.2.2.2 q m hq ep0 hep0 (by simpa using hvar) l (by simpa using hl)
  intro q m hq
  rcases hc.2.1 q m hq with ⟨ep, hep, hvar, hval, hkv, hsub⟩
  have hpe : ep.self.any p = false := by
    apply Bool.eq_false_iff.2
    intro h
    rcases List.any_eq_true.1 h with ⟨l, hl, hpl⟩
    have : e.self.any p = true := List.any_eq_true.2 ⟨l, hsub l hl, hpl⟩
    rw [hp] at this; exact Bool.false_ne_true this
  exact ⟨ep, mem_killEnts_of_survivor hep hpe, hvar, hval, hkv, hsub⟩

/-- invalidating every entry that holds a loan satisfying `p` preserves the invariant (regions are closed, so
    nothing valid is left that depends on an invalidated entry; all other clauses only speak about valid entries) -/
theorem Inv.kill {Γ : SEnv} {σ : DState} (inv : Inv Γ σ) (p : Loan → Bool) :
    Inv { Γ with ents := killEnts p Γ.ents } σ := by
  constructor
  · show ((killEnts p Γ.ents).map (·.var)).Nodup
    rw [killEnts_vars]; exact inv.nodup
  · intro e he
    rcases mem_killEnts he with ⟨e0, h0, rfl⟩
    simpa using inv.used e0 h0
  · exact inv.storeUsed
  · exact inv.frames
  · exact inv.epochs
  · intro e he hv
    rcases valid_of_killEnts he hv with ⟨h0, _⟩
    exact inv.typed e h0 hv
  · intro e he hv
    rcases valid_of_killEnts he hv with ⟨h0, hp⟩
    exact closed_kill (inv.closed e h0 hv) hp
  · intro e he hv hk r hr ex hex
    rcases valid_of_killEnts he hv with ⟨h0, _⟩
    rcases inv.vals e h0 hv hk r hr ex hex with ⟨h1, h2⟩
    refine ⟨h1, ?_⟩
    intro g hg hgv rg hrg hend
    rcases valid_of_killEnts hg hgv with ⟨hg0, _⟩
    exact h2 g hg0 hgv rg hrg hend
  · intro h hh hv hH rh hrh g hg hgv hne rg hrg hend
    rcases valid_of_killEnts hh hv with ⟨hh0, _⟩
    rcases valid_of_killEnts hg hgv with ⟨hg0, _⟩
    exact inv.handles h hh0 hv hH rh hrh g hg0 hgv hne rg hrg hend
  · intro h1 hh1 hv1 hH1 ha h2 hh2 hv2 hH2 hne r1 r2 hr1 hr2 har
    rcases valid_of_killEnts hh1 hv1 with ⟨h10, _⟩
    rcases valid_of_killEnts hh2 hv2 with ⟨h20, _⟩
    exact inv.uniq h1 h10 hv1 hH1 ha h2 h20 hv2 hH2 hne r1 r2 hr1 hr2 har

/-! ### removal of a variable -/

theorem Loan.on_borrow (q : Var) (m : Mode) (v : Var) : (Loan.borrow q m).on v = (q == v) := rfl

/-- dropping the entry of `v` from an environment in which no valid entry holds a loan on `v` -/
theorem Inv.filterOut {Γ : SEnv} {σ : DState} (inv : Inv Γ σ) (v : Var)
    (hno : ∀ e ∈ Γ.ents, e.valid = true → e.self.any (·.on v) = false) :
    Inv { Γ with ents := Γ.ents.filter (fun e => e.var != v) } σ := by
  have sub : ∀ e, e ∈ Γ.ents.filter (fun e => e.var != v) → e ∈ Γ.ents := fun e he => (List.mem_filter.1 he).1
  constructor
  · show ((Γ.ents.filter (fun e => e.var != v)).map (·.var)).Nodup
    exact List.Nodup.sublist (List.Sublist.map _ List.filter_sublist) inv.nodup
  · intro e he; exact inv.used e (sub e he)
  · exact inv.storeUsed
  · exact inv.frames
  · exact inv.epochs
  · intro e he hv; exact inv.typed e (sub e he) hv
  · intro e he hv
    have hc := inv.closed e (sub e he) hv
    refine ⟨hc.1, ?_, hc.2.2.1, fun q m hq ep hep => hc.2.2.2 q m hq ep (sub ep hep)⟩
    intro q m hq
    rcases hc.2.1 q m hq with ⟨ep, hep, hvar, hval, hkv, hsub⟩
    refine ⟨ep, List.mem_filter.2 ⟨hep, ?_⟩, hvar, hval, hkv, hsub⟩
    -- the borrowed place is not `v`, because `e` holds no loan on `v`
    have h1 := hno e (sub e he) hv
    have h2 : (Loan.borrow q m).on v = false := by
      cases h : (Loan.borrow q m).on v
      · rfl
      · have : e.self.any (·.on v) = true := List.any_eq_true.2 ⟨_, hq, h⟩
        rw [h1] at this; exact absurd this Bool.false_ne_true
    rw [Loan.on_borrow] at h2
    rw [hvar]; simpa using h2
  · intro e he hv hk r hr ex hex
    rcases inv.vals e (sub e he) hv hk r hr ex hex with ⟨h1, h2⟩
    exact ⟨h1, fun g hg hgv rg hrg hend => h2 g (sub g hg) hgv rg hrg hend⟩
  · intro h hh hv hH rh hrh g hg hgv hne rg hrg hend
    exact inv.handles h (sub h hh) hv hH rh hrh g (sub g hg) hgv hne rg hrg hend
  · intro h1 hh1 hv1 hH1 ha h2 hh2 hv2 hH2 hne r1 r2 hr1 hr2 har
    exact inv.uniq h1 (sub h1 hh1) hv1 hH1 ha h2 (sub h2 hh2) hv2 hH2 hne r1 r2 hr1 hr2 har

/-- moving or dropping a variable (statically): all loans on it end, its entry disappears -/
theorem Inv.remove {Γ : SEnv} {σ : DState} (inv : Inv Γ σ) (v : Var) : Inv (Γ.remove v) σ := by
  have h1 := inv.kill (·.on v)
  have h2 := h1.filterOut v (by
    intro e he hv
    exact (valid_of_killEnts he hv).2)
  exact h2

/-! ### changes of the arena table (epochs begin and end) -/

theorem DState.get_of_store_eq {σ σ' : DState} (h : σ'.store = σ.store) (v : Var) : σ'.get v = σ.get v := by
  unfold DState.get; rw [h]

/-- the epochs of the arenas change (some end, new ones begin), the store stays: the invariant survives if every
    handle still has a live arena, every value's epoch is still open, no entry gains the power to end epochs, and a
    guard covers no surviving old epoch that it did not cover before -/
theorem Inv.dyn {Γ : SEnv} {σ σ' : DState} (inv : Inv Γ σ)
    (hstore : σ'.store = σ.store) (hframes : σ'.frames = σ.frames)
    (hep : ∀ a, (σ'.epochs a).Nodup ∧ ∀ e ∈ σ'.epochs a, e < σ'.next)
    (hnext : σ.next ≤ σ'.next) (hlen : σ.arenas.length ≤ σ'.arenas.length)
    (hH : ∀ h ∈ Γ.ents, h.valid = true → h.isHandle = true → ∀ rh, σ.get h.var = some rh → σ'.epochs rh.arena ≠ [])
    (hV : ∀ e ∈ Γ.ents, e.valid = true → e.kind = .val → ∀ r, σ.get e.var = some r →
          ∀ ex, r.epoch = some ex → ex ∈ σ'.epochs r.arena)
    (hG : ∀ g ∈ Γ.ents, g.valid = true → g.kind = .guard → ∀ rg, σ.get g.var = some rg → ∀ eg, rg.epoch = some eg →
          (σ'.epochs rg.arena).head? ≠ some eg)
    (hE : ∀ g ∈ Γ.ents, g.valid = true → ∀ rg, σ.get g.var = some rg → ∀ a, EnderOn σ' g rg a → EnderOn σ g rg a)
    (hC : ∀ g ∈ Γ.ents, g.valid = true → g.kind = .guard → ∀ rg, σ.get g.var = some rg → ∀ eg, rg.epoch = some eg →
          eg ∈ σ'.epochs rg.arena →
          ∀ ex, ex ∈ σ.epochs rg.arena → ex ∈ σ'.epochs rg.arena →
          ex ∉ cutAt eg (σ'.epochs rg.arena) → ex ∉ cutAt eg (σ.epochs rg.arena)) :
    Inv Γ σ' := by
  have hget : ∀ v, σ'.get v = σ.get v := DState.get_of_store_eq hstore
  constructor
  · exact inv.nodup
  · exact inv.used
  · rw [hstore]; exact inv.storeUsed
  · rw [hframes]; exact inv.frames
  · exact hep
  · intro e he hv
    rcases inv.typed e he hv with ⟨r, hr, ht1, ht2, ht3, ht4, ht5, ht6, ht7⟩
    refine ⟨r, by rw [hget]; exact hr, ht1, ht2, ?_, ?_, ht5, ?_, ?_⟩
    · intro hk; exact ⟨(ht3 hk).1, fun a ha => Nat.lt_of_lt_of_le ((ht3 hk).2 a ha) hlen⟩
    · intro hh; exact hH e he hv hh r hr
    · intro ex hex; exact Nat.lt_of_lt_of_le (ht6 ex hex) hnext
    · intro hk eg heg; exact hG e he hv hk r hr eg heg
  · exact inv.closed
  · intro e he hv hk r hr ex hex
    rw [hget] at hr
    rcases inv.vals e he hv hk r hr ex hex with ⟨h1, h2⟩
    refine ⟨hV e he hv hk r hr ex hex, ?_⟩
    intro g hg hgv rg hrg hend
    rw [hget] at hrg
    refine h2 g hg hgv rg hrg ⟨hE g hg hgv rg hrg _ hend.1, ?_⟩
    intro hgk i hi
    -- the guard's arena is the value's arena
    have hon := hE g hg hgv rg hrg _ hend.1
    have harena : rg.arena = r.arena := by
      rcases hend.1 with ⟨_, ha, _⟩ | ⟨hb, _, _⟩ | ⟨hp, _⟩
      · exact ha
      · rw [hgk] at hb; cases hb
      · rw [hgk] at hp; cases hp
    have hmem : i ∈ σ'.epochs rg.arena := by
      rcases hend.1 with ⟨_, _, eg, heg, hm⟩ | ⟨hb, _, _⟩ | ⟨hp, _⟩
      · rw [hi] at heg; cases heg; exact harena ▸ hm
      · rw [hgk] at hb; cases hb
      · rw [hgk] at hp; cases hp
    have := hC g hg hgv hgk rg hrg i hi hmem ex (harena ▸ h1) (harena ▸ hV e he hv hk r hr ex hex)
      (harena ▸ hend.2 hgk i hi)
    exact harena ▸ this
  · intro h hh hv hH' rh hrh g hg hgv hne rg hrg hend
    rw [hget] at hrh hrg
    exact inv.handles h hh hv hH' rh hrh g hg hgv hne rg hrg (hE g hg hgv rg hrg _ hend)
  · intro h1 hh1 hv1 hH1 ha h2 hh2 hv2 hH2 hne r1 r2 hr1 hr2 har
    rw [hget] at hr1 hr2
    exact inv.uniq h1 hh1 hv1 hH1 ha h2 hh2 hv2 hH2 hne r1 r2 hr1 hr2 har

/-! ### a new variable -/

theorem EnderOn_set (σ : DState) (x : Var) (r : Rt) (g : Entry) (rg : Rt) (a : Nat) :
    EnderOn (σ.set x r) g rg a ↔ EnderOn σ g rg a := Iff.rfl

theorem Ender_set (σ : DState) (x : Var) (r : Rt) (g : Entry) (rg : Rt) (a ex : Nat) :
    Ender (σ.set x r) g rg a ex ↔ Ender σ g rg a ex := Iff.rfl

theorem Typed_set {σ : DState} {e : Entry} {r : Rt} (x : Var) (rx : Rt) (h : Typed σ e r) : Typed (σ.set x rx) e r := h

/-- declaring a fresh variable `ne` bound to the run-time object `r`; everything that relates the new entry to the
    old ones is a hypothesis -/
theorem Inv.add {Γ : SEnv} {σ : DState} (inv : Inv Γ σ) (ne : Entry) (r : Rt)
    (hfresh : ne.var ∉ Γ.used) (hvalid : ne.valid = true)
    (hT : Typed σ ne r)
    (hC : (∀ l ∈ ne.param, l ∈ ne.self) ∧
          (∀ p m, Loan.borrow p m ∈ ne.self →
            ∃ ep ∈ Γ.ents, ep.var = p ∧ ep.valid = true ∧ ep.kind ≠ .val ∧ ∀ l ∈ ep.self, l ∈ ne.self) ∧
          (∀ p m, Loan.borrow p m ∈ ne.param → ∀ ep ∈ Γ.ents, ep.var = p → ∀ l ∈ ep.self, l ∈ ne.param))
    (hV : ne.kind = .val → ∀ ex, r.epoch = some ex → ex ∈ σ.epochs r.arena ∧
          ∀ g ∈ Γ.ents, g.valid = true → ∀ rg, σ.get g.var = some rg → Ender σ g rg r.arena ex → ne.self.on g.var = true)
    (hA : ∀ e ∈ Γ.ents, e.valid = true → e.kind = .val → ∀ re, σ.get e.var = some re → ∀ ex, re.epoch = some ex →
          Ender σ ne r re.arena ex → e.self.on ne.var = true)
    (hB1 : ne.isHandle = true → ∀ g ∈ Γ.ents, g.valid = true → ∀ rg, σ.get g.var = some rg → EnderOn σ g rg r.arena →
          ne.param.on g.var = true ∨ g.self.mutOn ne.var = true)
    (hB2 : ∀ h ∈ Γ.ents, h.valid = true → h.isHandle = true → ∀ rh, σ.get h.var = some rh → EnderOn σ ne r rh.arena →
          h.param.on ne.var = true ∨ ne.self.mutOn h.var = true)
    (hU1 : ne.isHandle = true → ne.acc ≠ .shrRef → ∀ h2 ∈ Γ.ents, h2.valid = true → h2.isHandle = true →
          ∀ r2, σ.get h2.var = some r2 → r.arena = r2.arena → ne.self.mutOn h2.var = true ∨ h2.self.on ne.var = true)
    (hU2 : ne.isHandle = true → ∀ h1 ∈ Γ.ents, h1.valid = true → h1.isHandle = true → h1.acc ≠ .shrRef →
          ∀ r1, σ.get h1.var = some r1 → r1.arena = r.arena → h1.self.mutOn ne.var = true ∨ ne.self.on h1.var = true) :
    Inv { Γ with ents := ne :: Γ.ents, used := ne.var :: Γ.used } (σ.set ne.var r) := by
  have hne : ∀ e ∈ Γ.ents, e.var ≠ ne.var := fun e he h => hfresh (h ▸ inv.used e he)
  have hget : ∀ e ∈ Γ.ents, (σ.set ne.var r).get e.var = σ.get e.var := fun e he => DState.get_set_ne σ r (hne e he)
  constructor
  · show ((ne :: Γ.ents).map (·.var)).Nodup
    rw [List.map_cons, List.nodup_cons]
    refine ⟨?_, inv.nodup⟩
    intro hm
    rcases List.mem_map.1 hm with ⟨e, he, hev⟩
    exact hne e he hev
  · intro e he
    rcases List.mem_cons.1 he with rfl | he
    · exact List.mem_cons_self
    · exact List.mem_cons_of_mem _ (inv.used e he)
  · intro p hp
    rcases List.mem_cons.1 hp with rfl | hp
    · exact List.mem_cons_self
    · exact List.mem_cons_of_mem _ (inv.storeUsed p hp)
  · exact inv.frames
  · exact inv.epochs
  · intro e he hv
    rcases List.mem_cons.1 he with rfl | he
    · exact ⟨r, DState.get_set_self σ _ r, hT⟩
    · rcases inv.typed e he hv with ⟨r0, hr0, ht⟩
      exact ⟨r0, by rw [hget e he]; exact hr0, ht⟩
  · intro e he hv
    rcases List.mem_cons.1 he with rfl | he
    · have hselfFree : e.self.on e.var = false := by
        -- every loan of the new entry is on an existing variable
        apply Bool.eq_false_iff.2
        intro hon
        rcases List.any_eq_true.1 hon with ⟨l, hl, hlo⟩
        cases l with
        | frame k => simp [Loan.on] at hlo
        | borrow q m =>
          rcases hC.2.1 q m hl with ⟨ep, hep, h1, _⟩
          have : q = e.var := by simpa [Loan.on] using hlo
          exact hne ep hep (h1.trans this)
      refine ⟨hC.1, ?_, hselfFree, ?_⟩
      · intro q m hq
        rcases hC.2.1 q m hq with ⟨ep, hep, h1, h2, h3⟩
        exact ⟨ep, List.mem_cons_of_mem _ hep, h1, h2, h3⟩
      · intro q m hq ep hep hvar
        rcases List.mem_cons.1 hep with rfl | hep'
        · -- the new entry does not borrow from itself
          exfalso
          have : ep.self.on ep.var = true :=
            List.any_eq_true.2 ⟨_, hC.1 _ hq, by simp [Loan.on, hvar]⟩
          rw [hselfFree] at this; exact Bool.false_ne_true this
        · exact hC.2.2 q m hq ep hep' hvar
    · have hc := inv.closed e he hv
      refine ⟨hc.1, ?_, hc.2.2.1, ?_⟩
      · intro q m hq
        rcases hc.2.1 q m hq with ⟨ep, hep, h1, h2, h3⟩
        exact ⟨ep, List.mem_cons_of_mem _ hep, h1, h2, h3⟩
      · intro q m hq ep hep hvar
        rcases List.mem_cons.1 hep with rfl | hep'
        · -- an old entry does not borrow from the new variable
          exfalso
          rcases hc.2.1 q m (hc.1 _ hq) with ⟨ep0, hep0, h1, _⟩
          exact hne ep0 hep0 (h1.trans hvar.symm)
        · exact hc.2.2.2 q m hq ep hep' hvar
  · intro e he hv hk r0 hr0 ex hex
    rcases List.mem_cons.1 he with rfl | he'
    · rw [DState.get_set_self] at hr0
      cases hr0
      rcases hV hk ex hex with ⟨h1, h2⟩
      refine ⟨h1, ?_⟩
      intro g hg hgv rg hrg hend
      rcases List.mem_cons.1 hg with rfl | hg'
      · -- a value is not an ender
        rcases hend.1 with ⟨hk', _⟩ | ⟨hk', _⟩ | ⟨hk', _⟩ <;> rw [hk] at hk' <;> cases hk'
      · rw [hget g hg'] at hrg
        exact h2 g hg' hgv rg hrg hend
    · rw [hget e he'] at hr0
      rcases inv.vals e he' hv hk r0 hr0 ex hex with ⟨h1, h2⟩
      refine ⟨h1, ?_⟩
      intro g hg hgv rg hrg hend
      rcases List.mem_cons.1 hg with rfl | hg'
      · rw [DState.get_set_self] at hrg
        cases hrg
        exact hA e he' hv hk r0 hr0 ex hex hend
      · rw [hget g hg'] at hrg
        exact h2 g hg' hgv rg hrg hend
  · intro h hh hv hH rh hrh g hg hgv hneq rg hrg hend
    rcases List.mem_cons.1 hh with rfl | hh'
    · rw [DState.get_set_self] at hrh
      cases hrh
      rcases List.mem_cons.1 hg with rfl | hg'
      · exact absurd rfl hneq
      · rw [hget g hg'] at hrg
        exact hB1 hH g hg' hgv rg hrg hend
    · rw [hget h hh'] at hrh
      rcases List.mem_cons.1 hg with rfl | hg'
      · rw [DState.get_set_self] at hrg
        cases hrg
        exact hB2 h hh' hv hH rh hrh hend
      · rw [hget g hg'] at hrg
        exact inv.handles h hh' hv hH rh hrh g hg' hgv hneq rg hrg hend
  · intro h1 hh1 hv1 hH1 ha h2 hh2 hv2 hH2 hneq r1 r2 hr1 hr2 har
    rcases List.mem_cons.1 hh1 with rfl | hh1'
    · rw [DState.get_set_self] at hr1
      cases hr1
      rcases List.mem_cons.1 hh2 with rfl | hh2'
      · exact absurd rfl hneq
      · rw [hget h2 hh2'] at hr2
        exact hU1 hH1 ha h2 hh2' hv2 hH2 r2 hr2 har
    · rw [hget h1 hh1'] at hr1
      rcases List.mem_cons.1 hh2 with rfl | hh2'
      · rw [DState.get_set_self] at hr2
        cases hr2
        exact hU2 hH2 h1 hh1' hv1 hH1 ha r1 hr1 har
      · rw [hget h2 hh2'] at hr2
        exact inv.uniq h1 hh1' hv1 hH1 ha h2 hh2' hv2 hH2 hneq r1 r2 hr1 hr2 har

/-! ### an existing variable is bound to a changed run-time object -/

theorem eq_of_nodup_vars : ∀ {l : List Entry}, (l.map (·.var)).Nodup → ∀ {a b : Entry}, a ∈ l → b ∈ l → a.var = b.var → a = b := by
  intro l
  induction l with
  | nil => intro _ a b ha; cases ha
  | cons x l ih =>
    intro hn a b ha hb hv
    rw [List.map_cons, List.nodup_cons] at hn
    rcases List.mem_cons.1 ha with rfl | ha' <;> rcases List.mem_cons.1 hb with rfl | hb'
    · rfl
    · exact absurd (List.mem_map.2 ⟨b, hb', hv.symm⟩) hn.1
    · exact absurd (List.mem_map.2 ⟨a, ha', hv⟩) hn.1
    · exact ih hn.2 ha' hb' hv

theorem Inv.eq_of_var_eq {Γ : SEnv} {σ : DState} (inv : Inv Γ σ) {e1 e2 : Entry} (h1 : e1 ∈ Γ.ents) (h2 : e2 ∈ Γ.ents)
    (hv : e1.var = e2.var) : e1 = e2 := eq_of_nodup_vars inv.nodup h1 h2 hv

/-- the run-time object of a valid entry changes (a guard gets its new epoch, a pool another arena, a slot other
    content); it stays on its arena.  What relates the new object to the other entries is a hypothesis. -/
theorem Inv.rebind {Γ : SEnv} {σ : DState} (inv : Inv Γ σ) {e : Entry} (he : e ∈ Γ.ents) (hv : e.valid = true)
    {r : Rt} (hr : σ.get e.var = some r) (r' : Rt) (harena : r'.arena = r.arena)
    (hT : Typed σ e r')
    (hV : e.kind = .val → ∀ ex, r'.epoch = some ex → ex ∈ σ.epochs r'.arena ∧
          ∀ g ∈ Γ.ents, g.valid = true → g.var ≠ e.var → ∀ rg, σ.get g.var = some rg → Ender σ g rg r'.arena ex →
            e.self.on g.var = true)
    (hA : ∀ e' ∈ Γ.ents, e'.valid = true → e'.kind = .val → e'.var ≠ e.var → ∀ re, σ.get e'.var = some re →
          ∀ ex, re.epoch = some ex → Ender σ e r' re.arena ex → e'.self.on e.var = true)
    (hB2 : ∀ h ∈ Γ.ents, h.valid = true → h.isHandle = true → h.var ≠ e.var → ∀ rh, σ.get h.var = some rh →
          EnderOn σ e r' rh.arena → h.param.on e.var = true ∨ e.self.mutOn h.var = true) :
    Inv Γ (σ.set e.var r') := by
  have hget : ∀ e' ∈ Γ.ents, e'.var ≠ e.var → (σ.set e.var r').get e'.var = σ.get e'.var :=
    fun e' _ hne => DState.get_set_ne σ r' hne
  have hsame : ∀ e' ∈ Γ.ents, e'.var = e.var → e' = e := fun e' he' h => inv.eq_of_var_eq he' he h
  -- the run-time object of any entry, old and new
  have hcase : ∀ e' ∈ Γ.ents, ∀ r1, (σ.set e.var r').get e'.var = some r1 →
      (e' = e ∧ r1 = r') ∨ (e'.var ≠ e.var ∧ σ.get e'.var = some r1) := by
    intro e' he' r1 h1
    by_cases hx : e'.var = e.var
    · left
      refine ⟨hsame e' he' hx, ?_⟩
      rw [hx, DState.get_set_self] at h1
      exact (Option.some.inj h1).symm
    · right; exact ⟨hx, by rw [hget e' he' hx] at h1; exact h1⟩
  constructor
  · exact inv.nodup
  · exact inv.used
  · intro p hp
    rcases List.mem_cons.1 hp with rfl | hp
    · exact inv.used e he
    · exact inv.storeUsed p hp
  · exact inv.frames
  · exact inv.epochs
  · intro e' he' hv'
    by_cases hx : e'.var = e.var
    · have := hsame e' he' hx; subst this
      exact ⟨r', DState.get_set_self σ _ r', hT⟩
    · rcases inv.typed e' he' hv' with ⟨r0, hr0, ht⟩
      exact ⟨r0, by rw [hget e' he' hx]; exact hr0, ht⟩
  · exact inv.closed
  · intro e' he' hv' hk r1 hr1 ex hex
    rcases hcase e' he' r1 hr1 with ⟨rfl, rfl⟩ | ⟨hx, hr1'⟩
    · rcases hV hk ex hex with ⟨h1, h2⟩
      refine ⟨h1, ?_⟩
      intro g hg hgv rg hrg hend
      rcases hcase g hg rg hrg with ⟨rfl, rfl⟩ | ⟨hgx, hrg'⟩
      · rcases hend.1 with ⟨hk', _⟩ | ⟨hk', _⟩ | ⟨hk', _⟩ <;> rw [hk] at hk' <;> cases hk'
      · exact h2 g hg hgv hgx rg hrg' hend
    · rcases inv.vals e' he' hv' hk r1 hr1' ex hex with ⟨h1, h2⟩
      refine ⟨h1, ?_⟩
      intro g hg hgv rg hrg hend
      rcases hcase g hg rg hrg with ⟨rfl, rfl⟩ | ⟨hgx, hrg'⟩
      · exact hA e' he' hv' hk hx r1 hr1' ex hex hend
      · exact h2 g hg hgv rg hrg' hend
  · intro h hh hvh hH rh hrh g hg hgv hne rg hrg hend
    rcases hcase h hh rh hrh with ⟨rfl, rfl⟩ | ⟨hx, hrh'⟩
    · rcases hcase g hg rg hrg with ⟨rfl, _⟩ | ⟨hgx, hrg'⟩
      · exact absurd rfl hne
      · have hend' : EnderOn σ g rg r.arena := harena ▸ hend
        exact inv.handles h hh hvh hH r hr g hg hgv hne rg hrg' hend'
    · rcases hcase g hg rg hrg with ⟨rfl, rfl⟩ | ⟨hgx, hrg'⟩
      · exact hB2 h hh hvh hH hx rh hrh' hend
      · exact inv.handles h hh hvh hH rh hrh' g hg hgv hne rg hrg' hend
  · intro h1 hh1 hv1 hH1 ha h2 hh2 hv2 hH2 hne r1 r2 hr1 hr2 har
    rcases hcase h1 hh1 r1 hr1 with ⟨rfl, rfl⟩ | ⟨hx1, hr1'⟩
    · rcases hcase h2 hh2 r2 hr2 with ⟨rfl, _⟩ | ⟨hx2, hr2'⟩
      · exact absurd rfl hne
      · exact inv.uniq h1 hh1 hv1 hH1 ha h2 hh2 hv2 hH2 hne r r2 hr hr2' (harena ▸ har)
    · rcases hcase h2 hh2 r2 hr2 with ⟨rfl, rfl⟩ | ⟨hx2, hr2'⟩
      · exact inv.uniq h1 hh1 hv1 hH1 ha h2 hh2 hv2 hH2 hne r1 r hr1' hr (harena ▸ har)
      · exact inv.uniq h1 hh1 hv1 hH1 ha h2 hh2 hv2 hH2 hne r1 r2 hr1' hr2' har

end Life
