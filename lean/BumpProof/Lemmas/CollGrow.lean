/-
  Lemmas/CollGrow.lean — the reservation policy (`reserve`, `reserveOne`, `growAmortized`) and the
  refinement lemmas of the growing operations `push`, `insert`, `extend_from_slice_clone`,
  `extend_with` / `resize` (`Coll/Vecs.lean`).
-/
import BumpProof.Coll.Spec
import BumpProof.Lemmas.CollPrim
import BumpProof.Lemmas.CollWF
import BumpProof.Lemmas.CollBasic

namespace Coll

/-- the vector after the reservation (unchanged if it was refused) / whether it succeeded -/
def grown (env : Env) (v : Vec) (n : Nat) : Vec := (reserve env v n).getD v
def room (env : Env) (v : Vec) (n : Nat) : Bool := (reserve env v n).isSome
def grownOne (env : Env) (v : Vec) : Vec := (reserveOne env v).getD v
def roomOne (env : Env) (v : Vec) : Bool := (reserveOne env v).isSome

/-- what a (re)allocation preserves: contents, length, logs; the capacity does not shrink -/
structure Grows (v v' : Vec) (xs : List Id) : Prop where
  slots : v'.slots = I xs ++ H (v'.cap - v'.len)
  len : v'.len = v.len
  dropLog : v'.dropLog = v.dropLog
  escaped : v'.escaped = v.escaped
  cap : v.cap ≤ v'.cap

theorem Grows.refl {v : Vec} {xs : List Id} (hs : v.slots = I xs ++ H (v.cap - v.len)) : Grows v v xs :=
  ⟨hs, rfl, rfl, rfl, Nat.le_refl _⟩

theorem growTo_grows {v : Vec} {xs : List Id} (hs : v.slots = I xs ++ H (v.cap - v.len)) (hl : xs.length = v.len)
    (newCap : Nat) : Grows v (growTo v newCap) xs ∧ (growTo v newCap).cap = max v.cap newCap := by
  have hcap := seg_len_le_cap hs hl
  have hc : (growTo v newCap).cap = max v.cap newCap := by
    simp [growTo, Vec.cap]; omega
  refine ⟨⟨?_, rfl, rfl, rfl, by omega⟩, hc⟩
  rw [hc]
  simp only [growTo]
  rw [hs, List.append_assoc, ← H_add]
  congr 2
  omega

theorem growAmortized_some {env : Env} {v v' : Vec} {xs : List Id} {n : Nat}
    (hs : v.slots = I xs ++ H (v.cap - v.len)) (hl : xs.length = v.len)
    (h : growAmortized env v n = some v') : Grows v v' xs ∧ v.len + n ≤ v'.cap := by
  unfold growAmortized at h
  cases hk : env.kind <;> simp only [hk] at h
  · cases h
  · cases h
  · split at h
    · cases h
      have ⟨g, c⟩ := growTo_grows hs hl (max (max (v.cap * 2) (v.len + n)) env.minCap)
      exact ⟨g, by omega⟩
    · cases h
  · split at h
    · rename_i hc
      cases h
      have ⟨g, c⟩ := growTo_grows hs hl env.capIn
      exact ⟨g, by omega⟩
    · cases h
  · split at h
    · rename_i hc
      cases h
      have ⟨g, c⟩ := growTo_grows hs hl env.capIn
      exact ⟨g, by omega⟩
    · cases h

theorem reserve_some {env : Env} {v v' : Vec} {xs : List Id} {n : Nat}
    (hs : v.slots = I xs ++ H (v.cap - v.len)) (hl : xs.length = v.len)
    (h : reserve env v n = some v') : Grows v v' xs ∧ v.len + n ≤ v'.cap := by
  have hcap := seg_len_le_cap hs hl
  unfold reserve at h
  split at h
  · exact growAmortized_some hs hl h
  · cases h; exact ⟨Grows.refl hs, by omega⟩

theorem reserveOne_some {env : Env} {v v' : Vec} {xs : List Id}
    (hs : v.slots = I xs ++ H (v.cap - v.len)) (hl : xs.length = v.len)
    (h : reserveOne env v = some v') : Grows v v' xs ∧ v.len + 1 ≤ v'.cap := by
  have hcap := seg_len_le_cap hs hl
  unfold reserveOne at h
  split at h
  · split at h
    · cases h
    · cases h; exact ⟨Grows.refl hs, by omega⟩
  · split at h
    · cases h
    · cases h; exact ⟨Grows.refl hs, by omega⟩
  · split at h
    · exact growAmortized_some hs hl h
    · cases h; exact ⟨Grows.refl hs, by omega⟩

/-- **no reallocation while the capacity suffices** (C08): the vector is returned as it is -/
theorem reserve_fits (env : Env) (v : Vec) (n : Nat) (h : v.len + n ≤ v.cap) : reserve env v n = some v := by
  unfold reserve
  rw [if_neg (by omega)]

theorem reserveOne_fits (env : Env) (v : Vec) (h : v.len < v.cap) : reserveOne env v = some v := by
  unfold reserveOne
  split
  · rw [if_neg (by omega)]
  · rw [if_neg (by omega)]
  · rw [if_neg (by omega)]

/-- **fixed vectors fail when full** (C08) and never change their buffer -/
theorem reserve_fixed (env : Env) (v : Vec) (n : Nat) (hk : env.kind = .fixed) :
    reserve env v n = if n > v.cap - v.len then none else some v := by
  unfold reserve growAmortized
  simp [hk]

/-! ## push / insert -/

theorem push_eq (env : Env) (v : Vec) (xs : List Id) (id : Id)
    (hs : v.slots = I xs ++ H (v.cap - v.len)) (hl : xs.length = v.len) :
    push env v id =
      .ok ⟨(grownOne env v).after (pushSpec (roomOne env v) xs id), (pushSpec (roomOne env v) xs id).exit, []⟩ := by
  unfold push grownOne roomOne
  cases hr : reserveOne env v with
  | none =>
    simp only [Option.getD_none, Option.isSome_none, pushSpec, Bool.false_eq_true, ↓reduceIte]
    congr 2
    apply Vec.eq_of <;> simp [Vec.after, dropArg, hs, hl]
  | some v' =>
    have ⟨g, hc⟩ := reserveOne_some hs hl hr
    simp only [Option.getD_some, Option.isSome_some, pushSpec, ↓reduceIte]
    have hs1 : v'.slots = I xs ++ Slot.hole :: H (v'.cap - v'.len - 1) := by
      rw [g.slots]; congr 1
      exact (H_eq_cons (by have := g.len; omega)).symm
    rw [write_mid hs1 (by simp [g.len, hl])]
    simp only
    congr 2
    apply Vec.eq_of <;> simp [Vec.after, setLen, g.len, hl, g.dropLog, g.escaped]
    exact H_congr (by omega)

theorem insert_eq (env : Env) (v : Vec) (xs : List Id) (i : Nat) (id : Id)
    (hs : v.slots = I xs ++ H (v.cap - v.len)) (hl : xs.length = v.len) :
    insert env v i id =
      .ok ⟨(if i ≤ v.len then grownOne env v else v).after (insertSpec (roomOne env v) xs i id),
           (insertSpec (roomOne env v) xs i id).exit, []⟩ := by
  unfold insert grownOne roomOne
  by_cases hi : i > v.len
  · have : ¬ i ≤ v.len := by omega
    have h2 : ¬ (i ≤ xs.length ∧ (reserveOne env v).isSome = true) := by omega
    simp only [hi, this, ↓reduceIte, insertSpec, h2]
    congr 2
    apply Vec.eq_of <;> simp [Vec.after, dropArg, hs, hl]
  · have hle : i ≤ v.len := by omega
    simp only [hi, hle, ↓reduceIte]
    cases hr : reserveOne env v with
    | none =>
      simp only [Option.getD_none, Option.isSome_none, insertSpec, Bool.false_eq_true, and_false, ↓reduceIte]
      congr 2
      apply Vec.eq_of <;> simp [Vec.after, dropArg, hs, hl]
    | some v' =>
      have ⟨g, hc⟩ := reserveOne_some hs hl hr
      have hle' : i ≤ xs.length := by omega
      simp only [Option.getD_some, Option.isSome_some, insertSpec, hle', and_self, ↓reduceIte]
      have hlen := g.len
      -- the buffer: take i ++ drop i ++ hole :: spare
      have hs1 : v'.slots = I (xs.take i) ++ I (xs.drop i) ++ H 1 ++ H (v'.cap - v'.len - 1) := by
        rw [g.slots, ← I_append, List.take_append_drop, List.append_assoc, ← H_add]
        congr 2; omega
      by_cases hend : i = v'.len
      · -- appending at the end: no shift
        have hd : xs.drop i = [] := by simp; omega
        simp only [hend, ne_eq, not_true_eq_false, ↓reduceIte]
        have hs2 : v'.slots = I xs ++ Slot.hole :: H (v'.cap - v'.len - 1) := by
          rw [g.slots]; congr 1
          exact (H_eq_cons (by omega)).symm
        rw [write_mid hs2 (by simp; omega)]
        simp only
        congr 2
        have ht : xs.take v'.len = xs := by rw [List.take_of_length_le]; omega
        have hd2 : xs.drop v'.len = [] := by simp; omega
        apply Vec.eq_of <;> simp [Vec.after, setLen, ht, hd2, g.dropLog, g.escaped]
        · congr 1; omega
        · omega
      · simp only [ne_eq, hend, not_false_eq_true, ↓reduceIte]
        rw [copy_fwd hs1 (by simp; omega) (by simp; omega) (by simp; omega)]
        simp only
        have hs3 : I (xs.take i) ++ H 1 ++ I (xs.drop i) ++ H (v'.cap - v'.len - 1)
            = I (xs.take i) ++ Slot.hole :: (I (xs.drop i) ++ H (v'.cap - v'.len - 1)) := by simp
        rw [write_mid (v := { v' with slots := _ }) hs3 (by simp; omega)]
        simp only
        congr 2
        apply Vec.eq_of <;> simp [Vec.after, setLen, g.dropLog, g.escaped]
        · congr 1; omega
        · omega

/-! ## extend_from_slice_clone -/

theorem extendCloneSpec_length_le (n : Nat) : ∀ (xs : List Id) (o : List Outcome),
    (extendCloneSpec xs n o).final.length ≤ xs.length + n ∧ xs.length ≤ (extendCloneSpec xs n o).final.length := by
  induction n with
  | zero => intro xs o; simp [extendCloneSpec]
  | succ n ih =>
    intro xs o
    match o with
    | [] => simp [extendCloneSpec]
    | .panic :: o => simp [extendCloneSpec]
    | .ret id :: o =>
      simp only [extendCloneSpec]
      have := ih (xs ++ [id]) o
      simp at this
      omega

theorem extendCloneSpec_logs (n : Nat) : ∀ (xs : List Id) (o : List Outcome),
    (extendCloneSpec xs n o).dropped = [] ∧ (extendCloneSpec xs n o).escaped = [] := by
  induction n with
  | zero => intro xs o; simp [extendCloneSpec]
  | succ n ih =>
    intro xs o
    match o with
    | [] => simp [extendCloneSpec]
    | .panic :: o => simp [extendCloneSpec]
    | .ret id :: o => simp only [extendCloneSpec]; exact ih _ o

theorem extendCloneLoop_eq (n : Nat) : ∀ (xs : List Id) (v : Vec) (o : List Outcome) (m : Nat),
    v.slots = I xs ++ H m → v.len = xs.length → n ≤ m →
    extendCloneLoop n v o =
      .ok ⟨{ v with slots := I (extendCloneSpec xs n o).final ++ H (xs.length + m - (extendCloneSpec xs n o).final.length),
                    len := (extendCloneSpec xs n o).final.length },
           (extendCloneSpec xs n o).exit, (extendCloneSpec xs n o).rest⟩ := by
  induction n with
  | zero =>
    intro xs v o m hs hl _
    simp only [extendCloneLoop, extendCloneSpec]
    congr 2
    apply Vec.eq_of <;> simp [hs, hl]
  | succ n ih =>
    intro xs v o m hs hl hm
    match o with
    | [] =>
      simp only [extendCloneLoop, extendCloneSpec]
      congr 2
      apply Vec.eq_of <;> simp [hs, hl]
    | .panic :: o =>
      simp only [extendCloneLoop, extendCloneSpec]
      congr 2
      apply Vec.eq_of <;> simp [hs, hl]
    | .ret id :: o =>
      simp only [extendCloneLoop, extendCloneSpec]
      have hs1 : v.slots = I xs ++ Slot.hole :: H (m - 1) := by
        rw [hs]; congr 1; exact (H_eq_cons (by omega)).symm
      rw [write_mid hs1 (by simp [hl])]
      simp only
      have hs2 : I xs ++ Slot.init id :: H (m - 1) = I (xs ++ [id]) ++ H (m - 1) := by simp
      have := ih (xs ++ [id]) (setLen { v with slots := I xs ++ Slot.init id :: H (m - 1) } (v.len + 1)) o (m - 1)
        (by simpa [setLen] using hs2) (by simp [setLen, hl]) (by omega)
      simp only [setLen] at this ⊢
      rw [this]
      congr 3
      simp
      congr 2
      omega

theorem extendFromSliceClone_eq (env : Env) (v : Vec) (xs : List Id) (n : Nat) (o : List Outcome)
    (hs : v.slots = I xs ++ H (v.cap - v.len)) (hl : xs.length = v.len) :
    extendFromSliceClone env v n o =
      .ok ⟨(grown env v n).after (extendCloneSpecR (room env v n) xs n o),
           (extendCloneSpecR (room env v n) xs n o).exit, (extendCloneSpecR (room env v n) xs n o).rest⟩ := by
  unfold extendFromSliceClone grown room
  cases hr : reserve env v n with
  | none =>
    simp only [Option.getD_none, Option.isSome_none, extendCloneSpecR, Bool.false_eq_true, ↓reduceIte, after_noop hs hl]
  | some v' =>
    have ⟨g, hc⟩ := reserve_some hs hl hr
    simp only [Option.getD_some, Option.isSome_some, extendCloneSpecR, ↓reduceIte]
    have hlen := g.len
    rw [extendCloneLoop_eq n xs v' o (v'.cap - v'.len) g.slots (by omega) (by omega)]
    have ⟨h1, h2⟩ := extendCloneSpec_length_le n xs o
    have ⟨h3, h4⟩ := extendCloneSpec_logs n xs o
    congr 2
    apply Vec.eq_of <;> simp [Vec.after, h3, h4, g.dropLog, g.escaped]
    exact H_congr (by omega)

/-! ## extend_with / resize -/

theorem extendWithLoop_eq (n : Nat) : ∀ (xs : List Id) (v : Vec) (o : List Outcome) (m : Nat),
    v.slots = I xs ++ H m → n ≤ m →
    extendWithLoop n v xs.length xs.length o =
      .ok ({ v with slots := I (extendCloneSpec xs n o).final ++ H (xs.length + m - (extendCloneSpec xs n o).final.length) },
           (extendCloneSpec xs n o).final.length, (extendCloneSpec xs n o).final.length,
           (match (extendCloneSpec xs n o).exit with | .ret _ => false | .panic _ => true),
           (extendCloneSpec xs n o).rest) := by
  induction n with
  | zero =>
    intro xs v o m hs _
    simp only [extendWithLoop, extendCloneSpec]
    congr 2
    apply Vec.eq_of <;> simp [hs]
  | succ n ih =>
    intro xs v o m hs hm
    match o with
    | [] =>
      simp only [extendWithLoop, extendCloneSpec]
      congr 2
      apply Vec.eq_of <;> simp [hs]
    | .panic :: o =>
      simp only [extendWithLoop, extendCloneSpec]
      congr 2
      apply Vec.eq_of <;> simp [hs]
    | .ret id :: o =>
      simp only [extendWithLoop, extendCloneSpec]
      have hs1 : v.slots = I xs ++ Slot.hole :: H (m - 1) := by
        rw [hs]; congr 1; exact (H_eq_cons (by omega)).symm
      rw [write_mid hs1 (by simp)]
      simp only
      have hs2 : I xs ++ Slot.init id :: H (m - 1) = I (xs ++ [id]) ++ H (m - 1) := by simp
      have := ih (xs ++ [id]) { v with slots := I xs ++ Slot.init id :: H (m - 1) } o (m - 1) hs2 (by omega)
      simp only [List.length_append, List.length_singleton] at this
      rw [this]
      congr 3
      simp
      congr 2
      omega

theorem extendWith_eq (env : Env) (v : Vec) (xs : List Id) (n : Nat) (value : Id) (o : List Outcome)
    (hs : v.slots = I xs ++ H (v.cap - v.len)) (hl : xs.length = v.len) :
    extendWith env v n value o =
      .ok ⟨(grown env v n).after (extendWithSpecR (room env v n) env.bombs xs n value o),
           (extendWithSpecR (room env v n) env.bombs xs n value o).exit,
           (extendWithSpecR (room env v n) env.bombs xs n value o).rest⟩ := by
  unfold extendWith grown room
  cases hr : reserve env v n with
  | none =>
    simp only [Option.getD_none, Option.isSome_none, extendWithSpecR, Bool.false_eq_true, ↓reduceIte]
    congr 2
    apply Vec.eq_of <;> simp [Vec.after, dropArg, hs, hl]
  | some v' =>
    have ⟨g, hc⟩ := reserve_some hs hl hr
    have hlen := g.len
    simp only [Option.getD_some, Option.isSome_some, extendWithSpecR, ↓reduceIte]
    have hloop := extendWithLoop_eq (n - 1) xs v' o (v'.cap - v'.len) g.slots (by omega)
    rw [hlen, ← hl, hloop]
    have ⟨h1, h2⟩ := extendCloneSpec_length_le (n - 1) xs o
    have ⟨h3, h4⟩ := extendCloneSpec_logs (n - 1) xs o
    cases n with
    | zero =>
      -- nothing to add: `value` is dropped at the end of the scope
      simp only [Nat.zero_sub, extendCloneSpec, Nat.lt_irrefl, ↓reduceIte, extendWithSpec]
      congr 2
      · apply Vec.eq_of <;> simp [Vec.after, dropArg, setLen, g.dropLog, g.escaped]
        exact H_congr (by omega)
    | succ m =>
      simp only [Nat.add_sub_cancel, extendWithSpec] at *
      cases he : (extendCloneSpec xs m o).exit with
      | ret u =>
        simp only [Nat.zero_lt_succ, ↓reduceIte]
        have hs1 : (I (extendCloneSpec xs m o).final ++ H (xs.length + (v'.cap - v'.len) - (extendCloneSpec xs m o).final.length))
            = I (extendCloneSpec xs m o).final ++ Slot.hole :: H (xs.length + (v'.cap - v'.len) - (extendCloneSpec xs m o).final.length - 1) := by
          congr 1; exact (H_eq_cons (by omega)).symm
        rw [write_mid (v := { v' with slots := _ }) hs1 (by simp)]
        simp only
        congr 2
        apply Vec.eq_of <;> simp [Vec.after, setLen, h3, h4, g.dropLog, g.escaped]
        exact H_congr (by omega)
      | panic d =>
        simp only
        congr 2
        apply Vec.eq_of <;> simp [Vec.after, dropArg, setLen, h3, h4, g.dropLog, g.escaped]
        exact H_congr (by omega)

theorem truncateSpec_escaped (bombs : List Id) (xs : List Id) (n : Nat) : (truncateSpec bombs xs n).escaped = [] := by
  unfold truncateSpec; split <;> rfl

theorem resize_eq (env : Env) (v : Vec) (xs : List Id) (newLen : Nat) (value : Id) (o : List Outcome)
    (hs : v.slots = I xs ++ H (v.cap - v.len)) (hl : xs.length = v.len) :
    resize env v newLen value o =
      .ok ⟨(if newLen > v.len then grown env v (newLen - v.len) else v).after
              (resizeSpec (room env v (newLen - v.len)) env.bombs xs newLen value o),
           (resizeSpec (room env v (newLen - v.len)) env.bombs xs newLen value o).exit,
           (resizeSpec (room env v (newLen - v.len)) env.bombs xs newLen value o).rest⟩ := by
  unfold resize resizeSpec
  by_cases h : newLen > v.len
  · have h' : newLen > xs.length := by omega
    simp only [h, h', ↓reduceIte, hl]
    exact extendWith_eq env v xs (newLen - v.len) value o hs hl
  · have h' : ¬ newLen > xs.length := by omega
    simp only [h, h', ↓reduceIte]
    rw [truncate_eq env.bombs v xs newLen hs hl]
    simp only
    cases he : (truncateSpec env.bombs xs newLen).exit with
    | ret u =>
      simp only
      congr 2
      apply Vec.eq_of <;> simp [Vec.after, dropArg, truncateSpec_escaped]
    | panic d =>
      simp only
      congr 2
      apply Vec.eq_of <;> simp [Vec.after, dropArg, truncateSpec_escaped]

/-! ## extend_from_within_clone: the copy loop is the clone loop plus reads of initialised source slots -/

theorem extendWithinLoop_eq_clone (n : Nat) : ∀ (xs : List Id) (v : Vec) (src : Nat) (o : List Outcome) (m : Nat),
    v.slots = I xs ++ H m → v.len = xs.length → src + n ≤ xs.length →
    extendWithinLoop n v src o = extendCloneLoop n v o := by
  induction n with
  | zero => intro xs v src o m _ _ _; simp [extendWithinLoop, extendCloneLoop]
  | succ n ih =>
    intro xs v src o m hs hl hsrc
    have hlt : src < xs.length := by omega
    have hpk : peek v src = .ok (xs[src]) := by
      unfold peek; rw [hs]; simp [I, List.getElem?_append_left, hlt]
    simp only [extendWithinLoop, hpk]
    match o with
    | [] => simp [extendCloneLoop]
    | .panic :: o => simp [extendCloneLoop]
    | .ret id :: o =>
      simp only [extendCloneLoop]
      cases m with
      | zero =>
        have : write v v.len id = .error (.outOfBounds v.len) := by
          unfold write; rw [hs]; simp [hl]
        rw [this]
      | succ m =>
        have hs1 : v.slots = I xs ++ Slot.hole :: H m := by rw [hs]; simp
        rw [write_mid hs1 (by simp [hl])]
        simp only
        exact ih (xs ++ [id]) _ (src + 1) o m (by simp [setLen]) (by simp [setLen, hl]) (by simp; omega)

theorem extendFromWithinClone_eq (env : Env) (v : Vec) (xs : List Id) (start end_ : Nat) (o : List Outcome)
    (hs : v.slots = I xs ++ H (v.cap - v.len)) (hl : xs.length = v.len) (hr : start ≤ end_ ∧ end_ ≤ v.len) :
    extendFromWithinClone env v start end_ o = extendFromSliceClone env v (end_ - start) o := by
  unfold extendFromWithinClone extendFromSliceClone
  rw [if_neg (by omega)]
  cases hres : reserve env v (end_ - start) with
  | none => rfl
  | some v' =>
    have ⟨g, _⟩ := reserve_some hs hl hres
    simp only
    exact extendWithinLoop_eq_clone (end_ - start) xs v' start o _ g.slots (by rw [g.len, hl]) (by omega)

theorem extendFromWithinClone_bad (env : Env) (v : Vec) (start end_ : Nat) (o : List Outcome)
    (hr : start > end_ ∨ end_ > v.len) :
    extendFromWithinClone env v start end_ o = .ok ⟨v, .panic false, o⟩ := by
  unfold extendFromWithinClone; rw [if_pos hr]

/-! ## resize_with / pop_if -/

theorem extendCloneSpec_exit (n : Nat) : ∀ (xs : List Id) (o : List Outcome),
    (extendCloneSpec xs n o).exit = .ret () ∨ (extendCloneSpec xs n o).exit = .panic false := by
  induction n with
  | zero => intro xs o; simp [extendCloneSpec]
  | succ n ih =>
    intro xs o
    match o with
    | [] => simp [extendCloneSpec]
    | .panic :: o => simp [extendCloneSpec]
    | .ret id :: o => simp only [extendCloneSpec]; exact ih _ o

theorem resizeWith_eq (env : Env) (v : Vec) (xs : List Id) (newLen : Nat) (o : List Outcome)
    (hs : v.slots = I xs ++ H (v.cap - v.len)) (hl : xs.length = v.len) :
    resizeWith env v newLen o =
      .ok ⟨(if newLen > v.len then grown env v (newLen - v.len) else v).after
              (resizeWithSpec (room env v (newLen - v.len)) env.bombs xs newLen o),
           (resizeWithSpec (room env v (newLen - v.len)) env.bombs xs newLen o).exit,
           (resizeWithSpec (room env v (newLen - v.len)) env.bombs xs newLen o).rest⟩ := by
  unfold resizeWith resizeWithSpec
  by_cases h : newLen > v.len
  · have h' : newLen > xs.length := by omega
    simp only [h, h', ↓reduceIte, hl]
    unfold grown room
    cases hr : reserve env v (newLen - v.len) with
    | none =>
      simp only [Option.getD_none, Option.isSome_none, extendCloneSpecR, Bool.false_eq_true, ↓reduceIte, after_noop hs hl]
    | some v' =>
      have ⟨g, hc⟩ := reserve_some hs hl hr
      have hlen := g.len
      simp only [Option.getD_some, Option.isSome_some, extendCloneSpecR, ↓reduceIte]
      have hloop := extendWithLoop_eq (newLen - xs.length) xs v' o (v'.cap - v'.len) g.slots (by omega)
      rw [hlen, ← hl, hloop]
      have ⟨h1, h2⟩ := extendCloneSpec_length_le (newLen - xs.length) xs o
      have ⟨h3, h4⟩ := extendCloneSpec_logs (newLen - xs.length) xs o
      simp only
      congr 2
      · apply Vec.eq_of <;> simp [Vec.after, setLen, h3, h4, g.dropLog, g.escaped]
        exact H_congr (by omega)
      · rcases extendCloneSpec_exit (newLen - xs.length) xs o with h | h <;> rw [h] <;> rfl
  · have h' : ¬ newLen > xs.length := by omega
    simp only [h, h', ↓reduceIte]
    rw [truncate_eq env.bombs v xs newLen hs hl]
    simp only [Vec.after]

theorem popIf_eq (v : Vec) (xs : List Id) (o : List Outcome)
    (hs : v.slots = I xs ++ H (v.cap - v.len)) (hl : xs.length = v.len) :
    popIf v o = .ok ⟨v.after (popIfSpec xs o), (popIfSpec xs o).exit, (popIfSpec xs o).rest⟩ := by
  unfold popIf popIfSpec
  by_cases h0 : v.len = 0
  · have : xs = [] := List.eq_nil_of_length_eq_zero (by omega)
    subst this
    simp only [h0, ↓reduceIte, List.getLast?_nil, after_noop hs hl]
  · have hne : xs ≠ [] := by intro h; subst h; simp at hl; omega
    simp only [h0, ↓reduceIte, List.getLast?_eq_some_getLast hne]
    have hs1 : v.slots = I xs.dropLast ++ Slot.init (xs.getLast hne) :: H (v.cap - v.len) := by
      rw [hs, I_split_last xs hne]; simp
    rw [peek_mid hs1 (by simp; omega)]
    simp only
    match o with
    | [] => simp only [after_noop hs hl]
    | .panic :: o => simp only [after_noop hs hl]
    | .ret b :: o =>
      by_cases hb : b ≠ 0
      · simp only [hb, ne_eq, not_false_eq_true, ↓reduceIte]
        rw [pop_eq v xs hs hl]
        simp only [popSpec, List.getLast?_eq_some_getLast hne]
        congr 2
      · simp only [hb, ↓reduceIte, after_noop hs hl]

/-! ## append -/

theorem mapM_init (ys : List Id) : (I ys).mapM Slot.id? = some ys := by
  induction ys with
  | nil => rfl
  | cons y ys ih => simp [List.mapM_cons, ih, Slot.id?]

theorem append_eq (env : Env) (v other : Vec) (xs ys : List Id)
    (hs : v.slots = I xs ++ H (v.cap - v.len)) (hl : xs.length = v.len)
    (hso : other.slots = I ys ++ H (other.cap - other.len)) (hlo : ys.length = other.len) :
    append env v other =
      .ok (⟨(grown env v other.len).after (appendSpec (room env v other.len) xs ys),
            (appendSpec (room env v other.len) xs ys).exit, []⟩,
           appendedOther (room env v other.len) other ys) := by
  have hcapo := seg_len_le_cap hso hlo
  unfold append grown room
  simp only
  cases hr : reserve env v other.len with
  | none =>
    simp only [Option.getD_none, Option.isSome_none, appendSpec, Bool.false_eq_true, ↓reduceIte]
    have := dropRange_seg env.bombs ys true (setLen other 0) [] (H (other.cap - other.len)) 0 (by simpa [setLen] using hso) rfl
    rw [← hlo, this]
    simp only [after_noop hs hl]
    congr 2
    apply Vec.eq_of <;> simp [appendedOther, setLen]
    rw [← H_add]; congr 1; omega
  | some v' =>
    have ⟨g, hc⟩ := reserve_some hs hl hr
    have hlen := g.len
    simp only [Option.getD_some, Option.isSome_some, appendSpec, ↓reduceIte]
    have htake : other.slots.take other.len = I ys := by
      rw [hso, ← hlo]; have : ys.length = (I ys).length := by simp
      rw [this, List.take_left]
    rw [htake, mapM_init]
    simp only
    rw [if_neg (by omega)]
    have hdrop : v'.slots.drop v'.len = H (v'.cap - v'.len) := by
      rw [g.slots, hlen, ← hl]; have : xs.length = (I xs).length := by simp
      rw [this, List.drop_left]
    have htk : (v'.slots.drop v'.len).take other.len = H other.len := by
      rw [hdrop]; simp [H, List.take_replicate]; omega
    rw [if_neg (by rw [htk]; simp)]
    congr 2
    · congr 1
      apply Vec.eq_of <;> simp [Vec.after, setLen, g.dropLog, g.escaped, hlen, hl, hlo]
      · have ht : v'.slots.take v.len = I xs := by
          rw [g.slots, ← hl]; have : xs.length = (I xs).length := by simp
          rw [this, List.take_left]
        have hd : v'.slots.drop (v.len + other.len) = H (v'.cap - (v.len + other.len)) := by
          rw [g.slots, hlen]
          have e : v.len + other.len = (I xs).length + other.len := by simp [hl]
          rw [e, ← List.drop_drop, List.drop_left]
          simp only [H, List.drop_replicate]; congr 1; simp [hl]; omega
        rw [ht, hd]
    · apply Vec.eq_of <;> simp [appendedOther, setLen]
      have hd : other.slots.drop other.len = H (other.cap - other.len) := by
        rw [hso, ← hlo]; have : ys.length = (I ys).length := by simp
        rw [this, List.drop_left]
      rw [hd, ← H_add]; congr 1; omega

end Coll
