/-
  Lemmas/HistLedger.lean — the base-allocator LEDGER of one `Arena.step` (property C05 at the level of
  histories): the chunks created in a step correspond one to one to the grants of the step, and the
  releases made plus the releases still due balance the releases due before plus the new chunks.

  Method: a relation `LedgerStep` between two `State`s of the same step, closed under composition and
  under everything that does not touch `reqs`, `resps`, and the `(base, size)` of chunks (`Quiet`);
  pushed through every model function and then through every constructor of `stepCore`.
-/
import BumpProof.Lemmas.HistOpsD
import BumpProof.Props.C05
set_option linter.unusedSimpArgs false
set_option linter.unusedVariables false
namespace Arena.Hist
open Rs
variable {cfg : Cfg}

/-! ## list facts: `grantsOf`, `releasesOf`, `Matched` -/

/-- the `.alloc` requests of a request list -/
def allocsOf (rq : List BaseReq) : List BaseReq := rq.filter (fun q => !isDealloc q)

theorem grantsOf_append : ∀ (rq1 rq2 : List BaseReq) (u1 u2 : List BaseResp),
    (allocsOf rq1).length = u1.length →
    grantsOf (rq1 ++ rq2) (u1 ++ u2) = grantsOf rq1 u1 ++ grantsOf rq2 u2 := by
  intro rq1
  induction rq1 with
  | nil =>
    intro rq2 u1 u2 h
    cases u1 with
    | nil => simp [grantsOf]
    | cons x xs => simp [allocsOf] at h
  | cons q rs ih =>
    intro rq2 u1 u2 h
    cases q with
    | dealloc p sz al =>
      have h' : (allocsOf rs).length = u1.length := by
        simpa [allocsOf, isDealloc] using h
      simp only [List.cons_append, grantsOf]
      exact ih rq2 u1 u2 h'
    | alloc sz al =>
      cases u1 with
      | nil => simp [allocsOf, isDealloc] at h
      | cons x xs =>
        have h' : (allocsOf rs).length = xs.length := by
          simpa [allocsOf, isDealloc] using h
        cases x with
        | granted p g =>
          simp only [List.cons_append, grantsOf]
          rw [ih rq2 xs u2 h']
        | fail =>
          simp only [List.cons_append, grantsOf]
          exact ih rq2 xs u2 h'

theorem releasesOf_append (a b : List BaseReq) : releasesOf (a ++ b) = releasesOf a ++ releasesOf b := by
  unfold releasesOf; exact List.filter_append ..

theorem allocsOf_append (a b : List BaseReq) : allocsOf (a ++ b) = allocsOf a ++ allocsOf b := by
  unfold allocsOf; exact List.filter_append ..

/-- a list of releases: no grants, every element is a release -/
theorem releases_only : ∀ (l : List BaseReq), (∀ q ∈ l, isDealloc q = true) →
    allocsOf l = [] ∧ grantsOf l [] = [] ∧ releasesOf l = l := by
  intro l
  induction l with
  | nil => intro _; exact ⟨rfl, rfl, rfl⟩
  | cons q rs ih =>
    intro h
    obtain ⟨i1, i2, i3⟩ := ih (fun x hx => h x (List.mem_cons_of_mem _ hx))
    have hq := h q List.mem_cons_self
    cases q with
    | alloc sz al => simp [isDealloc] at hq
    | dealloc p sz al =>
      refine ⟨?_, ?_, ?_⟩
      · simpa [allocsOf, isDealloc] using i1
      · simpa [grantsOf] using i2
      · unfold releasesOf at i3 ⊢
        simp only [List.filter_cons, isDealloc, ↓reduceIte, i3]

theorem map_deallocReq_isDealloc (l : List Chunk) : ∀ q ∈ l.map (deallocReq cfg), isDealloc q = true := by
  intro q hq
  obtain ⟨c, _, rfl⟩ := List.mem_map.mp hq
  rfl

theorem Matched.append {α β : Type} {R : α → β → Prop} {a c : List α} {b d : List β}
    (h1 : Matched R a b) (h2 : Matched R c d) : Matched R (a ++ c) (b ++ d) := by
  induction h1 with
  | nil => exact h2
  | cons hr _ ih => exact Matched.cons hr ih

/-! ## `Quiet`: nothing the ledger looks at changed -/

/-- same requests, same pending responses, same releases due -/
def Quiet (cfg : Cfg) (s s' : State) : Prop :=
  s'.reqs = s.reqs ∧ s'.resps = s.resps ∧ owned cfg s' = owned cfg s

theorem Quiet.refl (s : State) : Quiet cfg s s := ⟨rfl, rfl, rfl⟩
theorem Quiet.of_eq {s s' : State} (h : s' = s) : Quiet cfg s s' := by subst h; exact Quiet.refl _
theorem Quiet.trans {a b c : State} (h1 : Quiet cfg a b) (h2 : Quiet cfg b c) : Quiet cfg a c :=
  ⟨h2.1.trans h1.1, h2.2.1.trans h1.2.1, h2.2.2.trans h1.2.2⟩
theorem Quiet.symm {a b : State} (h : Quiet cfg a b) : Quiet cfg b a := ⟨h.1.symm, h.2.1.symm, h.2.2.symm⟩

theorem Quiet.setPos (s : State) (i p : Nat) : Quiet cfg s (setPos s i p) :=
  ⟨rfl, rfl, C05.owned_setPos cfg s i p⟩
theorem Quiet.setCurPos (s : State) (p : Nat) : Quiet cfg s (setCurPos s p) :=
  ⟨Ledger.setCurPos_reqs _ _, Ledger.setCurPos_resps _ _, C05.owned_setCurPos cfg s p⟩

/-- same request / response lists and same chunk list -/
theorem Quiet.of_chunks {s s' : State} (h1 : s'.reqs = s.reqs) (h2 : s'.resps = s.resps)
    (h3 : s'.chunks = s.chunks) : Quiet cfg s s' := ⟨h1, h2, by unfold owned; rw [h3]⟩

/-! ## `LedgerStep` -/

/-- the ledger relation on what it looks at: requests made so far, responses still pending, releases due
    (before: `q p o`, after: `q' p' o'`) -/
def LS (cfg : Cfg) (q : List BaseReq) (p : List BaseResp) (o : List BaseReq)
    (q' : List BaseReq) (p' : List BaseResp) (o' : List BaseReq) : Prop :=
  ∃ (rq : List BaseReq) (used : List BaseResp) (acq : List Chunk),
    q' = q ++ rq ∧ p = used ++ p' ∧ (allocsOf rq).length = used.length ∧
    Matched (ChunkOfGrant cfg) acq (grantsOf rq used) ∧ releasesOf rq = [] ∧
    (releasesOf rq ++ o').Perm (o ++ acq.map (deallocReq cfg))

/-- between two states of the same step, NOTHING RELEASED in between: `s'.reqs = s.reqs ++ rq`,
    `s.resps = used ++ s'.resps`, one response was consumed per `alloc` request, the new chunks match the
    grants among `(rq, used)`, no release among `rq`, and the releases due afterwards are those due before
    plus one per new chunk.  (Transitive; every model function except `reset` / `manuallyDrop` satisfies it.) -/
def LedgerStep (cfg : Cfg) (s s' : State) : Prop :=
  LS cfg s.reqs s.resps (owned cfg s) s'.reqs s'.resps (owned cfg s')

theorem LS.refl (q : List BaseReq) (p : List BaseResp) (o : List BaseReq) : LS cfg q p o q p o :=
  ⟨[], [], [], by rw [List.append_nil], by simp, rfl, Matched.nil, rfl, by
    simp only [releasesOf, List.filter_nil, List.nil_append, List.map_nil, List.append_nil]
    exact List.Perm.refl _⟩

theorem LS.trans {q1 q2 q3 : List BaseReq} {p1 p2 p3 : List BaseResp} {o1 o2 o3 : List BaseReq}
    (h1 : LS cfg q1 p1 o1 q2 p2 o2) (h2 : LS cfg q2 p2 o2 q3 p3 o3) : LS cfg q1 p1 o1 q3 p3 o3 := by
  obtain ⟨rq1, u1, acq1, a1, a2, a3, a4, a6, a5⟩ := h1
  obtain ⟨rq2, u2, acq2, b1, b2, b3, b4, b6, b5⟩ := h2
  refine ⟨rq1 ++ rq2, u1 ++ u2, acq1 ++ acq2, ?_, ?_, ?_, ?_, ?_, ?_⟩
  · rw [b1, a1, List.append_assoc]
  · rw [a2, b2, List.append_assoc]
  · rw [allocsOf_append, List.length_append, List.length_append, a3, b3]
  · rw [grantsOf_append _ _ _ _ a3]
    exact a4.append b4
  · rw [releasesOf_append, a6, b6]; rfl
  · rw [releasesOf_append, List.map_append, List.append_assoc, ← List.append_assoc o1]
    exact ((List.Perm.append_left _ b5).trans
      (List.Perm.of_eq (List.append_assoc _ _ _).symm)).trans (List.Perm.append_right _ a5)

theorem Quiet.ledger {s s' : State} (h : Quiet cfg s s') : LedgerStep cfg s s' := by
  unfold LedgerStep; rw [h.1, h.2.1, h.2.2]; exact LS.refl _ _ _

theorem LedgerStep.refl (s : State) : LedgerStep cfg s s := LS.refl _ _ _

theorem LedgerStep.trans {a b c : State} (h1 : LedgerStep cfg a b) (h2 : LedgerStep cfg b c) :
    LedgerStep cfg a c := LS.trans h1 h2

theorem LedgerStep.quiet_right {a b c : State} (h1 : LedgerStep cfg a b) (h2 : Quiet cfg b c) :
    LedgerStep cfg a c := h1.trans h2.ledger
theorem LedgerStep.quiet_left {a b c : State} (h1 : Quiet cfg a b) (h2 : LedgerStep cfg b c) :
    LedgerStep cfg a c := h1.ledger.trans h2

/-- peel a ledger step / a quiet step off the right end (used by `ls_auto`) -/
theorem LS.trans_step {q : List BaseReq} {p : List BaseResp} {o : List BaseReq} {s s' : State}
    (h1 : LS cfg q p o s.reqs s.resps (owned cfg s)) (h2 : LedgerStep cfg s s') :
    LS cfg q p o s'.reqs s'.resps (owned cfg s') := LS.trans h1 h2
theorem LS.quiet_step {q : List BaseReq} {p : List BaseResp} {o : List BaseReq} {s s' : State}
    (h1 : LS cfg q p o s.reqs s.resps (owned cfg s)) (h2 : Quiet cfg s s') :
    LS cfg q p o s'.reqs s'.resps (owned cfg s') := LS.trans h1 h2.ledger

/-- the ledger relation of a whole step (releases allowed, not transitive): as `LedgerStep` without
    "nothing released", plus: every release names a chunk that was owned before -/
def LedgerR (cfg : Cfg) (s s' : State) : Prop :=
  ∃ (rq : List BaseReq) (used : List BaseResp) (acq : List Chunk),
    s'.reqs = s.reqs ++ rq ∧ s.resps = used ++ s'.resps ∧ (allocsOf rq).length = used.length ∧
    Matched (ChunkOfGrant cfg) acq (grantsOf rq used) ∧
    (releasesOf rq ++ owned cfg s').Perm (owned cfg s ++ acq.map (deallocReq cfg)) ∧
    ∀ q ∈ releasesOf rq, q ∈ owned cfg s

theorem LedgerStep.weaken {s s' : State} (h : LedgerStep cfg s s') : LedgerR cfg s s' := by
  obtain ⟨rq, used, acq, h1, h2, h3, h4, h5, h6⟩ := h
  exact ⟨rq, used, acq, h1, h2, h3, h4, h6, by rw [h5]; intro q hq; cases hq⟩

theorem LedgerR.quiet_right {a b c : State} (h : LedgerR cfg a b) (hq : Quiet cfg b c) : LedgerR cfg a c := by
  obtain ⟨rq, used, acq, h1, h2, h3, h4, h5, h6⟩ := h
  exact ⟨rq, used, acq, by rw [hq.1, h1], by rw [hq.2.1, h2], h3, h4, by rw [hq.2.2]; exact h5, h6⟩

/-- a step that only releases chunks it owned -/
theorem LedgerR.of_releases {s s' : State} {l : List BaseReq} (h1 : s'.reqs = s.reqs ++ l)
    (h2 : s'.resps = s.resps) (h3 : ∀ q ∈ l, isDealloc q = true)
    (h4 : (l ++ owned cfg s').Perm (owned cfg s)) : LedgerR cfg s s' := by
  obtain ⟨r1, r2, r3⟩ := releases_only l h3
  refine ⟨l, [], [], h1, by simp [h2], by simp [r1], by rw [r2]; exact Matched.nil, ?_, ?_⟩
  · rw [r3, List.map_nil, List.append_nil]
    exact h4
  · rw [r3]
    intro q hq
    exact h4.subset (List.mem_append_left _ hq)

/-! ## normal forms: what `reqs`, `resps`, `owned` of an updated state are -/

theorem owned_mk (s : State) (cu : Cur) (ma : Nat) (fr : List Frame) (li : List Block) (ni : Nat)
    (uc : List (Nat × Checkpoint × Nat)) (pr : Option Prepared) (rs : List BaseResp) (rq : List BaseReq) (dr : Bool) :
    owned cfg (State.mk s.chunks cu ma fr li ni uc pr rs rq dr) = owned cfg s := rfl
theorem owned_setPos (s : State) (i p : Nat) : owned cfg (setPos s i p) = owned cfg s := C05.owned_setPos cfg s i p
theorem owned_setCurPos (s : State) (p : Nat) : owned cfg (setCurPos s p) = owned cfg s := C05.owned_setCurPos cfg s p
theorem resetToStart_reqs (s : State) : (resetToStart cfg s).reqs = s.reqs := (C05.resetToStart_quiet cfg s).1
theorem resetToStart_resps (s : State) : (resetToStart cfg s).resps = s.resps := (C05.resetToStart_quiet cfg s).2.1
theorem owned_resetToStart (s : State) : owned cfg (resetToStart cfg s) = owned cfg s := (C05.resetToStart_quiet cfg s).2.2

/-! ## quiet model functions -/

theorem tryCur_quiet {k : Kind} {s : State} {L : Layout} {hh : Hints} {v : Nat × Nat} {s' : State}
    (e : tryCur cfg k s L hh = .ok (some (v, s'))) : Quiet cfg s s' := C05.tryCur_quiet e

theorem writeRange_quiet {s s' : State} {lo hi : Nat} {f : Nat → UInt8}
    (h : writeRange cfg s lo hi f = .ok s') : Quiet cfg s s' := by
  rcases Mem.writeRange_ok h with ⟨_, rfl⟩ | ⟨_, i, c, hc, _, _, _, _, rfl⟩
  · exact Quiet.refl _
  · refine ⟨rfl, rfl, ?_⟩
    unfold owned
    exact Arena.map_modify_at _ _ c _ _ hc rfl

theorem zeroRange_quiet {s s' : State} {a n : Nat} (h : zeroRange cfg s a n = .ok s') : Quiet cfg s s' :=
  writeRange_quiet h

theorem copyBytes_quiet {s s' : State} {src dst len : Nat} {b : Bool}
    (h : copyBytes cfg s src dst len b = .ok s') : Quiet cfg s s' := by
  rcases Mem.copyBytes_ok h with ⟨_, rfl⟩ | ⟨_, _, _, hwr⟩
  · exact Quiet.refl _
  · exact writeRange_quiet hwr

theorem deallocAssumeLast_quiet {s s' : State} {ptr size : Nat}
    (h : deallocAssumeLast cfg s ptr size = .ok s') : Quiet cfg s s' := by
  rcases Ledger.deallocAssumeLast_cases h with rfl | ⟨p, rfl⟩
  · exact Quiet.refl _
  · exact Quiet.setCurPos _ _

theorem deallocate_quiet {s s' : State} {ptr size : Nat}
    (h : deallocate cfg s ptr size = .ok s') : Quiet cfg s s' := C05.deallocate_quiet h

theorem resetTo_quiet {s s' : State} {cp : Checkpoint} (h : resetTo cfg s cp = .ok s') : Quiet cfg s s' :=
  C05.resetTo_quiet h

theorem alignTo_quiet {s s' : State} {n : Nat} (h : alignTo cfg s n = .ok s') : Quiet cfg s s' :=
  C05.alignTo_quiet h

theorem walkNext_quiet {k : Kind} {L : Layout} {hh : Hints} {fuel i : Nat} {s s' : State}
    {o : Option ((Nat × Nat) × State)} (h : walkNext cfg k L hh fuel i s = .ok (o, s')) : Quiet cfg s s' := by
  obtain ⟨h1, h2, h3, h4, _, _⟩ := Ledger.walkNext_frame fuel i s h
  refine ⟨h1, h2, ?_⟩
  have := C05.owned_prefix_of_ext (cfg := cfg) h4
  show C05.owned cfg s' = C05.owned cfg s
  rw [this, ← h3]
  unfold C05.owned
  rw [← List.length_map (f := deallocReq cfg), List.take_length]

/-! ## the closing tactic: normalise, then peel model-function calls off the right end -/

syntax "ls_norm" : tactic
macro_rules
  | `(tactic| ls_norm) =>
    `(tactic| simp only [owned_mk, owned_setPos, owned_setCurPos, resetToStart_reqs, resetToStart_resps,
        owned_resetToStart, Ledger.setPos_reqs, Ledger.setPos_resps, Ledger.setCurPos_reqs, Ledger.setCurPos_resps])

syntax "ls_peel0" : tactic
macro_rules
  | `(tactic| ls_peel0) =>
    `(tactic| first
      | exact LS.refl _ _ _
      | refine LS.quiet_step ?_ (tryCur_quiet (by assumption))
      | refine LS.quiet_step ?_ (copyBytes_quiet (by assumption))
      | refine LS.quiet_step ?_ (writeRange_quiet (by assumption))
      | refine LS.quiet_step ?_ (zeroRange_quiet (by assumption))
      | refine LS.quiet_step ?_ (deallocAssumeLast_quiet (by assumption))
      | refine LS.quiet_step ?_ (deallocate_quiet (by assumption))
      | refine LS.quiet_step ?_ (resetTo_quiet (by assumption))
      | refine LS.quiet_step ?_ (alignTo_quiet (by assumption))
      | refine LS.quiet_step ?_ (walkNext_quiet (by assumption)))

syntax "ls_auto0" : tactic
macro_rules
  | `(tactic| ls_auto0) =>
    `(tactic| (unfold LedgerStep; repeat (first | ls_peel0 | ls_norm)))

syntax "ls_split " ident " with " tacticSeq : tactic
macro_rules
  | `(tactic| ls_split $h with $t) =>
    `(tactic| (simp only [bind, Except.bind, pure, Except.pure, throw, throwThe, MonadExceptOf.throw] at $h:ident
               (repeat' split at $h:ident) <;> (first | (cases $h:ident; done) | (cases $h:ident; ($t)))))

theorem alignGuardDrop_quiet {s s' : State} {n : Nat} (h : alignGuardDrop cfg s n = .ok s') : Quiet cfg s s' := by
  unfold alignGuardDrop at h
  ls_split h with first | exact Quiet.refl _ | exact Quiet.setPos _ _ _

theorem alignChunkAt_quiet {s s' : State} {n : Nat} {st : Cur} (h : alignChunkAt cfg s n st = .ok s') :
    Quiet cfg s s' := by
  rcases alignChunkAt_cases h with rfl | ⟨j, c, p, _, _, _, _, rfl⟩
  · exact Quiet.refl _
  · exact Quiet.setPos _ _ _

theorem setPosAlignFrom_quiet {s s' : State} {a b : Nat} (h : setPosAlignFrom cfg s a b = .ok s') : Quiet cfg s s' := by
  unfold setPosAlignFrom at h
  ls_split h with exact Quiet.setCurPos _ _

/-! ## chunk creation: the only place where the base allocator is asked for memory -/

theorem newChunk_ls {s s' : State} {size : Nat} {r : Except AErr Nat}
    (h : newChunk cfg s size = .ok (s', r)) : LedgerStep cfg s s' := by
  rcases Ledger.newChunk_cases h with ⟨_, rfl, rfl⟩ | ⟨_, rest, hr, rfl, rfl⟩ |
    ⟨_, p, g, rest, size', hr, hal, hge, h16, rfl, rfl⟩
  · exact LedgerStep.refl _
  · refine ⟨[.alloc size cfg.hdr.align], [.fail], [], rfl, hr, rfl, Matched.nil, rfl, ?_⟩
    rw [List.map_nil, List.append_nil]
    exact List.Perm.refl _
  · refine ⟨[.alloc size cfg.hdr.align], [.granted p g], [Ledger.freshChunk cfg p g size size'], rfl, hr, rfl,
      Matched.cons ⟨rfl, rfl, hge, Mem.align_size_le hal⟩ Matched.nil, rfl, ?_⟩
    simp only [releasesOf, List.filter_cons, isDealloc, List.filter_nil, List.nil_append, owned, List.map_append,
      List.map_cons, List.map_nil, Bool.false_eq_true, ↓reduceIte]
    exact List.Perm.refl _

theorem newChunkForCapacity_ls {s s' : State} {L : Layout} {r : Except AErr Nat}
    (h : newChunkForCapacity cfg s L = .ok (s', r)) : LedgerStep cfg s s' := by
  rcases Ledger.newChunkForCapacity_cases h with ⟨rfl, rfl⟩ | ⟨_, _, _, _, h⟩
  · exact LedgerStep.refl _
  · exact newChunk_ls h

theorem appendFor_ls {s s' : State} {L : Layout} {r : Except AErr Nat}
    (h : appendFor cfg s L = .ok (s', r)) : LedgerStep cfg s s' := by
  obtain ⟨last, _, ⟨rfl, rfl⟩ | ⟨_, _, _, _, _, _, h⟩⟩ := Ledger.appendFor_cases h
  · exact LedgerStep.refl _
  · exact newChunk_ls h

/-! ## the slow path -/

theorem freshStep_ls {k : Kind} {L : Layout} {hh : Hints} {s1 s' : State} {r1 : Except AErr Nat}
    {r : Except AErr (Nat × Nat)} (h : Ledger.freshStep cfg k L hh (s1, r1) = .ok (s', r)) :
    LedgerStep cfg s1 s' := by
  cases r1 <;> simp only [Ledger.freshStep] at h
  · cases h; exact LedgerStep.refl _
  · ls_split h with ls_auto0

theorem appendStep_ls {k : Kind} {L : Layout} {hh : Hints} {i : Nat} {s1 s' : State} {r1 : Except AErr Nat}
    {r : Except AErr (Nat × Nat)} (h : Ledger.appendStep cfg k L hh i (s1, r1) = .ok (s', r)) :
    LedgerStep cfg s1 s' := by
  cases r1 with
  | error e => rw [Ledger.appendStep_error] at h; cases h; ls_auto0
  | ok idx => rw [Ledger.appendStep_ok] at h; exact freshStep_ls h

theorem inAnotherChunk_ls {k : Kind} {s s' : State} {L : Layout} {hh : Hints} {r : Except AErr (Nat × Nat)}
    (h : inAnotherChunk cfg k s L hh = .ok (s', r)) : LedgerStep cfg s s' := by
  rw [Ledger.inAnotherChunk_eq] at h
  split at h
  · cases h; exact LedgerStep.refl _
  · obtain ⟨⟨s1, r1⟩, hx, h⟩ := Ledger.bind_eq_ok h
    exact (newChunkForCapacity_ls hx).trans (freshStep_ls h)
  · obtain ⟨⟨o, s1⟩, hw, h⟩ := Ledger.bind_eq_ok h
    have hq := walkNext_quiet hw
    cases o with
    | some r0 =>
      obtain ⟨v, s2⟩ := r0
      have h2 := (Ledger.walkNext_frame _ _ _ hw).2.2.2.2.2 _ rfl
      simp only at h h2
      cases h
      subst h2
      exact hq.ledger
    | none =>
      simp only at h
      obtain ⟨⟨s2, r2⟩, hy, h⟩ := Ledger.bind_eq_ok h
      exact (hq.ledger.trans (appendFor_ls hy)).trans (appendStep_ls h)

/-- `inAnotherChunk` followed by a projection of the result (the shape `let (s', r) ← …` leaves behind) -/
theorem inAnotherChunk_ls_pair {k : Kind} {s s1 : State} {L : Layout} {hh : Hints}
    {v : State × Except AErr (Nat × Nat)} {α : Type} {x y : α}
    (hv : inAnotherChunk cfg k s L hh = .ok v) (he : (v.fst, x) = (s1, y)) : LedgerStep cfg s s1 := by
  obtain ⟨v1, v2⟩ := v
  cases he
  exact inAnotherChunk_ls hv

theorem allocGeneric_ls {k : Kind} {s s' : State} {L : Layout} {hh hs : Hints} {r : Except AErr (Nat × Nat)}
    (h : allocGeneric cfg k s L hh hs = .ok (s', r)) : LedgerStep cfg s s' := by
  unfold allocGeneric at h
  obtain ⟨o, ho, h⟩ := Ledger.bind_eq_ok h
  cases o with
  | some x =>
    obtain ⟨v, s1⟩ := x
    simp only [Ledger.pure_eq_ok, Except.ok.injEq, Prod.mk.injEq] at h
    obtain ⟨rfl, _⟩ := h
    exact (tryCur_quiet ho).ledger
  | none => exact inAnotherChunk_ls h

theorem alloc_ls {s s' : State} {L : Layout} {r : Except AErr Nat}
    (h : alloc cfg s L = .ok (s', r)) : LedgerStep cfg s s' := by
  unfold alloc at h
  ls_split h with exact allocGeneric_ls (by assumption)

/-! ## the closing tactic, extended with the chunk-creating functions -/

macro_rules
  | `(tactic| ls_peel0) =>
    `(tactic| first
      | refine LS.trans_step ?_ (newChunk_ls (by assumption))
      | refine LS.trans_step ?_ (newChunkForCapacity_ls (by assumption))
      | refine LS.trans_step ?_ (appendFor_ls (by assumption))
      | refine LS.trans_step ?_ (inAnotherChunk_ls (by assumption))
      | refine LS.trans_step ?_ (inAnotherChunk_ls_pair (by assumption) (by assumption))
      | refine LS.trans_step ?_ (allocGeneric_ls (by assumption))
      | refine LS.trans_step ?_ (alloc_ls (by assumption)))

/-- split every path of a model function; close the faulting paths; run `t` on the others -/
syntax "ls_paths " ident " with " tacticSeq : tactic
macro_rules
  | `(tactic| ls_paths $h with $t) =>
    `(tactic| (simp only [bind, Except.bind, pure, Except.pure, throw, throwThe, MonadExceptOf.throw] at $h:ident
               (repeat' split at $h:ident) <;> (first | (cases $h:ident; done) | (cases $h:ident; ($t)) | ($t))))

/-! ## `allocator_impl`: grow, shrink -/

theorem grow_ls {s s' : State} {ptr oldSize : Nat} {newL : Layout} {r : Except AErr Nat}
    (h : grow cfg s ptr oldSize newL = .ok (s', r)) : LedgerStep cfg s s' := by
  unfold grow at h
  ls_paths h with ls_auto0

theorem shrink_ls {s s' : State} {ptr oldSize : Nat} {newL : Layout} {r : Except AErr (Nat × Nat)}
    (h : shrink cfg s ptr oldSize newL = .ok (s', r)) : LedgerStep cfg s s' := by
  unfold shrink at h
  ls_paths h with ls_auto0

theorem shrinkWithoutShrink_ls {s s' : State} {ptr oldSize : Nat} {newL : Layout} {r : Except AErr (Nat × Nat)}
    (h : shrinkWithoutShrink cfg s ptr oldSize newL = .ok (s', r)) : LedgerStep cfg s s' := by
  unfold shrinkWithoutShrink at h
  ls_paths h with ls_auto0

theorem shrinkSlice_ls {s s' : State} {ptr oldSize newSize ealign : Nat} {r : Option Nat}
    (h : shrinkSlice cfg s ptr oldSize newSize ealign = .ok (s', r)) : LedgerStep cfg s s' := by
  unfold shrinkSlice at h
  ls_paths h with ls_auto0

/-! ## reserve -/

theorem reserve_ls {s s' : State} {n : Nat} {r : Except AErr Unit}
    (h : reserve cfg s n = .ok (s', r)) : LedgerStep cfg s s' := by
  unfold reserve at h
  ls_paths h with ls_auto0

theorem reserveDyn_ls {s s' : State} {n : Nat} {r : Except AErr Unit}
    (h : reserveDyn cfg s n = .ok (s', r)) : LedgerStep cfg s s' := by
  unfold reserveDyn at h
  ls_paths h with ls_auto0

/-! ## prepared allocations -/

theorem allocatePrepared_ls {s s' : State} {size rstart rend : Nat} {rev : Bool} {a : Nat}
    (h : allocatePrepared cfg s size rstart rend rev = .ok (s', a)) : LedgerStep cfg s s' := by
  unfold allocatePrepared at h
  ls_paths h with ls_auto0

macro_rules
  | `(tactic| ls_peel0) =>
    `(tactic| first
      | refine LS.quiet_step ?_ (setPosAlignFrom_quiet (by assumption))
      | refine LS.quiet_step ?_ (alignGuardDrop_quiet (by assumption))
      | refine LS.quiet_step ?_ (alignChunkAt_quiet (by assumption)))

theorem allocatePreparedSlice_ls {s s' : State} {ptr len cap esize ealign : Nat} {rev : Bool} {a : Nat}
    (h : allocatePreparedSlice cfg s ptr len cap esize ealign rev = .ok (s', a)) : LedgerStep cfg s s' := by
  unfold allocatePreparedSlice at h
  ls_paths h with ls_auto0

/-! ## the two releasing functions -/

theorem reset_ls {s : State} (hcur : ∀ i, s.cur = .chunk i → i < s.chunks.length) :
    LedgerR cfg s (reset cfg s) := by
  cases hc : s.cur with
  | unallocated => rw [C05.reset_quiet cfg s (Or.inl hc)]; exact (LedgerStep.refl _).weaken
  | claimed => rw [C05.reset_quiet cfg s (Or.inr hc)]; exact (LedgerStep.refl _).weaken
  | chunk i =>
    obtain ⟨l, last, hl, h1, h2, h3, _, h5, _⟩ := C05.reset_releases cfg s hc (hcur i hc)
    refine LedgerR.of_releases h1 ?_ ?_ ?_
    · simp only [reset, hc, hl]
    · intro q hq
      obtain ⟨c, _, rfl⟩ := List.mem_map.mp (h2.subset hq)
      rfl
    · have h5' : owned cfg (reset cfg s) = [deallocReq cfg last] := h5
      rw [h5']
      have hsplit : s.chunks = s.chunks.dropLast ++ [last] := by
        have hne : s.chunks ≠ [] := by intro h0; rw [h0] at hl; cases hl
        rw [List.getLast?_eq_some_getLast hne] at hl
        cases hl
        exact (List.dropLast_concat_getLast hne).symm
      have : owned cfg s = s.chunks.dropLast.map (deallocReq cfg) ++ [deallocReq cfg last] := by
        unfold owned
        conv => lhs; rw [hsplit]
        rw [List.map_append]; rfl
      rw [this]
      exact h2.append_right _

theorem manuallyDrop_ls {s : State} (hcur : ∀ i, s.cur = .chunk i → i < s.chunks.length) :
    LedgerR cfg s (manuallyDrop cfg s) := by
  cases hc : s.cur with
  | unallocated =>
    obtain ⟨h1, h2⟩ := C05.manuallyDrop_quiet cfg s (Or.inl hc)
    exact (Quiet.of_chunks h1 (by simp only [manuallyDrop, hc]) h2).ledger.weaken
  | claimed =>
    obtain ⟨h1, h2⟩ := C05.manuallyDrop_quiet cfg s (Or.inr hc)
    exact (Quiet.of_chunks h1 (by simp only [manuallyDrop, hc]) h2).ledger.weaken
  | chunk i =>
    obtain ⟨l, h1, h2, h3, _, h5⟩ := C05.manuallyDrop_releases_all cfg s hc (hcur i hc)
    refine LedgerR.of_releases h1 h5 ?_ ?_
    · intro q hq
      obtain ⟨c, _, rfl⟩ := List.mem_map.mp (h2.subset hq)
      rfl
    · have h3' : owned cfg (manuallyDrop cfg s) = [] := h3
      rw [h3', List.append_nil]
      exact h2

theorem manuallyDrop_owned {s : State} (hcur : ∀ i, s.cur = .chunk i → i < s.chunks.length)
    (hun : s.cur = .unallocated → s.chunks = []) (hcl : s.cur ≠ .claimed) :
    owned cfg (manuallyDrop cfg s) = [] := by
  cases hc : s.cur with
  | unallocated => simp only [owned, manuallyDrop, hc, hun hc, List.map_nil]
  | claimed => exact absurd hc hcl
  | chunk i => simp only [owned, manuallyDrop, hc, List.map_nil]

/-! ## `stepCore`, constructor by constructor -/

macro_rules
  | `(tactic| ls_peel0) =>
    `(tactic| first
      | refine LS.trans_step ?_ (grow_ls (by assumption))
      | refine LS.trans_step ?_ (shrink_ls (by assumption))
      | refine LS.trans_step ?_ (shrinkWithoutShrink_ls (by assumption))
      | refine LS.trans_step ?_ (shrinkSlice_ls (by assumption))
      | refine LS.trans_step ?_ (reserve_ls (by assumption))
      | refine LS.trans_step ?_ (reserveDyn_ls (by assumption))
      | refine LS.trans_step ?_ (allocatePrepared_ls (by assumption))
      | refine LS.trans_step ?_ (allocatePreparedSlice_ls (by assumption)))

/-- take one constructor of `stepCore` apart into its paths and close each with `ls_auto0` -/
syntax "ls_op " ident : tactic
macro_rules
  | `(tactic| ls_op $h) =>
    `(tactic| (unfold stepCore at $h:ident
               simp only [bind, Except.bind, pure, Except.pure, throw, throwThe, MonadExceptOf.throw,
                 okOut, addBlock, removeBlock, killFrom] at $h:ident
               (repeat' split at $h:ident) <;> (first | (cases $h:ident; done) | (cases $h:ident; ls_auto0))))

theorem ls_newWithSize {g g' : GState} {out : Out} {n : Nat}
    (hs : stepCore cfg g (.newWithSize n) = .ok (g', out)) : LedgerStep cfg g.s g'.s := by
  ls_op hs

theorem ls_newWithCapacity {g g' : GState} {out : Out} {L : Layout}
    (hs : stepCore cfg g (.newWithCapacity L) = .ok (g', out)) : LedgerStep cfg g.s g'.s := by
  ls_op hs

theorem ls_newUnallocated {g g' : GState} {out : Out} 
    (hs : stepCore cfg g (.newUnallocated) = .ok (g', out)) : LedgerStep cfg g.s g'.s := by
  ls_op hs

theorem ls_allocate {g g' : GState} {out : Out} {L : Layout} {z : Bool} {via : Via}
    (hs : stepCore cfg g (.allocate L z via) = .ok (g', out)) : LedgerStep cfg g.s g'.s := by
  ls_op hs

theorem ls_deallocate {g g' : GState} {out : Out} {b : Nat} {via : Via}
    (hs : stepCore cfg g (.deallocate b via) = .ok (g', out)) : LedgerStep cfg g.s g'.s := by
  ls_op hs

theorem ls_grow {g g' : GState} {out : Out} {b : Nat} {L : Layout} {z : Bool} {via : Via}
    (hs : stepCore cfg g (.grow b L z via) = .ok (g', out)) : LedgerStep cfg g.s g'.s := by
  ls_op hs

theorem ls_shrink {g g' : GState} {out : Out} {b : Nat} {L : Layout} {via : Via}
    (hs : stepCore cfg g (.shrink b L via) = .ok (g', out)) : LedgerStep cfg g.s g'.s := by
  ls_op hs

theorem ls_allocLayout {g g' : GState} {out : Out} {L : Layout} {hh : Hints}
    (hs : stepCore cfg g (.allocLayout L hh) = .ok (g', out)) : LedgerStep cfg g.s g'.s := by
  ls_op hs

theorem ls_shrinkSlice {g g' : GState} {out : Out} {b n : Nat}
    (hs : stepCore cfg g (.shrinkSlice b n) = .ok (g', out)) : LedgerStep cfg g.s g'.s := by
  ls_op hs

theorem ls_prepare {g g' : GState} {out : Out} {L : Layout}
    (hs : stepCore cfg g (.prepare L) = .ok (g', out)) : LedgerStep cfg g.s g'.s := by
  ls_op hs

theorem ls_commit {g g' : GState} {out : Out} {size : Nat} {rev : Bool}
    (hs : stepCore cfg g (.commit size rev) = .ok (g', out)) : LedgerStep cfg g.s g'.s := by
  ls_op hs

theorem ls_prepareSlice {g g' : GState} {out : Out} {esize ealign minCap : Nat} {rev : Bool}
    (hs : stepCore cfg g (.prepareSlice esize ealign minCap rev) = .ok (g', out)) : LedgerStep cfg g.s g'.s := by
  ls_op hs

theorem ls_fillPrepared {g g' : GState} {out : Out} {len seed : Nat}
    (hs : stepCore cfg g (.fillPrepared len seed) = .ok (g', out)) : LedgerStep cfg g.s g'.s := by
  ls_op hs

theorem ls_commitSlice {g g' : GState} {out : Out} {len : Nat}
    (hs : stepCore cfg g (.commitSlice len) = .ok (g', out)) : LedgerStep cfg g.s g'.s := by
  ls_op hs

theorem ls_abandonPrepared {g g' : GState} {out : Out} 
    (hs : stepCore cfg g (.abandonPrepared) = .ok (g', out)) : LedgerStep cfg g.s g'.s := by
  ls_op hs

theorem ls_reserve {g g' : GState} {out : Out} {n : Nat} {dyn : Bool}
    (hs : stepCore cfg g (.reserve n dyn) = .ok (g', out)) : LedgerStep cfg g.s g'.s := by
  cases dyn <;> ls_op hs

theorem ls_scopeEnter {g g' : GState} {out : Out} 
    (hs : stepCore cfg g (.scopeEnter) = .ok (g', out)) : LedgerStep cfg g.s g'.s := by
  ls_op hs

theorem ls_scopeExit {g g' : GState} {out : Out} 
    (hs : stepCore cfg g (.scopeExit) = .ok (g', out)) : LedgerStep cfg g.s g'.s := by
  ls_op hs

theorem ls_checkpoint {g g' : GState} {out : Out} {k : Nat}
    (hs : stepCore cfg g (.checkpoint k) = .ok (g', out)) : LedgerStep cfg g.s g'.s := by
  ls_op hs

theorem ls_resetTo {g g' : GState} {out : Out} {k : Nat}
    (hs : stepCore cfg g (.resetTo k) = .ok (g', out)) : LedgerStep cfg g.s g'.s := by
  ls_op hs

theorem ls_resetToStart {g g' : GState} {out : Out} 
    (hs : stepCore cfg g (.resetToStart) = .ok (g', out)) : LedgerStep cfg g.s g'.s := by
  ls_op hs

theorem ls_claim {g g' : GState} {out : Out} 
    (hs : stepCore cfg g (.claim) = .ok (g', out)) : LedgerStep cfg g.s g'.s := by
  ls_op hs

theorem ls_claimEnd {g g' : GState} {out : Out} 
    (hs : stepCore cfg g (.claimEnd) = .ok (g', out)) : LedgerStep cfg g.s g'.s := by
  ls_op hs

theorem ls_onClaimed {g g' : GState} {out : Out} {op : Op}
    (hs : stepCore cfg g (.onClaimed op) = .ok (g', out)) : LedgerStep cfg g.s g'.s := by
  ls_op hs

theorem ls_alignedEnter {g g' : GState} {out : Out} {n : Nat}
    (hs : stepCore cfg g (.alignedEnter n) = .ok (g', out)) : LedgerStep cfg g.s g'.s := by
  ls_op hs

theorem ls_alignedExit {g g' : GState} {out : Out} 
    (hs : stepCore cfg g (.alignedExit) = .ok (g', out)) : LedgerStep cfg g.s g'.s := by
  ls_op hs

theorem ls_scopedAlignedEnter {g g' : GState} {out : Out} {n : Nat}
    (hs : stepCore cfg g (.scopedAlignedEnter n) = .ok (g', out)) : LedgerStep cfg g.s g'.s := by
  ls_op hs

theorem ls_scopedAlignedExit {g g' : GState} {out : Out} 
    (hs : stepCore cfg g (.scopedAlignedExit) = .ok (g', out)) : LedgerStep cfg g.s g'.s := by
  ls_op hs

theorem ls_withSettings {g g' : GState} {out : Out} {n : Nat} {ga cl : Bool}
    (hs : stepCore cfg g (.withSettings n ga cl) = .ok (g', out)) : LedgerStep cfg g.s g'.s := by
  ls_op hs

theorem ls_atw1 {g g' : GState} {out : Out} {L Li : Layout} {off vsize : Nat}
    (hs : stepCore cfg g (.allocTryWith L off vsize false none false) = .ok (g', out)) : LedgerStep cfg g.s g'.s := by
  unfold stepCore at hs
  simp only [bind, Except.bind, pure, Except.pure, throw, throwThe, MonadExceptOf.throw,
    okOut, addBlock, removeBlock, killFrom, Bool.false_eq_true, ↓reduceIte, Bool.true_or, Bool.false_or] at hs
  (repeat' split at hs) <;> (first | (cases hs; done) | (cases hs; ls_auto0))

theorem ls_atw2 {g g' : GState} {out : Out} {L Li : Layout} {off vsize : Nat}
    (hs : stepCore cfg g (.allocTryWith L off vsize true none false) = .ok (g', out)) : LedgerStep cfg g.s g'.s := by
  unfold stepCore at hs
  simp only [bind, Except.bind, pure, Except.pure, throw, throwThe, MonadExceptOf.throw,
    okOut, addBlock, removeBlock, killFrom, Bool.false_eq_true, ↓reduceIte, Bool.true_or, Bool.false_or] at hs
  (repeat' split at hs) <;> (first | (cases hs; done) | (cases hs; ls_auto0))

theorem ls_atw3 {g g' : GState} {out : Out} {L Li : Layout} {off vsize : Nat}
    (hs : stepCore cfg g (.allocTryWith L off vsize false none true) = .ok (g', out)) : LedgerStep cfg g.s g'.s := by
  unfold stepCore at hs
  simp only [bind, Except.bind, pure, Except.pure, throw, throwThe, MonadExceptOf.throw,
    okOut, addBlock, removeBlock, killFrom, Bool.false_eq_true, ↓reduceIte, Bool.true_or, Bool.false_or] at hs
  (repeat' split at hs) <;> (first | (cases hs; done) | (cases hs; ls_auto0))

theorem ls_atw4 {g g' : GState} {out : Out} {L Li : Layout} {off vsize : Nat}
    (hs : stepCore cfg g (.allocTryWith L off vsize true none true) = .ok (g', out)) : LedgerStep cfg g.s g'.s := by
  unfold stepCore at hs
  simp only [bind, Except.bind, pure, Except.pure, throw, throwThe, MonadExceptOf.throw,
    okOut, addBlock, removeBlock, killFrom, Bool.false_eq_true, ↓reduceIte, Bool.true_or, Bool.false_or] at hs
  (repeat' split at hs) <;> (first | (cases hs; done) | (cases hs; ls_auto0))

theorem ls_atw5 {g g' : GState} {out : Out} {L Li : Layout} {off vsize : Nat}
    (hs : stepCore cfg g (.allocTryWith L off vsize false (some Li) false) = .ok (g', out)) : LedgerStep cfg g.s g'.s := by
  unfold stepCore at hs
  simp only [bind, Except.bind, pure, Except.pure, throw, throwThe, MonadExceptOf.throw,
    okOut, addBlock, removeBlock, killFrom, Bool.false_eq_true, ↓reduceIte, Bool.true_or, Bool.false_or] at hs
  (repeat' split at hs) <;> (first | (cases hs; done) | (cases hs; ls_auto0))

theorem ls_atw6 {g g' : GState} {out : Out} {L Li : Layout} {off vsize : Nat}
    (hs : stepCore cfg g (.allocTryWith L off vsize true (some Li) false) = .ok (g', out)) : LedgerStep cfg g.s g'.s := by
  unfold stepCore at hs
  simp only [bind, Except.bind, pure, Except.pure, throw, throwThe, MonadExceptOf.throw,
    okOut, addBlock, removeBlock, killFrom, Bool.false_eq_true, ↓reduceIte, Bool.true_or, Bool.false_or] at hs
  (repeat' split at hs) <;> (first | (cases hs; done) | (cases hs; ls_auto0))

theorem ls_atw7 {g g' : GState} {out : Out} {L Li : Layout} {off vsize : Nat}
    (hs : stepCore cfg g (.allocTryWith L off vsize false (some Li) true) = .ok (g', out)) : LedgerStep cfg g.s g'.s := by
  unfold stepCore at hs
  simp only [bind, Except.bind, pure, Except.pure, throw, throwThe, MonadExceptOf.throw,
    okOut, addBlock, removeBlock, killFrom, Bool.false_eq_true, ↓reduceIte, Bool.true_or, Bool.false_or] at hs
  (repeat' split at hs) <;> (first | (cases hs; done) | (cases hs; ls_auto0))

theorem ls_atw8 {g g' : GState} {out : Out} {L Li : Layout} {off vsize : Nat}
    (hs : stepCore cfg g (.allocTryWith L off vsize true (some Li) true) = .ok (g', out)) : LedgerStep cfg g.s g'.s := by
  unfold stepCore at hs
  simp only [bind, Except.bind, pure, Except.pure, throw, throwThe, MonadExceptOf.throw,
    okOut, addBlock, removeBlock, killFrom, Bool.false_eq_true, ↓reduceIte, Bool.true_or, Bool.false_or] at hs
  (repeat' split at hs) <;> (first | (cases hs; done) | (cases hs; ls_auto0))

theorem ls_allocTryWith {g g' : GState} {out : Out} {L : Layout} {off vsize : Nat} {ok : Bool}
    {inner : Option Layout} {m : Bool}
    (hs : stepCore cfg g (.allocTryWith L off vsize ok inner m) = .ok (g', out)) : LedgerStep cfg g.s g'.s := by
  cases inner <;> cases m <;> cases ok
  · exact ls_atw1 (Li := L) hs
  · exact ls_atw2 (Li := L) hs
  · exact ls_atw3 (Li := L) hs
  · exact ls_atw4 (Li := L) hs
  · exact ls_atw5 hs
  · exact ls_atw6 hs
  · exact ls_atw7 hs
  · exact ls_atw8 hs

theorem ls_write {g g' : GState} {out : Out} {b seed : Nat}
    (hs : stepCore cfg g (.write b seed) = .ok (g', out)) : LedgerStep cfg g.s g'.s := by
  ls_op hs

theorem ls_split {g g' : GState} {out : Out} {b a : Nat}
    (hs : stepCore cfg g (.split b a) = .ok (g', out)) : LedgerStep cfg g.s g'.s := by
  ls_op hs

/-! ## the two releasing operations -/

theorem lr_drop {g g' : GState} {out : Out} (hcur : ∀ i, g.s.cur = .chunk i → i < g.s.chunks.length)
    (hs : stepCore cfg g .drop = .ok (g', out)) : LedgerR cfg g.s g'.s := by
  unfold stepCore at hs
  simp only [bind, Except.bind, pure, Except.pure] at hs
  (repeat' split at hs) <;> first | (cases hs; done) | cases hs
  exact (manuallyDrop_ls hcur).quiet_right ⟨rfl, rfl, rfl⟩

theorem lr_reset {g g' : GState} {out : Out} (hcur : ∀ i, g.s.cur = .chunk i → i < g.s.chunks.length)
    (hs : stepCore cfg g .reset = .ok (g', out)) : LedgerR cfg g.s g'.s := by
  unfold stepCore at hs
  simp only [bind, Except.bind, pure, Except.pure] at hs
  (repeat' split at hs) <;> first | (cases hs; done) | cases hs
  exact (reset_ls hcur).quiet_right ⟨rfl, rfl, rfl⟩

/-- what `drop` leaves behind -/
theorem drop_state {g g' : GState} {out : Out} (hs : stepCore cfg g .drop = .ok (g', out)) :
    g'.s.chunks = (manuallyDrop cfg g.s).chunks := by
  unfold stepCore at hs
  simp only [bind, Except.bind, pure, Except.pure] at hs
  (repeat' split at hs) <;> first | (cases hs; done) | cases hs
  rfl

/-! ## every operation -/

/-- THE LEDGER OF `stepCore`, for every constructor of `Op` (no coverage side condition): the only thing
    needed from the invariant is that the current chunk index is valid -/
theorem stepCore_ledger {g g' : GState} {op : Op} {out : Out}
    (hcur : ∀ i, g.s.cur = .chunk i → i < g.s.chunks.length)
    (hs : stepCore cfg g op = .ok (g', out)) : LedgerR cfg g.s g'.s := by
  cases op with
  | drop => exact lr_drop hcur hs
  | reset => exact lr_reset hcur hs
  | newWithSize n => exact (ls_newWithSize hs).weaken
  | newWithCapacity L => exact (ls_newWithCapacity hs).weaken
  | newUnallocated => exact (ls_newUnallocated hs).weaken
  | allocate L z via => exact (ls_allocate hs).weaken
  | deallocate b via => exact (ls_deallocate hs).weaken
  | grow b L z via => exact (ls_grow hs).weaken
  | shrink b L via => exact (ls_shrink hs).weaken
  | allocLayout L hh => exact (ls_allocLayout hs).weaken
  | shrinkSlice b n => exact (ls_shrinkSlice hs).weaken
  | prepare L => exact (ls_prepare hs).weaken
  | commit size rev => exact (ls_commit hs).weaken
  | prepareSlice esize ealign minCap rev => exact (ls_prepareSlice hs).weaken
  | fillPrepared len seed => exact (ls_fillPrepared hs).weaken
  | commitSlice len => exact (ls_commitSlice hs).weaken
  | abandonPrepared => exact (ls_abandonPrepared hs).weaken
  | reserve n dyn => exact (ls_reserve hs).weaken
  | scopeEnter => exact (ls_scopeEnter hs).weaken
  | scopeExit => exact (ls_scopeExit hs).weaken
  | checkpoint k => exact (ls_checkpoint hs).weaken
  | resetTo k => exact (ls_resetTo hs).weaken
  | resetToStart => exact (ls_resetToStart hs).weaken
  | claim => exact (ls_claim hs).weaken
  | claimEnd => exact (ls_claimEnd hs).weaken
  | onClaimed op' => exact (ls_onClaimed hs).weaken
  | alignedEnter n => exact (ls_alignedEnter hs).weaken
  | alignedExit => exact (ls_alignedExit hs).weaken
  | scopedAlignedEnter n => exact (ls_scopedAlignedEnter hs).weaken
  | scopedAlignedExit => exact (ls_scopedAlignedExit hs).weaken
  | withSettings n ga cl => exact (ls_withSettings hs).weaken
  | allocTryWith L off vsize ok inner m => exact (ls_allocTryWith hs).weaken
  | write b seed => exact (ls_write hs).weaken
  | split b at_ => exact (ls_split hs).weaken

/-- every operation except `drop` and `reset` releases nothing -/
theorem stepCore_no_release {g g' : GState} {op : Op} {out : Out}
    (hd : op ≠ .drop) (hr : op ≠ .reset)
    (hs : stepCore cfg g op = .ok (g', out)) : LedgerStep cfg g.s g'.s := by
  cases op with
  | drop => exact (hd rfl).elim
  | reset => exact (hr rfl).elim
  | newWithSize n => exact ls_newWithSize hs
  | newWithCapacity L => exact ls_newWithCapacity hs
  | newUnallocated => exact ls_newUnallocated hs
  | allocate L z via => exact ls_allocate hs
  | deallocate b via => exact ls_deallocate hs
  | grow b L z via => exact ls_grow hs
  | shrink b L via => exact ls_shrink hs
  | allocLayout L hh => exact ls_allocLayout hs
  | shrinkSlice b n => exact ls_shrinkSlice hs
  | prepare L => exact ls_prepare hs
  | commit size rev => exact ls_commit hs
  | prepareSlice esize ealign minCap rev => exact ls_prepareSlice hs
  | fillPrepared len seed => exact ls_fillPrepared hs
  | commitSlice len => exact ls_commitSlice hs
  | abandonPrepared => exact ls_abandonPrepared hs
  | reserve n dyn => exact ls_reserve hs
  | scopeEnter => exact ls_scopeEnter hs
  | scopeExit => exact ls_scopeExit hs
  | checkpoint k => exact ls_checkpoint hs
  | resetTo k => exact ls_resetTo hs
  | resetToStart => exact ls_resetToStart hs
  | claim => exact ls_claim hs
  | claimEnd => exact ls_claimEnd hs
  | onClaimed op' => exact ls_onClaimed hs
  | alignedEnter n => exact ls_alignedEnter hs
  | alignedExit => exact ls_alignedExit hs
  | scopedAlignedEnter n => exact ls_scopedAlignedEnter hs
  | scopedAlignedExit => exact ls_scopedAlignedExit hs
  | withSettings n ga cl => exact ls_withSettings hs
  | allocTryWith L off vsize ok inner m => exact ls_allocTryWith hs
  | write b seed => exact ls_write hs
  | split b at_ => exact ls_split hs

/-! ## `step` -/

/-- what `step` does, taken apart (copy of `HistStep.step_ok`) -/
theorem step_ok' {g g' : GState} {op : Op} {resps : List BaseResp} {out : Out} {reqs : List BaseReq}
    (hs : step cfg g op resps = .ok (g', out, reqs)) :
    stepCore cfg (install g resps) op = .ok (g', out) ∧ g'.s.resps = [] ∧ reqs = g'.s.reqs := by
  unfold step at hs
  simp only [bind, Except.bind, pure, Except.pure] at hs
  split at hs
  · cases hs
  · rename_i x hx
    obtain ⟨g1, o1⟩ := x
    simp only at hs
    split at hs
    · cases hs
    · rename_i hemp
      cases hs
      refine ⟨hx, ?_, rfl⟩
      simpa using hemp

theorem Inv.cur_lt {g : GState} (h : Inv cfg g) : ∀ i, g.s.cur = .chunk i → i < g.s.chunks.length := by
  intro i hi
  obtain ⟨c, hc, _⟩ := h.geom.cur i hi
  exact (List.getElem?_eq_some_iff.1 hc).1

/-- the ledger of one step in terms of the requests returned and the responses supplied -/
theorem step_ledgerR {g g' : GState} {op : Op} {resps : List BaseResp} {out : Out} {reqs : List BaseReq}
    (h : Inv cfg g) (hs : step cfg g op resps = .ok (g', out, reqs)) :
    ∃ acq : List Chunk, Matched (ChunkOfGrant cfg) acq (grantsOf reqs resps) ∧
      (releasesOf reqs ++ owned cfg g'.s).Perm (owned cfg g.s ++ acq.map (deallocReq cfg)) ∧
      ∀ q ∈ releasesOf reqs, q ∈ owned cfg g.s := by
  obtain ⟨h1, h2, h3⟩ := step_ok' hs
  obtain ⟨rq, used, acq, a1, a2, a3, a4, a5, a6⟩ := stepCore_ledger (g := install g resps) h.cur_lt h1
  have e1 : rq = reqs := by
    rw [h3, a1]; rfl
  have e2 : used = resps := by
    rw [h2, List.append_nil] at a2
    exact a2.symm
  subst e1 e2
  exact ⟨acq, a4, a5, a6⟩

/-- one step: the chunks created in this step correspond one to one (in order) to the grants of the step —
    same pointer, header alignment, size in use between requested and granted — and the releases made
    in this step plus the releases still due afterwards are a permutation of the releases due before plus
    one release per new chunk.  Holds for EVERY constructor of `Op`, no coverage condition. -/
theorem ledger_step {g g' : GState} {op : Op} {resps : List BaseResp} {out : Out} {reqs : List BaseReq}
    (h : Inv cfg g) (hs : step cfg g op resps = .ok (g', out, reqs)) :
    ∃ acq : List Chunk, Matched (ChunkOfGrant cfg) acq (grantsOf reqs resps) ∧
      (releasesOf reqs ++ owned cfg g'.s).Perm (owned cfg g.s ++ acq.map (deallocReq cfg)) := by
  obtain ⟨acq, h1, h2, _⟩ := step_ledgerR h hs
  exact ⟨acq, h1, h2⟩

/-- after `drop` nothing is outstanding (needs the invariant: in an unreachable state with
    `cur = .claimed` or with `cur = .unallocated` and a non-empty chunk list `manuallyDrop` keeps the chunks) -/
theorem drop_owned_nil {g g' : GState} {resps : List BaseResp} {out : Out} {reqs : List BaseReq}
    (h : Inv cfg g) (hs : step cfg g .drop resps = .ok (g', out, reqs)) : owned cfg g'.s = [] := by
  obtain ⟨h1, _, _⟩ := step_ok' hs
  have := drop_state h1
  unfold owned
  rw [this]
  exact manuallyDrop_owned (cfg := cfg) (s := (install g resps).s) h.cur_lt h.unalloc h.notClaimed

/-- every release names a chunk that was owned before the step: same pointer, the chunk's size in use,
    the header alignment (in particular no chunk created in a step is released in the same step) -/
theorem release_shape {g g' : GState} {op : Op} {resps : List BaseResp} {out : Out} {reqs : List BaseReq}
    (h : Inv cfg g) (hs : step cfg g op resps = .ok (g', out, reqs)) :
    ∀ q ∈ releasesOf reqs, ∃ c ∈ g.s.chunks, q = .dealloc c.base c.size cfg.hdr.align := by
  obtain ⟨acq, _, _, h3⟩ := step_ledgerR h hs
  intro q hq
  obtain ⟨c, hc, rfl⟩ := List.mem_map.mp (h3 q hq)
  exact ⟨c, hc, rfl⟩

/-- only `drop` and `reset` release chunks -/
theorem step_no_release {g g' : GState} {op : Op} {resps : List BaseResp} {out : Out} {reqs : List BaseReq}
    (hd : op ≠ .drop) (hr : op ≠ .reset)
    (hs : step cfg g op resps = .ok (g', out, reqs)) : releasesOf reqs = [] := by
  obtain ⟨h1, h2, h3⟩ := step_ok' hs
  obtain ⟨rq, used, acq, a1, a2, a3, a4, a5, a6⟩ := stepCore_no_release (g := install g resps) hd hr h1
  have e1 : rq = reqs := by
    rw [h3, a1]; rfl
  rw [← e1]; exact a5

/-! ## non-vacuity -/

example : Inv exCfg (initG exCfg) := inv_init exCfg_ok
/-- a step that asks the base allocator for a chunk and gets one -/
example : ∃ g' out reqs, step exCfg (initG exCfg) (.newWithSize 512) [.granted 0x10000 512] = .ok (g', out, reqs) :=
  ⟨_, _, _, rfl⟩
example : ∃ g' out reqs, step exCfg (initG exCfg) .drop [] = .ok (g', out, reqs) := ⟨_, _, _, rfl⟩

end Arena.Hist
