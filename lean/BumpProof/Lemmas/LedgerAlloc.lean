/-
  Lemmas/LedgerAlloc.lean — frames of the allocation slow path (`walkNext`, `inAnotherChunk`,
  `allocGeneric`, `alloc`, `reserve`): what a call may change, for every outcome.
-/
import BumpProof.Lemmas.Ledger

set_option linter.unusedSimpArgs false
set_option linter.unusedVariables false

namespace Ledger
open Arena Rs

/-! ## walkNext -/
/-- re-entering chunk `i+1`: it becomes current and is reset -/
theorem Ext.enter (cfg : Cfg) (s : State) {i : Nat} {c : Chunk} (hc : s.chunks[i+1]? = some c) :
    Ext (i+1) s { s with chunks := s.chunks.set (i+1) (c.resetPos cfg), cur := .chunk (i+1) } :=
  ⟨rfl, rfl, rfl, rfl, rfl, rfl, rfl, fun j x hx => by
    show ∃ c', (s.chunks.set (i+1) (c.resetPos cfg))[j]? = some c' ∧ _
    rw [List.getElem?_set]
    by_cases hij : i + 1 = j
    · subst hij
      have hlt := (List.getElem?_eq_some_iff.1 hx).1
      rw [hc] at hx; cases hx
      simp only [↓reduceIte, hlt]
      exact ⟨_, rfl, SamePlace.refl _, fun hj => by omega⟩
    · simp only [hij, ↓reduceIte]
      exact ⟨x, hx, SamePlace.refl x, fun _ => rfl⟩⟩

/-- frame of `walkNext`, for every outcome: no base-allocator traffic, no chunk added or removed,
    only chunks after `i` are repositioned, the current chunk can only move forward -/
theorem walkNext_frame {cfg : Cfg} {k : Kind} {L : Layout} {h : Hints} :
    ∀ (fuel i : Nat) (s : State) {o : Option ((Nat × Nat) × State)} {s' : State},
    walkNext cfg k L h fuel i s = .ok (o, s') →
    s'.reqs = s.reqs ∧ s'.resps = s.resps ∧ s'.chunks.length = s.chunks.length ∧ Ext (i+1) s s' ∧
    (s'.cur = s.cur ∨ ∃ j, i < j ∧ j < s.chunks.length ∧ s'.cur = .chunk j) ∧
    (∀ r, o = some r → r.2 = s') := by
  intro fuel
  induction fuel with
  | zero =>
    intro i s o s' e
    simp only [walkNext, pure_eq_ok, Except.ok.injEq, Prod.mk.injEq] at e
    obtain ⟨rfl, rfl⟩ := e
    exact ⟨rfl, rfl, rfl, Ext.refl _ _, Or.inl rfl, fun r hr => by cases hr⟩
  | succ fuel ih =>
    intro i s o s' e
    unfold walkNext at e
    cases hc : s.chunks[i+1]? with
    | none =>
      simp only [hc, pure_eq_ok, Except.ok.injEq, Prod.mk.injEq] at e
      obtain ⟨rfl, rfl⟩ := e
      exact ⟨rfl, rfl, rfl, Ext.refl _ _, Or.inl rfl, fun r hr => by cases hr⟩
    | some c =>
      simp only [hc] at e
      have hlt := (List.getElem?_eq_some_iff.1 hc).1
      have hext := Ext.enter cfg s hc
      obtain ⟨t, ht, e⟩ := bind_eq_ok e
      cases t with
      | some r =>
        simp only [pure_eq_ok, Except.ok.injEq, Prod.mk.injEq] at e
        obtain ⟨rfl, rfl⟩ := e
        obtain ⟨v, s2⟩ := r
        obtain ⟨f1, f2, f3, f4, f5⟩ := tryCur_frame ht
        refine ⟨f2, f3, ?_, hext.trans (f5 (i+1) ?_), Or.inr ⟨i+1, Nat.lt_succ_self i, hlt, f1⟩,
          fun r hr => by cases hr; rfl⟩
        · rw [f4]; exact List.length_set
        · intro j hj; cases hj; exact Nat.le_refl _
      | none =>
        simp only at e
        obtain ⟨g1, g2, g3, g4, g5, g6⟩ := ih (i+1) _ e
        refine ⟨g1, g2, ?_, hext.trans (g4.mono (Nat.le_succ _)), Or.inr ?_, g6⟩
        · rw [g3]; exact List.length_set
        · rcases g5 with g5 | ⟨j, hj1, hj2, hj3⟩
          · exact ⟨i+1, Nat.lt_succ_self i, hlt, g5⟩
          · refine ⟨j, by omega, ?_, hj3⟩
            simpa only [List.length_set] using hj2

/-! ## The closure fresh of inAnotherChunk -/
/-- positions are only compared for existing chunks, so bounds beyond the chunk count are equivalent -/
theorem Ext.clamp {n m : Nat} {s s' : State} (h : Ext m s s') (hm : ∀ j, j < n → j < s.chunks.length → j < m) :
    Ext n s s' :=
  ⟨h.live, h.minAlign, h.frames, h.nextId, h.userCps, h.prepared, h.dropped, fun j c hc => by
      obtain ⟨c', h1, h2, h3⟩ := h.chunk j c hc
      exact ⟨c', h1, h2, fun hj => h3 (hm j hj (List.getElem?_eq_some_iff.1 hc).1)⟩⟩

/-- making another chunk current changes nothing else -/
theorem Ext.setCur (n : Nat) (s : State) (c : Cur) : Ext n s { s with cur := c } :=
  ⟨rfl, rfl, rfl, rfl, rfl, rfl, rfl, fun j x hx => ⟨x, hx, SamePlace.refl x, fun _ => rfl⟩⟩

/-- the closure `fresh` of `inAnotherChunk`: make the new chunk current and allocate from it -/
def freshStep (cfg : Cfg) (k : Kind) (L : Layout) (h : Hints) (r : State × Except AErr Nat) :
    R (State × Except AErr (Nat × Nat)) :=
  match r with
  | (s', .error e) => pure (s', .error e)
  | (s', .ok i) => do
    let s' := { s' with cur := .chunk i }
    match ← tryCur cfg k s' L h with
    | some (v, s'') => pure (s'', .ok v)
    | none => throw (.ub "unreachable_unchecked: the layout does not fit the chunk that was created for it")

/-- what `inAnotherChunk` does with the result of `appendFor` when it started in chunk `i`: a failed
    request leaves chunk `i` current (fix c107ca6), a new chunk is entered by `freshStep` -/
def appendStep (cfg : Cfg) (k : Kind) (L : Layout) (h : Hints) (i : Nat) (r : State × Except AErr Nat) :
    R (State × Except AErr (Nat × Nat)) :=
  match r with
  | (s'', .error e) => pure ({ s'' with cur := .chunk i }, .error e)
  | r => freshStep cfg k L h r

theorem appendStep_error (cfg : Cfg) (k : Kind) (L : Layout) (h : Hints) (i : Nat) (s1 : State) (e : AErr) :
    appendStep cfg k L h i (s1, .error e) = .ok ({ s1 with cur := .chunk i }, .error e) := rfl

theorem appendStep_ok (cfg : Cfg) (k : Kind) (L : Layout) (h : Hints) (i : Nat) (s1 : State) (idx : Nat) :
    appendStep cfg k L h i (s1, .ok idx) = freshStep cfg k L h (s1, .ok idx) := rfl

theorem inAnotherChunk_eq (cfg : Cfg) (k : Kind) (s : State) (L : Layout) (h : Hints) :
    inAnotherChunk cfg k s L h =
      match s.cur with
      | .claimed => pure (s, .error .claimed)
      | .unallocated => newChunkForCapacity cfg s L >>= freshStep cfg k L h
      | .chunk i => walkNext cfg k L h (s.chunks.length - (i+1)) i s >>= fun w =>
          match w with
          | (some (v, s'), _) => pure (s', .ok v)
          | (none, s') => appendFor cfg s' L >>= appendStep cfg k L h i := by
  unfold inAnotherChunk freshStep appendStep freshStep
  rfl

/-- the current chunk stays or moves forward to an existing chunk -/
def CurAdv (s s' : State) : Prop :=
  s'.cur = s.cur ∨ ∃ i j, s.cur = .chunk i ∧ i < j ∧ j < s.chunks.length ∧ s'.cur = .chunk j

/-- frame of `freshStep` after a chunk-creating call from state `s0` -/
theorem freshStep_frame {cfg : Cfg} {k : Kind} {L : Layout} {h : Hints} {s0 s1 s' : State}
    {r1 : Except AErr Nat} {r : Except AErr (Nat × Nat)}
    (hc : CreateFrame cfg s0 s1 r1) (e : freshStep cfg k L h (s1, r1) = .ok (s', r)) :
    (∀ n, Ext n s0 s') ∧
    (s'.reqs = s0.reqs ∨ ∃ size, s'.reqs = s0.reqs ++ [BaseReq.alloc size cfg.hdr.align]) ∧
    (s'.resps = s0.resps ∨ ∃ x, s0.resps = x :: s'.resps) ∧
    (∀ e, r = .error e → s' = s1 ∧ r1 = .error e) ∧
    (∀ v, r = .ok v → ∃ i, r1 = .ok i ∧ s'.cur = .chunk i) := by
  obtain ⟨c1, c2, c3, c4, c5, c6, c7⟩ := hc
  cases r1 with
  | error e1 =>
    simp only [freshStep, pure_eq_ok, Except.ok.injEq, Prod.mk.injEq] at e
    obtain ⟨rfl, rfl⟩ := e
    exact ⟨c2, c6, c7, fun e he => by cases he; exact ⟨rfl, rfl⟩, fun v hv => by cases hv⟩
  | ok i =>
    simp only [freshStep] at e
    obtain ⟨t, ht, e⟩ := bind_eq_ok e
    cases t with
    | none => cases e
    | some x =>
      obtain ⟨v, s''⟩ := x
      simp only [pure_eq_ok, Except.ok.injEq, Prod.mk.injEq] at e
      obtain ⟨rfl, rfl⟩ := e
      obtain ⟨f1, f2, f3, f4, f5⟩ := tryCur_frame ht
      obtain ⟨hi, hlen⟩ := c4 i rfl
      refine ⟨fun n => ?_, (by rw [f2]; exact c6), (by rw [f3]; exact c7), fun e he => (by cases he),
        fun v hv => ⟨i, rfl, f1⟩⟩
      have h1 : Ext i s0 s'' :=
        ((c2 i).trans (Ext.setCur i s1 (.chunk i))).trans (f5 i (fun j hj => by cases hj; exact Nat.le_refl _))
      exact h1.clamp (fun j _ hj => by omega)

/-! ## inAnotherChunk -/
/-- frame of the allocation slow path, for every outcome.  `n` bounds the chunks whose position is
    guaranteed unchanged: all chunks up to AND including the current one. -/
structure SlowFrame (cfg : Cfg) (s s' : State) {α : Type} (r : Except AErr α) : Prop where
  ext : ∀ n, (∀ i, s.cur = .chunk i → n ≤ i + 1) → Ext n s s'
  reqs : s'.reqs = s.reqs ∨ ∃ size, s'.reqs = s.reqs ++ [BaseReq.alloc size cfg.hdr.align]
  resps : s'.resps = s.resps ∨ ∃ x, s.resps = x :: s'.resps
  err : ∀ e, r = .error e → s'.chunks.length = s.chunks.length ∧ s'.cur = s.cur ∧
    (e ≠ .alloc → s'.reqs = s.reqs ∧ s'.resps = s.resps) ∧ (e = .claimed ↔ s.cur = .claimed)
  claimed : s.cur = .claimed → s' = s

theorem CurAdv.refl (s : State) : CurAdv s s := Or.inl rfl

theorem inAnotherChunk_frame {cfg : Cfg} {k : Kind} {s : State} {L : Layout} {h : Hints}
    {s' : State} {r : Except AErr (Nat × Nat)}
    (e : inAnotherChunk cfg k s L h = .ok (s', r)) : SlowFrame cfg s s' r := by
  rw [inAnotherChunk_eq] at e
  cases hcur : s.cur with
  | claimed =>
    simp only [hcur, pure_eq_ok, Except.ok.injEq, Prod.mk.injEq] at e
    obtain ⟨rfl, rfl⟩ := e
    exact ⟨fun n _ => Ext.refl n _, Or.inl rfl, Or.inl rfl,
      fun e he => (by cases he; exact ⟨rfl, rfl, fun _ => ⟨rfl, rfl⟩, ⟨fun _ => hcur, fun _ => rfl⟩⟩),
      fun _ => rfl⟩
  | unallocated =>
    simp only [hcur] at e
    obtain ⟨⟨s1, r1⟩, h1, e⟩ := bind_eq_ok e
    have hc := newChunkForCapacity_frame h1
    obtain ⟨g1, g2, g3, g4, g5⟩ := freshStep_frame hc e
    refine ⟨fun n _ => g1 n, g2, g3, fun er he => ?_, fun hcl => (by rw [hcur] at hcl; cases hcl)⟩
    obtain ⟨rfl, rfl⟩ := g4 er he
    obtain ⟨c1, c2, c3, c4, c5, c6, c7⟩ := hc
    obtain ⟨d1, d2⟩ := c3 er rfl
    refine ⟨(by rw [d1]), c1, fun hne => ?_, ⟨fun h => ?_, fun h => (by rw [hcur] at h; cases h)⟩⟩
    · rcases d2 with rfl | rfl
      · exact absurd rfl hne
      · rw [c5 rfl]; exact ⟨rfl, rfl⟩
    · rcases d2 with rfl | rfl <;> cases h
  | chunk i =>
    simp only [hcur] at e
    obtain ⟨⟨o, sw⟩, hw, e⟩ := bind_eq_ok e
    obtain ⟨w1, w2, w3, w4, w5, w6⟩ := walkNext_frame _ _ _ hw
    have hadv : CurAdv s sw := by
      rcases w5 with w5 | ⟨j, hj1, hj2, hj3⟩
      · exact Or.inl w5
      · exact Or.inr ⟨i, j, hcur, hj1, hj2, hj3⟩
    cases o with
    | some x =>
      obtain ⟨v, s2⟩ := x
      simp only [pure_eq_ok, Except.ok.injEq, Prod.mk.injEq] at e
      obtain ⟨rfl, rfl⟩ := e
      have := w6 _ rfl
      simp only at this
      subst this
      refine ⟨fun n hn => w4.mono (hn i hcur), Or.inl w1, Or.inl w2, fun e he => (by cases he),
        fun hcl => (by rw [hcur] at hcl; cases hcl)⟩
    | none =>
      simp only at e
      obtain ⟨⟨s1, r1⟩, h1, e⟩ := bind_eq_ok e
      have hc := appendFor_frame h1
      cases r1 with
      | ok idx =>
        rw [appendStep_ok] at e
        obtain ⟨g1, g2, g3, g4, g5⟩ := freshStep_frame hc e
        refine ⟨fun n hn => (w4.mono (hn i hcur)).trans (g1 n), (by rw [← w1]; exact g2), (by rw [← w2]; exact g3),
          fun er he => ?_, fun hcl => (by rw [hcur] at hcl; cases hcl)⟩
        obtain ⟨_, hbad⟩ := g4 er he
        cases hbad
      | error e1 =>
        rw [appendStep_error] at e
        simp only [Except.ok.injEq, Prod.mk.injEq] at e
        obtain ⟨rfl, rfl⟩ := e
        obtain ⟨c1, c2, c3, c4, c5, c6, c7⟩ := hc
        obtain ⟨d1, d2⟩ := c3 e1 rfl
        refine ⟨fun n hn => ((w4.mono (hn i hcur)).trans (c2 n)).trans (Ext.setCur n s1 _),
          (by rw [← w1]; exact c6), (by rw [← w2]; exact c7),
          fun er he => ?_, fun hcl => (by rw [hcur] at hcl; cases hcl)⟩
        cases he
        refine ⟨(by show s1.chunks.length = _; rw [d1, w3]), hcur.symm, fun hne => ?_,
          ⟨fun h => ?_, fun h => (by rw [hcur] at h; cases h)⟩⟩
        · rcases d2 with rfl | rfl
          · exact absurd rfl hne
          · rw [c5 rfl]; exact ⟨w1, w2⟩
        · rcases d2 with rfl | rfl <;> cases h

/-! ## allocGeneric, alloc -/
theorem SlowFrame.map {cfg : Cfg} {s s' : State} {α β : Type} {r : Except AErr α} (f : α → β)
    (h : SlowFrame cfg s s' r) : SlowFrame cfg s s' (r.map f) :=
  ⟨h.ext, h.reqs, h.resps, fun e he => (by
    cases r with
    | error e' => simp only [Except.map, Except.error.injEq] at he; subst he; exact h.err e' rfl
    | ok v => simp only [Except.map] at he; cases he), h.claimed⟩

/-- the state was not changed at all -/
theorem SlowFrame.same (cfg : Cfg) (s : State) {α : Type} {r : Except AErr α}
    (h : ∀ e, r = .error e → e ≠ .alloc ∧ (e = .claimed ↔ s.cur = .claimed)) : SlowFrame cfg s s r :=
  ⟨fun n _ => Ext.refl n s, Or.inl rfl, Or.inl rfl,
   fun e he => ⟨rfl, rfl, fun _ => ⟨rfl, rfl⟩, (h e he).2⟩, fun _ => rfl⟩

/-- frame of `allocGeneric` (fast path, then slow path), for every outcome -/
theorem allocGeneric_frame {cfg : Cfg} {k : Kind} {s : State} {L : Layout} {h hs : Hints}
    {s' : State} {r : Except AErr (Nat × Nat)}
    (e : allocGeneric cfg k s L h hs = .ok (s', r)) :
    (∀ n, (∀ i, s.cur = .chunk i → n ≤ i) → Ext n s s') ∧
    (s'.reqs = s.reqs ∨ ∃ size, s'.reqs = s.reqs ++ [BaseReq.alloc size cfg.hdr.align]) ∧
    (s'.resps = s.resps ∨ ∃ x, s.resps = x :: s'.resps) ∧
    (∀ er, r = .error er → tryCur cfg k s L h = .ok none ∧ SlowFrame cfg s s' r) := by
  unfold allocGeneric at e
  obtain ⟨t, ht, e⟩ := bind_eq_ok e
  cases t with
  | some x =>
    obtain ⟨v, s2⟩ := x
    simp only [pure_eq_ok, Except.ok.injEq, Prod.mk.injEq] at e
    obtain ⟨rfl, rfl⟩ := e
    obtain ⟨f1, f2, f3, f4, f5⟩ := tryCur_frame ht
    exact ⟨f5, Or.inl f2, Or.inl f3, fun er he => by cases he⟩
  | none =>
    simp only at e
    have hf := inAnotherChunk_frame e
    exact ⟨fun n hn => hf.ext n (fun i hi => Nat.le_succ_of_le (hn i hi)), hf.reqs, hf.resps,
      fun er _ => ⟨ht, hf⟩⟩

theorem alloc_frame {cfg : Cfg} {s : State} {L : Layout} {s' : State} {r : Except AErr Nat}
    (e : alloc cfg s L = .ok (s', r)) :
    (∀ n, (∀ i, s.cur = .chunk i → n ≤ i) → Ext n s s') ∧
    (s'.reqs = s.reqs ∨ ∃ size, s'.reqs = s.reqs ++ [BaseReq.alloc size cfg.hdr.align]) ∧
    (s'.resps = s.resps ∨ ∃ x, s.resps = x :: s'.resps) ∧
    (∀ er, r = .error er → tryCur cfg .alloc s L Hints.custom = .ok none ∧ SlowFrame cfg s s' r) := by
  unfold alloc at e
  obtain ⟨⟨s1, r1⟩, h1, e⟩ := bind_eq_ok e
  simp only [pure_eq_ok, Except.ok.injEq, Prod.mk.injEq] at e
  obtain ⟨rfl, rfl⟩ := e
  obtain ⟨a1, a2, a3, a4⟩ := allocGeneric_frame h1
  refine ⟨a1, a2, a3, fun er he => ?_⟩
  cases r1 with
  | ok v => simp only [Except.map] at he; cases he
  | error e1 =>
    obtain ⟨b1, b2⟩ := a4 e1 rfl
    exact ⟨b1, b2.map _⟩

/-! ## reserve -/
/-- frame of `reserve`, for every outcome: positions never change -/
theorem reserve_frame {cfg : Cfg} {s : State} {add : Nat} {s' : State} {r : Except AErr Unit}
    (e : reserve cfg s add = .ok (s', r)) :
    (∀ n, Ext n s s') ∧ SlowFrame cfg s s' r ∧ (∀ er, r = .error er → s'.cur = s.cur) := by
  unfold reserve at e
  obtain ⟨cu, hcur⟩ : ∃ cu, s.cur = cu := ⟨_, rfl⟩
  cases cu with
  | claimed =>
    simp only [hcur, pure_eq_ok, Except.ok.injEq, Prod.mk.injEq] at e
    obtain ⟨rfl, rfl⟩ := e
    exact ⟨fun n => Ext.refl n _, SlowFrame.same cfg _ (fun e he => by cases he; exact ⟨by decide, ⟨fun _ => hcur, fun _ => rfl⟩⟩),
      fun _ _ => rfl⟩
  | unallocated =>
    simp only [hcur] at e
    cases hl : layoutOk add 1 with
    | false =>
      simp only [hl, Bool.not_false, ↓reduceIte, pure_eq_ok, Except.ok.injEq, Prod.mk.injEq] at e
      obtain ⟨rfl, rfl⟩ := e
      refine ⟨fun n => Ext.refl n _, SlowFrame.same cfg _ (fun e he => ?_), fun _ _ => rfl⟩
      cases he
      exact ⟨by decide, fun h => (by cases h), fun h => (by rw [hcur] at h; cases h)⟩
    | true =>
      simp only [hl, Bool.not_true, Bool.false_eq_true, ↓reduceIte] at e
      obtain ⟨⟨s1, r1⟩, h1, e⟩ := bind_eq_ok e
      obtain ⟨c1, c2, c3, c4, c5, c6, c7⟩ := newChunkForCapacity_frame h1
      cases r1 with
      | error e1 =>
        simp only [pure_eq_ok, Except.ok.injEq, Prod.mk.injEq] at e
        obtain ⟨rfl, rfl⟩ := e
        obtain ⟨d1, d2⟩ := c3 e1 rfl
        refine ⟨c2, ⟨fun n _ => c2 n, c6, c7, fun er he => ?_, fun hcl => (by rw [hcur] at hcl; cases hcl)⟩, fun _ _ => c1⟩
        cases he
        refine ⟨(by rw [d1]), c1, fun hne => ?_, ⟨fun h => ?_, fun h => (by rw [hcur] at h; cases h)⟩⟩
        · rcases d2 with rfl | rfl
          · exact absurd rfl hne
          · rw [c5 rfl]; exact ⟨rfl, rfl⟩
        · rcases d2 with rfl | rfl <;> cases h
      | ok i =>
        simp only [pure_eq_ok, Except.ok.injEq, Prod.mk.injEq] at e
        obtain ⟨rfl, rfl⟩ := e
        have hx : ∀ n, Ext n s { s1 with cur := Cur.chunk i } := fun n => (c2 n).trans (Ext.setCur n s1 _)
        exact ⟨hx, ⟨fun n _ => hx n, c6, c7, fun er he => (by cases he), fun hcl => (by rw [hcur] at hcl; cases hcl)⟩,
          fun er he => by cases he⟩
  | chunk i =>
    simp only [hcur] at e
    cases hc : s.chunks[i]? with
    | none => simp only [hc] at e; cases e
    | some c =>
      simp only [hc] at e
      have hsame : ∀ {u : Unit}, (∀ n, Ext n s s) ∧ SlowFrame cfg s s (Except.ok u : Except AErr Unit) ∧
          (∀ er, (Except.ok u : Except AErr Unit) = .error er → s.cur = s.cur) :=
        ⟨fun n => Ext.refl n _, SlowFrame.same cfg _ (fun e he => by cases he), fun _ _ => rfl⟩
      cases h1 : Rs.checked_sub add (c.remaining cfg) with
      | none =>
        simp only [h1, pure_eq_ok, Except.ok.injEq, Prod.mk.injEq] at e
        obtain ⟨rfl, rfl⟩ := e
        exact hsame
      | some rest =>
        simp only [h1] at e
        cases h2 : walkReserve cfg s.chunks (s.chunks.length - (i+1)) i rest with
        | none =>
          simp only [h2, pure_eq_ok, Except.ok.injEq, Prod.mk.injEq] at e
          obtain ⟨rfl, rfl⟩ := e
          exact hsame
        | some rest' =>
          simp only [h2] at e
          by_cases h3 : rest' = 0
          · simp only [h3, ↓reduceIte, pure_eq_ok, Except.ok.injEq, Prod.mk.injEq] at e
            obtain ⟨rfl, rfl⟩ := e
            exact hsame
          · simp only [h3, ↓reduceIte] at e
            cases hl : layoutOk rest' 1 with
            | false =>
              simp only [hl, Bool.not_false, ↓reduceIte, pure_eq_ok, Except.ok.injEq, Prod.mk.injEq] at e
              obtain ⟨rfl, rfl⟩ := e
              refine ⟨fun n => Ext.refl n _, SlowFrame.same cfg _ (fun e he => ?_), fun _ _ => rfl⟩
              cases he
              exact ⟨by decide, fun h => (by cases h), fun h => (by rw [hcur] at h; cases h)⟩
            | true =>
              simp only [hl, Bool.not_true, Bool.false_eq_true, ↓reduceIte] at e
              obtain ⟨⟨s1, r1⟩, h4, e⟩ := bind_eq_ok e
              obtain ⟨c1, c2, c3, c4, c5, c6, c7⟩ := appendFor_frame h4
              cases r1 with
              | error e1 =>
                simp only [pure_eq_ok, Except.ok.injEq, Prod.mk.injEq] at e
                obtain ⟨rfl, rfl⟩ := e
                obtain ⟨d1, d2⟩ := c3 e1 rfl
                refine ⟨c2, ⟨fun n _ => c2 n, c6, c7, fun er he => ?_, fun hcl => (by rw [hcur] at hcl; cases hcl)⟩,
                  fun _ _ => c1⟩
                cases he
                refine ⟨(by rw [d1]), c1, fun hne => ?_, ⟨fun h => ?_, fun h => (by rw [hcur] at h; cases h)⟩⟩
                · rcases d2 with rfl | rfl
                  · exact absurd rfl hne
                  · rw [c5 rfl]; exact ⟨rfl, rfl⟩
                · rcases d2 with rfl | rfl <;> cases h
              | ok j =>
                simp only [pure_eq_ok, Except.ok.injEq, Prod.mk.injEq] at e
                obtain ⟨rfl, rfl⟩ := e
                exact ⟨c2, ⟨fun n _ => c2 n, c6, c7, fun er he => (by cases he),
                  fun hcl => (by rw [hcur] at hcl; cases hcl)⟩, fun er he => by cases he⟩

/-! ## grow -/
/-- the closure `moveTo` of `grow` -/
def moveTo (cfg : Cfg) (ptr oldSize : Nat) (r : State × Except AErr Nat) : R (State × Except AErr Nat) :=
  match r with
  | (s', .error e) => pure (s', .error e)
  | (s', .ok np) => do
    let s'' ← copyBytes cfg s' ptr np oldSize true
    pure (s'', .ok np)

theorem moveTo_error {cfg : Cfg} {ptr oldSize : Nat} {x : State × Except AErr Nat} {s' : State} {e : AErr}
    (h : moveTo cfg ptr oldSize x = .ok (s', .error e)) : x = (s', .error e) := by
  obtain ⟨s1, r1⟩ := x
  cases r1 with
  | error e1 =>
    simp only [moveTo, pure_eq_ok, Except.ok.injEq, Prod.mk.injEq, Except.error.injEq] at h
    obtain ⟨rfl, rfl⟩ := h; rfl
  | ok np =>
    simp only [moveTo] at h
    obtain ⟨s2, _, h⟩ := bind_eq_ok h
    simp only [pure_eq_ok, Except.ok.injEq, Prod.mk.injEq] at h
    cases h.2

theorem grow_eq (cfg : Cfg) (s : State) (ptr oldSize : Nat) (newL : Layout) :
    grow cfg s ptr oldSize newL = (do
  Arena.liftM (Rs.assert (decide (newL.size ≥ oldSize)))
  if cfg.up then
    if isLast cfg s ptr oldSize && alignFits ptr newL.align then
      match curChunk? s with
      | none => throw (.ub "as_non_dummy_unchecked on a dummy chunk")
      | some c =>
        let remaining ← Arena.liftM (Rs.sub (c.contentEnd cfg) ptr)
        if newL.size ≤ remaining then
          let t ← Arena.liftM (Rs.add ptr newL.size)
          let np ← Arena.liftM (Gen.LibArith.up_align_usize_unchecked t s.minAlign)
          pure (setCurPos s np, .ok ptr)
        else
          let (s', r) ← inAnotherChunk cfg .alloc s newL Hints.custom
          moveTo cfg ptr oldSize (s', r.map (·.1))
    else
      moveTo cfg ptr oldSize (← alloc cfg s newL)
  else
    if isLast cfg s ptr oldSize then
      match curChunk? s with
      | none => throw (.ub "as_non_dummy_unchecked on a dummy chunk")
      | some c =>
        let additional ← Arena.liftM (Rs.sub newL.size oldSize)
        let newAddr ← Arena.liftM (Gen.LibArith.bump_down ptr additional (Rs.max newL.align s.minAlign))
        if newAddr ≥ c.contentStart cfg then
          let newEnd ← Arena.liftM (Rs.add newAddr newL.size)
          let s' ← copyBytes cfg s ptr newAddr oldSize (decide (newEnd < ptr))
          pure (setCurPos s' newAddr, .ok newAddr)
        else
          let (s', r) ← inAnotherChunk cfg .alloc s newL Hints.custom
          moveTo cfg ptr oldSize (s', r.map (·.1))
    else
      moveTo cfg ptr oldSize (← alloc cfg s newL)) := by
  unfold grow moveTo
  rfl

/-- an error returned by `grow` is the error of its allocation attempt, and the state is the one
    that attempt left behind -/
theorem grow_error {cfg : Cfg} {s s' : State} {ptr oldSize : Nat} {newL : Layout} {e : AErr}
    (h : grow cfg s ptr oldSize newL = .ok (s', .error e)) :
    (∃ r, inAnotherChunk cfg .alloc s newL Hints.custom = .ok (s', r) ∧ r.map (·.1) = .error e) ∨
    alloc cfg s newL = .ok (s', .error e) := by
  rw [grow_eq] at h
  obtain ⟨u, _, h⟩ := bind_eq_ok h
  have hin : (inAnotherChunk cfg .alloc s newL Hints.custom >>= fun x =>
      match x with | (s', r) => moveTo cfg ptr oldSize (s', r.map (·.1))) = .ok (s', .error e) →
      ∃ r, inAnotherChunk cfg .alloc s newL Hints.custom = .ok (s', r) ∧ r.map (·.1) = .error e := by
    intro h
    obtain ⟨⟨s1, r1⟩, h1, h⟩ := bind_eq_ok h
    have := moveTo_error h
    simp only [Prod.mk.injEq] at this
    obtain ⟨rfl, h2⟩ := this
    exact ⟨r1, h1, h2⟩
  have hal : (alloc cfg s newL >>= fun x => moveTo cfg ptr oldSize x) = .ok (s', .error e) →
      alloc cfg s newL = .ok (s', .error e) := by
    intro h
    obtain ⟨x, h1, h⟩ := bind_eq_ok h
    rw [moveTo_error h] at h1; exact h1
  by_cases hup : cfg.up = true
  · simp only [hup, ↓reduceIte] at h
    split at h
    · split at h
      · cases h
      · obtain ⟨rem, _, h⟩ := bind_eq_ok h
        split at h
        · obtain ⟨t, _, h⟩ := bind_eq_ok h
          obtain ⟨np, _, h⟩ := bind_eq_ok h
          simp only [pure_eq_ok, Except.ok.injEq, Prod.mk.injEq] at h
          cases h.2
        · exact Or.inl (hin h)
    · exact Or.inr (hal h)
  · simp only [hup, Bool.false_eq_true, ↓reduceIte] at h
    split at h
    · split at h
      · cases h
      · obtain ⟨ad, _, h⟩ := bind_eq_ok h
        obtain ⟨na, _, h⟩ := bind_eq_ok h
        split at h
        · obtain ⟨t, _, h⟩ := bind_eq_ok h
          obtain ⟨np, _, h⟩ := bind_eq_ok h
          simp only [pure_eq_ok, Except.ok.injEq, Prod.mk.injEq] at h
          cases h.2
        · exact Or.inl (hin h)
    · exact Or.inr (hal h)

/-! ## shrink -/
theorem modify_pos_pos (l : List Chunk) (i p q : Nat) :
    (l.modify i (fun c => { c with pos := p })).modify i (fun c => { c with pos := q }) =
      l.modify i (fun c => { c with pos := q }) := by
  apply List.ext_getElem?
  intro j
  simp only [List.getElem?_modify]
  by_cases hij : i = j
  · subst hij
    cases l[i]? <;> simp
  · simp [hij]

theorem modify_pos_self (l : List Chunk) (i q : Nat) (h : ∀ c, l[i]? = some c → c.pos = q) :
    l.modify i (fun c => { c with pos := q }) = l := by
  apply List.ext_getElem?
  intro j
  simp only [List.getElem?_modify]
  by_cases hij : i = j
  · subst hij
    cases hc : l[i]? with
    | none => simp
    | some c => simp [← h c hc]
  · simp [hij]

theorem setCurPos_self (cfg : Cfg) (s : State) : setCurPos s (curPos cfg s) = s := by
  obtain ⟨cu, hcur⟩ : ∃ cu, s.cur = cu := ⟨_, rfl⟩
  unfold setCurPos
  cases cu with
  | unallocated => simp only [hcur]
  | claimed => simp only [hcur]
  | chunk i =>
    simp only [hcur]
    have hp : ∀ c, s.chunks[i]? = some c → c.pos = curPos cfg s := by
      intro c hc; unfold curPos; simp only [hcur, hc]
    unfold setPos
    rw [modify_pos_self _ _ _ hp]

/-- putting the old position back undoes a position change -/
theorem setCurPos_restore (cfg : Cfg) (s : State) (p : Nat) : setCurPos (setCurPos s p) (curPos cfg s) = s := by
  rcases setCurPos_eq s p with e | ⟨i, hi, e⟩
  · rw [e]; exact setCurPos_self cfg s
  · have h2 : setCurPos s (curPos cfg s) = s := setCurPos_self cfg s
    rw [e]
    unfold setCurPos at h2 ⊢
    simp only [setPos_cur, hi] at h2 ⊢
    unfold setPos at h2 ⊢
    simp only [modify_pos_pos]
    exact h2

theorem deallocAssumeLast_cases {cfg : Cfg} {s s1 : State} {ptr size : Nat}
    (h : deallocAssumeLast cfg s ptr size = .ok s1) : s1 = s ∨ ∃ p, s1 = setCurPos s p := by
  unfold deallocAssumeLast at h
  cases hd : cfg.deallocates with
  | false =>
    simp only [hd, Bool.not_false, ↓reduceIte, pure_eq_ok, Except.ok.injEq] at h
    exact Or.inl h.symm
  | true =>
    simp only [hd, Bool.not_true, Bool.false_eq_true, ↓reduceIte] at h
    split at h
    · by_cases ht : (if cfg.up = true then ptr else ptr + size) > MAX
      · rw [if_pos ht] at h
        obtain ⟨_, h', _⟩ := bind_eq_ok h
        cases h'
      · rw [if_neg ht] at h
        obtain ⟨p, _, h⟩ := bind_eq_ok h
        simp only [pure_eq_ok, Except.ok.injEq] at h
        exact Or.inr ⟨p, h.symm⟩
    · cases h

/-- an error returned by `shrink` is the error of an allocation attempt made from the unchanged
    state `s`; the returned state is what that attempt left behind -/
theorem shrink_error {cfg : Cfg} {s s' : State} {ptr oldSize : Nat} {newL : Layout} {e : AErr}
    (h : shrink cfg s ptr oldSize newL = .ok (s', .error e)) :
    inAnotherChunk cfg .alloc s newL Hints.custom = .ok (s', .error e) ∨
    alloc cfg s newL = .ok (s', .error e) := by
  unfold shrink at h
  obtain ⟨u, _, h⟩ := bind_eq_ok h
  split at h
  · split at h
    · obtain ⟨s1, h1, h⟩ := bind_eq_ok h
      obtain ⟨t, ht, h⟩ := bind_eq_ok h
      split at h
      · obtain ⟨s3, _, h⟩ := bind_eq_ok h
        simp only [pure_eq_ok, Except.ok.injEq, Prod.mk.injEq] at h
        cases h.2
      · obtain ⟨⟨s3, r3⟩, h3, h⟩ := bind_eq_ok h
        have hs : setCurPos s1 (curPos cfg s) = s := by
          rcases deallocAssumeLast_cases h1 with rfl | ⟨p, rfl⟩
          · exact setCurPos_self cfg s1
          · exact setCurPos_restore cfg s p
        rw [hs] at h3
        cases r3 with
        | error e3 =>
          simp only [pure_eq_ok, Except.ok.injEq, Prod.mk.injEq, Except.error.injEq] at h
          obtain ⟨rfl, rfl⟩ := h
          exact Or.inl h3
        | ok v =>
          obtain ⟨np, x⟩ := v
          simp only at h
          obtain ⟨s4, _, h⟩ := bind_eq_ok h
          simp only [pure_eq_ok, Except.ok.injEq, Prod.mk.injEq] at h
          cases h.2
    · obtain ⟨⟨s1, r1⟩, h1, h⟩ := bind_eq_ok h
      cases r1 with
      | error e1 =>
        simp only [pure_eq_ok, Except.ok.injEq, Prod.mk.injEq, Except.error.injEq] at h
        obtain ⟨rfl, rfl⟩ := h
        exact Or.inr h1
      | ok np =>
        simp only at h
        obtain ⟨s4, _, h⟩ := bind_eq_ok h
        simp only [pure_eq_ok, Except.ok.injEq, Prod.mk.injEq] at h
        cases h.2
  · split at h
    · simp only [pure_eq_ok, Except.ok.injEq, Prod.mk.injEq] at h
      cases h.2
    · split at h
      · obtain ⟨a, _, h⟩ := bind_eq_ok h
        obtain ⟨b, _, h⟩ := bind_eq_ok h
        split at h
        · simp only [pure_eq_ok, Except.ok.injEq, Prod.mk.injEq] at h
          cases h.2
        · cases h
      · obtain ⟨a, _, h⟩ := bind_eq_ok h
        obtain ⟨b, _, h⟩ := bind_eq_ok h
        obtain ⟨c, _, h⟩ := bind_eq_ok h
        split at h
        · simp only [pure_eq_ok, Except.ok.injEq, Prod.mk.injEq] at h
          cases h.2
        · cases h

end Ledger
