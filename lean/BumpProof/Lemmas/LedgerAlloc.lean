/-
  Lemmas/LedgerAlloc.lean — frames of the allocation slow path (`walkNext`, `inAnotherChunk`,
  `allocGeneric`, `alloc`, `reserve`): what a call may change, for every outcome.
-/
import BumpProof.Lemmas.Ledger

set_option linter.unusedSimpArgs false
set_option linter.unusedVariables false

namespace Ledger
open Arena Rs

/-! ## walkNext -/
/-- re-entering chunk `i+1`: it becomes current and is reset -/
theorem Ext.enter (cfg : Cfg) (s : State) {i : Nat} {c : Chunk} (hc : s.chunks[i+1]? = some c) :
    Ext (i+1) s { s with chunks := s.chunks.set (i+1) (c.resetPos cfg), cur := .chunk (i+1) } :=
  ⟨rfl, rfl, rfl, rfl, rfl, rfl, rfl, fun j x hx => by
    show ∃ c', (s.chunks.set (i+1) (c.resetPos cfg))[j]? = some c' ∧ _
    rw [List.getElem?_set]
    by_cases hij : i + 1 = j
    · subst hij
      have hlt := (List.getElem?_eq_some_iff.1 hx).1
      rw [hc] at hx; cases hx
      simp only [↓reduceIte, hlt]
      exact ⟨_, rfl, SamePlace.refl _, fun hj => by omega⟩
    · simp only [hij, ↓reduceIte]
      exact ⟨x, hx, SamePlace.refl x, fun _ => rfl⟩⟩

/-- frame of `walkNext`, for every outcome: no base-allocator traffic, no chunk added or removed,
    only chunks after `i` are repositioned, the current chunk can only move forward -/
theorem walkNext_frame {cfg : Cfg} {k : Kind} {L : Layout} {h : Hints} :
    ∀ (fuel i : Nat) (s : State) {o : Option ((Nat × Nat) × State)} {s' : State},
    walkNext cfg k L h fuel i s = .ok (o, s') →
    s'.reqs = s.reqs ∧ s'.resps = s.resps ∧ s'.chunks.length = s.chunks.length ∧ Ext (i+1) s s' ∧
    (s'.cur = s.cur ∨ ∃ j, i < j ∧ j < s.chunks.length ∧ s'.cur = .chunk j) ∧
    (∀ r, o = some r → r.2 = s') := by
  intro fuel
  induction fuel with
  | zero =>
    intro i s o s' e
    simp only [walkNext, pure_eq_ok, Except.ok.injEq, Prod.mk.injEq] at e
    obtain ⟨rfl, rfl⟩ := e
    exact ⟨rfl, rfl, rfl, Ext.refl _ _, Or.inl rfl, fun r hr => by cases hr⟩
  | succ fuel ih =>
    intro i s o s' e
    unfold walkNext at e
    cases hc : s.chunks[i+1]? with
    | none =>
      simp only [hc, pure_eq_ok, Except.ok.injEq, Prod.mk.injEq] at e
      obtain ⟨rfl, rfl⟩ := e
      exact ⟨rfl, rfl, rfl, Ext.refl _ _, Or.inl rfl, fun r hr => by cases hr⟩
    | some c =>
      simp only [hc] at e
      have hlt := (List.getElem?_eq_some_iff.1 hc).1
      have hext := Ext.enter cfg s hc
      obtain ⟨t, ht, e⟩ := bind_eq_ok e
      cases t with
      | some r =>
        simp only [pure_eq_ok, Except.ok.injEq, Prod.mk.injEq] at e
        obtain ⟨rfl, rfl⟩ := e
        obtain ⟨v, s2⟩ := r
        obtain ⟨f1, f2, f3, f4, f5⟩ := tryCur_frame ht
        refine ⟨f2, f3, ?_, hext.trans (f5 (i+1) ?_), Or.inr ⟨i+1, Nat.lt_succ_self i, hlt, f1⟩,
          fun r hr => by cases hr; rfl⟩
        · rw [f4]; exact List.length_set
        · intro j hj; cases hj; exact Nat.le_refl _
      | none =>
        simp only at e
        obtain ⟨g1, g2, g3, g4, g5, g6⟩ := ih (i+1) _ e
        refine ⟨g1, g2, ?_, hext.trans (g4.mono (Nat.le_succ _)), Or.inr ?_, g6⟩
        · rw [g3]; exact List.length_set
        · rcases g5 with g5 | ⟨j, hj1, hj2, hj3⟩
          · exact ⟨i+1, Nat.lt_succ_self i, hlt, g5⟩
          · refine ⟨j, by omega, ?_, hj3⟩
            simpa only [List.length_set] using hj2

/-! ## The closure fresh of inAnotherChunk -/
/-- positions are only compared for existing chunks, so bounds beyond the chunk count are equivalent -/
theorem Ext.clamp {n m : Nat} {s s' : State} (h : Ext m s s') (hm : ∀ j, j < n → j < s.chunks.length → j < m) :
    Ext n s s' :=
  ⟨h.live, h.minAlign, h.frames, h.nextId, h.userCps, h.prepared, h.dropped, fun j c hc => by
      obtain ⟨c', h1, h2, h3⟩ := h.chunk j c hc
      exact ⟨c', h1, h2, fun hj => h3 (hm j hj (List.getElem?_eq_some_iff.1 hc).1)⟩⟩

/-- making another chunk current changes nothing else -/
theorem Ext.setCur (n : Nat) (s : State) (c : Cur) : Ext n s { s with cur := c } :=
  ⟨rfl, rfl, rfl, rfl, rfl, rfl, rfl, fun j x hx => ⟨x, hx, SamePlace.refl x, fun _ => rfl⟩⟩

/-- the closure `fresh` of `inAnotherChunk`: make the new chunk current and allocate from it -/
def freshStep (cfg : Cfg) (k : Kind) (L : Layout) (h : Hints) (r : State × Except AErr Nat) :
    R (State × Except AErr (Nat × Nat)) :=
  match r with
  | (s', .error e) => pure (s', .error e)
  | (s', .ok i) => do
    let s' := { s' with cur := .chunk i }
    match ← tryCur cfg k s' L h with
    | some (v, s'') => pure (s'', .ok v)
    | none => throw (.ub "unreachable_unchecked: the layout does not fit the chunk that was created for it")

theorem inAnotherChunk_eq (cfg : Cfg) (k : Kind) (s : State) (L : Layout) (h : Hints) :
    inAnotherChunk cfg k s L h =
      match s.cur with
      | .claimed => pure (s, .error .claimed)
      | .unallocated => newChunkForCapacity cfg s L >>= freshStep cfg k L h
      | .chunk i => walkNext cfg k L h (s.chunks.length - (i+1)) i s >>= fun w =>
          match w with
          | (some (v, s'), _) => pure (s', .ok v)
          | (none, s') => appendFor cfg s' L >>= freshStep cfg k L h := by
  unfold inAnotherChunk freshStep
  rfl

/-- the current chunk stays or moves forward to an existing chunk -/
def CurAdv (s s' : State) : Prop :=
  s'.cur = s.cur ∨ ∃ i j, s.cur = .chunk i ∧ i < j ∧ j < s.chunks.length ∧ s'.cur = .chunk j

/-- frame of `freshStep` after a chunk-creating call from state `s0` -/
theorem freshStep_frame {cfg : Cfg} {k : Kind} {L : Layout} {h : Hints} {s0 s1 s' : State}
    {r1 : Except AErr Nat} {r : Except AErr (Nat × Nat)}
    (hc : CreateFrame cfg s0 s1 r1) (e : freshStep cfg k L h (s1, r1) = .ok (s', r)) :
    (∀ n, Ext n s0 s') ∧
    (s'.reqs = s0.reqs ∨ ∃ size, s'.reqs = s0.reqs ++ [BaseReq.alloc size cfg.hdr.align]) ∧
    (s'.resps = s0.resps ∨ ∃ x, s0.resps = x :: s'.resps) ∧
    (∀ e, r = .error e → s' = s1 ∧ r1 = .error e) ∧
    (∀ v, r = .ok v → ∃ i, r1 = .ok i ∧ s'.cur = .chunk i) := by
  obtain ⟨c1, c2, c3, c4, c5, c6, c7⟩ := hc
  cases r1 with
  | error e1 =>
    simp only [freshStep, pure_eq_ok, Except.ok.injEq, Prod.mk.injEq] at e
    obtain ⟨rfl, rfl⟩ := e
    exact ⟨c2, c6, c7, fun e he => by cases he; exact ⟨rfl, rfl⟩, fun v hv => by cases hv⟩
  | ok i =>
    simp only [freshStep] at e
    obtain ⟨t, ht, e⟩ := bind_eq_ok e
    cases t with
    | none => cases e
    | some x =>
      obtain ⟨v, s''⟩ := x
      simp only [pure_eq_ok, Except.ok.injEq, Prod.mk.injEq] at e
      obtain ⟨rfl, rfl⟩ := e
      obtain ⟨f1, f2, f3, f4, f5⟩ := tryCur_frame ht
      obtain ⟨hi, hlen⟩ := c4 i rfl
      refine ⟨fun n => ?_, (by rw [f2]; exact c6), (by rw [f3]; exact c7), fun e he => (by cases he),
        fun v hv => ⟨i, rfl, f1⟩⟩
      have h1 : Ext i s0 s'' :=
        ((c2 i).trans (Ext.setCur i s1 (.chunk i))).trans (f5 i (fun j hj => by cases hj; exact Nat.le_refl _))
      exact h1.clamp (fun j _ hj => by omega)

/-! ## inAnotherChunk -/
/-- frame of the allocation slow path, for every outcome.  `n` bounds the chunks whose position is
    guaranteed unchanged: all chunks up to AND including the current one. -/
structure SlowFrame (cfg : Cfg) (s s' : State) {α : Type} (r : Except AErr α) : Prop where
  ext : ∀ n, (∀ i, s.cur = .chunk i → n ≤ i + 1) → Ext n s s'
  reqs : s'.reqs = s.reqs ∨ ∃ size, s'.reqs = s.reqs ++ [BaseReq.alloc size cfg.hdr.align]
  resps : s'.resps = s.resps ∨ ∃ x, s.resps = x :: s'.resps
  err : ∀ e, r = .error e → s'.chunks.length = s.chunks.length ∧ CurAdv s s' ∧
    (e ≠ .alloc → s'.reqs = s.reqs ∧ s'.resps = s.resps) ∧ (e = .claimed ↔ s.cur = .claimed)
  claimed : s.cur = .claimed → s' = s

theorem CurAdv.refl (s : State) : CurAdv s s := Or.inl rfl

theorem inAnotherChunk_frame {cfg : Cfg} {k : Kind} {s : State} {L : Layout} {h : Hints}
    {s' : State} {r : Except AErr (Nat × Nat)}
    (e : inAnotherChunk cfg k s L h = .ok (s', r)) : SlowFrame cfg s s' r := by
  rw [inAnotherChunk_eq] at e
  cases hcur : s.cur with
  | claimed =>
    simp only [hcur, pure_eq_ok, Except.ok.injEq, Prod.mk.injEq] at e
    obtain ⟨rfl, rfl⟩ := e
    exact ⟨fun n _ => Ext.refl n _, Or.inl rfl, Or.inl rfl,
      fun e he => (by cases he; exact ⟨rfl, CurAdv.refl _, fun _ => ⟨rfl, rfl⟩, ⟨fun _ => hcur, fun _ => rfl⟩⟩),
      fun _ => rfl⟩
  | unallocated =>
    simp only [hcur] at e
    obtain ⟨⟨s1, r1⟩, h1, e⟩ := bind_eq_ok e
    have hc := newChunkForCapacity_frame h1
    obtain ⟨g1, g2, g3, g4, g5⟩ := freshStep_frame hc e
    refine ⟨fun n _ => g1 n, g2, g3, fun er he => ?_, fun hcl => (by rw [hcur] at hcl; cases hcl)⟩
    obtain ⟨rfl, rfl⟩ := g4 er he
    obtain ⟨c1, c2, c3, c4, c5, c6, c7⟩ := hc
    obtain ⟨d1, d2⟩ := c3 er rfl
    refine ⟨(by rw [d1]), Or.inl c1, fun hne => ?_, ⟨fun h => ?_, fun h => (by rw [hcur] at h; cases h)⟩⟩
    · rcases d2 with rfl | rfl
      · exact absurd rfl hne
      · rw [c5 rfl]; exact ⟨rfl, rfl⟩
    · rcases d2 with rfl | rfl <;> cases h
  | chunk i =>
    simp only [hcur] at e
    obtain ⟨⟨o, sw⟩, hw, e⟩ := bind_eq_ok e
    obtain ⟨w1, w2, w3, w4, w5, w6⟩ := walkNext_frame _ _ _ hw
    have hadv : CurAdv s sw := by
      rcases w5 with w5 | ⟨j, hj1, hj2, hj3⟩
      · exact Or.inl w5
      · exact Or.inr ⟨i, j, hcur, hj1, hj2, hj3⟩
    cases o with
    | some x =>
      obtain ⟨v, s2⟩ := x
      simp only [pure_eq_ok, Except.ok.injEq, Prod.mk.injEq] at e
      obtain ⟨rfl, rfl⟩ := e
      have := w6 _ rfl
      simp only at this
      subst this
      refine ⟨fun n hn => w4.mono (hn i hcur), Or.inl w1, Or.inl w2, fun e he => (by cases he),
        fun hcl => (by rw [hcur] at hcl; cases hcl)⟩
    | none =>
      simp only at e
      obtain ⟨⟨s1, r1⟩, h1, e⟩ := bind_eq_ok e
      have hc := appendFor_frame h1
      obtain ⟨g1, g2, g3, g4, g5⟩ := freshStep_frame hc e
      refine ⟨fun n hn => (w4.mono (hn i hcur)).trans (g1 n), (by rw [← w1]; exact g2), (by rw [← w2]; exact g3),
        fun er he => ?_, fun hcl => (by rw [hcur] at hcl; cases hcl)⟩
      obtain ⟨rfl, rfl⟩ := g4 er he
      obtain ⟨c1, c2, c3, c4, c5, c6, c7⟩ := hc
      obtain ⟨d1, d2⟩ := c3 er rfl
      refine ⟨(by rw [d1, w3]), ?_, fun hne => ?_, ⟨fun h => ?_, fun h => (by rw [hcur] at h; cases h)⟩⟩
      · rcases hadv with ha | ⟨i', j, ha1, ha2, ha3, ha4⟩
        · exact Or.inl (c1.trans ha)
        · exact Or.inr ⟨i', j, ha1, ha2, ha3, c1.trans ha4⟩
      · rcases d2 with rfl | rfl
        · exact absurd rfl hne
        · rw [c5 rfl]; exact ⟨w1, w2⟩
      · rcases d2 with rfl | rfl <;> cases h

end Ledger
