/-
  Lemmas/CollWF.lean — from "the model computes the list-level function `r`" to the statements of
  C06 / C08: well-formedness afterwards, conservation of ids, the abstraction `abs`.
-/
import BumpProof.Coll.Spec
import BumpProof.Lemmas.CollPrim

namespace Coll

@[simp] theorem idsOf_append (a b : List Slot) : idsOf (a ++ b) = idsOf a ++ idsOf b := by
  simp [idsOf, List.filterMap_append]

@[simp] theorem idsOf_I (xs : List Id) : idsOf (I xs) = xs := by
  induction xs with
  | nil => rfl
  | cons x xs ih => simp [idsOf, Slot.id?] at ih ⊢; exact ih

@[simp] theorem idsOf_H (k : Nat) : idsOf (H k) = [] := by
  induction k with
  | zero => rfl
  | succ k ih => simp [idsOf, Slot.id?] at ih ⊢; exact ih

theorem take_I_H (xs : List Id) (k : Nat) : (I xs ++ H k).take xs.length = I xs := by
  have : xs.length = (I xs).length := by simp
  rw [this, List.take_left]

/-- the two components of `WF` for a vector given by its contents -/
theorem WF_of_seg {v : Vec} {xs : List Id} (hs : v.slots = I xs ++ H (v.cap - v.len)) (hl : xs.length = v.len)
    (hn : (xs ++ v.dropLog ++ v.escaped).Nodup) : v.WF := by
  refine ⟨⟨xs, hs, hl⟩, ?_⟩
  simpa [Vec.total, hs] using hn

theorem Vec.WF.len_le_cap {v : Vec} (h : v.WF) : v.len ≤ v.cap := by
  obtain ⟨⟨xs, hs, hl⟩, _⟩ := h
  have := congrArg List.length hs
  simp [Vec.cap] at this ⊢
  omega

theorem Vec.WF.abs_eq {v : Vec} {xs : List Id} (hs : v.slots = I xs ++ H (v.cap - v.len)) (hl : xs.length = v.len) :
    v.abs = xs := by
  simp [Vec.abs, hs, ← hl, take_I_H]

theorem Vec.WF.slots_eq {v : Vec} (h : v.WF) : v.slots = I v.abs ++ H (v.cap - v.len) ∧ v.abs.length = v.len := by
  obtain ⟨⟨xs, hs, hl⟩, _⟩ := h
  have := Vec.WF.abs_eq hs hl
  rw [this]; exact ⟨hs, hl⟩

theorem Vec.WF.total_eq {v : Vec} (h : v.WF) : v.total = v.abs ++ v.dropLog ++ v.escaped := by
  have ⟨hs, _⟩ := h.slots_eq
  simp only [Vec.total]
  rw [hs]; simp

/-- capacity / length / contents of `v.after r` -/
theorem after_cap {α} (v : Vec) (r : SpecOut α) (h : r.final.length ≤ v.cap) : (v.after r).cap = v.cap := by
  simp [Vec.after, Vec.cap] at h ⊢; omega

theorem after_abs {α} (v : Vec) (r : SpecOut α) : (v.after r).abs = r.final := by
  simp [Vec.abs, Vec.after, take_I_H]

theorem after_facts {α} (v : Vec) (r : SpecOut α) (h : r.final.length ≤ v.cap) :
    (v.after r).abs = r.final ∧ (v.after r).len = r.final.length ∧ (v.after r).cap = v.cap :=
  ⟨after_abs v r, rfl, after_cap v r h⟩

/-- **conservation ⇒ well-formedness**: if the list-level result `r` only permutes the ids of `v`
    (plus the fresh ids `ins` that were inserted) between contents, drop log and hand-outs, then the
    vector afterwards is well-formed (in particular nothing is dropped twice and nothing that is still
    owned has been dropped) and accounts for every id. -/
theorem after_WF {α} (v : Vec) (r : SpecOut α) (ins : List Id) (hv : v.WF)
    (hperm : (r.final ++ r.dropped ++ r.escaped).Perm (v.abs ++ ins))
    (hcap : r.final.length ≤ v.cap) (hins : (v.total ++ ins).Nodup) :
    (v.after r).WF ∧ (v.after r).total.Perm (v.total ++ ins) := by
  have htot : (v.after r).total = r.final ++ (v.dropLog ++ r.dropped) ++ (v.escaped ++ r.escaped) := by
    simp [Vec.total, Vec.after]
  have hp : (v.after r).total.Perm (v.total ++ ins) := by
    rw [htot, hv.total_eq]
    -- r.final ++ (dl ++ rd) ++ (es ++ re)  ~  abs ++ dl ++ es ++ ins
    have h1 : (r.final ++ (v.dropLog ++ r.dropped) ++ (v.escaped ++ r.escaped)).Perm
        ((r.final ++ r.dropped ++ r.escaped) ++ (v.dropLog ++ v.escaped)) := by
      simp only [List.append_assoc]
      refine List.Perm.append_left _ ?_
      -- dl ++ (rd ++ (es ++ re)) ~ rd ++ (re ++ (dl ++ es))
      refine List.Perm.trans (List.perm_append_comm_assoc _ _ _) ?_
      refine List.Perm.append_left _ ?_
      -- dl ++ (es ++ re) ~ re ++ (dl ++ es)
      rw [← List.append_assoc]
      exact List.perm_append_comm
    refine h1.trans ?_
    refine (List.Perm.append_right _ hperm).trans ?_
    simp only [List.append_assoc]
    refine List.Perm.append_left _ ?_
    have e : v.dropLog ++ (v.escaped ++ ins) = (v.dropLog ++ v.escaped) ++ ins := by simp
    rw [e]
    exact List.perm_append_comm
  refine ⟨?_, hp⟩
  have hcap' := after_cap v r hcap
  refine ⟨⟨r.final, ?_, ?_⟩, ?_⟩
  · rw [hcap']; simp [Vec.after]
  · simp [Vec.after]
  · exact hp.nodup_iff.mpr hins

end Coll
