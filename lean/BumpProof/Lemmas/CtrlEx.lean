/-
  Lemmas/CtrlEx.lean — concrete configurations / states used by the non-vacuity examples of
  C13, C14, C15, C17 (all hypotheses of the theorems are checked on them by evaluation).
-/
import BumpProof.Lemmas.CtrlReserve
import BumpProof.Lemmas.CtrlRealloc

set_option linter.unusedVariables false

namespace Ctrl
open Arena Rs Lemmas

/-- downward twin of `wCfg` -/
def dCfg : Cfg := { wCfg with up := false }

def exL : Layout := { size := 24, align := 8 }
theorem exL_valid : exL.Valid := ⟨⟨3, by decide, rfl⟩, by decide⟩

/-- one 256-byte chunk at 0x10000 (header 32 bytes), position in the middle -/
def exChunkUp : Chunk :=
  { base := 0x10000, size := 0x100, pos := 0x10040, granted := 0x100, reqSize := 0x100,
    data := Array.replicate 0x100 0 }
def exChunkDown : Chunk :=
  { base := 0x10000, size := 0x100, pos := 0x100C0, granted := 0x100, reqSize := 0x100,
    data := Array.replicate 0x100 0 }

def mkState (chunks : List Chunk) (cur : Cur) (live : List Block) (frames : List Frame) : State :=
  { chunks := chunks, cur := cur, minAlign := 8, frames := frames, live := live, nextId := 1,
    userCps := [], prepared := none, resps := [], reqs := [], dropped := false }

def exUp : State := mkState [exChunkUp] (.chunk 0) [] []
def exDown : State := mkState [exChunkDown] (.chunk 0) [] []

/-- a block in the middle of the chunk (not the newest one) -/
def exBlk : Block := { id := 0, addr := 0x10020, size := 16, align := 8, depth := 0, init := 0 }
/-- the state the claimed original handle sees -/
def exClaimed : State := mkState [exChunkUp] .claimed [exBlk] [.claim]
/-- a history state with an open claim (the claimant's view) -/
def exG : GState := { s := mkState [exChunkUp] (.chunk 0) [exBlk] [.claim], marks := [] }

theorem minAlign8 : MinAlignOk 8 := Or.inr (Or.inr (Or.inr (Or.inl rfl)))

theorem exUp_valid (L : Layout) (hL : L.Valid) (h : Hints) (ht : Truthful L h) :
    C11.Valid true (bumpProps wCfg exUp L h) :=
  valid_of_regular (a := 0x10040) (b := 0x10100) rfl (by decide) (by decide) (by decide) (by decide)
    minAlign8 hL ht ⟨by decide, by decide, ⟨0x2008, by decide⟩, ⟨0x1010, by decide⟩⟩

theorem exDown_valid (L : Layout) (hL : L.Valid) (h : Hints) (ht : Truthful L h) :
    C11.Valid false (bumpProps dCfg exDown L h) :=
  valid_of_regular (a := 0x10000) (b := 0x100C0) rfl (by decide) (by decide) (by decide) (by decide)
    minAlign8 hL ht ⟨by decide, by decide, ⟨0x1000, by decide⟩, ⟨0x2018, by decide⟩⟩

theorem wState_valid (L : Layout) (hL : L.Valid) (h : Hints) (ht : Truthful L h) :
    C11.Valid true (bumpProps wCfg wState L h) :=
  valid_of_regular (a := 0x100F0) (b := 0x10100) rfl (by decide) (by decide) (by decide) (by decide)
    minAlign8 hL ht ⟨by decide, by decide, ⟨0x201E, by decide⟩, ⟨0x1010, by decide⟩⟩

end Ctrl
