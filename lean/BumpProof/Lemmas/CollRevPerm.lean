/-
  Lemmas/CollRevPerm.lean — well-formedness of reverse vectors, conservation facts of the
  `MutBumpVecRev` descriptions (`Coll/RevSpec.lean`), bridge to the C06 / C08 statements.
-/
import BumpProof.Coll.RevSpec
import BumpProof.Lemmas.CollRev
import BumpProof.Lemmas.CollPerm
import BumpProof.Lemmas.CollDrain

namespace Coll

/-- well-formed `MutBumpVecRev`: `len ≤ cap`, the LAST `len` slots hold values, the others none, no id twice -/
def Vec.RWF (v : Vec) : Prop :=
  (∃ xs, v.slots = H (v.cap - v.len) ++ I xs ∧ xs.length = v.len) ∧ v.total.Nodup

theorem Vec.RWF.rabs_eq {v : Vec} {xs : List Id} (hs : v.slots = H (v.cap - v.len) ++ I xs) (hl : xs.length = v.len) :
    v.rabs = xs := by
  unfold Vec.rabs Vec.rstart
  rw [hs, List.drop_left' (by simp)]
  simp

theorem Vec.RWF.slots_eq {v : Vec} (h : v.RWF) : v.slots = H (v.cap - v.len) ++ I v.rabs ∧ v.rabs.length = v.len := by
  obtain ⟨⟨xs, hs, hl⟩, _⟩ := h
  rw [Vec.RWF.rabs_eq hs hl]; exact ⟨hs, hl⟩

theorem Vec.RWF.len_le_cap {v : Vec} (h : v.RWF) : v.len ≤ v.cap := by
  have ⟨hs, hl⟩ := h.slots_eq
  exact rseg_len_le_cap hs hl

theorem Vec.RWF.total_eq {v : Vec} (h : v.RWF) : v.total = v.rabs ++ v.dropLog ++ v.escaped := by
  have ⟨hs, _⟩ := h.slots_eq
  simp only [Vec.total]; rw [hs]; simp

theorem rafter_facts {α} (v : Vec) (r : SpecOut α) (h : r.final.length ≤ v.cap) :
    (v.rafter r).rabs = r.final ∧ (v.rafter r).len = r.final.length ∧ (v.rafter r).cap = v.cap := by
  have hc : (v.rafter r).cap = v.cap := by simp [Vec.rafter, Vec.cap] at h ⊢; omega
  refine ⟨?_, rfl, hc⟩
  unfold Vec.rabs Vec.rstart
  rw [hc]
  simp only [Vec.rafter]
  rw [List.drop_left' (by simp)]
  simp

/-- conservation ⇒ well-formedness (reverse vectors) -/
theorem rafter_RWF {α} (v : Vec) (r : SpecOut α) (ins : List Id) (hv : v.RWF)
    (hperm : (r.final ++ r.dropped ++ r.escaped).Perm (v.rabs ++ ins))
    (hcap : r.final.length ≤ v.cap) (hins : (v.total ++ ins).Nodup) :
    (v.rafter r).RWF ∧ (v.rafter r).total.Perm (v.total ++ ins) := by
  have htot : (v.rafter r).total = r.final ++ (v.dropLog ++ r.dropped) ++ (v.escaped ++ r.escaped) := by
    simp [Vec.total, Vec.rafter]
  have hp : (v.rafter r).total.Perm (v.total ++ ins) := by
    rw [htot, hv.total_eq]
    have h1 : (r.final ++ (v.dropLog ++ r.dropped) ++ (v.escaped ++ r.escaped)).Perm
        ((r.final ++ r.dropped ++ r.escaped) ++ (v.dropLog ++ v.escaped)) := by
      simp only [List.append_assoc]
      refine List.Perm.append_left _ ?_
      refine List.Perm.trans (List.perm_append_comm_assoc _ _ _) ?_
      refine List.Perm.append_left _ ?_
      rw [← List.append_assoc]
      exact List.perm_append_comm
    refine h1.trans ?_
    refine (List.Perm.append_right _ hperm).trans ?_
    simp only [List.append_assoc]
    refine List.Perm.append_left _ ?_
    have e : v.dropLog ++ (v.escaped ++ ins) = (v.dropLog ++ v.escaped) ++ ins := by simp
    rw [e]
    exact List.perm_append_comm
  refine ⟨?_, hp⟩
  have ⟨_, _, hc⟩ := rafter_facts v r hcap
  refine ⟨⟨r.final, ?_, ?_⟩, ?_⟩
  · rw [hc]; simp [Vec.rafter]
  · simp [Vec.rafter]
  · exact hp.nodup_iff.mpr hins

theorem RGrows.rwf {v v' : Vec} (g : RGrows v v' v.rabs) (hv : v.RWF) :
    v'.RWF ∧ v'.total = v.total ∧ v'.rabs = v.rabs := by
  have ⟨hs, hl⟩ := hv.slots_eq
  have habs : v'.rabs = v.rabs := Vec.RWF.rabs_eq g.slots (by rw [g.len]; exact hl)
  have htot : v'.total = v.total := by
    rw [hv.total_eq]
    simp [Vec.total, g.slots, g.dropLog, g.escaped]
  refine ⟨⟨⟨v.rabs, g.slots, by rw [g.len]; exact hl⟩, ?_⟩, htot, habs⟩
  rw [htot]; exact hv.2

theorem rwf_after_of_eq {α} {v v' : Vec} {r : SpecOut α} {ins : List Id}
    (hv : v.RWF) (hg : RGrows v v' v.rabs)
    (hperm : (r.final ++ r.dropped ++ r.escaped).Perm (v.rabs ++ ins)) (hcap : r.final.length ≤ v'.cap)
    (hins : (v.total ++ ins).Nodup) :
    (v'.rafter r).RWF ∧ (v'.rafter r).total.Perm (v.total ++ ins) := by
  have ⟨hwf', htot, habs⟩ := hg.rwf hv
  have := rafter_RWF v' r ins hwf' (by rw [habs]; exact hperm) hcap (by rw [htot]; exact hins)
  rw [htot] at this
  exact this

theorem rgrown_grows {env : Env} {v : Vec} {n : Nat} (hv : v.RWF) :
    RGrows v (rgrown env v n) v.rabs ∧ (rroom env v n = true → v.len + n ≤ (rgrown env v n).cap) := by
  have ⟨hs, hl⟩ := hv.slots_eq
  unfold rgrown rroom
  cases hr : rreserve env v n with
  | none => exact ⟨⟨hs, rfl, rfl, rfl, Nat.le_refl _⟩, by simp⟩
  | some v' => have ⟨g, hc⟩ := rreserve_some hs hl hr; exact ⟨g, fun _ => hc⟩

/-! ## conservation of the descriptions -/

theorem rpushSpec_perm (room : Bool) (xs : List Id) (id : Id) :
    ((rpushSpec room xs id).final ++ (rpushSpec room xs id).dropped ++ (rpushSpec room xs id).escaped).Perm (xs ++ [id]) := by
  unfold rpushSpec; split
  · simpa using (List.perm_append_singleton id xs).symm
  · simp

theorem rpopSpec_perm (xs : List Id) :
    ((rpopSpec xs).final ++ (rpopSpec xs).dropped ++ (rpopSpec xs).escaped).Perm xs := by
  unfold rpopSpec; cases xs with
  | nil => simp
  | cons x rest => simpa using List.perm_append_singleton x rest

theorem rtruncateSpec_perm (bombs : List Id) (xs : List Id) (n : Nat) :
    ((rtruncateSpec bombs xs n).final ++ (rtruncateSpec bombs xs n).dropped ++ (rtruncateSpec bombs xs n).escaped).Perm xs := by
  unfold rtruncateSpec; split
  · simp
  · simp only [List.append_nil]
    have := List.take_append_drop (xs.length - n) xs
    conv => rhs; rw [← this]
    exact List.perm_append_comm

theorem rswapRemoveSpec_perm (xs : List Id) (i : Nat) :
    ((rswapRemoveSpec xs i).final ++ (rswapRemoveSpec xs i).dropped ++ (rswapRemoveSpec xs i).escaped).Perm xs := by
  unfold rswapRemoveSpec
  cases xs with
  | nil => simp
  | cons f rest =>
    by_cases h : i < (f :: rest).length
    · rw [List.getElem?_eq_getElem h]
      simp only [List.head?_cons, List.append_nil]
      cases i with
      | zero => simpa using List.perm_append_singleton f rest
      | succ j =>
        have hj : j < rest.length := by simpa using h
        simp only [List.set_cons_succ, List.tail_cons, List.getElem_cons_succ]
        -- rest.set j f ++ [rest[j]] ~ rest ++ [f] ~ f :: rest
        exact (set_perm rest j f hj).trans (List.perm_append_singleton f rest)
    · have : (f :: rest)[i]? = none := by simp at h ⊢; omega
      rw [this]; simp

theorem rextendCloneSpec_perm (n : Nat) : ∀ (xs : List Id) (o : List Outcome),
    ((rextendCloneSpec xs n o).final).Perm (xs ++ clonedIds n o) := by
  induction n with
  | zero => intro xs o; simp [rextendCloneSpec, clonedIds]
  | succ n ih =>
    intro xs o
    match o with
    | [] => simp [rextendCloneSpec, clonedIds]
    | .panic :: o => simp [rextendCloneSpec, clonedIds]
    | .ret id :: o =>
      simp only [rextendCloneSpec, clonedIds]
      exact (ih (id :: xs) o).trans (by simpa using List.perm_middle.symm)

theorem rextendCloneSpecR_perm (room : Bool) (xs : List Id) (n : Nat) (o : List Outcome) :
    ((rextendCloneSpecR room xs n o).final ++ (rextendCloneSpecR room xs n o).dropped ++
      (rextendCloneSpecR room xs n o).escaped).Perm (xs ++ (if room then clonedIds n o else [])) := by
  unfold rextendCloneSpecR
  cases room
  · simp
  · have ⟨_, _, hd, he⟩ := rextendCloneSpec_length n xs o
    simpa [hd, he] using rextendCloneSpec_perm n xs o

theorem rextendCloneSpecR_len (room : Bool) (xs : List Id) (n : Nat) (o : List Outcome) :
    (rextendCloneSpecR room xs n o).final.length ≤ xs.length + (if room then n else 0) := by
  unfold rextendCloneSpecR
  cases room
  · simp
  · have ⟨h1, _⟩ := rextendCloneSpec_length n xs o
    simpa using h1

theorem rextendWithSpecR_perm (room : Bool) (bombs : List Id) (xs : List Id) (n : Nat) (value : Id) (o : List Outcome) :
    ((rextendWithSpecR room bombs xs n value o).final ++ (rextendWithSpecR room bombs xs n value o).dropped ++
      (rextendWithSpecR room bombs xs n value o).escaped).Perm (xs ++ extendWithIns room n value o) := by
  unfold rextendWithSpecR extendWithIns
  cases room
  · simp
  · simp only [↓reduceIte]
    unfold rextendWithSpec
    cases n with
    | zero => simp [clonedIds]
    | succ m =>
      simp only [Nat.add_sub_cancel]
      have hf := rextendCloneSpec_perm m xs o
      have ⟨_, _, hd, he⟩ := rextendCloneSpec_length m xs o
      cases hx : (rextendCloneSpec xs m o).exit with
      | ret u =>
        simp only [hd, he, List.append_nil]
        refine (List.Perm.cons value hf).trans ?_
        simpa [List.append_assoc] using (List.perm_append_singleton value (xs ++ clonedIds m o)).symm
      | panic d =>
        simp only [he, List.append_nil]
        rw [← List.append_assoc]
        exact List.Perm.append_right _ hf

theorem rextendWithSpecR_len (room : Bool) (bombs : List Id) (xs : List Id) (n : Nat) (value : Id) (o : List Outcome) :
    (rextendWithSpecR room bombs xs n value o).final.length ≤ xs.length + (if room then n else 0) := by
  unfold rextendWithSpecR
  cases room
  · simp
  · simp only [↓reduceIte]
    unfold rextendWithSpec
    cases n with
    | zero => simp
    | succ m =>
      have ⟨h1, _⟩ := rextendCloneSpec_length m xs o
      simp only
      split <;> simp <;> omega

theorem rresizeSpec_perm (room : Bool) (bombs : List Id) (xs : List Id) (newLen : Nat) (value : Id) (o : List Outcome) :
    ((rresizeSpec room bombs xs newLen value o).final ++ (rresizeSpec room bombs xs newLen value o).dropped ++
      (rresizeSpec room bombs xs newLen value o).escaped).Perm (xs ++ resizeIns room xs newLen value o) := by
  unfold rresizeSpec resizeIns
  split
  · exact rextendWithSpecR_perm ..
  · have := rtruncateSpec_perm bombs xs newLen
    rw [rtruncateSpec_escaped] at this
    simp only [List.append_nil] at this ⊢
    rw [← List.append_assoc]
    exact List.Perm.append_right _ this

theorem rresizeSpec_len (room : Bool) (bombs : List Id) (xs : List Id) (newLen : Nat) (value : Id) (o : List Outcome) :
    (rresizeSpec room bombs xs newLen value o).final.length ≤ xs.length + (if room then newLen - xs.length else 0) := by
  unfold rresizeSpec
  split
  · exact rextendWithSpecR_len ..
  · have := (rtruncateSpec_perm bombs xs newLen).length_eq
    simp only [List.length_append] at this ⊢
    omega

end Coll
