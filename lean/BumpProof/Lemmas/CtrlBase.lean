/-
  Lemmas/CtrlBase.lean — helper lemmas for the control-flow properties C13, C14, C15, C17:
  the bump computations on the current chunk of the arena model (`Arena.tryCur`) expressed
  through the wide-integer specification (via C11), dummy ranges, evaluation of the small
  `Gen.LibArith` helpers.
-/
import BumpProof.Arena.Step
import BumpProof.Props.C11
import BumpProof.Lemmas.RsOps

set_option linter.unusedVariables false
set_option linter.unusedSimpArgs false

namespace Ctrl
open Arena Rs Lemmas

/-! ## Hypothesis vocabulary -/

/-- the minimum alignments the crate supports -/
def MinAlignOk (m : Nat) : Prop := m = 1 ∨ m = 2 ∨ m = 4 ∨ m = 8 ∨ m = 16

theorem MinAlignOk.p2 {m : Nat} (h : MinAlignOk m) : P2 m := by
  rcases h with h | h | h | h | h <;> rw [h]
  · exact ⟨0, rfl⟩
  · exact ⟨1, rfl⟩
  · exact ⟨2, rfl⟩
  · exact ⟨3, rfl⟩
  · exact ⟨4, rfl⟩

theorem MinAlignOk.le {m : Nat} (h : MinAlignOk m) : m ≤ 16 := by
  rcases h with h | h | h | h | h <;> omega

theorem MinAlignOk.pos {m : Nat} (h : MinAlignOk m) : 0 < m := by
  rcases h with h | h | h | h | h <;> omega

/-- hints are truthful for a layout -/
def Truthful (L : Layout) (h : Hints) : Prop := h.sma = true → L.align ∣ L.size

theorem truthful_custom (L : Layout) : Truthful L Hints.custom := by
  intro h; cases h

theorem layout_valid_p2 {L : Layout} (h : L.Valid) : P2 L.align := by
  obtain ⟨⟨k, _, hk⟩, _⟩ := h; exact ⟨k, hk⟩

theorem validLayout_ok {L : Layout} (h : L.Valid) : validLayout L = .ok () := by
  have hp := layout_valid_p2 h
  have hpos := hp.pos
  unfold validLayout
  rw [hp.is_power_of_two, decide_eq_true h.2, decide_eq_true (show L.align > 0 from hpos)]
  rfl

theorem bytes_layout_valid {n : Nat} (h : n ≤ Rs.IMAX) : ({ size := n, align := 1 } : Layout).Valid :=
  ⟨⟨0, by decide, rfl⟩, h⟩

/-! ## Monad plumbing -/

theorem liftM_ok {α} (v : α) : liftM (.ok v : Rs.M α) = .ok v := rfl
theorem liftM_pure {α} (v : α) : liftM (pure v : Rs.M α) = .ok v := rfl
theorem R_ok_bind {α β} (a : α) (f : α → R β) : (Except.ok a >>= f) = f a := rfl
theorem R_pure_bind {α β} (a : α) (f : α → R β) : ((pure a : R α) >>= f) = f a := rfl
theorem R_pure_eq {α} (a : α) : (pure a : R α) = .ok a := rfl
theorem R_err_bind {α β} (e : Fault) (f : α → R β) : ((Except.error e : R α) >>= f) = .error e := rfl

/-- the guard of `Op.onClaimed`: passes when a claim frame is open -/
theorem if_no_claim {α} {l : List Frame} {p : Frame → Bool} (h : Frame.claim ∈ l) (a b : α)
    (hp : p .claim = true) : (if (!l.any p) = true then a else b) = b := by
  have : l.any p = true := List.any_eq_true.2 ⟨_, h, hp⟩
  rw [this]; rfl

/-! ## Spec on the dummy range -/

theorem bumpUp_dummy {e sz al ma : Nat} (hal : 0 < al) : Spec.bumpUp (e + 16) e sz al ma = none := by
  unfold Spec.bumpUp
  have := le_upAlign (e + 16) hal
  simp only
  rw [if_neg (by omega)]

theorem bumpDown_dummy {e sz al ma : Nat} : Spec.bumpDown (e + 16) e sz al ma = none := by
  unfold Spec.bumpDown
  split
  · have := downAlign_le (e - sz) (Nat.max al ma)
    simp only
    rw [if_neg (by omega)]
  · rfl

theorem prepareUp_dummy {e sz al : Nat} (hal : 0 < al) : Spec.prepareUp (e + 16) e sz al = none := by
  unfold Spec.prepareUp
  have := le_upAlign (e + 16) hal
  simp only
  rw [if_neg (by omega)]

theorem prepareDown_dummy {e sz al : Nat} : Spec.prepareDown (e + 16) e sz al = none := by
  unfold Spec.prepareDown
  have := downAlign_le e al
  simp only
  rw [if_neg (by omega)]

/-! ## `bumpProps` of the model -/

theorem bumpProps_start (cfg : Cfg) (s : State) (L : Layout) (h : Hints) :
    (bumpProps cfg s L h).start = (freeRange cfg s).1 := rfl
theorem bumpProps_end (cfg : Cfg) (s : State) (L : Layout) (h : Hints) :
    (bumpProps cfg s L h).«end» = (freeRange cfg s).2 := rfl
theorem bumpProps_min (cfg : Cfg) (s : State) (L : Layout) (h : Hints) :
    (bumpProps cfg s L h).min_align = s.minAlign := rfl
theorem bumpProps_layout (cfg : Cfg) (s : State) (L : Layout) (h : Hints) :
    (bumpProps cfg s L h).layout = L := rfl
theorem bumpProps_sma (cfg : Cfg) (s : State) (L : Layout) (h : Hints) :
    (bumpProps cfg s L h).size_is_multiple_of_align = h.sma := rfl

theorem dummyAddr_dvd : 16 ∣ dummyAddr := ⟨0x400000000000005, by decide⟩

theorem freeRange_claimed (cfg : Cfg) {s : State} (hc : s.cur = .claimed) :
    freeRange cfg s = (dummyAddr + 16, dummyAddr) := by
  unfold freeRange; rw [hc]

theorem freeRange_unallocated (cfg : Cfg) {s : State} (hc : s.cur = .unallocated) :
    freeRange cfg s = (dummyAddr + 16, dummyAddr) := by
  unfold freeRange; rw [hc]

/-- the free range of a claimed handle is the dummy range of capacity −16 -/
theorem dummy_of_claimed (cfg : Cfg) {s : State} (L : Layout) (h : Hints) (hc : s.cur = .claimed) :
    C11.Dummy (bumpProps cfg s L h) := by
  unfold C11.Dummy
  rw [bumpProps_start, bumpProps_end, freeRange_claimed cfg hc]
  exact ⟨rfl, dummyAddr_dvd⟩

/-- only the hints matter for validity beyond the range: changing truthful hints keeps `Valid` -/
theorem valid_hints {cfg : Cfg} {s : State} {L : Layout} {h1 h2 : Hints} {up : Bool}
    (hv : C11.Valid up (bumpProps cfg s L h1)) (ht : Truthful L h2) :
    C11.Valid up (bumpProps cfg s L h2) := by
  obtain ⟨hc, hr⟩ := hv
  exact ⟨⟨hc.start_ne, hc.end_ne, hc.start_lt, hc.end_lt, hc.min_align, hc.layout, ht⟩, hr⟩

theorem valid_of_dummy {cfg : Cfg} {s : State} {L : Layout} {h : Hints} (up : Bool)
    (hd : freeRange cfg s = (dummyAddr + 16, dummyAddr))
    (hm : MinAlignOk s.minAlign) (hL : L.Valid) (ht : Truthful L h) :
    C11.Valid up (bumpProps cfg s L h) := by
  refine ⟨⟨?_, ?_, ?_, ?_, hm, hL, ht⟩, Or.inr ⟨?_, ?_⟩⟩
  all_goals simp only [bumpProps_start, bumpProps_end, hd]
  · decide
  · decide
  · decide
  · decide
  · exact dummyAddr_dvd

/-! ## `tryCur` through the specification -/

theorem tryCur_alloc_up {cfg : Cfg} {s : State} {L : Layout} {h : Hints} (hup : cfg.up = true)
    (hv : C11.Valid true (bumpProps cfg s L h)) :
    tryCur cfg .alloc s L h = .ok
      ((Spec.bumpUp (freeRange cfg s).1 (freeRange cfg s).2 L.size L.align s.minAlign).map
        fun r => ((r.1, 0), setCurPos s r.2)) := by
  unfold tryCur
  simp only [hup, ↓reduceIte, C11.bump_up_eq _ hv, liftM_ok, R_ok_bind, bumpProps_start, bumpProps_end,
    bumpProps_min, bumpProps_layout]
  cases Spec.bumpUp (freeRange cfg s).1 (freeRange cfg s).2 L.size L.align s.minAlign <;> rfl

theorem tryCur_alloc_down {cfg : Cfg} {s : State} {L : Layout} {h : Hints} (hup : cfg.up = false)
    (hv : C11.Valid false (bumpProps cfg s L h)) :
    tryCur cfg .alloc s L h = .ok
      ((Spec.bumpDown (freeRange cfg s).1 (freeRange cfg s).2 L.size L.align s.minAlign).map
        fun p => ((p, 0), setCurPos s p)) := by
  unfold tryCur
  simp only [hup, Bool.false_eq_true, ↓reduceIte, C11.bump_down_eq _ hv, liftM_ok, R_ok_bind, bumpProps_start,
    bumpProps_end, bumpProps_min, bumpProps_layout]
  cases Spec.bumpDown (freeRange cfg s).1 (freeRange cfg s).2 L.size L.align s.minAlign <;> rfl

theorem tryCur_prepare_up {cfg : Cfg} {s : State} {L : Layout} {h : Hints} (hup : cfg.up = true)
    (hv : C11.Valid true (bumpProps cfg s L h)) :
    tryCur cfg .prepare s L h = .ok
      ((Spec.bumpUp (freeRange cfg s).1 (freeRange cfg s).2 L.size L.align s.minAlign).map
        fun r => ((r.1, 0), s)) := by
  unfold tryCur
  simp only [hup, ↓reduceIte, C11.bump_up_eq _ hv, liftM_ok, R_ok_bind, bumpProps_start, bumpProps_end,
    bumpProps_min, bumpProps_layout]
  cases Spec.bumpUp (freeRange cfg s).1 (freeRange cfg s).2 L.size L.align s.minAlign <;> rfl

theorem tryCur_prepare_down {cfg : Cfg} {s : State} {L : Layout} {h : Hints} (hup : cfg.up = false)
    (hv : C11.Valid false (bumpProps cfg s L h)) :
    tryCur cfg .prepare s L h = .ok
      ((Spec.bumpDown (freeRange cfg s).1 (freeRange cfg s).2 L.size L.align s.minAlign).map
        fun p => ((p, 0), s)) := by
  unfold tryCur
  simp only [hup, Bool.false_eq_true, ↓reduceIte, C11.bump_down_eq _ hv, liftM_ok, R_ok_bind, bumpProps_start,
    bumpProps_end, bumpProps_min, bumpProps_layout]
  cases Spec.bumpDown (freeRange cfg s).1 (freeRange cfg s).2 L.size L.align s.minAlign <;> rfl

theorem tryCur_range_up {cfg : Cfg} {s : State} {L : Layout} {h : Hints} (hup : cfg.up = true)
    (hv : C11.Valid true (bumpProps cfg s L h)) :
    tryCur cfg .range s L h = .ok
      ((Spec.prepareUp (freeRange cfg s).1 (freeRange cfg s).2 L.size L.align).map fun x => (x, s)) := by
  unfold tryCur
  simp only [hup, ↓reduceIte, C11.bump_prepare_up_eq _ hv, liftM_ok, R_ok_bind, bumpProps_start, bumpProps_end,
    bumpProps_min, bumpProps_layout]
  cases Spec.prepareUp (freeRange cfg s).1 (freeRange cfg s).2 L.size L.align <;> rfl

theorem tryCur_range_down {cfg : Cfg} {s : State} {L : Layout} {h : Hints} (hup : cfg.up = false)
    (hv : C11.Valid false (bumpProps cfg s L h)) :
    tryCur cfg .range s L h = .ok
      ((Spec.prepareDown (freeRange cfg s).1 (freeRange cfg s).2 L.size L.align).map fun x => (x, s)) := by
  unfold tryCur
  simp only [hup, Bool.false_eq_true, ↓reduceIte, C11.bump_prepare_down_eq _ hv, liftM_ok, R_ok_bind,
    bumpProps_start, bumpProps_end, bumpProps_min, bumpProps_layout]
  cases Spec.prepareDown (freeRange cfg s).1 (freeRange cfg s).2 L.size L.align <;> rfl

/-- on a dummy range (claimed / unallocated handle) every bump computation answers "does not fit" -/
theorem tryCur_dummy {cfg : Cfg} {s : State} {L : Layout} {h : Hints} (k : Kind)
    (hd : freeRange cfg s = (dummyAddr + 16, dummyAddr))
    (hm : MinAlignOk s.minAlign) (hL : L.Valid) (ht : Truthful L h) :
    tryCur cfg k s L h = .ok none := by
  have hal := (layout_valid_p2 hL).pos
  cases hup : cfg.up
  · have hv : C11.Valid false (bumpProps cfg s L h) := valid_of_dummy false hd hm hL ht
    cases k
    · rw [tryCur_alloc_down hup hv, hd]; simp only [bumpDown_dummy, Option.map]
    · rw [tryCur_prepare_down hup hv, hd]; simp only [bumpDown_dummy, Option.map]
    · rw [tryCur_range_down hup hv, hd]; simp only [prepareDown_dummy, Option.map]
  · have hv : C11.Valid true (bumpProps cfg s L h) := valid_of_dummy true hd hm hL ht
    cases k
    · rw [tryCur_alloc_up hup hv, hd]; simp only [bumpUp_dummy hal, Option.map]
    · rw [tryCur_prepare_up hup hv, hd]; simp only [bumpUp_dummy hal, Option.map]
    · rw [tryCur_range_up hup hv, hd]; simp only [prepareUp_dummy hal, Option.map]

end Ctrl
