/-
  Lemmas/Hist2Ex.lean — executable checkers for the hypotheses of the theorems of `Props/Hist2.lean`
  (`Above`, `NoBare`) and concrete histories used as non-vacuity examples.
-/
import BumpProof.Lemmas.Hist2Scope
import BumpProof.Lemmas.HistBytes3

set_option linter.unusedSimpArgs false
set_option linter.unusedVariables false

deriving instance DecidableEq for Arena.Frame

namespace Arena.Hist
open Rs

variable {cfg : Cfg}

/-- `base` is the outer part of `fs` -/
def suffixCheck (base fs : List Frame) : Bool :=
  decide (fs.drop (fs.length - base.length) = base)

theorem suffixCheck_sound {base fs : List Frame} (h : suffixCheck base fs = true) : ∃ pre, fs = pre ++ base := by
  have := of_decide_eq_true h
  exact ⟨fs.take (fs.length - base.length), by
    have h2 := (List.take_append_drop (fs.length - base.length) fs).symm
    rw [this] at h2; exact h2⟩

/-- executable form of `Above` -/
def aboveCheck (cfg : Cfg) (base : List Frame) : GState → List (Op × List BaseResp) → Bool
  | g, [] => suffixCheck base g.s.frames
  | g, (op, resps) :: rest =>
    suffixCheck base g.s.frames &&
      (match step cfg g op resps with
       | .ok (g', _, _) => aboveCheck cfg base g' rest
       | .error _ => true)

theorem aboveCheck_sound {base : List Frame} : ∀ (w : List (Op × List BaseResp)) (g : GState),
    aboveCheck cfg base g w = true → Above cfg base g w := by
  intro w
  induction w with
  | nil => intro g h; exact suffixCheck_sound h
  | cons x rest ih =>
    intro g h
    obtain ⟨op, resps⟩ := x
    simp only [aboveCheck, Bool.and_eq_true] at h
    refine ⟨suffixCheck_sound h.1, fun g' out reqs hs => ?_⟩
    have h2 := h.2
    rw [hs] at h2
    exact ih g' h2

theorem noBare_of_check {w : List (Op × List BaseResp)} (h : w.all (fun x => !x.1.isBare) = true) : NoBare w := by
  intro x hx
  have := List.all_eq_true.1 h x hx
  simpa using this

/-! ## the example: inside a region entered in `exG3` (a 496-byte chunk with two live blocks) allocate 600 bytes
    (a second chunk of 1008 bytes is acquired), open and close an inner scope with another allocation -/

def exInner : List (Op × List BaseResp) :=
  [(.allocate exL3 false .plain, [.granted 0x20000 1008]), (.scopeEnter, []), (.allocate exL1 false .plain, []),
   (.scopeExit, [])]

theorem exReach3' : Reachable exCfg exG3 :=
  ⟨exOps3, coveredCheck_sound (by decide), runEnvCheck_sound _ _ (by rfl), exG3_run⟩

theorem exInner_covered : AllCovered exInner := coveredCheck_sound (by decide)

end Arena.Hist
