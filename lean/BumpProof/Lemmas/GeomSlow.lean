/-
  Lemmas/GeomSlow.lean — the allocation slow path: walking to the next chunks, appending a
  chunk, and the fact that the layout always fits the chunk that was created for it.
-/
import BumpProof.Lemmas.GeomNew

set_option linter.unusedSimpArgs false
set_option linter.unusedVariables false

namespace Arena
open Rs Lemmas

section
variable {cfg : Cfg}

/-! ## walking the successors -/

theorem map_set_of_eq {α β : Type} (l : List α) (i : Nat) (a a' : α) (f : α → β) (hi : l[i]? = some a)
    (hf : f a' = f a) : (l.set i a').map f = l.map f := by
  apply List.ext_getElem?
  intro j
  simp only [List.getElem?_map, List.getElem?_set]
  split
  · subst ‹i = j›
    have hlt : i < l.length := (List.getElem?_eq_some_iff.1 hi).1
    simp only [hlt, ↓reduceIte, hi, Option.map_some, hf]
  · rfl

/-- making the next chunk current after resetting it -/
theorem GeomInv.nextChunk (hc : CfgOK cfg) {s : State} (h : GeomInv cfg s) {j : Nat} {c : Chunk} (hj : s.chunks[j]? = some c) :
    GeomInv cfg { s with chunks := s.chunks.set j (c.resetPos cfg), cur := .chunk j } ∧
    SameShape s { s with chunks := s.chunks.set j (c.resetPos cfg), cur := .chunk j } := by
  have hw := h.chunks j c hj
  have hlt : j < s.chunks.length := (List.getElem?_eq_some_iff.1 hj).1
  refine ⟨⟨?_, h.minAlign, ?_⟩, ?_⟩
  · intro i d hi
    simp only [List.getElem?_set] at hi
    split at hi
    · simp only [hlt, ↓reduceIte, Option.some.injEq] at hi
      subst hi; exact hw.resetPos
    · exact h.chunks i d hi
  · intro i hi
    simp only [Cur.chunk.injEq] at hi
    subst hi
    refine ⟨c.resetPos cfg, ?_, h.minAlign.dvd_of_16 (resetPos_pos16 hc hw)⟩
    simp only [List.getElem?_set, hlt, ↓reduceIte]
  · exact map_set_of_eq _ _ _ _ _ hj rfl

theorem walkNext_ok (hc : CfgOK cfg) (k : Kind) {L : Layout} {hints : Hints} (hL : L.Valid)
    (hh : hints.sma = true → L.align ∣ L.size) :
    ∀ (fuel i : Nat) (s : State), GeomInv cfg s → (∃ j, s.cur = .chunk j) →
    ∃ o s', walkNext cfg k L hints fuel i s = .ok (o, s') ∧ GeomInv cfg s' ∧ SameShape s s' ∧
      s'.minAlign = s.minAlign ∧ s'.resps = s.resps ∧ s'.reqs = s.reqs ∧ (∃ j, s'.cur = .chunk j) ∧
      (∀ v s'', o = some (v, s'') → s'' = s' ∧
        ∃ sx j, GeomInv cfg sx ∧ SameShape s sx ∧ sx.minAlign = s.minAlign ∧ sx.cur = .chunk j ∧ i < j ∧
          tryCurSpec cfg k sx L = some (v, s')) ∧
      (∀ j, j ≤ i → s'.chunks[j]? = s.chunks[j]?) := by
  intro fuel
  induction fuel with
  | zero =>
    intro i s h hcur
    exact ⟨none, s, rfl, h, SameShape.refl _, rfl, rfl, rfl, hcur, fun _ _ hx => (by cases hx), fun _ _ => rfl⟩
  | succ fuel ih =>
    intro i s h hcur
    unfold walkNext
    cases hn : s.chunks[i+1]? with
    | none => exact ⟨none, s, rfl, h, SameShape.refl _, rfl, rfl, rfl, hcur, fun _ _ hx => (by cases hx), fun _ _ => rfl⟩
    | some c =>
      obtain ⟨h1, hs1⟩ := h.nextChunk hc hn
      have hset : ∀ j, j ≤ i → (s.chunks.set (i+1) (c.resetPos cfg))[j]? = s.chunks[j]? := by
        intro j hj
        rw [List.getElem?_set, if_neg (by omega)]
      simp only [tryCur_eq hc h1 k hL hh, r_ok_bind]
      cases ht : tryCurSpec cfg k { s with chunks := s.chunks.set (i+1) (c.resetPos cfg), cur := .chunk (i+1) } L with
      | none =>
        obtain ⟨o, s', e1, e2, e3, e4, e5, e6, e7, e8, e9⟩ := ih (i+1) _ h1 ⟨i+1, rfl⟩
        refine ⟨o, s', e1, e2, hs1.trans e3, e4, e5, e6, e7, ?_, ?_⟩
        · intro v s'' hx
          obtain ⟨f1, sx, j, f2, f3, f4, f5, f6, f7⟩ := e8 v s'' hx
          exact ⟨f1, sx, j, f2, hs1.trans f3, f4, f5, by omega, f7⟩
        · intro j hj
          rw [e9 j (by omega)]
          exact hset j hj
      | some r =>
        obtain ⟨v, s2⟩ := r
        obtain ⟨g1, g2, g3, g4, g5, g6⟩ := tryCurSpec_inv hc h1 hL ht
        refine ⟨some (v, s2), s2, rfl, g1, hs1.trans g2, g4, g5, g6, ⟨i+1, g3⟩, ?_, ?_⟩
        · intro v' s'' hx
          cases hx
          exact ⟨rfl, _, i+1, h1, hs1, rfl, rfl, Nat.lt_succ_self i, ht⟩
        · intro j hj
          rw [tryCurSpec_other hc h1 hL ht (c := i+1) rfl (by omega)]
          exact hset j hj

/-! ## the fresh chunk fits -/

/-- the continuation of the slow path after a chunk was requested (`fresh` in the model) -/
def freshTry (cfg : Cfg) (k : Kind) (L : Layout) (hints : Hints) (r : State × Except AErr Nat) :
    R (State × Except AErr (Nat × Nat)) :=
  match r with
  | (s', .error e) => pure (s', .error e)
  | (s', .ok i) => do
    let s' := { s' with cur := .chunk i }
    match ← tryCur cfg k s' L hints with
    | some (v, s'') => pure (s'', .ok v)
    | none => throw (.ub "unreachable_unchecked: the layout does not fit the chunk that was created for it")

/-- the continuation after `append_for` in the `.chunk i` branch: when the request for a new chunk
    failed the allocator stays in chunk `i` (fix c107ca6) -/
def freshTryAt (cfg : Cfg) (k : Kind) (L : Layout) (hints : Hints) (i : Nat) (r : State × Except AErr Nat) :
    R (State × Except AErr (Nat × Nat)) :=
  match r with
  | (s'', .error e) => pure ({ s'' with cur := .chunk i }, .error e)
  | r => freshTry cfg k L hints r

theorem inAnotherChunk_eq (cfg : Cfg) (k : Kind) (s : State) (L : Layout) (hints : Hints) :
    inAnotherChunk cfg k s L hints =
      match s.cur with
      | .claimed => pure (s, .error .claimed)
      | .unallocated => newChunkForCapacity cfg s L >>= freshTry cfg k L hints
      | .chunk i =>
        walkNext cfg k L hints (s.chunks.length - (i+1)) i s >>= fun x =>
          match x with
          | (some (v, s'), _) => pure (s', .ok v)
          | (none, s') => appendFor cfg s' L >>= freshTryAt cfg k L hints i := by
  unfold inAnotherChunk
  rfl

/-- `freshTryAt` is `freshTry` followed by restoring the current chunk on failure -/
def fixCur (i : Nat) (x : State × Except AErr (Nat × Nat)) : R (State × Except AErr (Nat × Nat)) :=
  match x with
  | (s3, .error e) => pure ({ s3 with cur := .chunk i }, .error e)
  | (s3, .ok v) => pure (s3, .ok v)

theorem freshTryAt_eq (cfg : Cfg) (k : Kind) (L : Layout) (hints : Hints) (i : Nat) (r : State × Except AErr Nat) :
    freshTryAt cfg k L hints i r = freshTry cfg k L hints r >>= fixCur i := by
  obtain ⟨s2, r2⟩ := r
  cases r2 with
  | error e => rfl
  | ok j =>
    show freshTry cfg k L hints (s2, .ok j) = _
    unfold freshTry
    simp only
    cases tryCur cfg k { s2 with cur := .chunk j } L hints with
    | error f => rfl
    | ok o =>
      cases o with
      | none => rfl
      | some x => obtain ⟨v, s''⟩ := x; rfl

theorem bind_freshTryAt (cfg : Cfg) (k : Kind) (L : Layout) (hints : Hints) (i : Nat) (x : R (State × Except AErr Nat)) :
    (x >>= freshTryAt cfg k L hints i) = ((x >>= freshTry cfg k L hints) >>= fixCur i) := by
  cases x with
  | error f => rfl
  | ok r => exact freshTryAt_eq cfg k L hints i r

/-- the state in which the freshly created chunk `i` is current satisfies the invariant, and the
    layout that caused the chunk fits it (this is why `unreachable_unchecked` is unreachable) -/
theorem fresh_fits (hc : CfgOK cfg) {s1 : State} (h1 : GeomInv cfg s1) (hr : RespsOK cfg s1) (k : Kind) {L : Layout} (hL : L.Valid)
    (hk : k = .range → L.align ∣ L.size) {hint size : Nat}
    (hhint : Spec.hintFromCapacity cfg.up cfg.hdr L ≤ hint) (hs : Spec.calcSize cfg.up cfg.hdr hint = some size)
    {s2 : State} {i : Nat} (he : newChunkSpec cfg s1 size = .ok (s2, .ok i)) :
    GeomInv cfg { s2 with cur := .chunk i } ∧ ∃ v s3, tryCurSpec cfg k { s2 with cur := .chunk i } L = some (v, s3) := by
  obtain ⟨_, _, hsz, _, _⟩ := C12.calcSize_some hc.hdr hs
  obtain ⟨g1, g2, g3, g4, _, g6⟩ := newChunkSpec_ok hc h1 hr hsz he
  obtain ⟨hi, p, g, rest, hrs, hg, hle, hch⟩ := g6 i rfl
  have hw := freshChunk_wf hc hg hsz hle
  have hget : s2.chunks[i]? = some (freshChunk cfg p g size) := by
    rw [hch, hi, List.getElem?_append, if_neg (Nat.lt_irrefl _), Nat.sub_self]; rfl
  have hma : MinAlignOK s2.minAlign := g1.minAlign
  have hinv : GeomInv cfg { s2 with cur := .chunk i } := g1.withCur hget (hma.dvd_of_16 hw.2.1)
  refine ⟨hinv, ?_⟩
  have hgle : size ≤ g := Nat.le_trans hle (Lemmas.Size.downAlign_le _ _)
  have hfr : freeRange cfg { s2 with cur := .chunk i } =
      Spec.freshRange cfg.up cfg.hdr p (Spec.downAlign g (Spec.sizeAlign cfg.up cfg.hdr)) := by
    rw [freeRange_chunk (s := { s2 with cur := .chunk i }) rfl hget]
    unfold Spec.freshRange freshChunk Chunk.contentEnd Chunk.contentStart
    cases cfg.up <;> simp only [Bool.false_eq_true, ↓reduceIte]
  unfold tryCurSpec
  rw [hfr]
  cases hup : cfg.up
  · rw [hup] at hs hhint
    have hf := C12.fresh_fits_down hc.hdr hL hma hhint hs hgle hg.1
    simp only at hf
    obtain ⟨⟨x, hx⟩, hf2⟩ := hf
    cases k
    · simp only [Bool.false_eq_true, ↓reduceIte, hx, Option.map_some]; exact ⟨_, _, rfl⟩
    · simp only [Bool.false_eq_true, ↓reduceIte, hx, Option.map_some]; exact ⟨_, _, rfl⟩
    · obtain ⟨y, hy⟩ := hf2 (hk rfl)
      simp only [Bool.false_eq_true, ↓reduceIte, hy, Option.map_some]; exact ⟨_, _, rfl⟩
  · rw [hup] at hs hhint
    have hf := C12.fresh_fits_up hc.hdr hL hma hhint hs hgle hg.1
    simp only at hf
    obtain ⟨⟨x, hx⟩, hf2⟩ := hf
    cases k
    · simp only [↓reduceIte, hx, Option.map_some]; exact ⟨_, _, rfl⟩
    · simp only [↓reduceIte, hx, Option.map_some]; exact ⟨_, _, rfl⟩
    · obtain ⟨y, hy⟩ := hf2 (hk rfl)
      simp only [↓reduceIte, hy, Option.map_some]; exact ⟨_, _, rfl⟩

/-- what `newChunk` followed by the retry leaves behind -/
structure FreshPost (cfg : Cfg) (k : Kind) (L : Layout) (size : Nat) (s1 s3 : State) (r : Except AErr (Nat × Nat)) : Prop where
  inv : GeomInv cfg s3
  resps : RespsOK cfg s3
  minAlign : s3.minAlign = s1.minAlign
  err : ∀ e, r = .error e → SameShape s1 s3 ∧ s3.cur = s1.cur ∧ s3.chunks = s1.chunks
  ok : ∀ v, r = .ok v → s3.cur = .chunk s1.chunks.length ∧
    ∃ c, s3.chunks.map Chunk.shape = s1.chunks.map Chunk.shape ++ [Chunk.shape c] ∧ size ≤ c.size ∧
      ∃ p g rest sx, s1.resps = .granted p g :: rest ∧ c.base = p ∧ c.size ≤ g ∧
        GeomInv cfg sx ∧ sx.minAlign = s1.minAlign ∧ sx.cur = .chunk s1.chunks.length ∧
        sx.chunks = s1.chunks ++ [c] ∧ tryCurSpec cfg k sx L = some (v, s3)
  trace : Trace s1 s3

theorem freshTry_newChunk (hc : CfgOK cfg) {s1 : State} (h1 : GeomInv cfg s1) (hr : RespsOK cfg s1) (k : Kind)
    {L : Layout} {hints : Hints} (hL : L.Valid) (hh : hints.sma = true → L.align ∣ L.size)
    (hk : k = .range → L.align ∣ L.size) {hint size : Nat}
    (hhint : Spec.hintFromCapacity cfg.up cfg.hdr L ≤ hint) (hs : Spec.calcSize cfg.up cfg.hdr hint = some size) :
    (∀ s3 r, (newChunk cfg s1 size >>= freshTry cfg k L hints) = .ok (s3, r) → FreshPost cfg k L size s1 s3 r) ∧
    (HeadOK cfg s1 size → ∃ s3 r, (newChunk cfg s1 size >>= freshTry cfg k L hints) = .ok (s3, r)) := by
  obtain ⟨_, hsa, hsz, _, _⟩ := C12.calcSize_some hc.hdr hs
  rw [newChunk_eq hc hr]
  have key : ∀ s2 r2, newChunkSpec cfg s1 size = .ok (s2, r2) →
      ∃ s3 r, freshTry cfg k L hints (s2, r2) = .ok (s3, r) ∧ FreshPost cfg k L size s1 s3 r := by
    intro s2 r2 he
    obtain ⟨g1, g2, g3, g4, g5, g6⟩ := newChunkSpec_ok hc h1 hr hsz he
    cases r2 with
    | error e =>
      refine ⟨s2, .error e, rfl, g1, g2, g4, ?_, fun v hv => (by cases hv), newChunkSpec_trace he⟩
      intro e' _
      exact ⟨by unfold SameShape; rw [g5 e rfl], g3, g5 e rfl⟩
    | ok i =>
      obtain ⟨hinv, v, s3, ht⟩ := fresh_fits hc h1 hr k hL hk hhint hs he
      obtain ⟨hi, p, g, rest, hrs, hg, hle, hch⟩ := g6 i rfl
      obtain ⟨t1, t2, t3, t4, t5, t6⟩ := tryCurSpec_inv hc hinv hL ht
      refine ⟨s3, .ok v, ?_, t1, ?_, t4.trans g4, fun e he => (by cases he), ?_,
        (newChunkSpec_trace he).post (show SameShape s2 s3 from t2) (show s3.resps = s2.resps from t5)⟩
      · unfold freshTry
        simp only [tryCur_eq hc hinv k hL hh, r_ok_bind, ht]
        rfl
      · intro x hx
        rw [t5] at hx
        exact g2 x hx
      · intro v' hv'
        cases hv'
        refine ⟨by rw [t3, hi], freshChunk cfg p g size, ?_, hle, p, g, rest, _, hrs, rfl,
          Lemmas.Size.downAlign_le _ _, hinv, g4, by rw [hi], hch, ht⟩
        have : s3.chunks.map Chunk.shape = s2.chunks.map Chunk.shape := t2
        rw [this, hch, List.map_append]
        rfl
  constructor
  · intro s3 r he
    cases hn : newChunkSpec cfg s1 size with
    | error f => rw [hn] at he; cases he
    | ok x =>
      obtain ⟨s2, r2⟩ := x
      rw [hn] at he
      obtain ⟨s3', r', e1, e2⟩ := key s2 r2 hn
      have : freshTry cfg k L hints (s2, r2) = .ok (s3, r) := he
      rw [e1] at this
      cases this
      exact e2
  · intro hhead
    obtain ⟨s2, r2, hn⟩ := newChunkSpec_noFault hc hsa hhead
    obtain ⟨s3, r, e1, _⟩ := key s2 r2 hn
    exact ⟨s3, r, by rw [hn]; exact e1⟩

/-! ## `in_another_chunk` -/

/-- what a completed slow path for `L` leaves behind -/
structure SlowPost {α : Type} (cfg : Cfg) (L : Layout) (s s' : State) (r : Except AErr α) : Prop where
  inv : GeomInv cfg s'
  resps : RespsOK cfg s'
  minAlign : s'.minAlign = s.minAlign
  /-- the arena is unallocated afterwards only if it was before and nothing happened -/
  unalloc : s'.cur = .unallocated → s.cur = .unallocated ∧ SameShape s s'
  /-- success: a chunk is current -/
  cur_ok : ∀ v, r = .ok v → ∃ j, s'.cur = .chunk j
  /-- the chunk list is the old one (up to positions and bytes), or the old one plus one new current chunk
      that is at least as big as the size computed for it -/
  shape : SameShape s s' ∨
    ∃ c size, requestSize cfg s L = some size ∧
      s'.chunks.map Chunk.shape = s.chunks.map Chunk.shape ++ [Chunk.shape c] ∧ size ≤ c.size ∧
      s'.cur = .chunk s.chunks.length
  trace : Trace s s'
  /-- failure leaves the current chunk as it was (fix c107ca6) -/
  cur_err : ∀ e, r = .error e → s'.cur = s.cur

theorem SameShape.getLast_size {s s' : State} (h : SameShape s s') {last : Chunk} (hl : s'.chunks.getLast? = some last) :
    ∃ last', s.chunks.getLast? = some last' ∧ last'.size = last.size := by
  have := h.getLast?
  rw [hl] at this
  cases hl' : s.chunks.getLast? with
  | none => rw [hl'] at this; simp at this
  | some l' =>
    rw [hl'] at this
    simp only [Option.map_some, Option.some.injEq, Chunk.shape, Prod.mk.injEq] at this
    exact ⟨l', rfl, by omega⟩

theorem getLast?_isSome_of_getElem? {α : Type} {l : List α} {i : Nat} {a : α} (h : l[i]? = some a) :
    ∃ b, l.getLast? = some b := by
  cases hl : l.getLast? with
  | none => rw [List.getLast?_eq_none_iff] at hl; subst hl; simp at h
  | some b => exact ⟨b, rfl⟩

/-- where the block of a successful slow path comes from: the last step is a `tryCur` on a state `sx`
    whose current chunk is a LATER chunk of `s` (same shapes) or a NEW chunk in the block the base
    allocator just granted -/
def SlowFrom (cfg : Cfg) (k : Kind) (L : Layout) (s s' : State) (v : Nat × Nat) : Prop :=
  ∃ sx, GeomInv cfg sx ∧ sx.minAlign = s.minAlign ∧ tryCurSpec cfg k sx L = some (v, s') ∧
    ((SameShape s sx ∧ ∃ i j, s.cur = .chunk i ∧ sx.cur = .chunk j ∧ i < j) ∨
     (∃ p g rest c, s.resps = .granted p g :: rest ∧ c.base = p ∧ c.size ≤ g ∧
        sx.chunks.map Chunk.shape = s.chunks.map Chunk.shape ++ [Chunk.shape c] ∧ sx.cur = .chunk s.chunks.length))

theorem inAnotherChunk_ok' (hc : CfgOK cfg) {s : State} (h : GeomInv cfg s) (hr : RespsOK cfg s) (k : Kind)
    {L : Layout} {hints : Hints} (hL : L.Valid) (hh : hints.sma = true → L.align ∣ L.size)
    (hk : k = .range → L.align ∣ L.size) :
    (∀ s' r, inAnotherChunk cfg k s L hints = .ok (s', r) →
      SlowPost cfg L s s' r ∧ ∀ v, r = .ok v → SlowFrom cfg k L s s' v) ∧
    (BaseOK cfg s L → ∃ s' r, inAnotherChunk cfg k s L hints = .ok (s', r)) := by
  rw [inAnotherChunk_eq]
  cases hcur : s.cur with
  | claimed =>
    simp only
    refine ⟨?_, fun _ => ⟨_, _, rfl⟩⟩
    intro s' r he
    cases he
    exact ⟨⟨h, hr, rfl, fun hx => (by rw [hcur] at hx; cases hx), fun v hv => (by cases hv), Or.inl (SameShape.refl _),
      Trace.refl _, fun _ _ => rfl⟩, fun v hv => (by cases hv)⟩
  | unallocated =>
    simp only [newChunkForCapacity_eq hc hL]
    cases hs : Spec.calcSize cfg.up cfg.hdr (Nat.max (Spec.hintFromCapacity cfg.up cfg.hdr L) cfg.minChunk) with
    | none =>
      refine ⟨?_, fun _ => ⟨_, _, rfl⟩⟩
      intro s' r he
      cases he
      exact ⟨⟨h, hr, rfl, fun _ => ⟨hcur, SameShape.refl _⟩, fun v hv => (by cases hv), Or.inl (SameShape.refl _),
        Trace.refl _, fun _ _ => rfl⟩, fun v hv => (by cases hv)⟩
    | some size =>
      have hreq : requestSize cfg s L = some size := by
        unfold requestSize; simp only [hcur]; exact hs
      have hhint : Spec.hintFromCapacity cfg.up cfg.hdr L ≤
          Nat.max (Spec.hintFromCapacity cfg.up cfg.hdr L) cfg.minChunk := by
        rw [Lemmas.Size.natmax]; omega
      obtain ⟨f1, f2⟩ := freshTry_newChunk hc h hr k hL hh hk hhint hs (hints := hints)
      refine ⟨?_, fun hb => f2 (hb size hreq)⟩
      intro s' r he
      have fp := f1 s' r he
      refine ⟨⟨fp.inv, fp.resps, fp.minAlign, ?_, fun v hv => ⟨_, (fp.ok v hv).1⟩, ?_, fp.trace,
        fun e he => (by subst he; exact (fp.err e rfl).2.1)⟩, ?_⟩
      · intro hx
        cases r with
        | error e => exact ⟨hcur, (fp.err e rfl).1⟩
        | ok v => rw [(fp.ok v rfl).1] at hx; cases hx
      · cases r with
        | error e => exact Or.inl (fp.err e rfl).1
        | ok v =>
          obtain ⟨e1, c, e2, e3, _⟩ := fp.ok v rfl
          exact Or.inr ⟨c, size, hreq, e2, e3, e1⟩
      · intro v hv
        obtain ⟨e1, c, e2, e3, p, g, rest, sx, q1, q2, q3, q4, q5, q6, q7, q8⟩ := fp.ok v hv
        refine ⟨sx, q4, q5, q8, Or.inr ⟨p, g, rest, c, q1, q2, q3, ?_, q6⟩⟩
        rw [q7, List.map_append]; rfl
  | chunk i =>
    obtain ⟨o, s1, w1, w2, w3, w4, w5, w6, w7, w8, w9⟩ :=
      walkNext_ok hc k hL hh (s.chunks.length - (i+1)) i s h ⟨i, hcur⟩
    simp only [w1, r_ok_bind]
    have hr1 : RespsOK cfg s1 := by intro x hx; rw [w5] at hx; exact hr x hx
    cases o with
    | some x =>
      obtain ⟨v, s''⟩ := x
      obtain ⟨this, sx, j, x1, x2, x3, x4, x5, x6⟩ := w8 v s'' rfl
      subst this
      refine ⟨?_, fun _ => ⟨_, _, rfl⟩⟩
      intro s' r he
      cases he
      refine ⟨⟨w2, hr1, w4, fun hx => (by obtain ⟨j, hj⟩ := w7; rw [hj] at hx; cases hx), fun _ _ => w7, Or.inl w3,
        Trace.of_shape w3 w5, fun e he => (by cases he)⟩, ?_⟩
      intro v' hv'
      cases hv'
      exact ⟨sx, x1, x3, x6, Or.inl ⟨x2, i, j, hcur, x4, x5⟩⟩
    | none =>
      obtain ⟨j, hj⟩ := w7
      obtain ⟨cj, hcj, _⟩ := w2.cur j hj
      obtain ⟨last, hlast⟩ := getLast?_isSome_of_getElem? hcj
      obtain ⟨last', hlast', hsz⟩ := w3.getLast_size hlast
      -- chunk `i`, where the allocator stays on failure, was not touched by the walk
      obtain ⟨ci, hci, hdi⟩ := h.cur i hcur
      have hci1 : s1.chunks[i]? = some ci := by rw [w9 i (Nat.le_refl i)]; exact hci
      have hback : ∀ s2 : State, GeomInv cfg s2 → s2.chunks = s1.chunks → s2.minAlign = s.minAlign →
          GeomInv cfg { s2 with cur := .chunk i } := by
        intro s2 h2 hch hma
        exact h2.withCur (by rw [hch]; exact hci1) (by rw [hma]; exact hdi)
      simp only [appendFor_eq hc hL hlast]
      cases hs : Spec.calcSize cfg.up cfg.hdr
          (Nat.max (Nat.max (Spec.hintFromCapacity cfg.up cfg.hdr L) (2 * last.size)) cfg.minChunk) with
      | none =>
        refine ⟨?_, fun _ => ⟨_, _, rfl⟩⟩
        intro s' r he
        cases he
        exact ⟨⟨hback s1 w2 rfl w4, hr1, w4, fun hx => (by cases hx), fun v hv => (by cases hv), Or.inl w3,
          Trace.of_shape w3 w5, fun _ _ => hcur.symm⟩, fun v hv => (by cases hv)⟩
      | some size =>
        have hreq : requestSize cfg s L = some size := by
          unfold requestSize; simp only [hcur, hlast', hsz]; exact hs
        have hhint : Spec.hintFromCapacity cfg.up cfg.hdr L ≤
            Nat.max (Nat.max (Spec.hintFromCapacity cfg.up cfg.hdr L) (2 * last.size)) cfg.minChunk := by
          rw [Lemmas.Size.natmax, Lemmas.Size.natmax]; omega
        obtain ⟨f1, f2⟩ := freshTry_newChunk hc w2 hr1 k hL hh hk hhint hs (hints := hints)
        simp only [bind_freshTryAt]
        refine ⟨?_, ?_⟩
        · intro s' r he
          obtain ⟨⟨s3, r3⟩, h3, hfx⟩ := bind_eq_ok he
          have fp := f1 s3 r3 h3
          cases r3 with
          | error e =>
            cases hfx
            obtain ⟨x1, x2, x3⟩ := fp.err e rfl
            exact ⟨⟨hback s3 fp.inv x3 (fp.minAlign.trans w4), fp.resps, fp.minAlign.trans w4, fun hx => (by cases hx),
              fun v hv => (by cases hv), Or.inl (w3.trans x1), fp.trace.pre w3 w5, fun _ _ => hcur.symm⟩,
              fun v hv => (by cases hv)⟩
          | ok v =>
            cases hfx
            obtain ⟨e1, c, e2, e3, p, g, rest, sx, q1, q2, q3, q4, q5, q6, q7, q8⟩ := fp.ok v rfl
            refine ⟨⟨fp.inv, fp.resps, fp.minAlign.trans w4, fun hx => (by rw [e1] at hx; cases hx),
              fun _ _ => ⟨_, e1⟩, Or.inr ⟨c, size, hreq, ?_, e3, ?_⟩, fp.trace.pre w3 w5, fun e he => (by cases he)⟩, ?_⟩
            · rw [e2]; congr 1
            · rw [e1, w3.length]
            · intro v' hv'
              cases hv'
              refine ⟨sx, q4, q5.trans w4, q8, Or.inr ⟨p, g, rest, c, by rw [← w5]; exact q1, q2, q3, ?_, ?_⟩⟩
              · rw [q7, List.map_append]
                have : s1.chunks.map Chunk.shape = s.chunks.map Chunk.shape := w3
                rw [this]; rfl
              · rw [q6, w3.length]
        · intro hb
          obtain ⟨r0, rest, hrs, hok⟩ := hb size hreq
          obtain ⟨s3, r3, h3⟩ := f2 ⟨r0, rest, by rw [w5]; exact hrs, hok⟩
          rw [h3]
          cases r3 <;> exact ⟨_, _, rfl⟩

theorem inAnotherChunk_ok (hc : CfgOK cfg) {s : State} (h : GeomInv cfg s) (hr : RespsOK cfg s) (k : Kind)
    {L : Layout} {hints : Hints} (hL : L.Valid) (hh : hints.sma = true → L.align ∣ L.size)
    (hk : k = .range → L.align ∣ L.size) :
    (∀ s' r, inAnotherChunk cfg k s L hints = .ok (s', r) → SlowPost cfg L s s' r) ∧
    (BaseOK cfg s L → ∃ s' r, inAnotherChunk cfg k s L hints = .ok (s', r)) :=
  ⟨fun s' r he => ((inAnotherChunk_ok' hc h hr k hL hh hk).1 s' r he).1, (inAnotherChunk_ok' hc h hr k hL hh hk).2⟩

/-! ## fast path + slow path -/

theorem SlowPost.map {α β : Type} {cfg : Cfg} {L : Layout} {s s' : State} {r : Except AErr α} (f : α → β)
    (p : SlowPost cfg L s s' r) : SlowPost cfg L s s' (r.map f) := by
  refine ⟨p.inv, p.resps, p.minAlign, p.unalloc, ?_, p.shape, p.trace, ?_⟩
  · intro v hv
    cases r with
    | error e => cases hv
    | ok a => exact p.cur_ok a rfl
  · intro e he
    cases r with
    | error e' => exact p.cur_err e' rfl
    | ok a => cases he

theorem allocGeneric_ok (hc : CfgOK cfg) {s : State} (h : GeomInv cfg s) (hr : RespsOK cfg s) (k : Kind)
    {L : Layout} {hints hSlow : Hints} (hL : L.Valid) (hh : hints.sma = true → L.align ∣ L.size)
    (hhs : hSlow.sma = true → L.align ∣ L.size) (hk : k = .range → L.align ∣ L.size) :
    (∀ s' r, allocGeneric cfg k s L hints hSlow = .ok (s', r) → SlowPost cfg L s s' r) ∧
    (BaseOK cfg s L → ∃ s' r, allocGeneric cfg k s L hints hSlow = .ok (s', r)) := by
  unfold allocGeneric
  simp only [tryCur_eq hc h k hL hh, r_ok_bind]
  cases ht : tryCurSpec cfg k s L with
  | none => exact inAnotherChunk_ok hc h hr k hL hhs hk
  | some x =>
    obtain ⟨v, s1⟩ := x
    obtain ⟨g1, g2, g3, g4, g5, g6⟩ := tryCurSpec_inv hc h hL ht
    obtain ⟨j, hj⟩ := tryCurSpec_isChunk hL ht
    refine ⟨?_, fun _ => ⟨_, _, rfl⟩⟩
    intro s' r he
    cases he
    refine ⟨g1, fun x hx => hr x (g5 ▸ hx), g4, ?_, fun _ _ => ⟨j, g3.trans hj⟩, Or.inl g2, Trace.of_shape g2 g5, fun e he => (by cases he)⟩
    intro hx
    rw [g3, hj] at hx; cases hx

theorem alloc_ok (hc : CfgOK cfg) {s : State} (h : GeomInv cfg s) (hr : RespsOK cfg s) {L : Layout} (hL : L.Valid) :
    (∀ s' r, alloc cfg s L = .ok (s', r) → SlowPost cfg L s s' r) ∧
    (BaseOK cfg s L → ∃ s' r, alloc cfg s L = .ok (s', r)) := by
  have hcu : Hints.custom.sma = true → L.align ∣ L.size := fun hx => by cases hx
  obtain ⟨a1, a2⟩ := allocGeneric_ok hc h hr .alloc hL hcu hcu (fun hx => by cases hx)
    (hints := Hints.custom) (hSlow := Hints.custom)
  unfold alloc
  constructor
  · intro s' r he
    cases hg : allocGeneric cfg .alloc s L Hints.custom Hints.custom with
    | error f => rw [hg] at he; cases he
    | ok x =>
      obtain ⟨s1, r1⟩ := x
      rw [hg] at he
      cases he
      exact (a1 _ _ hg).map _
  · intro hb
    obtain ⟨s1, r1, hg⟩ := a2 hb
    rw [hg]
    exact ⟨_, _, rfl⟩

/-! ## chunk sizes keep increasing -/

theorem sizes_of_shape {l l' : List Chunk} (h : l'.map Chunk.shape = l.map Chunk.shape) :
    l'.map (·.size) = l.map (·.size) := by
  have := congrArg (List.map (fun x : Nat × Nat × Nat × Nat × Nat => x.2.1)) h
  simp only [List.map_map] at this
  exact this

theorem SlowPost.unallocEmpty {α : Type} {L : Layout} {s s' : State} {r : Except AErr α}
    (p : SlowPost cfg L s s' r) (hu : UnallocEmpty s) : UnallocEmpty s' := by
  intro hx
  obtain ⟨h1, h2⟩ := p.unalloc hx
  have h3 := h2.length
  rw [hu h1] at h3
  exact List.eq_nil_of_length_eq_zero h3

theorem SlowPost.sizesIncreasing {α : Type} (hc : CfgOK cfg) {L : Layout} {s s' : State} {r : Except AErr α}
    (p : SlowPost cfg L s s' r) (h : GeomInv cfg s) (hs : SizesIncreasing s) (hu : UnallocEmpty s) :
    SizesIncreasing s' := by
  rcases p.shape with hsh | ⟨c, size, hreq, hsh, hle, hcur'⟩
  · exact hsh.sizesIncreasing hs
  · have hsz : s'.chunks.map (·.size) = s.chunks.map (·.size) ++ [c.size] := by
      have := congrArg (List.map (fun x : Nat × Nat × Nat × Nat × Nat => x.2.1)) hsh
      simp only [List.map_map, List.map_append, List.map_cons, List.map_nil] at this
      exact this
    intro i a b ha hb
    have ha' : (s'.chunks.map (·.size))[i]? = some a.size := by rw [List.getElem?_map, ha]; rfl
    have hb' : (s'.chunks.map (·.size))[i+1]? = some b.size := by rw [List.getElem?_map, hb]; rfl
    rw [hsz, List.getElem?_append, List.length_map] at ha' hb'
    by_cases hlt : i + 1 < s.chunks.length
    · rw [if_pos (by omega)] at ha'
      rw [if_pos hlt] at hb'
      rw [List.getElem?_map] at ha' hb'
      cases ha2 : s.chunks[i]? with
      | none => rw [ha2] at ha'; cases ha'
      | some a2 =>
        cases hb2 : s.chunks[i+1]? with
        | none => rw [hb2] at hb'; cases hb'
        | some b2 =>
          rw [ha2] at ha'; rw [hb2] at hb'
          simp only [Option.map_some, Option.some.injEq] at ha' hb'
          have := hs i a2 b2 ha2 hb2
          omega
    · rw [if_neg hlt] at hb'
      have hi1 : i + 1 = s.chunks.length := by
        cases hd : i + 1 - s.chunks.length with
        | zero => omega
        | succ n => rw [hd] at hb'; simp at hb'
      rw [if_pos (by omega), List.getElem?_map] at ha'
      rw [hi1, Nat.sub_self] at hb'
      simp only [List.getElem?_cons_zero, Option.some.injEq] at hb'
      cases ha2 : s.chunks[i]? with
      | none => rw [ha2] at ha'; cases ha'
      | some a2 =>
        rw [ha2] at ha'
        simp only [Option.map_some, Option.some.injEq] at ha'
        -- `a2` is the last chunk of `s`
        have hlast : s.chunks.getLast? = some a2 := by
          rw [List.getLast?_eq_getElem?, ← hi1]; exact ha2
        have hw := h.chunks i a2 ha2
        have h32 := hc.hdr.ge
        have hhl := hw.hdr_le
        unfold requestSize at hreq
        cases hcur : s.cur with
        | claimed => rw [hcur] at hreq; cases hreq
        | unallocated =>
          have := hu hcur
          rw [this] at ha2; simp at ha2
        | chunk j =>
          rw [hcur] at hreq
          simp only [hlast] at hreq
          have hcomm : Nat.max (Nat.max (Spec.hintFromCapacity cfg.up cfg.hdr L) (2 * a2.size)) cfg.minChunk =
              Nat.max (Nat.max (Spec.hintFromCapacity cfg.up cfg.hdr L) cfg.minChunk) (2 * a2.size) := by
            simp only [Lemmas.Size.natmax]; omega
          rw [hcomm] at hreq
          have := C12.grow_ge hc.hdr hreq
          omega

end
end Arena
