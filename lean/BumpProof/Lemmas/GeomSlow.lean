/-
  Lemmas/GeomSlow.lean — the allocation slow path: walking to the next chunks, appending a
  chunk, and the fact that the layout always fits the chunk that was created for it.
-/
import BumpProof.Lemmas.GeomNew

set_option linter.unusedSimpArgs false
set_option linter.unusedVariables false

namespace Arena
open Rs Lemmas

section
variable {cfg : Cfg}

/-! ## walking the successors -/

theorem map_set_of_eq {α β : Type} (l : List α) (i : Nat) (a a' : α) (f : α → β) (hi : l[i]? = some a)
    (hf : f a' = f a) : (l.set i a').map f = l.map f := by
  apply List.ext_getElem?
  intro j
  simp only [List.getElem?_map, List.getElem?_set]
  split
  · subst ‹i = j›
    have hlt : i < l.length := (List.getElem?_eq_some_iff.1 hi).1
    simp only [hlt, ↓reduceIte, hi, Option.map_some, hf]
  · rfl

/-- making the next chunk current after resetting it -/
theorem GeomInv.nextChunk (hc : CfgOK cfg) {s : State} (h : GeomInv cfg s) {j : Nat} {c : Chunk} (hj : s.chunks[j]? = some c) :
    GeomInv cfg { s with chunks := s.chunks.set j (c.resetPos cfg), cur := .chunk j } ∧
    SameShape s { s with chunks := s.chunks.set j (c.resetPos cfg), cur := .chunk j } := by
  have hw := h.chunks j c hj
  have hlt : j < s.chunks.length := (List.getElem?_eq_some_iff.1 hj).1
  refine ⟨⟨?_, h.minAlign, ?_⟩, ?_⟩
  · intro i d hi
    simp only [List.getElem?_set] at hi
    split at hi
    · simp only [hlt, ↓reduceIte, Option.some.injEq] at hi
      subst hi; exact hw.resetPos
    · exact h.chunks i d hi
  · intro i hi
    simp only [Cur.chunk.injEq] at hi
    subst hi
    refine ⟨c.resetPos cfg, ?_, h.minAlign.dvd_of_16 (resetPos_pos16 hc hw)⟩
    simp only [List.getElem?_set, hlt, ↓reduceIte]
  · exact map_set_of_eq _ _ _ _ _ hj rfl

theorem walkNext_ok (hc : CfgOK cfg) (k : Kind) {L : Layout} {hints : Hints} (hL : L.Valid)
    (hh : hints.sma = true → L.align ∣ L.size) :
    ∀ (fuel i : Nat) (s : State), GeomInv cfg s → (∃ j, s.cur = .chunk j) →
    ∃ o s', walkNext cfg k L hints fuel i s = .ok (o, s') ∧ GeomInv cfg s' ∧ SameShape s s' ∧
      s'.minAlign = s.minAlign ∧ s'.resps = s.resps ∧ s'.reqs = s.reqs ∧ (∃ j, s'.cur = .chunk j) ∧
      (∀ v s'', o = some (v, s'') → s'' = s') := by
  intro fuel
  induction fuel with
  | zero =>
    intro i s h hcur
    exact ⟨none, s, rfl, h, SameShape.refl _, rfl, rfl, rfl, hcur, fun _ _ hx => by cases hx⟩
  | succ fuel ih =>
    intro i s h hcur
    unfold walkNext
    cases hn : s.chunks[i+1]? with
    | none => exact ⟨none, s, rfl, h, SameShape.refl _, rfl, rfl, rfl, hcur, fun _ _ hx => by cases hx⟩
    | some c =>
      obtain ⟨h1, hs1⟩ := h.nextChunk hc hn
      simp only [tryCur_eq hc h1 k hL hh, r_ok_bind]
      cases ht : tryCurSpec cfg k { s with chunks := s.chunks.set (i+1) (c.resetPos cfg), cur := .chunk (i+1) } L with
      | none =>
        obtain ⟨o, s', e1, e2, e3, e4, e5, e6, e7, e8⟩ := ih (i+1) _ h1 ⟨i+1, rfl⟩
        exact ⟨o, s', e1, e2, hs1.trans e3, e4, e5, e6, e7, e8⟩
      | some r =>
        obtain ⟨v, s2⟩ := r
        obtain ⟨g1, g2, g3, g4, g5, g6⟩ := tryCurSpec_inv hc h1 hL ht
        refine ⟨some (v, s2), s2, rfl, g1, hs1.trans g2, g4, g5, g6, ⟨i+1, g3⟩, ?_⟩
        intro v' s'' hx
        cases hx; rfl

/-! ## the fresh chunk fits -/

/-- the continuation of the slow path after a chunk was requested (`fresh` in the model) -/
def freshTry (cfg : Cfg) (k : Kind) (L : Layout) (hints : Hints) (r : State × Except AErr Nat) :
    R (State × Except AErr (Nat × Nat)) :=
  match r with
  | (s', .error e) => pure (s', .error e)
  | (s', .ok i) => do
    let s' := { s' with cur := .chunk i }
    match ← tryCur cfg k s' L hints with
    | some (v, s'') => pure (s'', .ok v)
    | none => throw (.ub "unreachable_unchecked: the layout does not fit the chunk that was created for it")

theorem inAnotherChunk_eq (cfg : Cfg) (k : Kind) (s : State) (L : Layout) (hints : Hints) :
    inAnotherChunk cfg k s L hints =
      match s.cur with
      | .claimed => pure (s, .error .claimed)
      | .unallocated => newChunkForCapacity cfg s L >>= freshTry cfg k L hints
      | .chunk i =>
        walkNext cfg k L hints (s.chunks.length - (i+1)) i s >>= fun x =>
          match x with
          | (some (v, s'), _) => pure (s', .ok v)
          | (none, s') => appendFor cfg s' L >>= freshTry cfg k L hints := by
  unfold inAnotherChunk
  rfl

/-- the state in which the freshly created chunk `i` is current satisfies the invariant, and the
    layout that caused the chunk fits it (this is why `unreachable_unchecked` is unreachable) -/
theorem fresh_fits (hc : CfgOK cfg) {s1 : State} (h1 : GeomInv cfg s1) (hr : RespsOK cfg s1) (k : Kind) {L : Layout} (hL : L.Valid)
    (hk : k = .range → L.align ∣ L.size) {hint size : Nat}
    (hhint : Spec.hintFromCapacity cfg.up cfg.hdr L ≤ hint) (hs : Spec.calcSize cfg.up cfg.hdr hint = some size)
    {s2 : State} {i : Nat} (he : newChunkSpec cfg s1 size = .ok (s2, .ok i)) :
    GeomInv cfg { s2 with cur := .chunk i } ∧ ∃ v s3, tryCurSpec cfg k { s2 with cur := .chunk i } L = some (v, s3) := by
  obtain ⟨_, _, hsz, _, _⟩ := C12.calcSize_some hc.hdr hs
  obtain ⟨g1, g2, g3, g4, _, g6⟩ := newChunkSpec_ok hc h1 hr hsz he
  obtain ⟨hi, p, g, rest, hrs, hg, hle, hch⟩ := g6 i rfl
  have hw := freshChunk_wf hc hg hsz hle
  have hget : s2.chunks[i]? = some (freshChunk cfg p g size) := by
    rw [hch, hi, List.getElem?_append, if_neg (Nat.lt_irrefl _), Nat.sub_self]; rfl
  have hma : MinAlignOK s2.minAlign := g1.minAlign
  have hinv : GeomInv cfg { s2 with cur := .chunk i } := g1.withCur hget (hma.dvd_of_16 hw.2.1)
  refine ⟨hinv, ?_⟩
  have hgle : size ≤ g := Nat.le_trans hle (Lemmas.Size.downAlign_le _ _)
  have hfr : freeRange cfg { s2 with cur := .chunk i } =
      Spec.freshRange cfg.up cfg.hdr p (Spec.downAlign g (Spec.sizeAlign cfg.up cfg.hdr)) := by
    rw [freeRange_chunk (s := { s2 with cur := .chunk i }) rfl hget]
    unfold Spec.freshRange freshChunk Chunk.contentEnd Chunk.contentStart
    cases cfg.up <;> simp only [Bool.false_eq_true, ↓reduceIte]
  unfold tryCurSpec
  rw [hfr]
  cases hup : cfg.up
  · rw [hup] at hs hhint
    have hf := C12.fresh_fits_down hc.hdr hL hma hhint hs hgle hg.1
    simp only at hf
    obtain ⟨⟨x, hx⟩, hf2⟩ := hf
    cases k
    · simp only [Bool.false_eq_true, ↓reduceIte, hx, Option.map_some]; exact ⟨_, _, rfl⟩
    · simp only [Bool.false_eq_true, ↓reduceIte, hx, Option.map_some]; exact ⟨_, _, rfl⟩
    · obtain ⟨y, hy⟩ := hf2 (hk rfl)
      simp only [Bool.false_eq_true, ↓reduceIte, hy, Option.map_some]; exact ⟨_, _, rfl⟩
  · rw [hup] at hs hhint
    have hf := C12.fresh_fits_up hc.hdr hL hma hhint hs hgle hg.1
    simp only at hf
    obtain ⟨⟨x, hx⟩, hf2⟩ := hf
    cases k
    · simp only [↓reduceIte, hx, Option.map_some]; exact ⟨_, _, rfl⟩
    · simp only [↓reduceIte, hx, Option.map_some]; exact ⟨_, _, rfl⟩
    · obtain ⟨y, hy⟩ := hf2 (hk rfl)
      simp only [↓reduceIte, hy, Option.map_some]; exact ⟨_, _, rfl⟩

end
end Arena
