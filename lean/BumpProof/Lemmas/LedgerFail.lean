/-
  Lemmas/LedgerFail.lean — the chunk-creating functions never fault when the size computations are
  the proved ones (C12) and the base allocator refuses: they return an error value.
-/
import BumpProof.Lemmas.LedgerAlloc
import BumpProof.Props.C12

set_option linter.unusedSimpArgs false
set_option linter.unusedVariables false

namespace Ledger
open Arena Rs

/-! ## Chunk creation under a refusing base allocator -/
theorem sizeCfg_eq (cfg : Cfg) : sizeCfg cfg = Spec.mkCfg cfg.up cfg.hdr := rfl

/-- `ChunkSizeHint::calc_size` never faults: it is the wide-integer size, `none` on overflow -/
theorem calcSize_eq {cfg : Cfg} (hH : Spec.HeaderOK cfg.hdr) (hmin : cfg.minChunk < 2^64) {hint : Nat}
    (hh : hint < 2^64) :
    Arena.calcSize cfg hint = .ok (Spec.calcSize cfg.up cfg.hdr (if hint > cfg.minChunk then hint else cfg.minChunk)) := by
  unfold Arena.calcSize
  show Arena.liftM (Gen.SizeConfig.calc_size_from_hint (Spec.mkCfg cfg.up cfg.hdr)
    (if hint > cfg.minChunk then hint else cfg.minChunk)) = _
  rw [C12.calc_size_from_hint_eq cfg.up cfg.hdr hH _ (by split <;> assumption)]
  rfl

/-- a refused request: `newChunk` returns an error value, consumes the response, links nothing -/
theorem newChunk_fail {cfg : Cfg} {s : State} {size : Nat} {rest : List BaseResp}
    (hr : s.resps = .fail :: rest) :
    newChunk cfg s size =
      if layoutOk size cfg.hdr.align then
        .ok ({ s with reqs := s.reqs ++ [BaseReq.alloc size cfg.hdr.align], resps := rest }, .error .alloc)
      else .ok (s, .error .capacityOverflow) := by
  unfold newChunk
  cases hl : layoutOk size cfg.hdr.align with
  | false => simp only [hl, Bool.not_false, ↓reduceIte, Bool.false_eq_true]; rfl
  | true => simp only [hl, Bool.not_true, Bool.false_eq_true, ↓reduceIte, hr]; rfl

theorem newChunk_fail' {cfg : Cfg} {s : State} {size : Nat} {rest : List BaseResp}
    (hr : s.resps = .fail :: rest) : ∃ s' e, newChunk cfg s size = .ok (s', .error e) := by
  rw [newChunk_fail hr]
  split
  · exact ⟨_, _, rfl⟩
  · exact ⟨_, _, rfl⟩

theorem newChunkForCapacity_fail {cfg : Cfg} {s : State} {L : Layout} {rest : List BaseResp}
    (hH : Spec.HeaderOK cfg.hdr) (hmin : cfg.minChunk < 2^64) (hL : L.Valid)
    (hr : s.resps = .fail :: rest) : ∃ s' e, newChunkForCapacity cfg s L = .ok (s', .error e) := by
  unfold newChunkForCapacity
  rw [sizeCfg_eq, C12.calc_hint_from_capacity_eq cfg.up cfg.hdr hH L hL]
  simp only [liftM_ok, bind_ok]
  by_cases hlt : Spec.hintFromCapacity cfg.up cfg.hdr L < 2^64
  · simp only [if_pos hlt, calcSize_eq hH hmin hlt, bind_ok]
    cases Spec.calcSize cfg.up cfg.hdr
        (if Spec.hintFromCapacity cfg.up cfg.hdr L > cfg.minChunk then Spec.hintFromCapacity cfg.up cfg.hdr L
         else cfg.minChunk) with
    | none => exact ⟨_, _, rfl⟩
    | some size => exact newChunk_fail' hr
  · simp only [if_neg hlt]
    exact ⟨_, _, rfl⟩

theorem appendFor_fail {cfg : Cfg} {s : State} {L : Layout} {rest : List BaseResp}
    (hH : Spec.HeaderOK cfg.hdr) (hmin : cfg.minChunk < 2^64) (hL : L.Valid)
    (hne : s.chunks ≠ []) (hr : s.resps = .fail :: rest) :
    ∃ s' e, appendFor cfg s L = .ok (s', .error e) := by
  unfold appendFor
  obtain ⟨last, hlast⟩ : ∃ last, s.chunks.getLast? = some last :=
    ⟨_, List.getLast?_eq_some_getLast hne⟩
  simp only [hlast]
  rw [sizeCfg_eq, C12.calc_hint_from_capacity_eq cfg.up cfg.hdr hH L hL]
  simp only [liftM_ok, bind_ok]
  by_cases hlt : Spec.hintFromCapacity cfg.up cfg.hdr L < 2^64
  · simp only [if_pos hlt]
    cases hg : Rs.checked_mul last.size 2 with
    | none => exact ⟨_, _, rfl⟩
    | some grown =>
      have hgr : grown < 2^64 := by
        unfold Rs.checked_mul at hg
        split at hg
        · next hle => cases hg; rw [Lemmas.MAX_eq] at hle; omega
        · cases hg
      simp only
      rw [calcSize_eq hH hmin (by split <;> assumption)]
      simp only [bind_ok]
      split
      · exact ⟨_, _, rfl⟩
      · exact newChunk_fail' hr
  · simp only [if_neg hlt]
    exact ⟨_, _, rfl⟩

/-! ## The slow path under a refusing base allocator -/
/-- the slow path with a refusing base allocator, when no existing chunk has room: an error value -/
theorem inAnotherChunk_fail {cfg : Cfg} {k : Kind} {s : State} {L : Layout} {h : Hints} {rest : List BaseResp}
    (hH : Spec.HeaderOK cfg.hdr) (hmin : cfg.minChunk < 2^64) (hL : L.Valid)
    (hr : s.resps = .fail :: rest)
    (hw : ∀ i, s.cur = .chunk i → i < s.chunks.length ∧
      ∃ s1, walkNext cfg k L h (s.chunks.length - (i+1)) i s = .ok (none, s1)) :
    ∃ s' e, inAnotherChunk cfg k s L h = .ok (s', .error e) := by
  rw [inAnotherChunk_eq]
  obtain ⟨cu, hcur⟩ : ∃ cu, s.cur = cu := ⟨_, rfl⟩
  cases cu with
  | claimed => simp only [hcur]; exact ⟨_, _, rfl⟩
  | unallocated =>
    simp only [hcur]
    obtain ⟨s1, e1, h1⟩ := newChunkForCapacity_fail (s := s) (L := L) hH hmin hL hr
    rw [h1]
    exact ⟨_, _, rfl⟩
  | chunk i =>
    simp only [hcur]
    obtain ⟨hi, s1, h1⟩ := hw i hcur
    rw [h1]
    simp only [bind_ok]
    obtain ⟨w1, w2, w3, _⟩ := walkNext_frame _ _ _ h1
    have hne : s1.chunks ≠ [] := by
      intro h0
      rw [h0] at w3
      simp only [List.length_nil] at w3
      omega
    obtain ⟨s2, e2, h2⟩ := appendFor_fail (s := s1) (L := L) hH hmin hL hne (w2.trans hr)
    rw [h2]
    exact ⟨_, _, rfl⟩

theorem allocGeneric_fail {cfg : Cfg} {k : Kind} {s : State} {L : Layout} {h hs : Hints} {rest : List BaseResp}
    (hH : Spec.HeaderOK cfg.hdr) (hmin : cfg.minChunk < 2^64) (hL : L.Valid)
    (hr : s.resps = .fail :: rest)
    (hfast : tryCur cfg k s L h = .ok none)
    (hw : ∀ i, s.cur = .chunk i → i < s.chunks.length ∧
      ∃ s1, walkNext cfg k L hs (s.chunks.length - (i+1)) i s = .ok (none, s1)) :
    ∃ s' e, allocGeneric cfg k s L h hs = .ok (s', .error e) := by
  unfold allocGeneric
  rw [hfast]
  exact inAnotherChunk_fail hH hmin hL hr hw

theorem alloc_fail {cfg : Cfg} {s : State} {L : Layout} {rest : List BaseResp}
    (hH : Spec.HeaderOK cfg.hdr) (hmin : cfg.minChunk < 2^64) (hL : L.Valid)
    (hr : s.resps = .fail :: rest)
    (hfast : tryCur cfg .alloc s L Hints.custom = .ok none)
    (hw : ∀ i, s.cur = .chunk i → i < s.chunks.length ∧
      ∃ s1, walkNext cfg .alloc L Hints.custom (s.chunks.length - (i+1)) i s = .ok (none, s1)) :
    ∃ s' e, alloc cfg s L = .ok (s', .error e) := by
  unfold alloc
  obtain ⟨s', e, h1⟩ := allocGeneric_fail (hs := Hints.custom) hH hmin hL hr hfast hw
  rw [h1]
  exact ⟨_, _, rfl⟩

/-- a size of at most `isize::MAX` with alignment 1 is a valid layout -/
theorem valid_of_layoutOk {n : Nat} (h : layoutOk n 1 = true) : ({ size := n, align := 1 } : Layout).Valid := by
  unfold layoutOk at h
  exact ⟨⟨0, by decide, rfl⟩, of_decide_eq_true h⟩

/-- `reserve` with a refusing base allocator never faults; if it reports success nothing was needed
    and nothing changed -/
theorem reserve_fail {cfg : Cfg} {s : State} {add : Nat} {rest : List BaseResp}
    (hH : Spec.HeaderOK cfg.hdr) (hmin : cfg.minChunk < 2^64)
    (hr : s.resps = .fail :: rest)
    (hi : ∀ i, s.cur = .chunk i → i < s.chunks.length) :
    ∃ s' r, reserve cfg s add = .ok (s', r) ∧ (r = .ok () → s' = s) := by
  unfold reserve
  obtain ⟨cu, hcur⟩ : ∃ cu, s.cur = cu := ⟨_, rfl⟩
  cases cu with
  | claimed => simp only [hcur]; exact ⟨_, _, rfl, fun _ => rfl⟩
  | unallocated =>
    simp only [hcur]
    cases hl : layoutOk add 1 with
    | false => simp only [Bool.not_false, ↓reduceIte]; exact ⟨_, _, rfl, fun _ => rfl⟩
    | true =>
      simp only [Bool.not_true, Bool.false_eq_true, ↓reduceIte]
      obtain ⟨s1, e1, h1⟩ := newChunkForCapacity_fail (s := s) hH hmin (valid_of_layoutOk hl) hr
      rw [h1]
      exact ⟨_, _, rfl, fun h => by cases h⟩
  | chunk i =>
    simp only [hcur]
    have hlt := hi i hcur
    rw [List.getElem?_eq_getElem hlt]
    simp only
    cases Rs.checked_sub add (s.chunks[i].remaining cfg) with
    | none => exact ⟨_, _, rfl, fun _ => rfl⟩
    | some r1 =>
      simp only
      cases walkReserve cfg s.chunks (s.chunks.length - (i + 1)) i r1 with
      | none => exact ⟨_, _, rfl, fun _ => rfl⟩
      | some r2 =>
        simp only
        by_cases h0 : r2 = 0
        · simp only [h0, ↓reduceIte]; exact ⟨_, _, rfl, fun _ => rfl⟩
        · simp only [h0, ↓reduceIte]
          cases hl : layoutOk r2 1 with
          | false => simp only [Bool.not_false, ↓reduceIte]; exact ⟨_, _, rfl, fun _ => rfl⟩
          | true =>
            simp only [Bool.not_true, Bool.false_eq_true, ↓reduceIte]
            have hne : s.chunks ≠ [] := by
              intro h0; rw [h0] at hlt; simp only [List.length_nil] at hlt; omega
            obtain ⟨s1, e1, h1⟩ := appendFor_fail (s := s) hH hmin (valid_of_layoutOk hl) hne hr
            rw [h1]
            exact ⟨_, _, rfl, fun h => by cases h⟩

end Ledger
