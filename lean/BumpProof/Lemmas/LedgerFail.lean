/-
  Lemmas/LedgerFail.lean — the chunk-creating functions never fault when the size computations are
  the proved ones (C12) and the base allocator refuses: they return an error value.
-/
import BumpProof.Lemmas.LedgerAlloc
import BumpProof.Props.C12

set_option linter.unusedSimpArgs false
set_option linter.unusedVariables false

namespace Ledger
open Arena Rs

/-! ## Chunk creation under a refusing base allocator -/
theorem sizeCfg_eq (cfg : Cfg) : sizeCfg cfg = Spec.mkCfg cfg.up cfg.hdr := rfl

/-- `ChunkSizeHint::calc_size` never faults: it is the wide-integer size, `none` on overflow -/
theorem calcSize_eq {cfg : Cfg} (hH : Spec.HeaderOK cfg.hdr) (hmin : cfg.minChunk < 2^64) {hint : Nat}
    (hh : hint < 2^64) :
    Arena.calcSize cfg hint = .ok (Spec.calcSize cfg.up cfg.hdr (if hint > cfg.minChunk then hint else cfg.minChunk)) := by
  unfold Arena.calcSize
  show Arena.liftM (Gen.SizeConfig.calc_size_from_hint (Spec.mkCfg cfg.up cfg.hdr)
    (if hint > cfg.minChunk then hint else cfg.minChunk)) = _
  rw [C12.calc_size_from_hint_eq cfg.up cfg.hdr hH _ (by split <;> assumption)]
  rfl

/-- a refused request: `newChunk` returns an error value, consumes the response, links nothing -/
theorem newChunk_fail {cfg : Cfg} {s : State} {size : Nat} {rest : List BaseResp}
    (hr : s.resps = .fail :: rest) :
    newChunk cfg s size =
      if layoutOk size cfg.hdr.align then
        .ok ({ s with reqs := s.reqs ++ [BaseReq.alloc size cfg.hdr.align], resps := rest }, .error .alloc)
      else .ok (s, .error .capacityOverflow) := by
  unfold newChunk
  cases hl : layoutOk size cfg.hdr.align with
  | false => simp only [hl, Bool.not_false, ↓reduceIte, Bool.false_eq_true]; rfl
  | true => simp only [hl, Bool.not_true, Bool.false_eq_true, ↓reduceIte, hr]; rfl

theorem newChunk_fail' {cfg : Cfg} {s : State} {size : Nat} {rest : List BaseResp}
    (hr : s.resps = .fail :: rest) : ∃ s' e, newChunk cfg s size = .ok (s', .error e) := by
  rw [newChunk_fail hr]
  split
  · exact ⟨_, _, rfl⟩
  · exact ⟨_, _, rfl⟩

theorem newChunkForCapacity_fail {cfg : Cfg} {s : State} {L : Layout} {rest : List BaseResp}
    (hH : Spec.HeaderOK cfg.hdr) (hmin : cfg.minChunk < 2^64) (hL : L.Valid)
    (hr : s.resps = .fail :: rest) : ∃ s' e, newChunkForCapacity cfg s L = .ok (s', .error e) := by
  unfold newChunkForCapacity
  rw [sizeCfg_eq, C12.calc_hint_from_capacity_eq cfg.up cfg.hdr hH L hL]
  simp only [liftM_ok, bind_ok]
  by_cases hlt : Spec.hintFromCapacity cfg.up cfg.hdr L < 2^64
  · simp only [if_pos hlt, calcSize_eq hH hmin hlt, bind_ok]
    cases Spec.calcSize cfg.up cfg.hdr
        (if Spec.hintFromCapacity cfg.up cfg.hdr L > cfg.minChunk then Spec.hintFromCapacity cfg.up cfg.hdr L
         else cfg.minChunk) with
    | none => exact ⟨_, _, rfl⟩
    | some size => exact newChunk_fail' hr
  · simp only [if_neg hlt]
    exact ⟨_, _, rfl⟩

theorem appendFor_fail {cfg : Cfg} {s : State} {L : Layout} {rest : List BaseResp}
    (hH : Spec.HeaderOK cfg.hdr) (hmin : cfg.minChunk < 2^64) (hL : L.Valid)
    (hne : s.chunks ≠ []) (hr : s.resps = .fail :: rest) :
    ∃ s' e, appendFor cfg s L = .ok (s', .error e) := by
  unfold appendFor
  obtain ⟨last, hlast⟩ : ∃ last, s.chunks.getLast? = some last :=
    ⟨_, List.getLast?_eq_some_getLast hne⟩
  simp only [hlast]
  rw [sizeCfg_eq, C12.calc_hint_from_capacity_eq cfg.up cfg.hdr hH L hL]
  simp only [liftM_ok, bind_ok]
  by_cases hlt : Spec.hintFromCapacity cfg.up cfg.hdr L < 2^64
  · simp only [if_pos hlt]
    cases hg : Rs.checked_mul last.size 2 with
    | none => exact ⟨_, _, rfl⟩
    | some grown =>
      have hgr : grown < 2^64 := by
        unfold Rs.checked_mul at hg
        split at hg
        · next hle => cases hg; rw [Lemmas.MAX_eq] at hle; omega
        · cases hg
      simp only
      rw [calcSize_eq hH hmin (by split <;> assumption)]
      simp only [bind_ok]
      split
      · exact ⟨_, _, rfl⟩
      · exact newChunk_fail' hr
  · simp only [if_neg hlt]
    exact ⟨_, _, rfl⟩

end Ledger
