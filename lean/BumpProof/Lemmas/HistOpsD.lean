/-
  Lemmas/HistOpsD.lean — preservation of `Arena.Hist.Inv` by the ghost block operations
  (`write`, `split`), and by the prepared-allocation operations (`fillPrepared`, `prepareSlice`,
  `commit`, `commitSlice`).
-/
import BumpProof.Lemmas.HistRealloc

set_option linter.unusedSimpArgs false
set_option linter.unusedVariables false

namespace Arena.Hist
open Rs

variable {cfg : Cfg}

/-! ## re-labelling live blocks (only `init` changes) -/

/-- `f` keeps everything the invariant looks at -/
def KeepsBlock (f : Block → Block) : Prop :=
  ∀ b, (f b).id = b.id ∧ (f b).addr = b.addr ∧ (f b).size = b.size ∧ (f b).align = b.align

theorem cpOK_mapLive {s : State} {f : Block → Block} (hf : KeepsBlock f) {cp : Checkpoint} {m : Nat}
    (h : CpOK cfg s cp m) : CpOK cfg { s with live := s.live.map f } cp m := by
  refine ⟨cpGeom_mono (ChunksCov.of_eq rfl) h.geom, h.mark, ?_⟩
  intro b hb hid hs
  obtain ⟨b0, hb0, rfl⟩ := List.mem_map.mp hb
  obtain ⟨e1, e2, e3, _⟩ := hf b0
  rw [e2, e3]
  rw [e1] at hid; rw [e3] at hs
  exact placedAt_mono (ChunksCov.of_eq rfl) (h.older b0 hb0 hid hs)

theorem framesOK_mapLive {s : State} {f : Block → Block} (hf : KeepsBlock f) :
    ∀ (fs : List Frame) (ma : Nat) (ms : List Nat), FramesOK cfg s ma fs ms →
      FramesOK cfg { s with live := s.live.map f } ma fs ms := by
  intro fs
  induction fs with
  | nil =>
    intro ma ms h
    cases ms with
    | nil => simp only [FramesOK]
    | cons m ms => simp only [FramesOK] at h
  | cons fr fs ih =>
    intro ma ms h
    cases fr with
    | scope cp =>
      cases ms with
      | nil => simp only [FramesOK] at h
      | cons m ms =>
        simp only [FramesOK] at h ⊢
        exact ⟨cpOK_mapLive hf h.1, ih _ _ h.2⟩
    | scopedAligned cp outer =>
      cases ms with
      | nil => simp only [FramesOK] at h
      | cons m ms =>
        simp only [FramesOK] at h ⊢
        exact ⟨h.1, cpOK_mapLive hf h.2.1, ih _ _ h.2.2⟩
    | alignedLower outer start =>
      simp only [FramesOK] at h ⊢
      exact ⟨h.1, h.2.1.mono (ChunksCov.of_eq rfl), ih _ _ h.2.2⟩
    | alignedRaise outer =>
      simp only [FramesOK] at h ⊢
      exact ⟨h.1, h.2.1, ih _ _ h.2.2⟩
    | claim =>
      simp only [FramesOK] at h ⊢
      exact ih _ _ h

theorem liveOK_mapLive {s : State} {f : Block → Block} (hf : KeepsBlock f) (h : Mem.LiveOK cfg s) :
    Mem.LiveOK cfg { s with live := s.live.map f } := by
  refine ⟨?_, ?_, ?_⟩
  · intro b hb
    obtain ⟨b0, hb0, rfl⟩ := List.mem_map.mp hb
    obtain ⟨_, e2, _, e4⟩ := hf b0
    rw [e2, e4]; exact h.aligned b0 hb0
  · intro b hb hs
    obtain ⟨b0, hb0, rfl⟩ := List.mem_map.mp hb
    obtain ⟨_, e2, e3, _⟩ := hf b0
    rw [e2, e3]; rw [e3] at hs
    exact placed_congr (s := s) rfl rfl (h.placed b0 hb0 hs)
  · show (s.live.map f).Pairwise Mem.BlocksDisjoint
    rw [List.pairwise_map]
    refine h.disjoint.imp ?_
    intro a b hab
    obtain ⟨_, a2, a3, _⟩ := hf a
    obtain ⟨_, b2, b3, _⟩ := hf b
    unfold Mem.BlocksDisjoint at hab ⊢
    rw [a2, a3, b2, b3]; exact hab

theorem Inv.mapLive {g : GState} (h : Inv cfg g) {f : Block → Block} (hf : KeepsBlock f) :
    Inv cfg ⟨{ g.s with live := g.s.live.map f }, g.marks⟩ := by
  refine ⟨h.cfgOK, geom_congr (s := g.s) rfl rfl rfl h.geom, disj_congr (s := g.s) rfl h.disj, liveOK_mapLive hf h.live,
    h.unalloc, h.notClaimed, ?_, ?_, ?_, framesOK_mapLive hf _ _ _ h.frames, h.marks,
    fun x hx => cpOK_mapLive hf (h.cps x hx), fun q hq => (h.prep q hq).congr rfl (fun i c _ hc => ⟨c, hc, rfl, rfl, rfl⟩)⟩
  · intro hu
    show g.s.live.map f = []
    rw [h.liveCur hu]; rfl
  · intro b hb
    obtain ⟨b0, hb0, rfl⟩ := List.mem_map.mp hb
    rw [(hf b0).1]; exact h.ids b0 hb0
  · intro b hb
    obtain ⟨b0, hb0, rfl⟩ := List.mem_map.mp hb
    rw [(hf b0).2.2.2]; exact h.aligns b0 hb0

/-! ## write, fillPrepared -/

theorem inv_writeRange {g : GState} (h : Inv cfg g) {lo hi : Nat} {f : Nat → UInt8} {s' : State}
    (hw : writeRange cfg g.s lo hi f = .ok s') : Inv cfg ⟨s', g.marks⟩ :=
  h.onlyData ((writeRange_geom hw).inv h.geom) (writeRange_geom hw).shape (Mem.writeRange_onlyData hw)

theorem inv_write {g g' : GState} {out : Out} {b seed : Nat} (h : Inv cfg g)
    (hs : stepCore cfg g (.write b seed) = .ok (g', out)) : Inv cfg g' := by
  unfold stepCore at hs
  simp only [bind, Except.bind, pure, Except.pure] at hs
  split at hs
  · cases hs
  · split at hs
    · cases hs
    · rename_i s' hs'
      cases hs
      have h1 := inv_writeRange h hs'
      refine h1.mapLive ?_
      intro x
      by_cases hx : (x.id == b) = true
      · simp only [hx, ↓reduceIte, and_self]
      · simp only [hx, Bool.false_eq_true, ↓reduceIte, and_self]

theorem inv_fillPrepared {g g' : GState} {out : Out} {len seed : Nat} (h : Inv cfg g)
    (hs : stepCore cfg g (.fillPrepared len seed) = .ok (g', out)) : Inv cfg g' := by
  unfold stepCore at hs
  simp only [bind, Except.bind, pure, Except.pure] at hs
  split at hs
  · split at hs
    · cases hs
    · split at hs
      · cases hs
      · rename_i s' hs'
        cases hs
        exact inv_writeRange h hs'
  · cases hs

/-! ## split -/

theorem cur_chunk_of_live {g : GState} (h : Inv cfg g) {b : Block} (hb : b ∈ g.s.live) : ∃ j, g.s.cur = .chunk j := by
  cases hcur : g.s.cur with
  | chunk j => exact ⟨j, rfl⟩
  | claimed => exact absurd hcur h.notClaimed
  | unallocated =>
    have := h.liveCur hcur
    rw [this] at hb; cases hb

theorem p2_one : ∃ k, k < 64 ∧ 1 = 2 ^ k := ⟨0, by decide, rfl⟩

/-- a sub-range of a live block, registered after that block was dropped, is fine -/
theorem liveOK_sub_of_dropped {s : State} (hl : Mem.LiveOK cfg s) {blk : Block} (hb : blk ∈ s.live)
    {s1 : State} (hch : s1.chunks = s.chunks) (hcur : s1.cur = s.cur) (hl1 : Mem.LiveOK cfg s1)
    (hsub : ∀ x ∈ s1.live, (x ∈ s.live ∧ x.id ≠ blk.id) ∨ (blk.addr ≤ x.addr ∧ x.addr + x.size ≤ blk.addr + blk.size))
    {a sz : Nat} (h1 : blk.addr ≤ a) (h2 : a + sz ≤ blk.addr + blk.size)
    (hnew : ∀ x ∈ s1.live, x ∉ s.live ∨ x.id = blk.id → Mem.RangesDisjoint x.addr x.size a sz) (init : Nat) :
    Mem.LiveOK cfg (Arena.addBlock s1 a sz 1 init).1 := by
  refine hl1.addBlock init (Nat.one_dvd _) ?_ ?_
  · intro hs
    have hbs : 0 < blk.size := by omega
    exact placed_congr hch hcur (placed_sub (hl.placed blk hb hbs) h1 h2)
  · intro x hx
    by_cases hxs : x ∈ s.live ∧ x.id ≠ blk.id
    · have hne : x ≠ blk := fun e => hxs.2 (by rw [e])
      have := Mem.pairwise_of_mem_ne (fun _ _ => Mem.BlocksDisjoint.symm) hl.disjoint hxs.1 hb hne
      unfold Mem.BlocksDisjoint at this
      unfold Mem.RangesDisjoint
      omega
    · apply hnew x hx
      by_cases hm : x ∈ s.live
      · right
        exact Classical.byContradiction fun hne => hxs ⟨hm, hne⟩
      · exact Or.inl hm

theorem inv_split {g g' : GState} {out : Out} {b at_ : Nat} (h : Inv cfg g)
    (hs : stepCore cfg g (.split b at_) = .ok (g', out)) : Inv cfg g' := by
  unfold stepCore at hs
  simp only [bind, Except.bind, pure, Except.pure] at hs
  split at hs
  · cases hs
  · rename_i blk hblk
    obtain ⟨hmem, hid⟩ := Mem.findBlock_ok hblk
    split at hs
    · cases hs
    · rename_i hle
      have hle' : at_ ≤ blk.size := by omega
      cases hs
      have hcur := cur_chunk_of_live h hmem
      have h0 := h.dropBlock b
      -- first part
      have hl1 : Mem.LiveOK cfg (Arena.addBlock (removeBlock g.s b) blk.addr at_ 1 (Nat.min blk.init at_)).1 := by
        refine liveOK_sub_of_dropped h.live hmem (s1 := removeBlock g.s b) rfl rfl h0.live ?_ (Nat.le_refl _) (by omega) ?_ _
        · intro x hx
          obtain ⟨hx1, hx2⟩ := List.mem_filter.mp hx
          left
          refine ⟨hx1, ?_⟩
          rw [hid]
          simpa using hx2
        · intro x hx hcase
          exfalso
          obtain ⟨hx1, hx2⟩ := List.mem_filter.mp hx
          rcases hcase with hc | hc
          · exact hc hx1
          · rw [hid] at hc
            simp [hc] at hx2
      have h1 := h0.withBlock hl1 hcur p2_one
      -- second part
      have hl2 : Mem.LiveOK cfg (Arena.addBlock (Arena.addBlock (removeBlock g.s b) blk.addr at_ 1 (Nat.min blk.init at_)).1
          (blk.addr + at_) (blk.size - at_) 1 (blk.init - at_)).1 := by
        refine liveOK_sub_of_dropped h.live hmem
          (s1 := (Arena.addBlock (removeBlock g.s b) blk.addr at_ 1 (Nat.min blk.init at_)).1) rfl rfl hl1 ?_
          (by omega) (by omega) ?_ _
        · intro x hx
          rcases List.mem_append.mp hx with hx | hx
          · obtain ⟨hx1, hx2⟩ := List.mem_filter.mp hx
            left
            refine ⟨hx1, ?_⟩
            rw [hid]
            simpa using hx2
          · simp only [List.mem_singleton] at hx
            subst hx
            right
            exact ⟨Nat.le_refl _, by simp only; omega⟩
        · intro x hx hcase
          rcases List.mem_append.mp hx with hx | hx
          · exfalso
            obtain ⟨hx1, hx2⟩ := List.mem_filter.mp hx
            rcases hcase with hc | hc
            · exact hc hx1
            · rw [hid] at hc
              simp [hc] at hx2
          · simp only [List.mem_singleton] at hx
            subst hx
            unfold Mem.RangesDisjoint
            simp only
            omega
      exact h1.withBlock hl2 hcur p2_one

/-! ## committing a prepared allocation -/

theorem Inv.clearPrepared {g : GState} (h : Inv cfg g) : Inv cfg ⟨{ g.s with prepared := none }, g.marks⟩ :=
  h.step_to (s' := { g.s with prepared := none }) (geom_congr (s := g.s) rfl rfl rfl h.geom)
    (disj_congr (s := g.s) rfl h.disj)
    (liveOK_congr (s := g.s) rfl rfl rfl h.live) h.unalloc h.notClaimed h.liveCur (ChunksCov.of_eq rfl)
    (LiveSub.of_eq rfl) (Nat.le_refl _) h.ids (h.frames.congr rfl rfl rfl) h.marks
    (fun x hx => Or.inl hx) (fun p hp' => by cases hp')

theorem liftM_add_ok {a b v : Nat} (h : liftM (Rs.add a b) = .ok v) : v = a + b := by
  have := Mem.liftM_ok h
  unfold Rs.add at this
  split at this
  · cases this; rfl
  · cases this

/-- the bytes may have been moved, then the position of the current chunk is set -/
structure Committed (cfg : Cfg) (s s' : State) (addr size : Nat) (lo hi : Nat) : Prop where
  mid : ∃ s1 np, SameGeom s s1 ∧ Mem.OnlyDataChanged s s1 ∧ s' = setCurPos s1 np ∧
    (if cfg.up then addr = lo ∧ lo + size ≤ np else addr + size = hi ∧ np ≤ addr)

theorem setPosAlignFrom_cases {s s' : State} {pos al : Nat} (hm : MinAlignOK s.minAlign)
    (h : setPosAlignFrom cfg s pos al = .ok s') :
    ∃ np, s' = setCurPos s np ∧ (if cfg.up then pos ≤ np else np ≤ pos) ∧ al ∣ pos := by
  unfold setPosAlignFrom at h
  obtain ⟨_, ha, h⟩ := bind_eq_ok h
  simp only at h
  have hdvd : al ∣ pos := by
    have := liftM_eq_ok ha
    unfold Rs.assert at this
    split at this
    · exact Nat.dvd_of_mod_eq_zero (by simpa using ‹decide (pos % al = 0) = true›)
    · cases this
  split at h
  · obtain ⟨p, hp, h⟩ := bind_eq_ok h
    cases h
    exact ⟨p, rfl, align_pos_dir hm hp, hdvd⟩
  · cases h
    refine ⟨pos, rfl, ?_, hdvd⟩
    cases cfg.up <;> simp

theorem sameGeom_copy_or_id {s s1 : State} {b : Bool} {src dst len : Nat} {nov : Bool}
    (h : (if b then copyBytes cfg s src dst len nov else pure s) = .ok s1) :
    SameGeom s s1 ∧ Mem.OnlyDataChanged s s1 := by
  cases b
  · simp only [Bool.false_eq_true, ↓reduceIte] at h
    cases h; exact ⟨SameGeom.refl _, ⟨rfl, rfl⟩⟩
  · simp only [↓reduceIte] at h
    exact ⟨copyBytes_geom h, Mem.copyBytes_onlyData h⟩

theorem allocatePrepared_cases {s s' : State} {size rstart rend addr : Nat} {rev : Bool} (hm : MinAlignOK s.minAlign)
    (h : allocatePrepared cfg s size rstart rend rev = .ok (s', addr)) :
    Committed cfg s s' addr size rstart rend := by
  unfold allocatePrepared at h
  split at h
  · cases hup : cfg.up
    · rw [hup] at h
      simp only [Bool.false_eq_true, ↓reduceIte] at h
      obtain ⟨dst, h1, h⟩ := bind_eq_ok h
      obtain ⟨hd1, hd2⟩ := Mem.liftM_sub_ok h1
      subst hd1
      have key : ∃ s1, (SameGeom s s1 ∧ Mem.OnlyDataChanged s s1) ∧
          (liftM (Gen.LibArith.align_pos false s.minAlign (rend - size)) >>= fun p =>
            (pure (setCurPos s1 p, rend - size) : R (State × Nat))) = .ok (s', addr) := by
        cases rev
        · simp only [Bool.false_eq_true, ↓reduceIte] at h
          obtain ⟨s1, h2, h⟩ := bind_eq_ok h
          exact ⟨s1, ⟨copyBytes_geom h2, Mem.copyBytes_onlyData h2⟩, h⟩
        · simp only [↓reduceIte] at h
          exact ⟨s, ⟨SameGeom.refl _, ⟨rfl, rfl⟩⟩, h⟩
      obtain ⟨s1, hs, h⟩ := key
      obtain ⟨p, h3, h⟩ := bind_eq_ok h
      cases h
      have hdir := align_pos_dir hm (by rw [hup]; exact h3)
      simp only [hup, Bool.false_eq_true, ↓reduceIte] at hdir
      exact ⟨s1, p, hs.1, hs.2, rfl, by simp only [hup, Bool.false_eq_true, ↓reduceIte]; exact ⟨by omega, hdir⟩⟩
    · rw [hup] at h
      simp only [↓reduceIte] at h
      have key : ∃ s1, (SameGeom s s1 ∧ Mem.OnlyDataChanged s s1) ∧
          (liftM (Rs.add rstart size) >>= fun e => liftM (Gen.LibArith.align_pos true s.minAlign e) >>= fun p =>
            (pure (setCurPos s1 p, rstart) : R (State × Nat))) = .ok (s', addr) := by
        cases rev
        · simp only [Bool.false_eq_true, ↓reduceIte] at h
          exact ⟨s, ⟨SameGeom.refl _, ⟨rfl, rfl⟩⟩, h⟩
        · first | simp only [↓reduceIte] at h | skip
          obtain ⟨s1, h2, h⟩ := bind_eq_ok h
          exact ⟨s1, ⟨copyBytes_geom h2, Mem.copyBytes_onlyData h2⟩, h⟩
      obtain ⟨s1, hs, h⟩ := key
      obtain ⟨e, h1, h⟩ := bind_eq_ok h
      obtain ⟨p, h3, h⟩ := bind_eq_ok h
      cases h
      have hee := liftM_add_ok h1
      subst hee
      have hdir := align_pos_dir hm (by rw [hup]; exact h3)
      simp only [hup, ↓reduceIte] at hdir
      exact ⟨s1, p, hs.1, hs.2, rfl, by simp only [hup, ↓reduceIte]; exact ⟨trivial, hdir⟩⟩
  · cases h

/-- from a `Committed` step to the invariant with the new block registered -/
theorem inv_committed {g : GState} (h : Inv cfg g) (hprep : g.s.prepared = none) {s' : State} {addr size lo hi align init : Nat}
    (hcm : Committed cfg g.s s' addr size lo hi) (hg : GeomInv cfg s')
    (hrange : ∃ (i : Nat) (c : Chunk), g.s.cur = .chunk i ∧ g.s.chunks[i]? = some c ∧ lo ≤ hi ∧
      (if cfg.up then c.pos ≤ lo ∧ hi ≤ c.contentEnd cfg else c.contentStart cfg ≤ lo ∧ hi ≤ c.pos))
    (hsz : if cfg.up then True else lo + size ≤ hi)
    (hal : align ∣ addr) (hp2 : ∃ k, k < 64 ∧ align = 2 ^ k) :
    Inv cfg ⟨(Arena.addBlock s' addr size align init).1, g.marks⟩ := by
  obtain ⟨s1, np, hsg, hod, rfl, hdir⟩ := hcm.mid
  obtain ⟨i, c, hcur, hc, hlh, hfree⟩ := hrange
  obtain ⟨c1, hc1, hcc⟩ := hsg.getElem?' hc
  have hcur1 : s1.cur = .chunk i := hsg.cur.trans hcur
  have hw := h.geom.chunks i c hc
  have e1 := geom_contentStart (cfg := cfg) hcc
  have e2 := geom_contentEnd (cfg := cfg) hcc
  have e3 := geom_pos hcc
  -- the final position lies in the content range
  have hself : (setCurPos s1 np).chunks[i]? = some { c1 with pos := np } := by
    rw [Mem.setCurPos_chunk hcur1]; exact Mem.setPos_getElem?_self hc1 np
  have hwf := hg.chunks i _ hself
  have hn1 : c.contentStart cfg ≤ np := by have := hwf.pos_ge; rw [← e1]; exact this
  have hn2 : np ≤ c.contentEnd cfg := by have := hwf.pos_le; rw [← e2]; exact this
  have hl1 : Mem.LiveOK cfg s1 := h.live.of_onlyData hod
  have hd1 : Mem.ChunksDisjoint s1.chunks := (disjoint_iff s1).mp (hsg.shape.disjoint h.disj)
  have hout : Mem.AllocOutcome cfg (setPos s1 i np) addr size := by
    apply liveOK_carve2 hl1 hd1 (c := c1) ⟨by rw [e1, e3]; exact hw.pos_ge, by rw [e2, e3]; exact hw.pos_le⟩ hcur1 hc1
    rw [e1, e2, e3]
    cases hup : cfg.up
    · simp only [hup, Bool.false_eq_true, ↓reduceIte] at hdir hfree hsz ⊢; omega
    · simp only [hup, ↓reduceIte] at hdir hfree ⊢; omega
  rw [← Mem.setCurPos_chunk hcur1] at hout
  have hst : Stable g.s (setCurPos s1 np) := (Stable.of_onlyData hod).trans (Stable.setCurPos s1 np)
  have hsh : SameShape g.s (setCurPos s1 np) := hsg.shape.trans (setCurPos_shape s1 np)
  have hcur' : (setCurPos s1 np).cur = g.s.cur := (setCurPos_cur s1 np).trans hsg.cur
  have hma : (setCurPos s1 np).minAlign = g.s.minAlign := (setCurPos_minAlign s1 np).trans hsg.minAlign
  have h1 : Inv cfg ⟨setCurPos s1 np, g.marks⟩ :=
    inv_of_stable h hprep hg (hsh.disjoint h.disj) hma hst
      (fun hu => by rw [hcur', hcur] at hu; cases hu) (Or.inl hcur') hout.live
  exact h1.withBlock (hout.addBlock hal init) ⟨i, hcur'.trans hcur⟩ hp2

theorem prepOK_rangeInCur {s : State} (hg : GeomInv cfg s) {p : Prepared} (hp : PrepOK cfg s p) :
    RangeInCur cfg s p.rstart p.rend := by
  obtain ⟨i, c, hcur, hc, hlh, hfree⟩ := hp.range
  have hw := hg.chunks i c hc
  refine ⟨i, c, hcur, hc, ?_, hlh, ?_⟩
  · have := hw.pos_ge
    cases hup : cfg.up
    · simp only [hup, Bool.false_eq_true, ↓reduceIte] at hfree; omega
    · simp only [hup, ↓reduceIte] at hfree; omega
  · have := hw.pos_le
    cases hup : cfg.up
    · simp only [hup, Bool.false_eq_true, ↓reduceIte] at hfree; omega
    · simp only [hup, ↓reduceIte] at hfree; omega

theorem inv_commit {g g' : GState} {out : Out} {size : Nat} {rev : Bool} (h : Inv cfg g) (hr : RespsOK cfg g.s)
    (hs : stepCore cfg g (.commit size rev) = .ok (g', out)) : Inv cfg g' := by
  unfold stepCore at hs
  simp only [bind, Except.bind, pure, Except.pure] at hs
  split at hs
  · rename_i p hp
    have hpo := h.prep p hp
    split at hs
    · cases hs
    · split at hs
      · cases hs
      · rename_i hchk
        simp only [Bool.or_eq_true, decide_eq_true_eq, bne_iff_ne, ne_eq, not_or, Nat.not_lt, Decidable.not_not] at hchk
        obtain ⟨hsz, hmod⟩ := hchk
        split at hs
        · cases hs
        · rename_i x hx
          obtain ⟨s', addr⟩ := x
          simp only at hs
          cases hs
          have h0 := h.clearPrepared
          have hr0 : RespsOK cfg ({ g.s with prepared := none } : State) := hr
          have hpo0 : PrepOK cfg ({ g.s with prepared := none } : State) p :=
            hpo.congr rfl (fun i c _ hc => ⟨c, hc, rfl, rfl, rfl⟩)
          obtain ⟨g1, _, _⟩ := C10.allocatePrepared_inv h.cfgOK h0.geom hr0 (prepOK_rangeInCur h0.geom hpo0) hsz hx
          have hcm := allocatePrepared_cases (s := { g.s with prepared := none }) h0.geom.minAlign hx
          have hdv : p.ealign ∣ size := Nat.dvd_of_mod_eq_zero hmod
          refine inv_committed h0 rfl hcm g1 hpo0.range ?_ ?_ hpo.p2
          · obtain ⟨_, _, _, _, hlh, _⟩ := hpo.range
            cases hup : cfg.up
            · simp only [Bool.false_eq_true, ↓reduceIte]; omega
            · simp only [↓reduceIte]
          · obtain ⟨s1, np, _, _, _, hdir⟩ := hcm.mid
            cases hup : cfg.up
            · simp only [hup, Bool.false_eq_true, ↓reduceIte] at hdir
              have : addr = p.rend - size := by omega
              rw [this]
              exact Nat.dvd_sub hpo.end_al hdv
            · simp only [hup, ↓reduceIte] at hdir
              rw [hdir.1]; exact hpo.start_al
  · cases hs

theorem allocatePreparedSlice_cases {s s' : State} {ptr len cap esize ealign addr : Nat} {rev : Bool}
    (hm : MinAlignOK s.minAlign) (hlen : len ≤ cap) (hrev : rev = true → cap * esize ≤ ptr)
    (h : allocatePreparedSlice cfg s ptr len cap esize ealign rev = .ok (s', addr)) :
    Committed cfg s s' addr (len * esize) (if rev then ptr - cap * esize else ptr) (if rev then ptr else ptr + cap * esize) := by
  have hmul : len * esize ≤ cap * esize := Nat.mul_le_mul_right esize hlen
  unfold allocatePreparedSlice at h
  split at h
  · cases rev
    · simp only [Bool.not_false, ↓reduceIte, Bool.false_eq_true] at h ⊢
      cases hup : cfg.up
      · rw [hup] at h
        simp only [Bool.false_eq_true, ↓reduceIte] at h
        obtain ⟨s1, h1, h⟩ := bind_eq_ok h
        obtain ⟨s2, h2, h⟩ := bind_eq_ok h
        cases h
        have hg := copyBytes_geom h1
        obtain ⟨np, e1, e2, _⟩ := setPosAlignFrom_cases (by rw [hg.minAlign]; exact hm) h2
        simp only [hup, Bool.false_eq_true, ↓reduceIte] at e2
        exact ⟨s1, np, hg, Mem.copyBytes_onlyData h1, e1, by simp only [hup, Bool.false_eq_true, ↓reduceIte]; omega⟩
      · rw [hup] at h
        simp only [↓reduceIte] at h
        obtain ⟨s2, h2, h⟩ := bind_eq_ok h
        cases h
        obtain ⟨np, e1, e2, _⟩ := setPosAlignFrom_cases hm h2
        simp only [hup, ↓reduceIte] at e2
        exact ⟨s, np, SameGeom.refl _, ⟨rfl, rfl⟩, e1, by simp only [hup, ↓reduceIte]; exact ⟨trivial, e2⟩⟩
    · have hle := hrev rfl
      simp only [Bool.not_true, Bool.false_eq_true, ↓reduceIte] at h ⊢
      cases hup : cfg.up
      · rw [hup] at h
        simp only [Bool.false_eq_true, ↓reduceIte] at h
        obtain ⟨s2, h2, h⟩ := bind_eq_ok h
        cases h
        obtain ⟨np, e1, e2, _⟩ := setPosAlignFrom_cases hm h2
        simp only [hup, Bool.false_eq_true, ↓reduceIte] at e2
        exact ⟨s, np, SameGeom.refl _, ⟨rfl, rfl⟩, e1, by simp only [hup, Bool.false_eq_true, ↓reduceIte]; omega⟩
      · rw [hup] at h
        simp only [↓reduceIte] at h
        obtain ⟨s1, h1, h⟩ := bind_eq_ok h
        obtain ⟨s2, h2, h⟩ := bind_eq_ok h
        cases h
        have hg := copyBytes_geom h1
        obtain ⟨np, e1, e2, _⟩ := setPosAlignFrom_cases (by rw [hg.minAlign]; exact hm) h2
        simp only [hup, ↓reduceIte] at e2
        exact ⟨s1, np, hg, Mem.copyBytes_onlyData h1, e1, by simp only [hup, ↓reduceIte]; exact ⟨trivial, e2⟩⟩
  · cases h

theorem inv_commitSlice {g g' : GState} {out : Out} {len : Nat} (h : Inv cfg g) (hr : RespsOK cfg g.s)
    (hs : stepCore cfg g (.commitSlice len) = .ok (g', out)) : Inv cfg g' := by
  unfold stepCore at hs
  simp only [bind, Except.bind, pure, Except.pure] at hs
  split at hs
  · rename_i p hp
    have hpo := h.prep p hp
    split at hs
    · cases hs
    · rename_i htyped
      have hty : p.typed = true := by simpa using htyped
      obtain ⟨hes, hae, hdv⟩ := hpo.typed hty
      split at hs
      · cases hs
      · rename_i hchk
        have hlen : len ≤ (p.rend - p.rstart) / p.esize := by simpa using hchk
        split at hs
        · cases hs
        · rename_i x hx
          obtain ⟨s', addr⟩ := x
          simp only at hs
          cases hs
          have h0 := h.clearPrepared
          have hr0 : RespsOK cfg ({ g.s with prepared := none } : State) := hr
          have hpo0 : PrepOK cfg ({ g.s with prepared := none } : State) p :=
            hpo.congr rfl (fun i c _ hc => ⟨c, hc, rfl, rfl, rfl⟩)
          obtain ⟨_, _, _, _, hlh, _⟩ := hpo.range
          have hcap : (p.rend - p.rstart) / p.esize * p.esize = p.rend - p.rstart := Nat.div_mul_cancel hdv
          have hlo : (if p.rev then (if p.rev then p.rend else p.rstart) - (p.rend - p.rstart) / p.esize * p.esize
              else (if p.rev then p.rend else p.rstart)) = p.rstart := by
            rw [hcap]; cases p.rev <;> simp <;> omega
          have hhi : (if p.rev then (if p.rev then p.rend else p.rstart)
              else (if p.rev then p.rend else p.rstart) + (p.rend - p.rstart) / p.esize * p.esize) = p.rend := by
            rw [hcap]; cases p.rev <;> simp <;> omega
          have hrev : p.rev = true → (p.rend - p.rstart) / p.esize * p.esize ≤ (if p.rev then p.rend else p.rstart) := by
            intro hrv; rw [hcap, hrv]; simp
          have hrange := prepOK_rangeInCur h0.geom hpo0
          obtain ⟨g1, _, _⟩ := C10.allocatePreparedSlice_inv h.cfgOK h0.geom hr0
            (let ⟨k, _, hk⟩ := hpo.p2; ⟨k, hk⟩) (by rw [hlo, hhi]; exact hrange) hrev hlen hx
          have hcm := allocatePreparedSlice_cases (s := { g.s with prepared := none }) h0.geom.minAlign hlen hrev hx
          rw [hlo, hhi] at hcm
          have hmul : len * p.esize ≤ p.rend - p.rstart := by
            rw [← hcap]; exact Nat.mul_le_mul_right _ hlen
          have hdvs : p.ealign ∣ len * p.esize := Nat.dvd_trans hae (Nat.dvd_mul_left _ _)
          refine inv_committed h0 rfl hcm g1 hpo0.range ?_ ?_ hpo.p2
          · cases hup : cfg.up
            · simp only [Bool.false_eq_true, ↓reduceIte]; omega
            · simp only [↓reduceIte]
          · obtain ⟨s1, np, _, _, _, hdir⟩ := hcm.mid
            cases hup : cfg.up
            · simp only [hup, Bool.false_eq_true, ↓reduceIte] at hdir
              have : addr = p.rend - len * p.esize := by omega
              rw [this]
              exact Nat.dvd_sub hpo.end_al hdvs
            · simp only [hup, ↓reduceIte] at hdir
              rw [hdir.1]; exact hpo.start_al
  · cases hs

/-! ## prepareSlice -/

/-- after an allocation path, with the prepared allocation replaced by `q'` -/
theorem inv_of_allocPost_prep {g : GState} (h : Inv cfg g) {k : Kind} {L : Layout} {s' : State}
    {r : Except AErr (Nat × Nat)} (p : AllocPost cfg k L g.s s' r) (q' : Option Prepared)
    (hq : ∀ q, q' = some q → PrepOK cfg s' q) : Inv cfg ⟨{ s' with prepared := q' }, g.marks⟩ := by
  have hst := p.stable
  have hsub : LiveSub g.s { s' with prepared := q' } := hst.liveSub
  have hn : g.s.nextId ≤ ({ s' with prepared := q' } : State).nextId := Nat.le_of_eq hst.nextId.symm
  refine h.step_to (geom_congr (s := s') rfl rfl rfl p.inv) (disj_congr (s := s') rfl p.disj)
    (liveOK_congr (s := s') rfl rfl rfl (p.live h.live)) (p.unallocEmpty h.unalloc) (p.notClaimed h.notClaimed)
    (p.liveCur h.liveCur) hst.cov hsub hn ?_ ?_ (fun x hx => Nat.le_trans (h.marks x hx) hn)
    (fun x hx => Or.inl (hst.userCps ▸ hx)) ?_
  · intro b hb
    have := h.ids b (hst.live ▸ hb)
    exact Nat.lt_of_lt_of_le this hn
  · show FramesOK cfg _ s'.minAlign s'.frames g.marks
    rw [p.minAlign, hst.frames]; exact h.frames.mono' hst.cov hsub hn
  · intro q hq'
    exact (hq q hq').congr rfl (fun i c _ hc => ⟨c, hc, rfl, rfl, rfl⟩)

theorem checked_mul_some {a b v : Nat} (h : Rs.checked_mul a b = some v) : v = a * b := by
  unfold Rs.checked_mul at h
  split at h
  · cases h; rfl
  · cases h

theorem layoutOk_valid {n al : Nat} (hp : Rs.is_power_of_two al = true) (h : layoutOk n al = true) :
    ({ size := n, align := al } : Layout).Valid := by
  obtain ⟨k, hk⟩ := p2_of_is_power_of_two _ hp
  unfold layoutOk at h
  have hs : n + (al - 1) ≤ Rs.IMAX := by simpa using h
  refine ⟨⟨k, ?_, hk⟩, hs⟩
  have himax : Rs.IMAX < 2 ^ 63 := by decide
  have : 2 ^ k ≤ 2 ^ 63 := by rw [← hk]; omega
  by_cases hlt : k < 64
  · exact hlt
  · exfalso
    have : 2 ^ 64 ≤ 2 ^ k := Nat.pow_le_pow_right (by decide) (by omega)
    have : (2:Nat) ^ 63 < 2 ^ 64 := by decide
    omega

theorem inv_prepareSlice {g g' : GState} {out : Out} {esize ealign minCap : Nat} {rev : Bool}
    (hp2 : Rs.is_power_of_two ealign = true) (h : Inv cfg g)
    (hr : RespsOK cfg g.s) (hf : RespsFresh g.s)
    (hs : stepCore cfg g (.prepareSlice esize ealign minCap rev) = .ok (g', out)) : Inv cfg g' := by
  unfold stepCore at hs
  simp only [bind, Except.bind, pure, Except.pure] at hs
  split at hs
  · cases hs
  · rename_i hchk
    simp only [Bool.or_eq_true, beq_iff_eq, bne_iff_ne, ne_eq, not_or, Decidable.not_not] at hchk
    obtain ⟨hes, hmod⟩ := hchk
    have hae : ealign ∣ esize := Nat.dvd_of_mod_eq_zero hmod
    split at hs
    · cases hs; exact h
    · rename_i bytes hbytes
      have hb := checked_mul_some hbytes
      split at hs
      · cases hs; exact h
      · rename_i hlo
        have hL : ({ size := bytes, align := ealign } : Layout).Valid := layoutOk_valid hp2 (by simpa using hlo)
        have hdv : ealign ∣ bytes := by rw [hb]; exact Nat.dvd_trans hae (Nat.dvd_mul_right _ _)
        split at hs
        · cases hs
        · rename_i x hx
          obtain ⟨s1, r1⟩ := x
          have p := allocGeneric_post h.cfgOK h.geom hr h.disj hf .range hL (fun _ => hdv) (fun _ => hdv) (fun _ => hdv) hx
          cases r1 with
          | error e =>
            simp only at hs
            cases hs
            obtain ⟨c1, c2⟩ := p.cur_err e rfl
            have := inv_of_allocPost_prep h p s1.prepared (by
              intro q hq
              rw [p.stable.prepared] at hq
              exact (h.prep q hq).congr c1 c2)
            exact this
          | ok v =>
            obtain ⟨a, b⟩ := v
            simp only at hs
            cases hs
            obtain ⟨f1, f2, f3, i, c, f4, f5, f6⟩ := p.found (a, b) rfl
            simp only at f1 f2 f3 f6
            have hcapm : (b - a) / esize * esize ≤ b - a := Nat.div_mul_le_self _ _
            have hdvc : ealign ∣ (b - a) / esize * esize := Nat.dvd_trans hae (Nat.dvd_mul_left _ _)
            refine inv_of_allocPost_prep h p _ ?_
            intro q hq
            simp only [Option.some.injEq] at hq
            subst hq
            have hsame : (if rev = true then if cfg.up = true then (a, a + (b - a) / esize * esize) else (b - (b - a) / esize * esize, b)
                else if cfg.up = true then (a, a + (b - a) / esize * esize) else (b - (b - a) / esize * esize, b)) =
                (if cfg.up = true then (a, a + (b - a) / esize * esize) else (b - (b - a) / esize * esize, b)) := by
              cases rev <;> simp
            simp only [hsame]
            cases hup : cfg.up
            · simp only [hup, Bool.false_eq_true, ↓reduceIte] at f6 ⊢
              refine ⟨⟨i, c, f4, f5, ?_, ?_⟩, hL.1,
                Nat.dvd_sub f2 hdvc, f2, fun _ => ⟨Nat.pos_of_ne_zero hes, hae, ?_⟩⟩
              · simp only; omega
              · simp only [hup, Bool.false_eq_true, ↓reduceIte]; omega
              simp only
              have : b - (b - (b - a) / esize * esize) = (b - a) / esize * esize := by omega
              rw [this]; exact Nat.dvd_mul_left _ _
            · simp only [hup, ↓reduceIte] at f6 ⊢
              refine ⟨⟨i, c, f4, f5, by simp only; omega, by simp only [hup, ↓reduceIte]; omega⟩, hL.1,
                f1, Nat.dvd_add f1 hdvc, fun _ => ⟨Nat.pos_of_ne_zero hes, hae, ?_⟩⟩
              simp only
              have : a + (b - a) / esize * esize - a = (b - a) / esize * esize := by omega
              rw [this]; exact Nat.dvd_mul_left _ _

end Arena.Hist
