/-
  Lemmas/HistOpsD.lean — preservation of `Arena.Hist.Inv` by the ghost block operations
  (`write`, `split`), and by the prepared-allocation operations (`fillPrepared`, `prepareSlice`,
  `commit`, `commitSlice`).
-/
import BumpProof.Lemmas.HistRealloc

set_option linter.unusedSimpArgs false
set_option linter.unusedVariables false

namespace Arena.Hist
open Rs

variable {cfg : Cfg}

/-! ## re-labelling live blocks (only `init` changes) -/

/-- `f` keeps everything the invariant looks at -/
def KeepsBlock (f : Block → Block) : Prop :=
  ∀ b, (f b).id = b.id ∧ (f b).addr = b.addr ∧ (f b).size = b.size ∧ (f b).align = b.align

theorem cpOK_mapLive {s : State} {f : Block → Block} (hf : KeepsBlock f) {cp : Checkpoint} {m : Nat}
    (h : CpOK cfg s cp m) : CpOK cfg { s with live := s.live.map f } cp m := by
  refine ⟨cpGeom_mono (ChunksCov.of_eq rfl) h.geom, h.mark, ?_⟩
  intro b hb hid hs
  obtain ⟨b0, hb0, rfl⟩ := List.mem_map.mp hb
  obtain ⟨e1, e2, e3, _⟩ := hf b0
  rw [e2, e3]
  rw [e1] at hid; rw [e3] at hs
  exact placedAt_mono (ChunksCov.of_eq rfl) (h.older b0 hb0 hid hs)

theorem framesOK_mapLive {s : State} {f : Block → Block} (hf : KeepsBlock f) :
    ∀ (fs : List Frame) (ma : Nat) (ms : List Nat), FramesOK cfg s ma fs ms →
      FramesOK cfg { s with live := s.live.map f } ma fs ms := by
  intro fs
  induction fs with
  | nil =>
    intro ma ms h
    cases ms with
    | nil => simp only [FramesOK]
    | cons m ms => simp only [FramesOK] at h
  | cons fr fs ih =>
    intro ma ms h
    cases fr with
    | scope cp =>
      cases ms with
      | nil => simp only [FramesOK] at h
      | cons m ms =>
        simp only [FramesOK] at h ⊢
        exact ⟨cpOK_mapLive hf h.1, ih _ _ h.2⟩
    | scopedAligned cp outer =>
      cases ms with
      | nil => simp only [FramesOK] at h
      | cons m ms =>
        simp only [FramesOK] at h ⊢
        exact ⟨h.1, cpOK_mapLive hf h.2.1, ih _ _ h.2.2⟩
    | alignedLower outer =>
      simp only [FramesOK] at h ⊢
      exact ⟨h.1, ih _ _ h.2⟩
    | alignedRaise outer =>
      simp only [FramesOK] at h ⊢
      exact ⟨h.1, h.2.1, ih _ _ h.2.2⟩
    | claim =>
      simp only [FramesOK] at h ⊢
      exact ih _ _ h

theorem liveOK_mapLive {s : State} {f : Block → Block} (hf : KeepsBlock f) (h : Mem.LiveOK cfg s) :
    Mem.LiveOK cfg { s with live := s.live.map f } := by
  refine ⟨?_, ?_, ?_⟩
  · intro b hb
    obtain ⟨b0, hb0, rfl⟩ := List.mem_map.mp hb
    obtain ⟨_, e2, _, e4⟩ := hf b0
    rw [e2, e4]; exact h.aligned b0 hb0
  · intro b hb hs
    obtain ⟨b0, hb0, rfl⟩ := List.mem_map.mp hb
    obtain ⟨_, e2, e3, _⟩ := hf b0
    rw [e2, e3]; rw [e3] at hs
    exact placed_congr (s := s) rfl rfl (h.placed b0 hb0 hs)
  · show (s.live.map f).Pairwise Mem.BlocksDisjoint
    rw [List.pairwise_map]
    refine h.disjoint.imp ?_
    intro a b hab
    obtain ⟨_, a2, a3, _⟩ := hf a
    obtain ⟨_, b2, b3, _⟩ := hf b
    unfold Mem.BlocksDisjoint at hab ⊢
    rw [a2, a3, b2, b3]; exact hab

theorem Inv.mapLive {g : GState} (h : Inv cfg g) {f : Block → Block} (hf : KeepsBlock f) :
    Inv cfg ⟨{ g.s with live := g.s.live.map f }, g.marks⟩ := by
  refine ⟨h.cfgOK, geom_congr (s := g.s) rfl rfl rfl h.geom, disj_congr (s := g.s) rfl h.disj, liveOK_mapLive hf h.live,
    h.unalloc, h.notClaimed, ?_, ?_, ?_, framesOK_mapLive hf _ _ _ h.frames, h.marks,
    fun x hx => cpOK_mapLive hf (h.cps x hx), fun q hq => (h.prep q hq).congr rfl (fun i c _ hc => ⟨c, hc, rfl, rfl, rfl⟩)⟩
  · intro hu
    show g.s.live.map f = []
    rw [h.liveCur hu]; rfl
  · intro b hb
    obtain ⟨b0, hb0, rfl⟩ := List.mem_map.mp hb
    rw [(hf b0).1]; exact h.ids b0 hb0
  · intro b hb
    obtain ⟨b0, hb0, rfl⟩ := List.mem_map.mp hb
    rw [(hf b0).2.2.2]; exact h.aligns b0 hb0

/-! ## write, fillPrepared -/

theorem inv_writeRange {g : GState} (h : Inv cfg g) {lo hi : Nat} {f : Nat → UInt8} {s' : State}
    (hw : writeRange cfg g.s lo hi f = .ok s') : Inv cfg ⟨s', g.marks⟩ :=
  h.onlyData ((writeRange_geom hw).inv h.geom) (writeRange_geom hw).shape (Mem.writeRange_onlyData hw)

theorem inv_write {g g' : GState} {out : Out} {b seed : Nat} (h : Inv cfg g)
    (hs : stepCore cfg g (.write b seed) = .ok (g', out)) : Inv cfg g' := by
  unfold stepCore at hs
  simp only [bind, Except.bind, pure, Except.pure] at hs
  split at hs
  · cases hs
  · split at hs
    · cases hs
    · rename_i s' hs'
      cases hs
      have h1 := inv_writeRange h hs'
      refine h1.mapLive ?_
      intro x
      by_cases hx : (x.id == b) = true
      · simp only [hx, ↓reduceIte, and_self]
      · simp only [hx, Bool.false_eq_true, ↓reduceIte, and_self]

theorem inv_fillPrepared {g g' : GState} {out : Out} {len seed : Nat} (h : Inv cfg g)
    (hs : stepCore cfg g (.fillPrepared len seed) = .ok (g', out)) : Inv cfg g' := by
  unfold stepCore at hs
  simp only [bind, Except.bind, pure, Except.pure] at hs
  split at hs
  · split at hs
    · cases hs
    · split at hs
      · cases hs
      · rename_i s' hs'
        cases hs
        exact inv_writeRange h hs'
  · cases hs

/-! ## split -/

theorem cur_chunk_of_live {g : GState} (h : Inv cfg g) {b : Block} (hb : b ∈ g.s.live) : ∃ j, g.s.cur = .chunk j := by
  cases hcur : g.s.cur with
  | chunk j => exact ⟨j, rfl⟩
  | claimed => exact absurd hcur h.notClaimed
  | unallocated =>
    have := h.liveCur hcur
    rw [this] at hb; cases hb

theorem p2_one : ∃ k, k < 64 ∧ 1 = 2 ^ k := ⟨0, by decide, rfl⟩

/-- a sub-range of a live block, registered after that block was dropped, is fine -/
theorem liveOK_sub_of_dropped {s : State} (hl : Mem.LiveOK cfg s) {blk : Block} (hb : blk ∈ s.live)
    {s1 : State} (hch : s1.chunks = s.chunks) (hcur : s1.cur = s.cur) (hl1 : Mem.LiveOK cfg s1)
    (hsub : ∀ x ∈ s1.live, (x ∈ s.live ∧ x.id ≠ blk.id) ∨ (blk.addr ≤ x.addr ∧ x.addr + x.size ≤ blk.addr + blk.size))
    {a sz : Nat} (h1 : blk.addr ≤ a) (h2 : a + sz ≤ blk.addr + blk.size)
    (hnew : ∀ x ∈ s1.live, x ∉ s.live ∨ x.id = blk.id → Mem.RangesDisjoint x.addr x.size a sz) (init : Nat) :
    Mem.LiveOK cfg (Arena.addBlock s1 a sz 1 init).1 := by
  refine hl1.addBlock init (Nat.one_dvd _) ?_ ?_
  · intro hs
    have hbs : 0 < blk.size := by omega
    exact placed_congr hch hcur (placed_sub (hl.placed blk hb hbs) h1 h2)
  · intro x hx
    by_cases hxs : x ∈ s.live ∧ x.id ≠ blk.id
    · have hne : x ≠ blk := fun e => hxs.2 (by rw [e])
      have := Mem.pairwise_of_mem_ne (fun _ _ => Mem.BlocksDisjoint.symm) hl.disjoint hxs.1 hb hne
      unfold Mem.BlocksDisjoint at this
      unfold Mem.RangesDisjoint
      omega
    · apply hnew x hx
      by_cases hm : x ∈ s.live
      · right
        exact Classical.byContradiction fun hne => hxs ⟨hm, hne⟩
      · exact Or.inl hm

theorem inv_split {g g' : GState} {out : Out} {b at_ : Nat} (h : Inv cfg g)
    (hs : stepCore cfg g (.split b at_) = .ok (g', out)) : Inv cfg g' := by
  unfold stepCore at hs
  simp only [bind, Except.bind, pure, Except.pure] at hs
  split at hs
  · cases hs
  · rename_i blk hblk
    obtain ⟨hmem, hid⟩ := Mem.findBlock_ok hblk
    split at hs
    · cases hs
    · rename_i hle
      have hle' : at_ ≤ blk.size := by omega
      cases hs
      have hcur := cur_chunk_of_live h hmem
      have h0 := h.dropBlock b
      -- first part
      have hl1 : Mem.LiveOK cfg (Arena.addBlock (removeBlock g.s b) blk.addr at_ 1 (Nat.min blk.init at_)).1 := by
        refine liveOK_sub_of_dropped h.live hmem (s1 := removeBlock g.s b) rfl rfl h0.live ?_ (Nat.le_refl _) (by omega) ?_ _
        · intro x hx
          obtain ⟨hx1, hx2⟩ := List.mem_filter.mp hx
          left
          refine ⟨hx1, ?_⟩
          rw [hid]
          simpa using hx2
        · intro x hx hcase
          exfalso
          obtain ⟨hx1, hx2⟩ := List.mem_filter.mp hx
          rcases hcase with hc | hc
          · exact hc hx1
          · rw [hid] at hc
            simp [hc] at hx2
      have h1 := h0.withBlock hl1 hcur p2_one
      -- second part
      have hl2 : Mem.LiveOK cfg (Arena.addBlock (Arena.addBlock (removeBlock g.s b) blk.addr at_ 1 (Nat.min blk.init at_)).1
          (blk.addr + at_) (blk.size - at_) 1 (blk.init - at_)).1 := by
        refine liveOK_sub_of_dropped h.live hmem
          (s1 := (Arena.addBlock (removeBlock g.s b) blk.addr at_ 1 (Nat.min blk.init at_)).1) rfl rfl hl1 ?_
          (by omega) (by omega) ?_ _
        · intro x hx
          rcases List.mem_append.mp hx with hx | hx
          · obtain ⟨hx1, hx2⟩ := List.mem_filter.mp hx
            left
            refine ⟨hx1, ?_⟩
            rw [hid]
            simpa using hx2
          · simp only [List.mem_singleton] at hx
            subst hx
            right
            exact ⟨Nat.le_refl _, by simp only; omega⟩
        · intro x hx hcase
          rcases List.mem_append.mp hx with hx | hx
          · exfalso
            obtain ⟨hx1, hx2⟩ := List.mem_filter.mp hx
            rcases hcase with hc | hc
            · exact hc hx1
            · rw [hid] at hc
              simp [hc] at hx2
          · simp only [List.mem_singleton] at hx
            subst hx
            unfold Mem.RangesDisjoint
            simp only
            omega
      exact h1.withBlock hl2 hcur p2_one

end Arena.Hist
