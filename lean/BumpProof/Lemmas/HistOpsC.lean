/-
  Lemmas/HistOpsC.lean — preservation of `Arena.Hist.Inv` by the allocating operations:
  `allocate` (all wrappers, zeroed or not), `allocLayout`, `reserve` (typed / dyn), `prepare`.
-/
import BumpProof.Lemmas.HistAlloc

set_option linter.unusedSimpArgs false
set_option linter.unusedVariables false

namespace Arena.Hist
open Rs

variable {cfg : Cfg}

/-! ## generic successor states -/

/-- after an allocation path (whatever its outcome) when no prepared allocation is outstanding -/
theorem inv_of_allocPost {g : GState} (h : Inv cfg g) {k : Kind} {L : Layout} {s' : State}
    {r : Except AErr (Nat × Nat)} (p : AllocPost cfg k L g.s s' r) (hprep : g.s.prepared = none) :
    Inv cfg ⟨s', g.marks⟩ := by
  have hst := p.stable
  have hsub : LiveSub g.s s' := hst.liveSub
  have hn : g.s.nextId ≤ s'.nextId := Nat.le_of_eq hst.nextId.symm
  refine h.step_to p.inv p.disj (p.live h.live) (p.unallocEmpty h.unalloc) (p.notClaimed h.notClaimed)
    (p.liveCur h.liveCur) hst.cov hsub hn ?_ ?_ (fun x hx => Nat.le_trans (h.marks x hx) hn)
    (fun x hx => Or.inl (hst.userCps ▸ hx)) ?_
  · intro b hb
    have := h.ids b (hst.live ▸ hb)
    exact Nat.lt_of_lt_of_le this hn
  · rw [p.minAlign, hst.frames]; exact h.frames.mono' hst.cov hsub hn
  · intro q hq
    rw [hst.prepared, hprep] at hq; cases hq

/-- bytes changed, nothing else -/
theorem Inv.onlyData {g : GState} (h : Inv cfg g) {s2 : State} (hg : GeomInv cfg s2) (hsh : SameShape g.s s2)
    (ho : Mem.OnlyDataChanged g.s s2) : Inv cfg ⟨s2, g.marks⟩ := by
  have hst : Stable g.s s2 := Stable.of_onlyData ho
  have e := ho.1
  have hcur : s2.cur = g.s.cur := by rw [e]
  have hma : s2.minAlign = g.s.minAlign := by rw [e]
  have hsub : LiveSub g.s s2 := hst.liveSub
  have hn : g.s.nextId ≤ s2.nextId := Nat.le_of_eq hst.nextId.symm
  refine h.step_to hg (hsh.disjoint h.disj) (h.live.of_onlyData ho) ?_ (hcur ▸ h.notClaimed) ?_
    hst.cov hsub hn ?_ ?_ (fun x hx => Nat.le_trans (h.marks x hx) hn)
    (fun x hx => Or.inl (hst.userCps ▸ hx)) ?_
  · intro hu
    have h1 := h.unalloc (hcur ▸ hu)
    have h2 := hsh.length
    rw [h1] at h2
    exact List.eq_nil_of_length_eq_zero h2
  · intro hu; exact hst.live.trans (h.liveCur (hcur ▸ hu))
  · intro b hb
    have := h.ids b (hst.live ▸ hb)
    exact Nat.lt_of_lt_of_le this hn
  · rw [hma, hst.frames]; exact h.frames.mono' hst.cov hsub hn
  · intro q hq
    refine (h.prep q (hst.prepared ▸ hq)).congr hcur ?_
    intro i c _ hc
    obtain ⟨c', hc', hgeo⟩ := Mem.getElem?_geom ho.2 hc
    exact ⟨c', hc', congrArg (·.1) hgeo, congrArg (·.2.1) hgeo, congrArg (·.2.2.1) hgeo⟩

/-- a new block (fresh id) appears -/
theorem Inv.withBlock {g : GState} (h : Inv cfg g) {p size align init : Nat}
    (hl : Mem.LiveOK cfg (Arena.addBlock g.s p size align init).1) (hcur : ∃ j, g.s.cur = .chunk j)
    (hal : ∃ k, k < 64 ∧ align = 2 ^ k) :
    Inv cfg ⟨(Arena.addBlock g.s p size align init).1, g.marks⟩ := by
  have hcov : ChunksCov g.s (Arena.addBlock g.s p size align init).1 := ChunksCov.of_eq rfl
  have hsub : LiveSub g.s (Arena.addBlock g.s p size align init).1 := by
    intro b hb
    rcases List.mem_append.mp hb with hb | hb
    · exact Or.inl hb
    · simp only [List.mem_singleton] at hb; subst hb; exact Or.inr ⟨Nat.le_refl _, hal⟩
  have hn : g.s.nextId ≤ (Arena.addBlock g.s p size align init).1.nextId := Nat.le_succ _
  refine h.step_to (geom_congr (s := g.s) rfl rfl rfl h.geom) (disj_congr (s := g.s) rfl h.disj) hl h.unalloc
    h.notClaimed ?_ hcov hsub hn ?_ (h.frames.mono' hcov hsub hn) (fun x hx => Nat.le_trans (h.marks x hx) hn)
    (fun x hx => Or.inl hx) ?_
  · intro hu
    obtain ⟨j, hj⟩ := hcur
    rw [show (Arena.addBlock g.s p size align init).1.cur = g.s.cur from rfl, hj] at hu; cases hu
  · intro b hb
    rcases List.mem_append.mp hb with hb | hb
    · exact Nat.lt_succ_of_lt (h.ids b hb)
    · simp only [List.mem_singleton] at hb; subst hb; exact Nat.lt_succ_self _
  · intro q hq
    exact (h.prep q hq).congr rfl (fun i c _ hc => ⟨c, hc, rfl, rfl, rfl⟩)

theorem zero_or_id_onlyData {s1 s2 : State} {z : Bool} {p n : Nat}
    (hz : (if z then zeroRange cfg s1 p n else pure s1) = .ok s2) :
    Mem.OnlyDataChanged s1 s2 ∧ (GeomInv cfg s1 → GeomInv cfg s2) ∧ SameShape s1 s2 := by
  cases z
  · simp only [Bool.false_eq_true, ↓reduceIte, pure, Except.pure] at hz
    cases hz
    exact ⟨⟨rfl, rfl⟩, id, SameShape.refl _⟩
  · simp only [↓reduceIte] at hz
    exact ⟨Mem.writeRange_onlyData hz, fun hg => (writeRange_geom hz).inv hg, (writeRange_geom hz).shape⟩

/-- a successful allocation of `[v.1, v.1 + L.size)` through any allocation path, optionally zeroed, followed by
    the registration of the new live block -/
theorem inv_alloc_success {g : GState} (h : Inv cfg g) {L : Layout} {s1 s2 : State} {v : Nat × Nat} {z : Bool} {n init : Nat}
    (p : AllocPost cfg .alloc L g.s s1 (.ok v)) (hprep : g.s.prepared = none) (hL : L.Valid)
    (hz : (if z then zeroRange cfg s1 v.1 n else pure s1) = .ok s2) :
    Inv cfg ⟨(addBlock s2 v.1 L.size L.align init).1, g.marks⟩ := by
  have h1 : Inv cfg ⟨s1, g.marks⟩ := inv_of_allocPost h p hprep
  obtain ⟨ho, hg, hsh⟩ := zero_or_id_onlyData hz
  have h2 : Inv cfg ⟨s2, g.marks⟩ := h1.onlyData (hg p.inv) hsh ho
  have hout : Mem.AllocOutcome cfg s2 v.1 L.size := (p.outcome rfl v rfl h.live).of_onlyData ho
  have hal : L.align ∣ v.1 := p.found v rfl
  obtain ⟨j, hj⟩ := p.cur_ok v rfl
  have hcur2 : s2.cur = s1.cur := by rw [ho.1]
  exact h2.withBlock (hout.addBlock hal init) ⟨j, hcur2.trans hj⟩ hL.1

theorem inv_allocate {g g' : GState} {out : Out} {L : Layout} {z : Bool} {via : Via} (h : Inv cfg g)
    (hr : RespsOK cfg g.s) (hf : RespsFresh g.s)
    (hs : stepCore cfg g (.allocate L z via) = .ok (g', out)) : Inv cfg g' := by
  unfold stepCore at hs
  simp only [bind, Except.bind, pure, Except.pure] at hs
  split at hs
  · cases hs
  · rename_i u hu
    have hL := validLayout_valid hu
    split at hs
    · cases hs
    · rename_i u2 hu2
      have hp := noPrepared_ok hu2
      split at hs
      · cases hs
      · rename_i x hx
        obtain ⟨s1, r1⟩ := x
        obtain ⟨r', hr', p⟩ := alloc_post h.cfgOK h.geom hr h.disj hf hL hx
        cases r' with
        | error e =>
          simp only [Except.map] at hr'
          subst hr'
          simp only at hs
          cases hs
          exact inv_of_allocPost h p hp
        | ok v =>
          simp only [Except.map] at hr'
          subst hr'
          simp only at hs
          cases z
          · simp only [Bool.false_eq_true, ↓reduceIte] at hs
            cases hs
            exact inv_alloc_success (z := false) (n := L.size) h p hp hL rfl
          · simp only [↓reduceIte] at hs
            split at hs
            · cases hs
            · rename_i s2 hs2
              cases hs
              exact inv_alloc_success (z := true) (n := L.size) h p hp hL hs2

theorem inv_allocLayout {g g' : GState} {out : Out} {L : Layout} {hh : Hints} (h : Inv cfg g)
    (hr : RespsOK cfg g.s) (hf : RespsFresh g.s)
    (hs : stepCore cfg g (.allocLayout L hh) = .ok (g', out)) : Inv cfg g' := by
  unfold stepCore at hs
  simp only [bind, Except.bind, pure, Except.pure] at hs
  split at hs
  · cases hs
  · rename_i u hu
    have hL := validLayout_valid hu
    split at hs
    · cases hs
    · rename_i u2 hu2
      have hp := noPrepared_ok hu2
      split at hs
      · cases hs
      · rename_i hchk
        have htr : hh.sma = true → L.align ∣ L.size := by
          intro hsma
          simp only [hsma, Bool.true_and, bne_iff_ne, ne_eq, Decidable.not_not] at hchk
          exact Nat.dvd_of_mod_eq_zero hchk
        split at hs
        · cases hs
        · rename_i x hx
          obtain ⟨s1, r1⟩ := x
          have p := allocGeneric_post h.cfgOK h.geom hr h.disj hf .alloc hL htr (custom_truthful L)
            (fun hk => by cases hk) hx
          cases r1 with
          | error e =>
            simp only at hs
            cases hs
            exact inv_of_allocPost h p hp
          | ok v =>
            obtain ⟨v1, v2⟩ := v
            simp only at hs
            cases hs
            exact inv_alloc_success (z := false) (n := 0) h p hp hL rfl

/-! ## reserve -/

theorem reserve_cur {s s' : State} {n : Nat} {r : Except AErr Unit} (h : reserve cfg s n = .ok (s', r)) :
    s'.cur = s.cur ∨ (s.cur = .unallocated ∧ ∃ j, s'.cur = .chunk j) := by
  unfold reserve at h
  simp only [bind, Except.bind, pure, Except.pure] at h
  repeat' split at h
  all_goals first | (cases h; done) | skip
  all_goals (try cases h)
  all_goals first
    | exact Or.inl rfl
    | exact Or.inl (Ledger.newChunkForCapacity_frame (by assumption)).1
    | exact Or.inl (Ledger.appendFor_frame (by assumption)).1
    | exact Or.inr ⟨by assumption, _, rfl⟩

theorem inv_reserve {g g' : GState} {out : Out} {n : Nat} {dyn : Bool} (h : Inv cfg g)
    (hr : RespsOK cfg g.s) (hf : RespsFresh g.s)
    (hs : stepCore cfg g (.reserve n dyn) = .ok (g', out)) : Inv cfg g' := by
  unfold stepCore at hs
  simp only [bind, Except.bind, pure, Except.pure] at hs
  split at hs
  · cases hs
  · rename_i u hu
    have hp := noPrepared_ok hu
    split at hs
    · cases hs
    · rename_i x hx
      obtain ⟨s1, r1⟩ := x
      have key : Inv cfg ⟨s1, g.marks⟩ := by
        cases dyn
        · -- typed `reserve`
          simp only [Bool.false_eq_true, ↓reduceIte] at hx
          obtain ⟨g1, g2, g3⟩ := C10.reserve_inv h.cfgOK h.geom hr hx
          have tr := C10.reserve_trace h.cfgOK h.geom hr hx
          obtain ⟨e1, _, _⟩ := Ledger.reserve_frame hx
          have hst : Stable g.s s1 := Stable.of_ext (e1 0)
          have hsub : LiveSub g.s s1 := hst.liveSub
          have hn : g.s.nextId ≤ s1.nextId := Nat.le_of_eq hst.nextId.symm
          have hcur := reserve_cur hx
          have hlive : Mem.LiveOK cfg s1 := by
            rcases hcur with hc1 | ⟨hc1, _⟩
            · refine liveOK_adv h.live hst.live ?_ (Or.inl hc1)
              intro i hi j c hji hcj
              obtain ⟨c', hc', hsp, hpos⟩ := (e1 (j+1)).chunk j c hcj
              exact ⟨c', hc', hsp.1, hsp.2.1, fun _ => hpos (Nat.lt_succ_self _)⟩
            · exact liveOK_of_dummy (fun i hi => by rw [hc1] at hi; cases hi) h.live hst.live
          refine h.step_to g1 (tr.disjoint h.disj hf).1 hlive ?_ ?_ ?_ hst.cov hsub hn ?_ ?_
            (fun x hx => Nat.le_trans (h.marks x hx) hn) (fun x hx => Or.inl (hst.userCps ▸ hx)) ?_
          · intro hu'
            rcases hcur with hc1 | ⟨_, j, hj⟩
            · have h0 := h.unalloc (hc1 ▸ hu')
              -- nothing can have been appended: the unallocated branch appends only on success
              have hcu : g.s.cur = .unallocated := hc1 ▸ hu'
              rcases tr with ⟨t1, _⟩ | ⟨p, gg, c, _, _, _, t4⟩
              · have := t1.length; rw [h0] at this; exact List.eq_nil_of_length_eq_zero this
              · exfalso
                -- a chunk was appended while the arena stayed unallocated: impossible
                unfold reserve at hx
                rw [hcu] at hx
                simp only [bind, Except.bind, pure, Except.pure] at hx
                repeat' split at hx
                all_goals first | (cases hx; done) | skip
                all_goals (try cases hx)
                all_goals first
                  | (rw [h0] at t4; simp at t4; done)
                  | (have := (Ledger.newChunkForCapacity_frame (by assumption)).2.2.1 _ rfl
                     rw [this.1, h0] at t4; simp at t4; done)
                  | (rw [hu'] at *; done)
                  | (simp at hu'; done)
            · rw [hj] at hu'; cases hu'
          · rcases hcur with hc1 | ⟨_, j, hj⟩
            · rw [hc1]; exact h.notClaimed
            · rw [hj]; simp
          · intro hu'
            rcases hcur with hc1 | ⟨_, j, hj⟩
            · exact hst.live.trans (h.liveCur (hc1 ▸ hu'))
            · rw [hj] at hu'; cases hu'
          · intro b hb
            have := h.ids b (hst.live ▸ hb)
            exact Nat.lt_of_lt_of_le this hn
          · rw [g3, hst.frames]; exact h.frames.mono' hst.cov hsub hn
          · intro q hq
            rw [hst.prepared, hp] at hq; cases hq
        · -- `dyn BumpAllocatorCore::reserve`
          simp only [↓reduceIte] at hx
          unfold reserveDyn at hx
          simp only [bind, Except.bind, pure, Except.pure] at hx
          split at hx
          · cases hx; exact h
          · rename_i hlo
            have hL := bytes_layout_valid (by simpa using hlo)
            split at hx
            · cases hx
            · rename_i y hy
              obtain ⟨y1, y2⟩ := y
              cases hx
              have p := allocGeneric_post h.cfgOK h.geom hr h.disj hf .range hL (custom_truthful _) (custom_truthful _)
                (fun _ => Nat.one_dvd _) hy
              exact inv_of_allocPost h p hp
      cases r1 with
      | error e => simp only at hs; cases hs; exact key
      | ok u' => simp only at hs; cases hs; exact key

/-! ## prepare -/

theorem inv_prepare {g g' : GState} {out : Out} {L : Layout} (h : Inv cfg g)
    (hr : RespsOK cfg g.s) (hf : RespsFresh g.s)
    (hs : stepCore cfg g (.prepare L) = .ok (g', out)) : Inv cfg g' := by
  unfold stepCore at hs
  simp only [bind, Except.bind, pure, Except.pure] at hs
  split at hs
  · cases hs
  · rename_i u hu
    have hL := validLayout_valid hu
    split at hs
    · cases hs
    · rename_i u2 hu2
      have hp := noPrepared_ok hu2
      split at hs
      · cases hs
      · rename_i hchk
        have hdvd : L.align ∣ L.size := by
          simp only [bne_iff_ne, ne_eq, Decidable.not_not] at hchk
          exact Nat.dvd_of_mod_eq_zero hchk
        split at hs
        · cases hs
        · rename_i x hx
          obtain ⟨s1, r1⟩ := x
          have p := allocGeneric_post h.cfgOK h.geom hr h.disj hf .range hL (custom_truthful L) (custom_truthful L)
            (fun _ => hdvd) hx
          have h1 := inv_of_allocPost h p hp
          cases r1 with
          | error e =>
            simp only at hs
            cases hs
            exact h1
          | ok v =>
            obtain ⟨a, b⟩ := v
            simp only at hs
            cases hs
            obtain ⟨f1, f2, f3, i, c, f4, f5, f6⟩ := p.found (a, b) rfl
            refine h1.step_to (s' := { s1 with prepared := _ }) (geom_congr (s := s1) rfl rfl rfl h1.geom)
              (disj_congr (s := s1) rfl h1.disj) (liveOK_congr (s := s1) rfl rfl rfl h1.live) h1.unalloc h1.notClaimed
              h1.liveCur (ChunksCov.of_eq rfl) (LiveSub.of_eq rfl) (Nat.le_refl _) h1.ids
              (h1.frames.congr rfl rfl rfl) h1.marks (fun x hx => Or.inl hx) ?_
            intro q hq
            simp only [Option.some.injEq] at hq
            subst hq
            refine ⟨⟨i, c, f4, f5, ?_, ?_⟩, ?_, f1, f2, fun ht => by cases ht⟩
            · show a ≤ b; simp only at f3; omega
            · exact f6
            · exact hL.1

end Arena.Hist
