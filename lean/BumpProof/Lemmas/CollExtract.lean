/-
  Lemmas/CollExtract.lean — `Coll.extractIf` (model of `owned_slice::ExtractIf`) and `Coll.mapInPlace`
  (model of `BumpBox<[T]>::map_in_place`) compute `extractSpec` / `mapSpec` on well-formed vectors.
-/
import BumpProof.Coll.Spec
import BumpProof.Lemmas.CollPrim
import BumpProof.Lemmas.CollWF
import BumpProof.Lemmas.CollBasic
import BumpProof.Lemmas.CollDrain

namespace Coll

/-- one `next()` on a buffer `I kept ++ holes k ++ I rest ++ T` (`k` = number extracted so far) -/
theorem extractNext_eq (rest : List Id) :
    ∀ (kept : List Id) (k : Nat) (T : List Slot) (v : Vec) (s : ExtractSt) (o : List Outcome),
      v.slots = I kept ++ H k ++ I rest ++ T → s.index = kept.length + k → s.drained = k →
      extractNext rest.length v s o =
        (match scanSpec kept rest o with
         | (kept', rest', some (some x), o') =>
           .ok ({ v with slots := I kept' ++ H (k + 1) ++ I rest' ++ T, escaped := v.escaped ++ [x] },
                { s with index := kept'.length + k + 1, drained := k + 1 }, some (some x), o')
         | (kept', rest', r, o') =>
           .ok ({ v with slots := I kept' ++ H k ++ I rest' ++ T }, { s with index := kept'.length + k }, r, o')) := by
  induction rest with
  | nil =>
    intro kept k T v s o hs hi hd
    simp only [List.length_nil, extractNext, scanSpec]
    congr 2
    · exact Vec.eq_of (by simp [hs]) rfl rfl rfl
    · cases s; simp_all
  | cons x rest ih =>
    intro kept k T v s o hs hi hd
    have hs1 : v.slots = (I kept ++ H k) ++ Slot.init x :: (I rest ++ T) := by simp [hs]
    have hpk : peek v s.index = .ok x := peek_mid hs1 (by simp [hi])
    simp only [List.length_cons, extractNext, hpk]
    match o with
    | [] =>
      simp only [scanSpec]
      congr 2
      · exact Vec.eq_of (by simp [hs]) rfl rfl rfl
      · cases s; simp_all
    | .panic :: o =>
      simp only [scanSpec]
      congr 2
      · exact Vec.eq_of (by simp [hs]) rfl rfl rfl
      · cases s; simp_all
    | .ret b :: o =>
      by_cases hb : b ≠ 0
      · simp only [hb, ne_eq, not_false_eq_true, ↓reduceIte, scanSpec]
        rw [readOut_mid hs1 (by simp [hi])]
        simp only
        congr 2
        · apply Vec.eq_of <;> simp
        · cases s; simp_all
      · have hb0 : b = 0 := by simpa using hb
        simp only [hb0, ne_eq, not_true_eq_false, ↓reduceIte, scanSpec]
        have hs3 : v.slots = I kept ++ H k ++ [Slot.init x] ++ (I rest ++ T) := by simp [hs]
        have hs4 : I kept ++ [Slot.init x] ++ H k ++ (I rest ++ T) = I (kept ++ [x]) ++ H k ++ I rest ++ T := by simp
        by_cases hk : s.drained > 0
        · simp only [hk, ↓reduceIte]
          rw [copyNonoverlapping_back hs3 (by simp [hi]) (by simp [hi, hd]) (by simp) (by simp; omega)]
          simp only
          have := ih (kept ++ [x]) k T { v with slots := I kept ++ [Slot.init x] ++ H k ++ (I rest ++ T) }
            { s with index := s.index + 1 } o hs4 (by simp [hi]; omega) hd
          rw [this]
        · simp only [hk, ↓reduceIte]
          have hk0 : k = 0 := by omega
          subst hk0
          have := ih (kept ++ [x]) 0 T v { s with index := s.index + 1 } o (by simp [hs]) (by simp [hi]) hd
          rw [this]

theorem scanSpec_length (rest : List Id) : ∀ (kept : List Id) (o : List Outcome),
    (scanSpec kept rest o).1.length + (scanSpec kept rest o).2.1.length +
      (match (scanSpec kept rest o).2.2.1 with | some (some _) => 1 | _ => 0) = kept.length + rest.length := by
  induction rest with
  | nil => intro kept o; simp [scanSpec]
  | cons x rest ih =>
    intro kept o
    match o with
    | [] => simp [scanSpec]
    | .panic :: o => simp [scanSpec]
    | .ret b :: o =>
      simp only [scanSpec]
      split
      · simp; omega
      · have := ih (kept ++ [x]) o; simp at this ⊢; omega

/-- the `calls` × `next()` phase -/
theorem extractPulls_eq (calls : Nat) :
    ∀ (kept : List Id) (k : Nat) (rest : List Id) (T : List Slot) (v : Vec) (s : ExtractSt) (o : List Outcome) (acc : List Id),
      v.slots = I kept ++ H k ++ I rest ++ T → s.index = kept.length + k → s.drained = k →
      s.origLen = kept.length + k + rest.length →
      extractPulls calls v s o acc =
        .ok ({ v with slots := I (extractRun calls kept rest o).1 ++ H (k + (extractRun calls kept rest o).2.2.2.1.length) ++
                              I (extractRun calls kept rest o).2.1 ++ T,
                      escaped := v.escaped ++ (extractRun calls kept rest o).2.2.2.1 },
             { s with index := (extractRun calls kept rest o).1.length + k + (extractRun calls kept rest o).2.2.2.1.length,
                      drained := k + (extractRun calls kept rest o).2.2.2.1.length },
             (extractRun calls kept rest o).2.2.1, acc ++ (extractRun calls kept rest o).2.2.2.1,
             (extractRun calls kept rest o).2.2.2.2) := by
  induction calls with
  | zero =>
    intro kept k rest T v s o acc hs hi hd ho
    simp only [extractPulls, extractRun, List.length_nil, Nat.add_zero, List.append_nil]
    congr 2
    · exact Vec.eq_of (by simp [hs]) rfl rfl rfl
    · cases s; simp_all
  | succ c ih =>
    intro kept k rest T v s o acc hs hi hd ho
    have hfuel : s.origLen - s.index = rest.length := by omega
    simp only [extractPulls, hfuel, extractNext_eq rest kept k T v s o hs hi hd, extractRun]
    have hlen := scanSpec_length rest kept o
    cases hsc : scanSpec kept rest o with
    | mk kept' r1 =>
      obtain ⟨rest', res, o'⟩ := r1
      rw [hsc] at hlen
      cases res with
      | none =>
        simp only [List.length_nil, Nat.add_zero, List.append_nil, hd]
      | some r2 =>
        cases r2 with
        | none =>
          simp only [List.length_nil, Nat.add_zero, List.append_nil, hd]
        | some x =>
          simp only at hlen ⊢
          have := ih kept' (k + 1) rest' T { v with slots := I kept' ++ H (k + 1) ++ I rest' ++ T, escaped := v.escaped ++ [x] }
            { s with index := kept'.length + k + 1, drained := k + 1 } o' (acc ++ [x]) rfl (by simp; omega) rfl (by simp only; omega)
          rw [this]
          congr 2
          · apply Vec.eq_of <;> simp
            exact H_congr (by omega)
          · simp only [List.length_cons, List.append_assoc, List.singleton_append, Prod.mk.injEq, ExtractSt.mk.injEq, and_true, true_and]
            omega

theorem extractRun_length (calls : Nat) : ∀ (kept rest : List Id) (o : List Outcome),
    (extractRun calls kept rest o).1.length + (extractRun calls kept rest o).2.1.length +
      (extractRun calls kept rest o).2.2.2.1.length = kept.length + rest.length := by
  induction calls with
  | zero => intro kept rest o; simp [extractRun]
  | succ c ih =>
    intro kept rest o
    have hlen := scanSpec_length rest kept o
    simp only [extractRun]
    cases hsc : scanSpec kept rest o with
    | mk kept' r1 =>
      obtain ⟨rest', res, o'⟩ := r1
      rw [hsc] at hlen
      cases res with
      | none => simpa using hlen
      | some r2 =>
        cases r2 with
        | none => simpa using hlen
        | some x =>
          have := ih kept' rest' o'
          simp at hlen this ⊢; omega

/-- **refinement** of `extract_if` -/
theorem extractIf_eq (v : Vec) (xs : List Id) (calls : Nat) (o : List Outcome)
    (hs : v.slots = I xs ++ H (v.cap - v.len)) (hl : xs.length = v.len) :
    extractIf v calls o =
      .ok ⟨v.after (extractSpec calls xs o), (extractSpec calls xs o).exit, (extractSpec calls xs o).rest⟩ := by
  have hcap := seg_len_le_cap hs hl
  unfold extractIf extractSpec
  have hs0 : (setLen v 0).slots = I [] ++ H 0 ++ I xs ++ H (v.cap - v.len) := by simp [setLen, hs]
  have hp := extractPulls_eq calls [] 0 xs (H (v.cap - v.len)) (setLen v 0)
    { index := 0, drained := 0, origLen := v.len } o [] hs0 rfl rfl (by simp [hl])
  simp only
  rw [hp]
  have hlen := extractRun_length calls [] xs o
  generalize extractRun calls [] xs o = run at hlen ⊢
  obtain ⟨kept, rest, panicked, ys, o'⟩ := run
  simp only [List.length_nil, Nat.zero_add] at hlen ⊢
  simp only [setLen, extractDrop, Nat.add_zero, List.nil_append]
  have hcp := copy_back_or_skip (v := { v with slots := I kept ++ H ys.length ++ I rest ++ H (v.cap - v.len), len := 0, escaped := v.escaped ++ ys })
    (A := I kept) (k := ys.length) (M := I rest) (T := H (v.cap - v.len)) (src := kept.length + ys.length) (dst := kept.length)
    (n := rest.length) rfl (by simp) (by simp) (by simp)
  -- the guard of `drop`: `index < original_len && drained_count > 0`
  by_cases hc : kept.length + ys.length < v.len ∧ ys.length > 0
  · simp only [hc, and_self, ↓reduceIte]
    have e1 : kept.length + ys.length - ys.length = kept.length := by omega
    have e2 : v.len - (kept.length + ys.length) = rest.length := by omega
    rw [e1, e2]
    have hne : kept.length + ys.length ≠ kept.length := by omega
    rw [if_pos hne] at hcp
    rw [hcp]
    simp only [setLen]
    congr 2
    apply Vec.eq_of <;> simp [Vec.after]
    · rw [← H_add]; congr 1; omega
    · omega
  · simp only [hc, ↓reduceIte]
    congr 2
    apply Vec.eq_of <;> simp [Vec.after]
    · -- either nothing is left to shift (`rest = []`) or nothing was extracted (`ys = []`)
      by_cases hy : ys.length = 0
      · have : ys = [] := List.eq_nil_of_length_eq_zero hy
        subst this
        simp; congr 1; omega
      · have hr : rest.length = 0 := by omega
        have : rest = [] := List.eq_nil_of_length_eq_zero hr
        subst this
        simp; rw [← H_add]; congr 1; omega
    · omega

/-! ## map_in_place -/

theorem mapLoop_eq (bombs : List Id) (rest : List Id) :
    ∀ (done : List Id) (T : List Slot) (v : Vec) (o : List Outcome) (end_ : Nat),
      v.slots = I done ++ I rest ++ T → end_ = done.length + rest.length → v.len = 0 →
      mapLoop bombs end_ rest.length v done.length o =
        .ok ⟨{ v with slots := (if (mapSpec done rest o).final.length = end_ then I (mapSpec done rest o).final else H end_) ++ T,
                      len := (mapSpec done rest o).final.length,
                      dropLog := v.dropLog ++ (mapSpec done rest o).dropped,
                      escaped := v.escaped ++ (mapSpec done rest o).escaped },
             (mapSpec done rest o).exit, (mapSpec done rest o).rest⟩ := by
  induction rest with
  | nil =>
    intro done T v o end_ hs he hl
    simp only [List.length_nil, Nat.add_zero] at he
    simp only [List.length_nil, mapLoop, mapSpec, setLen, he, ↓reduceIte, List.append_nil]
    congr 2
    apply Vec.eq_of <;> simp [hs]
  | cons x rest ih =>
    intro done T v o end_ hs he hl
    simp only [List.length_cons] at he
    have hs1 : v.slots = I done ++ Slot.init x :: (I rest ++ T) := by simp [hs]
    simp only [List.length_cons, mapLoop]
    rw [readOut_mid hs1 (by simp)]
    simp only
    -- the guard: drops `rest`, then `done`
    have hguard : mapGuard bombs { v with slots := I done ++ Slot.hole :: (I rest ++ T), escaped := v.escaped ++ [x] } done.length end_
        = .ok { v with slots := H end_ ++ T, dropLog := v.dropLog ++ (rest ++ done), escaped := v.escaped ++ [x] } := by
      unfold mapGuard
      have e1 : end_ - (done.length + 1) = rest.length := by omega
      have hsA : (I done ++ Slot.hole :: (I rest ++ T)) = (I done ++ [Slot.hole]) ++ I rest ++ T := by simp
      rw [e1, dropRange_seg bombs rest true { v with slots := _, escaped := _ } (I done ++ [Slot.hole]) T (done.length + 1) hsA (by simp)]
      simp only
      have hsB : (I done ++ [Slot.hole]) ++ H rest.length ++ T = [] ++ I done ++ ([Slot.hole] ++ H rest.length ++ T) := by simp
      have := dropRange_seg bombs done true { v with slots := (I done ++ [Slot.hole]) ++ H rest.length ++ T, dropLog := v.dropLog ++ rest, escaped := v.escaped ++ [x] }
        [] ([Slot.hole] ++ H rest.length ++ T) 0 hsB rfl
      rw [this]
      simp only
      congr 1
      apply Vec.eq_of <;> simp
      have : end_ = done.length + (1 + rest.length) := by omega
      rw [this, H_add, H_add]; simp
    match o with
    | [] =>
      simp only [hguard, Except.map, mapSpec, List.length_nil]
      have : ¬ (0 = end_) := by omega
      simp only [this, ↓reduceIte, hl]
    | .panic :: o =>
      simp only [hguard, Except.map, mapSpec, List.length_nil]
      have : ¬ (0 = end_) := by omega
      simp only [this, ↓reduceIte, hl]
    | .ret id :: o =>
      simp only [mapSpec]
      have hs2 : I done ++ Slot.hole :: (I rest ++ T) = I done ++ Slot.hole :: (I rest ++ T) := rfl
      rw [write_mid (v := { v with slots := _, escaped := _ }) hs2 (by simp)]
      simp only
      have hs3 : I done ++ Slot.init id :: (I rest ++ T) = I (done ++ [id]) ++ I rest ++ T := by simp
      have := ih (done ++ [id]) T { v with slots := I done ++ Slot.init id :: (I rest ++ T), escaped := v.escaped ++ [x] } o end_
        hs3 (by simp; omega) hl
      have e : done.length + 1 = (done ++ [id]).length := by simp
      rw [e, this]
      congr 2
      apply Vec.eq_of
      · show (if _ then _ else _) ++ T = (if _ then _ else _) ++ T
        congr
      · rfl
      · rfl
      · simp

theorem mapSpec_final_length (rest : List Id) : ∀ (done : List Id) (o : List Outcome),
    (mapSpec done rest o).final.length = done.length + rest.length ∨ (mapSpec done rest o).final = [] := by
  induction rest with
  | nil => intro done o; simp [mapSpec]
  | cons x rest ih =>
    intro done o
    match o with
    | [] => simp [mapSpec]
    | .panic :: o => simp [mapSpec]
    | .ret id :: o =>
      simp only [mapSpec]
      rcases ih (done ++ [id]) o with h | h
      · left; simp at h ⊢; omega
      · right; exact h

/-- **refinement** of `map_in_place` (result type of the same size: every slot is reused) -/
theorem mapInPlace_eq (bombs : List Id) (v : Vec) (xs : List Id) (o : List Outcome)
    (hs : v.slots = I xs ++ H (v.cap - v.len)) (hl : xs.length = v.len) :
    mapInPlace bombs v o =
      .ok ⟨v.after (mapSpec [] xs o), (mapSpec [] xs o).exit, (mapSpec [] xs o).rest⟩ := by
  have hcap := seg_len_le_cap hs hl
  unfold mapInPlace
  have := mapLoop_eq bombs xs [] (H (v.cap - v.len)) (setLen v 0) o v.len (by simp [setLen, hs]) (by simp [hl]) rfl
  rw [← hl] at this ⊢
  simp only [List.length_nil] at this
  rw [this]
  congr 2
  apply Vec.eq_of <;> simp [Vec.after, setLen]
  rcases mapSpec_final_length xs [] o with h | h
  · simp only [List.length_nil, Nat.zero_add] at h
    simp only [h, ↓reduceIte]
  · rw [h]
    by_cases h0 : xs.length = 0
    · simp [h0]
    · have : ¬ (0 = xs.length) := by omega
      simp only [List.length_nil, this, ↓reduceIte, I_nil, List.nil_append, Nat.sub_zero]
      rw [← H_add]; congr 1; omega

/-! ## conservation -/

theorem scanSpec_perm (rest : List Id) : ∀ (kept : List Id) (o : List Outcome),
    ((scanSpec kept rest o).1 ++ (scanSpec kept rest o).2.1 ++
      (match (scanSpec kept rest o).2.2.1 with | some (some x) => [x] | _ => [])).Perm (kept ++ rest) := by
  induction rest with
  | nil => intro kept o; simp [scanSpec]
  | cons x rest ih =>
    intro kept o
    match o with
    | [] => simp [scanSpec]
    | .panic :: o => simp [scanSpec]
    | .ret b :: o =>
      simp only [scanSpec]
      split
      · simp only [List.append_assoc]
        exact List.Perm.append_left _ (List.perm_append_singleton _ _)
      · have := ih (kept ++ [x]) o
        simpa using this

theorem extractRun_perm (calls : Nat) : ∀ (kept rest : List Id) (o : List Outcome),
    ((extractRun calls kept rest o).1 ++ (extractRun calls kept rest o).2.1 ++
      (extractRun calls kept rest o).2.2.2.1).Perm (kept ++ rest) := by
  induction calls with
  | zero => intro kept rest o; simp [extractRun]
  | succ c ih =>
    intro kept rest o
    have hp := scanSpec_perm rest kept o
    simp only [extractRun]
    cases hsc : scanSpec kept rest o with
    | mk kept' r1 =>
      obtain ⟨rest', res, o'⟩ := r1
      rw [hsc] at hp
      cases res with
      | none => simpa using hp
      | some r2 =>
        cases r2 with
        | none => simpa using hp
        | some x =>
          have := ih kept' rest' o'
          simp only at hp ⊢
          refine List.Perm.trans ?_ hp
          -- k ++ r ++ (x :: ys) ~ (k' ++ r') ++ [x]   with  k ++ r ++ ys ~ k' ++ r'
          refine (List.perm_middle).trans ?_
          refine (List.Perm.cons x this).trans ?_
          exact (List.perm_append_singleton _ _).symm

theorem extractSpec_perm (calls : Nat) (xs : List Id) (o : List Outcome) :
    ((extractSpec calls xs o).final ++ (extractSpec calls xs o).dropped ++ (extractSpec calls xs o).escaped).Perm xs := by
  simpa [extractSpec] using extractRun_perm calls [] xs o

theorem extractSpec_len (calls : Nat) (xs : List Id) (o : List Outcome) :
    (extractSpec calls xs o).final.length ≤ xs.length := by
  have := (extractSpec_perm calls xs o).length_eq
  simp only [List.length_append] at this; omega

theorem mapSpec_perm (rest : List Id) : ∀ (done : List Id) (o : List Outcome),
    ((mapSpec done rest o).final ++ (mapSpec done rest o).dropped ++ (mapSpec done rest o).escaped).Perm
      (done ++ rest ++ mapIns rest o) := by
  induction rest with
  | nil => intro done o; simp [mapSpec, mapIns]
  | cons x rest ih =>
    intro done o
    match o with
    | [] =>
      simp only [mapSpec, mapIns, List.nil_append, List.append_nil, List.append_assoc]
      -- rest ++ (done ++ [x]) ~ done ++ x :: rest
      refine List.perm_append_comm.trans ?_
      simp only [List.append_assoc, List.singleton_append]
      exact List.Perm.refl _
    | .panic :: o =>
      simp only [mapSpec, mapIns, List.nil_append, List.append_nil, List.append_assoc]
      -- rest ++ (done ++ [x]) ~ done ++ x :: rest
      refine List.perm_append_comm.trans ?_
      simp only [List.append_assoc, List.singleton_append]
      exact List.Perm.refl _
    | .ret id :: o =>
      have := ih (done ++ [id]) o
      simp only [mapSpec, mapIns]
      refine (List.perm_middle).trans ?_
      refine (List.Perm.cons x this).trans ?_
      simp only [List.append_assoc, List.singleton_append]
      refine (List.perm_middle).symm.trans ?_
      refine List.Perm.append_left _ ?_
      refine List.Perm.cons x ?_
      exact (List.perm_middle).symm

theorem mapSpec_len (rest : List Id) (done : List Id) (o : List Outcome) :
    (mapSpec done rest o).final.length ≤ done.length + rest.length := by
  rcases mapSpec_final_length rest done o with h | h
  · omega
  · rw [h]; simp

end Coll
