/-
  Lemmas/HistOpsShrink.lean — preservation of `Arena.Hist.Inv` by the `.shrink` (through `shrink` or
  `WithoutShrink::shrink`) and `.shrinkSlice` operations: a function-level post-condition in the
  live-block world (`ReallocPost`) for `shrinkSlice`, `shrink`, `shrinkWithoutShrink`, then the assembly.
-/
import BumpProof.Lemmas.HistRealloc
set_option linter.unusedSimpArgs false
set_option linter.unusedVariables false
namespace Arena.Hist
open Rs Lemmas
variable {cfg : Cfg}

/-! ## position updates -/

theorem setPos_setPos (s : State) (i p q : Nat) : setPos (setPos s i p) i q = setPos s i q := by
  unfold setPos
  simp only [List.modify_modify_eq]
  rfl

theorem setPos_self {s : State} {i : Nat} {c : Chunk} (hc : s.chunks[i]? = some c) : setPos s i c.pos = s := by
  unfold setPos
  have : s.chunks.modify i (fun c' => { c' with pos := c.pos }) = s.chunks := by
    apply List.ext_getElem?
    intro j
    simp only [List.getElem?_modify]
    by_cases hij : i = j
    · subst hij
      rw [hc]
      simp
    · cases s.chunks[j]? with
      | none => rfl
      | some b => simp [hij]
  rw [this]

/-! ## the ghost part of a post-condition -/

/-- the ghost state is untouched, chunks are covered, and the kind of the current chunk evolves as allowed -/
structure GhostPost (s s' : State) : Prop where
  stable : Stable s s'
  unalloc : s'.cur = .unallocated → s.cur = .unallocated ∧ SameShape s s'
  curKind : s'.cur = s.cur ∨ ∃ j, s'.cur = .chunk j

theorem GhostPost.refl (s : State) : GhostPost s s := ⟨Stable.refl s, fun h => ⟨h, SameShape.refl s⟩, Or.inl rfl⟩

theorem GhostPost.trans {a b c : State} (h1 : GhostPost a b) (h2 : GhostPost b c) : GhostPost a c := by
  refine ⟨h1.stable.trans h2.stable, ?_, ?_⟩
  · intro hu
    obtain ⟨u1, u2⟩ := h2.unalloc hu
    obtain ⟨u3, u4⟩ := h1.unalloc u1
    exact ⟨u3, u4.trans u2⟩
  · rcases h2.curKind with e | ⟨j, hj⟩
    · rcases h1.curKind with e1 | ⟨j, hj⟩
      · exact Or.inl (e.trans e1)
      · exact Or.inr ⟨j, e.trans hj⟩
    · exact Or.inr ⟨j, hj⟩

theorem GhostPost.setPos (s : State) (i p : Nat) : GhostPost s (setPos s i p) :=
  ⟨Stable.setPos s i p, fun h => ⟨h, setPos_shape s i p⟩, Or.inl rfl⟩

theorem GhostPost.copy {s s' : State} {src dst len : Nat} {no : Bool} (he : copyBytes cfg s src dst len no = .ok s') :
    GhostPost s s' := by
  have ho := Mem.copyBytes_onlyData he
  have hg := copyBytes_geom he
  exact ⟨Stable.of_onlyData ho, fun h => ⟨hg.cur ▸ h, hg.shape⟩, Or.inl hg.cur⟩

theorem GhostPost.ofAlloc {k : Kind} {L : Layout} {s s' : State} {r : Except AErr (Nat × Nat)}
    (p : AllocPost cfg k L s s' r) : GhostPost s s' := ⟨p.stable, p.unalloc, p.curKind⟩

/-! ## the other live blocks when the last block of the current chunk is reallocated -/

/-- the live blocks other than `blk` that lie in the current chunk `c` are beyond `blk` when `blk` touches
    the bump position -/
theorem shr_survivors {s : State} (hl : Mem.LiveOK cfg s) (hd : Mem.ChunksDisjoint s.chunks) {blk : Block}
    (hb : blk ∈ s.live) {i : Nat} {c : Chunk} (hcur : s.cur = .chunk i) (hc : s.chunks[i]? = some c)
    (hpos : if cfg.up then blk.addr + blk.size = c.pos else blk.addr = c.pos) :
    ∀ x ∈ s.live, (x.id != blk.id) = true → 0 < x.size → Mem.InContent cfg c x.addr x.size →
      if cfg.up then x.addr + x.size ≤ blk.addr else blk.addr + blk.size ≤ x.addr := by
  intro x hx hne hs hin
  have hxb : x ≠ blk := by
    intro e; subst e; simp at hne
  have hdj : Mem.BlocksDisjoint x blk :=
    Mem.pairwise_of_mem_ne (fun a b hab => Mem.BlocksDisjoint.symm hab) hl.disjoint hx hb hxb
  obtain ⟨i', j, cj, h1, h2, h3, h4, h5⟩ := hl.placed x hx hs
  have hii : i' = i := by rw [hcur] at h1; cases h1; rfl
  subst hii
  have hside : Mem.OnAllocatedSide cfg c x.addr x.size := by
    by_cases hji : j = i'
    · subst hji
      rw [hc] at h3; cases h3
      exact h5 rfl
    · exfalso
      have := Mem.inContent_disjoint_chunks hd hc h3 hji h4 hin
      unfold Mem.RangesDisjoint at this
      omega
  unfold Mem.OnAllocatedSide at hside
  unfold Mem.BlocksDisjoint at hdj
  cases hup : cfg.up
  · simp only [hup, Bool.false_eq_true, ↓reduceIte] at hside hpos ⊢; omega
  · simp only [hup, ↓reduceIte] at hside hpos ⊢; omega

/-- reallocation of the last block `blk` of the current chunk inside that chunk: the new block `[p, p+size)`
    lies between the far end of `blk` and the new position `np`; `blk` is given up -/
theorem shr_recarve {s : State} (hl : Mem.LiveOK cfg s) (hd : Mem.ChunksDisjoint s.chunks) {blk : Block}
    (hb : blk ∈ s.live) {i : Nat} {c : Chunk} (hcur : s.cur = .chunk i) (hc : s.chunks[i]? = some c)
    (hpos : if cfg.up then blk.addr + blk.size = c.pos else blk.addr = c.pos) {p size np : Nat}
    (hgeo : if cfg.up then c.contentStart cfg ≤ blk.addr ∧ blk.addr ≤ p ∧ p + size ≤ np ∧ np ≤ c.contentEnd cfg
            else c.contentStart cfg ≤ np ∧ np ≤ p ∧ p + size ≤ blk.addr + blk.size ∧ blk.addr + blk.size ≤ c.contentEnd cfg) :
    Mem.AllocOutcome cfg (removeBlock (setPos s i np) blk.id) p size := by
  have key := liveOK_recarve (cfg := cfg) (fun x => x.id != blk.id) (q := if cfg.up then blk.addr else blk.addr + blk.size)
    (p := p) (size := size) (np := np) hl hd hcur hc
    (by
      intro x hx hk hs hin
      have := shr_survivors hl hd hb hcur hc hpos x hx hk hs hin
      cases hup : cfg.up
      · simp only [hup, Bool.false_eq_true, ↓reduceIte] at this ⊢; exact this
      · simp only [hup, ↓reduceIte] at this ⊢; exact this)
    (by
      cases hup : cfg.up
      · simp only [hup, Bool.false_eq_true, ↓reduceIte] at hgeo ⊢; exact hgeo
      · simp only [hup, ↓reduceIte] at hgeo ⊢; exact hgeo)
  obtain ⟨k1, k2, k3⟩ := key
  exact ⟨k1, k2, k3⟩

theorem onlyData_removeBlock {s s' : State} (ho : Mem.OnlyDataChanged s s') (id : Nat) :
    Mem.OnlyDataChanged (removeBlock s id) (removeBlock s' id) := by
  obtain ⟨h1, h2⟩ := ho
  refine ⟨?_, h2⟩
  show removeBlock s' id = { removeBlock s id with chunks := s'.chunks }
  have : removeBlock s' id = removeBlock { s with chunks := s'.chunks } id := by rw [← h1]
  rw [this]
  rfl

/-- an allocation outcome survives dropping a live block -/
theorem allocOutcome_removeBlock {s : State} {p size : Nat} (h : Mem.AllocOutcome cfg s p size) (id : Nat) :
    Mem.AllocOutcome cfg (removeBlock s id) p size :=
  ⟨h.live.removeBlock id, placed_congr (s := s) rfl rfl h.placed, fun x hx => h.disj x (mem_filter_sub hx)⟩

/-! ## the two position computations of an in-place shrink, with the facts the live-block world needs -/

theorem shr_up_core (hc : CfgOK cfg) {s : State} (h : GeomInv cfg s) {i : Nat} {c : Chunk}
    (hcur : s.cur = .chunk i) (hi : s.chunks[i]? = some c) {ptr newSize : Nat}
    (h2 : ptr + newSize ≤ c.pos) {e np : Nat}
    (he : Rs.add ptr newSize = .ok e) (hnp : Gen.LibArith.up_align_usize_unchecked e s.minAlign = .ok np) :
    ptr + newSize ≤ np ∧ np ≤ c.contentEnd cfg := by
  have hw := h.chunks i c hi
  have hm := h.minAlign
  have hmle := hm.le
  have hend := hw.end_lt64
  have h16 := hw.end16 hc
  have hple := hw.pos_le
  unfold Rs.add at he
  split at he
  · cases he
    rw [up_align_usize_unchecked_eq hm.p2 hm.lt64 (by rw [two_pow_64] at hend ⊢; omega)] at hnp
    cases hnp
    have hup1 : ptr + newSize ≤ Spec.upAlign (ptr + newSize) s.minAlign := le_upAlign _ hm.pos
    have hup2 : Spec.upAlign (ptr + newSize) s.minAlign ≤ c.contentEnd cfg :=
      upAlign_le_of_dvd hm.pos (hm.dvd_of_16 h16) (by omega)
    exact ⟨hup1, hup2⟩
  · cases he

theorem shr_down_core (hc : CfgOK cfg) {s : State} (h : GeomInv cfg s) {i : Nat} {c : Chunk}
    (hcur : s.cur = .chunk i) (hi : s.chunks[i]? = some c) {ptr oldSize newSize al : Nat} (hal : P2 al) (hal64 : al < 2 ^ 64)
    (hap : al ∣ ptr) (h1 : ptr = c.pos) (h2 : ptr + oldSize ≤ c.contentEnd cfg) (h3 : newSize ≤ oldSize)
    {oldEnd newAddr : Nat} (he : Rs.add ptr oldSize = .ok oldEnd)
    (hna : Gen.LibArith.bump_down oldEnd newSize (Rs.max al s.minAlign) = .ok newAddr) :
    ptr ≤ newAddr ∧ newAddr + newSize ≤ ptr + oldSize ∧ al ∣ newAddr := by
  have hw := h.chunks i c hi
  obtain ⟨c', hc', hd⟩ := h.cur i hcur
  rw [hi] at hc'; cases hc'
  have hm := h.minAlign
  have hend := hw.end_lt64
  unfold Rs.add at he
  split at he
  · cases he
    have hp2 : P2 (Rs.max al s.minAlign) := by rw [rs_max_eq]; exact hal.max hm.p2
    have hlt : Rs.max al s.minAlign < 2 ^ 64 := by
      rw [rs_max_eq, Lemmas.Size.natmax]
      have := hm.lt64; omega
    rw [lib_bump_down_eq hp2 hlt (by omega)] at hna
    cases hna
    have hpd : Rs.max al s.minAlign ∣ ptr := by
      rw [rs_max_eq]
      rcases Nat.le_total al s.minAlign with hle | hle
      · rw [show Nat.max al s.minAlign = s.minAlign from Nat.max_eq_right hle]; rw [h1]; exact hd
      · rw [show Nat.max al s.minAlign = al from Nat.max_eq_left hle]; exact hap
    have hge : ptr ≤ Spec.downAlign (ptr + oldSize - newSize) (Rs.max al s.minAlign) :=
      le_downAlign_of_dvd hp2.pos hpd (by omega)
    have hle : Spec.downAlign (ptr + oldSize - newSize) (Rs.max al s.minAlign) ≤ ptr + oldSize - newSize :=
      downAlign_le _ _
    have hdvd : al ∣ Spec.downAlign (ptr + oldSize - newSize) (Rs.max al s.minAlign) := by
      rw [rs_max_eq]
      exact Nat.dvd_trans (dvd_max_left hal hm.p2) (downAlign_dvd _ _)
    exact ⟨hge, by omega, hdvd⟩
  · cases he

/-! ## the post-condition of a reallocating model function in the live-block world -/

/-- `res = none`: nothing was reallocated (refusal / `None`), the old block stays live.
    `res = some (np, nsize)`: block `id` is replaced by `[np, np+nsize)` with recorded alignment `al`. -/
structure ReallocPost (cfg : Cfg) (s s' : State) (id al : Nat) (res : Option (Nat × Nat)) : Prop where
  ghost : GhostPost s s'
  kept : res = none → Mem.LiveOK cfg s'
  moved : ∀ v, res = some v → (∃ j, s'.cur = .chunk j) ∧ Mem.LiveOK cfg (removeBlock s' id) ∧
    ∀ init, Mem.LiveOK cfg (Arena.addBlock (removeBlock s' id) v.1 v.2 al init).1

/-- a success established through an `AllocOutcome` on the state without the old block -/
theorem ReallocPost.ofOutcome {s s' : State} {id al np nsize : Nat} (hg : GhostPost s s') (hcur : ∃ j, s'.cur = .chunk j)
    (ho : Mem.AllocOutcome cfg (removeBlock s' id) np nsize) (hal : al ∣ np) :
    ReallocPost cfg s s' id al (some (np, nsize)) :=
  ⟨hg, fun hx => (by cases hx), fun v hv => (by cases hv; exact ⟨hcur, ho.live, fun init => ho.addBlock hal init⟩)⟩

theorem ReallocPost.ofNone {s s' : State} {id al : Nat} (hg : GhostPost s s') (hl : Mem.LiveOK cfg s') :
    ReallocPost cfg s s' id al none :=
  ⟨hg, fun _ => hl, fun v hv => (by cases hv)⟩

/-- the assembly: from the function-level facts to the invariant of the successor state -/
theorem inv_of_reallocPost {g : GState} (h : Inv cfg g) (hp : g.s.prepared = none) {s' : State}
    (hg : GeomInv cfg s') (hd : ChunksDisjoint s') (hma : s'.minAlign = g.s.minAlign) {id al : Nat}
    {res : Option (Nat × Nat)} (p : ReallocPost cfg g.s s' id al res) (hal : ∃ k, k < 64 ∧ al = 2 ^ k) :
    (res = none → Inv cfg ⟨s', g.marks⟩) ∧
    (∀ v, res = some v → ∀ init, Inv cfg ⟨(Arena.addBlock (removeBlock s' id) v.1 v.2 al init).1, g.marks⟩) := by
  refine ⟨fun hn => ?_, fun v hv init => ?_⟩
  · exact inv_of_stable h hp hg hd hma p.ghost.stable p.ghost.unalloc p.ghost.curKind (p.kept hn)
  · obtain ⟨hcur, hl, hadd⟩ := p.moved v hv
    have h1 : Inv cfg ⟨removeBlock s' id, g.marks⟩ :=
      inv_of_stable_drop h id hp hg hd hma p.ghost.stable p.ghost.unalloc p.ghost.curKind hl
    exact h1.withBlock (hadd init) hcur hal

/-! ## in-place shrinking of the last block (shared by `shrink` and `shrink_slice`) -/

/-- upwards: the block keeps its address, the position moves back to just past its new end -/
theorem inplace_up {g : GState} (h : Inv cfg g) {blk : Block} (hb : blk ∈ g.s.live) (hup : cfg.up = true)
    (hlast : isLast cfg g.s blk.addr blk.size = true) {newSize al : Nat} (hsz : newSize ≤ blk.size) (hal : al ∣ blk.addr)
    {e np : Nat} (he : Rs.add blk.addr newSize = .ok e)
    (hnp : Gen.LibArith.up_align_usize_unchecked e g.s.minAlign = .ok np) :
    ReallocPost cfg g.s (setCurPos g.s np) blk.id al (some (blk.addr, newSize)) := by
  obtain ⟨i, c, hcur, hi, hb1, hb2, hb3⟩ := h.blockInCur' hb hlast
  have hpos := isLast_pos hlast hcur hi
  have hpos' := hpos
  simp only [hup, ↓reduceIte] at hpos'
  obtain ⟨g1, g2⟩ := shr_up_core h.cfgOK h.geom hcur hi (ptr := blk.addr) (newSize := newSize) (by omega) he hnp
  rw [Mem.setCurPos_chunk hcur]
  refine ReallocPost.ofOutcome (GhostPost.setPos _ _ _) ⟨i, hcur⟩ ?_ hal
  apply shr_recarve h.live ((disjoint_iff g.s).mp h.disj) hb hcur hi hpos
  rw [if_pos hup]
  exact ⟨hb1, Nat.le_refl _, g1, g2⟩

/-- downwards: the block moves up against its old end; the new position is its new start -/
theorem inplace_down {g : GState} (h : Inv cfg g) {blk : Block} (hb : blk ∈ g.s.live) (hup : cfg.up = false)
    (hlast : isLast cfg g.s blk.addr blk.size = true) {newSize al : Nat} (hsz : newSize ≤ blk.size)
    (hal : P2 al) (hal64 : al < 2 ^ 64) (hap : al ∣ blk.addr)
    {oldEnd newAddr : Nat} (he : Rs.add blk.addr blk.size = .ok oldEnd)
    (hna : Gen.LibArith.bump_down oldEnd newSize (Rs.max al g.s.minAlign) = .ok newAddr)
    {s1 : State} {no : Bool} (hcp : copyBytes cfg g.s blk.addr newAddr newSize no = .ok s1) :
    ReallocPost cfg g.s (setCurPos s1 newAddr) blk.id al (some (newAddr, newSize)) := by
  obtain ⟨i, c, hcur, hi, hb1, hb2, hb3⟩ := h.blockInCur' hb hlast
  have hpos := isLast_pos hlast hcur hi
  have hpos' := hpos
  simp only [hup, Bool.false_eq_true, ↓reduceIte] at hpos'
  obtain ⟨g1, g2, g3⟩ := shr_down_core h.cfgOK h.geom hcur hi hal hal64 hap hpos' hb2 hsz he hna
  have hg := copyBytes_geom hcp
  have ho := Mem.copyBytes_onlyData hcp
  have hcur1 : s1.cur = .chunk i := hg.cur.trans hcur
  obtain ⟨c1, hi1, hcc⟩ := hg.getElem?' hi
  have e1 : c1.pos = c.pos := geom_pos hcc
  have e2 : c1.contentStart cfg = c.contentStart cfg := geom_contentStart hcc
  have e3 : c1.contentEnd cfg = c.contentEnd cfg := geom_contentEnd hcc
  have hl1 : Mem.LiveOK cfg s1 := h.live.of_onlyData ho
  have hd1 : Mem.ChunksDisjoint s1.chunks := (disjoint_iff s1).mp (hg.shape.disjoint h.disj)
  have hb' : blk ∈ s1.live := by rw [(Stable.of_onlyData ho).live]; exact hb
  rw [Mem.setCurPos_chunk hcur1]
  refine ReallocPost.ofOutcome ((GhostPost.copy hcp).trans (GhostPost.setPos _ _ _)) ⟨i, hcur1⟩ ?_ g3
  apply shr_recarve hl1 hd1 hb' hcur1 hi1 (by rw [e1]; exact hpos)
  rw [if_neg (by rw [hup]; simp), e2, e3]
  exact ⟨by omega, Nat.le_refl _, g2, hb2⟩

/-! ## `shrink_slice` -/

theorem shrinkSlice_realloc {g : GState} (h : Inv cfg g) {blk : Block} (hb : blk ∈ g.s.live) {newSize : Nat}
    (hsz : newSize ≤ blk.size) {s' : State} {r : Option Nat}
    (he : shrinkSlice cfg g.s blk.addr blk.size newSize blk.align = .ok (s', r)) :
    ReallocPost cfg g.s s' blk.id blk.align (r.map (fun np => (np, newSize))) := by
  obtain ⟨k, hk, hk2⟩ := h.aligns blk hb
  have hal : P2 blk.align := ⟨k, hk2⟩
  have hal64 : blk.align < 2 ^ 64 := by rw [hk2]; exact Nat.pow_lt_pow_right (by decide) hk
  have hap : blk.align ∣ blk.addr := h.live.aligned blk hb
  unfold shrinkSlice at he
  split at he
  · cases he; exact ReallocPost.ofNone (GhostPost.refl _) h.live
  · split at he
    · cases he; exact ReallocPost.ofNone (GhostPost.refl _) h.live
    · rename_i hnl
      have hlast : isLast cfg g.s blk.addr blk.size = true := by simpa using hnl
      obtain ⟨i, c, hcur, hi, _⟩ := h.blockInCur' hb hlast
      rw [hcur] at he
      simp only at he
      split at he
      · rename_i hup
        obtain ⟨e, h1, he⟩ := bind_eq_ok he
        obtain ⟨np, h2, he⟩ := bind_eq_ok he
        cases he
        exact inplace_up h hb hup hlast hsz hap (liftM_eq_ok h1) (liftM_eq_ok h2)
      · rename_i hup
        have hup' : cfg.up = false := by simpa using hup
        obtain ⟨oldEnd, h1, he⟩ := bind_eq_ok he
        obtain ⟨newAddr, h2, he⟩ := bind_eq_ok he
        obtain ⟨s1, h3, he⟩ := bind_eq_ok he
        cases he
        exact inplace_down h hb hup' hlast hsz hal hal64 hap (liftM_eq_ok h1) (liftM_eq_ok h2) h3

theorem inv_shrinkSlice {g g' : GState} {out : Out} {b newSize : Nat} (h : Inv cfg g)
    (hr : RespsOK cfg g.s) (hf : RespsFresh g.s)
    (hs : stepCore cfg g (.shrinkSlice b newSize) = .ok (g', out)) : Inv cfg g' := by
  unfold stepCore at hs
  simp only [bind, Except.bind, pure, Except.pure] at hs
  split at hs
  · cases hs
  · rename_i u hu
    have hp := noPrepared_ok hu
    split at hs
    · cases hs
    · rename_i blk hblk
      obtain ⟨hmem, hid⟩ := Mem.findBlock_ok hblk
      split at hs
      · cases hs
      · rename_i hsz
        have hsz' : newSize ≤ blk.size := by omega
        split at hs
        · cases hs
        · rename_i x hx
          obtain ⟨s1, r1⟩ := x
          obtain ⟨k, hk, hk2⟩ := h.aligns blk hmem
          have bp := shrinkSlice_post h.cfgOK h.geom hr ⟨k, hk2⟩ (by rw [hk2]; exact Nat.pow_lt_pow_right (by decide) hk)
            (h.live.aligned blk hmem) hsz' (h.blockInCur' hmem) hx
          have key := inv_of_reallocPost h hp bp.inv (bp.trace.disjoint h.disj hf).1 bp.minAlign
            (shrinkSlice_realloc h hmem hsz' hx) ⟨k, hk, hk2⟩
          subst hid
          cases r1 with
          | none =>
            simp only at hs
            cases hs
            exact key.1 rfl
          | some np =>
            simp only at hs
            cases hs
            exact key.2 (np, newSize) rfl _

/-! ## building blocks for `shrink` / `WithoutShrink::shrink` -/

/-- the outcome of `shrink` as an optional new block -/
def exRes : Except AErr (Nat × Nat) → Option (Nat × Nat)
  | .ok v => some v
  | .error _ => none

/-- nothing is done to the arena: the block keeps its address with a size not bigger than before -/
theorem keep_realloc {g : GState} (h : Inv cfg g) {blk : Block} (hb : blk ∈ g.s.live) {al nsize : Nat}
    (hal : al ∣ blk.addr) (hsz : nsize ≤ blk.size) :
    ReallocPost cfg g.s g.s blk.id al (some (blk.addr, nsize)) := by
  have hcur : ∃ j, g.s.cur = .chunk j := by
    cases hc : g.s.cur with
    | claimed => exact absurd hc h.notClaimed
    | unallocated =>
      have := h.liveCur hc
      rw [this] at hb; cases hb
    | chunk j => exact ⟨j, rfl⟩
  have hl := h.live.removeBlock blk.id
  refine ⟨GhostPost.refl _, fun hx => (by cases hx), fun v hv => ?_⟩
  cases hv
  refine ⟨hcur, hl, fun init => liveOK_addBlock_of hl init hal ?_ ?_⟩
  · intro hpos
    exact placed_congr (s := g.s) rfl rfl (placed_sub (h.live.placed blk hb (by omega)) (Nat.le_refl _) (by omega))
  · intro x hx
    obtain ⟨hxm, hne⟩ := List.mem_filter.mp hx
    have hxb : x ≠ blk := by
      intro e; subst e; simp at hne
    have hdj : Mem.BlocksDisjoint x blk :=
      Mem.pairwise_of_mem_ne (fun a b hab => Mem.BlocksDisjoint.symm hab) h.live.disjoint hxm hb hxb
    unfold Mem.BlocksDisjoint at hdj
    unfold Mem.RangesDisjoint
    omega

/-- a new block was allocated by an allocation path, then bytes were copied into it -/
theorem alloc_copy_realloc {g : GState} (h : Inv cfg g) {L : Layout} {s1 s2 : State} {v : Nat × Nat}
    (p : AllocPost cfg .alloc L g.s s1 (.ok v)) {src len : Nat} {no : Bool}
    (hcp : copyBytes cfg s1 src v.1 len no = .ok s2) (id : Nat) :
    ReallocPost cfg g.s s2 id L.align (some (v.1, L.size)) := by
  have ho := Mem.copyBytes_onlyData hcp
  have hg := copyBytes_geom hcp
  obtain ⟨j, hj⟩ := p.cur_ok v rfl
  have hout : Mem.AllocOutcome cfg s2 v.1 L.size := (p.outcome rfl v rfl h.live).of_onlyData ho
  exact ReallocPost.ofOutcome ((GhostPost.ofAlloc p).trans (GhostPost.copy hcp)) ⟨j, hg.cur.trans hj⟩
    (allocOutcome_removeBlock hout id) (p.found v rfl)

/-- the form of the state after `deallocate_assume_last` of the last block -/
theorem deallocAssumeLast_form {s s1 : State} (hm : MinAlignOK s.minAlign) {i : Nat} {c : Chunk}
    (hcur : s.cur = .chunk i) (hi : s.chunks[i]? = some c) {ptr size : Nat}
    (hpos : if cfg.up then ptr + size = c.pos else ptr = c.pos)
    (he : deallocAssumeLast cfg s ptr size = .ok s1) :
    ∃ p1, s1 = setPos s i p1 ∧ (if cfg.up then ptr ≤ p1 else p1 ≤ ptr + size) := by
  rcases Mem.deallocAssumeLast_inv he with rfl | ⟨i', p, hcur', hp, rfl⟩
  · refine ⟨c.pos, (setPos_self hi).symm, ?_⟩
    cases hup : cfg.up
    · simp only [hup, Bool.false_eq_true, ↓reduceIte] at hpos ⊢; omega
    · simp only [hup, ↓reduceIte] at hpos ⊢; omega
  · have hii : i' = i := by rw [hcur] at hcur'; cases hcur'; rfl
    subst hii
    refine ⟨p, rfl, ?_⟩
    have := align_pos_dir hm hp
    cases hup : cfg.up
    · simp only [hup, Bool.false_eq_true, ↓reduceIte] at this ⊢; exact this
    · simp only [hup, ↓reduceIte] at this ⊢; exact this

/-- `shrink_unfit` of the last block when the new block does not fit the current chunk: the position is restored -/
theorem unfit_restore {g : GState} (h : Inv cfg g) {blk : Block} (hb : blk ∈ g.s.live)
    (hlast : isLast cfg g.s blk.addr blk.size = true) {s1 : State}
    (hd : deallocAssumeLast cfg g.s blk.addr blk.size = .ok s1) : setCurPos s1 (curPos cfg g.s) = g.s := by
  obtain ⟨i, c, hcur, hi, hb1, hb2, hb3⟩ := h.blockInCur' hb hlast
  have hpos := isLast_pos hlast hcur hi
  obtain ⟨p1, rfl, _⟩ := deallocAssumeLast_form h.geom.minAlign hcur hi hpos hd
  rw [curPos_chunk hcur hi, Mem.setCurPos_chunk (s := setPos g.s i p1) hcur, setPos_setPos, setPos_self hi]

/-- `shrink_unfit` of the last block when the new block fits the current chunk after the old block was given up -/
theorem unfit_fast {g : GState} (h : Inv cfg g) {blk : Block} (hb : blk ∈ g.s.live)
    (hlast : isLast cfg g.s blk.addr blk.size = true) {L : Layout} (hL : L.Valid) {s1 : State}
    (hd : deallocAssumeLast cfg g.s blk.addr blk.size = .ok s1) {v : Nat × Nat} {s2 : State}
    (ht : tryCurSpec cfg .alloc s1 L = some (v, s2)) {s3 : State} {src len : Nat} {no : Bool}
    (hcp : copyBytes cfg s2 src v.1 len no = .ok s3) :
    ReallocPost cfg g.s s3 blk.id L.align (some (v.1, L.size)) := by
  have hbc := h.blockInCur' hb hlast
  obtain ⟨d2, _⟩ := C10.deallocAssumeLast_inv h.cfgOK h.geom hbc hd
  obtain ⟨i, c, hcur, hi, hb1, hb2, hb3⟩ := hbc
  have hpos := isLast_pos hlast hcur hi
  obtain ⟨p1, rfl, hp1⟩ := deallocAssumeLast_form h.geom.minAlign hcur hi hpos hd
  obtain ⟨i', c1, np, hcur', hi', hs2, t1, t2, t3, t4, t5, t6⟩ := tryCurSpec_alloc_some h.cfgOK d2 hL ht
  have hcur1 : (setPos g.s i p1).cur = .chunk i := hcur
  have hii : i' = i := by rw [hcur1] at hcur'; cases hcur'; rfl
  subst hii
  rw [Mem.setPos_getElem?_self hi p1] at hi'
  cases hi'
  have e1 : Chunk.contentStart cfg { c with pos := p1 } = c.contentStart cfg := rfl
  have e2 : Chunk.contentEnd cfg { c with pos := p1 } = c.contentEnd cfg := rfl
  have e3 : ({ c with pos := p1 } : Chunk).pos = p1 := rfl
  rw [e1] at t1
  rw [e2] at t2
  rw [e3] at t6
  rw [Mem.setCurPos_chunk hcur1, setPos_setPos] at hs2
  subst hs2
  have hout : Mem.AllocOutcome cfg (removeBlock (setPos g.s i' np) blk.id) v.1 L.size := by
    apply shr_recarve h.live ((disjoint_iff g.s).mp h.disj) hb hcur hi hpos
    cases hup : cfg.up
    · simp only [hup, Bool.false_eq_true, ↓reduceIte] at hp1 t6 ⊢; omega
    · simp only [hup, ↓reduceIte] at hp1 t6 ⊢; omega
  have ho := Mem.copyBytes_onlyData hcp
  have hg := copyBytes_geom hcp
  exact ReallocPost.ofOutcome ((GhostPost.setPos g.s i' np).trans (GhostPost.copy hcp)) ⟨i', hg.cur.trans hcur⟩
    (hout.of_onlyData (onlyData_removeBlock ho blk.id)) t4

/-- the `alloc`-then-copy tail shared by `shrink_unfit` (not the last block) and `WithoutShrink::shrink` -/
theorem alloc_tail_realloc {g : GState} (h : Inv cfg g) (hr : RespsOK cfg g.s) (hf : RespsFresh g.s)
    {L : Layout} (hL : L.Valid) (id ptr : Nat) {s' : State} {r : Except AErr (Nat × Nat)}
    (he : (alloc cfg g.s L >>= fun x =>
      (match x with
        | (s', Except.error e) => (pure (s', Except.error e) : R (State × Except AErr (Nat × Nat)))
        | (s', Except.ok np) => do
          let s'' ← copyBytes cfg s' ptr np L.size true
          pure (s'', Except.ok (np, L.size)))) = .ok (s', r)) :
    ReallocPost cfg g.s s' id L.align (exRes r) := by
  obtain ⟨⟨s1, r1⟩, h1, he⟩ := bind_eq_ok he
  obtain ⟨r', hr', p⟩ := alloc_post h.cfgOK h.geom hr h.disj hf hL h1
  cases r' with
  | error e =>
    simp only [Except.map] at hr'
    subst hr'
    cases he
    exact ReallocPost.ofNone (GhostPost.ofAlloc p) (p.live h.live)
  | ok v =>
    simp only [Except.map] at hr'
    subst hr'
    simp only at he
    obtain ⟨s2, h2, he⟩ := bind_eq_ok he
    cases he
    exact alloc_copy_realloc h p h2 id

/-! ## `WithoutShrink::shrink` -/

theorem shrinkWithoutShrink_realloc {g : GState} (h : Inv cfg g) (hr : RespsOK cfg g.s) (hf : RespsFresh g.s)
    {blk : Block} (hb : blk ∈ g.s.live) {L : Layout} (hL : L.Valid) (hsz : L.size ≤ blk.size)
    {s' : State} {r : Except AErr (Nat × Nat)}
    (he : shrinkWithoutShrink cfg g.s blk.addr blk.size L = .ok (s', r)) :
    ReallocPost cfg g.s s' blk.id L.align (exRes r) := by
  unfold shrinkWithoutShrink at he
  split at he
  · rename_i hfit
    cases he
    exact keep_realloc h hb (alignFits_dvd hfit) hsz
  · exact alloc_tail_realloc h hr hf hL blk.id blk.addr he

/-! ## `shrink` -/

theorem shrink_realloc {g : GState} (h : Inv cfg g) (hr : RespsOK cfg g.s) (hf : RespsFresh g.s)
    {blk : Block} (hb : blk ∈ g.s.live) {L : Layout} (hL : L.Valid)
    {s' : State} {r : Except AErr (Nat × Nat)}
    (he : shrink cfg g.s blk.addr blk.size L = .ok (s', r)) :
    ReallocPost cfg g.s s' blk.id L.align (exRes r) := by
  have hc := h.cfgOK
  unfold shrink at he
  obtain ⟨_, hassert, he⟩ := bind_eq_ok he
  have hsz : L.size ≤ blk.size := by
    have := liftM_eq_ok hassert
    unfold Rs.assert at this
    split at this
    · simpa using ‹decide (L.size ≤ blk.size) = true›
    · cases this
  have hcu : Hints.custom.sma = true → L.align ∣ L.size := fun hx => by cases hx
  split at he
  · -- the alignment does not fit: `shrink_unfit`
    split at he
    · rename_i hcond
      simp only [Bool.and_eq_true] at hcond
      have hbc := h.blockInCur' hb hcond.2
      obtain ⟨s1, h1, he⟩ := bind_eq_ok he
      obtain ⟨d2, _⟩ := C10.deallocAssumeLast_inv hc h.geom hbc h1
      rw [tryCur_eq hc d2 .alloc hL hcu] at he
      simp only [r_ok_bind] at he
      cases ht : tryCurSpec cfg .alloc s1 L with
      | some x =>
        obtain ⟨⟨np, snd⟩, s2⟩ := x
        rw [ht] at he
        simp only at he
        obtain ⟨s3, h3, he⟩ := bind_eq_ok he
        cases he
        exact unfit_fast h hb hcond.2 hL h1 ht h3
      | none =>
        rw [ht] at he
        simp only at he
        rw [unfit_restore h hb hcond.2 h1] at he
        obtain ⟨⟨s3, r3⟩, h3, he⟩ := bind_eq_ok he
        have p3 := inAnotherChunk_post hc h.geom hr h.disj hf .alloc hL hcu (fun hx => by cases hx) h3
        simp only at he
        cases r3 with
        | error e =>
          cases he
          exact ReallocPost.ofNone (GhostPost.ofAlloc p3) (p3.live h.live)
        | ok v =>
          obtain ⟨np, snd⟩ := v
          simp only at he
          obtain ⟨s4, h4, he⟩ := bind_eq_ok he
          cases he
          exact alloc_copy_realloc h p3 h4 blk.id
    · exact alloc_tail_realloc h hr hf hL blk.id blk.addr he
  · rename_i hfit
    have hfit' : alignFits blk.addr L.align = true := by simpa using hfit
    have hap := alignFits_dvd hfit'
    split at he
    · cases he
      exact keep_realloc h hb hap (Nat.le_refl _)
    · rename_i hcond
      have hcond' : cfg.shrinks = true ∧ isLast cfg g.s blk.addr blk.size = true := by
        simp only [Bool.or_eq_true, Bool.not_eq_true', not_or, Bool.not_eq_false] at hcond
        exact hcond
      obtain ⟨i, c, hcur, hi, _⟩ := h.blockInCur' hb hcond'.2
      split at he
      · rename_i hup
        obtain ⟨e, h1, he⟩ := bind_eq_ok he
        obtain ⟨np, h2, he⟩ := bind_eq_ok he
        rw [hcur] at he
        simp only at he
        cases he
        exact inplace_up h hb hup hcond'.2 hsz hap (liftM_eq_ok h1) (liftM_eq_ok h2)
      · rename_i hup
        have hup' : cfg.up = false := by simpa using hup
        obtain ⟨oldEnd, h1, he⟩ := bind_eq_ok he
        obtain ⟨newAddr, h2, he⟩ := bind_eq_ok he
        obtain ⟨s1, h3, he⟩ := bind_eq_ok he
        rw [hcur] at he
        simp only at he
        cases he
        exact inplace_down h hb hup' hcond'.2 hsz hL.p2 hL.lt64 hap (liftM_eq_ok h1) (liftM_eq_ok h2) h3

theorem inv_shrink {g g' : GState} {out : Out} {b : Nat} {L : Layout} {via : Via} (h : Inv cfg g)
    (hr : RespsOK cfg g.s) (hf : RespsFresh g.s)
    (hs : stepCore cfg g (.shrink b L via) = .ok (g', out)) : Inv cfg g' := by
  unfold stepCore at hs
  simp only [bind, Except.bind, pure, Except.pure] at hs
  split at hs
  · cases hs
  · rename_i u hu
    have hL := validLayout_valid hu
    split at hs
    · cases hs
    · rename_i u2 hu2
      have hp := noPrepared_ok hu2
      split at hs
      · cases hs
      · rename_i blk hblk
        obtain ⟨hmem, hid⟩ := Mem.findBlock_ok hblk
        split at hs
        · cases hs
        · rename_i hsz
          have hsz' : L.size ≤ blk.size := by omega
          split at hs
          all_goals
            split at hs
            · cases hs
            · rename_i x hx
              obtain ⟨s1, r1⟩ := x
              have both : BasicPost cfg g.s s1 ∧ ReallocPost cfg g.s s1 blk.id L.align (exRes r1) := by
                first
                | exact ⟨shrinkWithoutShrink_post h.cfgOK h.geom hr hL hx,
                    shrinkWithoutShrink_realloc h hr hf hmem hL hsz' hx⟩
                | exact ⟨shrink_post h.cfgOK h.geom hr hL (h.blockInCur' hmem) hx,
                    shrink_realloc h hr hf hmem hL hx⟩
              obtain ⟨bp, rp⟩ := both
              have key := inv_of_reallocPost h hp bp.inv (bp.trace.disjoint h.disj hf).1 bp.minAlign rp hL.1
              subst hid
              cases r1 with
              | error e =>
                simp only at hs
                cases hs
                exact key.1 rfl
              | ok v =>
                obtain ⟨np, nsize⟩ := v
                simp only at hs
                cases hs
                exact key.2 (np, nsize) rfl _

end Arena.Hist
